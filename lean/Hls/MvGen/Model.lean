import Hls.Gen.MvGen
import Hls.Gen.Arith
/-!
# Multivariant playlist generation (C16) — executable model

Mirrors, statement by statement,
* `Muxer.Start` (`muxer.go`): validation, leading track, stream / rendition / default / name assignment;
* `Muxer.generateMultivariantPlaylist` + `muxerStream.populateMultivariantPlaylist`;
* `bandwidth()` (Go `uint64` division; fixed code = total, `bandwidthWith`/`bandwidthLegacy` = with an explicit `Panic`);
* `codecparams.Marshal`'s string assembly over ALREADY PARSED header fields
  (the bit-level SPS / sequence-header parsing is mediacommon's, not modelled);
* the little segment bookkeeping needed to know which `(size?, duration)` entries
  `m.streams[0].segments` holds (durations only — sizes come from the container encoder).

Constants and case lists come from `Hls.Gen.MvGen` (regenerated from the source).
Core Lean only (the compiled driver imports this file).
-/
namespace Hls.MvGen
open Hls.Gen

inductive Variant | mpegts | fmp4 | lowLatency
  deriving DecidableEq, Repr

inductive Codec | av1 | vp9 | h265 | h264 | opus | mpeg4audio
  deriving DecidableEq, Repr

def Codec.caseName : Codec → String
  | .av1 => "AV1" | .vp9 => "VP9" | .h265 => "H265" | .h264 => "H264"
  | .opus => "Opus" | .mpeg4audio => "MPEG4Audio"

/-- `isVideo`: membership in the regenerated case list of the type switch. -/
def isVideo (c : Codec) : Bool := MvGen.isVideoCases.contains c.caseName

/-! ## codecparams.Marshal over parsed header fields -/

/-- `leadingZeros(v, size)` -/
def leadingZeros (v : Nat) (size : Nat) : String :=
  let out := toString v
  if out.length ≥ size then out
  else String.ofList (List.replicate (size - out.length) '0') ++ out

def hexDigit (n : Nat) : Char :=
  if n < 10 then Char.ofNat (48 + n) else Char.ofNat (87 + n)

/-- `fmt.Sprintf("%x", v)` -/
def hexNat (v : Nat) : String := String.ofList ((Nat.toDigits 16 v))

/-- `hex.EncodeToString` of one byte -/
def hexByte (b : Nat) : String := String.ofList [hexDigit (b / 16 % 16), hexDigit (b % 16)]

def encBool (b : Bool) : String := if b then "1" else "0"

/-- bits → number, bit `i` of the result is element `i` (`o |= 1 << i`) -/
def bitsLE : List Bool → Nat
  | [] => 0
  | b :: rest => (if b then 1 else 0) + 2 * bitsLE rest

/-- `h265EncodeGeneralConstraintIndicatorFlags`: first byte from flags 0..7 (flag 0 is bit 7),
second byte from flags 8..13 (flag 8 is bit 7), the second printed only when non-zero. -/
def h265Constraint (flags : List Bool) : String :=
  let o1 := bitsLE (flags.take 8).reverse
  let o2 := 4 * bitsLE ((flags.drop 8).take 6).reverse
  if o2 ≠ 0 then hexNat o1 ++ "." ++ hexNat o2 else hexNat o1

/-- Already-parsed header fields of a track's current parameter sets. -/
inductive Params
  | h264 (b1 b2 b3 : Nat)                      -- SPS[1], SPS[2], SPS[3]
  | h265 (profileSpace profileIdc : Nat) (compat : List Bool) (tier levelIdc : Nat) (constraint : List Bool)
  | vp9 (profile bitDepth : Nat)
  | av1 (seqProfile levelIdx : Nat) (tier : Bool) (bitDepth : Nat) (mono subX subY : Bool) (chromaPos : Nat)
        (colorDesc : Option (Nat × Nat × Nat × Bool))
  | mpeg4audio (type : Nat)
  | opus
  | invalid                                     -- unparsable / too short: `Marshal` returns ""
  deriving Repr, DecidableEq

def prefixOf (caseName : String) : String :=
  match MvGen.marshalCases.find? (fun p => p.1 == caseName) with
  | some (_, pre :: _) => pre
  | _ => ""

/-- `codecparams.Marshal` -/
def codecString : Params → String
  | .av1 sp li tier bd mono sx sy cp cd =>
    let v := prefixOf "AV1" ++ toString sp ++ "." ++ leadingZeros li 2 ++ (if tier then "H" else "M") ++ "." ++
      leadingZeros bd 2 ++ "." ++ encBool mono ++ "." ++ encBool sx ++ encBool sy ++ toString cp ++ "."
    match cd with
    | some (p, t, m, r) => v ++ leadingZeros p 2 ++ "." ++ leadingZeros t 2 ++ "." ++ leadingZeros m 2 ++ "." ++ encBool r
    | none => v ++ "01.01.01.0"
  | .vp9 profile bd => prefixOf "VP9" ++ leadingZeros profile 2 ++ "." ++ "10." ++ leadingZeros bd 2
  | .h265 ps pi compat tier li cons =>
    prefixOf "H265" ++ (if 1 ≤ ps ∧ ps ≤ 3 then String.ofList [Char.ofNat (65 + (ps - 1))] else "") ++ toString pi ++ "." ++
      hexNat (bitsLE compat) ++ "." ++ (if tier > 0 then "H" else "L") ++ toString li ++ "." ++ h265Constraint cons
  | .h264 b1 b2 b3 => prefixOf "H264" ++ hexByte b1 ++ hexByte b2 ++ hexByte b3
  | .opus => prefixOf "Opus"
  | .mpeg4audio t => prefixOf "MPEG4Audio" ++ toString t
  | .invalid => ""

/-! ## Start -/

structure Track where
  codec : Codec
  params : Params            -- current parameters (parsed header fields)
  paramsId : Nat := 0        -- identity of the current parameter-set bytes (what `bytes.Equal` compares)
  res : String := ""         -- RESOLUTION token of the current video parameters ("" for audio)
  fps : Option String := none -- FRAME-RATE token (only H264/H265 with timing info)
  name : String := ""
  language : String := ""
  isDefault : Bool := false
  clockRate : Int := 90000
  deriving Repr

structure Stream where
  id : String
  isLeading : Bool
  isRendition : Bool
  isDefault : Bool
  name : String
  language : String
  tracks : List Nat          -- indices into the track list
  deriving Repr, DecidableEq

inductive StartErr
  | noTracks | tsMultiVideo | tsVideoNotH264 | tsMultiAudio | tsAudioNotAAC
  | multiVideo | multiDefaultAudio | segCountLL | segCountOther
  deriving Repr, DecidableEq

/-- the MPEG-TS validation loop: state `(hasVideo, hasAudio)` -/
def checkMPEGTS : List Track → Bool → Bool → Except StartErr Unit
  | [], _, _ => .ok ()
  | t :: rest, hv, ha =>
    if isVideo t.codec then
      if hv then .error .tsMultiVideo
      else if t.codec ≠ .h264 then .error .tsVideoNotH264
      else checkMPEGTS rest true ha
    else
      if ha then .error .tsMultiAudio
      else if t.codec ≠ .mpeg4audio then .error .tsAudioNotAAC
      else checkMPEGTS rest hv true

/-- the validation loop of the other variants: state `hasVideo` -/
def checkOther : List Track → Bool → Except StartErr Unit
  | [], _ => .ok ()
  | t :: rest, hv =>
    if isVideo t.codec then
      if hv then .error .multiVideo else checkOther rest true
    else checkOther rest hv

/-- the default-audio loop: state `hasDefaultAudio` -/
def checkDefault : List Track → Bool → Except StartErr Bool
  | [], hd => .ok hd
  | t :: rest, hd =>
    if !isVideo t.codec && t.isDefault then
      if hd then .error .multiDefaultAudio else checkDefault rest true
    else checkDefault rest hd

def hasVideo (tracks : List Track) : Bool := tracks.any fun t => isVideo t.codec

def streamId (t : Track) (i : Nat) : String :=
  (if isVideo t.codec then MvGen.streamIdVideoPrefix else MvGen.streamIdAudioPrefix) ++ toString (i + 1)

/-- the stream-creation loop of `Start` for the fMP4 variants; `chosen` = `defaultAudioChosen` -/
def mkStreams (n : Nat) (hv hd : Bool) : List Track → Nat → Bool → List Stream
  | [], _, _ => []
  | t :: rest, i, chosen =>
    let id := streamId t i
    let leading := isVideo t.codec || (!hv && i == 0)
    let rend := !leading || (!isVideo t.codec && decide (n > 1))
    let dflt := if rend then (if !hd then !chosen else t.isDefault) else false
    let chosen' := if rend && !hd && !chosen then true else chosen
    let name := if rend then (if t.name ≠ "" then t.name else id) else ""
    { id := id, isLeading := leading, isRendition := rend, isDefault := dflt, name := name,
      language := t.language, tracks := [i] } :: mkStreams n hv hd rest (i + 1) chosen'

/-- `Muxer.Start` (what C16 depends on): every rejection, then the stream list. -/
def mpegtsStream (n : Nat) : Stream :=
  { id := MvGen.streamIdMPEGTS, isLeading := true, isRendition := false, isDefault := false,
    name := "", language := "", tracks := List.range n }

def start (v : Variant) (segCount : Nat) (tracks : List Track) : Except StartErr (List Stream) :=
  if tracks.isEmpty then .error .noTracks else
  match (if v = .mpegts then checkMPEGTS tracks false false else checkOther tracks false) with
  | .error e => .error e
  | .ok _ =>
    match checkDefault tracks false with
    | .error e => .error e
    | .ok hd =>
      if v = .lowLatency ∧ segCount < 7 then .error .segCountLL
      else if v ≠ .lowLatency ∧ segCount < 3 then .error .segCountOther
      else if v = .mpegts then .ok [mpegtsStream tracks.length]
      else .ok (mkStreams tracks.length (hasVideo tracks) hd tracks 0 false)

/-! ## bandwidth()

`bandwidth` / `bwLoop` mirror the code AFTER the repair of finding F13 (`fix: do not divide by a zero
segment duration in bandwidth()`): a listed segment with a zero duration is left out of the loop, and
a window without any timed segment yields `(maxBandwidth, 0)`. They are total — there is no division
by zero left, hence no `Panic` outcome.

`bandwidthWith skip guard` is the same code with each of the two guards present or absent
(`skip` = the `&& seg.getDuration() > 0` conjunct of the loop's `if`, `guard` = the
`if durations == 0 { return … }` before the final division). `bandwidthLegacy = bandwidthWith false false`
is the definition before the fix (it panics, F13). `bandwidthCode` instantiates the two flags with what
the extractor found in the source (`Hls.Gen.MvGen.bandwidthSkipsZeroDuration/…GuardsZeroTotal`): it is
what the driver runs, and `c16_no_panic` is about it. -/

inductive Seg
  | gap (dur : Nat)
  | seg (size dur : Nat)
  deriving Repr, DecidableEq

inductive Panic | divideByZero
  deriving Repr, DecidableEq

def nsPerSec : Nat := 1000000000

/-- the loop of `bandwidth` (fixed code): state `(maxBandwidth, sizes, durations)` -/
def bwLoop : List Seg → Nat → Nat → Nat → Nat × Nat × Nat
  | [], mx, sz, du => (mx, sz, du)
  | .gap _ :: rest, mx, sz, du => bwLoop rest mx sz du
  | .seg size dur :: rest, mx, sz, du =>
    if dur = 0 then bwLoop rest mx sz du          -- `&& seg.getDuration() > 0`
    else
      let bw := 8 * size * nsPerSec / dur
      bwLoop rest (if bw > mx then bw else mx) (sz + size) (du + dur)

/-- `bandwidth(segments)` → `(maxBandwidth, averageBandwidth)` (fixed code); unsigned 64-bit arithmetic
without wrap-around (sizes below 2.3 GB, see notes). -/
def bandwidth (segs : List Seg) : Nat × Nat :=
  match segs with
  | [] => (0, 0)
  | _ =>
    match bwLoop segs 0 0 0 with
    | (mx, sz, du) =>
      if du = 0 then (mx, 0)                       -- `if durations == 0 { return int(maxBandwidth), 0 }`
      else (mx, 8 * sz * nsPerSec / du)

/-- the loop with the zero-duration conjunct present (`skip`) or absent -/
def bwLoopWith (skip : Bool) : List Seg → Nat → Nat → Nat → Except Panic (Nat × Nat × Nat)
  | [], mx, sz, du => .ok (mx, sz, du)
  | .gap _ :: rest, mx, sz, du => bwLoopWith skip rest mx sz du
  | .seg size dur :: rest, mx, sz, du =>
    if dur = 0 then (if skip then bwLoopWith skip rest mx sz du else .error .divideByZero)
    else
      let bw := 8 * size * nsPerSec / dur
      bwLoopWith skip rest (if bw > mx then bw else mx) (sz + size) (du + dur)

/-- `bandwidth(segments)` with each of the two guards of the fix present or absent -/
def bandwidthWith (skip guard : Bool) (segs : List Seg) : Except Panic (Nat × Nat) :=
  match segs with
  | [] => .ok (0, 0)
  | _ =>
    match bwLoopWith skip segs 0 0 0 with
    | .error e => .error e
    | .ok (mx, sz, du) =>
      if du = 0 then (if guard then .ok (mx, 0) else .error .divideByZero)
      else .ok (mx, 8 * sz * nsPerSec / du)

/-- `bandwidth()` as it was before the fix of F13 (no guard at all) -/
def bandwidthLegacy (segs : List Seg) : Except Panic (Nat × Nat) := bandwidthWith false false segs

/-- `bandwidth()` as the extractor found it in the source -/
def bandwidthCode (segs : List Seg) : Except Panic (Nat × Nat) :=
  bandwidthWith MvGen.bandwidthSkipsZeroDuration MvGen.bandwidthGuardsZeroTotal segs

/-! ### specification side of C16's bandwidth clause: peak and mean bit rate of the listed segments -/

def Seg.isGap : Seg → Bool | .gap _ => true | .seg _ _ => false

/-- bit rate of one listed (non-gap) segment, bits per second, rounded down -/
def rates : List Seg → List Nat
  | [] => []
  | .gap _ :: rest => rates rest
  | .seg size dur :: rest => (8 * size * nsPerSec / dur) :: rates rest

def totalSize : List Seg → Nat
  | [] => 0
  | .gap _ :: rest => totalSize rest
  | .seg size _ :: rest => size + totalSize rest

def totalDur : List Seg → Nat
  | [] => 0
  | .gap _ :: rest => totalDur rest
  | .seg _ dur :: rest => dur + totalDur rest

/-- the listed entries without the zero-duration segments (gaps are kept: `rates`, `totalSize`,
`totalDur` ignore them anyway) — what the fixed `bandwidth()` computes its two numbers from -/
def timed : List Seg → List Seg
  | [] => []
  | .gap d :: rest => .gap d :: timed rest
  | .seg size dur :: rest => if dur = 0 then timed rest else .seg size dur :: timed rest

def peakRate (segs : List Seg) : Nat := (rates segs).foldl (fun a b => if b > a then b else a) 0
def meanRate (segs : List Seg) : Nat := 8 * totalSize segs * nsPerSec / totalDur segs

/-! ## populateMultivariantPlaylist / generateMultivariantPlaylist -/

structure Rendition where
  typ : String
  groupID : String
  name : String
  language : String
  autoselect : Bool
  default : Bool
  uri : Option String
  deriving Repr, DecidableEq

structure VariantEntry where
  bandwidth : Nat
  averageBandwidth : Nat
  codecs : List String := []
  resolution : String := ""
  frameRate : Option String := none
  uri : String := ""
  audio : String := ""
  deriving Repr, DecidableEq

structure Multivariant where
  version : Nat
  independentSegments : Bool
  variants : List VariantEntry
  renditions : List Rendition
  deriving Repr, DecidableEq

def mediaPlaylistPath (id : String) : String := id ++ MvGen.mediaPlaylistSuffix

def withQuery (uri rawQuery : String) : String :=
  if rawQuery ≠ "" then uri ++ "?" ++ rawQuery else uri

/-- the `for _, track := range s.tracks` loop -/
def addTrack (mv : VariantEntry) (t : Track) : VariantEntry :=
  let c := codecString t.params
  let mv := if mv.codecs.contains c then mv else { mv with codecs := mv.codecs ++ [c] }
  if isVideo t.codec then
    let mv := { mv with resolution := t.res }
    match t.fps with
    | some f => if t.codec = .h264 ∨ t.codec = .h265 then { mv with frameRate := some f } else mv
    | none => mv
  else mv

def streamTracks (tracks : List Track) (s : Stream) : List Track :=
  s.tracks.filterMap fun i => tracks[i]?

/-- `muxerStream.populateMultivariantPlaylist` -/
def populate (tracks : List Track) (rawQuery : String) (acc : VariantEntry × List Rendition) (s : Stream) :
    VariantEntry × List Rendition :=
  let (mv, rs) := acc
  let mv := (streamTracks tracks s).foldl addTrack mv
  let uri := withQuery (mediaPlaylistPath s.id) rawQuery
  let mv := if s.isLeading then { mv with uri := uri } else mv
  if s.isRendition then
    ({ mv with audio := MvGen.variantAudioGroup },
     rs ++ [{ typ := MvGen.renditionType, groupID := MvGen.renditionGroupID, name := s.name, language := s.language,
              autoselect := MvGen.renditionAutoselect, default := s.isDefault,
              uri := if !s.isLeading then some uri else none }])
  else (mv, rs)

/-- `Muxer.generateMultivariantPlaylist` given the result of `bandwidth(m.streams[0].segments)` -/
def generateWith (v : Variant) (streams : List Stream) (tracks : List Track) (rawQuery : String)
    (bw : Nat × Nat) : Multivariant :=
  let (mv, rs) := streams.foldl (populate tracks rawQuery) ({ bandwidth := bw.1, averageBandwidth := bw.2 }, [])
  { version := if v = .mpegts then MvGen.versionMPEGTS else MvGen.versionOther,
    independentSegments := MvGen.independentSegments,
    variants := [mv], renditions := rs }

/-- `Muxer.generateMultivariantPlaylist` (fixed code: `bandwidth()` cannot panic) -/
def generate (v : Variant) (streams : List Stream) (tracks : List Track) (rawQuery : String)
    (segs0 : List Seg) : Multivariant :=
  generateWith v streams tracks rawQuery (bandwidth segs0)

/-- `Muxer.generateMultivariantPlaylist` over `bandwidth()` as found in the source (what the driver runs) -/
def generateCode (v : Variant) (streams : List Stream) (tracks : List Track) (rawQuery : String)
    (segs0 : List Seg) : Except Panic Multivariant :=
  match bandwidthCode segs0 with
  | .error e => .error e
  | .ok bw => .ok (generateWith v streams tracks rawQuery bw)

/-! ## Segment bookkeeping of `m.streams[0].segments` (durations only)

All streams rotate together with the same `nextDTS` (`rotateSegmentsInner`), so the durations in
`streams[0].segments` are those cut by the LEADING track. Mirrors `fmp4WriteSample` steps 1–4 and 7,
the MPEG-TS front ends of `writeH264` / `writeMPEG4Audio`, and the window part of `rotateSegments`. -/

inductive Entry | gap (dur : Int) | seg (dur : Int)
  deriving Repr, DecidableEq

structure Look where
  dts : Int
  deriving Repr

structure SegSt where
  variant : Variant
  segCount : Nat
  segMin : Int
  rate : Int                       -- leading track clock rate
  leadVideo : Bool
  look : Option Look := none       -- fMP4: the leading track's look-ahead sample
  hasSeg : Bool := false
  segStart : Int := 0
  entries : List Entry := []       -- streams[0].segments
  auCount : Nat := 0               -- MPEG-TS audio-only: calls since the segment was opened
  pending : Bool := false          -- segmenter.pendingParamsChange
  deriving Repr

def rotate (s : SegSt) (next : Int) : SegSt :=
  let d := next - s.segStart
  let entries :=
    if s.variant = .lowLatency ∧ s.entries.isEmpty then List.replicate 7 (Entry.gap d) else s.entries
  let entries := entries ++ [Entry.seg d]
  let entries := if entries.length > s.segCount then entries.drop 1 else entries
  { s with entries := entries, segStart := next, auCount := 0 }

/-- a write on the LEADING track (`dts` in ticks as passed by the caller; `ra`; `carries` = the unit
carries parameter sets different from the stored ones) -/
def leadWrite (s : SegSt) (dts : Int) (ra : Bool) (differs : Bool) : SegSt :=
  let s := if s.leadVideo && differs then { s with pending := true } else s
  let changed := s.leadVideo && ra && s.pending
  let s := if changed then { s with pending := false } else s
  if s.variant = .mpegts then
    let now := timestampToDuration dts s.rate
    if !s.hasSeg then { s with hasSeg := true, segStart := now, auCount := if s.leadVideo then 0 else 1 }
    else if s.leadVideo then
      if ra && (decide (now - s.segStart ≥ s.segMin) || changed) then rotate s now else s
    else
      let s := if decide (s.auCount ≥ 100) && decide (now - s.segStart ≥ s.segMin) then rotate s now else s
      { s with auCount := s.auCount + 1 }
  else
    let dts := dts + durationToTimestamp 10000000000 s.rate
    if dts < 0 then s else
    match s.look with
    | none => { s with look := some { dts := dts } }
    | some old =>
      let s := { s with look := some { dts := dts } }
      let s := if s.hasSeg then s else { s with hasSeg := true, segStart := timestampToDuration old.dts s.rate }
      let next := timestampToDuration dts s.rate
      if ra && (changed || decide (next - s.segStart ≥ s.segMin)) then rotate s next else s

def hasContent (s : SegSt) : Bool :=
  if s.variant = .fmp4 then decide (s.entries.length ≥ 2) else decide (s.entries.length ≥ 1)

end Hls.MvGen
