import Hls.MvGen.Model
import Mathlib.Tactic.Ring
import Mathlib.Tactic.Linarith
/-!
# `Start`: what the accepted layouts look like (helper lemmas for C16)
-/
namespace Hls.MvGen
open Hls.Gen

/-- track `i` is the leading one -/
def lead (hv : Bool) (t : Track) (i : Nat) : Bool := isVideo t.codec || (!hv && i == 0)

/-- track `i` becomes a rendition (`isRendition` of `Start`) -/
def rendTrack (n : Nat) (hv : Bool) (t : Track) (i : Nat) : Bool :=
  !lead hv t i || (!isVideo t.codec && decide (n > 1))

/-- everything `Start` assigns to a stream except the DEFAULT flag -/
structure StreamCore where
  id : String
  isLeading : Bool
  isRendition : Bool
  name : String
  language : String
  tracks : List Nat
  deriving DecidableEq, Repr

def Stream.core (s : Stream) : StreamCore :=
  { id := s.id, isLeading := s.isLeading, isRendition := s.isRendition, name := s.name,
    language := s.language, tracks := s.tracks }

/-- what `Start` derives for track `t` at index `i` -/
def coreOf (n : Nat) (hv : Bool) (ti : Track × Nat) : StreamCore :=
  let id := streamId ti.1 ti.2
  let r := rendTrack n hv ti.1 ti.2
  { id := id, isLeading := lead hv ti.1 ti.2, isRendition := r,
    name := if r then (if ti.1.name ≠ "" then ti.1.name else id) else "",
    language := ti.1.language, tracks := [ti.2] }

theorem mkStreams_core (n : Nat) (hv hd : Bool) : ∀ (ts : List Track) (i : Nat) (chosen : Bool),
    (mkStreams n hv hd ts i chosen).map Stream.core = (ts.zipIdx i).map (coreOf n hv) := by
  intro ts
  induction ts with
  | nil => intro i c; simp [mkStreams]
  | cons t rest ih =>
    intro i c
    simp only [mkStreams, List.zipIdx_cons, List.map_cons]
    rw [ih]
    congr 1

/-- user-marked default present (`hasDefaultAudio`): the DEFAULT flag of a rendition is the track's flag -/
theorem mkStreams_full_user (n : Nat) (hv : Bool) : ∀ (ts : List Track) (i : Nat) (chosen : Bool),
    (mkStreams n hv true ts i chosen).map (fun s => (s.core, s.isDefault)) =
      (ts.zipIdx i).map (fun ti => (coreOf n hv ti, rendTrack n hv ti.1 ti.2 && ti.1.isDefault)) := by
  intro ts
  induction ts with
  | nil => intro i c; simp [mkStreams]
  | cons t rest ih =>
    intro i c
    simp only [mkStreams, List.zipIdx_cons, List.map_cons]
    rw [ih]
    congr 1
    simp only [rendTrack, lead, coreOf, Stream.core]
    cases h : (!(isVideo t.codec || (!hv && i == 0)) || (!isVideo t.codec && decide (n > 1))) <;> simp [h]

/-- `[!chosen, false, false, …]` of length `k` -/
def firstTrue (chosen : Bool) : Nat → List Bool
  | 0 => []
  | k + 1 => (!chosen) :: List.replicate k false

theorem firstTrue_true (k : Nat) : firstTrue true k = List.replicate k false := by
  cases k <;> simp [firstTrue, List.replicate_succ]

/-- no user-marked default: exactly the first rendition gets DEFAULT -/
theorem mkStreams_default_first (n : Nat) (hv : Bool) : ∀ (ts : List Track) (i : Nat) (chosen : Bool),
    ((mkStreams n hv false ts i chosen).filter (·.isRendition)).map (·.isDefault) =
      firstTrue chosen ((mkStreams n hv false ts i chosen).filter (·.isRendition)).length := by
  intro ts
  induction ts with
  | nil => intro i c; simp [mkStreams, firstTrue]
  | cons t rest ih =>
    intro i c
    simp only [mkStreams]
    by_cases hr : (!(isVideo t.codec || (!hv && i == 0)) || (!isVideo t.codec && decide (n > 1))) = true
    · simp only [hr, List.filter_cons, ↓reduceIte, List.map_cons, List.length_cons, firstTrue]
      have hc : (if (true && !false && !c) = true then true else c) = true := by cases c <;> simp
      simp only [hc] at ih ⊢
      rw [ih, firstTrue_true]
      simp
    · have hr' : (!(isVideo t.codec || (!hv && i == 0)) || (!isVideo t.codec && decide (n > 1))) = false := by
        simpa using hr
      simp only [hr', List.filter_cons, Bool.false_eq_true, ↓reduceIte, Bool.false_and]
      exact ih (i + 1) c

/-! ### the validation loops -/

def isVideoT (t : Track) : Bool := isVideo t.codec
def isDefAudio (t : Track) : Bool := !isVideo t.codec && t.isDefault

theorem checkOther_ok : ∀ (ts : List Track) (hv : Bool), checkOther ts hv = .ok () →
    ts.countP isVideoT + (if hv then 1 else 0) ≤ 1 := by
  intro ts
  induction ts with
  | nil => intro hv _; cases hv <;> simp
  | cons t rest ih =>
    intro hv h
    simp only [checkOther] at h
    by_cases hvid : isVideo t.codec = true
    · simp only [hvid, ↓reduceIte] at h
      cases hv with
      | true => simp at h
      | false =>
        simp only [Bool.false_eq_true, ↓reduceIte] at h
        have := ih true h
        simp only [↓reduceIte] at this
        rw [List.countP_cons]
        simp only [isVideoT, hvid, ↓reduceIte, Bool.false_eq_true]
        omega
    · have hvid' : isVideo t.codec = false := by simpa using hvid
      simp only [hvid', Bool.false_eq_true, ↓reduceIte] at h
      have := ih hv h
      rw [List.countP_cons]
      simp only [isVideoT, hvid', Bool.false_eq_true, ↓reduceIte]
      omega

theorem checkMPEGTS_ok : ∀ (ts : List Track) (hv ha : Bool), checkMPEGTS ts hv ha = .ok () →
    ts.countP isVideoT + (if hv then 1 else 0) ≤ 1 := by
  intro ts
  induction ts with
  | nil => intro hv ha _; cases hv <;> simp
  | cons t rest ih =>
    intro hv ha h
    simp only [checkMPEGTS] at h
    by_cases hvid : isVideo t.codec = true
    · simp only [hvid, ↓reduceIte] at h
      cases hv with
      | true => simp at h
      | false =>
        simp only [Bool.false_eq_true, ↓reduceIte] at h
        by_cases hc : t.codec ≠ .h264
        · simp [hc] at h
        · simp only [hc, ↓reduceIte] at h
          have := ih true ha h
          simp only [↓reduceIte] at this
          rw [List.countP_cons]
          simp only [isVideoT, hvid, ↓reduceIte, Bool.false_eq_true]
          omega
    · have hvid' : isVideo t.codec = false := by simpa using hvid
      simp only [hvid', Bool.false_eq_true, ↓reduceIte] at h
      cases ha with
      | true => simp at h
      | false =>
        simp only [Bool.false_eq_true, ↓reduceIte] at h
        by_cases hc : t.codec ≠ .mpeg4audio
        · simp [hc] at h
        · simp only [hc, ↓reduceIte] at h
          have := ih hv true h
          rw [List.countP_cons]
          simp only [isVideoT, hvid', Bool.false_eq_true, ↓reduceIte]
          omega

theorem checkDefault_ok : ∀ (ts : List Track) (hd0 hd : Bool), checkDefault ts hd0 = .ok hd →
    ts.countP isDefAudio + (if hd0 then 1 else 0) = (if hd then 1 else 0) := by
  intro ts
  induction ts with
  | nil => intro hd0 hd h; simp [checkDefault] at h; subst h; simp
  | cons t rest ih =>
    intro hd0 hd h
    simp only [checkDefault] at h
    by_cases hda : (!isVideo t.codec && t.isDefault) = true
    · simp only [hda, ↓reduceIte] at h
      cases hd0 with
      | true => simp at h
      | false =>
        simp only [Bool.false_eq_true, ↓reduceIte] at h
        have := ih true hd h
        simp only [↓reduceIte] at this
        simp only [List.countP_cons, isDefAudio, hda, ↓reduceIte, Bool.false_eq_true]
        omega
    · have hda' : (!isVideo t.codec && t.isDefault) = false := by simpa using hda
      simp only [hda', Bool.false_eq_true, ↓reduceIte] at h
      have := ih hd0 hd h
      simp only [List.countP_cons, isDefAudio, hda', Bool.false_eq_true, ↓reduceIte]
      omega

theorem hasVideo_eq (ts : List Track) : hasVideo ts = decide (0 < ts.countP isVideoT) := by
  induction ts with
  | nil => simp [hasVideo]
  | cons t rest ih =>
    simp only [hasVideo, List.any_cons] at ih ⊢
    rw [ih]
    by_cases h : isVideo t.codec = true <;> simp [List.countP_cons, isVideoT, h]

/-! ### inversion of `start` -/

theorem start_ok_other {v : Variant} {sc : Nat} {tracks : List Track} {streams : List Stream}
    (h : start v sc tracks = .ok streams) (hv : v ≠ .mpegts) :
    tracks ≠ [] ∧ checkOther tracks false = .ok () ∧
    ∃ hd, checkDefault tracks false = .ok hd ∧
      streams = mkStreams tracks.length (hasVideo tracks) hd tracks 0 false := by
  unfold start at h
  by_cases he : tracks.isEmpty = true
  · simp [he] at h
  · simp only [he, Bool.false_eq_true, ↓reduceIte, hv] at h
    have hne : tracks ≠ [] := by
      intro hn; subst hn; simp at he
    cases hco : checkOther tracks false with
    | error e => simp [hco] at h
    | ok u =>
      simp only [hco] at h
      cases hcd : checkDefault tracks false with
      | error e => simp [hcd] at h
      | ok hd =>
        simp only [hcd] at h
        refine ⟨hne, rfl, hd, rfl, ?_⟩
        split at h
        · simp at h
        · split at h
          · simp at h
          · simp at h; exact h.symm

theorem start_ok_mpegts {sc : Nat} {tracks : List Track} {streams : List Stream}
    (h : start .mpegts sc tracks = .ok streams) :
    tracks ≠ [] ∧ streams = [mpegtsStream tracks.length] ∧ checkMPEGTS tracks false false = .ok () := by
  unfold start at h
  by_cases he : tracks.isEmpty = true
  · simp [he] at h
  · simp only [he, Bool.false_eq_true, ↓reduceIte] at h
    have hne : tracks ≠ [] := by
      intro hn; subst hn; simp at he
    cases hco : checkMPEGTS tracks false false with
    | error e => simp [hco] at h
    | ok u =>
      simp only [hco] at h
      cases hcd : checkDefault tracks false with
      | error e => simp [hcd] at h
      | ok hd =>
        simp only [hcd] at h
        refine ⟨hne, ?_, rfl⟩
        split at h
        · simp at h
        · split at h
          · simp at h
          · simp at h; exact h.symm

/-! ### exactly one leading track -/

theorem countP_lead_video (ts : List Track) (i : Nat) :
    (ts.zipIdx i).countP (fun ti => lead true ti.1 ti.2) = ts.countP isVideoT := by
  induction ts generalizing i with
  | nil => simp
  | cons t rest ih =>
    simp only [List.zipIdx_cons, List.countP_cons, ih]
    by_cases hx : isVideo t.codec = true <;> simp [lead, isVideoT, hx]

theorem countP_lead_novideo_pos (ts : List Track) (i : Nat) (h : ts.countP isVideoT = 0) :
    (ts.zipIdx (i + 1)).countP (fun ti => lead false ti.1 ti.2) = 0 := by
  induction ts generalizing i with
  | nil => simp
  | cons t rest ih =>
    simp only [List.countP_cons] at h
    have h1 : rest.countP isVideoT = 0 := by omega
    have h2 : isVideoT t = false := by
      by_cases hx : isVideoT t = true
      · simp [hx] at h
      · simpa using hx
    simp only [List.zipIdx_cons, List.countP_cons, ih (i + 1) h1]
    simp [lead]
    exact h2

theorem countP_lead (tracks : List Track) (hne : tracks ≠ []) (hc : checkOther tracks false = .ok ()) :
    (tracks.zipIdx 0).countP (fun ti => lead (hasVideo tracks) ti.1 ti.2) = 1 := by
  have hle := checkOther_ok tracks false hc
  simp only [Bool.false_eq_true, ↓reduceIte, Nat.add_zero] at hle
  rw [hasVideo_eq]
  by_cases hv : 0 < tracks.countP isVideoT
  · simp only [hv, decide_true]
    rw [countP_lead_video]; omega
  · have h0 : tracks.countP isVideoT = 0 := by omega
    simp only [hv, decide_false]
    cases tracks with
    | nil => exact absurd rfl hne
    | cons t rest =>
      simp only [List.countP_cons] at h0
      have h1 : rest.countP isVideoT = 0 := by omega
      simp only [List.zipIdx_cons, List.countP_cons, Nat.zero_add]
      rw [countP_lead_novideo_pos rest 0 h1]
      simp [lead]

/-- counting through a common projection -/
theorem countP_of_map_eq {α β γ : Type} (f : α → γ) (g : β → γ) (p : γ → Bool) (l1 : List α) (l2 : List β)
    (h : l1.map f = l2.map g) : l1.countP (p ∘ f) = l2.countP (p ∘ g) := by
  rw [← List.countP_map, ← List.countP_map, h]

theorem filter_map_of_map_eq {α β γ : Type} (f : α → γ) (g : β → γ) (p : γ → Bool) (l1 : List α) (l2 : List β)
    (h : l1.map f = l2.map g) : (l1.filter (p ∘ f)).map f = (l2.filter (p ∘ g)).map g := by
  rw [← List.filter_map, ← List.filter_map, h]

end Hls.MvGen
