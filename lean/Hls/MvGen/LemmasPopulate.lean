import Hls.MvGen.LemmasStart
/-!
# `populateMultivariantPlaylist` folded over the streams: what each field of the result is
-/
namespace Hls.MvGen
open Hls.Gen

/-- CODECS accumulation: append when not yet listed -/
def addCodec (cs : List String) (t : Track) : List String :=
  if cs.contains (codecString t.params) then cs else cs ++ [codecString t.params]

def addRes (r : String) (t : Track) : String := if isVideo t.codec then t.res else r

def addFps (f : Option String) (t : Track) : Option String :=
  if isVideo t.codec then
    match t.fps with
    | some x => if t.codec = .h264 ∨ t.codec = .h265 then some x else f
    | none => f
  else f

theorem addTrack_fields (mv : VariantEntry) (t : Track) :
    (addTrack mv t).uri = mv.uri ∧ (addTrack mv t).audio = mv.audio ∧
    (addTrack mv t).bandwidth = mv.bandwidth ∧ (addTrack mv t).averageBandwidth = mv.averageBandwidth ∧
    (addTrack mv t).codecs = addCodec mv.codecs t ∧
    (addTrack mv t).resolution = addRes mv.resolution t ∧
    (addTrack mv t).frameRate = addFps mv.frameRate t := by
  unfold addTrack addCodec addRes addFps
  by_cases hc : codecString t.params ∈ mv.codecs <;>
  by_cases hv : isVideo t.codec = true <;>
  cases hf : t.fps <;>
  by_cases hk : (t.codec = .h264 ∨ t.codec = .h265) <;>
  simp [hc, hv, hf, hk]

theorem foldl_addTrack_fields (ts : List Track) : ∀ (mv : VariantEntry),
    (ts.foldl addTrack mv).uri = mv.uri ∧ (ts.foldl addTrack mv).audio = mv.audio ∧
    (ts.foldl addTrack mv).bandwidth = mv.bandwidth ∧
    (ts.foldl addTrack mv).averageBandwidth = mv.averageBandwidth ∧
    (ts.foldl addTrack mv).codecs = ts.foldl addCodec mv.codecs ∧
    (ts.foldl addTrack mv).resolution = ts.foldl addRes mv.resolution ∧
    (ts.foldl addTrack mv).frameRate = ts.foldl addFps mv.frameRate := by
  induction ts with
  | nil => intro mv; simp
  | cons t rest ih =>
    intro mv
    simp only [List.foldl_cons]
    obtain ⟨a1, a2, a3, a4, a5, a6, a7⟩ := addTrack_fields mv t
    obtain ⟨b1, b2, b3, b4, b5, b6, b7⟩ := ih (addTrack mv t)
    exact ⟨by rw [b1, a1], by rw [b2, a2], by rw [b3, a3], by rw [b4, a4], by rw [b5, a5], by rw [b6, a6], by rw [b7, a7]⟩

/-- the EXT-X-MEDIA entry of a rendition stream -/
def toRendition (rawQuery : String) (s : Stream) : Rendition :=
  { typ := MvGen.renditionType, groupID := MvGen.renditionGroupID, name := s.name, language := s.language,
    autoselect := MvGen.renditionAutoselect, default := s.isDefault,
    uri := if !s.isLeading then some (withQuery (mediaPlaylistPath s.id) rawQuery) else none }

def uriStep (rawQuery : String) (u : String) (s : Stream) : String :=
  if s.isLeading then withQuery (mediaPlaylistPath s.id) rawQuery else u

def audioStep (a : String) (s : Stream) : String := if s.isRendition then MvGen.variantAudioGroup else a

theorem populate_fields (tracks : List Track) (q : String) (acc : VariantEntry × List Rendition) (s : Stream) :
    (populate tracks q acc s).2 = acc.2 ++ (if s.isRendition then [toRendition q s] else []) ∧
    (populate tracks q acc s).1.uri = uriStep q acc.1.uri s ∧
    (populate tracks q acc s).1.audio = audioStep acc.1.audio s ∧
    (populate tracks q acc s).1.bandwidth = acc.1.bandwidth ∧
    (populate tracks q acc s).1.averageBandwidth = acc.1.averageBandwidth ∧
    (populate tracks q acc s).1.codecs = (streamTracks tracks s).foldl addCodec acc.1.codecs ∧
    (populate tracks q acc s).1.resolution = (streamTracks tracks s).foldl addRes acc.1.resolution ∧
    (populate tracks q acc s).1.frameRate = (streamTracks tracks s).foldl addFps acc.1.frameRate := by
  obtain ⟨mv, rs⟩ := acc
  obtain ⟨b1, b2, b3, b4, b5, b6, b7⟩ := foldl_addTrack_fields (streamTracks tracks s) mv
  unfold populate uriStep audioStep toRendition
  by_cases hl : s.isLeading = true <;> by_cases hr : s.isRendition = true <;>
    simp [hl, hr, b1, b2, b3, b4, b5, b6, b7]

theorem foldl_populate_fields (tracks : List Track) (q : String) (streams : List Stream) :
    ∀ (acc : VariantEntry × List Rendition),
    (streams.foldl (populate tracks q) acc).2 = acc.2 ++ (streams.filter (·.isRendition)).map (toRendition q) ∧
    (streams.foldl (populate tracks q) acc).1.uri = streams.foldl (uriStep q) acc.1.uri ∧
    (streams.foldl (populate tracks q) acc).1.audio = streams.foldl audioStep acc.1.audio ∧
    (streams.foldl (populate tracks q) acc).1.bandwidth = acc.1.bandwidth ∧
    (streams.foldl (populate tracks q) acc).1.averageBandwidth = acc.1.averageBandwidth ∧
    (streams.foldl (populate tracks q) acc).1.codecs =
      (streams.flatMap (streamTracks tracks)).foldl addCodec acc.1.codecs ∧
    (streams.foldl (populate tracks q) acc).1.resolution =
      (streams.flatMap (streamTracks tracks)).foldl addRes acc.1.resolution ∧
    (streams.foldl (populate tracks q) acc).1.frameRate =
      (streams.flatMap (streamTracks tracks)).foldl addFps acc.1.frameRate := by
  induction streams with
  | nil => intro acc; simp
  | cons s rest ih =>
    intro acc
    simp only [List.foldl_cons, List.flatMap_cons, List.foldl_append]
    obtain ⟨a1, a2, a3, a4, a5, a6, a7, a8⟩ := populate_fields tracks q acc s
    obtain ⟨b1, b2, b3, b4, b5, b6, b7, b8⟩ := ih (populate tracks q acc s)
    refine ⟨?_, by rw [b2, a2], by rw [b3, a3], by rw [b4, a4], by rw [b5, a5], by rw [b6, a6], by rw [b7, a7], by rw [b8, a8]⟩
    rw [b1, a1]
    by_cases hr : s.isRendition = true <;> simp [hr, List.filter_cons]

/-! ### the folds themselves -/

/-- with exactly one leading stream the variant URI is that stream's -/
theorem foldl_uriStep_unique (q : String) (streams : List Stream) :
    ∀ (u : String), streams.countP (·.isLeading) = 1 →
    ∀ s ∈ streams, s.isLeading = true → streams.foldl (uriStep q) u = withQuery (mediaPlaylistPath s.id) q := by
  induction streams with
  | nil => intro u h; simp at h
  | cons x rest ih =>
    intro u hc s hs hl
    simp only [List.foldl_cons]
    by_cases hx : x.isLeading = true
    · -- no leading stream in the rest: the fold keeps the value
      have hrest : rest.countP (·.isLeading) = 0 := by
        simp only [List.countP_cons, hx, ↓reduceIte] at hc; omega
      have hkeep : ∀ (l : List Stream) (v : String), l.countP (·.isLeading) = 0 → l.foldl (uriStep q) v = v := by
        intro l
        induction l with
        | nil => intro v _; rfl
        | cons y ys ihy =>
          intro v h0
          simp only [List.countP_cons] at h0
          have hy : y.isLeading = false := by
            by_cases hyy : y.isLeading = true
            · simp [hyy] at h0
            · simpa using hyy
          simp only [List.foldl_cons, uriStep, hy, Bool.false_eq_true, ↓reduceIte]
          exact ihy v (by omega)
      rw [hkeep rest _ hrest]
      simp only [List.mem_cons] at hs
      rcases hs with rfl | hs
      · simp [uriStep, hl]
      · exfalso
        have : 0 < rest.countP (·.isLeading) := List.countP_pos_iff.mpr ⟨s, hs, hl⟩
        omega
    · have hx' : x.isLeading = false := by simpa using hx
      have hrest : rest.countP (·.isLeading) = 1 := by
        simp only [List.countP_cons, hx', Bool.false_eq_true, ↓reduceIte] at hc; omega
      simp only [List.mem_cons] at hs
      rcases hs with rfl | hs
      · rw [hl] at hx'; exact absurd hx' (by simp)
      · exact ih _ hrest s hs hl

theorem foldl_audioStep (streams : List Stream) : ∀ (a : String),
    streams.foldl audioStep a = if streams.any (·.isRendition) then MvGen.variantAudioGroup else a := by
  induction streams with
  | nil => intro a; simp
  | cons s rest ih =>
    intro a
    simp only [List.foldl_cons, List.any_cons]
    rw [ih]
    by_cases hs : s.isRendition = true <;> by_cases hr : rest.any (·.isRendition) = true <;>
      simp [audioStep, hs, hr]

theorem addCodec_eq (cs : List String) (t : Track) :
    addCodec cs t = if codecString t.params ∈ cs then cs else cs ++ [codecString t.params] := by
  unfold addCodec; simp

/-- CODECS is duplicate free and lists exactly the codec strings of the tracks -/
theorem foldl_addCodec (ts : List Track) : ∀ (cs : List String), cs.Nodup →
    (ts.foldl addCodec cs).Nodup ∧
    ∀ c, c ∈ ts.foldl addCodec cs ↔ (c ∈ cs ∨ ∃ t ∈ ts, c = codecString t.params) := by
  induction ts with
  | nil => intro cs h; simp [h]
  | cons t rest ih =>
    intro cs h
    simp only [List.foldl_cons]
    have hnd : (addCodec cs t).Nodup := by
      rw [addCodec_eq]
      by_cases hm : codecString t.params ∈ cs
      · simp only [hm, ↓reduceIte]; exact h
      · simp only [hm, ↓reduceIte]
        rw [List.nodup_append]
        refine ⟨h, by simp, ?_⟩
        intro a ha b hb
        simp at hb
        subst hb
        intro hab; subst hab; exact hm ha
    obtain ⟨i1, i2⟩ := ih (addCodec cs t) hnd
    refine ⟨i1, ?_⟩
    intro c
    rw [i2]
    have hm : c ∈ addCodec cs t ↔ c ∈ cs ∨ c = codecString t.params := by
      rw [addCodec_eq]
      by_cases hm : codecString t.params ∈ cs
      · simp only [hm, ↓reduceIte]
        constructor
        · intro h'; exact Or.inl h'
        · rintro (h' | h')
          · exact h'
          · rw [h']; exact hm
      · simp [hm]
    rw [hm]
    simp only [List.mem_cons, exists_eq_or_imp]
    tauto

/-- a step that ignores audio tracks, folded over a track list with at most one video track -/
theorem foldl_video_none {α : Type} (g : α → Track → α) (hg : ∀ x t, isVideoT t = false → g x t = x)
    (ts : List Track) : ∀ x, ts.countP isVideoT = 0 → ts.foldl g x = x := by
  induction ts with
  | nil => intro x _; rfl
  | cons t rest ih =>
    intro x h
    simp only [List.countP_cons] at h
    have ht : isVideoT t = false := by
      by_cases hx : isVideoT t = true
      · simp [hx] at h
      · simpa using hx
    simp only [List.foldl_cons, hg x t ht]
    exact ih x (by omega)

theorem foldl_video_unique {α : Type} (g : α → Track → α) (hg : ∀ x t, isVideoT t = false → g x t = x)
    (ts : List Track) : ∀ x, ts.countP isVideoT ≤ 1 → ∀ t ∈ ts, isVideoT t = true → ts.foldl g x = g x t := by
  induction ts with
  | nil => intro x _ t ht; simp at ht
  | cons y rest ih =>
    intro x h t ht hv
    simp only [List.countP_cons] at h
    simp only [List.foldl_cons]
    by_cases hy : isVideoT y = true
    · have hrest : rest.countP isVideoT = 0 := by simp only [hy, ↓reduceIte] at h; omega
      rw [foldl_video_none g hg rest _ hrest]
      simp only [List.mem_cons] at ht
      rcases ht with rfl | ht
      · rfl
      · exfalso
        have : 0 < rest.countP isVideoT := List.countP_pos_iff.mpr ⟨t, ht, hv⟩
        omega
    · have hy' : isVideoT y = false := by simpa using hy
      rw [hg x y hy']
      simp only [List.mem_cons] at ht
      rcases ht with rfl | ht
      · rw [hv] at hy'; exact absurd hy' (by simp)
      · exact ih x (by simp only [hy', Bool.false_eq_true, ↓reduceIte] at h; omega) t ht hv

/-- the tracks of all streams, in stream order, are the track list itself -/
theorem filterMap_range' (pre ts : List Track) :
    (List.range' pre.length ts.length).filterMap (fun i => (pre ++ ts)[i]?) = ts := by
  induction ts generalizing pre with
  | nil => simp
  | cons t rest ih =>
    simp only [List.length_cons, List.range'_succ, List.filterMap_cons]
    have h0 : (pre ++ t :: rest)[pre.length]? = some t := by simp
    rw [h0]
    have := ih (pre ++ [t])
    simp only [List.length_append, List.length_cons, List.length_nil, Nat.zero_add, List.append_assoc,
      List.cons_append, List.nil_append] at this
    rw [this]

theorem streamTracks_mpegts (tracks : List Track) :
    streamTracks tracks (mpegtsStream tracks.length) = tracks := by
  have := filterMap_range' [] tracks
  simp only [List.length_nil, List.nil_append] at this
  unfold streamTracks mpegtsStream
  simp only [List.range_eq_range']
  exact this

theorem flatMap_streamTracks_mk (n : Nat) (hv hd : Bool) : ∀ (ts pre : List Track) (chosen : Bool),
    (mkStreams n hv hd ts pre.length chosen).flatMap (streamTracks (pre ++ ts)) = ts := by
  intro ts
  induction ts with
  | nil => intro pre c; simp [mkStreams]
  | cons t rest ih =>
    intro pre c
    simp only [mkStreams, List.flatMap_cons]
    have h0 : (pre ++ t :: rest)[pre.length]? = some t := by simp
    have h1 : streamTracks (pre ++ t :: rest)
        { id := streamId t pre.length, isLeading := isVideo t.codec || (!hv && pre.length == 0),
          isRendition := !(isVideo t.codec || (!hv && pre.length == 0)) || (!isVideo t.codec && decide (n > 1)),
          isDefault := if (!(isVideo t.codec || (!hv && pre.length == 0)) || (!isVideo t.codec && decide (n > 1))) = true
            then (if (!hd) = true then !c else t.isDefault) else false,
          name := if (!(isVideo t.codec || (!hv && pre.length == 0)) || (!isVideo t.codec && decide (n > 1))) = true
            then (if t.name ≠ "" then t.name else streamId t pre.length) else "",
          language := t.language, tracks := [pre.length] } = [t] := by
      simp [streamTracks, h0]
    rw [h1]
    have := ih (pre ++ [t]) (if ((!(isVideo t.codec || (!hv && pre.length == 0)) || (!isVideo t.codec && decide (n > 1))) && !hd && !c) = true then true else c)
    simp only [List.length_append, List.length_cons, List.length_nil, Nat.zero_add, List.append_assoc,
      List.cons_append, List.nil_append] at this
    rw [this]
    simp

end Hls.MvGen
