import Hls.MvGen.Model
import Mathlib.Tactic.Ring
import Mathlib.Tactic.Linarith
/-!
# bandwidth(): loop invariants (mediant inequality on floor divisions, exactness, panic condition)
-/
namespace Hls.MvGen

/-- what the loop returns, in terms of the specification functions -/
theorem bwLoop_ok {segs : List Seg} : ∀ {mx sz du mx' sz' du' : Nat},
    bwLoop segs mx sz du = .ok (mx', sz', du') →
    mx' = (rates segs).foldl (fun a b => if b > a then b else a) mx ∧
    sz' = sz + totalSize segs ∧ du' = du + totalDur segs ∧
    (∀ size dur, Seg.seg size dur ∈ segs → 0 < dur) := by
  induction segs with
  | nil =>
    intro mx sz du mx' sz' du' h
    simp [bwLoop] at h
    obtain ⟨rfl, rfl, rfl⟩ := h
    simp [rates, totalSize, totalDur]
  | cons s rest ih =>
    intro mx sz du mx' sz' du' h
    cases s with
    | gap d =>
      simp only [bwLoop] at h
      obtain ⟨h1, h2, h3, h4⟩ := ih h
      refine ⟨by simpa [rates] using h1, by simpa [totalSize] using h2, by simpa [totalDur] using h3, ?_⟩
      intro size dur hm
      simp at hm
      exact h4 size dur hm
    | seg size dur =>
      simp only [bwLoop] at h
      by_cases hd : dur = 0
      · simp [hd] at h
      · simp only [hd, ↓reduceIte] at h
        obtain ⟨h1, h2, h3, h4⟩ := ih h
        refine ⟨by simpa [rates] using h1, by simp [totalSize]; omega, by simp [totalDur]; omega, ?_⟩
        intro size' dur' hm
        simp at hm
        rcases hm with ⟨rfl, rfl⟩ | hm
        · omega
        · exact h4 size' dur' hm

/-- the loop fails exactly on a listed zero duration -/
theorem bwLoop_error_iff (segs : List Seg) : ∀ (mx sz du : Nat),
    (∃ e, bwLoop segs mx sz du = .error e) ↔ ∃ size, Seg.seg size 0 ∈ segs := by
  induction segs with
  | nil => intro mx sz du; simp [bwLoop]
  | cons s rest ih =>
    intro mx sz du
    cases s with
    | gap d =>
      simp only [bwLoop]
      rw [ih]
      simp
    | seg size dur =>
      simp only [bwLoop]
      by_cases hd : dur = 0
      · subst hd
        simp
        exact ⟨.divideByZero⟩
      · simp only [hd, ↓reduceIte]
        rw [ih]
        constructor
        · rintro ⟨s', h⟩; exact ⟨s', by simp [h]⟩
        · rintro ⟨s', h⟩
          simp at h
          rcases h with ⟨_, h0⟩ | h
          · exact absurd h0.symm hd
          · exact ⟨s', h⟩

/-- mediant step: the running maximum bounds the running mean from above -/
theorem bwLoop_mediant {segs : List Seg} : ∀ {mx sz du mx' sz' du' : Nat},
    bwLoop segs mx sz du = .ok (mx', sz', du') →
    (8 * sz * nsPerSec < (mx + 1) * du ∨ (du = 0 ∧ sz = 0)) →
    (8 * sz' * nsPerSec < (mx' + 1) * du' ∨ (du' = 0 ∧ sz' = 0)) := by
  induction segs with
  | nil =>
    intro mx sz du mx' sz' du' h hi
    simp [bwLoop] at h
    obtain ⟨rfl, rfl, rfl⟩ := h
    exact hi
  | cons s rest ih =>
    intro mx sz du mx' sz' du' h hi
    cases s with
    | gap d =>
      simp only [bwLoop] at h
      exact ih h hi
    | seg size dur =>
      simp only [bwLoop] at h
      by_cases hd : dur = 0
      · simp [hd] at h
      · simp only [hd, ↓reduceIte] at h
        apply ih h
        left
        have hdpos : 0 < dur := Nat.pos_of_ne_zero hd
        -- 8*size*E < (bw+1)*dur
        have hb : 8 * size * nsPerSec < dur * (8 * size * nsPerSec / dur + 1) := Nat.lt_mul_div_succ _ hdpos
        generalize hbw : 8 * size * nsPerSec / dur = bw at hb ⊢
        generalize hX : 8 * size * nsPerSec = X at hb
        have hXs : 8 * (sz + size) * nsPerSec = 8 * sz * nsPerSec + X := by rw [← hX]; ring
        rw [hXs]
        by_cases hgt : bw > mx
        · simp only [hgt, ↓reduceIte]
          rcases hi with hi | ⟨h0, h0'⟩
          · have : (mx + 1) * du ≤ (bw + 1) * du := Nat.mul_le_mul_right _ (by omega)
            have e : (bw + 1) * (du + dur) = (bw + 1) * du + dur * (bw + 1) := by ring
            omega
          · subst h0; subst h0'
            have e : (bw + 1) * (0 + dur) = dur * (bw + 1) := by ring
            omega
        · simp only [hgt, ↓reduceIte]
          have hle : dur * (bw + 1) ≤ dur * (mx + 1) := Nat.mul_le_mul_left _ (by omega)
          rcases hi with hi | ⟨h0, h0'⟩
          · have e : (mx + 1) * (du + dur) = (mx + 1) * du + dur * (mx + 1) := by ring
            omega
          · subst h0; subst h0'
            have e : (mx + 1) * (0 + dur) = dur * (mx + 1) := by ring
            omega

theorem totalDur_le_of_guard (segs : List Seg)
    (hg : ∀ size dur, Seg.seg size dur ∈ segs → dur ≤ 8 * size * nsPerSec) :
    totalDur segs ≤ 8 * totalSize segs * nsPerSec := by
  induction segs with
  | nil => simp [totalDur, totalSize]
  | cons s rest ih =>
    have hrest : ∀ size dur, Seg.seg size dur ∈ rest → dur ≤ 8 * size * nsPerSec := by
      intro size dur hm; exact hg size dur (List.mem_cons_of_mem _ hm)
    cases s with
    | gap d => simp only [totalDur, totalSize]; exact ih hrest
    | seg size dur =>
      have h1 := hg size dur (List.mem_cons_self)
      have h2 := ih hrest
      simp only [totalDur, totalSize]
      have : 8 * (size + totalSize rest) * nsPerSec = 8 * size * nsPerSec + 8 * totalSize rest * nsPerSec := by ring
      omega

theorem exists_seg_of_totalDur_pos (l : List Seg) (hpos : 0 < totalDur l) :
    ∃ size dur, Seg.seg size dur ∈ l := by
  induction l with
  | nil => simp [totalDur] at hpos
  | cons x xs ih =>
    cases x with
    | gap d =>
      simp only [totalDur] at hpos
      obtain ⟨a, b, hm⟩ := ih hpos
      exact ⟨a, b, List.mem_cons_of_mem _ hm⟩
    | seg a b => exact ⟨a, b, List.mem_cons_self⟩

theorem totalDur_pos_of_mem (segs : List Seg) (hpos : ∀ size dur, Seg.seg size dur ∈ segs → 0 < dur)
    {size dur : Nat} (hm : Seg.seg size dur ∈ segs) : 0 < totalDur segs := by
  induction segs with
  | nil => simp at hm
  | cons x xs ih =>
    simp only [List.mem_cons] at hm
    rcases hm with rfl | hm
    · have := hpos size dur List.mem_cons_self
      simp only [totalDur]; omega
    · have hrest : ∀ a b, Seg.seg a b ∈ xs → 0 < b := fun a b h' => hpos a b (List.mem_cons_of_mem _ h')
      have := ih hrest hm
      cases x with
      | gap d => simp only [totalDur]; exact this
      | seg a b => simp only [totalDur]; omega

end Hls.MvGen
