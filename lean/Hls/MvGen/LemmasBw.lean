import Hls.MvGen.Model
import Mathlib.Tactic.Ring
import Mathlib.Tactic.Linarith
/-!
# bandwidth(): loop invariants (mediant inequality on floor divisions, exactness), the two guards of
the F13 repair (`bandwidthWith`), and the panic condition of the legacy code
-/
namespace Hls.MvGen

/-! ## `timed` -/

theorem mem_timed {segs : List Seg} {size dur : Nat} :
    Seg.seg size dur ∈ timed segs ↔ Seg.seg size dur ∈ segs ∧ dur ≠ 0 := by
  induction segs with
  | nil => simp [timed]
  | cons s rest ih =>
    cases s with
    | gap d => simp [timed, ih]
    | seg a b =>
      by_cases hb : b = 0
      · subst hb
        simp only [timed, ↓reduceIte, ih, List.mem_cons, Seg.seg.injEq]
        constructor
        · rintro ⟨h1, h2⟩; exact ⟨Or.inr h1, h2⟩
        · rintro ⟨(⟨_, h0⟩ | h1), h2⟩
          · exact absurd h0 h2
          · exact ⟨h1, h2⟩
      · simp only [timed, hb, ↓reduceIte, List.mem_cons, Seg.seg.injEq, ih]
        constructor
        · rintro (⟨rfl, rfl⟩ | ⟨h1, h2⟩)
          · exact ⟨Or.inl ⟨rfl, rfl⟩, hb⟩
          · exact ⟨Or.inr h1, h2⟩
        · rintro ⟨(⟨rfl, rfl⟩ | h1), h2⟩
          · exact Or.inl ⟨rfl, rfl⟩
          · exact Or.inr ⟨h1, h2⟩

/-- without a zero-duration segment nothing is left out -/
theorem timed_eq_self {segs : List Seg} (h : ∀ size, Seg.seg size 0 ∉ segs) : timed segs = segs := by
  induction segs with
  | nil => rfl
  | cons s rest ih =>
    have hrest : ∀ size, Seg.seg size 0 ∉ rest := fun size hm => h size (List.mem_cons_of_mem _ hm)
    cases s with
    | gap d => simp [timed, ih hrest]
    | seg a b =>
      have hb : b ≠ 0 := by
        intro hb; subst hb; exact h a List.mem_cons_self
      simp [timed, hb, ih hrest]

theorem timed_idem (segs : List Seg) : timed (timed segs) = timed segs :=
  timed_eq_self (fun _ hm => (mem_timed.mp hm).2 rfl)

/-! ## the fixed loop -/

/-- what the loop returns, in terms of the specification functions over the timed segments -/
theorem bwLoop_spec (segs : List Seg) : ∀ (mx sz du : Nat),
    bwLoop segs mx sz du =
      ((rates (timed segs)).foldl (fun a b => if b > a then b else a) mx,
       sz + totalSize (timed segs), du + totalDur (timed segs)) := by
  induction segs with
  | nil => intro mx sz du; simp [bwLoop, timed, rates, totalSize, totalDur]
  | cons s rest ih =>
    intro mx sz du
    cases s with
    | gap d => simp only [bwLoop, timed, rates, totalSize, totalDur]; exact ih mx sz du
    | seg size dur =>
      by_cases hd : dur = 0
      · simp only [bwLoop, timed, hd, ↓reduceIte]; exact ih mx sz du
      · simp only [bwLoop, timed, hd, ↓reduceIte, rates, totalSize, totalDur, List.foldl_cons]
        rw [ih]
        simp only [Nat.add_assoc]

/-- mediant step: the running maximum bounds the running mean from above -/
theorem bwLoop_mediant (segs : List Seg) : ∀ (mx sz du : Nat),
    (8 * sz * nsPerSec < (mx + 1) * du ∨ (du = 0 ∧ sz = 0)) →
    (8 * (bwLoop segs mx sz du).2.1 * nsPerSec < ((bwLoop segs mx sz du).1 + 1) * (bwLoop segs mx sz du).2.2 ∨
      ((bwLoop segs mx sz du).2.2 = 0 ∧ (bwLoop segs mx sz du).2.1 = 0)) := by
  induction segs with
  | nil => intro mx sz du hi; simpa [bwLoop] using hi
  | cons s rest ih =>
    intro mx sz du hi
    cases s with
    | gap d => simp only [bwLoop]; exact ih mx sz du hi
    | seg size dur =>
      by_cases hd : dur = 0
      · simp only [bwLoop, hd, ↓reduceIte]; exact ih mx sz du hi
      · simp only [bwLoop, hd, ↓reduceIte]
        apply ih
        left
        have hdpos : 0 < dur := Nat.pos_of_ne_zero hd
        -- 8*size*E < (bw+1)*dur
        have hb : 8 * size * nsPerSec < dur * (8 * size * nsPerSec / dur + 1) := Nat.lt_mul_div_succ _ hdpos
        generalize hbw : 8 * size * nsPerSec / dur = bw at hb ⊢
        generalize hX : 8 * size * nsPerSec = X at hb
        have hXs : 8 * (sz + size) * nsPerSec = 8 * sz * nsPerSec + X := by rw [← hX]; ring
        rw [hXs]
        by_cases hgt : bw > mx
        · simp only [hgt, ↓reduceIte]
          rcases hi with hi | ⟨h0, h0'⟩
          · have : (mx + 1) * du ≤ (bw + 1) * du := Nat.mul_le_mul_right _ (by omega)
            have e : (bw + 1) * (du + dur) = (bw + 1) * du + dur * (bw + 1) := by ring
            omega
          · subst h0; subst h0'
            have e : (bw + 1) * (0 + dur) = dur * (bw + 1) := by ring
            omega
        · simp only [hgt, ↓reduceIte]
          have hle : dur * (bw + 1) ≤ dur * (mx + 1) := Nat.mul_le_mul_left _ (by omega)
          rcases hi with hi | ⟨h0, h0'⟩
          · have e : (mx + 1) * (du + dur) = (mx + 1) * du + dur * (mx + 1) := by ring
            omega
          · subst h0; subst h0'
            have e : (mx + 1) * (0 + dur) = dur * (mx + 1) := by ring
            omega

/-- `bandwidth` in terms of its loop, without the case split on the empty list -/
theorem bandwidth_eq (segs : List Seg) :
    bandwidth segs =
      ((bwLoop segs 0 0 0).1,
       if (bwLoop segs 0 0 0).2.2 = 0 then 0
       else 8 * (bwLoop segs 0 0 0).2.1 * nsPerSec / (bwLoop segs 0 0 0).2.2) := by
  cases segs with
  | nil => simp [bandwidth, bwLoop]
  | cons s rest =>
    simp only [bandwidth]
    split <;> simp_all

/-! ## the two guards (`bandwidthWith`) -/

/-- with the zero-duration conjunct the loop cannot fail and is the fixed loop -/
theorem bwLoopWith_true (segs : List Seg) : ∀ (mx sz du : Nat),
    bwLoopWith true segs mx sz du = .ok (bwLoop segs mx sz du) := by
  induction segs with
  | nil => intro mx sz du; rfl
  | cons s rest ih =>
    intro mx sz du
    cases s with
    | gap d => simp only [bwLoopWith, bwLoop]; exact ih mx sz du
    | seg size dur =>
      by_cases hd : dur = 0
      · simp only [bwLoopWith, bwLoop, hd, ↓reduceIte]; exact ih mx sz du
      · simp only [bwLoopWith, bwLoop, hd, ↓reduceIte]; exact ih _ _ _

/-- whatever guards are present: a loop that returns, returns what the fixed loop returns -/
theorem bwLoopWith_ok {skip : Bool} {segs : List Seg} : ∀ {mx sz du : Nat} {r : Nat × Nat × Nat},
    bwLoopWith skip segs mx sz du = .ok r → bwLoop segs mx sz du = r := by
  induction segs with
  | nil => intro mx sz du r h; simpa [bwLoopWith, bwLoop] using h
  | cons s rest ih =>
    intro mx sz du r h
    cases s with
    | gap d => simp only [bwLoopWith] at h; simp only [bwLoop]; exact ih h
    | seg size dur =>
      by_cases hd : dur = 0
      · simp only [bwLoopWith, hd, ↓reduceIte] at h
        cases skip with
        | true => simp only [↓reduceIte] at h; simp only [bwLoop, hd, ↓reduceIte]; exact ih h
        | false => simp at h
      · simp only [bwLoopWith, hd, ↓reduceIte] at h
        simp only [bwLoop, hd, ↓reduceIte]; exact ih h

/-- both guards present = the fixed code, which always returns -/
theorem bandwidthWith_fixed (segs : List Seg) : bandwidthWith true true segs = .ok (bandwidth segs) := by
  cases segs with
  | nil => rfl
  | cons s rest =>
    simp only [bandwidthWith, bwLoopWith_true, bandwidth]
    split <;> rfl

/-- the repair is conservative: whenever `bandwidth()` returned (with or without either guard) it
returned what the fixed code returns -/
theorem bandwidthWith_ok {skip guard : Bool} {segs : List Seg} {r : Nat × Nat}
    (h : bandwidthWith skip guard segs = .ok r) : bandwidth segs = r := by
  cases segs with
  | nil => simpa [bandwidthWith, bandwidth] using h
  | cons s rest =>
    simp only [bandwidthWith] at h
    cases hl : bwLoopWith skip (s :: rest) 0 0 0 with
    | error e => simp [hl] at h
    | ok r' =>
      obtain ⟨mx, sz, du⟩ := r'
      have hfix := bwLoopWith_ok hl
      simp only [hl] at h
      simp only [bandwidth, hfix]
      by_cases hdu : du = 0
      · simp only [hdu, ↓reduceIte] at h ⊢
        cases guard with
        | true => simpa using h
        | false => simp at h
      · simp only [hdu, ↓reduceIte] at h ⊢
        simpa using h

/-- without the zero-duration conjunct the loop fails exactly on a listed zero duration -/
theorem bwLoopWith_false_error_iff (segs : List Seg) : ∀ (mx sz du : Nat),
    (∃ e, bwLoopWith false segs mx sz du = .error e) ↔ ∃ size, Seg.seg size 0 ∈ segs := by
  induction segs with
  | nil => intro mx sz du; simp [bwLoopWith]
  | cons s rest ih =>
    intro mx sz du
    cases s with
    | gap d =>
      simp only [bwLoopWith]
      rw [ih]
      simp
    | seg size dur =>
      simp only [bwLoopWith]
      by_cases hd : dur = 0
      · subst hd
        simp
        exact ⟨.divideByZero⟩
      · simp only [hd, ↓reduceIte]
        rw [ih]
        constructor
        · rintro ⟨s', h⟩; exact ⟨s', by simp [h]⟩
        · rintro ⟨s', h⟩
          simp at h
          rcases h with ⟨_, h0⟩ | h
          · exact absurd h0.symm hd
          · exact ⟨s', h⟩

theorem totalDur_le_of_guard (segs : List Seg)
    (hg : ∀ size dur, Seg.seg size dur ∈ segs → dur ≤ 8 * size * nsPerSec) :
    totalDur segs ≤ 8 * totalSize segs * nsPerSec := by
  induction segs with
  | nil => simp [totalDur, totalSize]
  | cons s rest ih =>
    have hrest : ∀ size dur, Seg.seg size dur ∈ rest → dur ≤ 8 * size * nsPerSec := by
      intro size dur hm; exact hg size dur (List.mem_cons_of_mem _ hm)
    cases s with
    | gap d => simp only [totalDur, totalSize]; exact ih hrest
    | seg size dur =>
      have h1 := hg size dur (List.mem_cons_self)
      have h2 := ih hrest
      simp only [totalDur, totalSize]
      have : 8 * (size + totalSize rest) * nsPerSec = 8 * size * nsPerSec + 8 * totalSize rest * nsPerSec := by ring
      omega

theorem exists_seg_of_totalDur_pos (l : List Seg) (hpos : 0 < totalDur l) :
    ∃ size dur, Seg.seg size dur ∈ l := by
  induction l with
  | nil => simp [totalDur] at hpos
  | cons x xs ih =>
    cases x with
    | gap d =>
      simp only [totalDur] at hpos
      obtain ⟨a, b, hm⟩ := ih hpos
      exact ⟨a, b, List.mem_cons_of_mem _ hm⟩
    | seg a b => exact ⟨a, b, List.mem_cons_self⟩

theorem totalDur_pos_of_mem (segs : List Seg) (hpos : ∀ size dur, Seg.seg size dur ∈ segs → 0 < dur)
    {size dur : Nat} (hm : Seg.seg size dur ∈ segs) : 0 < totalDur segs := by
  induction segs with
  | nil => simp at hm
  | cons x xs ih =>
    simp only [List.mem_cons] at hm
    rcases hm with rfl | hm
    · have := hpos size dur List.mem_cons_self
      simp only [totalDur]; omega
    · have hrest : ∀ a b, Seg.seg a b ∈ xs → 0 < b := fun a b h' => hpos a b (List.mem_cons_of_mem _ h')
      have := ih hrest hm
      cases x with
      | gap d => simp only [totalDur]; exact this
      | seg a b => simp only [totalDur]; omega

/-- the timed segments carry time iff some listed segment has a positive duration -/
theorem totalDur_timed_pos_iff (segs : List Seg) :
    0 < totalDur (timed segs) ↔ ∃ size dur, Seg.seg size dur ∈ segs ∧ 0 < dur := by
  constructor
  · intro hpos
    have hall : ∀ size dur, Seg.seg size dur ∈ timed segs → 0 < dur :=
      fun size dur hm => Nat.pos_of_ne_zero (mem_timed.mp hm).2
    obtain ⟨a, b, hm⟩ := exists_seg_of_totalDur_pos _ hpos
    exact ⟨a, b, (mem_timed.mp hm).1, hall a b hm⟩
  · rintro ⟨a, b, hm, hb⟩
    have hall : ∀ size dur, Seg.seg size dur ∈ timed segs → 0 < dur :=
      fun size dur hm => Nat.pos_of_ne_zero (mem_timed.mp hm).2
    exact totalDur_pos_of_mem _ hall (mem_timed.mpr ⟨hm, by omega⟩)

/-- no time listed ⇒ no rate listed -/
theorem rates_timed_of_totalDur_zero (segs : List Seg) (h : totalDur (timed segs) = 0) :
    rates (timed segs) = [] := by
  induction segs with
  | nil => rfl
  | cons x xs ih =>
    cases x with
    | gap d => simp only [timed, totalDur] at h; simp only [timed, rates]; exact ih h
    | seg a b =>
      by_cases hb : b = 0
      · simp only [timed, hb, ↓reduceIte] at h ⊢; exact ih h
      · simp only [timed, hb, ↓reduceIte, totalDur] at h; omega

/-- the legacy `bandwidth()` panics iff the list is non-empty and lists a zero-duration segment or no
segment at all -/
theorem bandwidthLegacy_error_iff (segs : List Seg) :
    (∃ e, bandwidthLegacy segs = .error e) ↔
      (segs ≠ [] ∧ ((∃ size, Seg.seg size 0 ∈ segs) ∨ ∀ size dur, Seg.seg size dur ∉ segs)) := by
  cases segs with
  | nil => simp [bandwidthLegacy, bandwidthWith]
  | cons s rest =>
    simp only [bandwidthLegacy, bandwidthWith, ne_eq, reduceCtorEq, not_false_eq_true, true_and]
    cases hl : bwLoopWith false (s :: rest) 0 0 0 with
    | error e =>
      have := (bwLoopWith_false_error_iff (s :: rest) 0 0 0).mp ⟨e, hl⟩
      exact ⟨fun _ => Or.inl this, fun _ => ⟨e, rfl⟩⟩
    | ok r =>
      obtain ⟨mx, sz, du⟩ := r
      have hno : ¬ ∃ size, Seg.seg size 0 ∈ (s :: rest) := by
        intro hex
        obtain ⟨e, he⟩ := (bwLoopWith_false_error_iff (s :: rest) 0 0 0).mpr hex
        rw [hl] at he; cases he
      have hself : timed (s :: rest) = s :: rest := timed_eq_self (fun size hm => hno ⟨size, hm⟩)
      have hfix := bwLoopWith_ok hl
      rw [bwLoop_spec, hself] at hfix
      have hdu : du = totalDur (s :: rest) := by
        have := congrArg (fun r => r.2.2) hfix
        simp only [Nat.zero_add] at this
        exact this.symm
      have hpos : ∀ size dur, Seg.seg size dur ∈ (s :: rest) → 0 < dur := by
        intro size dur hm
        rcases Nat.eq_zero_or_pos dur with h0 | h0
        · subst h0; exact absurd ⟨size, hm⟩ hno
        · exact h0
      by_cases h0 : du = 0
      · simp only [h0, ↓reduceIte]
        refine ⟨fun _ => Or.inr ?_, fun _ => ⟨.divideByZero, trivial⟩⟩
        intro size dur hm
        have := totalDur_pos_of_mem _ hpos hm
        omega
      · simp only [h0, ↓reduceIte]
        constructor
        · rintro ⟨e, he⟩; cases he
        · rintro (hz | hnone)
          · exact absurd hz hno
          · exfalso
            have : 0 < totalDur (s :: rest) := by omega
            obtain ⟨a, b, hm⟩ := exists_seg_of_totalDur_pos _ this
            exact hnone a b hm

end Hls.MvGen
