import Hls.MvGen.LemmasPopulate
/-!
# Specification-side definitions of C16 (what the property text demands of the renditions) and the
lemmas that connect them to `Start`'s assignment
-/
namespace Hls.MvGen
open Hls.Gen

/-- A track qualifies as a rendition: a non-leading audio track, or any audio track of an
audio-only muxer with more than one track (the property's wording). -/
def isRenditionTrack (tracks : List Track) (ti : Track × Nat) : Bool :=
  !isVideo ti.1.codec &&
    (!lead (hasVideo tracks) ti.1 ti.2 || (!hasVideo tracks && decide (tracks.length > 1)))

theorem rendTrack_eq (tracks : List Track) (ti : Track × Nat) :
    rendTrack tracks.length (hasVideo tracks) ti.1 ti.2 = isRenditionTrack tracks ti := by
  unfold rendTrack isRenditionTrack lead
  cases hv : hasVideo tracks <;> cases hc : isVideo ti.1.codec <;> simp

/-- what is compared of an EXT-X-MEDIA entry besides DEFAULT -/
def renditionCore (r : Rendition) : String × String × String × String × Bool × Option String :=
  (r.typ, r.groupID, r.name, r.language, r.autoselect, r.uri)

/-- the EXT-X-MEDIA entry the property demands for audio track `t` at index `i` -/
def expectedRendition (tracks : List Track) (q : String) (ti : Track × Nat) :
    String × String × String × String × Bool × Option String :=
  let id := streamId ti.1 ti.2
  ("AUDIO", "audio", (if ti.1.name ≠ "" then ti.1.name else id), ti.1.language, true,
   if !lead (hasVideo tracks) ti.1 ti.2 then some (withQuery (mediaPlaylistPath id) q) else none)

theorem streams_core {v : Variant} {sc : Nat} {tracks : List Track} {streams : List Stream}
    (h : start v sc tracks = .ok streams) (hv : v ≠ .mpegts) :
    streams.map Stream.core = (tracks.zipIdx 0).map (coreOf tracks.length (hasVideo tracks)) := by
  obtain ⟨_, _, hd, _, rfl⟩ := start_ok_other h hv
  exact mkStreams_core _ _ _ _ _ _

theorem all_audio_rend {tracks : List Track}
    (hex : ∃ ti ∈ tracks.zipIdx 0, isRenditionTrack tracks ti = true) :
    ∀ ti ∈ tracks.zipIdx 0, isVideo ti.1.codec = false → isRenditionTrack tracks ti = true := by
  intro ti hti hvid
  by_contra hcon
  have hfalse : isRenditionTrack tracks ti = false := by simpa using hcon
  obtain ⟨t0, ht0, hr0⟩ := hex
  -- ti is a leading audio track in a muxer that has video or a single track
  unfold isRenditionTrack at hfalse hr0
  simp only [hvid, Bool.not_false, Bool.true_and, Bool.or_eq_false_iff, Bool.not_eq_false',
    Bool.and_eq_false_imp, Bool.not_eq_true', decide_eq_false_iff_not] at hfalse
  obtain ⟨hlead, hsingle⟩ := hfalse
  unfold lead at hlead
  simp only [hvid, Bool.false_or, Bool.and_eq_true, Bool.not_eq_true', beq_iff_eq] at hlead
  obtain ⟨hnv, hidx⟩ := hlead
  have hlen := hsingle hnv
  -- a single track: t0 = ti
  have hlen1 : tracks.length ≤ 1 := by omega
  have b0 := List.snd_lt_of_mem_zipIdx ht0
  have c0 : t0.2 = 0 := by omega
  obtain ⟨a1, a2, a3⟩ := List.mem_zipIdx (x := t0.1) (i := t0.2) (by simpa using ht0)
  obtain ⟨d1, d2, d3⟩ := List.mem_zipIdx (x := ti.1) (i := ti.2) (by simpa using hti)
  have : t0 = ti := by
    apply Prod.ext
    · rw [a3, d3]; simp [c0, hidx]
    · rw [c0, hidx]
  rw [this] at hr0
  simp only [hvid, Bool.not_false, Bool.true_and, Bool.or_eq_true, Bool.not_eq_true', Bool.and_eq_true,
    decide_eq_true_eq] at hr0
  rcases hr0 with hr0 | ⟨_, hr0⟩
  · unfold lead at hr0
    simp [hvid, hnv, hidx] at hr0
  · omega


end Hls.MvGen
