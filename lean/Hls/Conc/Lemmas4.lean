import Hls.Conc.Lemmas3
/-
  Lemmas, part 4: initial states satisfy the invariant; reachable states satisfy it;
  solo runs (only one thread steps) and the helper facts of the C06/C07 theorems.
-/
namespace Hls.Conc

theorem TI_fresh {cfg : Cfg} {sh : Shared} {i : Nat} {th : Thread} (ho : sh.owner = none)
    (hf : th.fresh) (hwf : th.kind.wf cfg = true) : TI cfg sh i th := by
  unfold Thread.fresh at hf
  rw [hf]
  cases hk : th.kind <;>
    constructor <;> simp_all [pcHeld, progLen, waitPc, postFlag, postLoop, Kind.isRequester, Kind.isWriter, CloserInv]

theorem inv_init {cfg : Cfg} {s : State} (h : Init cfg s) : Inv cfg s := by
  have hrun : ∀ (i : Nat) (th : Thread), s.threads[i]? = some th → th.wait = .running := by
    intro i th hi
    have := (h.fresh th (List.mem_of_getElem? hi)).1
    unfold Thread.fresh at this
    rw [this]
  refine ⟨⟨?_, ?_, ?_, ?_⟩, ?_⟩
  · rw [h.sOpen]; simp
  · intro t ht; rw [h.owner] at ht; cases ht
  · intro i th hi hp; rw [hrun i th hi] at hp; cases hp
  · intro i th hi hp; rw [hrun i th hi] at hp; cases hp
  · intro i th hi
    have := h.fresh th (List.mem_of_getElem? hi)
    exact TI_fresh h.owner this.1 this.2

theorem inv_reachable {cfg : Cfg} (hsk : cfg.sk = Expected.skeleton) {s : State} (h : Reachable cfg s) : Inv cfg s := by
  induction h with
  | init hi => exact inv_init hi
  | step _ hs ih =>
    obtain ⟨t, c, hs⟩ := hs
    exact inv_step hsk ih hs

theorem reachable_steps {cfg : Cfg} {s s' : State} (h : Reachable cfg s) (hs : Steps cfg s s') : Reachable cfg s' := by
  induction hs with
  | refl => exact h
  | tail _ st ih => exact Reachable.step ih st

end Hls.Conc
