import Hls.Conc.Lemmas4
/-
  Lemmas, part 5: consequences of the invariant used by the C07 theorems
  (after `Close` has returned: flags set, nobody parked, woken requesters are doomed to a
  non-200 answer, later requests never park).
-/
namespace Hls.Conc

/-- `Close` has been called and every call of it has returned. -/
def closeReturned (s : State) : Prop :=
  (∃ c ∈ s.threads, c.kind = .closer) ∧ ∀ c ∈ s.threads, c.kind = .closer → c.result.isSome = true

instance (s : State) : Decidable (closeReturned s) := by unfold closeReturned; exact inferInstance

theorem step_cases {cfg : Cfg} {s s' : State} {t : Nat} {c : Bool} (hs : step cfg s t c = some s') :
    ∃ tht sh' tht' bc, s.threads[t]? = some tht ∧ stepThread cfg t s.sh tht c = some (sh', tht', bc) ∧
      s' = { sh := sh', threads := if bc = true then (s.threads.set t tht').map wake else s.threads.set t tht' } := by
  unfold step at hs
  cases htt : s.threads[t]? with
  | none => simp [htt] at hs
  | some tht =>
    simp only [htt] at hs
    cases hst : stepThread cfg t s.sh tht c with
    | none => simp [hst] at hs
    | some r =>
      obtain ⟨sh', tht', bc⟩ := r
      simp only [hst, Option.some.injEq] at hs
      exact ⟨tht, sh', tht', bc, rfl, hst, hs.symm⟩

theorem lt_of_getElem? {l : List Thread} {t : Nat} {x : Thread} (h : l[t]? = some x) : t < l.length := by
  rcases List.getElem?_eq_some_iff.mp h with ⟨h, _⟩; exact h

theorem wake_kind (y : Thread) : (wake y).kind = y.kind := by unfold wake; split <;> rfl
theorem wake_result (y : Thread) : (wake y).result = y.result := by unfold wake; split <;> rfl
theorem wake_everParked (y : Thread) : (wake y).everParked = y.everParked := by unfold wake; split <;> rfl
theorem wake_pc (y : Thread) : (wake y).pc = y.pc := by unfold wake; split <;> rfl
theorem wake_of_not_parked {y : Thread} (h : y.wait ≠ .parked) : wake y = y := by
  unfold wake; split
  · rename_i h'; exact absurd h' h
  · rfl

/-- what thread `i` looks like after a step of thread `t` -/
theorem thread_after {ths : List Thread} {t : Nat} {tht' : Thread} {bc : Bool} (hlt : t < ths.length) {i : Nat} {x : Thread}
    (h : (if bc = true then (ths.set t tht').map wake else ths.set t tht')[i]? = some x) :
    ∃ y, (if i = t then some tht' else ths[i]?) = some y ∧ x = if bc = true then wake y else y := by
  obtain ⟨y, hy, hx⟩ := lookup_after h
  refine ⟨y, ?_, hx⟩
  by_cases hit : i = t
  · simp [hit, hlt] at hy ⊢; exact hy
  · simp [hit] at hy ⊢; exact hy

theorem thread_after' {ths : List Thread} {t : Nat} {tht' : Thread} {bc : Bool} (hlt : t < ths.length) {i : Nat} {y : Thread}
    (hy : (if i = t then some tht' else ths[i]?) = some y) :
    (if bc = true then (ths.set t tht').map wake else ths.set t tht')[i]? = some (if bc = true then wake y else y) := by
  cases bc with
  | false =>
    simp only [Bool.false_eq_true, if_false]
    rw [getElem?_set']; simp only [hlt, if_true]; exact hy
  | true =>
    simp only [if_true, List.getElem?_map]
    rw [getElem?_set']; simp only [hlt, if_true]; rw [hy]; rfl

theorem flags_of_closeReturned {cfg : Cfg} {s : State} (hI : Inv cfg s) (hc : closeReturned s) :
    s.sh.mClosed = true ∧ ∀ j, j < cfg.nStreams → flagAt s.sh j = true := by
  obtain ⟨⟨c, hmem, hk⟩, hall⟩ := hc
  obtain ⟨i, hi⟩ := List.getElem?_of_mem hmem
  have hT := hI.t i c hi
  have hres := hall c hmem hk
  obtain ⟨st, hst⟩ := Option.isSome_iff_exists.mp hres
  have hr := hT.retSpec st hst
  have hpc : c.pc = 8 := by simp [hk, retOK] at hr; exact hr.1
  have cl := hT.closer hk
  simp only [CloserInv] at cl
  obtain ⟨_, c1, _, _, _, _, c6⟩ := cl
  exact ⟨c1 (by omega), c6 (by omega)⟩

theorem reqFlag_of_flags {cfg : Cfg} {sh : Shared} {k : Kind} (hq : k.isRequester = true) (hwf : k.wf cfg = true)
    (hm : sh.mClosed = true) (hs : ∀ j, j < cfg.nStreams → flagAt sh j = true) :
    evalFlag sh k k.waitFlag = true := by
  cases k <;> simp_all [Kind.isRequester, Kind.waitFlag, evalFlag, Kind.wf, Kind.sid, flagAt]

theorem reqFlag_of_closeReturned {cfg : Cfg} {s : State} (hI : Inv cfg s) (hc : closeReturned s)
    {i : Nat} {th : Thread} (hi : s.threads[i]? = some th) (hq : th.kind.isRequester = true) :
    evalFlag s.sh th.kind th.kind.waitFlag = true := by
  obtain ⟨hm, hs⟩ := flags_of_closeReturned hI hc
  exact reqFlag_of_flags hq (hI.t i th hi).wf hm hs

/-- After `Close` returned nobody is parked. -/
theorem no_parked_of_closeReturned {cfg : Cfg} {s : State} (hI : Inv cfg s) (hc : closeReturned s)
    {i : Nat} {th : Thread} (hi : s.threads[i]? = some th) (hq : th.kind.isRequester = true) :
    th.wait ≠ .parked := by
  intro hp
  obtain ⟨j, c, hj, hk, hr, _⟩ := hI.g.nlwFlag i th hi hp (reqFlag_of_closeReturned hI hc hi hq)
  have := hc.2 c (List.mem_of_getElem? hj) hk
  rw [hr] at this; cases this

theorem closeReturned_step {cfg : Cfg} (hsk : cfg.sk = Expected.skeleton) {s s' : State} {t : Nat} {c : Bool}
    (hI : Inv cfg s) (hc : closeReturned s) (hs : step cfg s t c = some s') : closeReturned s' := by
  obtain ⟨tht, sh', tht', bc, htt, hst, rfl⟩ := step_cases hs
  have hlt := lt_of_getElem? htt
  have e := eff_step cfg hsk _ _ _ _ _ _ _ hI.g.lenS (hI.t t tht htt) hst
  -- a finished closer cannot step
  have hnot : tht.kind ≠ .closer := by
    intro hk
    have hr := hc.2 tht (List.mem_of_getElem? htt) hk
    obtain ⟨st, hst'⟩ := Option.isSome_iff_exists.mp hr
    exact e.resKeep st hst' (by simp [hk, Kind.isWriter])
  have hnot' : tht'.kind ≠ .closer := fun hk => hnot (e.kindCl' hk)
  constructor
  · obtain ⟨c0, hmem, hk⟩ := hc.1
    obtain ⟨j, hj⟩ := List.getElem?_of_mem hmem
    have hjt : j ≠ t := by
      intro h; subst h; rw [htt] at hj; cases hj; exact hnot hk
    have := thread_after' (tht' := tht') (bc := bc) hlt (i := j) (y := c0) (by simp [hjt, hj])
    refine ⟨_, List.mem_of_getElem? this, ?_⟩
    cases bc <;> simp [wake_kind, hk]
  · intro x hx hk
    obtain ⟨i, hi⟩ := List.getElem?_of_mem hx
    obtain ⟨y, hy, rfl⟩ := thread_after hlt hi
    have hky : y.kind = .closer := by
      cases bc <;> simpa [wake_kind] using hk
    by_cases hit : i = t
    · simp [hit] at hy; subst hy; exact absurd hky hnot'
    · simp [hit] at hy
      have := hc.2 y (List.mem_of_getElem? hy) hky
      cases bc <;> simpa [wake_result] using this

/-- Once `Close` has returned, a requester that is woken (or has not yet reached its `closed`
    test) can only end with a non-200 status, and never parks on the way. -/
theorem doom_step {cfg : Cfg} (hsk : cfg.sk = Expected.skeleton) {s s' : State} {t : Nat} {c : Bool}
    (hI : Inv cfg s) (hc : closeReturned s) (hs : step cfg s t c = some s')
    {i : Nat} {th : Thread} (hi : s.threads[i]? = some th) (hq : th.kind.isRequester = true)
    (hd : doomed th ∨ okDone th) :
    ∃ th', s'.threads[i]? = some th' ∧ th'.kind = th.kind ∧ (doomed th' ∨ okDone th') ∧
      th'.everParked = th.everParked := by
  obtain ⟨tht, sh', tht', bc, htt, hst, rfl⟩ := step_cases hs
  have hlt := lt_of_getElem? htt
  have e := eff_step cfg hsk _ _ _ _ _ _ _ hI.g.lenS (hI.t t tht htt) hst
  have hnp : th.wait ≠ .parked := no_parked_of_closeReturned hI hc hi hq
  by_cases hit : i = t
  · subst hit
    rw [htt] at hi; cases hi
    have hfl := reqFlag_of_closeReturned hI hc htt hq
    rcases hd with hd | ⟨st, hst', _⟩
    · obtain ⟨h1, h2⟩ := e.doom hq hfl hd
      have hk' := e.kindReq hq
      have hnp' : tht'.wait ≠ .parked := by
        intro hp
        have := (e.park hp).1
        rw [hk'] at this
        -- the flag is still set after the step
        have hm := e.mc (flags_of_closeReturned hI hc).1
        have hsf : ∀ j, j < cfg.nStreams → flagAt sh' j = true :=
          fun j hj => e.sc j ((flags_of_closeReturned hI hc).2 j hj)
        have := reqFlag_of_flags (sh := sh') hq (hI.t i th htt).wf hm hsf
        simp_all
      refine ⟨if bc = true then wake tht' else tht', thread_after' hlt (by simp), ?_, ?_, ?_⟩
      · cases bc <;> simp [wake_kind, hk']
      · cases bc <;> simp [wake_of_not_parked hnp', h1]
      · cases bc <;> simp [wake_everParked, h2]
    · exact absurd (e.resKeep st hst' (by cases hk : th.kind <;> simp_all [Kind.isRequester, Kind.isWriter])) id
  · refine ⟨if bc = true then wake th else th, thread_after' hlt (by simp [hit, hi]), ?_, ?_, ?_⟩
    · cases bc <;> simp [wake_kind]
    · cases bc <;> simp [wake_of_not_parked hnp, hd]
    · cases bc <;> simp [wake_everParked]

theorem closeReturned_steps {cfg : Cfg} (hsk : cfg.sk = Expected.skeleton) {s s' : State}
    (hR : Reachable cfg s) (hc : closeReturned s) (hs : Steps cfg s s') : closeReturned s' := by
  induction hs with
  | refl => exact hc
  | tail h1 st ih =>
    obtain ⟨t, c, hst⟩ := st
    exact closeReturned_step hsk (inv_reachable hsk (reachable_steps hR h1)) ih hst

theorem doom_steps {cfg : Cfg} (hsk : cfg.sk = Expected.skeleton) {s s' : State}
    (hR : Reachable cfg s) (hc : closeReturned s) (hs : Steps cfg s s')
    {i : Nat} {th : Thread} (hi : s.threads[i]? = some th) (hq : th.kind.isRequester = true)
    (hd : doomed th ∨ okDone th) :
    ∃ th', s'.threads[i]? = some th' ∧ th'.kind = th.kind ∧ (doomed th' ∨ okDone th') ∧
      th'.everParked = th.everParked := by
  induction hs with
  | refl => exact ⟨th, hi, rfl, hd, rfl⟩
  | tail h1 st ih =>
    obtain ⟨t, c, hst⟩ := st
    obtain ⟨th1, hi1, hk1, hd1, he1⟩ := ih
    have hR1 := reachable_steps hR h1
    obtain ⟨th2, hi2, hk2, hd2, he2⟩ :=
      doom_step hsk (inv_reachable hsk hR1) (closeReturned_steps hsk hR hc h1) hst hi1 (by rw [hk1]; exact hq) hd1
    exact ⟨th2, hi2, hk2.trans hk1, hd2, he2.trans he1⟩

end Hls.Conc
