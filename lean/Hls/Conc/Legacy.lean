import Hls.Conc.Search
/-
  Witness traces for the UNCHANGED tree (skeleton constant `legacySkeleton`), found with
  `bfs` (Hls/Conc/Search.lean; how to re-run it is in notes/muxconc.md) and re-checked here by kernel evaluation of `run`.
-/
namespace Hls.Conc

def legacyCfg : Cfg := { sk := legacySkeleton }

/-- F4 schedule: `Close` runs to completion (tid 0, 9 steps), then a preload-hint request
    (tid 1) does `lock; loopBegin; if s.closed { 500; return }`. -/
def f4Trace : List (Nat × Bool) := List.replicate 9 (0, false) ++ List.replicate 3 (1, false)

/-- F5 schedule: a media-playlist request parks; `Close` does `lock; closed=true; unlock;
    Broadcast` and is then held at the yield point; the woken request re-acquires, sees
    `s.closed = false`, parks again; `Close` stores the stream flag and returns. -/
def f5Trace : List (Nat × Bool) :=
  List.replicate 6 (1, false) ++ List.replicate 4 (0, false) ++ List.replicate 6 (1, false) ++ List.replicate 6 (0, false)

/-- F4: in the legacy skeleton a reachable state has a FINISHED request (status 500)
    that still owns the muxer mutex; every later `lock` is disabled forever. -/
theorem legacy_f4_witness :
    ∃ s, run legacyCfg (mkInit legacyCfg 0 7 [.closer, .hint 0 0]) f4Trace = some s ∧
      s.sh.owner = some 1 ∧ (s.threads[1]?.bind (·.result)) = some 500 ∧ badLeak s = true := by
  decide

/-- F5: in the legacy skeleton a reachable state has `Close` returned and a request parked
    on the condition variable and not woken; no thread will ever broadcast again. -/
theorem legacy_f5_witness :
    ∃ s, run legacyCfg (mkInit legacyCfg 0 7 [.closer, .mediaPlain 0]) f5Trace = some s ∧
      badParked s = true ∧ (s.threads[1]?.map (·.wait)) = some .parked ∧
      (s.threads[1]?.map (·.everParked)) = some true ∧ s.sh.sClosed = [true] ∧ s.sh.owner = none := by
  decide

/-- The same two schedules are harmless in the repaired skeleton. -/
theorem fixed_f4_schedule_ok :
    ∃ s, run { sk := Expected.skeleton } (mkInit { sk := Expected.skeleton } 0 7 [.closer, .hint 0 0]) f4Trace = some s ∧
      s.sh.owner = none ∧ (s.threads[1]?.bind (·.result)) = some 500 := by
  decide

end Hls.Conc
