import Hls.Conc.Sync
/-
  The two hand-kept skeleton constants.
  * `Expected.skeleton` — the shape the invariants of `Hls/Conc/Lemmas*.lean` were proved
    for (the tree WITH fix-F4 and fix-F5). `skeleton_shape : Gen.skeleton = Expected.skeleton`
    pins the regenerated term to it.
  * `legacySkeleton` — what the extractor emitted for the unchanged tree (commit 486cd81);
    the F4 / F5 witness traces are lemmas about this constant.
-/
namespace Hls.Conc
open SyncStmt

def rotFrame (k : RotKind) : Prog :=
  [lock .M, atomicRotate k, unlock .M, ifErrRet 0 [], broadcast, ret 0 []]

def waitHandler (f : Flag) (pre : List SyncStmt) (p : Pred) (c : Callee) : Prog :=
  [lock .M, deferUnlock .M, loopBegin, ifFlagRet f 500 []] ++ pre ++
  [ifPredBreak p, condWait, loopEnd, call c, ifErrRet 500 [], ret 200 []]

def hintProg (heldOnClosed : List Mu) : Prog :=
  [lock .M, loopBegin, ifFlagRet .sClosed 500 heldOnClosed, ifPredBreak .partReady, condWait, loopEnd,
   call .pathLookup, unlock .M, call .partHandler, ifErrRet 500 [], ret 200 []]

namespace Expected
def skeleton : Skeleton where
  close       := [lock .M, store .mClosed, rangeBegin, store .sClosed, call .cleanup, rangeEnd,
                  unlock .M, broadcast, ret 0 []]
  streamClose := [store .sClosed, call .cleanup, ret 0 []]
  multi       := waitHandler .mClosed [] .hasContent .generateMulti
  mediaBlock  := waitHandler .sClosed [ifPredRet .outOfRange 400 []] .msnReady .generate
  mediaPlain  := waitHandler .sClosed [] .hasContent .generate
  hint        := hintProg []
  rotParts    := rotFrame .parts
  rotSegs     := rotFrame .segments
end Expected

/-- Unchanged tree: `Close` broadcasts before the per-stream flags are stored and stores
    them without the mutex (F5); the hint closure returns with `M` held (F4). -/
def legacySkeleton : Skeleton :=
  { Expected.skeleton with
    close := [lock .M, store .mClosed, unlock .M, broadcast,
              rangeBegin, store .sClosed, call .cleanup, rangeEnd, ret 0 []]
    hint  := hintProg [.M] }

end Hls.Conc
