import Hls.Conc.Lemmas5
/-
  Lemmas, part 6: solo runs (only one thread takes steps, nothing fails) — the progress
  halves of `c07_later_requests_return`, `c06_then_no_more_input` and the mutex hand-over.
-/
namespace Hls.Conc
open SyncStmt

/-- `n` consecutive steps of thread `i` alone (choice `false`: nothing fails), none of which broadcasts -/
def soloRun (cfg : Cfg) (i : Nat) : Nat → Shared × Thread → Option (Shared × Thread)
  | 0, x => some x
  | n + 1, (sh, th) =>
    match stepThread cfg i sh th false with
    | some (sh', th', false) => soloRun cfg i n (sh', th')
    | _ => none

theorem set_self {l : List Thread} {i : Nat} {th : Thread} (h : l[i]? = some th) : l.set i th = l := by
  apply List.ext_getElem?
  intro j
  rw [getElem?_set']
  by_cases hj : j = i
  · subst hj
    simp [lt_of_getElem? h]
    rcases List.getElem?_eq_some_iff.mp h with ⟨_, h'⟩; exact h'.symm
  · simp [hj]

theorem run_solo {cfg : Cfg} {i : Nat} : ∀ (n : Nat) {s : State} {th : Thread} {sh' : Shared} {th' : Thread},
    s.threads[i]? = some th → soloRun cfg i n (s.sh, th) = some (sh', th') →
    run cfg s (List.replicate n (i, false)) = some { sh := sh', threads := s.threads.set i th' }
  | 0, s, th, sh', th', hi, h => by
    simp only [soloRun, Option.some.injEq, Prod.mk.injEq] at h
    obtain ⟨rfl, rfl⟩ := h
    simp [run, set_self hi]
  | n + 1, s, th, sh', th', hi, h => by
    simp only [soloRun] at h
    cases hst : stepThread cfg i s.sh th false with
    | none => simp [hst] at h
    | some r =>
      obtain ⟨sh1, th1, bc⟩ := r
      cases bc with
      | true => simp [hst] at h
      | false =>
        simp only [hst] at h
        have hstep : step cfg s i false = some { sh := sh1, threads := s.threads.set i th1 } := by
          simp [step, hi, hst]
        have hi1 : (s.threads.set i th1)[i]? = some th1 := by
          rw [getElem?_set']; simp [lt_of_getElem? hi]
        have := run_solo n (s := { sh := sh1, threads := s.threads.set i th1 }) hi1 h
        simp only [List.replicate_succ, run, hstep]
        rw [this]
        simp [List.set_set]

/-- statements other than `lock` are always enabled for a running, unfinished thread -/
theorem stepThread_enabled {cfg : Cfg} {i : Nat} {sh : Shared} {th : Thread} {c : Bool} {stmt : SyncStmt}
    (hres : th.result = none) (hw : th.wait = .running)
    (hp : (th.kind.prog cfg.sk)[th.pc]? = some stmt) (hl : ∀ m, stmt ≠ .lock m) :
    ∃ r, stepThread cfg i sh th c = some r := by
  cases stmt with
  | lock m => exact absurd rfl (hl m)
  | store f => cases f <;> simp [stepThread, hres, hw, hp]
  | _ => simp only [stepThread, hres, hw, hp] <;> (repeat' split) <;> simp

set_option maxRecDepth 4000 in
theorem held_stmt {cfg : Cfg} (hsk : cfg.sk = Expected.skeleton) {k : Kind} {pc : Nat} (h : pcHeld k pc = true) :
    ∃ stmt, (k.prog cfg.sk)[pc]? = some stmt ∧ ∀ m, stmt ≠ .lock m := by
  cases k with
  | writer r =>
    have : pc = 1 ∨ pc = 2 := by simp [pcHeld] at h; omega
    cases r <;> rcases this with h | h <;> subst h <;> simp [Kind.prog, hsk, Expected.skeleton, rotFrame]
  | closer =>
    have : pc = 1 ∨ pc = 2 ∨ pc = 3 ∨ pc = 4 ∨ pc = 5 ∨ pc = 6 := by simp [pcHeld] at h; omega
    rcases this with h|h|h|h|h|h <;> subst h <;> simp [Kind.prog, hsk, Expected.skeleton]
  | multi =>
    have : pc = 1 ∨ pc = 2 ∨ pc = 3 ∨ pc = 4 ∨ pc = 5 ∨ pc = 6 ∨ pc = 7 ∨ pc = 8 ∨ pc = 9 := by simp [pcHeld] at h; omega
    rcases this with h|h|h|h|h|h|h|h|h <;> subst h <;> simp [Kind.prog, hsk, Expected.skeleton, waitHandler]
  | mediaPlain s =>
    have : pc = 1 ∨ pc = 2 ∨ pc = 3 ∨ pc = 4 ∨ pc = 5 ∨ pc = 6 ∨ pc = 7 ∨ pc = 8 ∨ pc = 9 := by simp [pcHeld] at h; omega
    rcases this with h|h|h|h|h|h|h|h|h <;> subst h <;> simp [Kind.prog, hsk, Expected.skeleton, waitHandler]
  | mediaBlock s m t =>
    have : pc = 1 ∨ pc = 2 ∨ pc = 3 ∨ pc = 4 ∨ pc = 5 ∨ pc = 6 ∨ pc = 7 ∨ pc = 8 ∨ pc = 9 ∨ pc = 10 := by simp [pcHeld] at h; omega
    rcases this with h|h|h|h|h|h|h|h|h|h <;> subst h <;> simp [Kind.prog, hsk, Expected.skeleton, waitHandler]
  | hint s d =>
    have : pc = 1 ∨ pc = 2 ∨ pc = 3 ∨ pc = 4 ∨ pc = 5 ∨ pc = 6 ∨ pc = 7 := by simp [pcHeld] at h; omega
    rcases this with h|h|h|h|h|h|h <;> subst h <;> simp [Kind.prog, hsk, Expected.skeleton, hintProg]

/-- the thread that holds the mutex can always take a step -/
theorem held_enabled {cfg : Cfg} (hsk : cfg.sk = Expected.skeleton) {i : Nat} {sh : Shared} {th : Thread} {c : Bool}
    (hT : TI cfg sh i th) (hh : th.held = true) : ∃ r, stepThread cfg i sh th c = some r := by
  have hs : (th.result.isNone && decide (th.wait = .running) && pcHeld th.kind th.pc) = true := by
    rw [← hT.heldSpec]; exact hh
  simp only [Bool.and_eq_true, decide_eq_true_eq] at hs
  obtain ⟨⟨h1, hw⟩, hp⟩ := hs
  have hres : th.result = none := Option.isNone_iff_eq_none.mp h1
  obtain ⟨stmt, h1, h2⟩ := held_stmt hsk hp
  exact stepThread_enabled hres hw h1 h2

/-- Mutex hand-over: whoever holds `M` releases it within `rank` steps of its own, needing nobody else. -/
theorem holder_releases {cfg : Cfg} (hsk : cfg.sk = Expected.skeleton) {i : Nat} (k : Nat) :
    ∀ {sh : Shared} {th : Thread}, rank cfg th ≤ k → sh.sClosed.length = cfg.nStreams →
      TI cfg sh i th → th.held = true →
      ∃ n sh' th', n ≤ k + 1 ∧ soloRun cfg i n (sh, th) = some (sh', th') ∧ sh'.owner = none := by
  induction k with
  | zero =>
    intro sh th hk hlen hT hh
    obtain ⟨⟨sh1, th1, bc⟩, hst⟩ := held_enabled (c := false) hsk hT hh
    have e := eff_step cfg hsk _ _ _ _ _ _ _ hlen hT hst
    have hbc := e.heldNoBc hh
    subst hbc
    rcases e.prog hh with ho | ⟨hh1, hlt⟩
    · exact ⟨1, sh1, th1, by omega, by simp [soloRun, hst], ho⟩
    · omega
  | succ k ih =>
    intro sh th hk hlen hT hh
    obtain ⟨⟨sh1, th1, bc⟩, hst⟩ := held_enabled (c := false) hsk hT hh
    have e := eff_step cfg hsk _ _ _ _ _ _ _ hlen hT hst
    have hbc := e.heldNoBc hh
    subst hbc
    rcases e.prog hh with ho | ⟨hh1, hlt⟩
    · exact ⟨1, sh1, th1, by omega, by simp [soloRun, hst], ho⟩
    · have hT1 := own_step cfg hsk _ _ _ _ _ _ _ hlen hT hst
      obtain ⟨n, sh', th', hn, hrun, ho⟩ :=
        ih (sh := sh1) (th := th1) (by omega) (by rw [e.len]; exact hlen) hT1 hh1
      exact ⟨n + 1, sh', th', by omega, by simp [soloRun, hst, hrun], ho⟩

end Hls.Conc
