import Hls.Conc.Machine
import Hls.Conc.Expected
/-
  The inductive invariant of the machine for the REPAIRED skeleton (`Expected.skeleton`):
  per-thread clauses `TI` (indexed by kind and program counter) and the global clauses `GI`
  (no lost wake-up, in its flag and predicate halves). Definitions only; the proofs are in
  `Lemmas*.lean`.
-/
namespace Hls.Conc

/-- program counters at which a running, unfinished thread holds `M` -/
def pcHeld : Kind → Nat → Bool
  | .writer _, pc => decide (1 ≤ pc ∧ pc ≤ 2)
  | .closer, pc => decide (1 ≤ pc ∧ pc ≤ 6)
  | .multi, pc => decide (1 ≤ pc ∧ pc ≤ 9)
  | .mediaPlain _, pc => decide (1 ≤ pc ∧ pc ≤ 9)
  | .mediaBlock _ _ _, pc => decide (1 ≤ pc ∧ pc ≤ 10)
  | .hint _ _, pc => decide (1 ≤ pc ∧ pc ≤ 7)

/-- the program counter of `condWait` -/
def waitPc : Kind → Nat
  | .multi => 5 | .mediaPlain _ => 5 | .mediaBlock _ _ _ => 6 | .hint _ _ => 4
  | _ => 0

def progLen : Kind → Nat
  | .writer _ => 6 | .closer => 9 | .multi => 10 | .mediaPlain _ => 10 | .mediaBlock _ _ _ => 11 | .hint _ _ => 11

/-- after the `closed` test, up to and including `condWait` -/
def postFlag : Kind → Nat → Bool
  | .multi, pc => decide (4 ≤ pc ∧ pc ≤ 5)
  | .mediaPlain _, pc => decide (4 ≤ pc ∧ pc ≤ 5)
  | .mediaBlock _ _ _, pc => decide (4 ≤ pc ∧ pc ≤ 6)
  | .hint _ _, pc => decide (3 ≤ pc ∧ pc ≤ 4)
  | _, _ => false

/-- behind the wait loop (the `break` was taken) -/
def postLoop : Kind → Nat → Bool
  | .multi, pc => decide (7 ≤ pc)
  | .mediaPlain _, pc => decide (7 ≤ pc)
  | .mediaBlock _ _ _, pc => decide (8 ≤ pc)
  | .hint _ _, pc => decide (6 ≤ pc)
  | _, _ => false

/-- the `(pc, status)` pairs at which a thread can have returned -/
def retOK : Kind → Nat → Nat → Bool
  | .writer _, pc, st => (pc == 3 || pc == 5) && st == 0
  | .closer, pc, st => pc == 8 && st == 0
  | .multi, pc, st => (pc == 3 && st == 500) || (pc == 8 && st == 500) || (pc == 9 && st == 200)
  | .mediaPlain _, pc, st => (pc == 3 && st == 500) || (pc == 8 && st == 500) || (pc == 9 && st == 200)
  | .mediaBlock _ _ _, pc, st =>
      (pc == 3 && st == 500) || (pc == 4 && st == 400) || (pc == 9 && st == 500) || (pc == 10 && st == 200)
  | .hint _ _, pc, st => (pc == 2 && st == 500) || (pc == 9 && st == 500) || (pc == 10 && st == 200)

def flagAt (sh : Shared) (j : Nat) : Bool := sh.sClosed.getD j false

def CloserInv (cfg : Cfg) (sh : Shared) (th : Thread) : Prop :=
  (th.pc ≤ 1 → th.idx = 0) ∧
  (2 ≤ th.pc → sh.mClosed = true) ∧
  (2 ≤ th.pc → th.pc ≤ 5 → th.idx ≤ cfg.nStreams) ∧
  (2 ≤ th.pc → th.pc ≤ 5 → ∀ j, j < th.idx → flagAt sh j = true) ∧
  (3 ≤ th.pc → th.pc ≤ 5 → th.idx < cfg.nStreams) ∧
  (4 ≤ th.pc → th.pc ≤ 5 → flagAt sh th.idx = true) ∧
  (6 ≤ th.pc → ∀ j, j < cfg.nStreams → flagAt sh j = true)

def Kind.isWriter : Kind → Bool
  | .writer _ => true
  | _ => false

/-- per-thread invariant -/
structure TI (cfg : Cfg) (sh : Shared) (i : Nat) (th : Thread) : Prop where
  nofault : th.fault = false
  own : th.held = true ↔ sh.owner = some i
  heldSpec : th.held = (th.result.isNone && decide (th.wait = .running) && pcHeld th.kind th.pc)
  inRange : th.pc < progLen th.kind
  wf : th.kind.wf cfg = true
  waitSt : th.wait ≠ .running → th.result = none ∧ th.kind.isRequester = true ∧ th.pc = waitPc th.kind
  flagFalse : th.result = none → th.wait = .running → postFlag th.kind th.pc = true →
    evalFlag sh th.kind th.kind.waitFlag = false
  predFalse : th.result = none → th.wait = .running → th.kind.isRequester = true → th.pc = waitPc th.kind →
    evalPred cfg sh th.kind th.kind.waitPred = false
  predTrue : th.kind.isRequester = true → postLoop th.kind th.pc = true →
    evalPred cfg sh th.kind th.kind.waitPred = true
  retSpec : ∀ st, th.result = some st → retOK th.kind th.pc st = true
  closer : th.kind = .closer → CloserInv cfg sh th
  werr : th.err = true → th.kind.isWriter = true → 2 ≤ th.pc
  retClosed : th.kind.isRequester = true → th.result.isSome = true → th.pc ≤ 3 →
    evalFlag sh th.kind th.kind.waitFlag = true

def closerPending (c : Thread) : Prop := c.kind = .closer ∧ c.result = none ∧ 2 ≤ c.pc ∧ c.pc ≤ 7

/-- the writer has rotated successfully and has not yet issued its Broadcast -/
def writerPending (w : Thread) : Prop :=
  w.kind.isWriter = true ∧ w.result = none ∧ (((w.pc = 2 ∨ w.pc = 3) ∧ w.err = false) ∨ w.pc = 4)

/-- a rotation failed (storage error): the writer returns the error without broadcasting -/
def writerFailed (w : Thread) : Prop := w.kind.isWriter = true ∧ w.err = true

structure GI (cfg : Cfg) (s : State) : Prop where
  lenS : s.sh.sClosed.length = cfg.nStreams
  ownerIn : ∀ t, s.sh.owner = some t → t < s.threads.length
  nlwFlag : ∀ (i : Nat) (th : Thread), s.threads[i]? = some th → th.wait = .parked →
    evalFlag s.sh th.kind th.kind.waitFlag = true → ∃ (j : Nat) (c : Thread), s.threads[j]? = some c ∧ closerPending c
  nlwPred : ∀ (i : Nat) (th : Thread), s.threads[i]? = some th → th.wait = .parked →
    evalPred cfg s.sh th.kind th.kind.waitPred = true →
    ∃ (j : Nat) (w : Thread), s.threads[j]? = some w ∧ (writerPending w ∨ writerFailed w)

structure Inv (cfg : Cfg) (s : State) : Prop where
  g : GI cfg s
  t : ∀ (i : Nat) (th : Thread), s.threads[i]? = some th → TI cfg s.sh i th

end Hls.Conc
