import Hls.Conc.Machine
import Hls.Conc.Expected
/-
  Bounded search in the machine (SEARCH ONLY — nothing here is a proof; the witnesses it
  finds are re-stated as machine-checked lemmas in `Hls/Conc/Legacy.lean`).
-/
namespace Hls.Conc

/-- all enabled `(tid, choice)` moves; `choice = true` is listed only when it matters -/
def moves (cfg : Cfg) (s : State) : List ((Nat × Bool) × State) :=
  (List.range s.threads.length).flatMap fun t =>
    [false, true].filterMap fun c =>
      match step cfg s t c with
      | none => none
      | some s' => if c = true && step cfg s t false = some s' then none else some ((t, c), s')

/-- breadth-first search for a state satisfying `bad`, at most `depth` steps; returns the schedule -/
def bfs (cfg : Cfg) (bad : State → Bool) (depth : Nat) (s0 : State) : Option (List (Nat × Bool)) := Id.run do
  let mut frontier : List (State × List (Nat × Bool)) := [(s0, [])]
  let mut seen : List State := [s0]
  for _ in [0:depth+1] do
    let mut nxt := []
    for (s, tr) in frontier do
      if bad s then return some tr.reverse
      for (m, s') in moves cfg s do
        if !(seen.contains s') then
          seen := s' :: seen
          nxt := (s', m :: tr) :: nxt
    frontier := nxt.reverse
  return none

/-- number of distinct states within `depth` steps and whether any is `bad` -/
def explore (cfg : Cfg) (bad : State → Bool) (depth : Nat) (s0 : State) : Nat × Bool := Id.run do
  let mut frontier : List State := [s0]
  let mut seen : List State := [s0]
  let mut found := false
  for _ in [0:depth+1] do
    let mut nxt := []
    for s in frontier do
      if bad s then found := true
      for (_, s') in moves cfg s do
        if !(seen.contains s') then
          seen := s' :: seen
          nxt := s' :: nxt
    frontier := nxt
  return (seen.length, found)

def closerDone (s : State) : Bool := s.threads.any fun th => th.kind = .closer && th.result.isSome
def allClosersDone (s : State) : Bool := s.threads.all fun th => th.kind != .closer || th.result.isSome

/-- F4 shape: a finished thread still owns the mutex. -/
def badLeak (s : State) : Bool :=
  (List.range s.threads.length).any fun t =>
    match s.threads[t]? with
    | some th => th.result.isSome && s.sh.owner = some t
    | none => false

/-- F5 shape: `Close` has returned and a requester is parked without being woken. -/
def badParked (s : State) : Bool :=
  allClosersDone s && closerDone s && s.threads.any fun th => th.kind.isRequester && th.wait = .parked && th.result.isNone

end Hls.Conc
