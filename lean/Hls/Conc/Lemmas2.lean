import Hls.Conc.Lemmas1
/-
  Lemmas, part 2: the EFFECT of one own step on the shared state and on the facts the global
  invariant and the C06/C07 theorems need (`Eff`), again by case analysis over kind × pc.
-/
namespace Hls.Conc
open SyncStmt

/-- program counters from which a requester reaches its `closed` test without parking -/
def dpc : Kind → Nat → Bool
  | .multi, pc => pc ≤ 3 || pc == 6
  | .mediaPlain _, pc => pc ≤ 3 || pc == 6
  | .mediaBlock _ _ _, pc => pc ≤ 3 || pc == 7
  | .hint _ _, pc => pc ≤ 2 || pc == 5
  | _, _ => false

/-- an unfinished requester that will test its `closed` flag before anything else -/
def doomed (th : Thread) : Prop :=
  th.result = none ∧ (th.wait = .woken ∨ (th.wait = .running ∧ dpc th.kind th.pc = true))

def okDone (th : Thread) : Prop := ∃ st, th.result = some st ∧ st ≠ 200

/-- an upper bound on the number of own steps after which a thread that holds `M` has released it -/
def rank (cfg : Cfg) (th : Thread) : Nat :=
  match th.kind, th.pc with
  | .writer _, pc => 3 - pc
  | .closer, pc => 4 * (cfg.nStreams - th.idx) + (6 - pc)
  | .multi, pc => if pc = 6 then 10 else if pc ≤ 4 then 10 - pc else if pc = 5 then 1 else 10 - pc
  | .mediaPlain _, pc => if pc = 6 then 10 else if pc ≤ 4 then 10 - pc else if pc = 5 then 1 else 10 - pc
  | .mediaBlock _ _ _, pc => if pc = 7 then 11 else if pc ≤ 5 then 11 - pc else if pc = 6 then 1 else 11 - pc
  | .hint _ _, pc => if pc = 5 then 9 else if pc ≤ 3 then 9 - pc else if pc = 4 then 1 else 8 - pc

structure Eff (cfg : Cfg) (t : Nat) (sh sh' : Shared) (th th' : Thread) (bc : Bool) : Prop where
  len : sh'.sClosed.length = sh.sClosed.length
  np : sh.nextPartID ≤ sh'.nextPartID
  ns : sh.nextSegmentID ≤ sh'.nextSegmentID
  mc : sh.mClosed = true → sh'.mClosed = true
  sc : ∀ j, flagAt sh j = true → flagAt sh' j = true
  own : sh'.owner = sh.owner ∨ (sh.owner = none ∧ sh'.owner = some t) ∨ (sh.owner = some t ∧ sh'.owner = none)
  frame : th.held = false → sh'.nextPartID = sh.nextPartID ∧ sh'.nextSegmentID = sh.nextSegmentID ∧
    sh'.mClosed = sh.mClosed ∧ sh'.sClosed = sh.sClosed
  flagCh : (sh'.mClosed ≠ sh.mClosed ∨ sh'.sClosed ≠ sh.sClosed) → closerPending th'
  cntCh : (sh'.nextPartID ≠ sh.nextPartID ∨ sh'.nextSegmentID ≠ sh.nextSegmentID) →
    (writerPending th' ∨ writerFailed th')
  cpend : closerPending th → bc = false → closerPending th'
  wpend : writerPending th → bc = false → writerPending th'
  wfail : writerFailed th → writerFailed th'
  bcRun : bc = true → th'.wait = .running
  park : th'.wait = .parked → evalFlag sh' th'.kind th'.kind.waitFlag = false ∧
    evalPred cfg sh' th'.kind th'.kind.waitPred = false
  kindReq : th.kind.isRequester = true → th'.kind = th.kind
  kindCl : th.kind = .closer → th'.kind = .closer
  resKeep : ∀ st, th.result = some st → th.kind.isWriter = false → False
  doom : th.kind.isRequester = true → evalFlag sh th.kind th.kind.waitFlag = true → doomed th →
    (doomed th' ∨ okDone th') ∧ th'.everParked = th.everParked
  early : th'.everParked = true → th.everParked = true ∨ th'.wait = .parked
  kindCl' : th'.kind = .closer → th.kind = .closer
  heldNoBc : th.held = true → bc = false
  prog : th.held = true → sh'.owner = none ∨ (th'.held = true ∧ rank cfg th' < rank cfg th)

set_option hygiene false in
macro "estep" : tactic => `(tactic| (
  simp [stepThread, Kind.prog, hsk, Expected.skeleton, waitHandler, hintProg, rotFrame, hres, hw, hk, hpc, finish, faulted] at hs
  simp [hres, hw, hk, hpc, pcHeld] at heldSpec
  repeat' split at hs
  all_goals (
    try simp only [Option.some.injEq, Prod.mk.injEq, reduceCtorEq] at hs
    try (first | obtain ⟨rfl, rfl, rfl⟩ := hs | obtain ⟨ho, rfl, rfl, rfl⟩ := hs)
    try (constructor <;> simp_all [closerPending, writerPending, writerFailed, doomed, okDone, dpc, flagAt, rank, evalPred_eq, evalFlag_eq, next, pcHeld, progLen, waitPc, postFlag, postLoop, retOK, Kind.isRequester, Kind.isWriter, Kind.waitFlag, Kind.waitPred, jumpBack, jumpAfter, isStmt, List.findIdx_cons]))))

section
variable (cfg : Cfg) (hsk : cfg.sk = Expected.skeleton) (sh : Shared) (i : Nat) (th : Thread) (c : Bool)
    (sh' : Shared) (th' : Thread) (bc : Bool)
include hsk

theorem eff_multi (hk : th.kind = .multi)
    (h : TI cfg sh i th) (hs : stepThread cfg i sh th c = some (sh', th', bc)) : Eff cfg i sh sh' th th' bc := by
  obtain ⟨nofault, own, heldSpec, inRange, wf, waitSt, flagFalse, predFalse, predTrue, retSpec, closer, werr, retClosed⟩ := h
  simp only [progLen, hk] at inRange
  cases hres : th.result with
  | some st => simp [stepThread, hres, hk] at hs
  | none =>
    cases hw : th.wait with
    | parked => simp [stepThread, hres, hw] at hs
    | woken =>
      have hpc := (waitSt (by simp [hw])).2.2
      simp [hk, waitPc] at hpc
      estep
    | running =>
      have : th.pc = 0 ∨ th.pc = 1 ∨ th.pc = 2 ∨ th.pc = 3 ∨ th.pc = 4 ∨ th.pc = 5 ∨ th.pc = 6 ∨ th.pc = 7 ∨ th.pc = 8 ∨ th.pc = 9 := by omega
      rcases this with hpc|hpc|hpc|hpc|hpc|hpc|hpc|hpc|hpc|hpc <;> estep

theorem eff_mediaPlain (sid : Nat) (hk : th.kind = .mediaPlain sid)
    (h : TI cfg sh i th) (hs : stepThread cfg i sh th c = some (sh', th', bc)) : Eff cfg i sh sh' th th' bc := by
  obtain ⟨nofault, own, heldSpec, inRange, wf, waitSt, flagFalse, predFalse, predTrue, retSpec, closer, werr, retClosed⟩ := h
  simp only [progLen, hk] at inRange
  cases hres : th.result with
  | some st => simp [stepThread, hres, hk] at hs
  | none =>
    cases hw : th.wait with
    | parked => simp [stepThread, hres, hw] at hs
    | woken =>
      have hpc := (waitSt (by simp [hw])).2.2
      simp [hk, waitPc] at hpc
      estep
    | running =>
      have : th.pc = 0 ∨ th.pc = 1 ∨ th.pc = 2 ∨ th.pc = 3 ∨ th.pc = 4 ∨ th.pc = 5 ∨ th.pc = 6 ∨ th.pc = 7 ∨ th.pc = 8 ∨ th.pc = 9 := by omega
      rcases this with hpc|hpc|hpc|hpc|hpc|hpc|hpc|hpc|hpc|hpc <;> estep

theorem eff_mediaBlock (sid msn tgt : Nat) (hk : th.kind = .mediaBlock sid msn tgt)
    (h : TI cfg sh i th) (hs : stepThread cfg i sh th c = some (sh', th', bc)) : Eff cfg i sh sh' th th' bc := by
  obtain ⟨nofault, own, heldSpec, inRange, wf, waitSt, flagFalse, predFalse, predTrue, retSpec, closer, werr, retClosed⟩ := h
  simp only [progLen, hk] at inRange
  cases hres : th.result with
  | some st => simp [stepThread, hres, hk] at hs
  | none =>
    cases hw : th.wait with
    | parked => simp [stepThread, hres, hw] at hs
    | woken =>
      have hpc := (waitSt (by simp [hw])).2.2
      simp [hk, waitPc] at hpc
      estep
    | running =>
      have : th.pc = 0 ∨ th.pc = 1 ∨ th.pc = 2 ∨ th.pc = 3 ∨ th.pc = 4 ∨ th.pc = 5 ∨ th.pc = 6 ∨ th.pc = 7 ∨ th.pc = 8 ∨ th.pc = 9 ∨ th.pc = 10 := by omega
      rcases this with hpc|hpc|hpc|hpc|hpc|hpc|hpc|hpc|hpc|hpc|hpc <;> estep

theorem eff_hint (sid id : Nat) (hk : th.kind = .hint sid id)
    (h : TI cfg sh i th) (hs : stepThread cfg i sh th c = some (sh', th', bc)) : Eff cfg i sh sh' th th' bc := by
  obtain ⟨nofault, own, heldSpec, inRange, wf, waitSt, flagFalse, predFalse, predTrue, retSpec, closer, werr, retClosed⟩ := h
  simp only [progLen, hk] at inRange
  cases hres : th.result with
  | some st => simp [stepThread, hres, hk] at hs
  | none =>
    cases hw : th.wait with
    | parked => simp [stepThread, hres, hw] at hs
    | woken =>
      have hpc := (waitSt (by simp [hw])).2.2
      simp [hk, waitPc] at hpc
      estep
    | running =>
      have : th.pc = 0 ∨ th.pc = 1 ∨ th.pc = 2 ∨ th.pc = 3 ∨ th.pc = 4 ∨ th.pc = 5 ∨ th.pc = 6 ∨ th.pc = 7 ∨ th.pc = 8 ∨ th.pc = 9 ∨ th.pc = 10 := by omega
      rcases this with hpc|hpc|hpc|hpc|hpc|hpc|hpc|hpc|hpc|hpc|hpc <;> estep

theorem eff_writer (k : RotKind) (hk : th.kind = .writer k)
    (h : TI cfg sh i th) (hs : stepThread cfg i sh th c = some (sh', th', bc)) : Eff cfg i sh sh' th th' bc := by
  obtain ⟨nofault, own, heldSpec, inRange, wf, waitSt, flagFalse, predFalse, predTrue, retSpec, closer, werr, retClosed⟩ := h
  simp only [progLen, hk] at inRange
  have hw : th.wait = .running := by
    cases hw : th.wait <;> simp_all [Kind.isRequester]
  cases hres : th.result with
  | some st =>
    simp [stepThread, hres, hk] at hs
    obtain ⟨⟨he, _⟩, rfl, rfl, rfl⟩ := hs
    simp [hres] at heldSpec
    constructor <;> simp_all [closerPending, writerPending, writerFailed, doomed, okDone, dpc, rank, Kind.isRequester, Kind.isWriter]
  | none =>
      have : th.pc = 0 ∨ th.pc = 1 ∨ th.pc = 2 ∨ th.pc = 3 ∨ th.pc = 4 ∨ th.pc = 5 := by omega
      cases k <;> rcases this with hpc|hpc|hpc|hpc|hpc|hpc <;> estep

set_option hygiene false in
macro "cestep" : tactic => `(tactic| (
  simp [stepThread, Kind.prog, hsk, Expected.skeleton, hres, hw, hk, hpc, finish, faulted] at hs
  simp [hres, hw, hk, hpc, pcHeld] at heldSpec
  simp [CloserInv, hpc] at cl
  repeat' split at hs
  all_goals (
    try simp only [Option.some.injEq, Prod.mk.injEq, reduceCtorEq] at hs
    try (first | obtain ⟨rfl, rfl, rfl⟩ := hs | obtain ⟨ho, rfl, rfl, rfl⟩ := hs)
    try (constructor <;> simp_all [closerPending, writerPending, writerFailed, doomed, okDone, dpc, flagAt, rank, evalPred_eq, evalFlag_eq, next, pcHeld, progLen, waitPc, postFlag, postLoop, retOK, Kind.isRequester, Kind.isWriter, Kind.waitFlag, Kind.waitPred, jumpBack, jumpAfter, isStmt, List.findIdx_cons]))))

theorem eff_closer (hk : th.kind = .closer) (hlen : sh.sClosed.length = cfg.nStreams)
    (h : TI cfg sh i th) (hs : stepThread cfg i sh th c = some (sh', th', bc)) : Eff cfg i sh sh' th th' bc := by
  obtain ⟨nofault, own, heldSpec, inRange, wf, waitSt, flagFalse, predFalse, predTrue, retSpec, closer, werr, retClosed⟩ := h
  simp only [progLen, hk] at inRange
  have hw : th.wait = .running := by
    cases hw : th.wait <;> simp_all [Kind.isRequester]
  have cl := closer hk
  cases hres : th.result with
  | some st => simp [stepThread, hres, hk] at hs
  | none =>
      have : th.pc = 0 ∨ th.pc = 1 ∨ th.pc = 2 ∨ th.pc = 3 ∨ th.pc = 4 ∨ th.pc = 5 ∨ th.pc = 6 ∨ th.pc = 7 ∨ th.pc = 8 := by omega
      rcases this with hpc|hpc|hpc|hpc|hpc|hpc|hpc|hpc|hpc
      · cestep
      · cestep
      · cestep
      · cestep
        intro j h1
        rw [← List.getD_eq_getElem?_getD] at h1 ⊢
        exact getD_set_true _ _ _ h1
      · cestep
      · cestep
        omega
      · cestep
      · cestep
      · cestep

theorem eff_step (hlen : sh.sClosed.length = cfg.nStreams)
    (h : TI cfg sh i th) (hs : stepThread cfg i sh th c = some (sh', th', bc)) : Eff cfg i sh sh' th th' bc := by
  cases hk : th.kind with
  | writer k => exact eff_writer cfg hsk sh i th c sh' th' bc k hk h hs
  | closer => exact eff_closer cfg hsk sh i th c sh' th' bc hk hlen h hs
  | multi => exact eff_multi cfg hsk sh i th c sh' th' bc hk h hs
  | mediaPlain s => exact eff_mediaPlain cfg hsk sh i th c sh' th' bc s hk h hs
  | mediaBlock s m t => exact eff_mediaBlock cfg hsk sh i th c sh' th' bc s m t hk h hs
  | hint s d => exact eff_hint cfg hsk sh i th c sh' th' bc s d hk h hs

end
end Hls.Conc
