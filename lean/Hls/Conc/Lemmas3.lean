import Hls.Conc.Lemmas2
/-
  Lemmas, part 3: the invariant `Inv` is inductive (generic argument; all program-specific
  case analysis is in parts 1 and 2).
-/
namespace Hls.Conc

theorem predD_mono (cfg : Cfg) (k : Kind) {np ns np' ns' : Nat} (h1 : np ≤ np') (h2 : ns ≤ ns')
    (h : predD cfg np ns k k.waitPred = true) : predD cfg np' ns' k k.waitPred = true := by
  cases k <;> simp_all [predD, evalPred, Kind.waitPred, hasContent] <;> omega

theorem postFlag_held {k : Kind} {pc : Nat} (h : postFlag k pc = true) : pcHeld k pc = true := by
  cases k <;> simp_all [postFlag, pcHeld] <;> omega

theorem waitPc_held {k : Kind} (h : k.isRequester = true) : pcHeld k (waitPc k) = true := by
  cases k <;> simp_all [waitPc, pcHeld, Kind.isRequester]

theorem flagD_mono (k : Kind) (f : Flag) {m m' : Bool} {l l' : List Bool} (hm : m = true → m' = true)
    (hl : ∀ j, l.getD j false = true → l'.getD j false = true)
    (h : flagD m l k f = true) : flagD m' l' k f = true := by
  cases f
  · exact hm h
  · exact hl _ h

theorem TI_wake {cfg : Cfg} {sh : Shared} {i : Nat} {th : Thread} (h : TI cfg sh i th) : TI cfg sh i (wake th) := by
  unfold wake
  split
  · rename_i hw
    obtain ⟨nofault, own, heldSpec, inRange, wf, waitSt, flagFalse, predFalse, predTrue, retSpec, closer, werr, retClosed⟩ := h
    have hws := waitSt (by simp [hw])
    have hnc : th.kind ≠ .closer := by
      intro hk
      have := hws.2.1
      simp [hk, Kind.isRequester] at this
    constructor <;> simp_all
  · exact h

theorem other_step {cfg : Cfg} {sh sh' : Shared} {t i : Nat} {th tht tht' : Thread} {bc : Bool}
    (hne : i ≠ t) (hi : TI cfg sh i th) (ht : TI cfg sh t tht) (e : Eff cfg t sh sh' tht tht' bc) :
    TI cfg sh' i th := by
  obtain ⟨nofault, own, heldSpec, inRange, wf, waitSt, flagFalse, predFalse, predTrue, retSpec, closer, werr, retClosed⟩ := hi
  -- if thread i holds the mutex, thread t does not, so its step left the data alone
  have frame : th.held = true → sh'.nextPartID = sh.nextPartID ∧ sh'.nextSegmentID = sh.nextSegmentID ∧
      sh'.mClosed = sh.mClosed ∧ sh'.sClosed = sh.sClosed := by
    intro hh
    have ho := own.mp hh
    apply e.frame
    cases hth : tht.held with
    | false => rfl
    | true =>
      have := ht.own.mp hth
      rw [ho] at this
      exact absurd (Option.some.inj this) hne
  refine ⟨nofault, ?_, heldSpec, inRange, wf, waitSt, ?_, ?_, ?_, retSpec, ?_, werr, ?_⟩
  · constructor
    · intro hh
      have ho := own.mp hh
      rcases e.own with h | ⟨h, _⟩ | ⟨h, _⟩
      · rw [h]; exact ho
      · rw [ho] at h; cases h
      · rw [ho] at h; exact absurd (Option.some.inj h) hne
    · intro ho'
      rcases e.own with h | ⟨_, h⟩ | ⟨_, h⟩
      · rw [h] at ho'; exact own.mpr ho'
      · rw [ho'] at h; exact absurd (Option.some.inj h) hne
      · rw [ho'] at h; cases h
  · intro hr hw hp
    have hh : th.held = true := by rw [heldSpec]; simp [hr, hw, postFlag_held hp]
    obtain ⟨_, _, h3, h4⟩ := frame hh
    have := flagFalse hr hw hp
    simp only [evalFlag_eq] at this ⊢
    rw [h3, h4]; exact this
  · intro hr hw hq hp
    have hh : th.held = true := by rw [heldSpec]; simp [hr, hw, hp, waitPc_held hq]
    obtain ⟨h1, h2, _, _⟩ := frame hh
    have := predFalse hr hw hq hp
    simp only [evalPred_eq] at this ⊢
    rw [h1, h2]; exact this
  · intro hq hp
    have := predTrue hq hp
    simp only [evalPred_eq] at this ⊢
    exact predD_mono cfg _ e.np e.ns this
  · intro hk
    have cl := closer hk
    simp only [CloserInv] at cl ⊢
    obtain ⟨c0, c1, c2, c3, c4, c5, c6⟩ := cl
    exact ⟨c0, fun h => e.mc (c1 h), c2, fun h1 h2 j hj => e.sc j (c3 h1 h2 j hj), c4,
      fun h1 h2 => e.sc _ (c5 h1 h2), fun h j hj => e.sc j (c6 h j hj)⟩
  · intro hq hr hp
    have := retClosed hq hr hp
    simp only [evalFlag_eq] at this ⊢
    exact flagD_mono _ _ e.mc e.sc this


theorem wake_not_parked (y : Thread) : (wake y).wait ≠ .parked := by
  unfold wake
  split
  · simp
  · rename_i h; exact h

theorem getElem?_set' (l : List Thread) (t i : Nat) (a : Thread) :
    (l.set t a)[i]? = if i = t then (if t < l.length then some a else none) else l[i]? := by
  rw [List.getElem?_set]
  by_cases h : t = i
  · subst h; simp
  · have : ¬ i = t := fun h' => h h'.symm
    simp [h, this]

theorem lookup_after {ths : List Thread} {t : Nat} {tht' : Thread} {bc : Bool} {i : Nat} {x : Thread}
    (h : (if bc = true then (ths.set t tht').map wake else ths.set t tht')[i]? = some x) :
    ∃ y, (if i = t then (if t < ths.length then some tht' else none) else ths[i]?) = some y ∧
      x = if bc = true then wake y else y := by
  cases bc with
  | false =>
    simp only [Bool.false_eq_true, if_false] at h ⊢
    rw [getElem?_set'] at h
    exact ⟨x, h, rfl⟩
  | true =>
    simp only [if_true, List.getElem?_map, Option.map_eq_some_iff] at h ⊢
    obtain ⟨y, h1, h2⟩ := h
    rw [getElem?_set'] at h1
    exact ⟨y, h1, h2.symm⟩

theorem lookup_after_nobc {ths : List Thread} {t : Nat} {tht' : Thread} {j : Nat} (hlt : t < ths.length) :
    (ths.set t tht')[j]? = if j = t then some tht' else ths[j]? := by
  rw [getElem?_set']; simp [hlt]

theorem inv_step {cfg : Cfg} (hsk : cfg.sk = Expected.skeleton) {s s' : State} {t : Nat} {c : Bool}
    (hI : Inv cfg s) (hs : step cfg s t c = some s') : Inv cfg s' := by
  unfold step at hs
  cases htt : s.threads[t]? with
  | none => simp [htt] at hs
  | some tht =>
    simp only [htt] at hs
    cases hst : stepThread cfg t s.sh tht c with
    | none => simp [hst] at hs
    | some r =>
      obtain ⟨sh', tht', bc⟩ := r
      simp only [hst, Option.some.injEq] at hs
      subst hs
      have hT := hI.t t tht htt
      have hT' := own_step cfg hsk _ _ _ _ _ _ _ hI.g.lenS hT hst
      have e := eff_step cfg hsk _ _ _ _ _ _ _ hI.g.lenS hT hst
      have hlt : t < s.threads.length := by
        rcases List.getElem?_eq_some_iff.mp htt with ⟨h, _⟩; exact h
      -- per-thread part
      have hTI : ∀ (i : Nat) (x : Thread),
          (if bc = true then (s.threads.set t tht').map wake else s.threads.set t tht')[i]? = some x →
          TI cfg sh' i x := by
        intro i x hx
        obtain ⟨y, hy, rfl⟩ := lookup_after hx
        have hyTI : TI cfg sh' i y := by
          by_cases hit : i = t
          · subst hit
            simp [hlt] at hy
            subst hy
            exact hT'
          · simp [hit] at hy
            exact other_step hit (hI.t i y hy) hT e
        cases bc with
        | false => simpa using hyTI
        | true => simpa using TI_wake hyTI
      refine ⟨⟨?_, ?_, ?_, ?_⟩, hTI⟩
      · show sh'.sClosed.length = cfg.nStreams
        rw [e.len]; exact hI.g.lenS
      · intro u hu
        have hlen : (if bc = true then (s.threads.set t tht').map wake else s.threads.set t tht').length = s.threads.length := by
          cases bc <;> simp
        show u < (if bc = true then (s.threads.set t tht').map wake else s.threads.set t tht').length
        rw [hlen]
        have hu' : sh'.owner = some u := hu
        rcases e.own with h | ⟨_, h⟩ | ⟨_, h⟩
        · rw [h] at hu'; exact hI.g.ownerIn u hu'
        · rw [h] at hu'; cases hu'; exact hlt
        · rw [h] at hu'; cases hu'
      · -- no lost wake-up, flag half
        intro i x hx hpk hfl
        obtain ⟨y, hy, rfl⟩ := lookup_after hx
        cases bc with
        | true => exact absurd hpk (by simpa using wake_not_parked y)
        | false =>
          simp only [Bool.false_eq_true, if_false] at hpk hfl hx ⊢
          by_cases hit : i = t
          · subst hit
            simp [hlt] at hy
            subst hy
            have := (e.park hpk).1
            rw [this] at hfl; cases hfl
          · simp [hit] at hy
            have hfl' : evalFlag sh' y.kind y.kind.waitFlag = true := hfl
            by_cases hold : evalFlag s.sh y.kind y.kind.waitFlag = true
            · obtain ⟨j, cth, hj, hc⟩ := hI.g.nlwFlag i y hy hpk hold
              by_cases hjt : j = t
              · subst hjt
                rw [htt] at hj; cases hj
                exact ⟨j, tht', by rw [lookup_after_nobc hlt]; simp, e.cpend hc rfl⟩
              · exact ⟨j, cth, by rw [lookup_after_nobc hlt]; simp [hjt, hj], hc⟩
            · refine ⟨t, tht', by rw [lookup_after_nobc hlt]; simp, e.flagCh ?_⟩
              by_cases h1 : sh'.mClosed = s.sh.mClosed
              · by_cases h2 : sh'.sClosed = s.sh.sClosed
                · exfalso; apply hold
                  rw [evalFlag_eq] at hfl' ⊢
                  rw [← h1, ← h2]; exact hfl'
                · exact Or.inr h2
              · exact Or.inl h1
      · -- no lost wake-up, predicate half
        intro i x hx hpk hpr
        obtain ⟨y, hy, rfl⟩ := lookup_after hx
        cases bc with
        | true => exact absurd hpk (by simpa using wake_not_parked y)
        | false =>
          simp only [Bool.false_eq_true, if_false] at hpk hpr hx ⊢
          by_cases hit : i = t
          · subst hit
            simp [hlt] at hy
            subst hy
            have := (e.park hpk).2
            rw [this] at hpr; cases hpr
          · simp [hit] at hy
            have hpr' : evalPred cfg sh' y.kind y.kind.waitPred = true := hpr
            by_cases hold : evalPred cfg s.sh y.kind y.kind.waitPred = true
            · obtain ⟨j, w, hj, hc⟩ := hI.g.nlwPred i y hy hpk hold
              by_cases hjt : j = t
              · subst hjt
                rw [htt] at hj; cases hj
                refine ⟨j, tht', by rw [lookup_after_nobc hlt]; simp, ?_⟩
                rcases hc with hc | hc
                · exact Or.inl (e.wpend hc rfl)
                · exact Or.inr (e.wfail hc)
              · exact ⟨j, w, by rw [lookup_after_nobc hlt]; simp [hjt, hj], hc⟩
            · refine ⟨t, tht', by rw [lookup_after_nobc hlt]; simp, e.cntCh ?_⟩
              by_cases h1 : sh'.nextPartID = s.sh.nextPartID
              · by_cases h2 : sh'.nextSegmentID = s.sh.nextSegmentID
                · exfalso; apply hold
                  rw [evalPred_eq] at hpr' ⊢
                  rw [← h1, ← h2]; exact hpr'
                · exact Or.inr h2
              · exact Or.inl h1

end Hls.Conc
