import Hls.Conc.Inv
/-
  Lemmas, part 1: a thread's OWN step preserves its per-thread invariant `TI`
  (case analysis over kind × program counter of `Expected.skeleton`).
-/
namespace Hls.Conc
open SyncStmt

def predD (cfg : Cfg) (np ns : Nat) (k : Kind) (p : Pred) : Bool :=
  evalPred cfg { nextPartID := np, nextSegmentID := ns } k p
def flagD (m : Bool) (l : List Bool) (k : Kind) (f : Flag) : Bool :=
  evalFlag { mClosed := m, sClosed := l } k f

theorem evalPred_eq (cfg : Cfg) (sh : Shared) (k : Kind) (p : Pred) :
    evalPred cfg sh k p = predD cfg sh.nextPartID sh.nextSegmentID k p := by
  cases p <;> cases k <;> rfl
theorem evalFlag_eq (sh : Shared) (k : Kind) (f : Flag) :
    evalFlag sh k f = flagD sh.mClosed sh.sClosed k f := by
  cases f <;> rfl

@[simp] theorem rotate_owner (sh : Shared) (k : RotKind) (c : Bool) : (rotate sh k c).owner = sh.owner := by
  cases k <;> cases c <;> rfl
@[simp] theorem rotate_mClosed (sh : Shared) (k : RotKind) (c : Bool) : (rotate sh k c).mClosed = sh.mClosed := by
  cases k <;> cases c <;> rfl
@[simp] theorem rotate_sClosed (sh : Shared) (k : RotKind) (c : Bool) : (rotate sh k c).sClosed = sh.sClosed := by
  cases k <;> cases c <;> rfl

@[simp] theorem rotate_np_le (sh : Shared) (k : RotKind) (c : Bool) : sh.nextPartID ≤ (rotate sh k c).nextPartID := by
  cases k <;> cases c <;> simp [rotate]
@[simp] theorem rotate_ns_le (sh : Shared) (k : RotKind) (c : Bool) : sh.nextSegmentID ≤ (rotate sh k c).nextSegmentID := by
  cases k <;> cases c <;> simp [rotate]

theorem getD_set_true (l : List Bool) (i j : Nat) (h : l.getD j false = true) : (l.set i true).getD j false = true := by
  simp only [List.getD_eq_getElem?_getD, List.getElem?_set] at *
  split
  · split <;> simp_all
  · exact h
theorem getD_set_self (l : List Bool) (i : Nat) (h : i < l.length) : (l.set i true).getD i false = true := by
  simp [List.getD_eq_getElem?_getD, h]

set_option hygiene false in
/-- one (kind, pc) case of `own_step`: compute the statement, split its branches, rebuild `TI` -/
macro "tstep" : tactic => `(tactic| (
  simp [stepThread, Kind.prog, hsk, Expected.skeleton, waitHandler, hintProg, rotFrame, hres, hw, hk, hpc, finish, faulted] at hs
  simp [hres, hw, hk, hpc, pcHeld] at heldSpec
  repeat' split at hs
  all_goals (
    try simp only [Option.some.injEq, Prod.mk.injEq, reduceCtorEq] at hs
    try (first | obtain ⟨rfl, rfl, rfl⟩ := hs | obtain ⟨ho, rfl, rfl, rfl⟩ := hs)
    try (constructor <;> simp_all [evalPred_eq, evalFlag_eq, next, pcHeld, progLen, waitPc, postFlag, postLoop, retOK, Kind.isRequester, Kind.isWriter, Kind.waitFlag, Kind.waitPred, jumpBack, jumpAfter, isStmt, List.findIdx_cons]))))

section
variable (cfg : Cfg) (hsk : cfg.sk = Expected.skeleton) (sh : Shared) (i : Nat) (th : Thread) (c : Bool)
    (sh' : Shared) (th' : Thread) (bc : Bool)
include hsk

theorem own_step_multi (hk : th.kind = .multi)
    (h : TI cfg sh i th) (hs : stepThread cfg i sh th c = some (sh', th', bc)) : TI cfg sh' i th' := by
  obtain ⟨nofault, own, heldSpec, inRange, wf, waitSt, flagFalse, predFalse, predTrue, retSpec, closer, werr, retClosed⟩ := h
  simp only [progLen, hk] at inRange
  cases hres : th.result with
  | some st => simp [stepThread, hres, hk] at hs
  | none =>
    cases hw : th.wait with
    | parked => simp [stepThread, hres, hw] at hs
    | woken =>
      have hpc := (waitSt (by simp [hw])).2.2
      simp [hk, waitPc] at hpc
      tstep
    | running =>
      have : th.pc = 0 ∨ th.pc = 1 ∨ th.pc = 2 ∨ th.pc = 3 ∨ th.pc = 4 ∨ th.pc = 5 ∨ th.pc = 6 ∨ th.pc = 7 ∨ th.pc = 8 ∨ th.pc = 9 := by omega
      rcases this with hpc|hpc|hpc|hpc|hpc|hpc|hpc|hpc|hpc|hpc <;> tstep

theorem own_step_mediaPlain (sid : Nat) (hk : th.kind = .mediaPlain sid)
    (h : TI cfg sh i th) (hs : stepThread cfg i sh th c = some (sh', th', bc)) : TI cfg sh' i th' := by
  obtain ⟨nofault, own, heldSpec, inRange, wf, waitSt, flagFalse, predFalse, predTrue, retSpec, closer, werr, retClosed⟩ := h
  simp only [progLen, hk] at inRange
  cases hres : th.result with
  | some st => simp [stepThread, hres, hk] at hs
  | none =>
    cases hw : th.wait with
    | parked => simp [stepThread, hres, hw] at hs
    | woken =>
      have hpc := (waitSt (by simp [hw])).2.2
      simp [hk, waitPc] at hpc
      tstep
    | running =>
      have : th.pc = 0 ∨ th.pc = 1 ∨ th.pc = 2 ∨ th.pc = 3 ∨ th.pc = 4 ∨ th.pc = 5 ∨ th.pc = 6 ∨ th.pc = 7 ∨ th.pc = 8 ∨ th.pc = 9 := by omega
      rcases this with hpc|hpc|hpc|hpc|hpc|hpc|hpc|hpc|hpc|hpc <;> tstep

theorem own_step_mediaBlock (sid msn tgt : Nat) (hk : th.kind = .mediaBlock sid msn tgt)
    (h : TI cfg sh i th) (hs : stepThread cfg i sh th c = some (sh', th', bc)) : TI cfg sh' i th' := by
  obtain ⟨nofault, own, heldSpec, inRange, wf, waitSt, flagFalse, predFalse, predTrue, retSpec, closer, werr, retClosed⟩ := h
  simp only [progLen, hk] at inRange
  cases hres : th.result with
  | some st => simp [stepThread, hres, hk] at hs
  | none =>
    cases hw : th.wait with
    | parked => simp [stepThread, hres, hw] at hs
    | woken =>
      have hpc := (waitSt (by simp [hw])).2.2
      simp [hk, waitPc] at hpc
      tstep
    | running =>
      have : th.pc = 0 ∨ th.pc = 1 ∨ th.pc = 2 ∨ th.pc = 3 ∨ th.pc = 4 ∨ th.pc = 5 ∨ th.pc = 6 ∨ th.pc = 7 ∨ th.pc = 8 ∨ th.pc = 9 ∨ th.pc = 10 := by omega
      rcases this with hpc|hpc|hpc|hpc|hpc|hpc|hpc|hpc|hpc|hpc|hpc <;> tstep

theorem own_step_hint (sid id : Nat) (hk : th.kind = .hint sid id)
    (h : TI cfg sh i th) (hs : stepThread cfg i sh th c = some (sh', th', bc)) : TI cfg sh' i th' := by
  obtain ⟨nofault, own, heldSpec, inRange, wf, waitSt, flagFalse, predFalse, predTrue, retSpec, closer, werr, retClosed⟩ := h
  simp only [progLen, hk] at inRange
  cases hres : th.result with
  | some st => simp [stepThread, hres, hk] at hs
  | none =>
    cases hw : th.wait with
    | parked => simp [stepThread, hres, hw] at hs
    | woken =>
      have hpc := (waitSt (by simp [hw])).2.2
      simp [hk, waitPc] at hpc
      tstep
    | running =>
      have : th.pc = 0 ∨ th.pc = 1 ∨ th.pc = 2 ∨ th.pc = 3 ∨ th.pc = 4 ∨ th.pc = 5 ∨ th.pc = 6 ∨ th.pc = 7 ∨ th.pc = 8 ∨ th.pc = 9 ∨ th.pc = 10 := by omega
      rcases this with hpc|hpc|hpc|hpc|hpc|hpc|hpc|hpc|hpc|hpc|hpc <;> tstep

theorem own_step_writer (k : RotKind) (hk : th.kind = .writer k)
    (h : TI cfg sh i th) (hs : stepThread cfg i sh th c = some (sh', th', bc)) : TI cfg sh' i th' := by
  obtain ⟨nofault, own, heldSpec, inRange, wf, waitSt, flagFalse, predFalse, predTrue, retSpec, closer, werr, retClosed⟩ := h
  simp only [progLen, hk] at inRange
  have hw : th.wait = .running := by
    cases hw : th.wait <;> simp_all [Kind.isRequester]
  cases hres : th.result with
  | some st =>
    simp [stepThread, hres, hk] at hs
    obtain ⟨_, rfl, rfl, rfl⟩ := hs
    simp [hres] at heldSpec
    constructor <;> simp_all [pcHeld, progLen, Kind.wf, postFlag, postLoop, Kind.isRequester, Kind.isWriter]
  | none =>
      have : th.pc = 0 ∨ th.pc = 1 ∨ th.pc = 2 ∨ th.pc = 3 ∨ th.pc = 4 ∨ th.pc = 5 := by omega
      cases k <;> rcases this with hpc|hpc|hpc|hpc|hpc|hpc <;> tstep

set_option hygiene false in
macro "cstep" : tactic => `(tactic| (
  simp [stepThread, Kind.prog, hsk, Expected.skeleton, hres, hw, hk, hpc, finish, faulted] at hs
  simp [hres, hw, hk, hpc, pcHeld] at heldSpec
  simp [CloserInv, hpc] at cl
  repeat' split at hs
  all_goals (
    try simp only [Option.some.injEq, Prod.mk.injEq, reduceCtorEq] at hs
    try (first | obtain ⟨rfl, rfl, rfl⟩ := hs | obtain ⟨ho, rfl, rfl, rfl⟩ := hs)
    try (constructor <;> simp_all [CloserInv, flagAt, evalPred_eq, evalFlag_eq, next, pcHeld, progLen, waitPc, postFlag, postLoop, retOK, Kind.isRequester, Kind.isWriter, Kind.waitFlag, Kind.waitPred, jumpBack, jumpAfter, isStmt, List.findIdx_cons]))))

theorem own_step_closer (hk : th.kind = .closer) (hlen : sh.sClosed.length = cfg.nStreams)
    (h : TI cfg sh i th) (hs : stepThread cfg i sh th c = some (sh', th', bc)) : TI cfg sh' i th' := by
  obtain ⟨nofault, own, heldSpec, inRange, wf, waitSt, flagFalse, predFalse, predTrue, retSpec, closer, werr, retClosed⟩ := h
  simp only [progLen, hk] at inRange
  have hw : th.wait = .running := by
    cases hw : th.wait <;> simp_all [Kind.isRequester]
  have cl := closer hk
  cases hres : th.result with
  | some st => simp [stepThread, hres, hk] at hs
  | none =>
      have : th.pc = 0 ∨ th.pc = 1 ∨ th.pc = 2 ∨ th.pc = 3 ∨ th.pc = 4 ∨ th.pc = 5 ∨ th.pc = 6 ∨ th.pc = 7 ∨ th.pc = 8 := by omega
      rcases this with hpc|hpc|hpc|hpc|hpc|hpc|hpc|hpc|hpc
      · cstep
      · cstep
      · cstep
        intro j hj
        have h1 := closer j (by omega)
        have h2 : j < sh.sClosed.length := by omega
        simpa [List.getElem?_eq_getElem h2] using h1
      · cstep
        intro j hj
        have h1 := closer j hj
        rw [← List.getD_eq_getElem?_getD] at h1 ⊢
        exact getD_set_true _ _ _ h1
      · cstep
      · cstep
        refine ⟨by omega, fun j hj => ?_⟩
        rcases Nat.lt_succ_iff_lt_or_eq.mp hj with h | h
        · exact closer.1 j h
        · subst h
          have h2 : th.idx < sh.sClosed.length := by omega
          simp [List.getElem?_eq_getElem h2, closer.2]
      · cstep
      · cstep
      · cstep

theorem own_step (hlen : sh.sClosed.length = cfg.nStreams)
    (h : TI cfg sh i th) (hs : stepThread cfg i sh th c = some (sh', th', bc)) : TI cfg sh' i th' := by
  cases hk : th.kind with
  | writer k => exact own_step_writer cfg hsk sh i th c sh' th' bc k hk h hs
  | closer => exact own_step_closer cfg hsk sh i th c sh' th' bc hk hlen h hs
  | multi => exact own_step_multi cfg hsk sh i th c sh' th' bc hk h hs
  | mediaPlain s => exact own_step_mediaPlain cfg hsk sh i th c sh' th' bc s hk h hs
  | mediaBlock s m t => exact own_step_mediaBlock cfg hsk sh i th c sh' th' bc s m t hk h hs
  | hint s d => exact own_step_hint cfg hsk sh i th c sh' th' bc s d hk h hs

end
end Hls.Conc
