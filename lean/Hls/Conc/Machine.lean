import Hls.Conc.Sync
/-
  The interleaving machine for the muxer (DESIGN §6 "The interleaving machine", C06
  concurrent half, C07).

  * shared state: abstract muxer data (`nextPartID`, `nextSegmentID`, `Muxer.closed`, one
    `closed` flag per stream) + the owner of the muxer mutex;
  * per thread: program counter into a `Prog` of the REGENERATED skeleton, the condition
    variable status (`running | parked | woken`), locals;
  * `condWait` = release + park in one step (Go: `notifyListAdd` precedes `L.Unlock()`),
    `broadcast` turns every parked thread into `woken`; re-acquiring the mutex is a
    separate step of the woken thread. Hence "woken before the flag is stored" and lost
    wake-ups are representable.
  * threads: any list of writers (`lock; atomic rotate; unlock; [err → return]; broadcast`,
    re-started any number of times), closers (`Muxer.Close`), and requesters of four kinds.

  Everything is a total computable function so that `#eval`-searches and `decide`d
  witness runs are possible; the step RELATION is `∃ tid choice, step … = some s'`.
-/
namespace Hls.Conc

inductive Kind
  | writer (k : RotKind)
  | closer
  | multi                                   -- GET index.m3u8
  | mediaPlain (sid : Nat)                  -- GET <stream>_stream.m3u8
  | mediaBlock (sid msn tgt : Nat)          -- … ?_HLS_msn=…[&_HLS_part=…]; `tgt` = global id+1 of the wanted part
  | hint (sid id : Nat)                     -- GET of the preload-hint URI registered for part `id`
  deriving DecidableEq, Repr, Inhabited

inductive WaitSt | running | parked | woken
  deriving DecidableEq, Repr, Inhabited

structure Cfg where
  sk : Skeleton
  nStreams : Nat := 1
  /-- first segment id (7 in LL, 0 otherwise) -/
  firstSeg : Nat := 7
  /-- `hasContent` threshold on the number of rotated segments (2 for fMP4, else 1) -/
  contentMin : Nat := 1
  /-- the out-of-range test of the blocking reload, as a function of (`_HLS_msn`, `nextSegmentID`);
      opaque to every theorem (the sequential half of C06 is about its exact form) -/
  oor : Nat → Nat → Bool := fun msn nseg => msn > nseg + 1 || msn + 7 < nseg

structure Shared where
  nextPartID : Nat := 0
  nextSegmentID : Nat := 7
  mClosed : Bool := false
  sClosed : List Bool := [false]
  owner : Option Nat := none
  deriving DecidableEq, Repr, Inhabited

structure Thread where
  kind : Kind
  pc : Nat := 0
  /-- ghost: this thread believes it holds `M` (proved equal to `owner = some tid`) -/
  held : Bool := false
  err : Bool := false
  idx : Nat := 0
  wait : WaitSt := .running
  result : Option Nat := none
  /-- ghost: has executed `condWait` at least once -/
  everParked : Bool := false
  /-- Go runtime fatal error "unlock of unlocked mutex" / Wait without the lock -/
  fault : Bool := false
  deriving DecidableEq, Repr, Inhabited

structure State where
  sh : Shared
  threads : List Thread
  deriving DecidableEq, Repr, Inhabited

def Kind.prog (sk : Skeleton) : Kind → Prog
  | .writer .parts => sk.rotParts
  | .writer .segments => sk.rotSegs
  | .closer => sk.close
  | .multi => sk.multi
  | .mediaPlain _ => sk.mediaPlain
  | .mediaBlock _ _ _ => sk.mediaBlock
  | .hint _ _ => sk.hint

def Kind.isRequester : Kind → Bool
  | .writer _ | .closer => false
  | _ => true

def Kind.sid : Kind → Nat
  | .mediaPlain s | .mediaBlock s _ _ | .hint s _ => s
  | _ => 0

def hasContent (cfg : Cfg) (sh : Shared) : Bool := decide (cfg.firstSeg + cfg.contentMin ≤ sh.nextSegmentID)

def evalPred (cfg : Cfg) (sh : Shared) (k : Kind) : Pred → Bool
  | .hasContent => hasContent cfg sh
  | .outOfRange => match k with | .mediaBlock _ msn _ => cfg.oor msn sh.nextSegmentID | _ => false
  | .msnReady => match k with | .mediaBlock _ _ tgt => hasContent cfg sh && decide (tgt ≤ sh.nextPartID) | _ => false
  | .partReady => match k with | .hint _ id => decide (id < sh.nextPartID) | _ => false

def evalFlag (sh : Shared) (k : Kind) : Flag → Bool
  | .mClosed => sh.mClosed
  | .sClosed => sh.sClosed.getD k.sid false

/-- The predicate a requester of kind `k` waits for (what its `ifPredBreak` tests). -/
def Kind.waitPred : Kind → Pred
  | .mediaBlock _ _ _ => .msnReady
  | .hint _ _ => .partReady
  | _ => .hasContent

/-- The flag a requester's wait loop tests. -/
def Kind.waitFlag : Kind → Flag
  | .multi => .mClosed
  | _ => .sClosed

def isStmt (x : SyncStmt) (s : SyncStmt) : Bool := decide (s = x)

/-- index just behind the first `x` at or after `pc` -/
def jumpAfter (x : SyncStmt) (p : Prog) (pc : Nat) : Nat := pc + (p.drop pc).findIdx (isStmt x) + 1
/-- index of the last `x` before `pc` -/
def jumpBack (x : SyncStmt) (p : Prog) (pc : Nat) : Nat := pc - 1 - ((p.take pc).reverse.findIdx (isStmt x))

/-- Effect of a rotation on the counters. A FAILED rotation (storage error) has already
    incremented `nextPartID` (`s.nextPartID++` precedes `part.finalize`) — modelled as is. -/
def rotate (sh : Shared) (k : RotKind) (fail : Bool) : Shared :=
  match k, fail with
  | .parts, _ => { sh with nextPartID := sh.nextPartID + 1 }
  | .segments, false => { sh with nextPartID := sh.nextPartID + 1, nextSegmentID := sh.nextSegmentID + 1 }
  | .segments, true => { sh with nextPartID := sh.nextPartID + 1 }

def Callee.canFail : Callee → Bool
  | .generate | .generateMulti | .partHandler => true
  | _ => false

def next (th : Thread) : Thread := { th with pc := th.pc + 1 }

/-- A returning statement: the thread keeps exactly the locks in `keep` (the extractor's
    `held` annotation: deferred and explicit unlocks on that path are accounted there). -/
def finish (tid : Nat) (sh : Shared) (th : Thread) (status : Nat) (keep : List Mu) : Shared × Thread × Bool :=
  if keep.contains .M then (sh, { th with result := some status }, false)
  else (if sh.owner = some tid then { sh with owner := none } else sh,
        { th with result := some status, held := false }, false)

def faulted (sh : Shared) (th : Thread) : Shared × Thread × Bool :=
  (sh, { th with fault := true, result := some 0 }, false)

/-- One step of thread `tid`; `choice` resolves the step's nondeterminism (does the
    rotation / generation fail; which rotation the writer performs next).
    `none` = not enabled. The `Bool` of the result = "a Broadcast was issued". -/
def stepThread (cfg : Cfg) (tid : Nat) (sh : Shared) (th : Thread) (choice : Bool) : Option (Shared × Thread × Bool) :=
  match th.result with
  | some _ =>
    -- only the writer starts over (next Write* call), unless a rotation failed
    match th.kind with
    | .writer _ =>
      if th.err || th.fault then none
      else some (sh, { kind := .writer (if choice then .segments else .parts) }, false)
    | _ => none
  | none =>
    match th.wait with
    | .parked => none
    | .woken =>
      -- re-acquisition inside `cond.Wait`
      if sh.owner = none then
        some ({ sh with owner := some tid }, { next th with wait := .running, held := true }, false)
      else none
    | .running =>
      let p := th.kind.prog cfg.sk
      match p[th.pc]? with
      | none => none
      | some stmt =>
        match stmt with
        | .lock _ =>
          if sh.owner = none then some ({ sh with owner := some tid }, { next th with held := true }, false) else none
        | .unlock _ =>
          if sh.owner = some tid then some ({ sh with owner := none }, { next th with held := false }, false)
          else some (faulted sh th)
        | .deferUnlock _ => some (sh, next th, false)
        | .loopBegin => some (sh, next th, false)
        | .loopEnd => some (sh, { th with pc := jumpBack .loopBegin p th.pc }, false)
        | .rangeBegin =>
          if th.idx < cfg.nStreams then some (sh, next th, false)
          else some (sh, { th with pc := jumpAfter .rangeEnd p th.pc }, false)
        | .rangeEnd => some (sh, { th with pc := jumpBack .rangeBegin p th.pc, idx := th.idx + 1 }, false)
        | .ifFlagRet f st keep =>
          if evalFlag sh th.kind f then some (finish tid sh th st keep) else some (sh, next th, false)
        | .ifPredBreak q =>
          if evalPred cfg sh th.kind q then some (sh, { th with pc := jumpAfter .loopEnd p th.pc }, false)
          else some (sh, next th, false)
        | .ifPredRet q st keep =>
          if evalPred cfg sh th.kind q then some (finish tid sh th st keep) else some (sh, next th, false)
        | .ifErrRet st keep =>
          if th.err then some (finish tid sh th st keep) else some (sh, next th, false)
        | .condWait =>
          if sh.owner = some tid then
            some ({ sh with owner := none }, { th with held := false, wait := .parked, everParked := true }, false)
          else some (faulted sh th)
        | .broadcast => some (sh, next th, true)
        | .store .mClosed => some ({ sh with mClosed := true }, next th, false)
        | .store .sClosed => some ({ sh with sClosed := sh.sClosed.set th.idx true }, next th, false)
        | .atomicRotate k => some (rotate sh k choice, { next th with err := choice }, false)
        | .call c => some (sh, { next th with err := choice && c.canFail }, false)
        | .ret st keep => some (finish tid sh th st keep)

def wake (th : Thread) : Thread :=
  match th.wait with
  | .parked => { th with wait := .woken }
  | _ => th

def step (cfg : Cfg) (s : State) (tid : Nat) (choice : Bool) : Option State :=
  match s.threads[tid]? with
  | none => none
  | some th =>
    match stepThread cfg tid s.sh th choice with
    | none => none
    | some (sh', th', bc) =>
      let ths := s.threads.set tid th'
      some { sh := sh', threads := if bc then ths.map wake else ths }

/-- The step relation (all schedules, all resolutions of nondeterminism). -/
def Step (cfg : Cfg) (s s' : State) : Prop := ∃ tid choice, step cfg s tid choice = some s'

/-- Run a schedule (list of `(tid, choice)`); `none` if some step is not enabled. -/
def run (cfg : Cfg) : State → List (Nat × Bool) → Option State
  | s, [] => some s
  | s, (t, c) :: rest => match step cfg s t c with
    | none => none
    | some s' => run cfg s' rest

def Thread.fresh (th : Thread) : Prop := th = { kind := th.kind }

instance (th : Thread) : Decidable th.fresh := by unfold Thread.fresh; exact inferInstance

def Kind.wf (cfg : Cfg) : Kind → Bool
  | .mediaPlain s | .mediaBlock s _ _ | .hint s _ => decide (s < cfg.nStreams)
  | _ => true

/-- Initial states: any counters, nothing closed, mutex free, any list of not yet started
    threads whose stream indices exist. -/
structure Init (cfg : Cfg) (s : State) : Prop where
  owner : s.sh.owner = none
  mOpen : s.sh.mClosed = false
  sOpen : s.sh.sClosed = List.replicate cfg.nStreams false
  fresh : ∀ th ∈ s.threads, th.fresh ∧ th.kind.wf cfg = true

inductive Reachable (cfg : Cfg) : State → Prop
  | init {s} : Init cfg s → Reachable cfg s
  | step {s s'} : Reachable cfg s → Step cfg s s' → Reachable cfg s'

/-- Reflexive-transitive closure of `Step`. -/
inductive Steps (cfg : Cfg) : State → State → Prop
  | refl (s) : Steps cfg s s
  | tail {s s' s''} : Steps cfg s s' → Step cfg s' s'' → Steps cfg s s''

def mkInit (cfg : Cfg) (np ns : Nat) (kinds : List Kind) : State :=
  { sh := { nextPartID := np, nextSegmentID := ns, sClosed := List.replicate cfg.nStreams false },
    threads := kinds.map fun k => { kind := k } }

end Hls.Conc
