/-
  Sync skeleton datatype (DESIGN Appendix A.2, muxer part) — the language in which
  `go/cmd/extract/gen_skeleton.go` re-emits the synchronisation-relevant statements of
  the muxer's handlers, of `Muxer.Close` and of the writer's rotate frame.

  Differences to the sketch in A.2 (all additive):
  * every returning statement carries the set of locks the EXTRACTOR computed to be still
    held at that return (`held`), so that `c07_returns_release_locks` is a `decide` over
    the regenerated term;
  * `rangeBegin/rangeEnd` (the `for _, stream := range m.streams` loop of `Close`),
    `ifErrRet` (`if err != nil { return }`) and `call` (a non-synchronising call whose
    outcome can fail) are explicit;
  * the channel statements of A.2 belong to the client queue skeletons (C20 slice) and are
    not needed here.
-/
namespace Hls.Conc

/-- Mutexes of the muxer. `M` = `Muxer.mutex` (aliased as `muxerStream.mutex`).
    The path table's own `RWMutex` is taken and released inside `call`s and never
    held across a blocking operation; it is not part of the skeleton. -/
inductive Mu | M
  deriving DecidableEq, Repr, Inhabited

inductive Flag
  | mClosed            -- `Muxer.closed`
  | sClosed            -- `muxerStream.closed` (of the stream the statement is executed for)
  deriving DecidableEq, Repr, Inhabited

inductive Pred
  | hasContent         -- `s.hasContent()`  /  `m.streams[0].hasContent()`
  | outOfRange         -- `msnint > nextSegmentID+1 || msnint < nextSegmentID-(len-1)`
  | msnReady           -- `s.hasContent() && s.hasPart(msnint, partint)`
  | partReady          -- `s.nextPartID > capturePartID`
  deriving DecidableEq, Repr, Inhabited

inductive RotKind | parts | segments
  deriving DecidableEq, Repr, Inhabited

/-- Calls without synchronisation content that the skeleton keeps as markers. -/
inductive Callee
  | generate           -- `s.generateMediaPlaylist(...)`       (can fail → 500)
  | generateMulti      -- `m.generateMultivariantPlaylist(...)` (can fail → 500)
  | pathLookup         -- `s.server.getPathHandler(partPath)`
  | partHandler        -- `h(w, r)`, the real part handler       (can fail → 500)
  | cleanup            -- file removal / finalisation in `muxerStream.close`
  deriving DecidableEq, Repr, Inhabited

inductive SyncStmt
  | lock (m : Mu) | unlock (m : Mu) | deferUnlock (m : Mu)
  | loopBegin | loopEnd
  | rangeBegin | rangeEnd
  | ifFlagRet (f : Flag) (status : Nat) (held : List Mu)
  | ifPredBreak (p : Pred)
  | ifPredRet (p : Pred) (status : Nat) (held : List Mu)
  | ifErrRet (status : Nat) (held : List Mu)
  | condWait | broadcast
  | store (f : Flag) | atomicRotate (k : RotKind)
  | call (c : Callee)
  | ret (status : Nat) (held : List Mu)
  deriving DecidableEq, Repr, Inhabited

abbrev Prog := List SyncStmt

/-- The regenerated skeleton: one program per function of interest. Status `0` = the
    function is not an HTTP handler. -/
structure Skeleton where
  close       : Prog   -- `Muxer.Close` with `muxerStream.close` inlined in its range loop
  streamClose : Prog   -- `muxerStream.close` on its own
  multi       : Prog   -- `Muxer.handleMultivariantPlaylist`
  mediaBlock  : Prog   -- `muxerStream.handleMediaPlaylist`, path `_HLS_msn != ""`
  mediaPlain  : Prog   -- `muxerStream.handleMediaPlaylist`, plain path
  hint        : Prog   -- the preload-hint closure registered in `muxerStream.rotateParts`
  rotParts    : Prog   -- `Muxer.rotateParts`
  rotSegs     : Prog   -- `Muxer.rotateSegments`
  deriving DecidableEq, Repr, Inhabited

/-- The HTTP handlers (everything a request can execute). -/
def Skeleton.handlers (sk : Skeleton) : List Prog := [sk.multi, sk.mediaBlock, sk.mediaPlain, sk.hint]

/-- Every program of the skeleton. -/
def Skeleton.all (sk : Skeleton) : List Prog :=
  [sk.close, sk.streamClose, sk.multi, sk.mediaBlock, sk.mediaPlain, sk.hint, sk.rotParts, sk.rotSegs]

/-- The lock sets annotated on the returning statements of a program. -/
def heldAtReturns : Prog → List (List Mu)
  | [] => []
  | .ifFlagRet _ _ h :: r => h :: heldAtReturns r
  | .ifPredRet _ _ h :: r => h :: heldAtReturns r
  | .ifErrRet _ h :: r => h :: heldAtReturns r
  | .ret _ h :: r => h :: heldAtReturns r
  | _ :: r => heldAtReturns r

end Hls.Conc
