import Hls.Conc.Lemmas7
import Hls.Conc.Legacy
/-
  Lemmas, part 8: glue between executable runs and the step relation; the statements of
  the property theorems for `Expected.skeleton` (the Props files only rewrite with
  `skeleton_shape`).
-/
namespace Hls.Conc

theorem steps_run {cfg : Cfg} : ∀ (tr : List (Nat × Bool)) {s s' : State}, run cfg s tr = some s' → Steps cfg s s'
  | [], s, s', h => by simp [run] at h; subst h; exact Steps.refl s
  | (t, c) :: rest, s, s', h => by
    simp only [run] at h
    cases hst : step cfg s t c with
    | none => simp [hst] at h
    | some s1 =>
      simp only [hst] at h
      have h1 : Steps cfg s s1 := Steps.tail (Steps.refl s) ⟨t, c, hst⟩
      have h2 := steps_run rest h
      -- transitivity
      clear h hst
      induction h2 with
      | refl => exact h1
      | tail _ st ih => exact Steps.tail ih st

theorem reachable_run {cfg : Cfg} {s0 s : State} {tr : List (Nat × Bool)} (hi : Init cfg s0)
    (h : run cfg s0 tr = some s) : Reachable cfg s :=
  reachable_steps (Reachable.init hi) (steps_run tr h)

theorem init_mkInit (cfg : Cfg) (np ns : Nat) (kinds : List Kind) (hwf : ∀ k ∈ kinds, k.wf cfg = true) :
    Init cfg (mkInit cfg np ns kinds) := by
  refine ⟨rfl, rfl, rfl, ?_⟩
  intro th hth
  simp only [mkInit, List.mem_map] at hth
  obtain ⟨k, hk, rfl⟩ := hth
  exact ⟨rfl, hwf k hk⟩

theorem fresh_doomed {th : Thread} (hq : th.kind.isRequester = true) (hf : th.fresh) : doomed th := by
  unfold Thread.fresh at hf
  have h1 : th.result = none := by rw [hf]
  have h2 : th.wait = .running := by rw [hf]
  have h3 : th.pc = 0 := by rw [hf]
  clear hf
  cases hk : th.kind <;> simp_all [doomed, dpc, Kind.isRequester]

theorem solo_to_run {cfg : Cfg} {s : State} {i n : Nat} {th : Thread} {sh' : Shared} {th' : Thread}
    (hi : s.threads[i]? = some th) (h : soloRun cfg i n (s.sh, th) = some (sh', th')) :
    ∃ s', run cfg s (List.replicate n (i, false)) = some s' ∧ s'.sh = sh' ∧ s'.threads[i]? = some th' := by
  refine ⟨_, run_solo n hi h, rfl, ?_⟩
  show (s.threads.set i th')[i]? = some th'
  rw [getElem?_set']; simp [lt_of_getElem? hi]

end Hls.Conc
