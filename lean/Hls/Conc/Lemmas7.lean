import Hls.Conc.Lemmas6
/-
  Lemmas, part 7: explicit solo runs of a requester —
  (1) a request that starts after `Close` returned gets its 500 in ≤ 4 own steps, never parks;
  (2) a woken requester whose predicate holds returns in ≤ 10 own steps (status 200 unless its
      stream was closed or its msn fell out of range meanwhile).
-/
namespace Hls.Conc
open SyncStmt

set_option maxRecDepth 8000

theorem later_solo {cfg : Cfg} (hsk : cfg.sk = Expected.skeleton) {i : Nat} {sh : Shared} {th : Thread}
    (hq : th.kind.isRequester = true) (hf : th.fresh) (ho : sh.owner = none)
    (hfl : evalFlag sh th.kind th.kind.waitFlag = true) :
    ∃ n sh' th', n ≤ 4 ∧ soloRun cfg i n (sh, th) = some (sh', th') ∧ th'.result = some 500 ∧
      sh'.owner = none ∧ th'.everParked = false := by
  unfold Thread.fresh at hf
  rw [evalFlag_eq] at hfl
  cases hk : th.kind with
  | writer k => simp [hk, Kind.isRequester] at hq
  | closer => simp [hk, Kind.isRequester] at hq
  | multi =>
    rw [hf, hk]; rw [hk] at hfl
    refine ⟨4, ?_⟩
    simp [soloRun, stepThread, Kind.prog, hsk, Expected.skeleton, waitHandler, next, finish, ho, evalFlag_eq, Kind.waitFlag] at hfl ⊢
    simp [hfl]
    exact ⟨_, _, ⟨rfl, rfl⟩, rfl, rfl, rfl⟩
  | mediaPlain s =>
    rw [hf, hk]; rw [hk] at hfl
    refine ⟨4, ?_⟩
    simp [soloRun, stepThread, Kind.prog, hsk, Expected.skeleton, waitHandler, next, finish, ho, evalFlag_eq, Kind.waitFlag] at hfl ⊢
    simp [hfl]
    exact ⟨_, _, ⟨rfl, rfl⟩, rfl, rfl, rfl⟩
  | mediaBlock s m t =>
    rw [hf, hk]; rw [hk] at hfl
    refine ⟨4, ?_⟩
    simp [soloRun, stepThread, Kind.prog, hsk, Expected.skeleton, waitHandler, next, finish, ho, evalFlag_eq, Kind.waitFlag] at hfl ⊢
    simp [hfl]
    exact ⟨_, _, ⟨rfl, rfl⟩, rfl, rfl, rfl⟩
  | hint s d =>
    rw [hf, hk]; rw [hk] at hfl
    refine ⟨3, ?_⟩
    simp [soloRun, stepThread, Kind.prog, hsk, Expected.skeleton, hintProg, next, finish, ho, evalFlag_eq, Kind.waitFlag] at hfl ⊢
    simp [hfl]
    exact ⟨_, _, ⟨rfl, rfl⟩, rfl, rfl, rfl⟩


set_option hygiene false in
macro "wsolo" n:num : tactic => `(tactic| (
  refine ⟨$n, ?_⟩
  simp only [evalFlag_eq, evalPred_eq, Kind.waitFlag, Kind.waitPred] at hfl hp hoor
  simp [soloRun, stepThread, Kind.prog, hsk, Expected.skeleton, waitHandler, hintProg, next, finish, ho, hk, hpc, hres, hw,
    evalFlag_eq, evalPred_eq, Kind.waitFlag, Kind.waitPred, jumpBack, jumpAfter, isStmt, List.findIdx_cons, Callee.canFail,
    hfl, hp, hoor]
  exact ⟨_, _, ⟨rfl, rfl⟩, by simp⟩))

theorem woken_solo {cfg : Cfg} (hsk : cfg.sk = Expected.skeleton) {i : Nat} {sh : Shared} {th : Thread}
    (hT : TI cfg sh i th) (hw : th.wait = .woken) (ho : sh.owner = none)
    (hp : evalPred cfg sh th.kind th.kind.waitPred = true) :
    ∃ n sh' th', n ≤ 10 ∧ soloRun cfg i n (sh, th) = some (sh', th') ∧ th'.result.isSome = true ∧ sh'.owner = none ∧
      (evalFlag sh th.kind th.kind.waitFlag = false → evalPred cfg sh th.kind .outOfRange = false →
        th'.result = some 200) := by
  obtain ⟨hres, hq, hpc⟩ := hT.waitSt (by simp [hw])
  cases hfl : evalFlag sh th.kind th.kind.waitFlag <;> cases hoor : evalPred cfg sh th.kind .outOfRange <;>
  cases hk : th.kind with
  | writer k => simp [hk, Kind.isRequester] at hq
  | closer => simp [hk, Kind.isRequester] at hq
  | multi =>
    simp only [hk, waitPc] at hpc hfl hp hoor
    first | wsolo 8 | wsolo 4
  | mediaPlain s =>
    simp only [hk, waitPc] at hpc hfl hp hoor
    first | wsolo 8 | wsolo 4
  | mediaBlock s m t =>
    simp only [hk, waitPc] at hpc hfl hp hoor
    first | wsolo 9 | wsolo 5 | wsolo 4
  | hint s d =>
    simp only [hk, waitPc] at hpc hfl hp hoor
    first | wsolo 10 | wsolo 4

end Hls.Conc
