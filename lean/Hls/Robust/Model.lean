import Hls.Gen.Arith
import Hls.Gen.Robust
import Hls.Client.TimeConv
/-!
# Robustness model of the client (property C13)

What the client *decides* after container decoding, over abstract decoded values:

* fMP4 init           = `Option (List InitTrack)`      (`none` = `fmp4.Init.Unmarshal` failed)
* fMP4 segment / part = `Payload.parts (List (List PartTrack))`
* MPEG-TS segment     = `Payload.ts {kinds, items}`     (tracks found by `mpegts.Reader.Initialize`, reader call-backs
                                                       and `OnDecodeError` events in call-back order)
* playlists           = `MediaView` / `Primary`         (only what the downloaders branch on)

`kind` ranges over *strings*: the theorems hold for every codec name, in particular for every implementation of
`fmp4.Codec` / `mpegts.Codec` listed in the regenerated `Hls.Gen.Robust.fmp4CodecTypes` / `mpegtsCodecTypes`.

Every Go operation of this code that can panic is an explicit outcome (`PanicKind`): call of a nil func value
(`decodePayload`), dereference of a nil pointer obtained from a map miss / nil rendition / nil playlist field,
slice indexing (`init.Tracks[0]`, `p.init.Tracks[i]`, `p.clientStreamTracks[i]`, `segments[index]`,
`pl.Segments[len-1]`), integer division (`multiplyAndDivide`, `timestampToDuration`), single-value type assertions
(`getLeadingTimeConv().(*clientTimeConvFMP4)`, `pl.(*playlist.Media)`). A completion channel that can fill up while
the stream processor is still pushing is the outcome `wedge`.

The guards of the source are *parameters* (`Flags`); `genFlags` instantiates them with the facts regenerated from
/repo (`Hls.Gen.Robust`), so the model follows the code that exists. Every loop is structural recursion over the
decoded value (or over the list of server responses for the download loops).
-/
namespace Hls.Robust
open Hls.Gen.Robust

/-! ## outcomes -/

inductive PanicKind where
  | nilFunc      -- call of a nil func value
  | nilDeref     -- nil pointer dereference
  | index        -- index out of range
  | divZero      -- integer divide by zero
  | typeAssert   -- failed single-value type assertion (also on a nil interface)
  deriving DecidableEq, Repr

inductive ErrClass where
  | decode               -- mediacommon returned an error for init / segment / part bytes
  | playlist             -- playlist request failed or `playlist.Unmarshal` returned an error
  | invalidPlaylist      -- "invalid playlist" (multivariant where a media playlist is expected)
  | http                 -- segment / init / part request failed
  | zeroTimeScale        -- "track %d has an invalid time scale"
  | renditionMultiTrack  -- "rendition playlists with multiple tracks are not supported"
  | noSupportedTracks    -- "no supported tracks found"
  | tooManyTracks        -- "too many tracks per stream"
  | noLeadingData        -- "could not find data of leading track"
  | mixedContainers      -- "stream playlists are mixed MPEG-TS/fMP4"
  | sampleDecode         -- payload decoder of an fMP4 sample failed
  | unsupportedCodec     -- (only if `initialize` gets an erroring `default:`)
  | dtsRtcTooBig         -- "difference between DTS and RTC is too big"
  | notEnoughSegments    -- "there aren't enough segments to fill the buffer"
  | noSegments           -- "no segments found"
  | nextSegmentNotFound  -- "next segment not found or not ready yet"
  | playbackTooLate      -- "playback is too late"
  | hintDisappeared      -- "preload hint disappeared"
  | noVariants           -- "no variants with supported codecs found"
  | noGroup              -- "no playlist with Group ID … found"
  | terminated           -- blocked until the context is cancelled
  deriving DecidableEq, Repr

inductive Res (α : Type) where
  | ok (a : α)
  | error (e : ErrClass)
  | panic (k : PanicKind)
  | wedge
  deriving Repr

namespace Res
def bind {α β} : Res α → (α → Res β) → Res β
  | ok a, f => f a
  | error e, _ => error e
  | panic k, _ => panic k
  | wedge, _ => wedge

instance : Monad Res where
  pure := Res.ok
  bind := Res.bind

/-- neither a panic nor a wedge -/
def safe {α} : Res α → Prop
  | panic _ => False
  | wedge => False
  | _ => True

instance {α} : (r : Res α) → Decidable r.safe
  | .ok _ => isTrue trivial
  | .error _ => isTrue trivial
  | .panic _ => isFalse (fun h => h)
  | .wedge => isFalse (fun h => h)
end Res

/-- one observable thing the client does with a piece of content -/
inductive Event where
  | delivered (track : Nat) (pid : Nat) (pts dts : Int)   -- `onData`
  | dropped (track : Nat) (pid : Nat)                     -- discarded silently (negative PTS / before the leading track)
  | decodeError                                           -- `OnDecodeError`
  | skippedPartTrack (id : Int)                           -- part-track whose id has no processor
  | skippedSegment                                        -- segment / part without any sample (repair of F15)
  deriving DecidableEq, Repr

/-- Outcome of a client run (the type named in DESIGN §6 C13; `wedge` added for blocked-forever schedules). -/
inductive Outcome where
  | deliver (tracks : List (Option String × Int)) (evs : List Event)   -- ended with ErrClientEOS after using every piece
  | skip (tracks : List (Option String × Int)) (evs : List Event)      -- same, but at least one piece was skipped
  | error (cls : ErrClass) (tracksExposed : Option (List (Option String × Int)))
  | panic (kind : PanicKind)
  | wedge
  deriving Repr, DecidableEq

/-! ## the guards of the source as parameters -/

structure Flags where
  -- clientStreamProcessorFMP4.run
  zeroTimeScale : Bool
  renditionOneTrack : Bool
  renditionBeforeFilter : Bool
  filtersUnsupported : Bool
  maxTracksFMP4 : Bool
  -- clientTrackProcessorFMP4
  initializeDefaultErrors : Bool
  processChecksNilDecoder : Bool
  -- clientStreamProcessorFMP4.processSegment / initializeTrackProcessors
  noLeadingDataFMP4 : Bool
  skipsEmptySegments : Bool        -- repair of F15 …
  skipsEmptyLeadingToo : Bool      -- … also on the leading stream (false: renditions only)
  skipNeedsFragment : Bool         -- … and only a body with at least one fragment (`len(parts) != 0 &&`)
  leadingEndNeedsOrigin : Bool     -- a leading fMP4 stream that ends without track processors returns an error
  skipsUnknownPartTracks : Bool
  chanPerSegment : Bool
  checksConvKindFMP4 : Bool
  -- clientStreamProcessorMPEGTS
  noSupportedTS : Bool
  maxTracksTS : Bool
  procNilTS : Bool
  noLeadingDataTS : Bool
  checksConvKindTS : Bool
  -- clientTrack.handleData
  dropsNegativePTS : Bool
  capsDTSRTC : Bool
  -- download loops
  invPosNegative : Bool
  idOutOfRange : Bool
  vodNoSegments : Bool
  segNil : Bool
  tooLate : Bool
  hintDisappeared : Bool
  llEndsOnEndlist : Bool      -- fix-F28: LL loop, playlist without hint but with ENDLIST ⇒ nil marker instead of an error
  hintNoSegments : Bool
  streamPlaylistIsMedia : Bool
  noVariant : Bool
  noGroup : Bool
  noTracks : Bool
  llEntryChecksNil : Bool
  mapTestChecksNil : Bool
  deriving Repr, DecidableEq

def dlGuard (name : String) : Bool := (downloaderGuards.lookup name).getD false

/-- the flags as regenerated from /repo -/
def genFlags : Flags where
  zeroTimeScale := fmp4GuardZeroTimeScale
  renditionOneTrack := fmp4GuardRenditionOneTrack
  renditionBeforeFilter := fmp4RenditionRuleBeforeFilter
  filtersUnsupported := fmp4FiltersUnsupported
  maxTracksFMP4 := fmp4GuardMaxTracks
  initializeDefaultErrors := fmp4InitializeDefaultErrors
  processChecksNilDecoder := fmp4ProcessChecksNilDecoder
  noLeadingDataFMP4 := fmp4GuardNoLeadingData
  skipsEmptySegments := fmp4SkipsEmptySegments
  skipsEmptyLeadingToo := fmp4SkipsEmptyLeadingToo
  skipNeedsFragment := fmp4SkipNeedsFragment
  leadingEndNeedsOrigin := fmp4LeadingEndNeedsOrigin
  skipsUnknownPartTracks := fmp4SkipsUnknownPartTracks
  chanPerSegment := fmp4CompletionChanPerSegment
  checksConvKindFMP4 := fmp4ChecksConvKind
  noSupportedTS := mpegtsGuardNoSupported
  maxTracksTS := mpegtsGuardMaxTracks
  procNilTS := mpegtsGuardProcNil
  noLeadingDataTS := mpegtsGuardNoLeadingData
  checksConvKindTS := mpegtsChecksConvKind
  dropsNegativePTS := handleDataDropsNegativePTS
  capsDTSRTC := handleDataCapsDTSRTCDiff
  invPosNegative := dlGuard "invPosNegative"
  idOutOfRange := dlGuard "idOutOfRange"
  vodNoSegments := dlGuard "vodNoSegments"
  segNil := dlGuard "segNil"
  tooLate := dlGuard "tooLate"
  hintDisappeared := dlGuard "hintDisappeared"
  llEndsOnEndlist := lowLatencyEndsOnEndlist
  hintNoSegments := dlGuard "hintNoSegments"
  streamPlaylistIsMedia := dlGuard "streamPlaylistIsMedia"
  noVariant := dlGuard "noVariant"
  noGroup := dlGuard "noGroup"
  noTracks := dlGuard "noTracks"
  llEntryChecksNil := llEntryChecksNil
  mapTestChecksNil := mapTestChecksNil

/-- The guards the safety theorems need. (`initializeDefaultErrors`, `processChecksNilDecoder`, `renditionBeforeFilter`,
    `dropsNegativePTS`, `capsDTSRTC`, `tooLate`, `llEndsOnEndlist`… are free: the theorems hold for either value.) -/
structure Flags.Guarded (F : Flags) : Prop where
  zeroTimeScale : F.zeroTimeScale = true
  filtersUnsupported : F.filtersUnsupported = true
  noLeadingDataFMP4 : F.noLeadingDataFMP4 = true
  leadingEndNeedsOrigin : F.leadingEndNeedsOrigin = true
  noLeadingDataTS : F.noLeadingDataTS = true
  skipsUnknownPartTracks : F.skipsUnknownPartTracks = true
  chanPerSegment : F.chanPerSegment = true
  checksConvKindFMP4 : F.checksConvKindFMP4 = true
  procNilTS : F.procNilTS = true
  checksConvKindTS : F.checksConvKindTS = true
  invPosNegative : F.invPosNegative = true
  idOutOfRange : F.idOutOfRange = true
  vodNoSegments : F.vodNoSegments = true
  segNil : F.segNil = true
  hintDisappeared : F.hintDisappeared = true
  hintNoSegments : F.hintNoSegments = true
  streamPlaylistIsMedia : F.streamPlaylistIsMedia = true
  noVariant : F.noVariant = true
  llEntryChecksNil : F.llEntryChecksNil = true
  mapTestChecksNil : F.mapTestChecksNil = true

/-! ## Go arithmetic with explicit division panics -/

/-- `multiplyAndDivide(v, m, d)` -/
def mulDiv (v m d : Int) : Res Int :=
  if d = 0 then .panic .divZero else .ok (Hls.Gen.multiplyAndDivide v m d)

/-- `timestampToDuration(d, clockRate)` -/
def toDuration (d rate : Int) : Res Int :=
  if rate = 0 then .panic .divZero else .ok (Hls.Gen.timestampToDuration d rate)

/-! ## codecs (regenerated tables) -/

/-- `codecs.FromFMP4(c)`: `none` = nil -/
def fromFMP4 (kind : String) : Option String := fromFMP4Cases.lookup kind
/-- `codecs.FromMPEGTS(c)` -/
def fromMPEGTS (kind : String) : Option String := fromMPEGTSCases.lookup kind
/-- `c.IsVideo()` of an fMP4 codec (unknown names: false) -/
def fmp4IsVideo (kind : String) : Bool := (fmp4CodecTypes.lookup kind).getD false

/-- `Track` as handed to `OnTracks` -/
structure Track where
  codec : Option String        -- `none`: a nil `Codec` would be exposed
  clockRate : Int
  deriving DecidableEq, Repr

/-! ## time converters (`Client.leadingTimeConv`) -/

structure FConv where
  ts : Int                     -- leadingTimeScale
  base : Int                   -- leadingBaseTime
  ntp : Option (Int × Int × Int) := none     -- ntpValue, ntpTimestamp, ntpClockRate
  deriving Repr

def FConv.convert (c : FConv) (v rate : Int) : Res Int := do
  let x ← mulDiv c.base rate c.ts
  pure (v - x)

def FConv.getNTP (c : FConv) (t rate : Int) : Res (Option Int) :=
  match c.ntp with
  | none => .ok none
  | some (val, nts, nrate) => do
    let x ← mulDiv nts rate nrate
    let d ← toDuration (t - x) rate
    pure (some (val + d))

structure TConv where
  td : Hls.Client.TimeConv.TimeDecoder
  ntp : Option (Int × Int) := none
  deriving Repr

inductive Conv where
  | fmp4 (c : FConv)
  | ts (c : TConv)
  deriving Repr

/-- state shared by the streams of one client -/
structure ClientSt where
  conv : Option Conv := none
  deriving Repr

/-! ## `clientTrack.handleData` -/

def handleData (F : Flags) (elapsed : Int) (track : Nat) (rate pts dts : Int) (pid : Nat) : Res (List Event) :=
  if (F.dropsNegativePTS && decide (pts < 0)) = true then .ok [.dropped track pid]
  else do
    let dur ← toDuration dts rate
    if (F.capsDTSRTC && decide (dur > elapsed) && decide (dur - elapsed > clientMaxDTSRTCDiff)) = true then .error .dtsRtcTooBig
    else pure [.delivered track pid pts dts]

/-! ## fMP4 -/

structure InitTrack where
  id : Int
  timeScale : Int
  kind : String               -- mediacommon type name without `Codec`
  deriving DecidableEq, Repr

structure Sample where
  dur : Int
  off : Int
  bad : List String := []     -- mediacommon payload decoders (`GetAV1`, `GetH264`, `GetH265`) that reject the bytes
  pid : Nat
  deriving DecidableEq, Repr

structure PartTrack where
  id : Int
  baseTime : Int
  samples : List Sample
  deriving DecidableEq, Repr

abbrev Parts := List (List PartTrack)

/-- `clientTrackProcessorFMP4` -/
structure Proc where
  track : Nat                 -- index in the OnTracks list
  clockRate : Int
  hasDecoder : Bool           -- `decodePayload != nil`
  decoder : String := ""      -- which mediacommon function it calls (`fmp4DecoderOf`)
  deriving DecidableEq, Repr

structure FStream where
  isLeading : Bool
  firstIdx : Nat
  init : List InitTrack       -- `p.init.Tracks` after the prefix of `run`
  leadingTrackID : Int
  tracks : List Track         -- handed to `setTracks`; `p.clientStreamTracks` has the same length
  procs : Option (List (Int × Proc)) := none   -- `p.trackProcessors` (`none` = nil map)
  deriving Repr

/-- `fmp4PickLeadingTrack` -/
def pickLeading (init : List InitTrack) : Res Int :=
  match init.find? (fun t => fmp4IsVideo t.kind) with
  | some t => .ok t.id
  | none =>
    match init with
    | t :: _ => .ok t.id
    | [] => .panic .index

/-- the tracks built by the `for i, track := range p.init.Tracks` loop of `run` -/
def buildTracks (init : List InitTrack) : List Track :=
  init.map fun t => { codec := fromFMP4 t.kind, clockRate := t.timeScale }

/-- prefix of `clientStreamProcessorFMP4.run` up to `setTracks`. `rendition = false`: `p.rendition == nil`. -/
def fmp4Start (F : Flags) (isLeading : Bool) (rendition : Bool) (firstIdx : Nat) (initDec : Option (List InitTrack)) : Res FStream :=
  match initDec with
  | none => .error .decode
  | some init0 =>
    if (F.zeroTimeScale && init0.any (fun t => t.timeScale == 0)) = true then .error .zeroTimeScale
    else if (F.renditionOneTrack && F.renditionBeforeFilter && !isLeading && init0.length != 1) = true then .error .renditionMultiTrack
    else
      let init1 := if F.filtersUnsupported then init0.filter (fun t => (fromFMP4 t.kind).isSome) else init0
      if (F.filtersUnsupported && init1.isEmpty) = true then .error .noSupportedTracks
      else if (F.renditionOneTrack && !F.renditionBeforeFilter && !isLeading && init1.length != 1) = true then .error .renditionMultiTrack
      else do
        let lid ← pickLeading init1
        -- `p.rendition.Name` … evaluated once per track when `!p.isLeading`
        if (!isLeading && !rendition && !init1.isEmpty) = true then .panic .nilDeref
        else
          let tracks := buildTracks init1
          if (F.maxTracksFMP4 && decide ((tracks.length : Int) > clientMaxTracksPerStream)) = true then .error .tooManyTracks
          else pure { isLeading := isLeading, firstIdx := firstIdx, init := init1, leadingTrackID := lid, tracks := tracks }

/-- `findFirstPartTrackOfLeadingTrack` -/
def findFirstPT (parts : Parts) (id : Int) : Option PartTrack :=
  parts.flatten.find? (fun pt => pt.id == id)

/-- `partsAreEmpty`: no part-track of the segment has a sample -/
def partsEmpty (parts : Parts) : Bool := parts.flatten.all fun pt => pt.samples.isEmpty

/-- `findTimeScaleOfLeadingTrack` -/
def findTimeScale (init : List InitTrack) (id : Int) : Int :=
  match init.find? (fun t => t.id == id) with
  | some t => t.timeScale
  | none => 0

/-- `clientTrackProcessorFMP4.initialize`: does the processor get a `decodePayload`? -/
def procInitialize (F : Flags) (codec : Option String) : Res Bool :=
  match codec with
  | some c =>
    if fmp4DecodePayloadCases.contains c then .ok true
    else if F.initializeDefaultErrors then .error .unsupportedCodec else .ok false
  | none => if F.initializeDefaultErrors then .error .unsupportedCodec else .ok false

/-- the mediacommon function the `decodePayload` of a codec kind calls -/
def decoderOf (codec : Option String) : String :=
  match codec with
  | some c => (fmp4DecoderOf.lookup c).getD ""
  | none => ""

/-- the loop `for i, track := range p.clientStreamTracks { … p.trackProcessors[p.init.Tracks[i].ID] = trackProc }`.
    `its` is `p.init.Tracks[i:]`: indexing `p.init.Tracks[i]` with `i` running in lockstep with the range loop is taking
    the head of that suffix, and it panics exactly when the suffix is empty. A later equal id overrides an earlier
    one, so new entries are put in front and read with `List.lookup`. -/
def buildProcs (F : Flags) : Nat → List InitTrack → List Track → List (Int × Proc) → Res (List (Int × Proc))
  | _, _, [], acc => .ok acc
  | gidx, its, t :: rest, acc => do
    let dec ← procInitialize F t.codec
    match its with
    | [] => .panic .index
    | it :: its' =>
      buildProcs F (gidx + 1) its' rest ((it.id, { track := gidx, clockRate := t.clockRate, hasDecoder := dec, decoder := decoderOf t.codec }) :: acc)

/-- `initializeTrackProcessors` -/
def fmp4InitProcs (F : Flags) (s : FStream) (c : ClientSt) (lpt : PartTrack) : Res (ClientSt × List (Int × Proc)) := do
  let c1 ←
    (if s.isLeading then
      (pure { c with conv := some (.fmp4 { ts := findTimeScale s.init s.leadingTrackID, base := lpt.baseTime }) } : Res ClientSt)
    else
      match c.conv with
      | none => .error .terminated            -- `waitLeadingTimeConv` blocks until the context is cancelled
      | some (.fmp4 _) => pure c
      | some (.ts _) => if F.checksConvKindFMP4 then .error .mixedContainers else pure c)
  let procs ← buildProcs F s.firstIdx s.init s.tracks []
  pure (c1, procs)

/-- `leadingTimeConvFMP4(p.client)`: single-value type assertion -/
def assertFMP4 (c : ClientSt) : Res FConv :=
  match c.conv with
  | some (.fmp4 f) => .ok f
  | _ => .panic .typeAssert

/-- the sample loop of `clientTrackProcessorFMP4.process`; `dts` is the running value -/
def fmp4Process (F : Flags) (elapsed : Int) (pr : Proc) (entryDts : Int) (entryNtp : Option Int) : Int → List Sample → Res (List Event)
  | _, [] => .ok []
  | dts, s :: rest =>
    if (!pr.hasDecoder && F.processChecksNilDecoder) = true then .error .unsupportedCodec
    else if (!pr.hasDecoder) = true then .panic .nilFunc
    else if (s.bad.contains pr.decoder) = true then .error .sampleDecode
    else do
      let pts := dts + s.off
      let _ntp ← (match entryNtp with
        | none => (pure none : Res (Option Int))
        | some n => do
          let d ← toDuration (dts - entryDts) pr.clockRate
          pure (some (n + d)))
      let ev ← handleData F elapsed pr.track pr.clockRate pts dts s.pid
      let evs ← fmp4Process F elapsed pr entryDts entryNtp (dts + s.dur) rest
      pure (ev ++ evs)

/-- number of part-tracks that have a processor (`partTrackCount`) -/
def countKnown (procs : List (Int × Proc)) (pts : List PartTrack) : Nat :=
  (pts.filter fun pt => (procs.lookup pt.id).isSome).length

/-- the push loop of `processSegment` over the part-tracks in container order -/
def fmp4PushLoop (F : Flags) (elapsed : Int) (procs : List (Int × Proc)) (c : ClientSt) : List PartTrack → Res (List Event)
  | [] => .ok []
  | pt :: rest =>
    match procs.lookup pt.id with
    | none =>
      if F.skipsUnknownPartTracks then do
        let evs ← fmp4PushLoop F elapsed procs c rest
        pure (.skippedPartTrack pt.id :: evs)
      else .panic .nilDeref                 -- `trackProc.track` on the nil pointer of the map miss
    | some pr => do
      let f ← assertFMP4 c
      let dts ← f.convert pt.baseTime pr.clockRate
      let f ← assertFMP4 c
      let ntp ← f.getNTP dts pr.clockRate
      let ev ← fmp4Process F elapsed pr dts ntp dts pt.samples
      let evs ← fmp4PushLoop F elapsed procs c rest
      pure (ev ++ evs)

/-- `clientStreamProcessorFMP4.processSegment` for a non-nil segment -/
def fmp4ProcessSegment (F : Flags) (elapsed : Int) (s : FStream) (c : ClientSt) (dateTime : Option Int) (payload : Option Parts) :
    Res (FStream × ClientSt × List Event) :=
  match payload with
  | none => .error .decode
  | some parts =>
    match findFirstPT parts s.leadingTrackID with
    | none =>
      -- `if [!p.isLeading &&] partsAreEmpty(parts) { return nil }`: nothing is touched, not even the lazily created processors
      if (F.skipsEmptySegments && (F.skipsEmptyLeadingToo || !s.isLeading) && (!F.skipNeedsFragment || !parts.isEmpty) &&
          partsEmpty parts) = true then
        .ok (s, c, [.skippedSegment])
      else if F.noLeadingDataFMP4 then .error .noLeadingData else .panic .nilDeref
    | some lpt => do
      let (c1, procs) ← (match s.procs with
        | some procs => (pure (c, procs) : Res (ClientSt × List (Int × Proc)))
        | none => fmp4InitProcs F s c lpt)
      let c2 ←
        (if s.isLeading then
          (match dateTime with
          | none => do
            let _ ← assertFMP4 c1              -- `setLeadingNTPReceived`
            (pure c1 : Res ClientSt)
          | some t =>
            match procs.lookup lpt.id with
            | none => .panic .nilDeref         -- `leadingPartTrackProc.track` on a nil pointer
            | some lp => do
              let f ← assertFMP4 c1
              let dts ← f.convert lpt.baseTime lp.clockRate
              let f ← assertFMP4 c1
              pure { c1 with conv := some (.fmp4 { f with ntp := some (t, dts, lp.clockRate) }) })
        else pure c1)
      let n := countKnown procs parts.flatten
      let cap : Nat := if F.chanPerSegment then n else clientMaxTracksPerStream.toNat
      let evs ← fmp4PushLoop F elapsed procs c2 parts.flatten
      if n > cap then .wedge
      else pure ({ s with procs := some procs }, c2, evs)

/-- the segment loop of one fMP4 stream processor over decoded segments `(dateTime, parts)` -/
def fmp4Segments (F : Flags) (elapsed : Int) : FStream → ClientSt → List (Option Int × Option Parts) → Res (FStream × ClientSt × List Event)
  | s, c, [] => .ok (s, c, [])
  | s, c, (dt, payload) :: rest => do
    let (s, c, ev) ← fmp4ProcessSegment F elapsed s c dt payload
    let (s, c, evs) ← fmp4Segments F elapsed s c rest
    pure (s, c, ev ++ evs)

/-- `run` of one fMP4 stream processor: init, then its segments -/
def fmp4Path (F : Flags) (elapsed : Int) (isLeading : Bool) (firstIdx : Nat) (init : Option (List InitTrack)) (c : ClientSt)
    (segs : List (Option Int × Option Parts)) : Res (FStream × ClientSt × List Event) := do
  let s ← fmp4Start F isLeading (!isLeading) firstIdx init
  fmp4Segments F elapsed s c segs

/-! ## MPEG-TS -/

inductive TSItem where
  | sample (track : Nat) (pts dts : Int) (pid : Nat)   -- `track`: index in `reader.Tracks()`
  | decodeError
  deriving DecidableEq, Repr

structure TSPayload where
  kinds : List String          -- `reader.Tracks()` if this payload initialises the reader
  items : List TSItem
  deriving Repr

structure TStream where
  isLeading : Bool
  firstIdx : Nat
  supported : List (Nat × String)    -- (index in reader.Tracks(), kind) kept by the first type switch
  leadingIdx : Nat                   -- `mpegtsPickLeadingTrack(supportedTracks)`
  tracks : List Track
  registered : List Bool             -- call-back registered for the i-th supported track
  deriving Repr

structure TSState where
  procsReady : Bool := false         -- `p.trackProcessors != nil`
  leadingTrackFound : Bool := false
  dateTimeProcessed : Bool := false
  deriving Repr

def enumFrom {α} : Nat → List α → List (Nat × α)
  | _, [] => []
  | i, a :: rest => (i, a) :: enumFrom (i + 1) rest

/-- `mpegtsPickLeadingTrack` -/
def tsPickLeading : Nat → List (Nat × String) → Nat
  | _, [] => 0
  | i, (_, k) :: rest => if k == mpegtsLeadingKind then i else tsPickLeading (i + 1) rest

/-- `initializeReader` after `reader.Initialize()` up to the registration of the call-backs -/
def tsStart (F : Flags) (isLeading : Bool) (firstIdx : Nat) (kinds : List String) : Res TStream :=
  let supported := (enumFrom 0 kinds).filter fun p => mpegtsSupportedKinds.contains p.2
  if (F.noSupportedTS && supported.isEmpty) = true then .error .noSupportedTracks
  else
    let leadingIdx := tsPickLeading 0 supported
    let tracks : List Track := supported.map fun p => { codec := fromMPEGTS p.2, clockRate := 90000 }
    if (F.maxTracksTS && decide ((tracks.length : Int) > clientMaxTracksPerStream)) = true then .error .tooManyTracks
    else
      -- `track := p.clientStreamTracks[i]` (same length as `supportedTracks`), second type switch
      let registered := tracks.map fun t =>
        match t.codec with
        | some c => (mpegtsOnDataCases.lookup c).isSome
        | none => false
      .ok { isLeading := isLeading, firstIdx := firstIdx, supported := supported, leadingIdx := leadingIdx,
            tracks := tracks, registered := registered }

/-- position among the supported tracks of a reader track -/
def supportedPos (supported : List (Nat × String)) (readerIdx : Nat) : Option Nat :=
  (enumFrom 0 supported).findSome? fun p => if p.2.1 == readerIdx then some p.1 else none

/-- `leadingTimeConvMPEGTS(p.client)` -/
def assertTS (c : ClientSt) : Res TConv :=
  match c.conv with
  | some (.ts t) => .ok t
  | _ => .panic .typeAssert

/-- the `processSample` closure -/
def tsProcessSample (F : Flags) (elapsed : Int) (s : TStream) (dateTime : Option Int) (st : TSState) (c : ClientSt)
    (i : Nat) (rawPTS rawDTS : Int) (pid : Nat) : Res (TSState × ClientSt × List Event) := do
  let isLeadingTrack := i == s.leadingIdx
  let (st, c) ←
    (if isLeadingTrack then
      if st.procsReady then (pure ({ st with leadingTrackFound := true }, c) : Res (TSState × ClientSt))
      else if s.isLeading then
        pure ({ st with leadingTrackFound := true, procsReady := true },
              { c with conv := some (.ts { td := (({} : Hls.Client.TimeConv.TimeDecoder).decode rawDTS).2 }) })
      else
        match c.conv with
        | none => .error .terminated
        | some (.ts _) => pure ({ st with leadingTrackFound := true, procsReady := true }, c)
        | some (.fmp4 _) =>
          if F.checksConvKindTS then .error .mixedContainers
          else pure ({ st with leadingTrackFound := true, procsReady := true }, c)
    else pure (st, c))
  if (!st.procsReady && F.procNilTS) = true then pure (st, c, [.dropped (s.firstIdx + i) pid])
  else do
    let t ← assertTS c
    let (pts, td) := t.td.decode rawPTS
    let (dts, td) := td.decode rawDTS
    let t := { t with td := td }
    let (t, dtp) :=
      if (!st.dateTimeProcessed && s.isLeading && isLeadingTrack) = true then
        ((match dateTime with | some v => { t with ntp := some (v, dts) } | none => t), true)
      else (t, st.dateTimeProcessed)
    let _ntp ← (match t.ntp with
      | none => (pure none : Res (Option Int))
      | some (v, nts) => do
        let d ← toDuration (dts - nts) 90000
        pure (some (v + d)))
    if (!st.procsReady) = true then .panic .nilDeref     -- `trackProc.push` on the nil pointer of the map miss
    else do
      let ev ← handleData F elapsed (s.firstIdx + i) 90000 pts dts pid
      pure ({ st with dateTimeProcessed := dtp }, { c with conv := some (.ts t) }, ev)

/-- the `for { p.reader.Read() }` loop over the call-backs / decode errors of one payload -/
def tsItems (F : Flags) (elapsed : Int) (s : TStream) (dateTime : Option Int) :
    TSState → ClientSt → List TSItem → Res (TSState × ClientSt × List Event)
  | st, c, [] => .ok (st, c, [])
  | st, c, .decodeError :: rest => do
    let (st, c, evs) ← tsItems F elapsed s dateTime st c rest
    pure (st, c, .decodeError :: evs)
  | st, c, .sample track pts dts pid :: rest =>
    match supportedPos s.supported track with
    | none => tsItems F elapsed s dateTime st c rest                     -- no call-back for this PID
    | some i =>
      if (s.registered.getD i false) = true then do
        let (st, c, ev) ← tsProcessSample F elapsed s dateTime st c i pts dts pid
        let (st, c, evs) ← tsItems F elapsed s dateTime st c rest
        pure (st, c, ev ++ evs)
      else tsItems F elapsed s dateTime st c rest

/-- is this item a call-back of the stream's leading track (the only thing that sets `leadingTrackFound`)? -/
def isLeadingSample (s : TStream) : TSItem → Bool
  | .sample track _ _ _ =>
    match supportedPos s.supported track with
    | some i => s.registered.getD i false && i == s.leadingIdx
    | none => false
  | .decodeError => false

/-- `clientStreamProcessorMPEGTS.processSegment` for a non-nil segment, reader already initialised -/
def tsProcessSegment (F : Flags) (elapsed : Int) (s : TStream) (st : TSState) (c : ClientSt) (dateTime : Option Int)
    (items : List TSItem) : Res (TSState × ClientSt × List Event) := do
  let (st, c, evs) ← tsItems F elapsed s dateTime { st with leadingTrackFound := false, dateTimeProcessed := false } c items
  if (F.noLeadingDataTS && !st.leadingTrackFound) = true then .error .noLeadingData
  else pure (st, c, evs)

/-- the segment loop of one MPEG-TS stream processor over decoded segments `(dateTime, items)` -/
def tsSegments (F : Flags) (elapsed : Int) (s : TStream) : TSState → ClientSt → List (Option Int × List TSItem) → Res (TSState × ClientSt × List Event)
  | st, c, [] => .ok (st, c, [])
  | st, c, (dt, items) :: rest => do
    let (st, c, ev) ← tsProcessSegment F elapsed s st c dt items
    let (st, c, evs) ← tsSegments F elapsed s st c rest
    pure (st, c, ev ++ evs)

/-- `run` of one MPEG-TS stream processor: reader initialisation on the first segment, then every segment -/
def tsPath (F : Flags) (elapsed : Int) (isLeading : Bool) (firstIdx : Nat) (kinds : List String) (c : ClientSt)
    (segs : List (Option Int × List TSItem)) : Res (TSState × ClientSt × List Event) := do
  let s ← tsStart F isLeading firstIdx kinds
  tsSegments F elapsed s {} c segs

/-! ## playlists as the downloaders see them; download loops -/

structure SegRef where
  file : Option Nat            -- index in the stream's payload table; `none`: the request fails
  dateTime : Option Int := none
  deriving DecidableEq, Repr

structure MediaView where
  map : Option Bool := none                     -- `Map != nil`: `some (Map.URI != "")`
  vod : Bool := false
  msn : Int := 0
  segs : List SegRef := []
  endlist : Bool := false
  serverControl : Option (Bool × Bool) := none  -- (CanBlockReload, CanSkipUntil != nil)
  hint : Option SegRef := none                  -- PreloadHint
  deriving Repr

/-- answer to a (re)load of a stream playlist -/
inductive PlResp where
  | bad                        -- request failed / `playlist.Unmarshal` error
  | notMedia                   -- a multivariant playlist
  | media (v : MediaView)
  deriving Repr

/-- something the downloader hands to its processor -/
structure Push where
  file : Nat
  dateTime : Option Int
  deriving DecidableEq, Repr

inductive DLEnd where
  | ended                      -- sentinel pushed, parked on the context
  | starved                    -- the server has not answered yet: blocked in an HTTP request
  | error (e : ErrClass)
  | panic (k : PanicKind)
  deriving Repr

structure DLTrace where
  pushes : List Push := []
  segReqs : Nat := 0           -- segment / part requests issued
  plReqs : Nat := 0            -- playlist reloads issued
  iters : Nat := 0             -- loop iterations started
  fin : DLEnd
  deriving Repr

def DLTrace.step (push : Option Push) (seg pl : Nat) (t : DLTrace) : DLTrace :=
  { t with pushes := (match push with | some p => p :: t.pushes | none => t.pushes),
           segReqs := t.segReqs + seg, plReqs := t.plReqs + pl, iters := t.iters + 1 }

/-- `findSegmentWithInvPosition` -/
def findInvPos (F : Flags) (segs : List SegRef) (invPos : Int) : Res (Option (SegRef × Int)) :=
  let index : Int := segs.length - invPos
  if (F.invPosNegative && decide (index < 0)) = true then .ok none
  else if index < 0 then .panic .index
  else match segs[index.toNat]? with
    | some s => .ok (some (s, index))
    | none => .panic .index

/-- `findSegmentWithID` -/
def findWithID (F : Flags) (msn : Int) (segs : List SegRef) (id : Int) : Res (Option (SegRef × Int × Int)) :=
  let index : Int := id - msn
  if (F.idOutOfRange && (decide (index < 0) || decide (index ≥ segs.length))) = true then .ok none
  else if index < 0 then .panic .index
  else match segs[index.toNat]? with
    | some s => .ok (some (s, index, segs.length - index))
    | none => .panic .index

/-- `fillSegmentQueue` up to the segment request: (new curSegmentID, segment, it is the last one of an ENDLIST playlist) -/
def fillSelect (F : Flags) (firstVOD : Bool) (cur : Option Int) (pl : MediaView) : Res (Int × SegRef × Bool) := do
  let (seg, segPos) ←
    (match cur with
    | none =>
      if firstVOD then
        if (F.vodNoSegments && pl.segs.isEmpty) = true then .error .noSegments
        else match pl.segs with
          | s :: _ => (pure (s, 0) : Res (SegRef × Int))
          | [] => .panic .index
      else do
        match ← findInvPos F pl.segs clientLiveInitialDistance with
        | some (s, pos) => pure (s, pos)
        | none => if F.segNil then .error .notEnoughSegments else .panic .nilDeref
    | some c => do
      match ← findWithID F pl.msn pl.segs (c + 1) with
      | none => if F.segNil then .error .nextSegmentNotFound else .panic .nilDeref
      | some (s, pos, invPos) =>
        if (F.tooLate && !pl.endlist && decide (invPos > clientLiveMaxDistanceFromEnd)) = true then .error .playbackTooLate
        else pure (s, pos))
  -- `pl.Segments[len(pl.Segments)-1] == seg` (pointer equality: the selected position is the last one)
  let last ←
    (if pl.endlist then
      match pl.segs with
      | [] => .panic .index
      | _ :: _ => (pure (decide (segPos = (pl.segs.length : Int) - 1)) : Res Bool)
    else pure false)
  pure (pl.msn + segPos, seg, last)

/-- stream `downloadPlaylist`: the response as a media playlist -/
def asMedia (F : Flags) : PlResp → Res MediaView
  | .bad => .error .playlist
  | .notMedia => if F.streamPlaylistIsMedia then .error .invalidPlaylist else .panic .typeAssert
  | .media v => .ok v

/-- `runTraditional`: one iteration per server answer; structural recursion over the answers still to come -/
def runTraditional (F : Flags) (firstVOD : Bool) : Option Int → MediaView → List PlResp → DLTrace
  | cur, pl, reloads =>
    match fillSelect F firstVOD cur pl with
    | .error e => { iters := 1, fin := .error e }
    | .panic k => { iters := 1, fin := .panic k }
    | .wedge => { iters := 1, fin := .panic .nilDeref }
    | .ok (id, seg, last) =>
      match seg.file with
      | none => { iters := 1, segReqs := 1, fin := .error .http }
      | some f =>
        let push : Push := { file := f, dateTime := seg.dateTime }
        if last then { pushes := [push], iters := 1, segReqs := 1, fin := .ended }
        else
          match reloads with
          | [] => { pushes := [push], iters := 1, segReqs := 1, plReqs := 1, fin := .starved }
          | r :: rest =>
            match asMedia F r with
            | .ok pl' => (runTraditional F firstVOD (some id) pl' rest).step (some push) 1 1
            | .error e => { pushes := [push], iters := 1, segReqs := 1, plReqs := 1, fin := .error e }
            | .panic k => { pushes := [push], iters := 1, segReqs := 1, plReqs := 1, fin := .panic k }
            | .wedge => { pushes := [push], iters := 1, segReqs := 1, plReqs := 1, fin := .panic .nilDeref }

/-- `dateTimeOfPreloadHint` (the value is not needed, only its index operation) -/
def hintDateTime (F : Flags) (pl : MediaView) : Res (Option Int) :=
  if (F.hintNoSegments && pl.segs.isEmpty) = true then .ok none
  else match pl.segs.getLast? with
    | none => .panic .index
    | some s => .ok s.dateTime

/-- `runLowLatency` -/
def runLowLatency (F : Flags) : MediaView → List PlResp → DLTrace
  | pl, reloads =>
    match pl.hint with
    | none => { iters := 1, fin := .panic .nilDeref }        -- `preloadHint.URI`
    | some h =>
      match h.file with
      | none => { iters := 1, segReqs := 1, fin := .error .http }
      | some f =>
        match hintDateTime F pl with
        | .panic k => { iters := 1, segReqs := 1, fin := .panic k }
        | .error e => { iters := 1, segReqs := 1, fin := .error e }
        | .wedge => { iters := 1, segReqs := 1, fin := .panic .nilDeref }
        | .ok dt =>
          let push : Push := { file := f, dateTime := dt }
          match reloads with
          | [] => { pushes := [push], iters := 1, segReqs := 1, plReqs := 1, fin := .starved }
          | r :: rest =>
            match asMedia F r with
            | .ok pl' =>
              if (F.hintDisappeared && pl'.hint.isNone) = true then
                -- `if pl.PreloadHint == nil { if pl.Endlist { push(nil); <-ctx.Done() … }; return "preload hint disappeared" }`
                if (F.llEndsOnEndlist && pl'.endlist) = true then
                  { pushes := [push], iters := 1, segReqs := 1, plReqs := 1, fin := .ended }
                else
                  { pushes := [push], iters := 1, segReqs := 1, plReqs := 1, fin := .error .hintDisappeared }
              else (runLowLatency F pl' rest).step (some push) 1 1
            | .error e => { pushes := [push], iters := 1, segReqs := 1, plReqs := 1, fin := .error e }
            | .panic k => { pushes := [push], iters := 1, segReqs := 1, plReqs := 1, fin := .panic k }
            | .wedge => { pushes := [push], iters := 1, segReqs := 1, plReqs := 1, fin := .panic .nilDeref }

inductive Container where
  | fmp4 | ts
  deriving DecidableEq, Repr

/-- `clientStreamDownloader.run` after the first playlist: processor kind, and the download loop.
    `initOK = false`: the init request fails. -/
def dlRun (F : Flags) (first : MediaView) (initOK : Bool) (reloads : List PlResp) : Res (Container × DLTrace) := do
  -- `d.firstPlaylist.Map != nil && d.firstPlaylist.Map.URI != ""`
  let isFMP4 ←
    (match first.map with
    | none => if F.mapTestChecksNil then (pure false : Res Bool) else .panic .nilDeref
    | some uriNonEmpty => pure uriNonEmpty)
  if (isFMP4 && !initOK) = true then .error .http
  else do
    let ll ←
      (match first.serverControl with
      | none => if F.llEntryChecksNil then (pure false : Res Bool) else .panic .nilDeref
      | some (canBlock, _) => pure (canBlock && first.hint.isSome))
    let tr := if ll then runLowLatency F first reloads else runTraditional F first.vod none first reloads
    pure (if isFMP4 then .fmp4 else .ts, tr)

/-! ## one stream, one client -/

inductive Payload where
  | parts (p : Parts)
  | ts (p : TSPayload)
  | undecodable
  deriving Repr

structure StreamIn where
  first : PlResp                      -- answer to the first request of the stream playlist
  reloads : List PlResp := []
  initOK : Bool := true               -- the init request succeeds
  init : Option (List InitTrack) := none   -- decoded init (`none`: decode error)
  files : List Payload := []          -- payload table
  deriving Repr

/-- a started stream processor -/
inductive Started where
  | fmp4 (s : FStream)
  | ts (s : TStream) (st : TSState)
  deriving Repr

def Started.tracks : Started → List Track
  | .fmp4 s => s.tracks
  | .ts s _ => s.tracks

/-- what a stream needs before `setTracks`: fMP4 — the init; MPEG-TS — `reader.Initialize()` on the first pushed segment -/
def streamStart (F : Flags) (isLeading : Bool) (firstIdx : Nat) (inp : StreamIn) (cont : Container) (tr : DLTrace) : Res Started :=
  match cont with
  | .fmp4 => do
    -- `rendition:` is set by the primary downloader exactly for the non-leading streams
    let s ← fmp4Start F isLeading (!isLeading) firstIdx inp.init
    pure (.fmp4 s)
  | .ts =>
    match tr.pushes with
    | [] =>
      -- nothing is ever pushed: the downloader's own end decides
      (match tr.fin with
      | .error e => .error e
      | .panic k => .panic k
      | _ => .error .terminated)
    | p :: _ =>
      match inp.files[p.file]? with
      | some (.ts pl) => do
        let s ← tsStart F isLeading firstIdx pl.kinds
        pure (.ts s {})
      | _ => .error .decode

/-- the segment loop of a stream processor over what its downloader pushes -/
def processPushes (F : Flags) (elapsed : Int) (files : List Payload) : Started → ClientSt → List Push → Res (Started × ClientSt × List Event)
  | sp, c, [] => .ok (sp, c, [])
  | sp, c, p :: rest =>
    match sp with
    | .fmp4 s => do
      let payload := (match files[p.file]? with | some (.parts x) => some x | _ => none)
      let (s, c, ev) ← fmp4ProcessSegment F elapsed s c p.dateTime payload
      let (sp, c, evs) ← processPushes F elapsed files (.fmp4 s) c rest
      pure (sp, c, ev ++ evs)
    | .ts s st =>
      match files[p.file]? with
      | some (.ts pl) => do
        let (st, c, ev) ← tsProcessSegment F elapsed s st c p.dateTime pl.items
        let (sp, c, evs) ← processPushes F elapsed files (.ts s st) c rest
        pure (sp, c, ev ++ evs)
      | _ => .error .decode

/-- the multivariant / media primary playlist as `clientPrimaryDownloader.run` sees it -/
inductive Primary where
  | bad                                   -- request failed / Unmarshal error
  | media                                 -- a media playlist: one stream, its first playlist is this one
  | multi (leadingFound : Bool) (audioGroup : Option Bool)   -- pickLeadingPlaylist ≠ nil; AUDIO attribute: group found
  deriving Repr

def trackView (ts : List Track) : List (Option String × Int) := ts.map fun t => (t.codec, t.clockRate)

/-- phase 1: every stream downloads its first playlist (and init) and reports its tracks -/
def startAll (F : Flags) : Nat → Nat → List StreamIn → Res (List (StreamIn × Started × DLTrace))
  | _, _, [] => .ok []
  | sIdx, firstIdx, inp :: rest => do
    let first ← asMedia F inp.first
    let (cont, tr) ← dlRun F first inp.initOK inp.reloads
    let sp ← streamStart F (sIdx == 0) firstIdx inp cont tr
    let more ← startAll F (sIdx + 1) (firstIdx + sp.tracks.length) rest
    pure ((inp, sp, tr) :: more)

/-- the nil sentinel reaches the stream processor (`seg == nil`): `setEnded()`, unless a leading fMP4 stream never created its
    track processors (every segment was empty and skipped) and the source guards that case -/
def streamEnd (F : Flags) : Started → Res Unit
  | .fmp4 s => if (F.leadingEndNeedsOrigin && s.isLeading && s.procs.isNone) = true then .error .noLeadingData else .ok ()
  | .ts _ _ => .ok ()

/-- phase 2: segments; the leading stream first, then the renditions, each over its own pushes; then the downloader's end.
    A later stream is only looked at when every earlier one has ended without an error; if then no leading time converter
    exists (the leading stream skipped every segment and ended normally) a stream that has anything to process blocks in
    `waitLeadingTimeConv` with nobody left to cancel it: `wedge`. -/
def processAll (F : Flags) (elapsed : Int) : Bool → ClientSt → List (StreamIn × Started × DLTrace) → Res (List Event)
  | _, _, [] => .ok []
  | first, c, (inp, sp, tr) :: rest =>
    if (!first && c.conv.isNone && !tr.pushes.isEmpty) = true then .wedge
    else do
      let (sp, c, evs) ← processPushes F elapsed inp.files sp c tr.pushes
      match tr.fin with
      | .ended => do
        streamEnd F sp
        let more ← processAll F elapsed false c rest
        pure (evs ++ more)
      | .starved => .error .terminated
      | .error e => .error e
      | .panic k => .panic k

def hasSkip (evs : List Event) : Bool :=
  evs.any fun e => match e with | .delivered .. => false | _ => true

/-- `clientPrimaryDownloader.run` up to the creation of the stream downloaders: which streams exist -/
def selectStreams (F : Flags) (prim : Primary) (streams : List StreamIn) : Res (List StreamIn) :=
  match prim with
  | .bad => .error .playlist
  | .media => .ok (streams.take 1)
  | .multi leadingFound audio =>
    if (!leadingFound) = true then (if F.noVariant then .error .noVariants else .panic .nilDeref)
    else match audio with
      | none => .ok (streams.take 1)
      | some false => if F.noGroup then .error .noGroup else .ok (streams.take 1)
      | some true => .ok streams

/-- the streams run: tracks, `OnTracks`, segments, end -/
def runStreams (F : Flags) (elapsed : Int) (ss : List StreamIn) : Outcome :=
  match startAll F 0 0 ss with
  | .error e => .error e none
  | .panic k => .panic k
  | .wedge => .wedge
  | .ok started =>
    let tracks := (started.map fun x => x.2.1.tracks).flatten
    if (F.noTracks && tracks.isEmpty) = true then .error .noSupportedTracks none
    else
      match processAll F elapsed true {} started with
      | .error e => .error e (some (trackView tracks))
      | .panic k => .panic k
      | .wedge => .wedge
      | .ok evs => if hasSkip evs then .skip (trackView tracks) evs else .deliver (trackView tracks) evs

/-- the whole client against a scripted server -/
def clientRun (F : Flags) (elapsed : Int) (prim : Primary) (streams : List StreamIn) : Outcome :=
  match selectStreams F prim streams with
  | .error e => .error e none
  | .panic k => .panic k
  | .wedge => .wedge
  | .ok ss => runStreams F elapsed ss

def Outcome.safe : Outcome → Prop
  | .panic _ => False
  | .wedge => False
  | _ => True

instance : (o : Outcome) → Decidable o.safe
  | .deliver .. => isTrue trivial
  | .skip .. => isTrue trivial
  | .error .. => isTrue trivial
  | .panic _ => isFalse (fun h => h)
  | .wedge => isFalse (fun h => h)

end Hls.Robust
