import Hls.Robust.Model
/-!
# Helper lemmas for property C13 (`Hls/Props/C13.lean` holds the property theorems only)

`Res.sat P r` = "`r` is neither a panic nor a wedge, and a returned value satisfies `P`" — a Hoare-style
post-condition that composes through `>>=` (`sat_bind`). One lemma per function of `Hls.Robust.Model`, then the
composition up to `clientRun_safe`.
-/
namespace Hls.Robust
open Hls.Gen.Robust

namespace Res
/-- `sat P r`: `r` is neither a panic nor a wedge, and if it is a value, the value satisfies `P` -/
def sat {α} (P : α → Prop) : Res α → Prop
  | ok a => P a
  | error _ => True
  | panic _ => False
  | wedge => False

theorem sat_safe {α} {P : α → Prop} {r : Res α} (h : r.sat P) : r.safe := by
  cases r <;> simp_all [sat, safe]

theorem safe_sat {α} {r : Res α} (h : r.safe) : r.sat (fun _ => True) := by
  cases r <;> simp_all [sat, safe]

theorem sat_mono {α} {P Q : α → Prop} {r : Res α} (h : r.sat P) (hpq : ∀ a, P a → Q a) : r.sat Q := by
  cases r <;> simp_all [sat]

theorem sat_bind {α β} {P : α → Prop} {Q : β → Prop} {x : Res α} {f : α → Res β}
    (hx : x.sat P) (hf : ∀ a, P a → (f a).sat Q) : (x >>= f).sat Q := by
  cases x with
  | ok a => exact hf a hx
  | error e => simp [Bind.bind, Res.bind, sat]
  | panic k => simp [sat] at hx
  | wedge => simp [sat] at hx

@[simp] theorem sat_ok {α} {P : α → Prop} (a : α) : (Res.ok a).sat P ↔ P a := Iff.rfl
@[simp] theorem sat_pure {α} {P : α → Prop} (a : α) : (pure a : Res α).sat P ↔ P a := Iff.rfl
@[simp] theorem sat_error {α} {P : α → Prop} (e : ErrClass) : (Res.error e : Res α).sat P ↔ True := Iff.rfl
@[simp] theorem sat_panic {α} {P : α → Prop} (k : PanicKind) : (Res.panic k : Res α).sat P ↔ False := Iff.rfl
@[simp] theorem sat_wedge {α} {P : α → Prop} : (Res.wedge : Res α).sat P ↔ False := Iff.rfl

/-- partial correctness: a returned value satisfies `P` -/
def post {α} (P : α → Prop) (r : Res α) : Prop := ∀ a, r = .ok a → P a

theorem bind_eq_ok {α β} {x : Res α} {f : α → Res β} {b : β} (h : (x >>= f) = .ok b) : ∃ a, x = .ok a ∧ f a = .ok b := by
  cases x with
  | ok a => exact ⟨a, rfl, h⟩
  | error e => simp [Bind.bind, Res.bind] at h
  | panic k => simp [Bind.bind, Res.bind] at h
  | wedge => simp [Bind.bind, Res.bind] at h

theorem post_bind {α β} {P : α → Prop} {Q : β → Prop} {x : Res α} {f : α → Res β}
    (hx : x.post P) (hf : ∀ a, P a → (f a).post Q) : (x >>= f).post Q := by
  intro b hb
  obtain ⟨a, ha, hfa⟩ := bind_eq_ok hb
  exact hf a (hx a ha) b hfa

theorem post_ok {α} {P : α → Prop} {a : α} (h : P a) : (Res.ok a).post P := by
  intro b hb; cases hb; exact h

theorem post_pure {α} {P : α → Prop} {a : α} (h : P a) : (pure a : Res α).post P := post_ok h

theorem post_error {α} {P : α → Prop} {e : ErrClass} : (Res.error e : Res α).post P := by
  intro b hb; cases hb

theorem post_panic {α} {P : α → Prop} {k : PanicKind} : (Res.panic k : Res α).post P := by
  intro b hb; cases hb

theorem post_true {α} (r : Res α) : r.post (fun _ => True) := fun _ _ => trivial

theorem post_mono {α} {P Q : α → Prop} {r : Res α} (h : r.post P) (hpq : ∀ a, P a → Q a) : r.post Q :=
  fun a ha => hpq a (h a ha)

theorem sat_and_post {α} {P Q : α → Prop} {r : Res α} (h : r.sat P) (hq : r.post Q) : r.sat (fun a => P a ∧ Q a) := by
  cases r with
  | ok a => exact ⟨h, hq a rfl⟩
  | error e => trivial
  | panic k => exact h
  | wedge => exact h
end Res

open Res

theorem mulDiv_sat {v m d : Int} (hd : d ≠ 0) : (mulDiv v m d).sat (fun _ => True) := by
  simp [mulDiv, hd]

theorem toDuration_sat {d r : Int} (hr : r ≠ 0) : (toDuration d r).sat (fun _ => True) := by
  simp [toDuration, hr]

theorem handleData_sat (F : Flags) (elapsed : Int) (track : Nat) (rate pts dts : Int) (pid : Nat) (hr : rate ≠ 0) :
    (handleData F elapsed track rate pts dts pid).sat (fun evs => evs.length ≤ 1) := by
  unfold handleData
  split
  · simp
  · refine sat_bind (toDuration_sat hr) ?_
    intro dur _
    split <;> simp


/-! ### tables -/

theorem lookup_mem {α β} [BEq α] [LawfulBEq α] {l : List (α × β)} {k : α} {v : β} (h : l.lookup k = some v) : (k, v) ∈ l := by
  induction l with
  | nil => simp [List.lookup] at h
  | cons p rest ih =>
    obtain ⟨a, b⟩ := p
    simp only [List.lookup] at h
    split at h
    · rename_i heq
      have : k = a := by simpa using heq
      simp_all
    · exact List.mem_cons_of_mem _ (ih h)

/-- T1 obligation: every `codecs.*` kind `FromFMP4` can return has a `decodePayload` case -/
def fromFMP4Decodable : Bool := fromFMP4Cases.all fun p => fmp4DecodePayloadCases.contains p.2

theorem known_decodable (htab : fromFMP4Decodable = true) {k c : String} (h : fromFMP4 k = some c) :
    fmp4DecodePayloadCases.contains c = true := by
  have hm := lookup_mem h
  have := List.all_eq_true.mp htab _ hm
  simpa using this

/-! ### fMP4 -/

def ProcsOK (procs : List (Int × Proc)) : Prop := ∀ p ∈ procs, p.2.hasDecoder = true ∧ p.2.clockRate ≠ 0

def FConvOK (f : FConv) : Prop := f.ts ≠ 0 ∧ ∀ v t r, f.ntp = some (v, t, r) → r ≠ 0

def ConvOK (c : ClientSt) : Prop := ∀ f, c.conv = some (.fmp4 f) → FConvOK f

def IsFMP4 (c : ClientSt) : Prop := ∃ f, c.conv = some (.fmp4 f)
def IsTS (c : ClientSt) : Prop := ∃ t, c.conv = some (.ts t)

def InitOK (init : List InitTrack) : Prop := ∀ t ∈ init, t.timeScale ≠ 0 ∧ (fromFMP4 t.kind).isSome = true

/-- what `run` has established when it reaches `setTracks`, and what `initializeTrackProcessors` adds -/
structure FOK (s : FStream) : Prop where
  init : InitOK s.init
  tracks : s.tracks = buildTracks s.init
  leading : ∃ t ∈ s.init, t.id = s.leadingTrackID
  procs : ∀ procs, s.procs = some procs → ProcsOK procs ∧ ∀ t ∈ s.init, (procs.lookup t.id).isSome = true

def sizePTs (pts : List PartTrack) : Nat := (pts.map fun pt => 1 + pt.samples.length).sum

theorem fmp4Process_sat (F : Flags) (elapsed : Int) (pr : Proc) (hd : pr.hasDecoder = true) (hr : pr.clockRate ≠ 0)
    (entryDts : Int) (entryNtp : Option Int) (samples : List Sample) :
    ∀ dts, (fmp4Process F elapsed pr entryDts entryNtp dts samples).sat (fun evs => evs.length ≤ samples.length) := by
  induction samples with
  | nil => intro dts; simp [fmp4Process]
  | cons s rest ih =>
    intro dts
    unfold fmp4Process
    simp only [hd, Bool.not_true, Bool.false_and, Bool.false_eq_true, if_false]
    split
    · simp
    · refine sat_bind (P := fun _ => True) ?_ ?_
      · cases entryNtp with
        | none => simp
        | some n => exact sat_bind (toDuration_sat hr) (fun _ _ => by simp)
      · intro _ _
        refine sat_bind (handleData_sat F elapsed pr.track pr.clockRate _ dts s.pid hr) ?_
        intro ev hev
        refine sat_bind (ih _) ?_
        intro evs hevs
        simp only [sat_pure, List.length_append, List.length_cons]
        omega

theorem pickLeading_sat (init : List InitTrack) (hne : init ≠ []) :
    (pickLeading init).sat (fun lid => ∃ t ∈ init, t.id = lid) := by
  unfold pickLeading
  split
  · rename_i t ht
    exact ⟨t, List.mem_of_find?_eq_some ht, rfl⟩
  · cases init with
    | nil => exact absurd rfl hne
    | cons t rest => exact ⟨t, List.mem_cons_self .., rfl⟩

theorem fmp4Start_sat (F : Flags) (hz : F.zeroTimeScale = true) (hf : F.filtersUnsupported = true)
    (isLeading rendition : Bool) (hr : isLeading = true ∨ rendition = true) (firstIdx : Nat) (initDec : Option (List InitTrack)) :
    (fmp4Start F isLeading rendition firstIdx initDec).sat (fun s => FOK s ∧ s.procs = none ∧ s.isLeading = isLeading ∧ s.firstIdx = firstIdx) := by
  unfold fmp4Start
  cases initDec with
  | none => simp
  | some init0 =>
    simp only [hz, hf, Bool.true_and, if_true]
    split
    · simp
    · rename_i hnz
      split
      · simp
      · split
        · simp
        · rename_i hne
          split
          · simp
          · have hinit : InitOK (init0.filter fun t => (fromFMP4 t.kind).isSome) := by
              intro t ht
              have ⟨ht0, hk⟩ := List.mem_filter.mp ht
              refine ⟨?_, hk⟩
              intro h0
              apply hnz
              simp only [List.any_eq_true]
              exact ⟨t, ht0, by simp [h0]⟩
            have hne' : (init0.filter fun t => (fromFMP4 t.kind).isSome) ≠ [] := by
              intro h; apply hne; simp [h]
            refine sat_bind (pickLeading_sat _ hne') ?_
            intro lid hlid
            split
            · rename_i hnil
              cases hr with
              | inl h => simp [h] at hnil
              | inr h => simp [h] at hnil
            · split
              · simp
              · simp only [sat_pure]
                exact ⟨⟨hinit, rfl, hlid, by intro p hp; simp at hp⟩, by simp⟩


theorem lookup_cons_isSome {α β} [BEq α] {l : List (α × β)} {k a : α} {b : β} (h : (l.lookup k).isSome = true) :
    (((a, b) :: l).lookup k).isSome = true := by
  simp only [List.lookup]
  split <;> simp_all

theorem buildProcs_sat (F : Flags) (htab : fromFMP4Decodable = true) :
    ∀ (its : List InitTrack) (gidx : Nat) (acc : List (Int × Proc)) (seen : List InitTrack),
      InitOK its → ProcsOK acc → (∀ t ∈ seen, (acc.lookup t.id).isSome = true) →
      (buildProcs F gidx its (buildTracks its) acc).sat
        (fun procs => ProcsOK procs ∧ ∀ t ∈ seen ++ its, (procs.lookup t.id).isSome = true) := by
  intro its
  induction its with
  | nil =>
    intro gidx acc seen _ hacc hseen
    simp only [buildTracks, List.map_nil, buildProcs, sat_ok, List.append_nil]
    exact ⟨hacc, hseen⟩
  | cons it its' ih =>
    intro gidx acc seen hinit hacc hseen
    have hit := hinit it (List.mem_cons_self ..)
    obtain ⟨c, hc⟩ := Option.isSome_iff_exists.mp hit.2
    have hdec := known_decodable htab hc
    simp only [buildTracks, List.map_cons, buildProcs, hc, procInitialize, hdec, if_true]
    simp only [Bind.bind, Res.bind]
    have hinit' : InitOK its' := fun t ht => hinit t (List.mem_cons_of_mem _ ht)
    have hacc' : ProcsOK ((it.id, { track := gidx, clockRate := it.timeScale, hasDecoder := true, decoder := decoderOf (some c) }) :: acc) := by
      intro p hp
      cases List.mem_cons.mp hp with
      | inl h => subst h; exact ⟨rfl, hit.1⟩
      | inr h => exact hacc p h
    have hseen' : ∀ t ∈ seen ++ [it], (((it.id, ({ track := gidx, clockRate := it.timeScale, hasDecoder := true, decoder := decoderOf (some c) } : Proc)) :: acc).lookup t.id).isSome = true := by
      intro t ht
      cases List.mem_append.mp ht with
      | inl h => exact lookup_cons_isSome (hseen t h)
      | inr h =>
        have : t = it := by simpa using h
        subst this
        simp [List.lookup]
    have := ih (gidx + 1) _ (seen ++ [it]) hinit' hacc' hseen'
    simpa [buildTracks, List.append_assoc] using this

theorem fmp4InitProcs_sat (F : Flags) (htab : fromFMP4Decodable = true) (hck : F.checksConvKindFMP4 = true)
    (s : FStream) (hs : FOK s) (c : ClientSt) (hc : ConvOK c) (lpt : PartTrack) :
    (fmp4InitProcs F s c lpt).sat (fun r => ConvOK r.1 ∧ IsFMP4 r.1 ∧ ProcsOK r.2 ∧ ∀ t ∈ s.init, (r.2.lookup t.id).isSome = true) := by
  unfold fmp4InitProcs
  refine sat_bind (P := fun c1 => ConvOK c1 ∧ IsFMP4 c1) ?_ ?_
  · split
    · simp only [sat_pure]
      refine ⟨?_, ⟨_, rfl⟩⟩
      intro f hf
      simp only [Option.some.injEq, Conv.fmp4.injEq] at hf
      subst hf
      refine ⟨?_, by intro v t r h; simp at h⟩
      obtain ⟨t, ht, hid⟩ := hs.leading
      simp only [findTimeScale]
      split
      · rename_i t' ht'
        exact (hs.init t' (List.mem_of_find?_eq_some ht')).1
      · rename_i hnone
        have := List.find?_eq_none.mp hnone t ht
        simp [hid] at this
    · split
      · simp
      · rename_i f hf
        simp only [sat_pure]
        exact ⟨hc, ⟨f, hf⟩⟩
      · simp
  · intro c1 hc1
    have := buildProcs_sat F htab s.init s.firstIdx [] [] hs.init (by intro p hp; simp at hp) (by intro t ht; simp at ht)
    rw [← hs.tracks] at this
    refine sat_bind this ?_
    intro procs hp
    simp only [sat_pure, List.nil_append] at hp ⊢
    exact ⟨hc1.1, hc1.2, hp.1, hp.2⟩

theorem assertFMP4_sat {c : ClientSt} (h : IsFMP4 c) (hc : ConvOK c) : (assertFMP4 c).sat (fun f => c.conv = some (.fmp4 f) ∧ FConvOK f) := by
  obtain ⟨f, hf⟩ := h
  simp [assertFMP4, hf, hc f hf]

theorem convert_sat {f : FConv} (hf : FConvOK f) (v rate : Int) : (f.convert v rate).sat (fun _ => True) := by
  unfold FConv.convert
  exact sat_bind (mulDiv_sat hf.1) (fun _ _ => by simp)

theorem getNTP_sat {f : FConv} (hf : FConvOK f) (t rate : Int) (hr : rate ≠ 0) : (f.getNTP t rate).sat (fun _ => True) := by
  unfold FConv.getNTP
  split
  · simp
  · rename_i val nts nrate hn
    refine sat_bind (mulDiv_sat (hf.2 _ _ _ hn)) (fun _ _ => ?_)
    exact sat_bind (toDuration_sat hr) (fun _ _ => by simp)

theorem fmp4PushLoop_sat (F : Flags) (hsk : F.skipsUnknownPartTracks = true) (elapsed : Int) (procs : List (Int × Proc))
    (hp : ProcsOK procs) (c : ClientSt) (hc : ConvOK c) (hf : IsFMP4 c) (pts : List PartTrack) :
    (fmp4PushLoop F elapsed procs c pts).sat (fun evs => evs.length ≤ sizePTs pts) := by
  induction pts with
  | nil => simp [fmp4PushLoop]
  | cons pt rest ih =>
    unfold fmp4PushLoop
    split
    · simp only [hsk, if_true]
      refine sat_bind ih ?_
      intro evs h
      simp only [sat_pure, List.length_cons, sizePTs, List.map_cons, List.sum_cons] at h ⊢
      omega
    · rename_i pr hpr
      have hpr' := hp _ (lookup_mem hpr)
      refine sat_bind (assertFMP4_sat hf hc) ?_
      intro f hfo
      refine sat_bind (convert_sat hfo.2 _ _) ?_
      intro dts _
      refine sat_bind (assertFMP4_sat hf hc) ?_
      intro f2 hfo2
      refine sat_bind (getNTP_sat hfo2.2 _ _ hpr'.2) ?_
      intro ntp _
      refine sat_bind (fmp4Process_sat F elapsed pr hpr'.1 hpr'.2 dts ntp pt.samples dts) ?_
      intro ev hev
      refine sat_bind ih ?_
      intro evs h
      simp only [sat_pure, List.length_append, sizePTs, List.map_cons, List.sum_cons] at h ⊢
      omega


def sizeParts (parts : Parts) : Nat := sizePTs parts.flatten

/-- the safety-relevant guards of the fMP4 path -/
structure FGuards (F : Flags) : Prop where
  zeroTimeScale : F.zeroTimeScale = true
  filtersUnsupported : F.filtersUnsupported = true
  noLeadingDataFMP4 : F.noLeadingDataFMP4 = true
  skipsUnknownPartTracks : F.skipsUnknownPartTracks = true
  chanPerSegment : F.chanPerSegment = true
  checksConvKindFMP4 : F.checksConvKindFMP4 = true

theorem findFirstPT_id {parts : Parts} {id : Int} {pt : PartTrack} (h : findFirstPT parts id = some pt) : pt.id = id := by
  have := List.find?_some h
  simpa using this

theorem fmp4ProcessSegment_sat (F : Flags) (G : FGuards F) (htab : fromFMP4Decodable = true) (elapsed : Int)
    (s : FStream) (hs : FOK s) (c : ClientSt) (hc : ConvOK c) (hp : s.procs.isSome = true → IsFMP4 c)
    (dateTime : Option Int) (payload : Option Parts) :
    (fmp4ProcessSegment F elapsed s c dateTime payload).sat
      (fun r => FOK r.1 ∧ ConvOK r.2.1 ∧ (r.1.procs.isSome = true → IsFMP4 r.2.1) ∧
        r.1.isLeading = s.isLeading ∧ (∀ parts, payload = some parts → r.2.2.length ≤ sizeParts parts + 1) ∧
        (c.conv.isSome = true → r.2.1.conv.isSome = true) ∧ (s.procs.isSome = true → r.1.procs.isSome = true)) := by
  unfold fmp4ProcessSegment
  cases payload with
  | none => simp
  | some parts =>
    simp only
    split
    · split
      · simp only [sat_ok, List.length_cons, List.length_nil]
        exact ⟨hs, hc, hp, trivial, fun _ _ => by omega, id, id⟩
      · simp [G.noLeadingDataFMP4]
    · rename_i lpt hlpt
      have hlid := findFirstPT_id hlpt
      -- processors
      refine sat_bind (P := fun r => ConvOK r.1 ∧ IsFMP4 r.1 ∧ ProcsOK r.2 ∧ ∀ t ∈ s.init, (r.2.lookup t.id).isSome = true) ?_ ?_
      · split
        · rename_i procs hprocs
          simp only [sat_pure]
          have := hs.procs procs hprocs
          exact ⟨hc, hp (by simp [hprocs]), this.1, this.2⟩
        · exact fmp4InitProcs_sat F htab G.checksConvKindFMP4 s hs c hc lpt
      · rintro ⟨c1, procs⟩ ⟨hc1, hf1, hpo, hcover⟩
        simp only at hc1 hf1 hpo hcover ⊢
        refine sat_bind (P := fun c2 => ConvOK c2 ∧ IsFMP4 c2) ?_ ?_
        · split
          · split
            · refine sat_bind (assertFMP4_sat hf1 hc1) ?_
              intro _ _
              simp only [sat_pure]
              exact ⟨hc1, hf1⟩
            · rename_i t
              obtain ⟨lt, hlt, hltid⟩ := hs.leading
              have hsome := hcover lt hlt
              rw [hltid, ← hlid] at hsome
              split
              · rename_i hnone
                simp [hnone] at hsome
              · rename_i lp hlp
                have hlp' := hpo _ (lookup_mem hlp)
                refine sat_bind (assertFMP4_sat hf1 hc1) ?_
                intro f hfo
                refine sat_bind (convert_sat hfo.2 _ _) ?_
                intro dts _
                refine sat_bind (assertFMP4_sat hf1 hc1) ?_
                intro f2 hfo2
                simp only [sat_pure]
                refine ⟨?_, ⟨_, rfl⟩⟩
                intro f3 hf3
                simp only [Option.some.injEq, Conv.fmp4.injEq] at hf3
                subst hf3
                refine ⟨hfo2.2.1, ?_⟩
                intro v t' r h
                simp only [Option.some.injEq, Prod.mk.injEq] at h
                rw [← h.2.2]
                exact hlp'.2
          · simp only [sat_pure]
            exact ⟨hc1, hf1⟩
        · intro c2 hc2
          simp only [G.chanPerSegment, if_true]
          refine sat_bind (fmp4PushLoop_sat F G.skipsUnknownPartTracks elapsed procs hpo c2 hc2.1 hc2.2 parts.flatten) ?_
          intro evs hevs
          simp only [Nat.lt_irrefl, if_false, sat_pure, gt_iff_lt]
          refine ⟨⟨hs.init, hs.tracks, hs.leading, ?_⟩, hc2.1, fun _ => hc2.2, trivial, ?_, ?_, fun _ => rfl⟩
          · intro procs' hp'
            simp only [Option.some.injEq] at hp'
            subst hp'
            exact ⟨hpo, hcover⟩
          · intro parts' hparts'
            simp only [Option.some.injEq] at hparts'
            subst hparts'
            exact Nat.le_succ_of_le hevs
          · intro _
            obtain ⟨f, hf⟩ := hc2.2
            simp [hf]

/-! ### MPEG-TS -/

structure TGuards (F : Flags) : Prop where
  procNilTS : F.procNilTS = true
  checksConvKindTS : F.checksConvKindTS = true

def TSInv (st : TSState) (c : ClientSt) : Prop := (st.procsReady = true → IsTS c) ∧ ConvOK c

theorem convOK_ts (t : TConv) : ConvOK { conv := some (.ts t) } := by
  intro f hf; simp at hf

theorem assertTS_sat {c : ClientSt} (h : IsTS c) : (assertTS c).sat (fun t => c.conv = some (.ts t)) := by
  obtain ⟨t, ht⟩ := h
  simp [assertTS, ht]

theorem tsProcessSample_sat (F : Flags) (G : TGuards F) (elapsed : Int) (s : TStream) (dateTime : Option Int)
    (st : TSState) (c : ClientSt) (hinv : TSInv st c) (i : Nat) (rawPTS rawDTS : Int) (pid : Nat) :
    (tsProcessSample F elapsed s dateTime st c i rawPTS rawDTS pid).sat
      (fun r => TSInv r.1 r.2.1 ∧ r.2.2.length ≤ 1) := by
  unfold tsProcessSample
  refine sat_bind (P := fun r => TSInv r.1 r.2) ?_ ?_
  · split
    · split
      · rename_i hready
        simp only [sat_pure]
        exact ⟨fun _ => hinv.1 hready, hinv.2⟩
      · split
        · simp only [sat_pure]
          exact ⟨fun _ => ⟨_, rfl⟩, convOK_ts _⟩
        · split
          · simp
          · rename_i t ht
            simp only [sat_pure]
            exact ⟨fun _ => ⟨t, ht⟩, hinv.2⟩
          · simp [G.checksConvKindTS]
    · simp only [sat_pure]
      exact hinv
  · rintro ⟨st1, c1⟩ hinv1
    simp only at hinv1 ⊢
    split
    · simp only [sat_pure, List.length_cons, List.length_nil, Nat.le_refl, and_true]
      exact hinv1
    · rename_i hnr
      have hready : st1.procsReady = true := by
        cases h : st1.procsReady with
        | true => rfl
        | false => simp [h, G.procNilTS] at hnr
      refine sat_bind (assertTS_sat (hinv1.1 hready)) ?_
      intro t _
      refine sat_bind (P := fun _ => True) ?_ ?_
      · split
        · simp
        · exact sat_bind (toDuration_sat (r := 90000) (by decide)) (fun _ _ => by simp)
      · intro _ _
        simp only [hready, Bool.not_true, Bool.false_eq_true, if_false]
        refine sat_bind (handleData_sat F elapsed _ 90000 _ _ pid (by decide)) ?_
        intro ev hev
        simp only [sat_pure]
        exact ⟨⟨fun _ => ⟨_, rfl⟩, convOK_ts _⟩, hev⟩

theorem tsItems_sat (F : Flags) (G : TGuards F) (elapsed : Int) (s : TStream) (dateTime : Option Int) (items : List TSItem) :
    ∀ (st : TSState) (c : ClientSt), TSInv st c →
    (tsItems F elapsed s dateTime st c items).sat (fun r => TSInv r.1 r.2.1 ∧ r.2.2.length ≤ items.length) := by
  induction items with
  | nil => intro st c h; simp [tsItems, h]
  | cons it rest ih =>
    intro st c h
    cases it with
    | decodeError =>
      unfold tsItems
      refine sat_bind (ih st c h) ?_
      rintro ⟨st1, c1, evs⟩ ⟨h1, hl⟩
      simp only [sat_pure, List.length_cons] at hl ⊢
      exact ⟨h1, by omega⟩
    | sample track pts dts pid =>
      unfold tsItems
      split
      · refine sat_mono (ih st c h) ?_
        rintro ⟨st1, c1, evs⟩ ⟨h1, hl⟩
        simp only [List.length_cons] at hl ⊢
        exact ⟨h1, by omega⟩
      · split
        · refine sat_bind (tsProcessSample_sat F G elapsed s dateTime st c h _ pts dts pid) ?_
          rintro ⟨st1, c1, ev⟩ ⟨h1, hl1⟩
          refine sat_bind (ih st1 c1 h1) ?_
          rintro ⟨st2, c2, evs⟩ ⟨h2, hl2⟩
          simp only [sat_pure, List.length_append, List.length_cons] at hl1 hl2 ⊢
          exact ⟨h2, by omega⟩
        · refine sat_mono (ih st c h) ?_
          rintro ⟨st1, c1, evs⟩ ⟨h1, hl⟩
          simp only [List.length_cons] at hl ⊢
          exact ⟨h1, by omega⟩

theorem tsProcessSegment_sat (F : Flags) (G : TGuards F) (elapsed : Int) (s : TStream) (st : TSState) (c : ClientSt)
    (h : TSInv st c) (dateTime : Option Int) (items : List TSItem) :
    (tsProcessSegment F elapsed s st c dateTime items).sat (fun r => TSInv r.1 r.2.1 ∧ r.2.2.length ≤ items.length) := by
  unfold tsProcessSegment
  refine sat_bind (tsItems_sat F G elapsed s dateTime items _ c ⟨h.1, h.2⟩) ?_
  rintro ⟨st1, c1, evs⟩ ⟨h1, hl⟩
  simp only at h1 hl ⊢
  split
  · simp
  · simp only [sat_pure]
    exact ⟨h1, hl⟩

/-! `leadingTrackFound` is only ever set together with (or after) the creation of the track processors -/

theorem tsProcessSample_ltf (F : Flags) (elapsed : Int) (s : TStream) (dateTime : Option Int) (st : TSState) (c : ClientSt)
    (h0 : st.leadingTrackFound = true → st.procsReady = true) (i : Nat) (rawPTS rawDTS : Int) (pid : Nat) :
    (tsProcessSample F elapsed s dateTime st c i rawPTS rawDTS pid).post
      (fun r => r.1.leadingTrackFound = true → r.1.procsReady = true) := by
  unfold tsProcessSample
  refine post_bind (P := fun r => r.1.leadingTrackFound = true → r.1.procsReady = true) ?_ ?_
  · split
    · split
      · rename_i hready
        exact post_pure (fun _ => hready)
      · split
        · exact post_pure (fun _ => rfl)
        · split
          · exact post_error
          · exact post_pure (fun _ => rfl)
          · split
            · exact post_error
            · exact post_pure (fun _ => rfl)
    · exact post_pure h0
  · rintro ⟨st1, c1⟩ h1
    simp only at h1 ⊢
    split
    · exact post_pure h1
    · refine post_bind (post_true _) ?_
      intro t _
      refine post_bind (post_true _) ?_
      intro _ _
      split
      · exact post_panic
      · refine post_bind (post_true _) ?_
        intro ev _
        exact post_pure h1

theorem tsItems_ltf (F : Flags) (elapsed : Int) (s : TStream) (dateTime : Option Int) (items : List TSItem) :
    ∀ (st : TSState) (c : ClientSt), (st.leadingTrackFound = true → st.procsReady = true) →
      (tsItems F elapsed s dateTime st c items).post (fun r => r.1.leadingTrackFound = true → r.1.procsReady = true) := by
  induction items with
  | nil => intro st c h; simp only [tsItems]; exact post_ok h
  | cons it rest ih =>
    intro st c h
    cases it with
    | decodeError =>
      unfold tsItems
      refine post_bind (ih st c h) ?_
      rintro ⟨st1, c1, evs⟩ h1
      exact post_pure h1
    | sample track pts dts pid =>
      unfold tsItems
      split
      · exact ih st c h
      · split
        · refine post_bind (tsProcessSample_ltf F elapsed s dateTime st c h _ pts dts pid) ?_
          rintro ⟨st1, c1, ev⟩ h1
          refine post_bind (ih st1 c1 h1) ?_
          rintro ⟨st2, c2, evs⟩ h2
          exact post_pure h2
        · exact ih st c h

/-- with the "leading track found" check, a segment that was processed leaves the track processors (and the converter) in place -/
theorem tsProcessSegment_ready (F : Flags) (hg : F.noLeadingDataTS = true) (elapsed : Int) (s : TStream) (st : TSState)
    (c : ClientSt) (dateTime : Option Int) (items : List TSItem) :
    (tsProcessSegment F elapsed s st c dateTime items).post (fun r => r.1.procsReady = true) := by
  unfold tsProcessSegment
  refine post_bind (tsItems_ltf F elapsed s dateTime items _ c (by intro h; simp at h)) ?_
  rintro ⟨st1, c1, evs⟩ h1
  simp only at h1 ⊢
  split
  · exact post_error
  · rename_i hn
    refine post_pure ?_
    apply h1
    cases hl : st1.leadingTrackFound with
    | true => rfl
    | false => simp [hg, hl] at hn

theorem tsStart_safe (F : Flags) (isLeading : Bool) (firstIdx : Nat) (kinds : List String) :
    (tsStart F isLeading firstIdx kinds).sat (fun s => s.isLeading = isLeading) := by
  unfold tsStart
  simp only
  split
  · simp
  · split <;> simp

/-! ### download loops -/

structure DGuards (F : Flags) : Prop where
  invPosNegative : F.invPosNegative = true
  idOutOfRange : F.idOutOfRange = true
  vodNoSegments : F.vodNoSegments = true
  segNil : F.segNil = true
  hintDisappeared : F.hintDisappeared = true
  hintNoSegments : F.hintNoSegments = true
  streamPlaylistIsMedia : F.streamPlaylistIsMedia = true
  llEntryChecksNil : F.llEntryChecksNil = true
  mapTestChecksNil : F.mapTestChecksNil = true

def DLEnd.isEnded : DLEnd → Bool
  | .ended => true
  | _ => false

def DLEnd.safe : DLEnd → Prop
  | .panic _ => False
  | _ => True

theorem getElem?_of_lt {α} (l : List α) (i : Int) (h0 : 0 ≤ i) (h1 : i < l.length) : ∃ a, l[i.toNat]? = some a := by
  have : i.toNat < l.length := by omega
  exact ⟨l[i.toNat], by simp [this]⟩

theorem findInvPos_sat (F : Flags) (hg : F.invPosNegative = true) (segs : List SegRef) (invPos : Int) (hpos : 0 < invPos) :
    (findInvPos F segs invPos).sat (fun r => r.isSome = true → segs ≠ []) := by
  unfold findInvPos
  simp only [hg, Bool.true_and, decide_eq_true_eq]
  split
  · simp
  · rename_i h
    obtain ⟨a, ha⟩ := getElem?_of_lt segs (segs.length - invPos) (by omega) (by omega)
    simp only [ha, sat_ok]
    intro _ hnil
    simp [hnil] at ha

theorem findWithID_sat (F : Flags) (hg : F.idOutOfRange = true) (msn : Int) (segs : List SegRef) (id : Int) :
    (findWithID F msn segs id).sat (fun r => r.isSome = true → segs ≠ []) := by
  unfold findWithID
  simp only [hg, Bool.true_and, Bool.or_eq_true, decide_eq_true_eq]
  split
  · simp
  · rename_i h
    have h0 : ¬ (id - msn < 0) := fun h' => h (Or.inl h')
    have h1 : ¬ (id - msn ≥ segs.length) := fun h' => h (Or.inr h')
    simp only [h0, if_false]
    obtain ⟨a, ha⟩ := getElem?_of_lt segs (id - msn) (by omega) (by omega)
    simp only [ha, sat_ok]
    intro _ hnil
    simp [hnil] at ha

theorem fillSelect_sat (F : Flags) (G : DGuards F) (hdist : 0 < clientLiveInitialDistance) (firstVOD : Bool) (cur : Option Int) (pl : MediaView) :
    (fillSelect F firstVOD cur pl).sat (fun _ => True) := by
  unfold fillSelect
  refine sat_bind (P := fun r => pl.segs ≠ []) ?_ ?_
  · cases cur with
    | none =>
      simp only
      split
      · split
        · simp
        · rename_i hne
          cases hsegs : pl.segs with
          | nil => simp [hsegs, G.vodNoSegments] at hne
          | cons s rest => simp
      · refine sat_bind (findInvPos_sat F G.invPosNegative pl.segs _ hdist) ?_
        intro r hr
        cases r with
        | none => simp [G.segNil]
        | some p =>
          obtain ⟨s, pos⟩ := p
          simp only [sat_pure]
          exact hr rfl
    | some c =>
      simp only
      refine sat_bind (findWithID_sat F G.idOutOfRange pl.msn pl.segs (c + 1)) ?_
      intro r hr
      cases r with
      | none => simp [G.segNil]
      | some p =>
        obtain ⟨s, pos, inv⟩ := p
        simp only
        split
        · simp
        · simp only [sat_pure]
          exact hr rfl
  · rintro ⟨seg, segPos⟩ hne
    simp only at hne ⊢
    refine sat_bind (P := fun _ => True) ?_ (fun _ _ => by simp)
    split
    · cases hsegs : pl.segs with
      | nil => exact absurd hsegs hne
      | cons s rest => simp
    · simp


theorem asMedia_sat (F : Flags) (hg : F.streamPlaylistIsMedia = true) (r : PlResp) : (asMedia F r).sat (fun _ => True) := by
  cases r <;> simp [asMedia, hg]

/-- what the progress theorem says about a download-loop trace, given the number of server answers still to come -/
structure DLProps (answers : Nat) (t : DLTrace) : Prop where
  safe : t.fin.safe
  itersPos : 1 ≤ t.iters
  itersAnswers : t.iters ≤ answers + 1          -- no more iterations than server answers (+ the one in flight)
  itersSeg : t.iters ≤ t.segReqs + 1            -- every completed iteration issued a segment / part request …
  itersPl : t.iters ≤ t.plReqs + 1              -- … and a playlist reload
  plAnswers : t.plReqs ≤ answers + 1
  pushesSeg : t.pushes.length ≤ t.segReqs       -- nothing is handed to the processor that was not downloaded
  starved : t.fin = .starved → t.plReqs = answers + 1   -- blocked in a request only with every answer consumed
  endedPushes : t.fin.isEnded = true → t.pushes ≠ []    -- the sentinel follows a downloaded segment

theorem DLProps.step {n : Nat} {t : DLTrace} (h : DLProps n t) (p : Push) : DLProps (n + 1) (t.step (some p) 1 1) := by
  obtain ⟨h1, h2, h3, h4, h5, h6, h7, h8, _⟩ := h
  refine ⟨h1, ?_, ?_, ?_, ?_, ?_, ?_, ?_, ?_⟩ <;> simp only [DLTrace.step, List.length_cons] <;> try omega
  · intro hs
    have := h8 hs
    omega
  · intro _; simp

theorem runTraditional_props (F : Flags) (G : DGuards F) (hdist : 0 < clientLiveInitialDistance) (firstVOD : Bool) :
    ∀ (reloads : List PlResp) (cur : Option Int) (pl : MediaView),
      DLProps reloads.length (runTraditional F firstVOD cur pl reloads) := by
  intro reloads
  induction reloads with
  | nil =>
    intro cur pl
    unfold runTraditional
    have hfs := fillSelect_sat F G hdist firstVOD cur pl
    cases hfill : fillSelect F firstVOD cur pl with
    | panic k => simp [hfill] at hfs
    | wedge => simp [hfill] at hfs
    | error e => exact ⟨trivial, by simp, by simp, by simp, by simp, by simp, by simp, by simp, by simp [DLEnd.isEnded]⟩
    | ok r =>
      obtain ⟨id, seg, last⟩ := r
      simp only
      cases seg.file with
      | none => exact ⟨trivial, by simp, by simp, by simp, by simp, by simp, by simp, by simp, by simp [DLEnd.isEnded]⟩
      | some f =>
        simp only
        split
        · exact ⟨trivial, by simp, by simp, by simp, by simp, by simp, by simp, by simp, by simp [DLEnd.isEnded]⟩
        · exact ⟨trivial, by simp, by simp, by simp, by simp, by simp, by simp, by simp, by simp [DLEnd.isEnded]⟩
  | cons r rest ih =>
    intro cur pl
    unfold runTraditional
    have hfs := fillSelect_sat F G hdist firstVOD cur pl
    cases hfill : fillSelect F firstVOD cur pl with
    | panic k => simp [hfill] at hfs
    | wedge => simp [hfill] at hfs
    | error e => exact ⟨trivial, by simp, by simp, by simp, by simp, by simp, by simp, by simp, by simp [DLEnd.isEnded]⟩
    | ok x =>
      obtain ⟨id, seg, last⟩ := x
      simp only
      cases seg.file with
      | none => exact ⟨trivial, by simp, by simp, by simp, by simp, by simp, by simp, by simp, by simp [DLEnd.isEnded]⟩
      | some f =>
        simp only
        split
        · exact ⟨trivial, by simp, by simp, by simp, by simp, by simp, by simp, by simp, by simp [DLEnd.isEnded]⟩
        · have hm := asMedia_sat F G.streamPlaylistIsMedia r
          cases hmed : asMedia F r with
          | panic k => simp [hmed] at hm
          | wedge => simp [hmed] at hm
          | error e => exact ⟨trivial, by simp, by simp, by simp, by simp, by simp, by simp, by simp, by simp [DLEnd.isEnded]⟩
          | ok pl' =>
            simp only [List.length_cons]
            exact (ih (some id) pl').step _


theorem hintDateTime_sat (F : Flags) (hg : F.hintNoSegments = true) (pl : MediaView) : (hintDateTime F pl).sat (fun _ => True) := by
  unfold hintDateTime
  simp only [hg, Bool.true_and]
  split
  · simp
  · rename_i hne
    cases hsegs : pl.segs with
    | nil => simp [hsegs] at hne
    | cons s rest =>
      have : (s :: rest).getLast? ≠ none := by simp
      cases hl : (s :: rest).getLast? with
      | none => exact absurd hl this
      | some x => simp

theorem runLowLatency_props (F : Flags) (G : DGuards F) :
    ∀ (reloads : List PlResp) (pl : MediaView), pl.hint.isSome = true →
      DLProps reloads.length (runLowLatency F pl reloads) := by
  intro reloads
  induction reloads with
  | nil =>
    intro pl hh
    unfold runLowLatency
    cases hhint : pl.hint with
    | none => simp [hhint] at hh
    | some h =>
      simp only
      cases h.file with
      | none => exact ⟨trivial, by simp, by simp, by simp, by simp, by simp, by simp, by simp, by simp [DLEnd.isEnded]⟩
      | some f =>
        simp only
        have hd := hintDateTime_sat F G.hintNoSegments pl
        cases hdt : hintDateTime F pl with
        | panic k => simp [hdt] at hd
        | wedge => simp [hdt] at hd
        | error e => exact ⟨trivial, by simp, by simp, by simp, by simp, by simp, by simp, by simp, by simp [DLEnd.isEnded]⟩
        | ok dt => exact ⟨trivial, by simp, by simp, by simp, by simp, by simp, by simp, by simp, by simp [DLEnd.isEnded]⟩
  | cons r rest ih =>
    intro pl hh
    unfold runLowLatency
    cases hhint : pl.hint with
    | none => simp [hhint] at hh
    | some h =>
      simp only
      cases h.file with
      | none => exact ⟨trivial, by simp, by simp, by simp, by simp, by simp, by simp, by simp, by simp [DLEnd.isEnded]⟩
      | some f =>
        simp only
        have hd := hintDateTime_sat F G.hintNoSegments pl
        cases hdt : hintDateTime F pl with
        | panic k => simp [hdt] at hd
        | wedge => simp [hdt] at hd
        | error e => exact ⟨trivial, by simp, by simp, by simp, by simp, by simp, by simp, by simp, by simp [DLEnd.isEnded]⟩
        | ok dt =>
          simp only
          have hm := asMedia_sat F G.streamPlaylistIsMedia r
          cases hmed : asMedia F r with
          | panic k => simp [hmed] at hm
          | wedge => simp [hmed] at hm
          | error e => exact ⟨trivial, by simp, by simp, by simp, by simp, by simp, by simp, by simp, by simp [DLEnd.isEnded]⟩
          | ok pl' =>
            simp only [G.hintDisappeared, Bool.true_and]
            split
            · split
              · exact ⟨trivial, by simp, by simp, by simp, by simp, by simp, by simp, by simp, by simp [DLEnd.isEnded]⟩
              · exact ⟨trivial, by simp, by simp, by simp, by simp, by simp, by simp, by simp, by simp [DLEnd.isEnded]⟩
            · rename_i hns
              simp only [List.length_cons]
              refine (ih pl' ?_).step _
              cases h' : pl'.hint with
              | none => simp [h'] at hns
              | some _ => rfl

theorem dlRun_sat (F : Flags) (G : DGuards F) (hdist : 0 < clientLiveInitialDistance) (first : MediaView) (initOK : Bool) (reloads : List PlResp) :
    (dlRun F first initOK reloads).sat (fun r => DLProps reloads.length r.2) := by
  unfold dlRun
  refine sat_bind (P := fun _ => True) ?_ ?_
  · cases first.map <;> simp [G.mapTestChecksNil]
  · intro isF _
    split
    · simp
    · refine sat_bind (P := fun ll => ll = true → first.hint.isSome = true) ?_ ?_
      · cases first.serverControl with
        | none => simp [G.llEntryChecksNil]
        | some p => obtain ⟨a, b⟩ := p; simp
      · intro ll hll
        simp only [sat_pure]
        cases ll with
        | true => simpa using runLowLatency_props F G reloads first (hll rfl)
        | false => simpa using runTraditional_props F G hdist first.vod reloads none first


/-! ### one client -/

/-- all guards the safety theorem needs -/
theorem Flags.Guarded.f {F : Flags} (G : F.Guarded) : FGuards F :=
  ⟨G.zeroTimeScale, G.filtersUnsupported, G.noLeadingDataFMP4, G.skipsUnknownPartTracks, G.chanPerSegment, G.checksConvKindFMP4⟩
theorem Flags.Guarded.t {F : Flags} (G : F.Guarded) : TGuards F := ⟨G.procNilTS, G.checksConvKindTS⟩
theorem Flags.Guarded.d {F : Flags} (G : F.Guarded) : DGuards F :=
  ⟨G.invPosNegative, G.idOutOfRange, G.vodNoSegments, G.segNil, G.hintDisappeared, G.hintNoSegments, G.streamPlaylistIsMedia,
   G.llEntryChecksNil, G.mapTestChecksNil⟩

/-- a stream processor that has not processed a segment yet -/
def SpStart : Started → Prop
  | .fmp4 s => FOK s ∧ s.procs = none
  | .ts _ st => st.procsReady = false

/-- invariant of a stream processor between two segments -/
def SpInv (sp : Started) (c : ClientSt) : Prop :=
  match sp with
  | .fmp4 s => FOK s ∧ (s.procs.isSome = true → IsFMP4 c)
  | .ts _ st => (st.procsReady = true → IsTS c)

def Started.isLeading : Started → Bool
  | .fmp4 s => s.isLeading
  | .ts s _ => s.isLeading

def Started.isTS : Started → Bool
  | .fmp4 _ => false
  | .ts _ _ => true

/-- the stream processor has created its track processors (and with them, on the leading stream, the time origin) -/
def HasOrigin : Started → Prop
  | .fmp4 s => s.procs.isSome = true
  | .ts _ st => st.procsReady = true

theorem SpStart.inv {sp : Started} (h : SpStart sp) (c : ClientSt) : SpInv sp c := by
  cases sp with
  | fmp4 s => exact ⟨h.1, by simp [h.2]⟩
  | ts s st => intro hr; simp [SpStart] at h; simp [h] at hr

theorem SpInv.conv {sp : Started} {c : ClientSt} (h : SpInv sp c) (ho : HasOrigin sp) : c.conv.isSome = true := by
  cases sp with
  | fmp4 s => obtain ⟨f, hf⟩ := h.2 ho; simp [hf]
  | ts s st => obtain ⟨t, ht⟩ := h ho; simp [ht]

theorem streamStart_sat (F : Flags) (G : F.Guarded) (isLeading : Bool) (firstIdx : Nat) (inp : StreamIn) (cont : Container)
    (tr : DLTrace) (htr : tr.fin.safe) :
    (streamStart F isLeading firstIdx inp cont tr).sat (fun sp => SpStart sp ∧ sp.isLeading = isLeading) := by
  unfold streamStart
  cases cont with
  | fmp4 =>
    simp only
    refine sat_bind (fmp4Start_sat F G.zeroTimeScale G.filtersUnsupported isLeading (!isLeading) (by cases isLeading <;> simp) firstIdx inp.init) ?_
    intro s hs
    simp only [sat_pure, SpStart, Started.isLeading]
    exact ⟨⟨hs.1, hs.2.1⟩, hs.2.2.1⟩
  | ts =>
    simp only
    split
    · split
      · simp
      · rename_i k hk
        simp [hk, DLEnd.safe] at htr
      · simp
    · split
      · refine sat_bind (tsStart_safe F isLeading firstIdx _) ?_
        intro s hs
        simp [SpStart, Started.isLeading, hs]
      · simp

theorem processPushes_sat (F : Flags) (G : F.Guarded) (htab : fromFMP4Decodable = true) (elapsed : Int) (files : List Payload)
    (pushes : List Push) :
    ∀ (sp : Started) (c : ClientSt), SpInv sp c → ConvOK c →
      (processPushes F elapsed files sp c pushes).sat (fun r => SpInv r.1 r.2.1 ∧ ConvOK r.2.1 ∧
        (c.conv.isSome = true → r.2.1.conv.isSome = true) ∧ r.1.isLeading = sp.isLeading ∧ r.1.isTS = sp.isTS ∧
        (HasOrigin sp → HasOrigin r.1) ∧ (sp.isTS = true → pushes ≠ [] → HasOrigin r.1)) := by
  induction pushes with
  | nil =>
    intro sp c h hc
    simp only [processPushes, sat_ok]
    exact ⟨h, hc, id, trivial, trivial, id, fun _ hne => absurd rfl hne⟩
  | cons p rest ih =>
    intro sp c h hc
    unfold processPushes
    cases sp with
    | fmp4 s =>
      simp only
      refine sat_bind (fmp4ProcessSegment_sat F G.f htab elapsed s h.1 c hc h.2 p.dateTime _) ?_
      rintro ⟨s1, c1, ev⟩ ⟨h1, h2, h3, h4, _, h6, h7⟩
      simp only at h1 h2 h3 h4 h6 h7 ⊢
      refine sat_bind (ih (.fmp4 s1) c1 ⟨h1, h3⟩ h2) ?_
      rintro ⟨sp2, c2, evs⟩ ⟨i1, i2, i3, i4, i5, i6, _⟩
      simp only [sat_pure] at i1 i2 i3 i4 i5 i6 ⊢
      refine ⟨i1, i2, fun hc0 => i3 (h6 hc0), ?_, ?_, fun ho => i6 (h7 ho), ?_⟩
      · simpa [Started.isLeading, h4] using i4
      · simpa [Started.isTS] using i5
      · intro hts; simp [Started.isTS] at hts
    | ts s st =>
      simp only
      split
      · rename_i pl _
        refine sat_bind (sat_and_post (tsProcessSegment_sat F G.t elapsed s st c ⟨h, hc⟩ p.dateTime pl.items)
          (tsProcessSegment_ready F G.noLeadingDataTS elapsed s st c p.dateTime pl.items)) ?_
        rintro ⟨st1, c1, ev⟩ ⟨⟨h1, _⟩, hready⟩
        simp only at h1 hready ⊢
        refine sat_bind (ih (.ts s st1) c1 h1.1 h1.2) ?_
        rintro ⟨sp2, c2, evs⟩ ⟨i1, i2, i3, i4, i5, i6, _⟩
        simp only [sat_pure] at i1 i2 i3 i4 i5 i6 ⊢
        have hc1 : c1.conv.isSome = true := by
          obtain ⟨t, ht⟩ := h1.1 hready
          simp [ht]
        have ho : HasOrigin sp2 := i6 hready
        refine ⟨i1, i2, fun _ => i3 hc1, ?_, ?_, fun _ => ho, fun _ _ => ho⟩
        · simpa [Started.isLeading] using i4
        · simpa [Started.isTS] using i5
      · simp

theorem streamEnd_sat (F : Flags) (hg : F.leadingEndNeedsOrigin = true) (sp : Started) :
    (streamEnd F sp).sat (fun _ => sp.isTS = false → sp.isLeading = true → HasOrigin sp) := by
  cases sp with
  | ts s st => simp [streamEnd, Started.isTS]
  | fmp4 s =>
    simp only [streamEnd, hg, Bool.true_and]
    split
    · simp
    · rename_i hn
      simp only [sat_ok, Started.isLeading, HasOrigin]
      intro _ hl
      cases hp : s.procs with
      | none => simp [hl, hp] at hn
      | some _ => rfl

/-- what `startAll` establishes for every stream -/
def StartedOK (x : StreamIn × Started × DLTrace) : Prop :=
  SpStart x.2.1 ∧ x.2.2.fin.safe ∧ (x.2.2.fin.isEnded = true → x.2.2.pushes ≠ [])

theorem processAll_sat (F : Flags) (G : F.Guarded) (htab : fromFMP4Decodable = true) (elapsed : Int)
    (started : List (StreamIn × Started × DLTrace)) :
    ∀ (first : Bool) (c : ClientSt), ConvOK c → (first = false → c.conv.isSome = true) → (∀ x ∈ started, StartedOK x) →
      (first = true → ∀ x, started.head? = some x → x.2.1.isLeading = true) →
      (processAll F elapsed first c started).sat (fun _ => True) := by
  induction started with
  | nil => intro first c _ _ _ _; simp [processAll]
  | cons x rest ih =>
    intro first c hc hconv hall hlead
    obtain ⟨inp, sp, tr⟩ := x
    unfold processAll
    have hx := hall (inp, sp, tr) (List.mem_cons_self ..)
    have hnw : (!first && c.conv.isNone && !tr.pushes.isEmpty) = false := by
      cases first with
      | true => simp
      | false =>
        have := hconv rfl
        cases hcv : c.conv with
        | none => simp [hcv] at this
        | some _ => simp
    simp only [hnw, Bool.false_eq_true, if_false]
    refine sat_bind (processPushes_sat F G htab elapsed inp.files tr.pushes sp c (hx.1.inv c) hc) ?_
    rintro ⟨sp1, c1, evs⟩ ⟨hinv1, hc1, hcv, hl1, hts1, _, hto⟩
    simp only at hinv1 hc1 hcv hl1 hts1 hto ⊢
    split
    · rename_i hended
      refine sat_bind (streamEnd_sat F G.leadingEndNeedsOrigin sp1) ?_
      intro _ hend
      have hpush : tr.pushes ≠ [] := hx.2.2 (by simp [hended, DLEnd.isEnded])
      have hc1some : c1.conv.isSome = true := by
        cases first with
        | false => exact hcv (hconv rfl)
        | true =>
          have hl : sp1.isLeading = true := by
            rw [hl1]; exact hlead rfl (inp, sp, tr) rfl
          cases hts : sp1.isTS with
          | true => exact hinv1.conv (hto (by rw [← hts1]; exact hts) hpush)
          | false => exact hinv1.conv (hend hts hl)
      refine sat_bind (ih false c1 hc1 (fun _ => hc1some) (fun y hy => hall y (List.mem_cons_of_mem _ hy))
        (by intro h; cases h)) ?_
      intro _ _
      simp
    · simp
    · simp
    · rename_i k hk
      have := hx.2.1
      simp [hk, DLEnd.safe] at this

theorem startAll_sat (F : Flags) (G : F.Guarded) (hdist : 0 < clientLiveInitialDistance) (streams : List StreamIn) :
    ∀ (sIdx firstIdx : Nat),
      (startAll F sIdx firstIdx streams).sat (fun l => (∀ x ∈ l, StartedOK x) ∧
        ∀ x, l.head? = some x → x.2.1.isLeading = (sIdx == 0)) := by
  induction streams with
  | nil => intro _ _; simp [startAll]
  | cons inp rest ih =>
    intro sIdx firstIdx
    unfold startAll
    refine sat_bind (asMedia_sat F G.streamPlaylistIsMedia inp.first) ?_
    intro first _
    refine sat_bind (dlRun_sat F G.d hdist first inp.initOK inp.reloads) ?_
    rintro ⟨cont, tr⟩ htr
    simp only at htr ⊢
    refine sat_bind (streamStart_sat F G (sIdx == 0) firstIdx inp cont tr htr.safe) ?_
    intro sp hsp
    refine sat_bind (ih (sIdx + 1) (firstIdx + sp.tracks.length)) ?_
    intro more hmore
    simp only [sat_pure]
    refine ⟨?_, ?_⟩
    · intro x hx
      cases List.mem_cons.mp hx with
      | inl h => subst h; exact ⟨hsp.1, htr.safe, htr.endedPushes⟩
      | inr h => exact hmore.1 x h
    · intro x hx
      simp only [List.head?_cons, Option.some.injEq] at hx
      subst hx
      exact hsp.2

theorem convOK_empty : ConvOK {} := by intro f hf; simp at hf

theorem runStreams_safe (F : Flags) (G : F.Guarded) (htab : fromFMP4Decodable = true) (hdist : 0 < clientLiveInitialDistance)
    (elapsed : Int) (ss : List StreamIn) : (runStreams F elapsed ss).safe := by
  unfold runStreams
  have hs := startAll_sat F G hdist ss 0 0
  cases hst : startAll F 0 0 ss with
  | panic k => simp [hst] at hs
  | wedge => simp [hst] at hs
  | error e => simp [Outcome.safe]
  | ok started =>
    simp only [hst, sat_ok] at hs
    simp only
    split
    · simp [Outcome.safe]
    · have hp := processAll_sat F G htab elapsed started true {} convOK_empty (by intro h; cases h) hs.1
        (fun _ x hx => by simpa using hs.2 x hx)
      cases hpa : processAll F elapsed true {} started with
      | panic k => simp [hpa] at hp
      | wedge => simp [hpa] at hp
      | error e => simp [Outcome.safe]
      | ok evs => simp only; split <;> simp [Outcome.safe]

theorem selectStreams_sat (F : Flags) (hg : F.noVariant = true) (prim : Primary) (streams : List StreamIn) :
    (selectStreams F prim streams).sat (fun _ => True) := by
  unfold selectStreams
  cases prim with
  | bad => simp
  | media => simp
  | multi leadingFound audio =>
    cases leadingFound with
    | false => simp [hg]
    | true =>
      cases audio with
      | none => simp
      | some b => cases b <;> simp <;> split <;> simp

theorem clientRun_safe (F : Flags) (G : F.Guarded) (htab : fromFMP4Decodable = true) (hdist : 0 < clientLiveInitialDistance)
    (elapsed : Int) (prim : Primary) (streams : List StreamIn) : (clientRun F elapsed prim streams).safe := by
  unfold clientRun
  have hs := selectStreams_sat F G.noVariant prim streams
  cases hsel : selectStreams F prim streams with
  | panic k => simp [hsel] at hs
  | wedge => simp [hsel] at hs
  | error e => simp [Outcome.safe]
  | ok ss => exact runStreams_safe F G htab hdist elapsed ss

end Hls.Robust
