import Hls.Robust.Lemmas
/-!
# Helper lemmas for `c13_error_or_skip` and the per-path statements of `c13_no_panic`
-/
namespace Hls.Robust
open Hls.Gen.Robust Res

theorem Res.sat_elim {α} {P : α → Prop} {r : Res α} (h : r.sat P) {a : α} (ha : r = .ok a) : P a := by
  subst ha; exact h

/-! ### per-path folds -/

theorem fmp4Segments_sat (F : Flags) (G : FGuards F) (htab : fromFMP4Decodable = true) (elapsed : Int)
    (segs : List (Option Int × Option Parts)) :
    ∀ (s : FStream) (c : ClientSt), FOK s → ConvOK c → (s.procs.isSome = true → IsFMP4 c) →
      (fmp4Segments F elapsed s c segs).sat (fun _ => True) := by
  induction segs with
  | nil => intro s c _ _ _; simp [fmp4Segments]
  | cons x rest ih =>
    intro s c hs hc hp
    obtain ⟨dt, payload⟩ := x
    unfold fmp4Segments
    refine sat_bind (fmp4ProcessSegment_sat F G htab elapsed s hs c hc hp dt payload) ?_
    rintro ⟨s1, c1, ev⟩ ⟨h1, h2, h3, _, _⟩
    simp only at h1 h2 h3 ⊢
    refine sat_bind (ih s1 c1 h1 h2 h3) ?_
    rintro ⟨s2, c2, evs⟩ _
    simp

theorem fmp4Path_safe (F : Flags) (G : FGuards F) (htab : fromFMP4Decodable = true) (elapsed : Int) (isLeading : Bool)
    (firstIdx : Nat) (init : Option (List InitTrack)) (c : ClientSt) (hc : ConvOK c) (segs : List (Option Int × Option Parts)) :
    (fmp4Path F elapsed isLeading firstIdx init c segs).safe := by
  apply sat_safe (P := fun _ => True)
  unfold fmp4Path
  refine sat_bind (fmp4Start_sat F G.zeroTimeScale G.filtersUnsupported isLeading (!isLeading) (by cases isLeading <;> simp) firstIdx init) ?_
  intro s hs
  exact fmp4Segments_sat F G htab elapsed segs s c hs.1 hc (by simp [hs.2.1])

theorem tsSegments_sat (F : Flags) (G : TGuards F) (elapsed : Int) (s : TStream) (segs : List (Option Int × List TSItem)) :
    ∀ (st : TSState) (c : ClientSt), TSInv st c → (tsSegments F elapsed s st c segs).sat (fun _ => True) := by
  induction segs with
  | nil => intro st c _; simp [tsSegments]
  | cons x rest ih =>
    intro st c h
    obtain ⟨dt, items⟩ := x
    unfold tsSegments
    refine sat_bind (tsProcessSegment_sat F G elapsed s st c h dt items) ?_
    rintro ⟨st1, c1, ev⟩ ⟨h1, _⟩
    simp only at h1 ⊢
    refine sat_bind (ih st1 c1 h1) ?_
    rintro ⟨st2, c2, evs⟩ _
    simp

theorem tsPath_safe (F : Flags) (G : TGuards F) (elapsed : Int) (isLeading : Bool) (firstIdx : Nat) (kinds : List String)
    (c : ClientSt) (hc : ConvOK c) (segs : List (Option Int × List TSItem)) :
    (tsPath F elapsed isLeading firstIdx kinds c segs).safe := by
  apply sat_safe (P := fun _ => True)
  unfold tsPath
  refine sat_bind (tsStart_safe F isLeading firstIdx kinds) ?_
  intro s _
  exact tsSegments_sat F G elapsed s segs {} c ⟨by intro h; simp at h, hc⟩

/-! ### exposed tracks carry a codec -/

/-- T1 obligation: every kind `initializeReader` keeps is one `FromMPEGTS` knows -/
def mpegtsSupportedKnown : Bool := mpegtsSupportedKinds.all fun k => (fromMPEGTS k).isSome

def TracksHaveCodec (ts : List Track) : Prop := ∀ t ∈ ts, t.codec.isSome = true

theorem fmp4Start_tracks (F : Flags) (hz : F.zeroTimeScale = true) (hf : F.filtersUnsupported = true) (isLeading rendition : Bool)
    (hr : isLeading = true ∨ rendition = true) (firstIdx : Nat) (init : Option (List InitTrack)) :
    (fmp4Start F isLeading rendition firstIdx init).sat (fun s => TracksHaveCodec s.tracks) := by
  refine sat_mono (fmp4Start_sat F hz hf isLeading rendition hr firstIdx init) ?_
  intro s hs t ht
  rw [hs.1.tracks] at ht
  simp only [buildTracks, List.mem_map] at ht
  obtain ⟨it, hit, rfl⟩ := ht
  exact (hs.1.init it hit).2

theorem tsStart_tracks (F : Flags) (htab : mpegtsSupportedKnown = true) (isLeading : Bool) (firstIdx : Nat) (kinds : List String) :
    (tsStart F isLeading firstIdx kinds).sat (fun s => TracksHaveCodec s.tracks) := by
  unfold tsStart
  simp only
  split
  · simp
  · split
    · simp
    · simp only [sat_ok]
      intro t ht
      simp only [List.mem_map, List.mem_filter] at ht
      obtain ⟨p, ⟨_, hk⟩, rfl⟩ := ht
      have := List.all_eq_true.mp htab p.2 (by simpa using hk)
      simpa using this

theorem streamStart_tracks (F : Flags) (hz : F.zeroTimeScale = true) (hf : F.filtersUnsupported = true)
    (htab : mpegtsSupportedKnown = true) (isLeading : Bool) (firstIdx : Nat) (inp : StreamIn) (cont : Container) (tr : DLTrace) :
    ∀ sp, streamStart F isLeading firstIdx inp cont tr = .ok sp → TracksHaveCodec sp.tracks := by
  intro sp hsp
  unfold streamStart at hsp
  cases cont with
  | fmp4 =>
    simp only at hsp
    have h := fmp4Start_tracks F hz hf isLeading (!isLeading) (by cases isLeading <;> simp) firstIdx inp.init
    cases hst : fmp4Start F isLeading (!isLeading) firstIdx inp.init with
    | ok s =>
      rw [hst] at hsp h
      simp only [Bind.bind, Res.bind, Pure.pure, Res.ok.injEq] at hsp
      subst hsp
      exact h
    | error e => rw [hst] at hsp; simp [Bind.bind, Res.bind] at hsp
    | panic k => rw [hst] at hsp; simp [Bind.bind, Res.bind] at hsp
    | wedge => rw [hst] at hsp; simp [Bind.bind, Res.bind] at hsp
  | ts =>
    simp only at hsp
    split at hsp
    · split at hsp <;> simp at hsp
    · split at hsp
      · rename_i pl _
        have h := tsStart_tracks F htab isLeading firstIdx pl.kinds
        cases hst : tsStart F isLeading firstIdx pl.kinds with
        | ok s =>
          rw [hst] at hsp h
          simp only [Bind.bind, Res.bind, Pure.pure, Res.ok.injEq] at hsp
          subst hsp
          exact h
        | error e => rw [hst] at hsp; simp [Bind.bind, Res.bind] at hsp
        | panic k => rw [hst] at hsp; simp [Bind.bind, Res.bind] at hsp
        | wedge => rw [hst] at hsp; simp [Bind.bind, Res.bind] at hsp
      · simp at hsp

theorem startAll_tracks (F : Flags) (hz : F.zeroTimeScale = true) (hf : F.filtersUnsupported = true)
    (htab : mpegtsSupportedKnown = true) (streams : List StreamIn) :
    ∀ (sIdx firstIdx : Nat) started, startAll F sIdx firstIdx streams = .ok started →
      ∀ x ∈ started, TracksHaveCodec x.2.1.tracks := by
  induction streams with
  | nil =>
    intro _ _ started h
    simp only [startAll, Res.ok.injEq] at h
    subst h
    intro x hx; simp at hx
  | cons inp rest ih =>
    intro sIdx firstIdx started h
    unfold startAll at h
    obtain ⟨first, _, h⟩ := Res.bind_eq_ok h
    obtain ⟨⟨cont, tr⟩, _, h⟩ := Res.bind_eq_ok h
    obtain ⟨sp, hsp, h⟩ := Res.bind_eq_ok h
    obtain ⟨more, hmore, h⟩ := Res.bind_eq_ok h
    simp only [Pure.pure, Res.ok.injEq] at h
    subst h
    intro x hx
    cases List.mem_cons.mp hx with
    | inl hx => subst hx; exact streamStart_tracks F hz hf htab _ _ inp cont tr sp hsp
    | inr hx => exact ih _ _ more hmore x hx

theorem trackView_codec {ts : List Track} (h : TracksHaveCodec ts) : ∀ v ∈ trackView ts, v.1.isSome = true := by
  intro v hv
  simp only [trackView, List.mem_map] at hv
  obtain ⟨t, ht, rfl⟩ := hv
  exact h t ht

theorem tracksHaveCodec_flatten {l : List (StreamIn × Started × DLTrace)} (h : ∀ x ∈ l, TracksHaveCodec x.2.1.tracks) :
    TracksHaveCodec (l.map fun x => x.2.1.tracks).flatten := by
  intro t ht
  simp only [List.mem_flatten, List.mem_map] at ht
  obtain ⟨ts, ⟨x, hx, rfl⟩, ht⟩ := ht
  exact h x hx t ht

/-- tracks shown to the application by an outcome -/
def Outcome.exposed : Outcome → List (Option String × Int)
  | .deliver ts _ => ts
  | .skip ts _ => ts
  | .error _ (some ts) => ts
  | _ => []

theorem runStreams_exposed (F : Flags) (hz : F.zeroTimeScale = true) (hf : F.filtersUnsupported = true)
    (htab : mpegtsSupportedKnown = true) (elapsed : Int) (ss : List StreamIn) :
    ∀ v ∈ (runStreams F elapsed ss).exposed, v.1.isSome = true := by
  unfold runStreams
  cases hst : startAll F 0 0 ss with
  | panic k => simp [Outcome.exposed]
  | wedge => simp [Outcome.exposed]
  | error e => simp [Outcome.exposed]
  | ok started =>
    have ht := tracksHaveCodec_flatten (startAll_tracks F hz hf htab ss 0 0 started hst)
    have hv := trackView_codec ht
    simp only
    split
    · simp [Outcome.exposed]
    · cases processAll F elapsed true {} started with
      | panic k => simp [Outcome.exposed]
      | wedge => simp [Outcome.exposed]
      | error e => simpa [Outcome.exposed] using hv
      | ok evs =>
        simp only
        split <;> simpa [Outcome.exposed] using hv

theorem clientRun_exposed (F : Flags) (hz : F.zeroTimeScale = true) (hf : F.filtersUnsupported = true)
    (htab : mpegtsSupportedKnown = true) (elapsed : Int) (prim : Primary) (streams : List StreamIn) :
    ∀ v ∈ (clientRun F elapsed prim streams).exposed, v.1.isSome = true := by
  unfold clientRun
  cases selectStreams F prim streams with
  | panic k => simp [Outcome.exposed]
  | wedge => simp [Outcome.exposed]
  | error e => simp [Outcome.exposed]
  | ok ss => exact runStreams_exposed F hz hf htab elapsed ss


/-! ### MPEG-TS: a segment without a call-back of the leading track -/

theorem tsProcessSample_found (F : Flags) (elapsed : Int) (s : TStream) (dateTime : Option Int) (st : TSState) (c : ClientSt)
    (i : Nat) (hl : (i == s.leadingIdx) = false) (rawPTS rawDTS : Int) (pid : Nat) :
    (tsProcessSample F elapsed s dateTime st c i rawPTS rawDTS pid).post
      (fun r => r.1.leadingTrackFound = st.leadingTrackFound) := by
  unfold tsProcessSample
  simp only [hl, Bool.false_eq_true, if_false]
  refine Res.post_bind (P := fun r => r.1 = st) (Res.post_pure rfl) ?_
  rintro ⟨st1, c1⟩ h1
  simp only at h1
  subst h1
  split
  · exact Res.post_pure rfl
  · refine Res.post_bind (Res.post_true _) ?_
    intro t _
    refine Res.post_bind (Res.post_true _) ?_
    intro _ _
    split
    · exact Res.post_panic
    · refine Res.post_bind (Res.post_true _) ?_
      intro ev _
      exact Res.post_pure rfl

theorem tsItems_found (F : Flags) (elapsed : Int) (s : TStream) (dateTime : Option Int) (items : List TSItem)
    (hno : ∀ it ∈ items, isLeadingSample s it = false) :
    ∀ (st : TSState) (c : ClientSt),
      (tsItems F elapsed s dateTime st c items).post (fun r => r.1.leadingTrackFound = st.leadingTrackFound) := by
  induction items with
  | nil => intro st c; simp only [tsItems]; exact Res.post_ok rfl
  | cons it rest ih =>
    intro st c
    have hrest : ∀ it ∈ rest, isLeadingSample s it = false := fun x hx => hno x (List.mem_cons_of_mem _ hx)
    have hit := hno it (List.mem_cons_self ..)
    cases it with
    | decodeError =>
      unfold tsItems
      refine Res.post_bind (ih hrest st c) ?_
      rintro ⟨st1, c1, evs⟩ h1
      exact Res.post_pure h1
    | sample track pts dts pid =>
      unfold tsItems
      simp only [isLeadingSample] at hit
      split
      · exact ih hrest st c
      · rename_i i hi
        simp only [hi] at hit
        split
        · rename_i hreg
          simp only [hreg, Bool.true_and] at hit
          refine Res.post_bind (tsProcessSample_found F elapsed s dateTime st c i hit pts dts pid) ?_
          rintro ⟨st1, c1, ev⟩ h1
          simp only at h1
          refine Res.post_bind (ih hrest st1 c1) ?_
          rintro ⟨st2, c2, evs⟩ h2
          simp only at h2
          exact Res.post_pure (h2.trans h1)
        · exact ih hrest st c

theorem tsProcessSegment_noLeading (F : Flags) (hg : F.noLeadingDataTS = true) (elapsed : Int) (s : TStream) (st : TSState)
    (c : ClientSt) (dateTime : Option Int) (items : List TSItem) (hno : ∀ it ∈ items, isLeadingSample s it = false) :
    ∀ r, tsProcessSegment F elapsed s st c dateTime items ≠ .ok r := by
  intro r hr
  unfold tsProcessSegment at hr
  obtain ⟨⟨st1, c1, evs⟩, h1, h2⟩ := Res.bind_eq_ok hr
  have := tsItems_found F elapsed s dateTime items hno _ c _ h1
  simp only at this h2
  simp [hg, this] at h2

end Hls.Robust
