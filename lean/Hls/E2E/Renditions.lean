import Hls.Gen.E2E
import Hls.E2E.Compose
import Hls.MvGen.Model
import Hls.Playlist.Multi
/-!
# How the client turns EXT-X-MEDIA entries into tracks (property C09, `c09_renditions`)

Executable model (core Lean) of the multivariant branch of `clientPrimaryDownloader.run`
(client_primary_downloader.go) and of the `Track` literal of `clientStreamProcessorFMP4.run`
(client_stream_processor_fmp4.go), over the value `playlist.Unmarshal` returns (`Hls.Playlist.Multivariant`,
the model of C14/C15):

* `pickLeading`      — `pickLeadingPlaylist`: variants whose CODECS pass `checkSupport`, the FIRST of greatest bandwidth;
* `renditionsByGroup`— `getRenditionsByGroup`;
* `clientStreams`    — the stream downloaders `run` creates: the chosen variant's own playlist (leading, no rendition), then,
                       when the variant names an audio group, one per rendition of that group that HAS a URI, in order
                       (a rendition without URI is skipped: its data travels in the variant's playlist);
* `trackAttrs`       — `Name / Language / IsDefault` of the tracks of a stream: copied from the rendition when the stream
                       is not the leading one, zero values otherwise.

Which fields are read is NOT typed here: `Hls.Gen.E2E.clientTrackCopies`, `clientVariantGroupField`,
`clientRenditionGroupField`, `clientRenditionSkipNilField`, `clientStreamLiterals` are regenerated from the Go source and
interpreted through the by-name accessors below, so a swapped or dropped field in the source changes the model.
`clientAbsoluteURL` (net/url) is not modelled: a stream is identified by the URI text of the playlist entry.

`embed` maps the muxer model's multivariant value (`Hls.MvGen.Multivariant`, strings) to the playlist model's
(character lists) — `Multivariant.Marshal`'s input as `generateMultivariantPlaylist` builds it.
-/
namespace Hls.E2E.Rend
open Hls.Gen Hls.Playlist

/-! ## fields by their Go names -/

def rendStr (f : String) (r : Rendition) : Str :=
  if f = "Name" then r.name else if f = "Language" then r.language else if f = "GroupID" then r.groupID
  else if f = "Type" then r.type else []

def rendBool (f : String) (r : Rendition) : Bool :=
  if f = "Default" then r.default else if f = "Autoselect" then r.autoselect else if f = "Forced" then r.forced else false

def rendOptStr (f : String) (r : Rendition) : Option Str :=
  if f = "URI" then r.uri else if f = "Channels" then r.channels else if f = "InStreamID" then r.inStreamID else none

def variantStr (f : String) (v : Variant) : Str :=
  if f = "Audio" then v.audio else if f = "Video" then v.video else if f = "Subtitles" then v.subtitles
  else if f = "ClosedCaptions" then v.closedCaptions else []

/-! ## clientPrimaryDownloader.run, multivariant branch -/

/-- `pickLeadingPlaylist`: `for … { if leadingPlaylist == nil || v.Bandwidth > leadingPlaylist.Bandwidth }` over the candidates -/
def pickLoop : Option Variant → List Variant → Option Variant
  | best, [] => best
  | none, v :: rest => pickLoop (some v) rest
  | some b, v :: rest => pickLoop (if v.bandwidth > b.bandwidth then some v else some b) rest

def pickLeading (vs : List Variant) : Option Variant :=
  pickLoop none (vs.filter fun v => Hls.E2E.checkSupport v.codecs)

/-- `getRenditionsByGroup` -/
def renditionsByGroup (rs : List Rendition) (groupID : Str) : List Rendition :=
  rs.filter fun r => rendStr E2E.clientRenditionGroupField r == groupID

/-- a `clientStreamDownloader` as far as the tracks' attributes depend on it -/
structure CStream where
  isLeading : Bool
  uri       : Str
  rendition : Option Rendition
  deriving DecidableEq, Repr

inductive Err
  | noSupportedVariant      -- "no variants with supported codecs found"
  | noGroup                 -- "no playlist with Group ID … found"
  deriving DecidableEq, Repr

/-- `isLeading` of the stream literal created for a rendition (third literal of `run`) -/
def renditionStreamIsLeading : Bool := (E2E.clientStreamLiterals.getD 2 (true, "")).1
/-- that literal's `rendition:` is the loop variable -/
def renditionStreamCarriesRendition : Bool := (E2E.clientStreamLiterals.getD 2 (true, "")).2 == "pl"

/-- the stream downloader `run` creates for one rendition of the group (`none`: skipped, no URI) -/
def renditionStream? (r : Rendition) : Option CStream :=
  match rendOptStr E2E.clientRenditionSkipNilField r with
  | none => none
  | some u => some { isLeading := renditionStreamIsLeading, uri := u,
                     rendition := if renditionStreamCarriesRendition then some r else none }

def clientStreams (p : Multivariant) : Except Err (List CStream) :=
  match pickLeading p.variants with
  | none => .error .noSupportedVariant
  | some lv =>
    let lead : CStream := { isLeading := true, uri := lv.uri, rendition := none }
    let group := variantStr E2E.clientVariantGroupField lv
    if group = [] then .ok [lead]
    else
      match renditionsByGroup p.renditions group with
      | [] => .error .noGroup
      | rs =>
        .ok (lead :: rs.filterMap renditionStream?)

/-! ## clientStreamProcessorFMP4.run: the `Track` literal -/

structure TrackAttrs where
  name      : Str
  language  : Str
  isDefault : Bool
  deriving DecidableEq, Repr

/-- the rendition field a `Track` field is copied from (`none`: the field is not copied at all) -/
def copySource (trackField : String) : Option String := E2E.clientTrackCopies.lookup trackField

/-- `func() string { if !p.isLeading { return p.rendition.X }; return "" }()`; a non-leading stream without rendition
    would be a nil dereference in Go — it does not occur (`clientStreams`), the model yields the zero value -/
def copiedStr (trackField : String) (s : CStream) : Str :=
  match copySource trackField, s.isLeading, s.rendition with
  | some src, false, some r => rendStr src r
  | _, _, _ => []

def copiedBool (trackField : String) (s : CStream) : Bool :=
  match copySource trackField, s.isLeading, s.rendition with
  | some src, false, some r => rendBool src r
  | _, _, _ => false

/-- `Name`, `Language`, `IsDefault` of every track of stream `s` -/
def trackAttrs (s : CStream) : TrackAttrs :=
  { name := copiedStr "Name" s, language := copiedStr "Language" s, isDefault := copiedBool "IsDefault" s }

/-! ## the muxer's value as `Multivariant.Marshal` receives it -/

def embedRendition (r : Hls.MvGen.Rendition) : Rendition :=
  { type := r.typ.toList, groupID := r.groupID.toList, name := r.name.toList, language := r.language.toList,
    autoselect := r.autoselect, default := r.default, uri := r.uri.map String.toList }

/-- `fr`: the FRAME-RATE value (the muxer model carries it as a token; any value) -/
def embedVariant (fr : Option F64) (v : Hls.MvGen.VariantEntry) : Variant :=
  { bandwidth := v.bandwidth, averageBandwidth := some v.averageBandwidth, codecs := v.codecs.map String.toList,
    resolution := v.resolution.toList, frameRate := fr, audio := v.audio.toList, uri := v.uri.toList }

def embed (fr : Option F64) (m : Hls.MvGen.Multivariant) : Multivariant :=
  { version := m.version, independentSegments := m.independentSegments, start := none,
    variants := m.variants.map (embedVariant fr), renditions := m.renditions.map embedRendition }

/-- what the muxer advertised for a rendition stream, as the client should report it -/
def advertised (s : Hls.MvGen.Stream) : TrackAttrs :=
  { name := s.name.toList, language := s.language.toList, isDefault := s.isDefault }

/-- the media playlist URI the muxer lists for a stream -/
def streamUri (q : String) (s : Hls.MvGen.Stream) : Str :=
  (Hls.MvGen.withQuery (Hls.MvGen.mediaPlaylistPath s.id) q).toList

end Hls.E2E.Rend
