import Hls.E2E.Renditions
import Hls.MvGen.LemmasSpec
/-!
# Helper lemmas for `c09_renditions` (core Lean)

What the client model (`Hls.E2E.Rend`) does with the embedded value of the muxer model
(`Hls.MvGen.generateWith`), in closed form.
-/
namespace Hls.E2E.Rend
open Hls.Gen Hls.Playlist Hls.MvGen

/-! ## the regenerated field names are the ones the proofs were written for -/

theorem gen_fields :
    E2E.clientTrackCopies = [("Name", "Name"), ("Language", "Language"), ("IsDefault", "Default")] ∧
    E2E.clientVariantGroupField = "Audio" ∧ E2E.clientRenditionGroupField = "GroupID" ∧
    E2E.clientRenditionSkipNilField = "URI" ∧
    E2E.clientStreamLiterals = [(true, "none"), (true, "none"), (false, "pl")] := by decide

theorem rendStr_group (r : Playlist.Rendition) : rendStr E2E.clientRenditionGroupField r = r.groupID := by
  have : E2E.clientRenditionGroupField = "GroupID" := by decide
  rw [this]; simp [rendStr]

theorem variantStr_group (v : Playlist.Variant) : variantStr E2E.clientVariantGroupField v = v.audio := by
  have : E2E.clientVariantGroupField = "Audio" := by decide
  rw [this]; simp [variantStr]

theorem rendOptStr_skip (r : Playlist.Rendition) : rendOptStr E2E.clientRenditionSkipNilField r = r.uri := by
  have : E2E.clientRenditionSkipNilField = "URI" := by decide
  rw [this]; simp [rendOptStr]

theorem rendition_literal : renditionStreamIsLeading = false ∧ renditionStreamCarriesRendition = true := by decide

/-- the client stream created for a rendition of the muxer -/
def cstreamOf (q : String) (s : Stream) : CStream :=
  { isLeading := false, uri := streamUri q s, rendition := some (embedRendition (toRendition q s)) }

/-- what the tracks of that stream report = what the muxer advertised -/
theorem trackAttrs_cstreamOf (q : String) (s : Stream) : trackAttrs (cstreamOf q s) = advertised s := by
  have h := gen_fields.1
  simp [trackAttrs, cstreamOf, copiedStr, copiedBool, copySource, h, List.lookup, rendStr, rendBool, embedRendition,
    toRendition, advertised]

/-- the tracks of the leading stream carry no rendition attribute -/
theorem trackAttrs_leading (u : Str) (r : Option Playlist.Rendition) :
    trackAttrs { isLeading := true, uri := u, rendition := r } = { name := [], language := [], isDefault := false } := by
  simp [trackAttrs, copiedStr, copiedBool]

/-! ## clientStreams -/

theorem clientStreams_congr (p p' : Playlist.Multivariant) (hv : p'.variants = p.variants) (hr : p'.renditions = p.renditions) :
    clientStreams p' = clientStreams p := by
  unfold clientStreams
  rw [hv, hr]

theorem pickLeading_single (v : Playlist.Variant) (h : Hls.E2E.checkSupport v.codecs = true) : pickLeading [v] = some v := by
  simp [pickLeading, h, pickLoop]

/-- every EXT-X-MEDIA entry of the muxer is in the group the variant names -/
theorem byGroup_all (q : String) (ss : List Stream) :
    renditionsByGroup (ss.map (fun s => embedRendition (toRendition q s))) MvGen.variantAudioGroup.toList =
      ss.map (fun s => embedRendition (toRendition q s)) := by
  unfold renditionsByGroup
  rw [List.filter_eq_self]
  intro r hr
  obtain ⟨s, _, rfl⟩ := List.mem_map.mp hr
  rw [rendStr_group]
  have : MvGen.variantAudioGroup = MvGen.renditionGroupID := by decide
  simp [embedRendition, toRendition, this]

/-- … and the ones with a URI are exactly those of the non-leading streams -/
theorem filterMap_streams (q : String) (ss : List Stream) :
    (ss.map (fun s => embedRendition (toRendition q s))).filterMap renditionStream? =
      (ss.filter (fun s => !s.isLeading)).map (cstreamOf q) := by
  induction ss with
  | nil => rfl
  | cons s rest ih =>
    simp only [List.map_cons, List.filterMap_cons, List.filter_cons]
    have h1 := rendition_literal.1
    have h2 := rendition_literal.2
    by_cases hl : s.isLeading = true
    · have : renditionStream? (embedRendition (toRendition q s)) = none := by
        unfold renditionStream?
        rw [rendOptStr_skip]
        simp [embedRendition, toRendition, hl]
      rw [this, ih]; simp [hl]
    · have hl' : s.isLeading = false := by simpa using hl
      have : renditionStream? (embedRendition (toRendition q s)) = some (cstreamOf q s) := by
        unfold renditionStream?
        rw [rendOptStr_skip]
        simp [embedRendition, toRendition, hl', h1, h2, cstreamOf, streamUri]
      rw [this, ih]; simp [hl']

/-- the muxer's renditions and the variant's audio group, from `foldl_populate_fields` -/
theorem generate_shape (v : Hls.MvGen.Variant) (streams : List Stream) (tracks : List Track) (q : String) (bw : Nat × Nat) :
    let m := generateWith v streams tracks q bw
    m.renditions = (streams.filter (·.isRendition)).map (toRendition q) ∧
    ∃ mv, m.variants = [mv] ∧
      mv.audio = (if streams.any (·.isRendition) then MvGen.variantAudioGroup else "") := by
  intro m
  obtain ⟨f1, _, f3, _, _, _, _, _⟩ :=
    foldl_populate_fields tracks q streams ({ bandwidth := bw.1, averageBandwidth := bw.2 }, [])
  refine ⟨?_, _, rfl, ?_⟩
  · show (streams.foldl (populate tracks q) _).2 = _
    rw [f1]; simp
  · show (streams.foldl (populate tracks q) _).1.audio = _
    rw [f3, foldl_audioStep]

/-- closed form of what the client opens for the muxer's multivariant value -/
theorem clientStreams_embed (fr : Option F64) (v : Hls.MvGen.Variant) (streams : List Stream) (tracks : List Track)
    (q : String) (bw : Nat × Nat)
    (hs : ∀ pv ∈ (embed fr (generateWith v streams tracks q bw)).variants, Hls.E2E.checkSupport pv.codecs = true) :
    ∃ lu, clientStreams (embed fr (generateWith v streams tracks q bw)) =
      .ok ({ isLeading := true, uri := lu, rendition := none } ::
           ((streams.filter (·.isRendition)).filter (fun s => !s.isLeading)).map (cstreamOf q)) := by
  obtain ⟨hr, mv, hmv, haud⟩ := generate_shape v streams tracks q bw
  have hvars : (embed fr (generateWith v streams tracks q bw)).variants = [embedVariant fr mv] := by
    simp [embed, hmv]
  have hrend : (embed fr (generateWith v streams tracks q bw)).renditions =
      (streams.filter (·.isRendition)).map (fun s => embedRendition (toRendition q s)) := by
    simp [embed, hr, List.map_map, Function.comp]
  have hsup : Hls.E2E.checkSupport (embedVariant fr mv).codecs = true := hs _ (by rw [hvars]; simp)
  refine ⟨(embedVariant fr mv).uri, ?_⟩
  unfold clientStreams
  rw [hvars, pickLeading_single _ hsup, hrend]
  simp only [variantStr_group]
  by_cases hany : streams.any (·.isRendition) = true
  · have ha : (embedVariant fr mv).audio = MvGen.variantAudioGroup.toList := by simp [embedVariant, haud, hany]
    have hne : MvGen.variantAudioGroup.toList ≠ [] := by decide
    rw [ha]
    simp only [hne, if_false]
    rw [byGroup_all]
    have hnonempty : (streams.filter (·.isRendition)).map (fun s => embedRendition (toRendition q s)) ≠ [] := by
      obtain ⟨s, hs1, hs2⟩ := List.any_eq_true.mp hany
      intro hnil
      have : s ∈ streams.filter (·.isRendition) := List.mem_filter.mpr ⟨hs1, hs2⟩
      rw [List.map_eq_nil_iff] at hnil
      rw [hnil] at this; simp at this
    generalize hl : (streams.filter (·.isRendition)).map (fun s => embedRendition (toRendition q s)) = l at hnonempty
    cases l with
    | nil => exact absurd rfl hnonempty
    | cons r rest =>
      simp only
      rw [← hl, filterMap_streams]
  · have hfalse : streams.any (·.isRendition) = false := by simpa using hany
    have ha : (embedVariant fr mv).audio = [] := by simp [embedVariant, haud, hfalse]
    have hf : streams.filter (·.isRendition) = [] := by
      rw [List.filter_eq_nil_iff]
      intro s hs1 hs2
      exact hany (List.any_eq_true.mpr ⟨s, hs1, hs2⟩)
    rw [ha, hf]
    simp

/-! ## when is the leading stream itself a rendition (finding F22) -/

theorem lead_rendition_iff {v : Hls.MvGen.Variant} {sc : Nat} {tracks : List Track} {streams : List Stream}
    (h : start v sc tracks = .ok streams) (hv : v ≠ .mpegts) :
    (∃ s ∈ streams, s.isLeading = true ∧ s.isRendition = true) ↔ (hasVideo tracks = false ∧ tracks.length > 1) := by
  have hc := streams_core h hv
  constructor
  · rintro ⟨s, hs, hl, hr⟩
    have hmem : s.core ∈ (tracks.zipIdx 0).map (coreOf tracks.length (hasVideo tracks)) := by
      rw [← hc]; exact List.mem_map_of_mem hs
    obtain ⟨ti, _, hti⟩ := List.mem_map.mp hmem
    have e1 : lead (hasVideo tracks) ti.1 ti.2 = true := by
      have := congrArg StreamCore.isLeading hti; simp [coreOf, Stream.core] at this; rw [this]; exact hl
    have e2 : rendTrack tracks.length (hasVideo tracks) ti.1 ti.2 = true := by
      have := congrArg StreamCore.isRendition hti; simp [coreOf, Stream.core] at this; rw [this]; exact hr
    unfold rendTrack at e2
    rw [e1] at e2
    simp only [Bool.not_true, Bool.false_or, Bool.and_eq_true, Bool.not_eq_true', decide_eq_true_eq] at e2
    unfold lead at e1
    rw [e2.1] at e1
    simp only [Bool.false_or, Bool.and_eq_true, Bool.not_eq_true', beq_iff_eq] at e1
    exact ⟨e1.1, e2.2⟩
  · rintro ⟨hnv, hlen⟩
    -- track 0 exists, is audio, leads, and is a rendition
    cases htr : tracks with
    | nil => rw [htr] at hlen; simp at hlen
    | cons t rest =>
      have hmem0 : (t, 0) ∈ tracks.zipIdx 0 := by rw [htr]; simp [List.zipIdx_cons]
      have haud : isVideo t.codec = false := by
        have : hasVideo tracks = false := hnv
        rw [htr] at this
        simp [hasVideo] at this
        exact this.1
      have hcore : coreOf tracks.length (hasVideo tracks) (t, 0) ∈ streams.map Stream.core := by
        rw [hc]; exact List.mem_map_of_mem hmem0
      obtain ⟨s, hs, hse⟩ := List.mem_map.mp hcore
      refine ⟨s, hs, ?_, ?_⟩
      · have := congrArg StreamCore.isLeading hse
        simp [coreOf, Stream.core, lead, hnv, haud] at this
        exact this
      · have := congrArg StreamCore.isRendition hse
        simp [coreOf, Stream.core, rendTrack, lead, hnv, haud, hlen] at this
        exact this

/-- a rendition stream's name, language as `Start` derives them from its track -/
theorem rendition_stream_track {v : Hls.MvGen.Variant} {sc : Nat} {tracks : List Track} {streams : List Stream}
    (h : start v sc tracks = .ok streams) (hv : v ≠ .mpegts) (s : Stream) (hs : s ∈ streams) (hr : s.isRendition = true) :
    ∃ ti ∈ tracks.zipIdx 0, s.id = streamId ti.1 ti.2 ∧
      s.name = (if ti.1.name ≠ "" then ti.1.name else streamId ti.1 ti.2) ∧ s.language = ti.1.language ∧
      s.isLeading = lead (hasVideo tracks) ti.1 ti.2 := by
  have hc := streams_core h hv
  have hmem : s.core ∈ (tracks.zipIdx 0).map (coreOf tracks.length (hasVideo tracks)) := by
    rw [← hc]; exact List.mem_map_of_mem hs
  obtain ⟨ti, hti, he⟩ := List.mem_map.mp hmem
  have hr' : rendTrack tracks.length (hasVideo tracks) ti.1 ti.2 = true := by
    have := congrArg StreamCore.isRendition he; simp [coreOf, Stream.core] at this; rw [this]; exact hr
  refine ⟨ti, hti, ?_, ?_, ?_, ?_⟩
  · have := congrArg StreamCore.id he; simp [coreOf, Stream.core] at this; exact this.symm
  · have := congrArg StreamCore.name he; simp [coreOf, Stream.core, hr'] at this; rw [← this]
    by_cases hn : ti.1.name = "" <;> simp [hn]
  · have := congrArg StreamCore.language he; simp [coreOf, Stream.core] at this; exact this.symm
  · have := congrArg StreamCore.isLeading he; simp [coreOf, Stream.core] at this; exact this.symm

theorem streamId_ne (t : Track) (i : Nat) : streamId t i ≠ "" := by
  unfold streamId
  intro h
  have := congrArg String.toList h
  simp at this

/-- a rendition is never advertised with an empty NAME -/
theorem rendition_name_ne {v : Hls.MvGen.Variant} {sc : Nat} {tracks : List Track} {streams : List Stream}
    (h : start v sc tracks = .ok streams) (hv : v ≠ .mpegts) (s : Stream) (hs : s ∈ streams) (hr : s.isRendition = true) :
    s.name.toList ≠ [] := by
  obtain ⟨ti, _, _, hn, _, _⟩ := rendition_stream_track h hv s hs hr
  intro hnil
  have he : s.name = "" := String.toList_eq_nil_iff.mp hnil
  rw [hn] at he
  by_cases hname : ti.1.name = ""
  · simp [hname] at he
    exact streamId_ne _ _ he
  · simp [hname] at he

end Hls.E2E.Rend
