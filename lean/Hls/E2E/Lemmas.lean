import Hls.E2E.Compose
import Hls.Client.TimeConvLemmas
/-!
# Helper lemmas for property C09 (core Lean only)

* arithmetic of the regenerated `multiplyAndDivide` under the muxer's `+10 s` offset,
* the running DTS of the client over a part-track the muxer built (`muxPartTrack`),
* prefix reasoning for `checkSupport`.
-/
namespace Hls.E2E
open Hls.Gen Hls.Gen.TimeConv Hls.Client.TimeConv Hls.Client.Process Hls.Client.TimeConvLemmas

/-! ## `multiplyAndDivide` and the offset -/

/-- adding whole multiples of the divisor to a non-negative value -/
theorem mulDiv_add_mul (b m d k : Int) (hb : 0 ≤ b) (hd : 0 < d) (hk : 0 ≤ k) :
    multiplyAndDivide (b + k * d) m d = multiplyAndDivide b m d + k * m := by
  unfold multiplyAndDivide
  simp only []
  have hkd : 0 ≤ k * d := Int.mul_nonneg hk (by omega)
  rw [Int.tdiv_eq_ediv_of_nonneg (by omega : 0 ≤ b + k * d), Int.tmod_eq_emod_of_nonneg (by omega : 0 ≤ b + k * d),
      Int.tdiv_eq_ediv_of_nonneg hb, Int.tmod_eq_emod_of_nonneg hb]
  rw [Int.add_mul_ediv_right _ _ (by omega : d ≠ 0), Int.add_mul_emod_self_right]
  rw [Int.add_mul]
  omega

/-- truncating division is odd: `multiplyAndDivide (−v) = −multiplyAndDivide v` -/
theorem mulDiv_neg (v m d : Int) : multiplyAndDivide (-v) m d = - multiplyAndDivide v m d := by
  unfold multiplyAndDivide
  simp only []
  rw [Int.neg_tdiv, Int.neg_tmod, Int.neg_mul, Int.neg_mul, Int.neg_tdiv]
  omega

/-- for a non-positive value `multiplyAndDivide b r ts = ⌈b·r / ts⌉` -/
theorem mulDiv_ceil (b r ts : Int) (hb : b ≤ 0) (hts : 0 < ts) (hr : 0 ≤ r) :
    (multiplyAndDivide b r ts - 1) * ts < b * r ∧ b * r ≤ multiplyAndDivide b r ts * ts := by
  have h := mulDiv_floor (-b) r ts (by omega) hts hr
  have e : multiplyAndDivide b r ts = - multiplyAndDivide (-b) r ts := by
    have := mulDiv_neg (-b) r ts
    rw [Int.neg_neg] at this
    exact this
  rw [e]
  generalize multiplyAndDivide (-b) r ts = q at h
  obtain ⟨h1, h2⟩ := h
  have e1 : -b * r = -(b * r) := Int.neg_mul b r
  have e2 : (-q - 1) * ts = -((q + 1) * ts) := by grind
  have e3 : -q * ts = -(q * ts) := Int.neg_mul q ts
  rw [e1] at h1 h2
  rw [e2, e3]
  omega

/-- `toTs fmp4StartDTS rate = 10·rate` exactly (the muxer's base-time offset, any rate) -/
theorem toTs_startDTS (r : Int) : Hls.Muxer.toTs Hls.Muxer.fmp4StartDTS r = 10 * r := by
  unfold Hls.Muxer.toTs Hls.Muxer.fmp4StartDTS Hls.Muxer.S durationToTimestamp multiplyAndDivide
  simp only []
  have h1 : Int.tdiv (10 * 1000000000) 1000000000 = 10 := by decide
  have h2 : Int.tmod (10 * 1000000000) 1000000000 = 0 := by decide
  rw [h1, h2]
  simp

/-- the true floor of `b·r/L` although `b` may be negative: what the client's origin is once the offset is removed -/
theorem offset_floor (b r L : Int) (hL : 0 < L) (hr : 0 ≤ r) (hB : 0 ≤ b + 10 * L) :
    (multiplyAndDivide (b + 10 * L) r L - 10 * r) * L ≤ b * r ∧
    b * r < (multiplyAndDivide (b + 10 * L) r L - 10 * r + 1) * L := by
  have h := mulDiv_floor (b + 10 * L) r L hB hL hr
  generalize multiplyAndDivide (b + 10 * L) r L = q at h
  obtain ⟨h1, h2⟩ := h
  have e1 : (b + 10 * L) * r = b * r + 10 * r * L := by grind
  have e2 : (q - 10 * r) * L = q * L - 10 * r * L := by grind
  have e3 : (q - 10 * r + 1) * L = (q + 1) * L - 10 * r * L := by grind
  rw [e1] at h1 h2
  rw [e2, e3]
  omega

/-! ## the client's running DTS over a muxer-built part-track -/

theorem mkSamples_length (off : Int) : ∀ (us : List WUnit) (next : Int), (mkSamples off us next).length = us.length := by
  intro us
  induction us with
  | nil => intro _; rfl
  | cons u rest ih => intro next; simp [mkSamples, ih]

/-- reference run: every unit paired with `e + (its DTS − u0)` -/
def runOf (off e u0 : Int) : List WUnit → Int → List (Sample × Int)
  | [], _ => []
  | u :: rest, next =>
    let nd := match rest with
      | [] => next
      | v :: _ => v.dts
    (decodeSample { dts := u.dts + off, ptsOff := u.ptsOff, sync := u.sync, pay := u.pay, size := u.size, ntp := u.ntp,
                    dur := (nd - u.dts) % 4294967296 }, e + (u.dts - u0)) :: runOf off e u0 rest next

theorem runOf_shift (off e u0 c : Int) : ∀ (us : List WUnit) (next : Int),
    runOf off (e + c) (u0 + c) us next = runOf off e u0 us next := by
  intro us
  induction us with
  | nil => intro _; rfl
  | cons u rest ih =>
    intro next
    simp only [runOf, ih]
    congr 2
    omega

/-- the client's running DTS over the samples the muxer built: `dts_k = e + (u_k.dts − u_0.dts)` — the sample
    durations (DTS differences) telescope -/
theorem withDts_mk (off : Int) : ∀ (us : List WUnit) (next e : Int), Mono us next →
    withDts e ((mkSamples off us next).map decodeSample) =
      runOf off e (firstDts us next) us next := by
  intro us
  induction us with
  | nil => intro _ _ _; rfl
  | cons u rest ih =>
    intro next e hm
    cases rest with
    | nil =>
      simp [mkSamples, withDts, runOf, firstDts]
    | cons v rest' =>
      obtain ⟨⟨h1, h2⟩, hm'⟩ := hm
      have hd : (v.dts - u.dts) % 4294967296 = v.dts - u.dts := Int.emod_eq_of_lt h1 h2
      have ih' := ih next (e + (v.dts - u.dts)) hm'
      simp only [mkSamples, List.map_cons, withDts, decodeSample, hd, firstDts] at ih' ⊢
      rw [ih']
      have := runOf_shift off e u.dts (v.dts - u.dts) (v :: rest') next
      have e1 : u.dts + (v.dts - u.dts) = v.dts := by omega
      rw [e1] at this
      simp only [runOf, decodeSample, hd] at this ⊢
      rw [this]
      simp

theorem runOf_mem (off e u0 : Int) : ∀ (us : List WUnit) (next : Int) (x : Sample × Int), x ∈ runOf off e u0 us next →
    ∃ u ∈ us, x.1.payload = u.pay ∧ x.1.ptsOffset = u.ptsOff ∧ x.2 = e + (u.dts - u0) := by
  intro us
  induction us with
  | nil => intro _ x h; simp [runOf] at h
  | cons u rest ih =>
    intro next x h
    simp only [runOf, List.mem_cons] at h
    rcases h with h | h
    · exact ⟨u, List.mem_cons_self, by simp [h, decodeSample], by simp [h, decodeSample], by simp [h]⟩
    · obtain ⟨w, hw, p⟩ := ih next x h
      exact ⟨w, List.mem_cons_of_mem _ hw, p⟩

/-- payload ids of the units whose converted PTS is not negative, in order -/
theorem runOf_payloads (off e u0 : Int) : ∀ (us : List WUnit) (next : Int),
    ((runOf off e u0 us next).filter (fun x => decide (0 ≤ x.2 + x.1.ptsOffset))).map (·.1.payload) =
      (us.filter (fun u => decide (0 ≤ e + (u.dts - u0) + u.ptsOff))).map (·.pay) := by
  intro us
  induction us with
  | nil => intro _; rfl
  | cons u rest ih =>
    intro next
    simp only [runOf, List.filter_cons, decodeSample]
    by_cases h : 0 ≤ e + (u.dts - u0) + u.ptsOff
    · simp [h, ih]
    · simp [h, ih]

/-! ## prefixes -/

theorem isPrefixOf_append (q p rest : List Char) (h : q.isPrefixOf p = true) : q.isPrefixOf (p ++ rest) = true := by
  rw [List.isPrefixOf_iff_prefix] at h ⊢
  exact h.trans (List.prefix_append p rest)

theorem supportedString_of_row (row : String × String × List Char × Bool) (h : rowSupported row = true)
    (s : List Char) (hs : if row.2.2.2 then s = row.2.2.1 else ∃ rest, s = row.2.2.1 ++ rest) :
    supportedString s = true := by
  unfold rowSupported at h
  by_cases hw : row.2.2.2 = true
  · simp only [hw, if_true] at h hs
    rw [hs]; exact h
  · have hw' : row.2.2.2 = false := by simpa using hw
    simp only [hw', Bool.false_eq_true, if_false] at h hs
    obtain ⟨rest, rfl⟩ := hs
    unfold supportedString
    rw [Bool.or_eq_true]
    left
    rw [List.any_eq_true] at h ⊢
    obtain ⟨q, hq, hp⟩ := h
    exact ⟨q, hq, isPrefixOf_append q _ rest hp⟩

theorem kindSupported_sound (k : String) (h : kindSupported k = true) (s : List Char) (hs : IsCodecString k s) :
    supportedString s = true := by
  unfold kindSupported at h
  rw [Bool.and_eq_true] at h
  obtain ⟨row, hrow, hk, hshape⟩ := hs
  have hall := List.all_eq_true.mp h.2 row hrow
  have : rowSupported row = true := by
    rcases Bool.or_eq_true _ _ |>.mp hall with h1 | h1
    · simp [hk] at h1
    · exact h1
  exact supportedString_of_row row this s hshape

/-! ## deliveries of a run -/

theorem deliveries_payloads (tr : TrackInfo) (e : Int) (ntp : Option Int) : ∀ (l : List (Sample × Int)),
    (l.filterMap (deliveryOf tr e ntp)).map (·.payload) =
      (l.filter (fun x => decide (0 ≤ x.2 + x.1.ptsOffset))).map (·.1.payload) := by
  intro l
  induction l with
  | nil => rfl
  | cons x rest ih =>
    simp only [List.filterMap_cons, List.filter_cons, deliveryOf]
    by_cases hx : x.2 + x.1.ptsOffset < 0
    · have : ¬ (0 ≤ x.2 + x.1.ptsOffset) := by omega
      simp [hx, this, ih]
    · have : 0 ≤ x.2 + x.1.ptsOffset := by omega
      simp [hx, this, ih]

/-! ## MPEG-TS tick arithmetic -/

/-- two truncated conversions to 90 kHz subtracted (what the client delivers) vs the exact difference, both
    written values non-negative: strictly within one tick — stated multiplied through by the two clock rates -/
theorem ts_diff_bounds (a p A b q B : Int) (hp : 0 < p) (hq : 0 < q)
    (ha : a * p ≤ A ∧ A < (a + 1) * p) (hb : b * q ≤ B ∧ B < (b + 1) * q) :
    (a - b - 1) * (p * q) < A * q - B * p ∧ A * q - B * p < (a - b + 1) * (p * q) := by
  obtain ⟨ha1, ha2⟩ := ha
  obtain ⟨hb1, hb2⟩ := hb
  have h1 : a * p * q ≤ A * q := Int.mul_le_mul_of_nonneg_right ha1 (by omega)
  have h2 : A * q < (a + 1) * p * q := Int.mul_lt_mul_of_pos_right ha2 hq
  have h3 : b * q * p ≤ B * p := Int.mul_le_mul_of_nonneg_right hb1 (by omega)
  have h4 : B * p < (b + 1) * q * p := Int.mul_lt_mul_of_pos_right hb2 hp
  have e1 : (a - b - 1) * (p * q) = a * p * q - (b + 1) * q * p := by grind
  have e2 : (a - b + 1) * (p * q) = (a + 1) * p * q - b * q * p := by grind
  rw [e1, e2]
  omega

/-! ## the muxer's PROGRAM-DATE-TIME -/

/-- every date-time the muxer model lists for a segment is the `startNTP` stored with that segment -/
theorem pdt_is_startNTP (st : Hls.Muxer.State) (si : Nat) (delta : Bool) (ps : Hls.Muxer.PlSeg)
    (h : ps ∈ (Hls.Muxer.mediaPlaylist st si delta).segments) (id : Nat) (v : Int)
    (hk : ps.key = some (.seg si id)) (hv : ps.pdt = some v) :
    ∃ g, Hls.Muxer.Entry.seg g ∈ (st.stream si).segments ∧ g.id = id ∧ v = g.startNTP := by
  unfold Hls.Muxer.mediaPlaylist at h
  split at h
  · simp only [List.mem_filterMap] at h
    obtain ⟨e, he, hps⟩ := h
    cases e with
    | gap d => simp at hps
    | seg g =>
      simp at hps
      subst hps
      simp at hk hv
      exact ⟨g, he, hk, hv.symm⟩
  · simp only [List.mem_filterMap] at h
    obtain ⟨⟨e, i⟩, he, hps⟩ := h
    have hmem : e ∈ (st.stream si).segments := (List.mem_zipIdx he).2.2 ▸ List.getElem_mem _
    have key : ∀ (rec : Hls.Muxer.PlSeg), rec = ps → rec.key = some (.seg si id) → rec.pdt = some v →
        ∀ g, e = .seg g → rec.key = some (.seg si g.id) → (rec.pdt = some g.startNTP ∨ rec.pdt = none) →
        ∃ g, Hls.Muxer.Entry.seg g ∈ (st.stream si).segments ∧ g.id = id ∧ v = g.startNTP := by
      intro rec _ h1 h2 g hg h3 h4
      rw [h3] at h1
      simp only [Option.some.injEq, Hls.Muxer.PathKey.seg.injEq, true_and] at h1
      rcases h4 with h4 | h4
      · rw [h4] at h2
        exact ⟨g, hg ▸ hmem, h1, (Option.some.inj h2).symm⟩
      · rw [h4] at h2; cases h2
    cases e with
    | gap d =>
      cases delta <;> simp at hps
      · subst hps; simp at hk
      · obtain ⟨_, hps⟩ := hps; subst hps; simp at hk
    | seg g =>
      cases delta <;> simp at hps
      · exact key _ hps (hps ▸ hk) (hps ▸ hv) g rfl (by simp) (by simp; omega)
      · obtain ⟨_, hps⟩ := hps
        exact key _ hps (hps ▸ hk) (hps ▸ hv) g rfl (by simp) (by simp; omega)

end Hls.E2E
