import Hls.Gen.E2E
import Hls.Muxer.Model
import Hls.Client.Process
/-!
# Muxer → container → Client: the glue between the two models (property C09)

Definitions only (core Lean, executable). The muxer model (`Hls.Muxer`) and the client model
(`Hls.Client.Process`) were built and validated separately; they meet in the *decoded container values*:
an fMP4 part-track is `(id, baseTime, samples (duration, ptsOffset, payload))`, an MPEG-TS unit is
`(track, pts, dts, payloads)`. mediacommon's `encode ∘ decode = id` on these values is the trusted step
(DESIGN §7.3), written down here as `decode*`.

* `decodePT / decodePart / decodeSegment` — what the client's `fmp4.Parts.Unmarshal` returns for what the muxer's
  `fmp4.Part.Marshal` wrote;
* `WUnit`, `muxPartTrack` — the part-track the muxer builds from consecutive written units of one track
  (the facts of C01: base time = first DTS + `toTs fmp4StartDTS rate`, sample duration = DTS difference to the
  successor stored as `uint32`); `Props/C09.lean` checks on a concrete run of `Hls.Muxer.run` that the model
  builds exactly these;
* `supportedString / checkSupport` — `checkSupport` of client_primary_downloader.go over the REGENERATED prefix
  lists; `IsCodecString` — the strings `codecparams.Marshal` can return for a codec kind (regenerated shapes);
* `CodecVal`, `convert` — the four conversion switches of pkg/codecs interpreted over the REGENERATED tables.
-/
namespace Hls.E2E
open Hls.Gen

/-! ## fMP4 container values -/

def decodeSample (s : Hls.Muxer.Sample) : Hls.Client.Process.Sample :=
  { payload := s.pay, duration := s.dur, ptsOffset := s.ptsOff }

def decodePT (pt : Hls.Muxer.PartTrack) : Hls.Client.Process.PartTrack :=
  { id := (pt.id : Int), baseTime := pt.baseTime, samples := pt.samples.map decodeSample }

def decodePart (p : Hls.Muxer.Part) : List Hls.Client.Process.PartTrack := p.content.map decodePT

/-- a stored segment (= the concatenation of its finalized parts) with the date-time the playlist gave it -/
def decodeSegment (dateTime : Option Int) (stored : List Hls.Muxer.Part) : Hls.Client.Process.Segment :=
  { dateTime := dateTime, parts := stored.map decodePart }

/-- one access unit as handed to `Write*` (DTS in the track's clock rate, before any offset) -/
structure WUnit where
  dts    : Int
  ptsOff : Int := 0
  sync   : Bool := true
  pay    : Nat
  size   : Nat := 0
  ntp    : Int := 0
  deriving Repr, DecidableEq

/-- `fmp4WriteSample` + `muxerPart.writeSample` on consecutive units `u₀ u₁ …` of one track, `next` = DTS of the
    unit that follows the last one: DTS shifted by `off`, `Duration = uint32(successor DTS − own DTS)`. -/
def mkSamples (off : Int) : List WUnit → Int → List Hls.Muxer.Sample
  | [], _ => []
  | u :: rest, next =>
    let nd := match rest with
      | [] => next
      | v :: _ => v.dts
    { dts := u.dts + off, ptsOff := u.ptsOff, sync := u.sync, pay := u.pay, size := u.size, ntp := u.ntp,
      dur := (nd - u.dts) % 4294967296 } :: mkSamples off rest next

/-- DTS of the first unit of a run (of the unit that follows, when the run is empty) -/
def firstDts (us : List WUnit) (next : Int) : Int :=
  match us with
  | [] => next
  | u :: _ => u.dts

/-- the part-track `muxerPart.finalize` emits for these units: `baseTime` = `fmp4StartDTS` of the track = offset DTS
    of the first sample of the part -/
def muxPartTrack (id : Nat) (rate : Int) (us : List WUnit) (next : Int) : Hls.Muxer.PartTrack :=
  let off := Hls.Muxer.toTs Hls.Muxer.fmp4StartDTS rate
  { id := id, baseTime := firstDts us next + off, samples := mkSamples off us next }

/-- well-formed writes of one track: DTS non-decreasing and consecutive units less than 2³² ticks apart
    (so that `uint32(duration)` is the duration) -/
def Mono : List WUnit → Int → Prop
  | [], _ => True
  | [u], next => 0 ≤ next - u.dts ∧ next - u.dts < 4294967296
  | u :: v :: rest, next => (0 ≤ v.dts - u.dts ∧ v.dts - u.dts < 4294967296) ∧ Mono (v :: rest) next

/-! ## `checkSupport` and the codec strings of `codecparams.Marshal` -/

/-- one string of a CODECS list passes `checkSupport` -/
def supportedString (s : List Char) : Bool :=
  E2E.checkSupportPrefixChars.any (fun p => p.isPrefixOf s) || E2E.checkSupportExactChars.contains s

/-- `checkSupport(codecs []string) bool` -/
def checkSupport (codecs : List (List Char)) : Bool := codecs.all supportedString

/-- `s` is a string `codecparams.Marshal` can return for codec kind `k` on its success path
    (regenerated: leftmost literal, and whether the literal is the whole string) -/
def IsCodecString (k : String) (s : List Char) : Prop :=
  ∃ row ∈ E2E.marshalShapes, row.1 = k ∧ (if row.2.2.2 then s = row.2.2.1 else ∃ rest, s = row.2.2.1 ++ rest)

/-- decidable table condition: the literal a `Marshal` case starts with (is) passes `checkSupport` whatever follows -/
def rowSupported (row : String × String × List Char × Bool) : Bool :=
  if row.2.2.2 then supportedString row.2.2.1
  else E2E.checkSupportPrefixChars.any (fun q => q.isPrefixOf row.2.2.1)

def kindSupported (k : String) : Bool :=
  E2E.marshalShapes.any (fun row => row.1 == k) &&
  E2E.marshalShapes.all (fun row => row.1 != k || rowSupported row)

/-- codec kinds the muxer can put into a container: the cases of `ToFMP4` (fMP4 variants) and `ToMPEGTS` -/
def muxerKindsFMP4 : List String := E2E.toFMP4.map (·.1)
def muxerKindsMPEGTS : List String := E2E.toMPEGTS.map (·.1)

/-! ## codec conversion switches over the regenerated tables -/

/-- a codec value: its Go type (kind) and its fields as opaque values -/
structure CodecVal where
  kind   : String
  fields : List (String × Nat)
  deriving DecidableEq, Repr

/-- one conversion switch: unknown kind ↦ `nil`; otherwise a value of the result kind whose fields are copied from
    the named source fields (a field the source lacks would be Go's zero value, 0) -/
def convert (tbl : List (String × String × List (String × String))) (v : CodecVal) : Option CodecVal :=
  match tbl.find? (fun row => row.1 == v.kind) with
  | none => none
  | some row => some { kind := row.2.1, fields := row.2.2.map fun f => (f.1, ((v.fields.lookup f.2).getD 0)) }

/-- a value of kind `k` with field values `val` (every field of the regenerated struct declaration) -/
def mkVal (k : String) (val : String → Nat) : CodecVal :=
  { kind := k, fields := ((E2E.codecStructs.lookup k).getD []).map fun f => (f, val f) }

/-- `FromFMP4 (ToFMP4 v)` -/
def roundTripFMP4 (v : CodecVal) : Option CodecVal := (convert E2E.toFMP4 v).bind (convert E2E.fromFMP4)
/-- `FromMPEGTS (ToMPEGTS v)` -/
def roundTripMPEGTS (v : CodecVal) : Option CodecVal := (convert E2E.toMPEGTS v).bind (convert E2E.fromMPEGTS)

/-- the time scale `generateAndCacheInitFile` declares for a codec kind (`fmp4TimeScale`), `sampleRate` = the MPEG-4
    audio configuration's -/
def initTimeScale (k : String) (sampleRate : Nat) : Nat :=
  match E2E.fmp4TimeScaleCases.lookup k with
  | some (some n) => n
  | some none => sampleRate
  | none => E2E.fmp4TimeScaleDefault

end Hls.E2E
