import Hls.E2E.Lemmas
import Hls.E2E.RenditionsLemmas
import Hls.Props.C10
import Hls.Props.C14Multi
import Hls.Props.C16
/-!
# C09 — A Client reading a Muxer reproduces the written stream

Property theorems only (glue definitions: `Hls/E2E/Compose.lean`; helper lemmas: `Hls/E2E/Lemmas.lean`; the two
halves: `Hls/Muxer/Model.lean` — validated against the real muxer by the `muxer` and `e2e` T2 streams — and
`Hls/Client/{TimeConv,Process}.lean` with the theorems of `Hls/Props/C10.lean`). Everything arithmetic is the
REGENERATED `Hls.Gen.Arith` / `Hls.Gen.TimeConv` code, every table is REGENERATED into `Hls.Gen.E2E`.

The composition goes through the decoded container values (`decodePT`, `muxTS`): mediacommon's
`decode ∘ encode = id` on them is the trusted step; the T2 stream `e2e` exercises it end to end with the real
`gohlslib.Client` reading the real `gohlslib.Muxer`.

Partial (DESIGN §6 C09): which unit is the first delivered one (attach time), real-time pacing, LL parts without a
sample of a rendition's only track (candidate F15) are explored by T2 only. `c09_fmp4_times` takes the shape of the
part-tracks the muxer builds (`muxPartTrack`: C01's `c01_offset_const / c01_durations / c01_contiguous`) as its
interface to the muxer model; the `example`s at the end run `Hls.Muxer.run` and check that shape on a concrete stream.
-/
namespace Hls.Props.C09
open Hls.Gen Hls.Gen.TimeConv Hls.Client.TimeConv Hls.Client.Process Hls.Client.TimeConvLemmas Hls.E2E

/-! ## the +10 s base-time offset cancels -/

/-- `b` = written DTS of the first delivered leading-track unit (leading clock rate `rv`), `ra` = clock rate of any
    track. The muxer adds `10·rate` to every base time (`toTs_startDTS`); the client subtracts
    `multiplyAndDivide (b + 10·rv) ra rv` from a base time at rate `ra`.
    * `b ≥ 0`: that is EXACTLY `multiplyAndDivide b ra rv + 10·ra` — the offset cancels for every track, not only the
      leading one (third clause: `convert` of an offset base time = the un-offset DTS minus the un-offset origin);
    * `b < 0` (stream started at a negative timestamp; the muxer keeps units with `b + 10·rv ≥ 0`): the two sides
      differ by at most one tick, `… − 1 ≤ lhs ≤ …`, Go's division truncating towards zero on the un-offset side. -/
theorem c09_offset_cancels (b ra rv : Int) (hrv : 0 < rv) (hra : 0 ≤ ra) :
    (0 ≤ b → multiplyAndDivide (b + 10 * rv) ra rv = multiplyAndDivide b ra rv + 10 * ra) ∧
    (b < 0 → 0 ≤ b + 10 * rv →
      multiplyAndDivide b ra rv + 10 * ra - 1 ≤ multiplyAndDivide (b + 10 * rv) ra rv ∧
      multiplyAndDivide (b + 10 * rv) ra rv ≤ multiplyAndDivide b ra rv + 10 * ra) ∧
    (0 ≤ b → ∀ d, fmp4Convert rv (b + Hls.Muxer.toTs Hls.Muxer.fmp4StartDTS rv)
                    (d + Hls.Muxer.toTs Hls.Muxer.fmp4StartDTS ra) ra = d - multiplyAndDivide b ra rv) := by
  refine ⟨fun hb => mulDiv_add_mul b ra rv 10 hb hrv (by omega), ?_, ?_⟩
  · intro hb hB
    have h1 := offset_floor b ra rv hrv hra hB
    have h2 := mulDiv_ceil b ra rv (by omega) hrv hra
    generalize multiplyAndDivide (b + 10 * rv) ra rv = Q at h1
    generalize multiplyAndDivide b ra rv = C at h2
    obtain ⟨f1, f2⟩ := h1
    obtain ⟨c1, c2⟩ := h2
    have a1 : (Q - 10 * ra) * rv ≤ C * rv := Int.le_trans f1 c2
    have a2 : (C - 1) * rv < (Q - 10 * ra + 1) * rv := Int.lt_trans c1 f2
    have b1 := Int.le_of_mul_le_mul_right a1 hrv
    have b2 := Int.lt_of_mul_lt_mul_right a2 (by omega)
    omega
  · intro hb d
    rw [toTs_startDTS, toTs_startDTS]
    simp only [fmp4Convert]
    rw [mulDiv_add_mul b ra rv 10 hb hrv (by omega)]
    omega

/-- non-vacuity, real numbers. Video 90 kHz, first delivered unit at DTS 123 456 789; AAC at 44.1 kHz and Opus at
    48 kHz: the offset cancels exactly … -/
example : multiplyAndDivide (123456789 + 10 * 90000) 44100 90000 = multiplyAndDivide 123456789 44100 90000 + 10 * 44100 ∧
    multiplyAndDivide (123456789 + 10 * 90000) 48000 90000 = multiplyAndDivide 123456789 48000 90000 + 10 * 48000 := by
  decide
/-- … and a stream that started at −7 s + 1 tick: the un-offset side truncates towards zero, the offset side floors:
    one tick apart (the bound of the second clause is attained) -/
example : multiplyAndDivide (-629999 + 10 * 90000) 44100 90000 = 132300 ∧
    multiplyAndDivide (-629999) 44100 90000 + 10 * 44100 = 132301 := by decide

/-! ## fMP4 variants: delivered times -/

/-- One part-track of a track at clock rate `r`, built by the muxer from consecutive written units `us`
    (`muxPartTrack`: base time = first DTS + `toTs fmp4StartDTS r`, durations = DTS differences), read by the client
    whose origin is the leading track's first delivered unit: written DTS `b0` at the leading clock rate `L`
    (converter `c`: time scale `L`, base time `b0 + toTs fmp4StartDTS L`). With `o` = the origin in this track's
    ticks:
    * exactly the units whose PTS does not precede the origin are delivered, once, in writing order, payload ids
      unchanged;
    * each with `dts = written DTS − o` and `pts = dts + PTS offset`;
    * `o = ⌊b0·r/L⌋` (true floor, also for negative `b0`): `0 ≤ b0·r/L − o < 1`, i.e. every delivered time is the
      written one minus the first delivered leading DTS converted to the track's clock rate, within ONE tick;
      for `b0 ≥ 0` `o` is Go's `multiplyAndDivide b0 r L`; for the leading rate (`r = L`) it is `b0` itself. -/
theorem c09_fmp4_times (procs : List (Int × TrackInfo)) (c : FMP4Conv) (L b0 r : Int) (hL : 0 < L) (hr : 0 ≤ r)
    (hB : 0 ≤ b0 + 10 * L) (hc1 : c.leadingTimeScale = L)
    (hc2 : c.leadingBaseTime = b0 + Hls.Muxer.toTs Hls.Muxer.fmp4StartDTS L)
    (id : Nat) (tr : TrackInfo) (hl : procs.lookup (id : Int) = some tr) (hrate : tr.clockRate = r)
    (us : List WUnit) (next : Int) (hm : Mono us next) :
    let ds := entrySpec procs c (decodePT (muxPartTrack id r us next))
    let o := multiplyAndDivide (b0 + 10 * L) r L - 10 * r
    ds.map (·.payload) = (us.filter (fun u => decide (0 ≤ u.dts - o + u.ptsOff))).map (·.pay) ∧
    (∀ d ∈ ds, ∃ u ∈ us, d.payload = u.pay ∧ d.dts = u.dts - o ∧ d.pts = d.dts + u.ptsOff ∧ d.track = tr.idx) ∧
    (o * L ≤ b0 * r ∧ b0 * r < (o + 1) * L) ∧
    (0 ≤ b0 → o = multiplyAndDivide b0 r L) ∧ (r = L → o = b0) := by
  intro ds o
  -- the entry DTS of the part-track
  have hbase : (decodePT (muxPartTrack id r us next)).baseTime =
      firstDts us next + 10 * r := by
    simp [decodePT, muxPartTrack, toTs_startDTS]
  have hds : ds = (runOf (10 * r) (firstDts us next - o)
      (firstDts us next) us next).filterMap
        (deliveryOf tr (firstDts us next - o)
          (ntpOf c (firstDts us next - o) tr.clockRate)) := by
    have e0 : fmp4Convert c.leadingTimeScale c.leadingBaseTime
        (decodePT (muxPartTrack id r us next)).baseTime tr.clockRate =
        firstDts us next - o := by
      rw [hbase, hc1, hc2, hrate, toTs_startDTS]
      simp only [fmp4Convert, o]
      omega
    have hid : (decodePT (muxPartTrack id r us next)).id = (id : Int) := rfl
    simp only [ds, entrySpec, hid, hl, e0]
    rw [expected_eq]
    have hs : (decodePT (muxPartTrack id r us next)).samples = (mkSamples (10 * r) us next).map decodeSample := by
      simp [decodePT, muxPartTrack, toTs_startDTS]
    rw [hs, withDts_mk (10 * r) us next _ hm]
  refine ⟨?_, ?_, ?_, ?_, ?_⟩
  · rw [hds, deliveries_payloads, runOf_payloads]
    congr 1
    apply List.filter_congr
    intro u _
    congr 1
    apply propext
    constructor <;> intro h <;> omega
  · intro d hd
    rw [hds] at hd
    obtain ⟨x, hx, hxd⟩ := List.mem_filterMap.mp hd
    obtain ⟨u, hu, p1, p2, p3⟩ := runOf_mem _ _ _ us next x hx
    obtain ⟨q1, q2, q3, q4, _, _⟩ := deliveryOf_props _ _ _ x d hxd
    refine ⟨u, hu, by rw [q2, p1], by rw [q3, p3]; omega, by rw [q4, q3, p2], q1⟩
  · exact offset_floor b0 r L hL hr hB
  · intro hb
    simp only [o]
    rw [mulDiv_add_mul b0 r L 10 hb hL (by omega)]
    omega
  · intro h
    subst h
    simp only [o]
    rw [mulDiv_self _ _ (by omega)]
    omega

/-! ## MPEG-TS variant: delivered times -/

/-- a unit as the muxer model stores it in an MPEG-TS segment (`tsWrite … (mulDiv op.pts 90000 rate) (mulDiv op.dts
    90000 rate)`): written PTS/DTS at the track's clock rate converted to 90 kHz by the regenerated `multiplyAndDivide` -/
structure WrittenTS where
  track : Nat
  rate  : Int
  pts   : Int
  dts   : Int
  pay   : Nat

def muxTS (w : WrittenTS) : TrueSample :=
  { track := w.track, pts := Hls.Muxer.mulDiv w.pts 90000 w.rate, dts := Hls.Muxer.mulDiv w.dts 90000 w.rate, payload := w.pay }

/-- First MPEG-TS segment read by the client (leading stream, origin not fixed yet): `x0` = first unit of the leading
    track, `pre` = units the demultiplexer hands over before it (dropped), `post` = what follows. Every unit from
    `x0` on whose PTS does not precede the origin is delivered once, in order, payload id unchanged, with
    `pts/dts = (written value converted to 90 kHz) − (written DTS of x0 converted to 90 kHz)`:
    * a track written at 90 kHz: the written value itself (conversion is the identity) — 90 kHz throughout;
    * another rate: each conversion truncates, `X·rate ≤ t·90000 < (X+1)·rate` for `t ≥ 0` (towards zero for `t ≤ 0`),
      so the delivered difference is strictly within one tick of the exact one when both written values are
      non-negative (`ts_diff_bounds`, last clause). -/
theorem c09_mpegts_times (s : TStream) (hl : s.isLeading = true) (st : TSState) (hr : st.procsReady = false)
    (dt : Option Int) (pre post : List WrittenTS) (x0 : WrittenTS)
    (hpre : ∀ x ∈ pre, (x.track == s.leadingIdx) = false) (hx0 : (x0.track == s.leadingIdx) = true)
    (hc : Close (muxTS x0).dts (chain ((x0 :: post).map muxTS))) :
    (∃ st' ds, tsProcessSegment s st { dateTime := dt, samples := ((pre ++ x0 :: post).map muxTS).map raw } = .ok (st', ds) ∧
      ds.map (·.payload) = (((x0 :: post).map muxTS).filter (fun x => decide (0 ≤ x.pts - (muxTS x0).dts))).map (·.payload) ∧
      (∀ d ∈ ds, ∃ w ∈ x0 :: post, d.track = s.firstIdx + w.track ∧ d.payload = w.pay ∧
          d.pts = multiplyAndDivide w.pts 90000 w.rate - multiplyAndDivide x0.dts 90000 x0.rate ∧
          d.dts = multiplyAndDivide w.dts 90000 w.rate - multiplyAndDivide x0.dts 90000 x0.rate ∧
          (w.rate = 90000 → x0.rate = 90000 → d.pts = w.pts - x0.dts ∧ d.dts = w.dts - x0.dts))) ∧
    (∀ t rate : Int, 0 < rate →
      (rate = 90000 → multiplyAndDivide t 90000 rate = t) ∧
      (0 ≤ t → multiplyAndDivide t 90000 rate * rate ≤ t * 90000 ∧ t * 90000 < (multiplyAndDivide t 90000 rate + 1) * rate) ∧
      (t ≤ 0 → (multiplyAndDivide t 90000 rate - 1) * rate < t * 90000 ∧ t * 90000 ≤ multiplyAndDivide t 90000 rate * rate)) ∧
    (∀ t rate t0 rate0 : Int, 0 < rate → 0 < rate0 → 0 ≤ t → 0 ≤ t0 →
      let D := multiplyAndDivide t 90000 rate - multiplyAndDivide t0 90000 rate0
      (D - 1) * (rate * rate0) < t * 90000 * rate0 - t0 * 90000 * rate ∧
      t * 90000 * rate0 - t0 * 90000 * rate < (D + 1) * (rate * rate0)) := by
  refine ⟨?_, ?_, ?_⟩
  · have hpre' : ∀ x ∈ pre.map muxTS, (x.track == s.leadingIdx) = false := by
      intro x hx
      obtain ⟨w, hw, rfl⟩ := List.mem_map.mp hx
      exact hpre w hw
    obtain ⟨st', ds, h1, h2, h3, _⟩ := Hls.Props.C10.c10_ts_all_delivered s hl st hr dt (pre.map muxTS) (post.map muxTS)
      (muxTS x0) hpre' hx0 (by simpa using hc)
    refine ⟨st', ds, by simpa using h1, by simpa using h2, ?_⟩
    intro d hd
    obtain ⟨x, hx, p1, p2, p3, p4⟩ := h3 d hd
    have hx' : x ∈ (x0 :: post).map muxTS := by simpa using hx
    obtain ⟨w, hw, rfl⟩ := List.mem_map.mp hx'
    refine ⟨w, hw, p1, p2, p3, p4, ?_⟩
    intro h1 h2
    rw [p3, p4]
    simp only [muxTS, Hls.Muxer.mulDiv, h1, h2]
    rw [mulDiv_self _ _ (by decide), mulDiv_self _ _ (by decide), mulDiv_self _ _ (by decide)]
    exact ⟨rfl, rfl⟩
  · intro t rate hrate
    refine ⟨fun h => by subst h; exact mulDiv_self _ _ (by decide), fun ht => ?_, fun ht => ?_⟩
    · exact mulDiv_floor t 90000 rate ht hrate (by decide)
    · exact mulDiv_ceil t 90000 rate ht hrate (by decide)
  · intro t rate t0 rate0 h1 h2 h3 h4 D
    exact ts_diff_bounds _ rate _ _ rate0 _ h1 h2 (mulDiv_floor t 90000 rate h3 h1 (by decide))
      (mulDiv_floor t0 90000 rate0 h4 h2 (by decide))

/-- non-vacuity: H264 at 90 kHz + AAC at 44.1 kHz, the audio unit written first is handed over first and dropped -/
def exTSs : TStream := { isLeading := true, firstIdx := 0, leadingIdx := 0 }
def exPre : List WrittenTS := [⟨1, 44100, 441000, 441000, 100⟩]
def exX0 : WrittenTS := ⟨0, 90000, 900000, 900000, 1⟩
def exPost : List WrittenTS := [⟨1, 44100, 442024, 442024, 101⟩, ⟨0, 90000, 903000, 903000, 2⟩, ⟨1, 44100, 443048, 443048, 102⟩]

example : (∀ x ∈ exPre, (x.track == exTSs.leadingIdx) = false) ∧ (exX0.track == exTSs.leadingIdx) = true ∧
    Close (muxTS exX0).dts (chain ((exX0 :: exPost).map muxTS)) := by
  refine ⟨by decide, by decide, ?_⟩
  simp [Close, chain, muxTS, exX0, exPost, Hls.Muxer.mulDiv, multiplyAndDivide]

/-- what the composed models deliver: video at 0 and 3000; audio 442024/44100 s = 902089.79… ticks → 2089 (exact
    2089.79…, within one tick), 443048/44100 s → 4179 (exact 4179.59…) -/
example : (match tsProcessSegment exTSs { conv := none }
      { dateTime := none, samples := ((exPre ++ exX0 :: exPost).map muxTS).map raw } with
    | .ok (_, ds) => ds.map (fun (d : Delivery) => (d.track, d.payload, d.pts, d.dts))
    | .error _ => []) = [(0, 1, 0, 0), (1, 101, 2089, 2089), (0, 2, 3000, 3000), (1, 102, 4179, 4179)] := by
  decide

/-! ## tracks -/

/-- `FromFMP4 ∘ ToFMP4 = id` on every codec kind and every field, decided on the regenerated type switches and
    struct declarations of pkg/codecs: for every struct type `k` of pkg/codecs (every implementation of `Codec`) and
    every assignment `val` of values to its fields, converting to the fMP4 codec and back yields the same value — the
    codec type and all codec parameters the muxer was given come out of the client's init-segment parser.
    MPEG-TS: codec types only (H264's parameter sets travel in-band; the MPEG-4 audio configuration survives).
    Table side conditions: `ToFMP4` has a case for every struct type (so the muxer can write every codec the library
    defines) and `ToMPEGTS` exactly for the two kinds `Muxer.Start` admits in that variant. -/
theorem c09_tracks :
    (∀ k ∈ E2E.codecStructs.map (·.1), ∀ val : String → Nat, roundTripFMP4 (mkVal k val) = some (mkVal k val)) ∧
    E2E.codecStructs.map (·.1) = ["AV1", "H264", "H265", "MPEG4Audio", "Opus", "VP9"] ∧
    (∀ k ∈ muxerKindsFMP4, k ∈ E2E.codecStructs.map (·.1)) ∧ (∀ k ∈ E2E.codecStructs.map (·.1), k ∈ muxerKindsFMP4) ∧
    muxerKindsMPEGTS = ["H264", "MPEG4Audio"] ∧
    (∀ k ∈ muxerKindsMPEGTS, ∀ val : String → Nat, ∃ w, roundTripMPEGTS (mkVal k val) = some w ∧ w.kind = k) ∧
    (∀ val : String → Nat, roundTripMPEGTS (mkVal "MPEG4Audio" val) = some (mkVal "MPEG4Audio" val)) := by
  refine ⟨?_, by decide, by decide, by decide, by decide, ?_, fun _ => rfl⟩
  · intro k hk val
    have hk' : k = "AV1" ∨ k = "H264" ∨ k = "H265" ∨ k = "MPEG4Audio" ∨ k = "Opus" ∨ k = "VP9" := by
      have : E2E.codecStructs.map (·.1) = ["AV1", "H264", "H265", "MPEG4Audio", "Opus", "VP9"] := by decide
      rw [this] at hk
      simpa using hk
    rcases hk' with rfl | rfl | rfl | rfl | rfl | rfl <;> rfl
  · intro k hk val
    have hk' : k = "H264" ∨ k = "MPEG4Audio" := by
      have : muxerKindsMPEGTS = ["H264", "MPEG4Audio"] := by decide
      rw [this] at hk
      simpa using hk
    rcases hk' with rfl | rfl
    · exact ⟨_, rfl, rfl⟩
    · exact ⟨_, rfl, rfl⟩

/-- non-vacuity: an H264 value with two distinguishable parameter sets, and a kind `FromFMP4` does not know -/
example : roundTripFMP4 { kind := "H264", fields := [("SPS", 7), ("PPS", 8)] } =
    some { kind := "H264", fields := [("SPS", 7), ("PPS", 8)] } := by decide
example : convert E2E.fromFMP4 { kind := "MPEG1Audio", fields := [] } = none := by decide
/-- the time scale the muxer declares in the init segment equals the clock rate its tracks are written with
    (`fmp4TimeScale`: the audio configuration's sample rate, 48 kHz for Opus, 90 kHz otherwise) -/
example : initTimeScale "MPEG4Audio" 44100 = 44100 ∧ initTimeScale "Opus" 0 = 48000 ∧ initTimeScale "H264" 0 = 90000 ∧
    initTimeScale "AV1" 0 = 90000 := by decide

/-! ## codec strings -/

/-- Every codec kind the muxer can put into a container (`ToFMP4` / `ToMPEGTS` cases) is advertised with a CODECS
    string (`codecparams.Marshal`, regenerated shape: leftmost literal, whole-string flag) that the client's variant
    selection accepts (`checkSupport`, regenerated prefix and exact-match lists) — whatever follows the prefix.
    Hence `checkSupport` accepts the CODECS list of every multivariant playlist the muxer generates.
    FALSE on the tree without the repair of F10 (`av01.` / `vp09.` missing from `checkSupport`): the `decide` below
    then fails, and removing any prefix from `checkSupport` breaks it again. -/
theorem c09_codecs_supported :
    (∀ k ∈ muxerKindsFMP4 ++ muxerKindsMPEGTS, ∀ s, IsCodecString k s → checkSupport [s] = true) ∧
    (∀ ss : List (List Char), (∀ s ∈ ss, ∃ k ∈ muxerKindsFMP4 ++ muxerKindsMPEGTS, IsCodecString k s) →
      checkSupport ss = true) := by
  have table : (muxerKindsFMP4 ++ muxerKindsMPEGTS).all kindSupported = true := by decide
  have one : ∀ k ∈ muxerKindsFMP4 ++ muxerKindsMPEGTS, ∀ s, IsCodecString k s → supportedString s = true :=
    fun k hk s hs => kindSupported_sound k (List.all_eq_true.mp table k hk) s hs
  refine ⟨fun k hk s hs => by simp [checkSupport, one k hk s hs], ?_⟩
  intro ss h
  unfold checkSupport
  rw [List.all_eq_true]
  intro s hs
  obtain ⟨k, hk, hks⟩ := h s hs
  exact one k hk s hks

/-- non-vacuity: the CODECS list of a muxer with AV1 video, AAC and Opus audio (strings as the real muxer printed them) -/
example : IsCodecString "AV1" "av01.0.08M.08.0.110.01.01.01.0".toList ∧ IsCodecString "MPEG4Audio" "mp4a.40.2".toList ∧
    IsCodecString "Opus" "opus".toList := by
  refine ⟨⟨("AV1", "av01.", "av01.".toList, false), by decide, rfl, ?_⟩,
    ⟨("MPEG4Audio", "mp4a.40.", "mp4a.40.".toList, false), by decide, rfl, ?_⟩,
    ⟨("Opus", "opus", "opus".toList, true), by decide, rfl, ?_⟩⟩
  · exact ⟨"0.08M.08.0.110.01.01.01.0".toList, by decide⟩
  · exact ⟨"2".toList, by decide⟩
  · simp
/-- … and strings that are not the muxer's are still rejected (the lists are not vacuous) -/
example : checkSupport ["mp4v.20.9".toList] = false ∧ checkSupport ["opus2".toList] = false := by decide

/-! ## AbsoluteTime -/

/-- Muxer side: every PROGRAM-DATE-TIME the muxer model lists for a segment is the `startNTP` stored with that segment
    (`createFirstSegment` / `rotateSegments` store the NTP that was written with the unit that opens the segment —
    C03's date-time theorem). Client side (`c10_ntp`): on a segment of the leading stream with date-time `N`, the
    first leading part-track built from units `us1` (first unit `u1`), a unit `u` of a part-track of the same (leading)
    track in that segment, not before `u1`, is delivered with
    `AbsoluteTime = N + toDur(u.dts − u1.dts)` up to ONE NANOSECOND (exactly when it sits in the first fragment):
    the offset and the origin cancel in the DTS distance. Far inside the property's millisecond resolution. -/
theorem c09_abs_time :
    (∀ (st : Hls.Muxer.State) (si : Nat) (delta : Bool) (ps : Hls.Muxer.PlSeg),
      ps ∈ (Hls.Muxer.mediaPlaylist st si delta).segments → ∀ id v, ps.key = some (.seg si id) → ps.pdt = some v →
      ∃ g, Hls.Muxer.Entry.seg g ∈ (st.stream si).segments ∧ g.id = id ∧ v = g.startNTP) ∧
    (∀ (s : FStream) (c0 : FMP4Conv) (procs : List (Int × TrackInfo)) (N L b0 : Int) (id : Nat) (tr : TrackInfo)
      (us1 us : List WUnit) (u1 : WUnit) (rest1 : List WUnit) (next1 next : Int),
      s.isLeading = true → leadRate s = L → 0 < L → 0 ≤ b0 + 10 * L →
      c0.leadingTimeScale = L → c0.leadingBaseTime = b0 + Hls.Muxer.toTs Hls.Muxer.fmp4StartDTS L →
      procs.lookup (id : Int) = some tr → tr.clockRate = L → us1 = u1 :: rest1 → Mono us next →
      (∀ u ∈ us, u1.dts ≤ u.dts) → firstDts us next ≥ u1.dts →
      ∀ d ∈ entrySpec procs (anchored s c0 (some N) (decodePT (muxPartTrack id L us1 next1)))
                 (decodePT (muxPartTrack id L us next)),
        ∃ u ∈ us, d.payload = u.pay ∧ ∃ n, d.ntp = some n ∧
          n ≤ N + timestampToDuration (u.dts - u1.dts) L ∧ N + timestampToDuration (u.dts - u1.dts) L ≤ n + 1) := by
  refine ⟨fun st si delta ps h id v hk hv => pdt_is_startNTP st si delta ps h id v hk hv, ?_⟩
  intro s c0 procs N L b0 id tr us1 us u1 rest1 next1 next hlead hLr hL hB hc1 hc2 hl hrate hus1 hm hge hfirst d hd
  -- delivered dts in terms of the written units
  have hc1' : (anchored s c0 (some N) (decodePT (muxPartTrack id L us1 next1))).leadingTimeScale = L := by
    simp [anchored, hlead, FMP4Conv.setNTP, hc1]
  have hc2' : (anchored s c0 (some N) (decodePT (muxPartTrack id L us1 next1))).leadingBaseTime =
      b0 + Hls.Muxer.toTs Hls.Muxer.fmp4StartDTS L := by
    simp [anchored, hlead, FMP4Conv.setNTP, hc2]
  obtain ⟨_, hmem, _, _, hself⟩ := c09_fmp4_times procs _ L b0 L hL (by omega) hB hc1' hc2' id tr hl hrate us next hm
  obtain ⟨u, hu, p1, p2, _, _⟩ := hmem d hd
  have ho : multiplyAndDivide (b0 + 10 * L) L L - 10 * L = b0 := hself rfl
  rw [ho] at p2
  refine ⟨u, hu, p1, ?_⟩
  -- c10_ntp on the same data
  have hpt : (decodePT (muxPartTrack id L us next)).id = (id : Int) := rfl
  have key := (Hls.Props.C10.c10_ntp s c0 N (decodePT (muxPartTrack id L us1 next1)) (decodePT (muxPartTrack id L us next))
    tr procs hlead (by rw [hpt]; exact hl)).2
  simp only [hLr] at key
  have hb1 : (decodePT (muxPartTrack id L us1 next1)).baseTime = u1.dts + 10 * L := by
    simp [decodePT, muxPartTrack, toTs_startDTS, hus1, firstDts]
  have hb0 : (decodePT (muxPartTrack id L us next)).baseTime = firstDts us next + 10 * L := by
    simp [decodePT, muxPartTrack, toTs_startDTS]
  have e1 : fmp4Convert c0.leadingTimeScale c0.leadingBaseTime (decodePT (muxPartTrack id L us1 next1)).baseTime L =
      u1.dts - b0 := by
    rw [hb1, hc1, hc2, toTs_startDTS]; simp only [fmp4Convert]; rw [mulDiv_self _ _ (by omega)]; omega
  have e0 : fmp4Convert c0.leadingTimeScale c0.leadingBaseTime (decodePT (muxPartTrack id L us next)).baseTime tr.clockRate =
      firstDts us next - b0 := by
    rw [hb0, hc1, hc2, hrate, toTs_startDTS]; simp only [fmp4Convert]; rw [mulDiv_self _ _ (by omega)]; omega
  rw [e1, e0] at key
  have hdge : firstDts us next ≤ u.dts := by
    cases us with
    | nil => cases hu
    | cons a rest =>
      -- non-decreasing DTS along `Mono`
      have mono_head : ∀ (l : List WUnit) (a : WUnit), Mono (a :: l) next → ∀ w ∈ a :: l, a.dts ≤ w.dts := by
        intro l
        induction l with
        | nil => intro a _ w hw; simp at hw; subst hw; omega
        | cons b l ih =>
          intro a hmono w hw
          obtain ⟨⟨h1, _⟩, hrest⟩ := hmono
          rcases List.mem_cons.mp hw with h | h
          · subst h; omega
          · have := ih b hrest w h; omega
      exact mono_head rest a hm u hu
  obtain ⟨n, hn, l1, l2, _⟩ := key hrate hL d hd (by omega) (by rw [p2]; omega)
  refine ⟨n, hn, ?_, ?_⟩
  · have : d.dts - (u1.dts - b0) = u.dts - u1.dts := by rw [p2]; omega
    rw [this] at l1; exact l1
  · have : d.dts - (u1.dts - b0) = u.dts - u1.dts := by rw [p2]; omega
    rw [this] at l2; exact l2

/-! ## non-vacuity: the two executable models composed on a concrete stream

H264 video at 90 kHz (leading), AAC at 44.1 kHz, Opus at 48 kHz; fMP4 variant, `SegmentMinDuration` 60 ms; the
first video unit is written at DTS 123 456 789 (≈ 1371.7 s), audio in step. The muxer model runs on the `Write*`
calls, the stored parts of its first two segments are decoded (`decodeSegment`) and handed to the client model. -/

def exCfg : Hls.Muxer.Cfg :=
  { variant := .fmp4, segmentCount := 3, segmentMinDur := 60000000, partMinDur := 0, segmentMaxSize := 0,
    tracks := [{ codec := .h264, clockRate := 90000 }, { codec := .aac, clockRate := 44100, sampleRate := 44100 },
               { codec := .opus, clockRate := 48000 }] }

/-- video every 3000 ticks (IDR every third unit, parameter sets on each IDR), AAC every 1024 ticks, Opus every 960 -/
def exOps : List Hls.Muxer.WriteOp :=
  let v (k : Nat) : Hls.Muxer.WriteOp :=
    { track := 0, pts := 123456789 + 3000 * k, dts := 123456789 + 3000 * k, ntp := 1700000000000000000 + 33333333 * k,
      ra := k % 3 == 0, par := if k % 3 == 0 then 1 else 0, pays := [100 + k], sizes := [50] }
  let a (k : Nat) : Hls.Muxer.WriteOp :=
    { track := 1, pts := 60493826 + 1024 * k, dts := 60493826 + 1024 * k, ntp := 1700000000000000000 + 23219954 * k,
      ra := true, pays := [200 + k], sizes := [9] }
  let o (k : Nat) : Hls.Muxer.WriteOp :=
    { track := 2, pts := 65843620 + 960 * k, dts := 65843620 + 960 * k, ntp := 1700000000000000000 + 20000000 * k,
      ra := true, pays := [300 + k], sizes := [9], durs := [960] }
  [v 0, a 0, o 0, a 1, o 1, v 1, a 2, o 2, v 2, a 3, o 3, o 4, v 3, a 4, o 5, a 5, v 4, o 6, a 6, o 7, v 5, a 7, o 8, v 6, a 8, o 9, a 9, v 7]

def exState : Option Hls.Muxer.State :=
  match Hls.Muxer.start exCfg with
  | .ok st => some (Hls.Muxer.run st exOps)
  | .error _ => none

/-- the stored parts of the listed segment `id` of stream `si` -/
def exStored (si id : Nat) : List Hls.Muxer.Part :=
  match exState with
  | some st => (match Hls.Muxer.get st (.seg si id) with | .segFMP4 ps => ps | _ => [])
  | none => []

/-- the muxer model builds exactly `muxPartTrack` values (shape assumed by `c09_fmp4_times`): video segment 0 holds the
    units written at DTS +0, +3000, +6000 (the IDR at +9000 opens segment 1). The AAC rendition's segment 0 holds units
    201 and 202: unit 200 reached the emit point before the leading track had opened the first segment (C01's start
    rule) and unit 203 was still the look-ahead when the segment was cut. -/
example : (exStored 0 0).map (·.content) =
      [[muxPartTrack 1 90000 [⟨123456789, 0, true, 100, 50, 1700000000000000000⟩,
                              ⟨123459789, 0, false, 101, 50, 1700000000033333333⟩,
                              ⟨123462789, 0, false, 102, 50, 1700000000066666666⟩] 123465789]] ∧
    (exStored 1 0).map (·.content) =
      [[muxPartTrack 1 44100 [⟨60494850, 0, true, 201, 9, 1700000000023219954⟩,
                              ⟨60495874, 0, true, 202, 9, 1700000000046439908⟩] 60496898]] ∧
    (exStored 2 0).map (·.content) =
      [[muxPartTrack 1 48000 [⟨65844580, 0, true, 301, 9, 1700000000020000000⟩, ⟨65845540, 0, true, 302, 9, 1700000000040000000⟩,
                              ⟨65846500, 0, true, 303, 9, 1700000000060000000⟩] 65847460]] := by
  decide +kernel

/-- the client model on the decoded segments: leading stream first (fixes the origin), then the two renditions -/
def exVideo : FStream := { isLeading := true, firstIdx := 0, init := [{ id := 1, timeScale := 90000, kind := "H264", isVideo := true }], leadingTrackID := 1 }
def exAac : FStream := { isLeading := false, firstIdx := 1, init := [{ id := 1, timeScale := 44100, kind := "MPEG4Audio", isVideo := false }], leadingTrackID := 1 }
def exOpus : FStream := { isLeading := false, firstIdx := 2, init := [{ id := 1, timeScale := 48000, kind := "Opus", isVideo := false }], leadingTrackID := 1 }

def exDeliveries : List (Nat × Nat × Int × Int) :=
  match exVideo.processSegment none (decodeSegment (some 1700000000000000000) (exStored 0 0)) with
  | .ok (_, conv, dv) =>
    (match exAac.processSegment conv (decodeSegment none (exStored 1 0)),
           exOpus.processSegment conv (decodeSegment none (exStored 2 0)) with
     | .ok (_, _, da), .ok (_, _, dop) => (dv ++ da ++ dop).map fun d => (d.track, d.payload, d.pts, d.dts)
     | _, _ => [])
  | .error _ => []

/-- Delivered: video at 0 / 3000 / 6000 (written DTS − 123 456 789); AAC: origin ⌊123456789·44100/90000⌋ = 60493826
    (exact 60493826.61), units 201 / 202 at 1024 / 2048; Opus: origin ⌊123456789·48000/90000⌋ = 65843620 (exact
    65843620.8), units at 960 / 1920 / 2880. The +10 s offset of every base time is gone. -/
example : exDeliveries =
    [(0, 100, 0, 0), (0, 101, 3000, 3000), (0, 102, 6000, 6000),
     (1, 201, 1024, 1024), (1, 202, 2048, 2048),
     (2, 301, 960, 960), (2, 302, 1920, 1920), (2, 303, 2880, 2880)] := by
  decide +kernel

/-- the hypotheses of `c09_fmp4_times` / `c09_abs_time` are met by this stream (`Mono`, non-negative offset base) -/
example : Mono [⟨60494850, 0, true, 201, 9, 0⟩, ⟨60495874, 0, true, 202, 9, 0⟩] 60496898 ∧
    (0 : Int) ≤ 123456789 + 10 * 90000 := by
  refine ⟨⟨⟨by decide, by decide⟩, by decide, by decide⟩, by decide⟩

/-! ## renditions: name, language, default flag

Muxer model (`Hls.MvGen.start` + `generateWith`, the model of C16) → `Multivariant.Marshal` → text →
`Multivariant.Unmarshal` (the character-level models and round-trip theorem of C14) → client model
(`Hls.E2E.Rend.clientStreams / trackAttrs`, mirroring the multivariant branch of `clientPrimaryDownloader.run` and the
`Track` literal of `clientStreamProcessorFMP4.run`; which fields are read is regenerated: `Hls.Gen.E2E.clientTrackCopies`
…). The composition goes THROUGH THE TEXT: the hypothesis `WFMultivariant` is C14's documented field requirements on the
value the muxer hands to `Marshal` (names / languages / URIs without `"`, CR, LF; bandwidths below 2³¹; a frame rate that
survives three decimals; …); `checkSupport` on the variant's CODECS is `c09_codecs_supported`. -/

/-- T1 tie of the client half: the fields `clientStreamProcessorFMP4.run` copies from the rendition (and only when the
    stream is not the leading one), the group lookup of `clientPrimaryDownloader.run`, its skip of URI-less renditions and
    its stream literals are the regenerated ones the model interprets; `getRenditionsByGroup` and `pickLeadingPlaylist`,
    mirrored by hand in `Hls/E2E/Renditions.lean`, have the pinned source text. -/
theorem c09_rendition_source :
    E2E.clientTrackCopies = [("Name", "Name"), ("Language", "Language"), ("IsDefault", "Default")] ∧
    E2E.clientTrackPlainFields = ["Codec", "ClockRate"] ∧
    E2E.clientVariantGroupField = "Audio" ∧ E2E.clientRenditionGroupField = "GroupID" ∧
    E2E.clientRenditionSkipNilField = "URI" ∧
    E2E.clientStreamLiterals = [(true, "none"), (true, "none"), (false, "pl")] ∧
    E2E.clientRenditionPins = [("getRenditionsByGroup", "e5645caad42e856f"), ("pickLeadingPlaylist", "3bce94b2d6ca1473")] := by
  decide

/-- For every track layout `Start` accepts (fMP4 variants; the MPEG-TS variant has no renditions, `c16_renditions`):
    * the client opens the variant's own playlist first (leading stream) and then exactly one stream per rendition stream
      of the muxer that is not the leading one, in order, under the URI the muxer listed for it;
    * the tracks of each such stream report exactly what the muxer advertised for it — NAME = the user's name or the stream
      id (`audio<i+1>`), LANGUAGE, DEFAULT as `Start` assigned them (`c16_renditions`, `c16_one_default` say which);
    * the tracks of the leading stream report no attribute at all.
    Known exception, exactly (finding F22): the leading stream is itself advertised as a rendition — an EXT-X-MEDIA entry
    WITHOUT URI — iff the muxer has no video track and more than one track; that entry (never with an empty NAME) has no
    stream of its own, its attributes are reported by NO track: the client's leading stream reports the zero values. -/
theorem c09_renditions (v : Hls.MvGen.Variant) (sc : Nat) (tracks : List Hls.MvGen.Track)
    (streams : List Hls.MvGen.Stream) (q : String) (bw : Nat × Nat) (fr : Option Hls.Playlist.F64)
    (h : Hls.MvGen.start v sc tracks = .ok streams) (hv : v ≠ .mpegts) :
    let m := Hls.MvGen.generateWith v streams tracks q bw
    let p := Rend.embed fr m
    Hls.Playlist.WFMultivariant p → (∀ pv ∈ p.variants, checkSupport pv.codecs = true) →
    ∃ p' cs, Hls.Playlist.Multivariant.unmarshal p.marshal = .ok p' ∧ Rend.clientStreams p' = .ok cs ∧
      (∃ c0 rest, cs = c0 :: rest ∧ c0.isLeading = true ∧
        rest = ((streams.filter (·.isRendition)).filter (fun s => !s.isLeading)).map (Rend.cstreamOf q)) ∧
      (∀ s ∈ streams, s.isRendition = true → s.isLeading = false →
        ∃ c ∈ cs, c.isLeading = false ∧ c.uri = Rend.streamUri q s ∧ Rend.trackAttrs c = Rend.advertised s) ∧
      (∀ s ∈ streams, s.isRendition = true → ∃ ti ∈ tracks.zipIdx 0, s.id = Hls.MvGen.streamId ti.1 ti.2 ∧
        s.name = (if ti.1.name ≠ "" then ti.1.name else Hls.MvGen.streamId ti.1 ti.2) ∧ s.language = ti.1.language) ∧
      (∀ c ∈ cs, c.isLeading = true → Rend.trackAttrs c = { name := [], language := [], isDefault := false }) ∧
      ((∃ s ∈ streams, s.isLeading = true ∧ s.isRendition = true) ↔
        (Hls.MvGen.hasVideo tracks = false ∧ tracks.length > 1)) ∧
      (∀ s ∈ streams, s.isLeading = true → s.isRendition = true →
        Hls.MvGen.toRendition q s ∈ m.renditions ∧ (Hls.MvGen.toRendition q s).uri = none ∧
        (Rend.advertised s).name ≠ [] ∧ ∀ c ∈ cs, c.isLeading = true → Rend.trackAttrs c ≠ Rend.advertised s) := by
  intro m p hwf hsup
  obtain ⟨p', hun, _, _, _, hvar, hrend⟩ := Hls.Props.C14Multi.c14_multivariant_roundtrip p hwf
  obtain ⟨lu, hcs⟩ := Rend.clientStreams_embed fr v streams tracks q bw hsup
  have hcs' : Rend.clientStreams p' = _ := (Rend.clientStreams_congr p p' hvar hrend).trans hcs
  refine ⟨p', _, hun, hcs', ⟨_, _, rfl, rfl, rfl⟩, ?_, ?_, ?_, Rend.lead_rendition_iff h hv, ?_⟩
  · intro s hs hr hl
    refine ⟨Rend.cstreamOf q s, ?_, rfl, rfl, Rend.trackAttrs_cstreamOf q s⟩
    apply List.mem_cons_of_mem
    apply List.mem_map_of_mem
    exact List.mem_filter.mpr ⟨List.mem_filter.mpr ⟨hs, hr⟩, by simp [hl]⟩
  · intro s hs hr
    obtain ⟨ti, hti, h1, h2, h3, _⟩ := Rend.rendition_stream_track h hv s hs hr
    exact ⟨ti, hti, h1, h2, h3⟩
  · intro c hc hl
    rcases List.mem_cons.mp hc with rfl | hc
    · exact Rend.trackAttrs_leading _ _
    · obtain ⟨s, _, rfl⟩ := List.mem_map.mp hc
      simp [Rend.cstreamOf] at hl
  · intro s hs hl hr
    have hshape := (Rend.generate_shape v streams tracks q bw).1
    have hname := Rend.rendition_name_ne h hv s hs hr
    refine ⟨?_, by simp [Hls.MvGen.toRendition, hl], hname, ?_⟩
    · show _ ∈ (Hls.MvGen.generateWith v streams tracks q bw).renditions
      rw [hshape]
      exact List.mem_map_of_mem (List.mem_filter.mpr ⟨hs, hr⟩)
    · intro c hc hcl
      have hz : Rend.trackAttrs c = { name := [], language := [], isDefault := false } := by
        rcases List.mem_cons.mp hc with rfl | hc
        · exact Rend.trackAttrs_leading _ _
        · obtain ⟨s', _, rfl⟩ := List.mem_map.mp hc
          simp [Rend.cstreamOf] at hcl
      rw [hz]
      intro he
      apply hname
      have := congrArg Rend.TrackAttrs.name he
      simpa [Rend.advertised] using this.symm

/-! ### non-vacuity and the witness of F22 -/

/-- video + two audio tracks (fMP4), query `a=b`: the value handed to `Marshal` meets C14's field requirements, its CODECS
    pass `checkSupport` … -/
def exRendTracks : List Hls.MvGen.Track :=
  [{ codec := .h264, params := .h264 0x42 0xc0 0x28, res := "1920x1080" },
   { codec := .mpeg4audio, params := .mpeg4audio 2, language := "en" },
   { codec := .opus, params := .opus, name := "German", language := "de", isDefault := true }]

def exRendValue (tracks : List Hls.MvGen.Track) : Option Hls.Playlist.Multivariant :=
  match Hls.MvGen.start .fmp4 3 tracks with
  | .ok ss => some (Rend.embed none (Hls.MvGen.generateWith .fmp4 ss tracks "a=b" (70000, 50000)))
  | .error _ => none

/-- what the client model reports per stream it opens, after `Unmarshal (Marshal value)`: (leading?, URI, NAME, LANGUAGE, DEFAULT) -/
def exRendReport (tracks : List Hls.MvGen.Track) : List (Bool × String × String × String × Bool) :=
  match exRendValue tracks with
  | none => []
  | some p =>
    match Hls.Playlist.Multivariant.unmarshal p.marshal with
    | .ok p' =>
      (match Rend.clientStreams p' with
       | .ok cs => cs.map fun c =>
           let a := Rend.trackAttrs c
           (c.isLeading, String.ofList c.uri, String.ofList a.name, String.ofList a.language, a.isDefault)
       | .error _ => [])
    | .error _ => []

example : (match exRendValue exRendTracks with
    | some p => decide (Hls.Playlist.WFMultivariant p) && p.variants.all (fun pv => checkSupport pv.codecs)
    | none => false) = true := by decide +kernel

/-- … and the two renditions come out of the client as advertised: `audio2` (stream id, no user name) / `en`, and
    `German` / `de` / DEFAULT -/
example : exRendReport exRendTracks =
    [(true, "video1_stream.m3u8?a=b", "", "", false),
     (false, "audio2_stream.m3u8?a=b", "audio2", "en", false),
     (false, "audio3_stream.m3u8?a=b", "German", "de", true)] := by decide +kernel

/-- WITNESS of the exception (F22): an audio-only muxer with two tracks. The muxer advertises the leading track as
    `NAME="main",LANGUAGE="en",DEFAULT=YES` without URI … -/
def exF22Tracks : List Hls.MvGen.Track :=
  [{ codec := .mpeg4audio, params := .mpeg4audio 2, name := "main", language := "en", isDefault := true },
   { codec := .opus, params := .opus, name := "alt1", language := "it" }]

example : (Hls.MvGen.start .fmp4 3 exF22Tracks).map (fun ss =>
      (Hls.MvGen.generateWith .fmp4 ss exF22Tracks "" (7, 5)).renditions.map (fun r => (r.name, r.language, r.default, r.uri))) =
    .ok [("main", "en", true, none), ("alt1", "it", false, some "audio2_stream.m3u8")] := by decide

/-- … and the client reports the leading stream's track without name, language or default flag; only `alt1` arrives -/
example : (match Hls.MvGen.start .fmp4 3 exF22Tracks with
    | .ok ss =>
      let p := Rend.embed none (Hls.MvGen.generateWith .fmp4 ss exF22Tracks "" (70000, 50000))
      (match Hls.Playlist.Multivariant.unmarshal p.marshal with
       | .ok p' => (match Rend.clientStreams p' with
          | .ok cs => cs.map fun c => (c.isLeading, String.ofList (Rend.trackAttrs c).name,
                                      String.ofList (Rend.trackAttrs c).language, (Rend.trackAttrs c).isDefault)
          | .error _ => [])
       | .error _ => [])
    | .error _ => []) = [(true, "", "", false), (false, "alt1", "it", false)] := by decide +kernel

end Hls.Props.C09
