import Hls.Gen.Skeleton
import Hls.Conc.Lemmas8
/-!
# C06, concurrent half — blocking reload / preload hint under every schedule

Property theorems only (helpers in `Hls/Conc/Lemmas*.lean`). The sequential half of C06
(which `(M,P)` are answered how) is in `Hls/Props/C06.lean`; here a requester's condition is
abstracted to the monotone predicate the extracted wait loop tests:
`hasContent` (multivariant / plain media playlist), `hasContent ∧ nextPartID ≥ tgt`
(blocking reload; `tgt` = global id + 1 of the wanted part), `nextPartID > id` (preload hint).

Machine, quantifier and skeleton are those of `Hls/Props/C07.lean`: one or more writers
(`lock; atomic rotate; unlock; [error → return]; Broadcast`), any number of requesters and
`Close` callers, every schedule.
-/
namespace Hls.Props.C06Conc
open Hls.Conc

theorem skeleton_shape : Hls.Gen.skeleton = Expected.skeleton := by decide

/-- Never answered early: a requester is behind its wait loop (or has answered 200) only in states
    in which the predicate it waited for holds. -/
theorem c06_never_early (cfg : Cfg) (hsk : cfg.sk = Hls.Gen.skeleton) {s : State} (hR : Reachable cfg s)
    {i : Nat} {th : Thread} (hi : s.threads[i]? = some th) (hq : th.kind.isRequester = true)
    (h : postLoop th.kind th.pc = true ∨ th.result = some 200) :
    evalPred cfg s.sh th.kind th.kind.waitPred = true := by
  have hT := (inv_reachable (hsk.trans skeleton_shape) hR).t i th hi
  rcases h with h | h
  · exact hT.predTrue hq h
  · apply hT.predTrue hq
    have := hT.retSpec 200 h
    cases hk : th.kind <;> simp_all [retOK, postLoop, Kind.isRequester]

/-- No lost wake-up: a requester that is inside `cond.Wait()` while its predicate holds has either
    already been woken, or a writer that rotated successfully still has its `Broadcast` ahead
    (it is between the rotation and the Broadcast) — unless a rotation FAILED (storage error:
    `rotateParts`/`rotateSegments` return the error without broadcasting; the counters may
    already have moved — see notes, finding N1). -/
theorem c06_no_lost_wakeup (cfg : Cfg) (hsk : cfg.sk = Hls.Gen.skeleton) {s : State} (hR : Reachable cfg s)
    {i : Nat} {th : Thread} (hi : s.threads[i]? = some th) (hw : th.wait ≠ .running)
    (hp : evalPred cfg s.sh th.kind th.kind.waitPred = true)
    (hok : ∀ w ∈ s.threads, w.kind.isWriter = true → w.err = false) :
    th.wait = .woken ∨ ∃ (j : Nat) (w : Thread), s.threads[j]? = some w ∧ writerPending w := by
  have hI := inv_reachable (hsk.trans skeleton_shape) hR
  cases hwt : th.wait with
  | running => exact absurd hwt hw
  | woken => exact Or.inl rfl
  | parked =>
    right
    obtain ⟨j, w, hj, hc⟩ := hI.g.nlwPred i th hi hwt hp
    rcases hc with hc | ⟨h1, h2⟩
    · exact ⟨j, w, hj, hc⟩
    · have := hok w (List.mem_of_getElem? hj) h1
      rw [this] at h2; cases h2

/-- … and then without needing any further input: once woken with its predicate true, a requester
    returns within ten steps OF ITS OWN as soon as the mutex is free — no step of the writer or of
    anybody else is needed — and the answer is 200 unless its stream was closed or its `_HLS_msn`
    left the window meanwhile. -/
theorem c06_then_no_more_input (cfg : Cfg) (hsk : cfg.sk = Hls.Gen.skeleton) {s : State} (hR : Reachable cfg s)
    {i : Nat} {th : Thread} (hi : s.threads[i]? = some th) (hw : th.wait = .woken)
    (hp : evalPred cfg s.sh th.kind th.kind.waitPred = true) (ho : s.sh.owner = none) :
    ∃ n s' th', n ≤ 10 ∧ run cfg s (List.replicate n (i, false)) = some s' ∧ s'.threads[i]? = some th' ∧
      th'.result.isSome = true ∧ s'.sh.owner = none ∧
      (evalFlag s.sh th.kind th.kind.waitFlag = false → evalPred cfg s.sh th.kind .outOfRange = false →
        th'.result = some 200) := by
  have hsk' := hsk.trans skeleton_shape
  have hT := (inv_reachable hsk' hR).t i th hi
  obtain ⟨n, sh', th', hn, hrun, h1, h2, h3⟩ := woken_solo hsk' hT hw ho hp
  obtain ⟨s', r1, r2, r3⟩ := solo_to_run hi hrun
  exact ⟨n, s', th', hn, r1, r3, h1, by rw [r2]; exact h2, h3⟩

/-- Mutex hand-over: whoever holds the muxer mutex releases it within `rank` steps of its own
    (≤ 11 for a handler, ≤ 3 for the writer, ≤ 4·streams + 6 for `Close`); it never waits for
    another thread while holding it. Together with `c06_then_no_more_input` /
    `c07_later_requests_return`: under any fair scheduler the request returns. -/
theorem c06_mutex_handover (cfg : Cfg) (hsk : cfg.sk = Hls.Gen.skeleton) {s : State} (hR : Reachable cfg s)
    {j : Nat} (ho : s.sh.owner = some j) :
    ∃ th n s', s.threads[j]? = some th ∧ n ≤ rank cfg th + 1 ∧
      run cfg s (List.replicate n (j, false)) = some s' ∧ s'.sh.owner = none := by
  have hsk' := hsk.trans skeleton_shape
  have hI := inv_reachable hsk' hR
  have hlt := hI.g.ownerIn j ho
  have hj : s.threads[j]? = some s.threads[j] := List.getElem?_eq_getElem hlt
  have hT := hI.t j _ hj
  obtain ⟨n, sh', th', hn, hrun, ho'⟩ := holder_releases hsk' (rank cfg s.threads[j]) (Nat.le_refl _) hI.g.lenS hT (hT.own.mpr ho)
  obtain ⟨s', r1, r2, _⟩ := solo_to_run hj hrun
  exact ⟨_, n, s', hj, hn, r1, by rw [r2]; exact ho'⟩

/-- The preload-hint request blocks until its part is complete: it has returned only if
    `nextPartID > id` or its stream was closed, and it has answered 200 only if `nextPartID > id`
    (after which it delegates to the real part handler registered under the same path — the bytes
    are C05's concern). -/
theorem c06_hint_blocks_until (cfg : Cfg) (hsk : cfg.sk = Hls.Gen.skeleton) {s : State} (hR : Reachable cfg s)
    {i : Nat} {th : Thread} {sid id : Nat} (hi : s.threads[i]? = some th) (hk : th.kind = .hint sid id) :
    (∀ st, th.result = some st → id < s.sh.nextPartID ∨ (st = 500 ∧ flagAt s.sh sid = true)) ∧
    (th.result = some 200 → id < s.sh.nextPartID) := by
  have hT := (inv_reachable (hsk.trans skeleton_shape) hR).t i th hi
  have hq : th.kind.isRequester = true := by simp [hk, Kind.isRequester]
  have key : ∀ st, th.result = some st → id < s.sh.nextPartID ∨ (st = 500 ∧ flagAt s.sh sid = true) := by
    intro st hst
    have hr := hT.retSpec st hst
    simp only [hk, retOK, Bool.or_eq_true, Bool.and_eq_true, beq_iff_eq] at hr
    rcases hr with (⟨hpc, hs⟩ | ⟨hpc, _⟩) | ⟨hpc, _⟩
    · right
      have := hT.retClosed hq (by simp [hst]) (by omega)
      simp [hk, Kind.waitFlag, evalFlag, Kind.sid] at this
      exact ⟨hs, this⟩
    · left
      have := hT.predTrue hq (by simp [hk, postLoop, hpc])
      simpa [hk, Kind.waitPred, evalPred] using this
    · left
      have := hT.predTrue hq (by simp [hk, postLoop, hpc])
      simpa [hk, Kind.waitPred, evalPred] using this
  refine ⟨key, fun h => ?_⟩
  rcases key 200 h with h1 | ⟨h2, _⟩
  · exact h1
  · cases h2

/-! ## Non-vacuity -/

def demoCfg : Cfg := { sk := Hls.Gen.skeleton, nStreams := 1 }

/-- a hint request for part 3 parks (5 steps); the writer rotates parts and stops before its Broadcast (3 steps) -/
def demoTrace : List (Nat × Bool) := List.replicate 5 (1, false) ++ List.replicate 3 (0, false)

/-- parked with the predicate true and a pending writer (hypotheses of `c06_no_lost_wakeup`) -/
example : ∃ s, run demoCfg (mkInit demoCfg 3 8 [.writer .parts, .hint 0 3]) demoTrace = some s ∧
    (s.threads[1]?.map (·.wait)) = some .parked ∧ s.sh.nextPartID = 4 ∧
    (s.threads[0]?.map (fun w => (w.pc, w.err))) = some (3, false) := by decide

/-- after the Broadcast: woken, predicate true, mutex free (hypotheses of `c06_then_no_more_input`);
    ten own steps later the request has answered 200 -/
example : ∃ s, run demoCfg (mkInit demoCfg 3 8 [.writer .parts, .hint 0 3])
      (demoTrace ++ List.replicate 3 (0, false) ++ List.replicate 10 (1, false)) = some s ∧
    s.threads.map (·.result) = [some 0, some 200] ∧ s.sh.owner = none := by decide

/-- a state with the mutex held (hypothesis of `c06_mutex_handover`) -/
example : ∃ s, run demoCfg (mkInit demoCfg 3 8 [.writer .parts, .hint 0 3]) [(1, false), (1, false)] = some s ∧
    s.sh.owner = some 1 := by decide

end Hls.Props.C06Conc
