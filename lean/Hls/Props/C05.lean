import Hls.Muxer.PathsOwn
/-!
# C05 — Every advertised URI is fetchable, immutable and consistent with its parts

Property theorems only.  Helper lemmas live in `Hls/Muxer/Paths*.lean`; every definition that occurs
in a statement below is in `Hls/Muxer/Model.lean` (the muxer model, validated against the real muxer
by the `muxer` correspondence stream) or in `Hls/Muxer/PathsSpec.lean` (definitions only).

Reading guide.
* `st.paths : List (PathKey × Handler)` is `muxerServer.pathHandlers`; `get st k` is what
  `muxerServer.handle` answers for the media URI `k` (`.none` = nothing is written: unknown path).
* `Reachable cfg st` : `st = run st0 ops` for some `start cfg = .ok st0` and some list of writes —
  every configuration `Start` accepts, every write history.  A later state is `run st ops`.
* `Registered st k h` (PathsSpec): `k` is `index`, a stream playlist, the init of a stream with
  `initPresent`, the key of a real entry of `segments` (handler = that segment's bytes), in Low-Latency
  the key of a part of a window segment or of the open segment (handler = that part), or the preload
  hint key `part nextPartID` (placeholder handler).
* `winParts s` = parts of the real window segments followed by the parts of the open segment;
  `winStored s` = the same for the storage parts (`Seg.stored`, what the segment file consists of).
* `listedMedia pl` = the segment keys and part keys a media playlist lists.
* `segBody v g` = `.segTS g.tsUnits` (MPEG-TS) / `.segFMP4 g.stored` (fMP4, LL): the body is the list
  of the segment's storage parts.  Bridge to bytes (C17): `pkg/storage`'s file reader returns the
  concatenation of the storage parts' bytes (`Hls.Props.C17.c17_file_reader_concat`, for every read
  buffer sequence, RAM and disk, before and after `Finalize`), the part reader returns exactly the part's
  bytes (`c17_part_reader_exact`), and a muxer segment's storage parts are exactly `g.stored` in order
  (`muxerPart.storage = segment.storage.NewPart()` in `createFirstSegment`/`rotateParts`/`rotateSegments`).
  Hence `g.stored = g.parts` (theorem `c05_concat`) IS "segment bytes = concatenation of part bytes".
* `Part.id` is what `fmp4.Part.SequenceNumber` is filled from in `muxerPart.finalize`; the model's
  `.part p` body carries `p.id` as the fragment's sequence number (the driver prints it as `#id`,
  the harness decodes `mfhd.SequenceNumber` from the real bytes).
-/
namespace Hls.Props.C05
open Hls.Muxer Hls.Muxer.Paths

/-! ## 1. The path table is exactly the advertised set -/

/-- In every reachable state: no key is registered twice; everything registered is `Registered`
    (right key, right handler); everything `Registered` is in the table with exactly that handler
    (init: with some init handler). -/
theorem c05_paths_exact {cfg : Cfg} {st : State} (hr : Reachable cfg st) :
    (st.paths.map (·.1)).Nodup ∧
    (∀ k h, (k, h) ∈ st.paths → Registered st k h) ∧
    (∀ k h, Registered st k h → isInitKey k = false → (k, h) ∈ st.paths) ∧
    (∀ si, (st.stream si).initPresent = true → ∃ ps, (PathKey.init si, Handler.init ps) ∈ st.paths) := by
  have hI := hr.inv.inv
  have hnd := hI.nodup
  refine ⟨hnd, ?_, ?_, ?_⟩
  · intro k h hm
    have hl := (mem_iff_lookup st.paths k h hnd).1 hm
    match k with
    | .index => rw [hI.p_index] at hl; cases hl; rfl
    | .playlist si =>
      rw [hI.p_playlist] at hl
      split at hl
      · cases hl; exact ⟨by assumption, rfl⟩
      · cases hl
    | .init si => exact hI.p_init_some si h hl
    | .seg si id => exact (hI.p_seg si id h).1 hl
    | .part si id => exact (hI.p_part si id h).1 hl
  · intro k h hreg hk
    apply (mem_iff_lookup st.paths k h hnd).2
    match k, hk with
    | .index, _ => rw [hI.p_index]; cases hreg; rfl
    | .playlist si, _ =>
      obtain ⟨h1, rfl⟩ := hreg
      rw [hI.p_playlist, if_pos h1]
    | .seg si id, _ => exact (hI.p_seg si id h).2 hreg
    | .part si id, _ => exact (hI.p_part si id h).2 hreg
  · intro si hp
    obtain ⟨ps, h⟩ := hI.p_init_pres si hp
    exact ⟨ps, (mem_iff_lookup _ _ _ hnd).2 h⟩

/-- The registered key set, as a set. -/
theorem c05_keys_exact {cfg : Cfg} {st : State} (hr : Reachable cfg st) (k : PathKey) :
    k ∈ st.paths.map (·.1) ↔ ∃ h, Registered st k h := by
  obtain ⟨_, h1, h2, h3⟩ := c05_paths_exact hr
  constructor
  · intro hk
    obtain ⟨⟨k', h⟩, hm, rfl⟩ := List.mem_map.1 hk
    exact ⟨h, h1 _ _ hm⟩
  · rintro ⟨h, hreg⟩
    cases hk : isInitKey k with
    | false => exact List.mem_map.2 ⟨(k, h), h2 k h hreg hk, rfl⟩
    | true =>
      match k, hk with
      | .init si, _ =>
        obtain ⟨ps, hm⟩ := h3 si hreg.1
        exact List.mem_map.2 ⟨_, hm, rfl⟩

/-! ## 2. Everything a playlist lists can be fetched, and returns the listed object -/

/-- For the playlist of stream `si` (plain or delta) in a reachable state:
    * the map URI (listed only when the stream has content) returns an init body;
    * every listed segment URI is the key of a real window segment `g` with the listed duration, and
      `get` returns exactly `g`'s bytes; each part listed under it is a part `p` of `g` and `get`
      returns exactly `p`;
    * every listed part of the open segment is a part `p` of the open segment and `get` returns `p`. -/
theorem c05_listed_fetchable {cfg : Cfg} {st : State} (hr : Reachable cfg st) (si : Nat) (delta : Bool) :
    (∀ k, (mediaPlaylist st si delta).map = some k → (st.stream si).hasContent st.cfg.variant = true →
        ∃ ps, get st k = .init ps) ∧
    (∀ pg ∈ (mediaPlaylist st si delta).segments, ∀ k, pg.key = some k →
        ∃ g, Entry.seg g ∈ (st.stream si).segments ∧ k = .seg si g.id ∧ pg.dur = g.duration ∧
          get st k = segBody st.cfg.variant g ∧
          ∀ pp ∈ pg.parts, ∃ p ∈ g.parts, pp = plPart si p ∧ get st pp.key = .part p) ∧
    (∀ pp ∈ (mediaPlaylist st si delta).parts,
        ∃ g p, (st.stream si).nextSegment = some g ∧ p ∈ g.parts ∧ pp = plPart si p ∧ get st pp.key = .part p) := by
  have hI := hr.inv.inv
  refine ⟨?_, ?_, ?_⟩
  · intro k hk hc
    obtain ⟨rfl, hv⟩ := pl_map hk
    have hne : (st.stream si).segments ≠ [] := by
      intro e; unfold StreamSt.hasContent at hc; rw [e] at hc; simp at hc
    have hsi : si < st.streams.length := by
      by_cases h : si < st.streams.length
      · exact h
      · exact absurd (InvAt.stream_oob_segments si (Nat.le_of_not_lt h)).1 hne
    exact get_init hI si ((hI.sinv' hsi).init_present hv hne)
  · intro pg hpg k hk
    obtain ⟨g, hg, rfl, hd, _, hparts⟩ := pl_segment hpg hk
    refine ⟨g, hg, rfl, hd, get_seg hI hg, ?_⟩
    intro pp hpp
    rcases hparts with h0 | ⟨_, h1⟩
    · rw [h0] at hpp; simp at hpp
    · rw [h1] at hpp
      obtain ⟨p, hp, rfl⟩ := List.mem_map.1 hpp
      exact ⟨p, hp, rfl, get_part hI (mem_winParts_of_seg hg hp)⟩
  · intro pp hpp
    obtain ⟨_, p, hp, rfl⟩ := pl_parts hpp
    have hw := mem_winParts_of_open hp
    unfold openParts at hp
    cases hn : (st.stream si).nextSegment with
    | none => rw [hn] at hp; simp at hp
    | some g => rw [hn] at hp; exact ⟨g, p, rfl, hp, rfl, get_part hI hw⟩

/-- Summary: every listed segment / part key returns media content. -/
theorem c05_listed_content {cfg : Cfg} {st : State} (hr : Reachable cfg st) (si : Nat) (delta : Bool)
    (k : PathKey) (hk : k ∈ listedMedia (mediaPlaylist st si delta)) :
    isMediaKey k = true ∧ isContent (get st k) = true := by
  rcases listed_get hr.inv.inv hk with ⟨g, _, rfl, hget⟩ | ⟨p, _, rfl, hget⟩
  · rw [hget]; unfold segBody; split <;> exact ⟨rfl, rfl⟩
  · rw [hget]; exact ⟨rfl, rfl⟩

/-! ## 3. Unknown and expired URIs return nothing -/

/-- In every reachable state:
    * a key that is not registered yields nothing;
    * a segment key answers iff its number is the media sequence number of a real window entry
      (`id = deleteCount + index`: "URI number = MSN"); in particular ids below `deleteCount`
      (expired) and ids `≥ nextSegmentID` (not yet published) yield nothing;
    * the part ids that answer form one interval `[lo, nextPartID]` (`nextPartID` = the hint, LL only):
      the storage parts of the window have the consecutive ids `lo … nextPartID−1`; every part id
      below `lo` (expired with its segment) or above `nextPartID` yields nothing. -/
theorem c05_unknown_or_expired_empty {cfg : Cfg} {st : State} (hr : Reachable cfg st) :
    (∀ k, k ∉ st.paths.map (·.1) → get st k = .none) ∧
    (∀ si id, get st (.seg si id) ≠ .none ↔
        ∃ i g, (st.stream si).segments[i]? = some (.seg g) ∧ g.id = id ∧ id = (st.stream si).deleteCount + i) ∧
    (∀ si id, id < (st.stream si).deleteCount ∨ (st.stream si).nextSegmentID ≤ id → get st (.seg si id) = .none) ∧
    (∀ si, ∃ lo, lo ≤ (st.stream si).nextPartID ∧
        (winStored (st.stream si)).map (·.id) = List.range' lo ((st.stream si).nextPartID - lo) ∧
        ∀ id, id < lo ∨ (st.stream si).nextPartID < id → get st (.part si id) = .none) := by
  have hI := hr.inv.inv
  have hseg : ∀ si id, get st (.seg si id) ≠ .none →
      ∃ i g, (st.stream si).segments[i]? = some (.seg g) ∧ g.id = id ∧ id = (st.stream si).deleteCount + i := by
    intro si id hne
    rcases get_seg_cases hI si id with h | ⟨g, hg, hid, _⟩
    · exact absurd h hne
    · obtain ⟨i, hi, hget⟩ := List.mem_iff_getElem.1 hg
      have hgi : (st.stream si).segments[i]? = some (.seg g) := by rw [List.getElem?_eq_getElem hi, hget]
      exact ⟨i, g, hgi, hid, by rw [← hid]; exact (hI.sinv' (InvAt.lt_of_seg hg)).seg_idx i g hgi⟩
  refine ⟨?_, ?_, ?_, ?_⟩
  · intro k hk
    exact get_of_lookup_none ((lookup_none_iff st.paths k).2 hk)
  · intro si id
    refine ⟨hseg si id, ?_⟩
    rintro ⟨i, g, hgi, hid, _⟩
    have hg : Entry.seg g ∈ (st.stream si).segments := List.mem_of_getElem? hgi
    rw [← hid, get_seg hI hg]
    unfold segBody; split <;> simp
  · intro si id hid
    apply Classical.byContradiction
    intro hne
    obtain ⟨i, g, hgi, hgid, he⟩ := hseg si id hne
    have hg : Entry.seg g ∈ (st.stream si).segments := List.mem_of_getElem? hgi
    have := (hI.sinv' (InvAt.lt_of_seg hg)).seg_id_lt g hg
    omega
  · intro si
    by_cases hsi : si < st.streams.length
    · have hS := hI.sinv' hsi
      obtain ⟨lo, hids, hlo, _⟩ := hS.part_ids
      refine ⟨lo, hlo, hids, ?_⟩
      intro id hid
      apply get_part_none hI si id
      · intro p hp hpid
        rw [hS.winParts_eq] at hp
        split at hp
        · have : p.id ∈ (winStored (st.stream si)).map (·.id) := List.mem_map.2 ⟨p, hp, rfl⟩
          rw [hids, List.mem_range'_1] at this
          omega
        · simp at hp
      · omega
    · have hso := stream_oob st si (Nat.le_of_not_lt hsi)
      refine ⟨0, Nat.zero_le _, by rw [hso]; rfl, ?_⟩
      intro id hid
      apply get_part_none hI si id
      · intro p hp; rw [(InvAt.stream_oob_segments si (Nat.le_of_not_lt hsi)).2.2] at hp; simp at hp
      · rw [hso] at hid ⊢; simp at hid ⊢; omega

/-- Once a segment / part URI below the current identifiers answers nothing (it was never bound, or it
    has left the window), it answers nothing in every later state: identifiers are never reused. -/
theorem c05_expired_stays_empty {cfg : Cfg} {st : State} (hr : Reachable cfg st) (ops : List WriteOp) :
    (∀ si id, id < (st.stream si).nextSegmentID → get st (.seg si id) = .none →
        get (run st ops) (.seg si id) = .none) ∧
    (∀ si id, id < (st.stream si).nextPartID → get st (.part si id) = .none →
        get (run st ops) (.part si id) = .none) := by
  have hI := hr.inv
  have hm := mono_run ops hI
  constructor
  · intro si id hlt hn
    have hl : lookupPath st.paths (.seg si id) = none := by
      cases h : lookupPath st.paths (.seg si id) with
      | none => rfl
      | some hd =>
        obtain ⟨g, hg, hid, _⟩ := (hI.inv.p_seg si id hd).1 h
        rw [← hid, get_seg hI.inv hg] at hn
        unfold segBody at hn; split at hn <;> cases hn
    exact get_gone hm _ (fun _ _ e => by cases e; exact hlt) (fun _ _ e => by cases e) rfl hl
  · intro si id hlt hn
    have hl : lookupPath st.paths (.part si id) = none := by
      cases h : lookupPath st.paths (.part si id) with
      | none => rfl
      | some hd =>
        obtain ⟨_, ⟨p, hp, hpid, _⟩ | ⟨e, _⟩⟩ := (hI.inv.p_part si id hd).1 h
        · rw [← hpid, get_part hI.inv hp] at hn; cases hn
        · omega
    exact get_gone hm _ (fun _ _ e => by cases e) (fun _ _ e => by cases e; exact hlt) rfl hl

/-- A segment that has left the window takes its parts with it: if `g` is a window segment of `st` with
    part `p`, and a later state no longer has a window entry numbered `g.id` (in particular when
    `g.id < deleteCount` there), then both the segment URI and the part URI return nothing. -/
theorem c05_expired_parts {cfg : Cfg} {st : State} (hr : Reachable cfg st) (ops : List WriteOp) (si : Nat)
    (g : Seg) (hg : Entry.seg g ∈ (st.stream si).segments)
    (hgone : g.id < ((run st ops).stream si).deleteCount) :
    get (run st ops) (.seg si g.id) = .none ∧ ∀ p ∈ g.parts, get (run st ops) (.part si p.id) = .none := by
  have hne : ∀ g', Entry.seg g' ∈ ((run st ops).stream si).segments → g'.id ≠ g.id := by
    intro g' hg' e
    have := ((hr.run ops).inv.inv.sinv' (InvAt.lt_of_seg hg')).seg_id_lt g' hg'
    omega
  exact ⟨get_seg_none (hr.run ops).inv.inv si g.id hne, fun p hp => expired_part_none hr.inv ops hg hp hne⟩

/-! ## 4. Immutability -/

/-- A segment / part URI that returns media content in a reachable state returns, in every later
    state, either the identical content or nothing — it is never re-bound to different content. -/
theorem c05_immutable_or_gone {cfg : Cfg} {st : State} (hr : Reachable cfg st) (ops : List WriteOp) (k : PathKey)
    (hk : isMediaKey k = true) (hc : isContent (get st k) = true) :
    get (run st ops) k = get st k ∨ get (run st ops) k = .none :=
  get_mono hr.inv.inv (mono_run ops hr.inv) k hk hc

/-- … hence, as long as it still answers, it answers the same. -/
theorem c05_immutable {cfg : Cfg} {st : State} (hr : Reachable cfg st) (ops : List WriteOp) (k : PathKey)
    (hk : isMediaKey k = true) (hc : isContent (get st k) = true) (hn : get (run st ops) k ≠ .none) :
    get (run st ops) k = get st k := by
  rcases c05_immutable_or_gone hr ops k hk hc with h | h
  · exact h
  · exact absurd h hn

/-- The property's wording: a segment / part key listed by a playlist of `st` (any stream, plain or
    delta) and by a playlist of a later state returns the same body in both. -/
theorem c05_immutable_listed {cfg : Cfg} {st : State} (hr : Reachable cfg st) (ops : List WriteOp)
    (si si' : Nat) (d d' : Bool) (k : PathKey)
    (h1 : k ∈ listedMedia (mediaPlaylist st si d))
    (h2 : k ∈ listedMedia (mediaPlaylist (run st ops) si' d')) :
    get (run st ops) k = get st k := by
  obtain ⟨hk, hc⟩ := c05_listed_content hr si d k h1
  obtain ⟨_, hc'⟩ := c05_listed_content (hr.run ops) si' d' k h2
  apply c05_immutable hr ops k hk hc
  intro e; rw [e] at hc'; cases hc'

/-! ## 5. Segment = concatenation of its parts; sequence numbers -/

/-- For every real window segment `g` of a reachable state:
    Low-Latency — the segment's storage parts are exactly its advertised parts, in order
    (`g.stored = g.parts`), the segment URI returns `g.stored` and each part URI returns the
    corresponding part, i.e. the segment body is the list of the bodies of its part URIs;
    fMP4 (not LL) — the segment consists of exactly one storage part and advertises no parts. -/
theorem c05_concat {cfg : Cfg} {st : State} (hr : Reachable cfg st) (si : Nat) (g : Seg)
    (hg : Entry.seg g ∈ (st.stream si).segments) :
    (st.cfg.variant = .ll →
        g.stored = g.parts ∧ get st (.seg si g.id) = .segFMP4 g.stored ∧
        g.stored.map (fun p => get st (.part si p.id)) = g.stored.map Body.part) ∧
    (st.cfg.variant = .fmp4 →
        g.stored.length = 1 ∧ g.parts = [] ∧ get st (.seg si g.id) = .segFMP4 g.stored) := by
  have hI := hr.inv.inv
  have hS := hI.sinv' (InvAt.lt_of_seg hg)
  have hget := get_seg hI hg
  constructor
  · intro hv
    have hp := hS.parts_win g hg
    rw [if_pos hv] at hp
    refine ⟨hp.symm, by rw [hget]; simp [segBody, hv], ?_⟩
    apply List.map_congr_left
    intro p hpm
    exact get_part hI (mem_winParts_of_seg hg (hp ▸ hpm))
  · intro hv
    have hp := hS.parts_win g hg
    rw [if_neg (by rw [hv]; decide)] at hp
    exact ⟨hS.stored_one hv g hg, hp, by rw [hget]; simp [segBody, hv]⟩

/-- Sequence numbers: the part returned under `part si id` has `Part.id = id`
    (`fmp4.Part.SequenceNumber = uint32(p.id)`); the fragments inside one segment file carry
    consecutive sequence numbers. -/
theorem c05_seqnum {cfg : Cfg} {st : State} (hr : Reachable cfg st) :
    (∀ si id p, get st (.part si id) = .part p → p.id = id) ∧
    (∀ si g, Entry.seg g ∈ (st.stream si).segments →
        ∃ a, g.stored.map (·.id) = List.range' a g.stored.length) := by
  have hI := hr.inv.inv
  constructor
  · intro si id p hget
    rcases get_part_cases hI si id with h | ⟨q, _, hid, h⟩ | ⟨_, _, h⟩
    · rw [h] at hget; cases hget
    · rw [h] at hget; cases hget; exact hid
    · rw [h] at hget; cases hget
  · intro si g hg
    exact stored_consecutive (hI.sinv' (InvAt.lt_of_seg hg)) hg

/-! ## 6. Preload hint -/

/-- In a Low-Latency state with content, the playlist's preload hint is `part nextPartID`, and fetching
    it waits (placeholder handler: the part is not complete yet). -/
theorem c05_hint {cfg : Cfg} {st : State} (hr : Reachable cfg st) (si : Nat) (delta : Bool)
    (hll : st.cfg.variant = .ll) (hc : (st.stream si).hasContent st.cfg.variant = true) :
    (mediaPlaylist st si delta).hint = some (.part si (st.stream si).nextPartID) ∧
    get st (.part si (st.stream si).nextPartID) = .hintWait := by
  have hI := hr.inv.inv
  have hne : (st.stream si).segments ≠ [] := by
    intro e; unfold StreamSt.hasContent at hc; rw [e] at hc; simp at hc
  have hsi : si < st.streams.length := by
    by_cases h : si < st.streams.length
    · exact h
    · exact absurd (InvAt.stream_oob_segments si (Nat.le_of_not_lt h)).1 hne
  refine ⟨by rw [pl_hint, if_pos hll], get_hint hI si hll ?_⟩
  exact (hI.sinv' hsi).hint_present (by rw [hll]; decide) hne

/-- Once the hinted part is complete (the first later state whose `nextPartID` has advanced by one),
    the same URI returns exactly that part: its id is the hinted id, and it is the newest advertised part. -/
theorem c05_hint_complete {cfg : Cfg} {st : State} (hr : Reachable cfg st) (ops : List WriteOp) (si : Nat)
    (hll : st.cfg.variant = .ll)
    (hadv : ((run st ops).stream si).nextPartID = (st.stream si).nextPartID + 1) :
    ∃ p, get (run st ops) (.part si (st.stream si).nextPartID) = .part p ∧ p.id = (st.stream si).nextPartID ∧
      p ∈ winParts ((run st ops).stream si) := by
  have hr' := hr.run ops
  have hll' : (run st ops).cfg.variant = .ll := by rw [hr'.cfg_eq, ← hr.cfg_eq]; exact hll
  obtain ⟨p, hp, hid, hget⟩ := hint_complete hr'.inv.inv si hll' (by omega)
  rw [hadv] at hid hget
  exact ⟨p, hget, hid, hp⟩

/-! ## 7. Non-vacuity: concrete reachable states (evaluated by the kernel, `decide +kernel`) -/

def emptySt (c : Cfg) : State := { cfg := c, tracks := [], streams := [], paths := [] }
def startOr (c : Cfg) : State := match start c with | .ok s => s | .error _ => emptySt c

/-- Low-Latency, one H264 track at 90 kHz; every frame is an IDR, 0.5 s apart: every write completes a
    part, every second write a segment.  After 22 writes 10 entries (7 gaps, 3 real segments) have left
    the window. -/
def llCfg : Cfg :=
  { variant := .ll, segmentCount := 7, segmentMinDur := 1000000000, partMinDur := 200000000,
    segmentMaxSize := 1000000, tracks := [{ codec := .h264, clockRate := 90000 }] }
def vOp (i : Nat) : WriteOp :=
  { track := 0, pts := 45000 * i, dts := 45000 * i, ntp := 500000000 * i, ra := true, par := 1,
    pays := [i], sizes := [10] }
def vOps (a n : Nat) : List WriteOp := (List.range n).map fun i => vOp (a + i)
def llSt (n : Nat) : State := run (startOr llCfg) (vOps 0 n)
theorem ll_reach (n : Nat) : Reachable llCfg (llSt n) := ⟨startOr llCfg, vOps 0 n, by rfl, rfl⟩

/-- Low-Latency, H264 + an Opus rendition (two streams). -/
def ll2Cfg : Cfg :=
  { variant := .ll, segmentCount := 7, segmentMinDur := 1000000000, partMinDur := 200000000,
    segmentMaxSize := 1000000,
    tracks := [{ codec := .h264, clockRate := 90000 }, { codec := .opus, clockRate := 48000 }] }
def avOp (i : Nat) : List WriteOp :=
  [vOp i, { track := 1, pts := 24000 * i, dts := 24000 * i, ntp := 500000000 * i, pays := [100 + i],
            sizes := [5], durs := [24000] }]
def ll2St (n : Nat) : State := run (startOr ll2Cfg) ((List.range n).flatMap avOp)
theorem ll2_reach (n : Nat) : Reachable ll2Cfg (ll2St n) := ⟨startOr ll2Cfg, _, by rfl, rfl⟩

/-- fMP4 (not Low-Latency) and MPEG-TS, window of 3. -/
def fmCfg : Cfg :=
  { variant := .fmp4, segmentCount := 3, segmentMinDur := 1000000000, partMinDur := 0,
    segmentMaxSize := 1000000, tracks := [{ codec := .h264, clockRate := 90000 }] }
def fmSt (n : Nat) : State := run (startOr fmCfg) (vOps 0 n)
theorem fm_reach (n : Nat) : Reachable fmCfg (fmSt n) := ⟨startOr fmCfg, vOps 0 n, by rfl, rfl⟩
def tsCfg : Cfg := { fmCfg with variant := .mpegts }
def tsSt (n : Nat) : State := run (startOr tsCfg) (vOps 0 n)
theorem ts_reach (n : Nat) : Reachable tsCfg (tsSt n) := ⟨startOr tsCfg, vOps 0 n, by rfl, rfl⟩

-- c05_paths_exact / c05_keys_exact: the table after 22 LL writes (10 entries expired, 7 real segments,
-- their 14 parts, the open segment's part 20, the hint 21)
example : (llSt 22).paths.map (·.1) = [.index, .playlist 0, .init 0,
    .part 0 6, .part 0 7, .seg 0 10, .part 0 8, .part 0 9, .seg 0 11, .part 0 10, .part 0 11, .seg 0 12,
    .part 0 12, .part 0 13, .seg 0 13, .part 0 14, .part 0 15, .seg 0 14, .part 0 16, .part 0 17, .seg 0 15,
    .part 0 18, .part 0 19, .seg 0 16, .part 0 20, .part 0 21] := by decide +kernel
example : ((ll2St 9).paths.map (·.1)).length = 31 ∧ PathKey.part 1 8 ∈ (ll2St 9).paths.map (·.1) ∧
    PathKey.seg 1 10 ∈ (ll2St 9).paths.map (·.1) := by decide +kernel
example : (tsSt 12).paths.map (·.1) = [.index, .playlist 0, .seg 0 2, .seg 0 3, .seg 0 4] := by decide +kernel

-- c05_listed_fetchable / c05_listed_content: the hypotheses are met (map listed and content present;
-- segment keys, part keys under segments, open-segment part keys listed)
example : (mediaPlaylist (llSt 22) 0 false).map = some (.init 0) ∧
    ((llSt 22).stream 0).hasContent (llSt 22).cfg.variant = true := by decide +kernel
example : listedMedia (mediaPlaylist (llSt 22) 0 false) = [.seg 0 10, .seg 0 11, .seg 0 12, .seg 0 13, .seg 0 14,
    .seg 0 15, .part 0 16, .part 0 17, .seg 0 16, .part 0 18, .part 0 19, .part 0 20] := by decide +kernel
example : listedMedia (mediaPlaylist (ll2St 9) 1 true) = [.seg 1 7, .seg 1 8, .seg 1 9, .part 1 4, .part 1 5,
    .seg 1 10, .part 1 6, .part 1 7] := by decide +kernel
example : listedMedia (mediaPlaylist (fmSt 12) 0 false) = [.seg 0 2, .seg 0 3, .seg 0 4] := by decide +kernel

-- c05_unknown_or_expired_empty: segment 7 was listed after 4 writes, has left the window after 22
-- (7 < deleteCount = 10) and returns nothing; so do its parts 0 and 1 (below lo = 6)
example : PathKey.seg 0 7 ∈ listedMedia (mediaPlaylist (llSt 4) 0 false) ∧
    PathKey.part 0 1 ∈ listedMedia (mediaPlaylist (llSt 4) 0 false) ∧
    ((llSt 22).stream 0).deleteCount = 10 ∧ get (llSt 22) (.seg 0 7) = .none ∧
    get (llSt 22) (.part 0 1) = .none ∧
    (winStored ((llSt 22).stream 0)).map (·.id) = List.range' 6 15 := by decide +kernel

-- c05_expired_stays_empty: hypotheses met at `llSt 20` for segment 7 / part 1
example : 7 < ((llSt 20).stream 0).nextSegmentID ∧ get (llSt 20) (.seg 0 7) = .none ∧
    1 < ((llSt 20).stream 0).nextPartID ∧ get (llSt 20) (.part 0 1) = .none := by decide +kernel

-- c05_expired_parts: segment 7 (parts 0, 1) is a window segment after 4 writes and 7 < deleteCount after 22
example : (((llSt 4).stream 0).segments.any fun e => match e with
      | .seg g => g.id == 7 && g.parts.map (·.id) == [0, 1] | .gap _ => false) = true ∧
    7 < ((run (llSt 4) (vOps 4 18)).stream 0).deleteCount := by decide +kernel

-- c05_immutable / c05_immutable_listed: segment 12 and part 16 are listed after 18 writes and still after 4 more
example : PathKey.seg 0 12 ∈ listedMedia (mediaPlaylist (llSt 18) 0 false) ∧
    PathKey.seg 0 12 ∈ listedMedia (mediaPlaylist (run (llSt 18) (vOps 18 4)) 0 true) ∧
    PathKey.part 0 16 ∈ listedMedia (mediaPlaylist (llSt 18) 0 false) ∧
    PathKey.part 0 16 ∈ listedMedia (mediaPlaylist (run (llSt 18) (vOps 18 4)) 0 false) ∧
    isContent (get (llSt 18) (.seg 0 12)) = true ∧
    get (run (llSt 18) (vOps 18 4)) (.seg 0 12) ≠ .none := by decide +kernel

-- c05_concat: an LL window segment with two parts; an fMP4 window segment
example : (llSt 22).cfg.variant = .ll ∧
    (((llSt 22).stream 0).segments.any fun e => match e with | .seg g => g.parts.length == 2 | .gap _ => false) = true := by
  decide +kernel
example : (fmSt 12).cfg.variant = .fmp4 ∧
    (((fmSt 12).stream 0).segments.any fun e => match e with | .seg g => g.id == 3 | .gap _ => false) = true := by
  decide +kernel

-- c05_seqnum: a part URI that returns a part
example : (match get (llSt 22) (.part 0 17) with | .part p => p.id == 17 | _ => false) = true := by decide +kernel

-- c05_hint: LL state with content; c05_hint_complete: one more write completes the hinted part 21
example : (llSt 22).cfg.variant = .ll ∧ ((llSt 22).stream 0).hasContent (llSt 22).cfg.variant = true ∧
    get (llSt 22) (.part 0 21) = .hintWait := by decide +kernel
example : ((run (llSt 22) [vOp 22]).stream 0).nextPartID = ((llSt 22).stream 0).nextPartID + 1 ∧
    (match get (run (llSt 22) [vOp 22]) (.part 0 21) with | .part p => p.id == 21 | _ => false) = true := by
  decide +kernel

end Hls.Props.C05
