import Hls.Muxer.TimeTs
/-!
# C02 — Segments start on random access, respect the minimum duration, are cut on a parameter change

Property theorems only.  Helper lemmas: `Hls/Muxer/Time*.lean`.  The model `Hls.Muxer` (frozen, validated against the
real muxer by the `muxer` correspondence stream) mirrors `muxer.go`, `muxer_segmenter.go`, `muxer_stream.go`,
`muxer_part.go`, `muxer_segment_*.go`; `toDur`/`toTs` are `Hls.Gen.timestampToDuration`/`durationToTimestamp`,
regenerated from the source.

All theorems are about `run st0 ops` for EVERY configuration accepted by `start` and EVERY list of write operations;
where the property quantifies over well-formed writes this is an explicit decidable hypothesis (`WFRun`: every write to
the leading track succeeds and none of its units lies before −10 s; `(write st op).2 = .ok`).
A rotation of the segments is observed as `nextSegmentID + 1` of the leading stream (all streams carry the same
counter, `c02_cut_together`).
-/
namespace Hls.Props.C02
open Hls.Gen Hls.Muxer

abbrev listed (st : State) (si : Nat) : List Seg := reals (st.stream si).segments

/-- first sample of the open segment once it has one: from the stored parts, else from the open part -/
def openFirst (o : Seg) (pending : List Sample) : Option Sample :=
  match o.stored with
  | _ :: _ => segFirst o
  | [] => pending.head?

theorem leadStream_fmp4 {cfg : Cfg} {st0 : State} (h0 : start cfg = .ok st0) (hv : cfg.variant ≠ .mpegts)
    (ops : List WriteOp) :
    (run st0 ops).cfg.variant ≠ .mpegts ∧ leadingIdx (run st0 ops).cfg.tracks = leadStream st0 := by
  have hc := run_cfg h0 ops
  have hv0 : st0.cfg.variant ≠ .mpegts := by rw [start_variant h0]; exact hv
  exact ⟨by rw [hc]; exact hv0, by rw [hc]; exact (streamOf_fmp4 hv0 _).symm⟩

/-- **Every segment starts with a random-access unit of the leading track — fMP4 variants.**  Under well-formed
writes of the leading track, in every reachable state the first stored sample of every listed segment of the leading
stream is a sync sample (and it is the sample whose DTS / NTP opened the segment, `C03.c03_first_unit`), and so is the
first sample of the open segment as soon as it has one. -/
theorem c02_segment_starts_ra {cfg : Cfg} {st0 : State} (h0 : start cfg = .ok st0) (hv : cfg.variant ≠ .mpegts)
    (ops : List WriteOp) (hwf : WFRun (leadStream st0) st0 ops) :
    (∀ g ∈ listed (run st0 ops) (leadStream st0), ∃ x, segFirst g = some x ∧ x.sync = true) ∧
    (∀ o x, ((run st0 ops).stream (leadStream st0)).nextSegment = some o →
      openFirst o ((run st0 ops).track (leadStream st0)).samples = some x → x.sync = true) := by
  have hf := (reach_FSR h0 hv ops hwf).1
  refine ⟨fun g hg => ?_, fun o x ho hx => ?_⟩
  · obtain ⟨x, hx, hs, _⟩ := hf.listed g hg
    exact ⟨x, hx, hs⟩
  · have := hf.opn o ho
    unfold OpenOK at this
    unfold openFirst at hx
    cases hst : o.stored with
    | cons q r =>
      rw [hst] at this hx
      obtain ⟨x', hx', hs, _⟩ := this
      rw [hx'] at hx; cases hx; exact hs
    | nil =>
      rw [hst] at this hx
      cases hsm : ((run st0 ops).track (leadStream st0)).samples with
      | nil => rw [hsm] at hx; simp at hx
      | cons y ys =>
        rw [hsm] at this hx
        simp only [List.head?_cons, Option.some.injEq] at hx
        subst hx; exact this.1

/-- **Cut iff due — fMP4 variants, one `write` of a video unit of the leading track** that reaches
`fmp4WriteSample` (`Accepted`), is not dropped for negative time, finds the look-ahead filled (`old`) and succeeds:
the segments are rotated **iff** the unit is random access and (its parameters changed — `changedOf`, see
`c02_params_pending` — or it lies at least `segmentMinDur` after the start of the open segment).  One `iff`: never
earlier, never at another unit, never skipped when due. -/
theorem c02_cut_iff_due {cfg : Cfg} {st0 : State} (h0 : start cfg = .ok st0) (hv : cfg.variant ≠ .mpegts)
    (ops : List WriteOp) (op : WriteOp) (hop : op.track = leadStream st0)
    (hvid : ((run st0 ops).tcfg op.track).codec.isVideo = true) (hacc : Accepted (run st0 ops) op)
    (old : Sample) (hnx : ((run st0 ops).track (leadStream st0)).next = some old)
    (hnn : 0 ≤ unitDts (run st0 ops) op + toTs fmp4StartDTS ((run st0 ops).tcfg (leadStream st0)).clockRate)
    (hok : (write (run st0 ops) op).2 = .ok) :
    ((write (run st0 ops) op).1.stream (leadStream st0)).nextSegmentID =
        ((run st0 ops).stream (leadStream st0)).nextSegmentID + 1 ↔
      (op.ra = true ∧ (changedOf (run st0 ops) op = true ∨
        toDur (unitDts (run st0 ops) op + toTs fmp4StartDTS ((run st0 ops).tcfg (leadStream st0)).clockRate)
            ((run st0 ops).tcfg (leadStream st0)).clockRate
          - decisionStart (run st0 ops) (leadStream st0) old ≥ (run st0 ops).cfg.segmentMinDur)) := by
  obtain ⟨hv', hL⟩ := leadStream_fmp4 h0 hv ops
  exact write_video_cut_iff (reach_GI h0 ops) hv' hL op hop hvid hacc old hnx hnn hok

/-- **Cut iff due at the level of `fmp4WriteSample`** (covers the audio-only fMP4 muxers, where one `write` hands
several samples over): for every sample of the leading track that is not dropped, finds the look-ahead filled and is
written successfully.  The counter moves by at most one. -/
theorem c02_cut_iff_due_sample {cfg : Cfg} {st0 : State} (h0 : start cfg = .ok st0) (hv : cfg.variant ≠ .mpegts)
    (ops : List WriteOp) (ra ch : Bool) (smp old : Sample)
    (hnn : ¬ (fwSmp (run st0 ops) (leadStream st0) smp).dts < 0)
    (hnx : ((run st0 ops).track (leadStream st0)).next = some old)
    (hok : (fmp4Write (run st0 ops) (leadStream st0) ra ch smp).2 = .ok) :
    (((fmp4Write (run st0 ops) (leadStream st0) ra ch smp).1.stream (leadStream st0)).nextSegmentID =
        ((run st0 ops).stream (leadStream st0)).nextSegmentID + 1 ↔
      (ra = true ∧ (ch = true ∨
        toDur (fwSmp (run st0 ops) (leadStream st0) smp).dts ((run st0 ops).tcfg (leadStream st0)).clockRate
          - decisionStart (run st0 ops) (leadStream st0) old ≥ (run st0 ops).cfg.segmentMinDur))) ∧
    (((fmp4Write (run st0 ops) (leadStream st0) ra ch smp).1.stream (leadStream st0)).nextSegmentID =
        ((run st0 ops).stream (leadStream st0)).nextSegmentID ∨
     ((fmp4Write (run st0 ops) (leadStream st0) ra ch smp).1.stream (leadStream st0)).nextSegmentID =
        ((run st0 ops).stream (leadStream st0)).nextSegmentID + 1) := by
  obtain ⟨hv', hL⟩ := leadStream_fmp4 h0 hv ops
  exact fmp4Write_cut_iff (reach_GI h0 ops) hv' (by unfold State.isLeadingTrack; rw [hL]; simp)
    (streamOf_fmp4 hv' _) ra ch smp old hnn hnx hok

/-- the first sample of the leading track only fills the look-ahead and a sample before −10 s is dropped:
neither cuts (any state) -/
theorem c02_no_cut_without_lookahead (st : State) (L : Nat) (ra ch : Bool) (smp : Sample)
    (h : (fwSmp st L smp).dts < 0 ∨ (st.track L).next = none) :
    ((fmp4Write st L ra ch smp).1.stream L).nextSegmentID = (st.stream L).nextSegmentID :=
  fmp4Write_first_no_cut ra ch smp h

theorem leadStream_ts {cfg : Cfg} {st0 : State} (h0 : start cfg = .ok st0) (hv : cfg.variant = .mpegts)
    (ops : List WriteOp) : (run st0 ops).cfg.variant = .mpegts ∧ GI (run st0 ops) 0 := by
  have hc := run_cfg h0 ops
  have hv0 : st0.cfg.variant = .mpegts := by rw [start_variant h0]; exact hv
  have hg := reach_GI h0 ops
  have : leadStream st0 = 0 := by unfold leadStream State.streamOf; rw [hv0]
  rw [this] at hg
  exact ⟨by rw [hc]; exact hv0, hg⟩

/-- **MPEG-TS with video: cut iff due, and what opens a segment.**  One successful `write` of an accepted H264 unit
in a reachable state: the open segment afterwards ends at `toDur dts`; if no segment was open the first one is created
and starts with this unit (`startDTS = toDur dts`, `startNTP = ntp`, first PES = this unit); otherwise the segments are
rotated **iff** `ra ∧ (toDur dts − startDTS ≥ segmentMinDur ∨ paramsChanged)`, and then the new segment starts with
this unit (which is random access), else the unit is appended to the open segment. -/
theorem c02_cut_iff_due_ts_video {cfg : Cfg} {st0 : State} (h0 : start cfg = .ok st0) (hv : cfg.variant = .mpegts)
    (ops : List WriteOp) (op : WriteOp) (hcd : ((run st0 ops).tcfg op.track).codec = .h264)
    (hacc : Accepted (run st0 ops) op) (hok : (write (run st0 ops) op).2 = .ok) :
    ∃ o', ((write (run st0 ops) op).1.stream 0).nextSegment = some o' ∧
      o'.endDTS = toDur op.dts ((run st0 ops).tcfg op.track).clockRate ∧
      (match ((run st0 ops).stream 0).nextSegment with
       | none => ((write (run st0 ops) op).1.stream 0).nextSegmentID = ((run st0 ops).stream 0).nextSegmentID ∧
           o'.startDTS = toDur op.dts ((run st0 ops).tcfg op.track).clockRate ∧ o'.startNTP = op.ntp ∧
           o'.tsUnits = [h264Unit (run st0 ops) op] ∧ o'.id = ((run st0 ops).stream 0).nextSegmentID
       | some seg =>
         if op.ra = true ∧ (toDur op.dts ((run st0 ops).tcfg op.track).clockRate - seg.startDTS ≥ (run st0 ops).cfg.segmentMinDur ∨
             changedOf (run st0 ops) op = true) then
           ((write (run st0 ops) op).1.stream 0).nextSegmentID = ((run st0 ops).stream 0).nextSegmentID + 1 ∧
           o'.startDTS = toDur op.dts ((run st0 ops).tcfg op.track).clockRate ∧ o'.startNTP = op.ntp ∧
           o'.tsUnits = [h264Unit (run st0 ops) op] ∧ o'.id = ((run st0 ops).stream 0).nextSegmentID + 1
         else
           ((write (run st0 ops) op).1.stream 0).nextSegmentID = ((run st0 ops).stream 0).nextSegmentID ∧
           o'.startDTS = seg.startDTS ∧ o'.startNTP = seg.startNTP ∧
           o'.tsUnits = seg.tsUnits ++ [h264Unit (run st0 ops) op]) := by
  obtain ⟨hv', hg⟩ := leadStream_ts h0 hv ops
  exact ts_video_write hg hv' op hcd hacc hok

/-- **MPEG-TS video segments start with a random-access unit**: the unit that rotates the segments is random access
(previous theorem), and the unit that opens the very first segment is random access as long as the track has not yet
passed its first random-access unit (`firstRA = false`; after a FAILED first random-access write the gate is open and a
non-random-access unit may open the first segment — excluded by "every call succeeds"). -/
theorem c02_ts_first_segment_ra (st : State) (op : WriteOp) (hacc : Accepted st op)
    (hfirst : (st.track op.track).firstRA = false) : op.ra = true := by
  rcases hacc.1 with h | h
  · rw [hfirst] at h; cases h
  · exact h

/-- **MPEG-TS audio-only: cut iff due** — one successful `write` of the leading AAC track: the segments are rotated
iff the open segment has seen at least 100 writes and has reached `segmentMinDur` (no parameter rule). -/
theorem c02_cut_iff_due_ts_audio {cfg : Cfg} {st0 : State} (h0 : start cfg = .ok st0) (hv : cfg.variant = .mpegts)
    (ops : List WriteOp) (op : WriteOp) (hcd : ((run st0 ops).tcfg op.track).codec = .aac)
    (hlead : (run st0 ops).isLeadingTrack op.track = true) (hok : (write (run st0 ops) op).2 = .ok) :
    ∃ o', ((write (run st0 ops) op).1.stream 0).nextSegment = some o' ∧
      o'.endDTS = toDur op.pts ((run st0 ops).tcfg op.track).clockRate ∧
      (match ((run st0 ops).stream 0).nextSegment with
       | none => ((write (run st0 ops) op).1.stream 0).nextSegmentID = ((run st0 ops).stream 0).nextSegmentID ∧
           o'.startDTS = toDur op.pts ((run st0 ops).tcfg op.track).clockRate ∧ o'.startNTP = op.ntp ∧
           o'.tsUnits = [aacUnit (run st0 ops) op] ∧ o'.id = ((run st0 ops).stream 0).nextSegmentID
       | some seg =>
         if seg.audioAUCount ≥ mpegtsSegmentMinAUCount ∧
             toDur op.pts ((run st0 ops).tcfg op.track).clockRate - seg.startDTS ≥ (run st0 ops).cfg.segmentMinDur then
           ((write (run st0 ops) op).1.stream 0).nextSegmentID = ((run st0 ops).stream 0).nextSegmentID + 1 ∧
           o'.startDTS = toDur op.pts ((run st0 ops).tcfg op.track).clockRate ∧ o'.startNTP = op.ntp ∧
           o'.tsUnits = [aacUnit (run st0 ops) op] ∧ o'.id = ((run st0 ops).stream 0).nextSegmentID + 1
         else
           ((write (run st0 ops) op).1.stream 0).nextSegmentID = ((run st0 ops).stream 0).nextSegmentID ∧
           o'.startDTS = seg.startDTS ∧ o'.startNTP = seg.startNTP ∧
           o'.tsUnits = seg.tsUnits ++ [aacUnit (run st0 ops) op]) := by
  obtain ⟨hv', hg⟩ := leadStream_ts h0 hv ops
  exact ts_audio_write hg hv' op hcd hlead hok

/-- **Parameter changes are pending until the next random-access unit** (every variant, every reachable state, no
hypothesis on the result of the call).  `paramsDiffer` = the unit carries parameter sets (`par ≠ 0`) different from the
stored ones.  For a video unit: the flag handed on as `paramsChanged` is `ra ∧ (pending ∨ paramsDiffer)`; afterwards the
flag is `(pending ∨ paramsDiffer) ∧ ¬ra` — set by any differing unit (also a parameter-set-only H264 unit), consumed by
exactly the next random-access unit; the differing parameters are stored.  Audio writes never touch it. -/
theorem c02_params_pending {cfg : Cfg} {st0 : State} (h0 : start cfg = .ok st0) (ops : List WriteOp) (op : WriteOp) :
    changedOf (run st0 ops) op = (op.ra && ((run st0 ops).pending || paramsDiffer (run st0 ops) op.track op.par)) ∧
    (write (run st0 ops) op).1.pending =
      (if ((run st0 ops).tcfg op.track).codec.isVideo then
        (((run st0 ops).pending || paramsDiffer (run st0 ops) op.track op.par) && !op.ra)
       else (run st0 ops).pending) ∧
    (op.track < (run st0 ops).tracks.length →
      ((paramsAbsorb (run st0 ops) op.track op.par).track op.track).params =
        if paramsDiffer (run st0 ops) op.track op.par then op.par else ((run st0 ops).track op.track).params) :=
  ⟨paramsStep_snd _ _ _ _, write_pending (reach_GI h0 ops) op, paramsAbsorb_params _ _ _⟩

/-- **All streams are cut together**: in every reachable state all streams carry the same segment counter, list
segments with the same (startDTS, endDTS, startNTP) position by position, and their open segments have the same start
DTS / NTP. -/
theorem c02_cut_together {cfg : Cfg} {st0 : State} (h0 : start cfg = .ok st0) (ops : List WriteOp)
    (si sj : Nat) (hsi : si < st0.streams.length) (hsj : sj < st0.streams.length) :
    ((run st0 ops).stream si).nextSegmentID = ((run st0 ops).stream sj).nextSegmentID ∧
    (listed (run st0 ops) si).map (fun g => (g.startDTS, g.endDTS, g.startNTP)) =
      (listed (run st0 ops) sj).map (fun g => (g.startDTS, g.endDTS, g.startNTP)) ∧
    ((run st0 ops).stream si).nextSegment.map (fun g => (g.startDTS, g.startNTP)) =
      ((run st0 ops).stream sj).nextSegment.map (fun g => (g.startDTS, g.startNTP)) := by
  have hg := reach_GI h0 ops
  have hk : KeyEq ((run st0 ops).stream si) ((run st0 ops).stream sj) :=
    (hg.key si (by rw [run_len h0]; exact hsi)).trans (hg.key sj (by rw [run_len h0]; exact hsj)).symm
  refine ⟨hk.sid, ?_, ?_⟩
  · have := congrArg (List.map (fun k : Int × Int × Int × List (Int × Int) => (k.1, k.2.1, k.2.2.1))) (reals_key hk.segs)
    simpa [List.map_map, Seg.key, Function.comp_def] using this
  · have := congrArg (Option.map (fun k : Int × Int × List (Int × Int) => (k.1, k.2.1))) hk.opn
    simpa [Option.map_map, Seg.okey, Function.comp_def] using this

end Hls.Props.C02
