import Hls.Muxer.TimeInit
import Hls.Muxer.TimeTsInv
/-!
# C02 — Segments start on random access, respect the minimum duration, are cut on a parameter change

Property theorems only.  Helper lemmas: `Hls/Muxer/Time*.lean`.  The model `Hls.Muxer` (frozen, validated against the
real muxer by the `muxer` correspondence stream) mirrors `muxer.go`, `muxer_segmenter.go`, `muxer_stream.go`,
`muxer_part.go`, `muxer_segment_*.go`; `toDur`/`toTs` are `Hls.Gen.timestampToDuration`/`durationToTimestamp`,
regenerated from the source.

All theorems are about `run st0 ops` for EVERY configuration accepted by `start` and EVERY list of write operations;
where the property quantifies over well-formed writes this is an explicit decidable hypothesis (`WFRun`: every write to
the leading track succeeds and none of its units lies before −10 s; `(write st op).2 = .ok`).
A rotation of the segments is observed as `nextSegmentID + 1` of the leading stream (all streams carry the same
counter, `c02_cut_together`).
-/
namespace Hls.Props.C02
open Hls.Gen Hls.Muxer

abbrev listed (st : State) (si : Nat) : List Seg := reals (st.stream si).segments

/-- first sample of the open segment once it has one: from the stored parts, else from the open part -/
def openFirst (o : Seg) (pending : List Sample) : Option Sample :=
  match o.stored with
  | _ :: _ => segFirst o
  | [] => pending.head?

theorem leadStream_fmp4 {cfg : Cfg} {st0 : State} (h0 : start cfg = .ok st0) (hv : cfg.variant ≠ .mpegts)
    (ops : List WriteOp) :
    (run st0 ops).cfg.variant ≠ .mpegts ∧ leadingIdx (run st0 ops).cfg.tracks = leadStream st0 := by
  have hc := run_cfg h0 ops
  have hv0 : st0.cfg.variant ≠ .mpegts := by rw [start_variant h0]; exact hv
  exact ⟨by rw [hc]; exact hv0, by rw [hc]; exact (streamOf_fmp4 hv0 _).symm⟩

/-- **Every segment starts with a random-access unit of the leading track — fMP4 variants.**  Under well-formed
writes of the leading track, in every reachable state the first stored sample of every listed segment of the leading
stream is a sync sample (and it is the sample whose DTS / NTP opened the segment, `C03.c03_first_unit`), and so is the
first sample of the open segment as soon as it has one. -/
theorem c02_segment_starts_ra {cfg : Cfg} {st0 : State} (h0 : start cfg = .ok st0) (hv : cfg.variant ≠ .mpegts)
    (ops : List WriteOp) (hwf : WFRun (leadStream st0) st0 ops) :
    (∀ g ∈ listed (run st0 ops) (leadStream st0), ∃ x, segFirst g = some x ∧ x.sync = true) ∧
    (∀ o x, ((run st0 ops).stream (leadStream st0)).nextSegment = some o →
      openFirst o ((run st0 ops).track (leadStream st0)).samples = some x → x.sync = true) := by
  have hf := (reach_FSR h0 hv ops hwf).1
  refine ⟨fun g hg => ?_, fun o x ho hx => ?_⟩
  · obtain ⟨x, hx, hs, _⟩ := hf.listed g hg
    exact ⟨x, hx, hs⟩
  · have := hf.opn o ho
    unfold OpenOK at this
    unfold openFirst at hx
    cases hst : o.stored with
    | cons q r =>
      rw [hst] at this hx
      obtain ⟨x', hx', hs, _⟩ := this
      rw [hx'] at hx; cases hx; exact hs
    | nil =>
      rw [hst] at this hx
      cases hsm : ((run st0 ops).track (leadStream st0)).samples with
      | nil => rw [hsm] at hx; simp at hx
      | cons y ys =>
        rw [hsm] at this hx
        simp only [List.head?_cons, Option.some.injEq] at hx
        subst hx; exact this.1

/-- **Cut iff due — fMP4 variants, one `write` of a video unit of the leading track** that reaches
`fmp4WriteSample` (`Accepted`), is not dropped for negative time, finds the look-ahead filled (`old`) and succeeds:
the segments are rotated **iff** the unit is random access and (its parameters changed — `changedOf`, see
`c02_params_pending` — or it lies at least `segmentMinDur` after the start of the open segment).  One `iff`: never
earlier, never at another unit, never skipped when due. -/
theorem c02_cut_iff_due {cfg : Cfg} {st0 : State} (h0 : start cfg = .ok st0) (hv : cfg.variant ≠ .mpegts)
    (ops : List WriteOp) (op : WriteOp) (hop : op.track = leadStream st0)
    (hvid : ((run st0 ops).tcfg op.track).codec.isVideo = true) (hacc : Accepted (run st0 ops) op)
    (old : Sample) (hnx : ((run st0 ops).track (leadStream st0)).next = some old)
    (hnn : 0 ≤ unitDts (run st0 ops) op + toTs fmp4StartDTS ((run st0 ops).tcfg (leadStream st0)).clockRate)
    (hok : (write (run st0 ops) op).2 = .ok) :
    ((write (run st0 ops) op).1.stream (leadStream st0)).nextSegmentID =
        ((run st0 ops).stream (leadStream st0)).nextSegmentID + 1 ↔
      (op.ra = true ∧ (changedOf (run st0 ops) op = true ∨
        toDur (unitDts (run st0 ops) op + toTs fmp4StartDTS ((run st0 ops).tcfg (leadStream st0)).clockRate)
            ((run st0 ops).tcfg (leadStream st0)).clockRate
          - decisionStart (run st0 ops) (leadStream st0) old ≥ (run st0 ops).cfg.segmentMinDur)) := by
  obtain ⟨hv', hL⟩ := leadStream_fmp4 h0 hv ops
  exact write_video_cut_iff (reach_GI h0 ops) hv' hL op hop hvid hacc old hnx hnn hok

/-- **Cut iff due at the level of `fmp4WriteSample`** (covers the audio-only fMP4 muxers, where one `write` hands
several samples over): for every sample of the leading track that is not dropped, finds the look-ahead filled and is
written successfully.  The counter moves by at most one. -/
theorem c02_cut_iff_due_sample {cfg : Cfg} {st0 : State} (h0 : start cfg = .ok st0) (hv : cfg.variant ≠ .mpegts)
    (ops : List WriteOp) (ra ch : Bool) (smp old : Sample)
    (hnn : ¬ (fwSmp (run st0 ops) (leadStream st0) smp).dts < 0)
    (hnx : ((run st0 ops).track (leadStream st0)).next = some old)
    (hok : (fmp4Write (run st0 ops) (leadStream st0) ra ch smp).2 = .ok) :
    (((fmp4Write (run st0 ops) (leadStream st0) ra ch smp).1.stream (leadStream st0)).nextSegmentID =
        ((run st0 ops).stream (leadStream st0)).nextSegmentID + 1 ↔
      (ra = true ∧ (ch = true ∨
        toDur (fwSmp (run st0 ops) (leadStream st0) smp).dts ((run st0 ops).tcfg (leadStream st0)).clockRate
          - decisionStart (run st0 ops) (leadStream st0) old ≥ (run st0 ops).cfg.segmentMinDur))) ∧
    (((fmp4Write (run st0 ops) (leadStream st0) ra ch smp).1.stream (leadStream st0)).nextSegmentID =
        ((run st0 ops).stream (leadStream st0)).nextSegmentID ∨
     ((fmp4Write (run st0 ops) (leadStream st0) ra ch smp).1.stream (leadStream st0)).nextSegmentID =
        ((run st0 ops).stream (leadStream st0)).nextSegmentID + 1) := by
  obtain ⟨hv', hL⟩ := leadStream_fmp4 h0 hv ops
  exact fmp4Write_cut_iff (reach_GI h0 ops) hv' (by unfold State.isLeadingTrack; rw [hL]; simp)
    (streamOf_fmp4 hv' _) ra ch smp old hnn hnx hok

/-- the first sample of the leading track only fills the look-ahead and a sample before −10 s is dropped:
neither cuts (any state) -/
theorem c02_no_cut_without_lookahead (st : State) (L : Nat) (ra ch : Bool) (smp : Sample)
    (h : (fwSmp st L smp).dts < 0 ∨ (st.track L).next = none) :
    ((fmp4Write st L ra ch smp).1.stream L).nextSegmentID = (st.stream L).nextSegmentID :=
  fmp4Write_first_no_cut ra ch smp h

theorem leadStream_ts {cfg : Cfg} {st0 : State} (h0 : start cfg = .ok st0) (hv : cfg.variant = .mpegts)
    (ops : List WriteOp) : (run st0 ops).cfg.variant = .mpegts ∧ GI (run st0 ops) 0 := by
  have hc := run_cfg h0 ops
  have hv0 : st0.cfg.variant = .mpegts := by rw [start_variant h0]; exact hv
  have hg := reach_GI h0 ops
  have : leadStream st0 = 0 := by unfold leadStream State.streamOf; rw [hv0]
  rw [this] at hg
  exact ⟨by rw [hc]; exact hv0, hg⟩

/-- **MPEG-TS with video: cut iff due, and what opens a segment.**  One successful `write` of an accepted H264 unit
in a reachable state: the open segment afterwards ends at `toDur dts`; if no segment was open the first one is created
and starts with this unit (`startDTS = toDur dts`, `startNTP = ntp`, first PES = this unit); otherwise the segments are
rotated **iff** `ra ∧ (toDur dts − startDTS ≥ segmentMinDur ∨ paramsChanged)`, and then the new segment starts with
this unit (which is random access), else the unit is appended to the open segment. -/
theorem c02_cut_iff_due_ts_video {cfg : Cfg} {st0 : State} (h0 : start cfg = .ok st0) (hv : cfg.variant = .mpegts)
    (ops : List WriteOp) (op : WriteOp) (hcd : ((run st0 ops).tcfg op.track).codec = .h264)
    (hacc : Accepted (run st0 ops) op) (hok : (write (run st0 ops) op).2 = .ok) :
    ∃ o', ((write (run st0 ops) op).1.stream 0).nextSegment = some o' ∧
      o'.endDTS = toDur op.dts ((run st0 ops).tcfg op.track).clockRate ∧
      (match ((run st0 ops).stream 0).nextSegment with
       | none => ((write (run st0 ops) op).1.stream 0).nextSegmentID = ((run st0 ops).stream 0).nextSegmentID ∧
           o'.startDTS = toDur op.dts ((run st0 ops).tcfg op.track).clockRate ∧ o'.startNTP = op.ntp ∧
           o'.tsUnits = [h264Unit (run st0 ops) op] ∧ o'.id = ((run st0 ops).stream 0).nextSegmentID
       | some seg =>
         if op.ra = true ∧ (toDur op.dts ((run st0 ops).tcfg op.track).clockRate - seg.startDTS ≥ (run st0 ops).cfg.segmentMinDur ∨
             changedOf (run st0 ops) op = true) then
           ((write (run st0 ops) op).1.stream 0).nextSegmentID = ((run st0 ops).stream 0).nextSegmentID + 1 ∧
           o'.startDTS = toDur op.dts ((run st0 ops).tcfg op.track).clockRate ∧ o'.startNTP = op.ntp ∧
           o'.tsUnits = [h264Unit (run st0 ops) op] ∧ o'.id = ((run st0 ops).stream 0).nextSegmentID + 1
         else
           ((write (run st0 ops) op).1.stream 0).nextSegmentID = ((run st0 ops).stream 0).nextSegmentID ∧
           o'.startDTS = seg.startDTS ∧ o'.startNTP = seg.startNTP ∧
           o'.tsUnits = seg.tsUnits ++ [h264Unit (run st0 ops) op]) := by
  obtain ⟨hv', hg⟩ := leadStream_ts h0 hv ops
  exact ts_video_write hg hv' op hcd hacc hok

/-- **MPEG-TS: once the video track has passed its first random-access unit a segment is open** — along every run
whose writes all succeed and name tracks of the muxer (`Accept.AllOk`, `Accept.InRange`: the property's "every call
succeeds").  Without that hypothesis it is false: an IDR without SPS fails after the gate was opened. -/
theorem c02_ts_first_ra_opens {cfg : Cfg} {st0 : State} (h0 : start cfg = .ok st0) (hv : cfg.variant = .mpegts)
    (ops : List WriteOp) (hin : Accept.InRange cfg ops = true) (hall : Accept.AllOk st0 ops = true)
    (k : Nat) (hk : k < cfg.tracks.length) (hvid : ((run st0 ops).tcfg k).codec.isVideo = true)
    (hfr : ((run st0 ops).track k).firstRA = true) : ((run st0 ops).stream 0).nextSegment.isSome = true :=
  ts_firstRA_open h0 hv ops hin hall k hk hvid hfr

/-- **MPEG-TS video: every segment starts with a random-access unit.**  In a run whose writes all succeed, a
successful write of an accepted H264 unit that OPENS a segment — the very first one (no segment was open) or by a
rotation (the counter moves) — is random access, and it is the first PES of the segment it opens (whose
`startDTS`/`startNTP` are its `toDur dts`/`ntp`). -/
theorem c02_ts_first_segment_ra {cfg : Cfg} {st0 : State} (h0 : start cfg = .ok st0) (hv : cfg.variant = .mpegts)
    (ops : List WriteOp) (hin : Accept.InRange cfg ops = true) (hall : Accept.AllOk st0 ops = true)
    (op : WriteOp) (hop : op.track < cfg.tracks.length) (hcd : ((run st0 ops).tcfg op.track).codec = .h264)
    (hacc : Accepted (run st0 ops) op) (hok : (write (run st0 ops) op).2 = .ok)
    (hopens : ((run st0 ops).stream 0).nextSegment = none ∨
      ((write (run st0 ops) op).1.stream 0).nextSegmentID ≠ ((run st0 ops).stream 0).nextSegmentID) :
    op.ra = true ∧
    ∃ o', ((write (run st0 ops) op).1.stream 0).nextSegment = some o' ∧ o'.tsUnits = [h264Unit (run st0 ops) op] ∧
      o'.startDTS = toDur op.dts ((run st0 ops).tcfg op.track).clockRate ∧ o'.startNTP = op.ntp := by
  obtain ⟨o', h1, _, h3⟩ := c02_cut_iff_due_ts_video h0 hv ops op hcd hacc hok
  cases hseg : ((run st0 ops).stream 0).nextSegment with
  | none =>
    rw [hseg] at h3
    refine ⟨?_, o', h1, h3.2.2.2.1, h3.2.1, h3.2.2.1⟩
    rcases hacc.1 with h | h
    · have := c02_ts_first_ra_opens h0 hv ops hin hall op.track hop (by rw [hcd]; rfl) h
      rw [hseg] at this; cases this
    · exact h
  | some seg =>
    rw [hseg] at h3 hopens
    simp only at h3
    split at h3
    · rename_i hc; exact ⟨hc.1, o', h1, h3.2.2.2.1, h3.2.1, h3.2.2.1⟩
    · rcases hopens with h | h
      · cases h
      · exact absurd h3.1 h

/-- **MPEG-TS audio-only: cut iff due** — one successful `write` of the leading AAC track: the segments are rotated
iff the open segment has seen at least 100 writes and has reached `segmentMinDur` (no parameter rule). -/
theorem c02_cut_iff_due_ts_audio {cfg : Cfg} {st0 : State} (h0 : start cfg = .ok st0) (hv : cfg.variant = .mpegts)
    (ops : List WriteOp) (op : WriteOp) (hcd : ((run st0 ops).tcfg op.track).codec = .aac)
    (hlead : (run st0 ops).isLeadingTrack op.track = true) (hok : (write (run st0 ops) op).2 = .ok) :
    ∃ o', ((write (run st0 ops) op).1.stream 0).nextSegment = some o' ∧
      o'.endDTS = toDur op.pts ((run st0 ops).tcfg op.track).clockRate ∧
      (match ((run st0 ops).stream 0).nextSegment with
       | none => ((write (run st0 ops) op).1.stream 0).nextSegmentID = ((run st0 ops).stream 0).nextSegmentID ∧
           o'.startDTS = toDur op.pts ((run st0 ops).tcfg op.track).clockRate ∧ o'.startNTP = op.ntp ∧
           o'.tsUnits = [aacUnit (run st0 ops) op] ∧ o'.id = ((run st0 ops).stream 0).nextSegmentID
       | some seg =>
         if seg.audioAUCount ≥ mpegtsSegmentMinAUCount ∧
             toDur op.pts ((run st0 ops).tcfg op.track).clockRate - seg.startDTS ≥ (run st0 ops).cfg.segmentMinDur then
           ((write (run st0 ops) op).1.stream 0).nextSegmentID = ((run st0 ops).stream 0).nextSegmentID + 1 ∧
           o'.startDTS = toDur op.pts ((run st0 ops).tcfg op.track).clockRate ∧ o'.startNTP = op.ntp ∧
           o'.tsUnits = [aacUnit (run st0 ops) op] ∧ o'.id = ((run st0 ops).stream 0).nextSegmentID + 1
         else
           ((write (run st0 ops) op).1.stream 0).nextSegmentID = ((run st0 ops).stream 0).nextSegmentID ∧
           o'.startDTS = seg.startDTS ∧ o'.startNTP = seg.startNTP ∧
           o'.tsUnits = seg.tsUnits ++ [aacUnit (run st0 ops) op]) := by
  obtain ⟨hv', hg⟩ := leadStream_ts h0 hv ops
  exact ts_audio_write hg hv' op hcd hlead hok

/-- **Parameter changes are pending until the next random-access unit** (every variant, every reachable state, no
hypothesis on the result of the call).  `paramsDiffer` = the unit carries parameter sets (`par ≠ 0`) different from the
stored ones.  For a video unit: the flag handed on as `paramsChanged` is `ra ∧ (pending ∨ paramsDiffer)`; afterwards the
flag is `(pending ∨ paramsDiffer) ∧ ¬ra` — set by any differing unit (also a parameter-set-only H264 unit), consumed by
exactly the next random-access unit; the differing parameters are stored.  Audio writes never touch it. -/
theorem c02_params_pending {cfg : Cfg} {st0 : State} (h0 : start cfg = .ok st0) (ops : List WriteOp) (op : WriteOp) :
    changedOf (run st0 ops) op = (op.ra && ((run st0 ops).pending || paramsDiffer (run st0 ops) op.track op.par)) ∧
    (write (run st0 ops) op).1.pending =
      (if ((run st0 ops).tcfg op.track).codec.isVideo then
        (((run st0 ops).pending || paramsDiffer (run st0 ops) op.track op.par) && !op.ra)
       else (run st0 ops).pending) ∧
    (op.track < (run st0 ops).tracks.length →
      ((paramsAbsorb (run st0 ops) op.track op.par).track op.track).params =
        if paramsDiffer (run st0 ops) op.track op.par then op.par else ((run st0 ops).track op.track).params) :=
  ⟨paramsStep_snd _ _ _ _, write_pending (reach_GI h0 ops) op, paramsAbsorb_params _ _ _⟩

/-- **All streams are cut together**: in every reachable state all streams carry the same segment counter, list
segments with the same (startDTS, endDTS, startNTP) position by position, and their open segments have the same start
DTS / NTP. -/
theorem c02_cut_together {cfg : Cfg} {st0 : State} (h0 : start cfg = .ok st0) (ops : List WriteOp)
    (si sj : Nat) (hsi : si < st0.streams.length) (hsj : sj < st0.streams.length) :
    ((run st0 ops).stream si).nextSegmentID = ((run st0 ops).stream sj).nextSegmentID ∧
    (listed (run st0 ops) si).map (fun g => (g.startDTS, g.endDTS, g.startNTP)) =
      (listed (run st0 ops) sj).map (fun g => (g.startDTS, g.endDTS, g.startNTP)) ∧
    ((run st0 ops).stream si).nextSegment.map (fun g => (g.startDTS, g.startNTP)) =
      ((run st0 ops).stream sj).nextSegment.map (fun g => (g.startDTS, g.startNTP)) := by
  have hg := reach_GI h0 ops
  have hk : KeyEq ((run st0 ops).stream si) ((run st0 ops).stream sj) :=
    (hg.key si (by rw [run_len h0]; exact hsi)).trans (hg.key sj (by rw [run_len h0]; exact hsj)).symm
  refine ⟨hk.sid, ?_, ?_⟩
  · have := congrArg (List.map (fun k : Int × Int × Int × List (Int × Int) => (k.1, k.2.1, k.2.2.1))) (reals_key hk.segs)
    simpa [List.map_map, Seg.key, Function.comp_def] using this
  · have := congrArg (Option.map (fun k : Int × Int × Bool × List (Int × Int) => (k.1, k.2.1))) hk.opn
    simpa [Option.map_map, Seg.okey, Function.comp_def] using this

/-- **The init segment declares exactly the stream's tracks**: in every reachable state, whatever is registered
under a stream's init path is an init handler with one entry per track of that stream (rendered by the driver as track
ids 1…n with the codec's fMP4 time scale); the stream's track list never changes. -/
theorem c02_init_tracks {cfg : Cfg} {st0 : State} (h0 : start cfg = .ok st0) (ops : List WriteOp) (si : Nat) (h : Handler)
    (hreg : lookupPath (run st0 ops).paths (.init si) = some h) :
    ∃ ps, h = .init ps ∧ ps.length = ((run st0 ops).stream si).tracks.length ∧
      ((run st0 ops).stream si).tracks = (st0.stream si).tracks ∧ Hls.Muxer.get (run st0 ops) (.init si) = .init ps := by
  obtain ⟨ps, e, hl⟩ := reach_InitOK h0 ops si h hreg
  refine ⟨ps, e, hl, reach_tracks h0 ops si, ?_⟩
  unfold Hls.Muxer.get; rw [hreg, e]

/-- **The init is regenerated after a parameter change** (per stream, any state of an fMP4-variant muxer): when
stream `si` is rotated while its open segment was opened by a forced rotation (or no init exists yet), the init
registered in that step is built from the parameters its tracks have at that moment — i.e. the first complete segment
encoded with changed parameters is listed together with an init carrying the new parameters. -/
theorem c02_init_after_change (st : State) (si : Nat) (hl : si < st.streams.length) (hv : st.cfg.variant ≠ .mpegts)
    (o : Seg) (p : Part) (ho : (st.stream si).nextSegment = some o) (hp : (st.stream si).nextPart = some p)
    (hf : (st.stream si).initPresent = false ∨ o.forced = true) (d n : Int) (f : Bool) :
    lookupPath (rotateSegmentsStream st si d n f).paths (.init si) =
      some (.init ((st.stream si).tracks.map fun t => (st.track t).params)) ∧
    ∀ sj, sj ≠ si → lookupPath (rotateSegmentsStream st si d n f).paths (.init sj) = lookupPath st.paths (.init sj) :=
  ⟨rss_init hl hv ho hp hf d n f, fun sj hne => rss_init_other st sj si d n f hne⟩

/-- the same for a whole-muxer rotation in a reachable state, leading stream -/
theorem c02_init_after_change_lead {cfg : Cfg} {st0 : State} (h0 : start cfg = .ok st0) (hv : cfg.variant ≠ .mpegts)
    (ops : List WriteOp) (o : Seg) (p : Part)
    (ho : ((run st0 ops).stream (leadStream st0)).nextSegment = some o)
    (hp : ((run st0 ops).stream (leadStream st0)).nextPart = some p)
    (hf : ((run st0 ops).stream (leadStream st0)).initPresent = false ∨ o.forced = true) (d n : Int) (f : Bool) :
    lookupPath (rotateSegments (run st0 ops) d n f).paths (.init (leadStream st0)) =
      some (.init (((run st0 ops).stream (leadStream st0)).tracks.map fun t => ((run st0 ops).track t).params)) :=
  rotateSegments_init_lead (reach_GI h0 ops) (leadStream_fmp4 h0 hv ops).1 ho hp hf d n f

/-- **After a forced rotation every stream's init carries the current parameters** (muxer level, every stream): in a
reachable state of an fMP4-variant muxer whose open segment was opened by a forced rotation (the flag is the same in
all streams — it is part of what `c02_cut_together`'s invariant keeps equal), one `rotateSegments` registers, for
EVERY stream `si`, an init handler built from the parameters that stream's tracks have at that moment. -/
theorem c02_init_after_change_all {cfg : Cfg} {st0 : State} (h0 : start cfg = .ok st0) (hv : cfg.variant ≠ .mpegts)
    (ops : List WriteOp) (oL : Seg)
    (hoL : ((run st0 ops).stream (leadStream st0)).nextSegment = some oL) (hforced : oL.forced = true)
    (d n : Int) (f : Bool) (si : Nat) (hsi : si < st0.streams.length) :
    lookupPath (rotateSegments (run st0 ops) d n f).paths (.init si) =
      some (.init (((run st0 ops).stream si).tracks.map fun t => ((run st0 ops).track t).params)) := by
  have hg := reach_GI h0 ops
  have hv' := (leadStream_fmp4 h0 hv ops).1
  have hl : si < (run st0 ops).streams.length := by rw [run_len h0]; exact hsi
  have hk := (hg.key si hl).symm
  obtain ⟨o, ho, hko⟩ := opt_map_some (hoL ▸ hk.opn)
  have hfo : o.forced = true := by
    simp only [Seg.okey, Prod.mk.injEq] at hko
    rw [hko.2.2.1]; exact hforced
  obtain ⟨p, hp⟩ := Option.isSome_iff_exists.1 (((hg.sinv si hl).partIff hv').1 (by rw [ho]; rfl))
  exact rotateSegments_init_all hg hv' si hl ho hp (Or.inr hfo) d n f

/-! ## Non-vacuity: a concrete Low-Latency muxer (H264 + AAC), rotations, a parameter change on an IDR -/

def exCfg : Cfg :=
  { variant := .ll, segmentCount := 7, segmentMinDur := 1000000000, partMinDur := 200000000, segmentMaxSize := 1000000,
    tracks := [{ codec := .h264, clockRate := 90000 }, { codec := .aac, clockRate := 48000, sampleRate := 48000 }] }
def vop (i : Nat) (ra : Bool) (par : Nat) : WriteOp :=
  { track := 0, pts := 45000 * i, dts := 45000 * i, ntp := 1600000000000000000 + 500000000 * i, ra := ra, par := par,
    pays := [i], sizes := [100] }
def aop (i : Nat) : WriteOp :=
  { track := 1, pts := 24000 * i, dts := 24000 * i, ntp := 1600000000000000000 + 500000000 * i, ra := true,
    pays := [1000 + i], sizes := [10] }
/-- IDRs at 0 s and 1 s (cut: minimum duration reached), IDR with changed parameters at 2 s, … -/
def exOps : List WriteOp :=
  [vop 0 true 1, aop 0, vop 1 false 0, aop 1, vop 2 true 0, aop 2, vop 3 false 0, aop 3]
def exMore : List WriteOp := [vop 4 true 2, aop 4, vop 5 false 0, vop 6 true 0, vop 7 true 0, vop 8 false 0]
def exSt0 : State := startState exCfg.withDefaults

theorem exStart : start exCfg = .ok exSt0 := rfl

/-- the state after the first eight writes (two listed segments, no change pending) -/
def exSt : State := run exSt0 exOps

set_option maxRecDepth 100000 in
/-- hypothesis of `c02_segment_starts_ra` / `C03.c03_first_unit` -/
example : leadStream exSt0 = 0 ∧ WFRun 0 exSt0 (exOps ++ exMore) := by decide

set_option maxRecDepth 100000 in
/-- hypotheses of `c02_cut_iff_due` for the IDR at 2 s that carries new parameters: accepted, look-ahead filled,
succeeds, `changedOf`; the cut happens although only 1 s … and a parameter change on a non-IDR unit stays pending -/
example : Accepted exSt (vop 4 true 2) ∧ (exSt.track 0).next.isSome ∧ (write exSt (vop 4 true 2)).2 = .ok ∧
    changedOf exSt (vop 4 true 2) = true ∧
    ((write exSt (vop 4 true 2)).1.stream 0).nextSegmentID = (exSt.stream 0).nextSegmentID + 1 ∧
    exSt.pending = false ∧ (write exSt (vop 3 false 2)).1.pending = true := by decide

set_option maxRecDepth 100000 in
/-- after the whole run: three real segments, the last one opened by the forced rotation; both streams have the
same counter.  Hypotheses of `c02_init_after_change`: just before the IDR at 3 s the open segment of stream 0 is the
one opened by the forced rotation (`forced`), an open part exists, and the track's current parameter id is 2 — so the
init registered by that rotation is `.init [2]`. -/
example : (listed (run exSt exMore) 0).map (fun g => (g.id, g.forced)) = [(7, false), (8, false), (9, true)] ∧
    ((run exSt exMore).stream 0).nextSegmentID = 10 ∧ ((run exSt exMore).stream 1).nextSegmentID = 10 ∧
    (match ((run exSt (exMore.take 3)).stream 0).nextSegment with | some o => o.forced | none => false) = true ∧
    ((run exSt (exMore.take 3)).stream 0).nextPart.isSome = true ∧
    ((run exSt (exMore.take 3)).stream 0).tracks.map (fun t => ((run exSt (exMore.take 3)).track t).params) = [2] := by
  decide

/-- MPEG-TS: H264 + AAC -/
def tsCfg : Cfg :=
  { variant := .mpegts, segmentCount := 3, segmentMinDur := 1000000000, partMinDur := 0, segmentMaxSize := 1000000,
    tracks := [{ codec := .h264, clockRate := 90000 }, { codec := .aac, clockRate := 48000, sampleRate := 48000 }] }
def tsSt0 : State := startState tsCfg.withDefaults
theorem tsStart : start tsCfg = .ok tsSt0 := rfl
def tsSt : State := run tsSt0 [vop 0 true 1, aop 0, vop 1 false 0]

/-- MPEG-TS audio only -/
def tsaCfg : Cfg :=
  { variant := .mpegts, segmentCount := 3, segmentMinDur := 1000000000, partMinDur := 0, segmentMaxSize := 1000000,
    tracks := [{ codec := .aac, clockRate := 48000, sampleRate := 48000 }] }
def tsaSt0 : State := startState tsaCfg.withDefaults
theorem tsaStart : start tsaCfg = .ok tsaSt0 := rfl
def aop0 (i : Nat) : WriteOp := { aop i with track := 0 }

set_option maxRecDepth 100000 in
/-- hypotheses of `c02_cut_iff_due_ts_video` (the IDR at 1 s: accepted, H264, succeeds — and it cuts), of
`c02_ts_first_segment_ra`, and of `c02_cut_iff_due_ts_audio` -/
example : (tsSt.tcfg 0).codec = .h264 ∧ Accepted tsSt (vop 2 true 0) ∧ (write tsSt (vop 2 true 0)).2 = .ok ∧
    ((write tsSt (vop 2 true 0)).1.stream 0).nextSegmentID = (tsSt.stream 0).nextSegmentID + 1 ∧
    Accepted tsSt0 (vop 0 true 1) ∧ (tsSt0.stream 0).nextSegment.isNone = true ∧
    Accept.InRange tsCfg [vop 0 true 1, aop 0, vop 1 false 0] = true ∧
    Accept.AllOk tsSt0 [vop 0 true 1, aop 0, vop 1 false 0] = true ∧
    (tsaSt0.tcfg 0).codec = .aac ∧ tsaSt0.isLeadingTrack 0 = true ∧ (write tsaSt0 (aop0 0)).2 = .ok := by decide

end Hls.Props.C02
