import Hls.Robust.LemmasSkip
/-!
# C13 — Malformed or unsupported server content cannot crash or wedge the client

Property theorems only. Model: `Hls/Robust/Model.lean` (the client's decisions after container decoding, over
abstract decoded values; every Go operation that can panic is an explicit outcome; every guard of the source is a
`Flags` field). Helper lemmas: `Hls/Robust/Lemmas.lean`, `LemmasSkip.lean`. Facts regenerated from /repo on every
run: `Hls/Gen/Robust.lean` (`genFlags` instantiates the model with them).

Shape of the argument: the theorems are proved for EVERY flag assignment `F` that has the safety guards
(`F.Guarded`), and `c13_guards_present` shows by evaluation that the regenerated `genFlags` is such an assignment.
Remove a guard from the source ⇒ a regenerated Bool flips ⇒ `c13_guards_present` (and `c13_run_steps`,
`c13_source_pins`) no longer check. The negative `example`s show that each guard is needed: the model does panic
without it, so the theorems are not vacuous.

Partial (DESIGN §6 C13): panics *inside* mediacommon / go-mp4 / astits while decoding bytes are outside the model
(the T2 stream searches there); wall-clock pacing is the parameter `elapsed` (any value).
-/
namespace Hls.Props.C13
open Hls.Gen.Robust Hls.Robust Hls.Robust.Res

/-! ## T1 table obligations -/

/-- the source the model was written for (functions whose control flow `Hls.Robust.Model` mirrors) -/
def expectedPins : List (String × String) := [
  ("fmp4PickLeadingTrack", "1c8fec0d014713f9"),
  ("findFirstPartTrackOfLeadingTrack", "2bb7fd75aa060dbc"),
  ("findTimeScaleOfLeadingTrack", "85f8749fc2e183db"),
  ("clientStreamProcessorFMP4.processSegment", "6e831d6096110be3"),
  ("clientStreamProcessorFMP4.joinTrackProcessors", "9b67fbf57153c1f7"),
  ("clientStreamProcessorFMP4.onPartTrackProcessed", "79fdd0fea3e6310b"),
  ("clientStreamProcessorFMP4.initializeTrackProcessors", "75c37fc75a806c4b"),
  ("clientTrackProcessorFMP4.process", "17180701ca50ca48"),
  ("clientTrackProcessorFMP4.run", "4ec9f026234ba106"),
  ("clientTrackProcessorFMP4.push", "ec4bfb98386583ed"),
  ("mpegtsPickLeadingTrack", "01552debe7b205e2"),
  ("clientStreamProcessorMPEGTS.run", "482a55e41f6f3b42"),
  ("clientStreamProcessorMPEGTS.processSegment", "b62bfcb71a3c99ef"),
  ("clientStreamProcessorMPEGTS.joinTrackProcessors", "771847922b377c97"),
  ("clientStreamProcessorMPEGTS.initializeReader", "7a33070791c1108a"),
  ("clientStreamProcessorMPEGTS.initializeTrackProcessors", "97eaa17ae5328637"),
  ("clientTrackProcessorMPEGTS.process", "8dcd447ca49aabd9"),
  ("clientTrack.handleData", "45d8ee066c639af2"),
  ("findSegmentWithInvPosition", "5518aef95f15bb24"),
  ("findSegmentWithID", "12038067c445c321"),
  ("dateTimeOfPreloadHint", "9f77d16994154bd8"),
  ("clientStreamDownloader.run", "92baddbf46b49c37"),
  ("clientStreamDownloader.runLowLatency", "f572bafa3e47a0d6"),
  ("clientStreamDownloader.runTraditional", "be465b4d2899b108"),
  ("clientStreamDownloader.downloadPlaylist", "e9312602cb82b694"),
  ("clientStreamDownloader.fillSegmentQueue", "32f4c87a59a596d8"),
  ("clientStreamDownloader.setTracks", "ea23dc6425b141ce"),
  ("clientStreamDownloader.setEnded", "9fa915a4eb5cdd64"),
  ("downloadPlaylist", "8dfddfabb80f9019"),
  ("pickLeadingPlaylist", "3bce94b2d6ca1473"),
  ("getRenditionsByGroup", "e5645caad42e856f"),
  ("clientPrimaryDownloader.run", "0ed55d1a61bd5908"),
  ("Client.setTracks", "4764167e8a5ccd23"),
  ("Client.setLeadingTimeConv", "338b48de7e533bd9"),
  ("Client.runInner", "5301bc90c6ec7920"),
  ("partsAreEmpty", "3dee11df7aa86480")
]

theorem c13_source_pins : pins = expectedPins := by decide

/-- fix-F28 is in place: the Low-Latency loop ends the stream (nil marker, `<-ctx.Done()`) when the reloaded playlist
    carries ENDLIST and no preload hint, instead of failing with "preload hint disappeared" (regenerated flag; the
    model's `runLowLatency` follows it, the safety theorems hold for either value). -/
theorem c13_ll_end_of_stream : genFlags.llEndsOnEndlist = true := by decide

/-- `clientStreamProcessorFMP4.run` is exactly the statement sequence the model's `fmp4Start` follows, with the
    guards that repair F9 (`guardZeroTimeScale`) and F8 (`filterSupported` … `assignSupported`) in place. -/
theorem c13_run_steps : fmp4RunSteps = ["unmarshalInit", "returnOnDecodeError", "guardZeroTimeScale", "guardRenditionOneTrack", "declSupported", "filterSupported", "guardNoSupported", "assignSupported", "pickLeading", "makeTracks", "buildTracks", "guardMaxTracks", "declOk", "setTracks", "returnOnTerminated", "segmentLoop"] := by decide

/-- Every guard the safety theorems rely on is present in the source (regenerated flags):
    zero time scale (F9), unsupported-codec filter (F8), per-segment completion channel (F17), missing leading
    data, unknown part-track ids, converter-kind checks, nil processor test, the index / nil guards of the
    download loops. -/
theorem c13_guards_present : genFlags.Guarded := by
  constructor <;> decide

/-- … and the rejections `c13_error_or_skip` speaks about. -/
theorem c13_rejections_present :
    genFlags.renditionOneTrack = true ∧ genFlags.maxTracksFMP4 = true ∧ genFlags.maxTracksTS = true ∧
    genFlags.noSupportedTS = true ∧ genFlags.noLeadingDataTS = true ∧ genFlags.noGroup = true ∧
    genFlags.noTracks = true ∧ genFlags.tooLate = true ∧ genFlags.capsDTSRTC = true ∧ genFlags.dropsNegativePTS = true := by
  decide

/-- The repair of F15 is present: a segment / part in which no part-track has a sample is skipped (on every stream), and a
    leading stream that reaches its end without ever having defined the time origin ends with an error instead of leaving
    the other streams waiting for it (`c13_guards_present` needs the latter: without it the model wedges, see the example). -/
theorem c13_f15_repair_present :
    genFlags.skipsEmptySegments = true ∧ genFlags.skipsEmptyLeadingToo = true ∧ genFlags.leadingEndNeedsOrigin = true ∧
    genFlags.skipNeedsFragment = true := by
  decide

/-- Coverage of the type switches over EVERY implementation of `fmp4.Codec` in mediacommon: a kind `FromFMP4`
    maps to a `codecs.*` value has a `decodePayload` case in `clientTrackProcessorFMP4.initialize`; every other
    kind is filtered out by `run` before a processor is created. The tables do not mention unknown names. -/
theorem c13_fmp4_codec_coverage :
    fmp4CodecTypes.all (fun p => match fromFMP4 p.1 with
      | some c => fmp4DecodePayloadCases.contains c
      | none => genFlags.filtersUnsupported) = true ∧
    fromFMP4Decodable = true ∧
    fromFMP4Cases.all (fun p => (fmp4CodecTypes.lookup p.1).isSome) = true ∧
    toFMP4Cases.all (fun p => fromFMP4 p.2 == some p.1) = true := by
  decide

/-- … and over every implementation of `mpegts.Codec`: a kind `initializeReader` keeps is one `FromMPEGTS` maps to a
    `codecs.*` value for which a reader call-back is registered; every other kind never becomes a track. -/
theorem c13_mpegts_codec_coverage :
    mpegtsCodecTypes.all (fun p =>
      if mpegtsSupportedKinds.contains p.1 then
        (match fromMPEGTS p.1 with | some c => (mpegtsOnDataCases.lookup c).isSome | none => false)
      else true) = true ∧
    mpegtsSupportedKnown = true ∧
    mpegtsSupportedKinds.all (fun k => (mpegtsCodecTypes.lookup k).isSome) = true ∧
    (mpegtsCodecTypes.lookup mpegtsLeadingKind).isSome = true ∧
    toMPEGTSCases.all (fun p => fromMPEGTS p.2 == some p.1) = true := by
  decide

/-- constants and loop shapes the theorems are about -/
theorem c13_constants :
    0 < clientLiveInitialDistance ∧ 0 < clientMaxTracksPerStream ∧ 0 < clientMaxDTSRTCDiff ∧
    traditionalLoopShape = true ∧ lowLatencyLoopShape = true := by decide

/-! ## `c13_no_panic` -/

/-- fMP4 path: whatever the decoded init (any ids, time scales, codec names, also none / duplicates / hundreds of
    tracks) and whatever the decoded segments (any part-tracks, ids, base times, sample counts, durations,
    offsets, undecodable payloads, decode failures), for a leading stream or a rendition, whatever converter the
    leading stream has installed (`ConvOK` holds for every client state the model can reach, `{}` included), and
    whatever the wall clock says, `run` never panics and never blocks on its completion channel. -/
theorem c13_no_panic_fmp4 (F : Flags) (G : F.Guarded) (elapsed : Int) (isLeading : Bool) (firstIdx : Nat)
    (init : Option (List InitTrack)) (c : ClientSt) (hc : ConvOK c) (segs : List (Option Int × Option Parts)) :
    (fmp4Path F elapsed isLeading firstIdx init c segs).safe :=
  fmp4Path_safe F G.f c13_fmp4_codec_coverage.2.1 elapsed isLeading firstIdx init c hc segs

/-- MPEG-TS path: whatever tracks the reader found (any codec names, any number) and whatever it calls back
    (any track index, raw time stamps, decode errors, in any order). -/
theorem c13_no_panic_mpegts (F : Flags) (G : F.Guarded) (elapsed : Int) (isLeading : Bool) (firstIdx : Nat)
    (kinds : List String) (c : ClientSt) (hc : ConvOK c) (segs : List (Option Int × List TSItem)) :
    (tsPath F elapsed isLeading firstIdx kinds c segs).safe :=
  tsPath_safe F G.t elapsed isLeading firstIdx kinds c hc segs

/-- The whole client against an arbitrary scripted server: any primary playlist view, any number of streams of
    either container kind (mixed included), any playlist answers (failing, multivariant where media is expected,
    any sequence numbers / segment lists / ENDLIST / LL fields), any init, any payload table. -/
theorem c13_no_panic (F : Flags) (G : F.Guarded) (elapsed : Int) (prim : Primary) (streams : List StreamIn) :
    (clientRun F elapsed prim streams).safe :=
  clientRun_safe F G c13_fmp4_codec_coverage.2.1 c13_constants.1 elapsed prim streams

/-- … in particular for the code that exists. -/
theorem c13_no_panic_repo (elapsed : Int) (prim : Primary) (streams : List StreamIn) :
    ∀ k, clientRun genFlags elapsed prim streams ≠ .panic k ∧ clientRun genFlags elapsed prim streams ≠ .wedge := by
  intro k
  have h := c13_no_panic genFlags c13_guards_present elapsed prim streams
  constructor <;> intro he <;> simp [he, Outcome.safe] at h

/-! ### non-vacuity: concrete weird content, and what happens without each guard -/

def vod (n : Nat) (isFMP4 : Bool) : MediaView :=
  { map := if isFMP4 then some true else none, vod := true, segs := (List.range n).map fun i => { file := some i }, endlist := true }

/-- H264 + MPEG-1 audio (a codec `FromFMP4` does not know) + AAC, zero-duration and negative-offset samples, a base time
    just below 2^33, an unknown part-track id, an empty `traf` of the filtered-out track, an empty fragment -/
def weirdInit : List InitTrack :=
  [{ id := 7, timeScale := 90000, kind := "H264" }, { id := 2, timeScale := 48000, kind := "MPEG1Audio" },
   { id := 3, timeScale := 44100, kind := "MPEG4Audio" }]
def weirdParts : Parts :=
  [[{ id := 7, baseTime := 8589934000, samples := [{ dur := 0, off := 0, pid := 1 }, { dur := 4294967295, off := -2147483648, pid := 2 }] },
    { id := 99, baseTime := 0, samples := [{ dur := 1, off := 0, pid := 3 }] },
    { id := 2, baseTime := 5, samples := [] }], []]
def weirdStream : StreamIn :=
  { first := .media (vod 1 true), reloads := [], init := some weirdInit, files := [.parts weirdParts] }

example : clientRun genFlags 0 .media [weirdStream] =
    .skip [(some "H264", 90000), (some "MPEG4Audio", 44100)]
      [.delivered 0 1 0 0, .dropped 0 2, .skippedPartTrack 99, .skippedPartTrack 2] := by decide

/-- duplicate track ids: the later init track owns the id, its clock rate turns the leading base time into an absurd
    DTS — an error from `Wait`, not a crash -/
def dupInit : List InitTrack := [{ id := 7, timeScale := 90000, kind := "H264" }, { id := 7, timeScale := 44100, kind := "MPEG4Audio" }]
example : clientRun genFlags 0 .media [{ weirdStream with init := some dupInit }] =
    .error .dtsRtcTooBig (some [(some "H264", 90000), (some "MPEG4Audio", 44100)]) := by decide

/-- without the filter that repairs F8 the same content calls a nil `decodePayload` … -/
example : clientRun { genFlags with filtersUnsupported := false } 0 .media
    [{ weirdStream with files := [.parts [[{ id := 2, baseTime := 5, samples := [{ dur := 1, off := 0, pid := 3 }] },
                                         { id := 7, baseTime := 0, samples := [] }]]] }] = .panic .nilFunc := by decide
/-- … without the guard that repairs F9 a zero time scale divides by zero … -/
example : clientRun { genFlags with zeroTimeScale := false } 0 .media
    [{ weirdStream with init := some [{ id := 1, timeScale := 0, kind := "H264" }],
                        files := [.parts [[{ id := 1, baseTime := 5, samples := [] }]]] }] = .panic .divZero := by decide
/-- … with the completion channel sized once (F17) fourteen part-tracks can block it … -/
example : clientRun { genFlags with chanPerSegment := false } 0 .media
    [{ weirdStream with init := some [{ id := 1, timeScale := 90000, kind := "H264" }],
                        files := [.parts [(List.range 14).map fun i => { id := 1, baseTime := Int.ofNat i, samples := [] }]] }] = .wedge := by decide
/-- … a rendition of the other container kind fails the unchecked type assertion … -/
example : clientRun { genFlags with checksConvKindFMP4 := false } 0 (.multi true (some true))
    [{ first := .media (vod 1 false), files := [.ts { kinds := ["H264"], items := [.sample 0 0 0 1] }] },
     { first := .media (vod 1 true), init := some [{ id := 1, timeScale := 48000, kind := "MPEG4Audio" }],
       files := [.parts [[{ id := 1, baseTime := 5, samples := [] }]]] }] = .panic .typeAssert := by decide
/-- … and a live playlist shorter than the initial distance indexes out of range without the `index < 0` test. -/
example : clientRun { genFlags with invPosNegative := false } 0 .media
    [{ first := .media { vod 2 false with vod := false }, files := [] }] = .panic .index := by decide

/-! ## `c13_progress` -/

/-- Processing one fMP4 segment is structural recursion over the decoded value (the definitions of
    `fmp4ProcessSegment`, `fmp4PushLoop`, `fmp4Process` are accepted by Lean as such, hence total), and what it does
    is bounded by the size of that value: at most one event per part-track plus one per sample (plus the one
    `skippedSegment` event of an all-empty segment). -/
theorem c13_progress_fmp4_segment (F : Flags) (G : F.Guarded) (elapsed : Int) (s : FStream) (hs : FOK s) (c : ClientSt)
    (hc : ConvOK c) (hp : s.procs.isSome = true → IsFMP4 c) (dateTime : Option Int) (parts : Parts)
    (s' : FStream) (c' : ClientSt) (evs : List Event)
    (h : fmp4ProcessSegment F elapsed s c dateTime (some parts) = .ok (s', c', evs)) :
    evs.length ≤ ((parts.flatten).map fun pt => 1 + pt.samples.length).sum + 1 :=
  (Res.sat_elim (fmp4ProcessSegment_sat F G.f c13_fmp4_codec_coverage.2.1 elapsed s hs c hc hp dateTime (some parts)) h).2.2.2.2.1 parts rfl

/-- Same for an MPEG-TS segment: at most one event per reader call-back / decode error. -/
theorem c13_progress_mpegts_segment (F : Flags) (G : F.Guarded) (elapsed : Int) (s : TStream) (st : TSState) (c : ClientSt)
    (hinv : TSInv st c) (dateTime : Option Int) (items : List TSItem) (st' : TSState) (c' : ClientSt) (evs : List Event)
    (h : tsProcessSegment F elapsed s st c dateTime items = .ok (st', c', evs)) :
    evs.length ≤ items.length :=
  (Res.sat_elim (tsProcessSegment_sat F G.t elapsed s st c hinv dateTime items) h).2

/-- The traditional download loop (`runTraditional`) is structural recursion over the server's answers to the
    playlist reloads. With `n` answers still to come it starts at most `n + 1` iterations; every iteration but the
    last one has issued a segment request AND a playlist reload before the next can start; nothing is pushed that
    was not downloaded; and it is found blocked (`starved`) only inside a request, with every answer consumed.
    So the loop cannot spin without server input. -/
theorem c13_progress_traditional (F : Flags) (G : F.Guarded) (firstVOD : Bool) (cur : Option Int) (pl : MediaView)
    (reloads : List PlResp) :
    let t := runTraditional F firstVOD cur pl reloads
    1 ≤ t.iters ∧ t.iters ≤ reloads.length + 1 ∧ t.iters ≤ t.segReqs + 1 ∧ t.iters ≤ t.plReqs + 1 ∧
    t.plReqs ≤ reloads.length + 1 ∧ t.pushes.length ≤ t.segReqs ∧ (t.fin = .starved → t.plReqs = reloads.length + 1) := by
  have h := runTraditional_props F G.d c13_constants.1 firstVOD reloads cur pl
  exact ⟨h.itersPos, h.itersAnswers, h.itersSeg, h.itersPl, h.plAnswers, h.pushesSeg, h.starved⟩

/-- Same for the low-latency loop (`runLowLatency`): one preload-hint request and one playlist reload per iteration. -/
theorem c13_progress_low_latency (F : Flags) (G : F.Guarded) (pl : MediaView) (hh : pl.hint.isSome = true)
    (reloads : List PlResp) :
    let t := runLowLatency F pl reloads
    1 ≤ t.iters ∧ t.iters ≤ reloads.length + 1 ∧ t.iters ≤ t.segReqs + 1 ∧ t.iters ≤ t.plReqs + 1 ∧
    t.plReqs ≤ reloads.length + 1 ∧ t.pushes.length ≤ t.segReqs ∧ (t.fin = .starved → t.plReqs = reloads.length + 1) := by
  have h := runLowLatency_props F G.d reloads pl hh
  exact ⟨h.itersPos, h.itersAnswers, h.itersSeg, h.itersPl, h.plAnswers, h.pushesSeg, h.starved⟩

/-- non-vacuity: a live playlist that never gains a segment — the loop stops with an error after one reload, it does
    not poll; a server that stops answering leaves the loop blocked in its request -/
example : (runTraditional genFlags false none { segs := [{ file := some 0 }, { file := some 1 }, { file := some 2 }] }
    [.media { segs := [{ file := some 0 }, { file := some 1 }, { file := some 2 }] }]).iters = 2 := by decide
example : (match (runTraditional genFlags false none { segs := [{ file := some 0 }, { file := some 1 }, { file := some 2 }] } []).fin with
    | .starved => true | _ => false) = true := by decide

/-! ## `c13_error_or_skip` -/

/-- Unsupported codec ⇒ the track is not exposed (or `Wait` yields an error): every track any outcome of the client
    shows to the application — on success, on skipped pieces and on errors after `OnTracks` — carries a non-nil codec,
    whatever codec names the init / the PMT contained. -/
theorem c13_error_or_skip (F : Flags) (hz : F.zeroTimeScale = true) (hf : F.filtersUnsupported = true) (elapsed : Int)
    (prim : Primary) (streams : List StreamIn) :
    ∀ v ∈ (clientRun F elapsed prim streams).exposed, v.1.isSome = true :=
  clientRun_exposed F hz hf c13_mpegts_codec_coverage.2.1 elapsed prim streams

/-- … and the client either delivers, skips (reporting) or ends with an error: there is no fourth way out. -/
theorem c13_error_or_skip_total (F : Flags) (G : F.Guarded) (elapsed : Int) (prim : Primary) (streams : List StreamIn) :
    (∃ ts evs, clientRun F elapsed prim streams = .deliver ts evs) ∨ (∃ ts evs, clientRun F elapsed prim streams = .skip ts evs) ∨
    (∃ e ts, clientRun F elapsed prim streams = .error e ts) := by
  have h := c13_no_panic F G elapsed prim streams
  cases hc : clientRun F elapsed prim streams with
  | deliver ts evs => exact Or.inl ⟨ts, evs, rfl⟩
  | skip ts evs => exact Or.inr (Or.inl ⟨ts, evs, rfl⟩)
  | error e ts => exact Or.inr (Or.inr ⟨e, ts, rfl⟩)
  | panic k => simp [hc, Outcome.safe] at h
  | wedge => simp [hc, Outcome.safe] at h

/-- No supported track ⇒ error (fMP4): an init whose codecs `FromFMP4` all maps to nil is rejected. -/
theorem c13_no_supported_track_fmp4 (F : Flags) (hf : F.filtersUnsupported = true) (isLeading rendition : Bool) (firstIdx : Nat)
    (init : List InitTrack) (hall : ∀ t ∈ init, fromFMP4 t.kind = none) :
    ∃ e, fmp4Start F isLeading rendition firstIdx (some init) = .error e := by
  unfold fmp4Start
  simp only [hf, if_true, Bool.true_and]
  have hnil : (init.filter fun t => (fromFMP4 t.kind).isSome) = [] := by
    apply List.filter_eq_nil_iff.mpr
    intro t ht
    simp [hall t ht]
  split
  · exact ⟨_, rfl⟩
  · split
    · exact ⟨_, rfl⟩
    · simp [hnil]

/-- No supported track ⇒ error (MPEG-TS). -/
theorem c13_no_supported_track_mpegts (F : Flags) (hg : F.noSupportedTS = true) (isLeading : Bool) (firstIdx : Nat)
    (kinds : List String) (hall : ∀ k ∈ kinds, mpegtsSupportedKinds.contains k = false) :
    tsStart F isLeading firstIdx kinds = .error .noSupportedTracks := by
  have aux : ∀ (l : List String) (i : Nat) (q : Nat × String), q ∈ enumFrom i l → q.2 ∈ l := by
    intro l
    induction l with
    | nil => intro i q hq; simp [enumFrom] at hq
    | cons a rest ih =>
      intro i q hq
      simp only [enumFrom, List.mem_cons] at hq
      cases hq with
      | inl h => subst h; simp
      | inr h => exact List.mem_cons_of_mem _ (ih _ _ h)
  have hnil : ((enumFrom 0 kinds).filter fun p => mpegtsSupportedKinds.contains p.2) = [] := by
    apply List.filter_eq_nil_iff.mpr
    intro p hp
    rw [hall p.2 (aux kinds 0 p hp)]
    simp
  unfold tsStart
  simp only [hnil, hg, List.isEmpty_nil, Bool.and_self, if_true]

/-- TimeScale 0 ⇒ error. -/
theorem c13_zero_time_scale (F : Flags) (hz : F.zeroTimeScale = true) (isLeading rendition : Bool) (firstIdx : Nat)
    (init : List InitTrack) (t : InitTrack) (ht : t ∈ init) (h0 : t.timeScale = 0) :
    fmp4Start F isLeading rendition firstIdx (some init) = .error .zeroTimeScale := by
  unfold fmp4Start
  have : init.any (fun t => t.timeScale == 0) = true := List.any_eq_true.mpr ⟨t, ht, by simp [h0]⟩
  simp [hz, this]

/-- A rendition whose init does not have exactly one track ⇒ error. -/
theorem c13_rendition_one_track (F : Flags) (hg : F.renditionOneTrack = true) (rendition : Bool) (firstIdx : Nat)
    (init : List InitTrack) (hlen : init.length ≠ 1) (hsup : ∀ t ∈ init, (fromFMP4 t.kind).isSome = true) :
    ∃ e, fmp4Start F false rendition firstIdx (some init) = .error e := by
  unfold fmp4Start
  have hfilter : (init.filter fun t => (fromFMP4 t.kind).isSome) = init := List.filter_eq_self.mpr hsup
  have h1 : (if F.filtersUnsupported = true then init.filter (fun t => (fromFMP4 t.kind).isSome) else init) = init := by
    split <;> simp [hfilter]
  have hne : (init.length != 1) = true := by simpa using hlen
  simp only [h1, hg, hne, Bool.true_and, Bool.not_false, Bool.and_true]
  split
  · exact ⟨_, rfl⟩
  · cases hb : F.renditionBeforeFilter with
    | true => simp only [if_true]; exact ⟨_, rfl⟩
    | false =>
      simp only [Bool.false_eq_true, if_false, Bool.not_false, if_true]
      split
      · exact ⟨_, rfl⟩
      · exact ⟨_, rfl⟩

/-- More than `clientMaxTracksPerStream` supported tracks ⇒ error (fMP4). -/
theorem c13_too_many_tracks_fmp4 (F : Flags) (hg : F.maxTracksFMP4 = true) (isLeading rendition : Bool) (firstIdx : Nat)
    (init : List InitTrack) (hsup : ∀ t ∈ init, (fromFMP4 t.kind).isSome = true)
    (hmany : clientMaxTracksPerStream < (init.length : Int)) :
    ∀ s, fmp4Start F isLeading rendition firstIdx (some init) ≠ .ok s := by
  intro s hs
  unfold fmp4Start at hs
  have hfilter : (init.filter fun t => (fromFMP4 t.kind).isSome) = init := List.filter_eq_self.mpr hsup
  have h1 : (if F.filtersUnsupported = true then init.filter (fun t => (fromFMP4 t.kind).isSome) else init) = init := by
    split <;> simp [hfilter]
  have hlen : (buildTracks init).length = init.length := by simp [buildTracks]
  have hgt : decide (((buildTracks init).length : Int) > clientMaxTracksPerStream) = true := by
    rw [hlen]; simpa using hmany
  simp only [h1, hg, hgt, Bool.and_self, if_true] at hs
  split at hs
  · cases hs
  · split at hs
    · cases hs
    · split at hs
      · cases hs
      · split at hs
        · cases hs
        · obtain ⟨lid, _, hs⟩ := Res.bind_eq_ok hs
          split at hs <;> cases hs

/-- More than `clientMaxTracksPerStream` supported tracks ⇒ error (MPEG-TS). -/
theorem c13_too_many_tracks_mpegts (F : Flags) (hg : F.maxTracksTS = true) (isLeading : Bool) (firstIdx : Nat) (kinds : List String)
    (hmany : clientMaxTracksPerStream < ((((enumFrom 0 kinds).filter fun p => mpegtsSupportedKinds.contains p.2).length : Nat) : Int)) :
    ∃ e, tsStart F isLeading firstIdx kinds = .error e := by
  unfold tsStart
  simp only
  split
  · exact ⟨_, rfl⟩
  · simp only [hg, Bool.true_and, List.length_map, decide_eq_true_eq]
    rw [if_pos hmany]
    exact ⟨_, rfl⟩

/-- Missing leading-track data ⇒ error (fMP4), stated precisely after the repair of F15: a segment that carries at least one
    sample but no part-track of the stream's leading track is an error — for every stream and every flag assignment. -/
theorem c13_no_leading_data_fmp4 (F : Flags) (hg : F.noLeadingDataFMP4 = true) (elapsed : Int) (s : FStream) (c : ClientSt)
    (dateTime : Option Int) (parts : Parts) (hno : ∀ pt ∈ parts.flatten, pt.id ≠ s.leadingTrackID)
    (hsome : ∃ pt ∈ parts.flatten, pt.samples ≠ []) :
    fmp4ProcessSegment F elapsed s c dateTime (some parts) = .error .noLeadingData := by
  unfold fmp4ProcessSegment
  have : findFirstPT parts s.leadingTrackID = none := by
    apply List.find?_eq_none.mpr
    intro pt hpt
    simpa using hno pt hpt
  have hne : partsEmpty parts = false := by
    obtain ⟨pt, hpt, hs⟩ := hsome
    cases h : partsEmpty parts with
    | false => rfl
    | true =>
      have := List.all_eq_true.mp h pt hpt
      simp [List.isEmpty_iff] at this
      exact absurd this hs
  simp [this, hg, hne]

/-- Repair of F15: a segment / part in which no part-track has a sample (and which therefore has nothing of the leading track
    either) is SKIPPED: no error, no delivery, and nothing is touched — the stream processor (in particular its lazily
    created track processors: an empty FIRST segment creates none, defines no origin and does not wait for one) and the
    client's time converter are exactly as before, so later segments are processed as if the empty one had not been there.
    (`hl`: the code that exists skips on every stream; a rendition-only variant of the guard is covered too.) -/
theorem c13_empty_segment_skipped (F : Flags) (hf : F.skipsEmptySegments = true) (elapsed : Int) (s : FStream)
    (hl : F.skipsEmptyLeadingToo = true ∨ s.isLeading = false) (c : ClientSt) (dateTime : Option Int) (parts : Parts)
    (hne : parts ≠ [])
    (hno : ∀ pt ∈ parts.flatten, pt.id ≠ s.leadingTrackID) (hempty : ∀ pt ∈ parts.flatten, pt.samples = []) :
    fmp4ProcessSegment F elapsed s c dateTime (some parts) = .ok (s, c, [.skippedSegment]) := by
  unfold fmp4ProcessSegment
  have hnp : parts.isEmpty = false := by cases parts <;> simp_all
  have : findFirstPT parts s.leadingTrackID = none := by
    apply List.find?_eq_none.mpr
    intro pt hpt
    simpa using hno pt hpt
  have he : partsEmpty parts = true := by
    apply List.all_eq_true.mpr
    intro pt hpt
    simp [hempty pt hpt]
  cases hl with
  | inl h => simp [this, hf, h, he, hnp]
  | inr h => simp [this, hf, h, he, hnp]

/-- A body without any fragment (no `moof` at all: an empty 200 answer, bytes of another container) is NOT such a segment: it is
    the fatal error "could not find data of leading track" on every stream — skipping it would let the client continue with a
    hole in the stream (C09 "without gaps"). -/
theorem c13_empty_body_is_error (F : Flags) (hg : F.noLeadingDataFMP4 = true) (hfrag : F.skipNeedsFragment = true) (elapsed : Int)
    (s : FStream) (c : ClientSt) (dateTime : Option Int) :
    fmp4ProcessSegment F elapsed s c dateTime (some []) = .error .noLeadingData := by
  simp [fmp4ProcessSegment, findFirstPT, hg, hfrag]

/-- … hence, for a segment without leading-track data: skipped ⇔ it has a fragment and no part-track has a sample; error otherwise. -/
theorem c13_no_leading_data_iff (F : Flags) (hg : F.noLeadingDataFMP4 = true) (hf : F.skipsEmptySegments = true)
    (hfrag : F.skipNeedsFragment = true) (elapsed : Int)
    (s : FStream) (hl : F.skipsEmptyLeadingToo = true ∨ s.isLeading = false) (c : ClientSt) (dateTime : Option Int) (parts : Parts)
    (hno : ∀ pt ∈ parts.flatten, pt.id ≠ s.leadingTrackID) :
    (fmp4ProcessSegment F elapsed s c dateTime (some parts) = .error .noLeadingData ↔
      (parts = [] ∨ ∃ pt ∈ parts.flatten, pt.samples ≠ [])) ∧
    (fmp4ProcessSegment F elapsed s c dateTime (some parts) = .ok (s, c, [.skippedSegment]) ↔
      (parts ≠ [] ∧ ∀ pt ∈ parts.flatten, pt.samples = [])) := by
  by_cases hnil : parts = []
  · subst hnil
    have e := c13_empty_body_is_error F hg hfrag elapsed s c dateTime
    refine ⟨⟨fun _ => Or.inl rfl, fun _ => e⟩, ⟨fun h2 => ?_, fun h2 => absurd rfl h2.1⟩⟩
    rw [e] at h2; cases h2
  · by_cases h : ∃ pt ∈ parts.flatten, pt.samples ≠ []
    · have e := c13_no_leading_data_fmp4 F hg elapsed s c dateTime parts hno h
      refine ⟨⟨fun _ => Or.inr h, fun _ => e⟩, ⟨fun h2 => ?_, fun h2 => ?_⟩⟩
      · rw [e] at h2; cases h2
      · obtain ⟨pt, hpt, hne⟩ := h; exact absurd (h2.2 pt hpt) hne
    · have hall : ∀ pt ∈ parts.flatten, pt.samples = [] := by
        intro pt hpt
        by_cases hs' : pt.samples = []
        · exact hs'
        · exact absurd ⟨pt, hpt, hs'⟩ h
      have e := c13_empty_segment_skipped F hf elapsed s hl c dateTime parts hnil hno hall
      refine ⟨⟨fun h2 => ?_, fun h2 => ?_⟩, ⟨fun _ => ⟨hnil, hall⟩, fun _ => e⟩⟩
      · rw [e] at h2; cases h2
      · cases h2 with
        | inl h3 => exact absurd h3 hnil
        | inr h3 => exact absurd h3 h

/-- A leading fMP4 stream of which every segment was skipped (it never created its track processors, so it never defined the
    time origin) does not end normally: reaching the end of the stream is the error the missing leading-track data would
    have been. Progress is not affected by skipping: every skipped piece was downloaded by one iteration of a download
    loop (`c13_progress_traditional` / `_low_latency`: pushes ≤ requests, iterations ≤ server answers + 1). -/
theorem c13_leading_without_origin_is_error (F : Flags) (hg : F.leadingEndNeedsOrigin = true) (s : FStream)
    (hl : s.isLeading = true) (hp : s.procs = none) : streamEnd F (.fmp4 s) = .error .noLeadingData := by
  simp [streamEnd, hg, hl, hp]

/-- Missing leading-track data ⇒ error (MPEG-TS): a segment in which the leading track is never called back. -/
theorem c13_no_leading_data_mpegts (F : Flags) (hg : F.noLeadingDataTS = true) (elapsed : Int) (s : TStream) (st : TSState)
    (c : ClientSt) (dateTime : Option Int) (items : List TSItem) (hno : ∀ it ∈ items, isLeadingSample s it = false) :
    ∀ r, tsProcessSegment F elapsed s st c dateTime items ≠ .ok r :=
  tsProcessSegment_noLeading F hg elapsed s st c dateTime items hno

/-- Mixed container types between renditions ⇒ error: an fMP4 rendition under an MPEG-TS leading stream, at its first segment
    that carries data of its track (all-empty segments are skipped before, `c13_empty_segment_skipped`) … -/
theorem c13_mixed_fmp4_under_mpegts (F : Flags) (hg : F.checksConvKindFMP4 = true) (elapsed : Int)
    (s : FStream) (hs : s.isLeading = false) (hp : s.procs = none) (t : TConv) (dateTime : Option Int) (parts : Parts)
    (lpt : PartTrack) (hl : findFirstPT parts s.leadingTrackID = some lpt) :
    fmp4ProcessSegment F elapsed s { conv := some (.ts t) } dateTime (some parts) = .error .mixedContainers := by
  unfold fmp4ProcessSegment
  simp [hl, hp, fmp4InitProcs, hs, hg, Bind.bind, Res.bind]

/-- … and an MPEG-TS rendition under an fMP4 leading stream, at the first call-back of its leading track. -/
theorem c13_mixed_mpegts_under_fmp4 (F : Flags) (hg : F.checksConvKindTS = true) (elapsed : Int) (s : TStream)
    (hs : s.isLeading = false) (st : TSState) (hst : st.procsReady = false) (f : FConv) (dateTime : Option Int)
    (rawPTS rawDTS : Int) (pid : Nat) :
    tsProcessSample F elapsed s dateTime st { conv := some (.fmp4 f) } s.leadingIdx rawPTS rawDTS pid = .error .mixedContainers := by
  unfold tsProcessSample
  simp [hs, hst, hg, Bind.bind, Res.bind]

/-! ### non-vacuity for `c13_error_or_skip`: every mediacommon codec, wrong counts, wrong containers -/

/-- an init with one track of EVERY `fmp4.Codec` implementation: exactly the six supported ones are exposed -/
example : (match fmp4Start genFlags true false 0 (some ((fmp4CodecTypes.map (·.1)).map fun k => { id := 1, timeScale := 1000, kind := k })) with
    | .ok s => s.tracks.map (·.codec)
    | _ => []) = [some "AV1", some "H264", some "H265", some "MPEG4Audio", some "Opus", some "VP9"] := by decide
/-- a PMT with one stream of EVERY `mpegts.Codec` implementation: exactly H264 and MPEG-4 audio are exposed -/
example : (match tsStart genFlags true 0 (mpegtsCodecTypes.map (·.1)) with
    | .ok s => s.tracks.map (·.codec)
    | _ => []) = [some "H264", some "MPEG4Audio"] := by decide
example : (match fmp4Start genFlags true false 0 (some [{ id := 1, timeScale := 1000, kind := "MJPEG" }, { id := 2, timeScale := 1000, kind := "AC3" }]) with
    | .error .noSupportedTracks => true | _ => false) = true := by decide
example : (match tsStart genFlags true 0 ["H265", "Opus", "Unsupported"] with
    | .error .noSupportedTracks => true | _ => false) = true := by decide
example : (match fmp4Start genFlags true false 0 (some ((List.range 11).map fun i => { id := Int.ofNat i, timeScale := 1000, kind := "Opus" })) with
    | .error .tooManyTracks => true | _ => false) = true := by decide
example : (match tsStart genFlags true 0 (List.replicate 11 "MPEG4Audio") with
    | .error .tooManyTracks => true | _ => false) = true := by decide
example : (match fmp4Start genFlags false true 0 (some [{ id := 1, timeScale := 1000, kind := "Opus" }, { id := 2, timeScale := 1000, kind := "MJPEG" }]) with
    | .error .renditionMultiTrack => true | _ => false) = true := by decide
/-- mixed renditions, whole client: MPEG-TS leading stream + fMP4 rendition, and the other way round -/
example : (match clientRun genFlags 0 (.multi true (some true))
    [{ first := .media (vod 1 false), files := [.ts { kinds := ["H264"], items := [.sample 0 0 0 1] }] },
     { first := .media (vod 1 true), init := some [{ id := 1, timeScale := 48000, kind := "MPEG4Audio" }],
       files := [.parts [[{ id := 1, baseTime := 5, samples := [] }]]] }] with
    | .error .mixedContainers _ => true | _ => false) = true := by decide
example : (match clientRun genFlags 0 (.multi true (some true))
    [{ first := .media (vod 1 true), init := some [{ id := 1, timeScale := 90000, kind := "H264" }],
       files := [.parts [[{ id := 1, baseTime := 5, samples := [] }]]] },
     { first := .media (vod 1 false), files := [.ts { kinds := ["MPEG4Audio"], items := [.sample 0 0 0 1] }] }] with
    | .error .mixedContainers _ => true | _ => false) = true := by decide
/-- F15: a rendition whose FIRST and MIDDLE segments carry no sample (a `moof` without `traf`, what the muxer serves when the
    audio track wrote nothing between two cuts): both are skipped, the third is delivered, the client ends with EOS … -/
def f15Lead : StreamIn :=
  { first := .media (vod 3 true), reloads := [.media (vod 3 true), .media (vod 3 true)], init := some [{ id := 1, timeScale := 90000, kind := "H264" }],
    files := [.parts [[{ id := 1, baseTime := 900, samples := [{ dur := 300, off := 0, pid := 1 }] }]],
              .parts [[{ id := 1, baseTime := 1200, samples := [{ dur := 300, off := 0, pid := 2 }] }]],
              .parts [[{ id := 1, baseTime := 1500, samples := [{ dur := 300, off := 0, pid := 3 }] }]]] }
def f15Rend : StreamIn :=
  { first := .media (vod 3 true), reloads := [.media (vod 3 true), .media (vod 3 true)], init := some [{ id := 1, timeScale := 48000, kind := "MPEG4Audio" }],
    files := [.parts [[]], .parts [[]], .parts [[{ id := 1, baseTime := 800, samples := [{ dur := 160, off := 0, pid := 9 }] }]]] }
example : clientRun genFlags 0 (.multi true (some true)) [f15Lead, f15Rend] =
    .skip [(some "H264", 90000), (some "MPEG4Audio", 48000)]
      [.delivered 0 1 0 0, .delivered 0 2 300 300, .delivered 0 3 600 600, .skippedSegment, .skippedSegment, .delivered 1 9 320 320] := by
  decide
/-- … without the repair the same content ends with "could not find data of leading track" … -/
example : (match clientRun { genFlags with skipsEmptySegments := false } 0 (.multi true (some true)) [f15Lead, f15Rend] with
    | .error .noLeadingData _ => true | _ => false) = true := by decide
/-- … an all-empty segment in the middle of the LEADING stream is skipped as well … -/
example : (match clientRun genFlags 0 (.multi true (some true))
    [{ f15Lead with files := [.parts [[{ id := 1, baseTime := 900, samples := [{ dur := 300, off := 0, pid := 1 }] }]], .parts [[]],
                              .parts [[{ id := 1, baseTime := 1500, samples := [{ dur := 300, off := 0, pid := 3 }] }]]] }, f15Rend] with
    | .skip _ evs => evs.length | _ => 0) = 6 := by decide
/-- … but a leading stream that carries no sample at all, while a rendition has data waiting for its origin, ends with an error … -/
example : (match clientRun genFlags 0 (.multi true (some true)) [{ f15Lead with files := [.parts [[]], .parts [[]], .parts [[]]] }, f15Rend] with
    | .error .noLeadingData _ => true | _ => false) = true := by decide
/-- … which is needed: with the skip but without that end-of-stream guard the rendition would wait for ever (`wedge`; the real
    client does: Wait() never yields) … -/
example : clientRun { genFlags with leadingEndNeedsOrigin := false } 0 (.multi true (some true))
    [{ f15Lead with files := [.parts [[]], .parts [[]], .parts [[]]] }, f15Rend] = .wedge := by decide
/-- … a body without any fragment (an empty 200 answer) is not skipped: fatal error, on a rendition as on the leading stream … -/
example : (match clientRun genFlags 0 (.multi true (some true)) [f15Lead, { f15Rend with files := [.parts []] }] with
    | .error .noLeadingData _ => true | _ => false) = true := by decide
/-- … and so is a rendition segment that has samples, but of another track only. -/
example : (match clientRun genFlags 0 (.multi true (some true))
    [f15Lead, { f15Rend with files := [.parts [[{ id := 5, baseTime := 0, samples := [{ dur := 1, off := 0, pid := 7 }] }]]] }] with
    | .error .noLeadingData _ => true | _ => false) = true := by decide

/-- no leading-track data in the second segment -/
example : (match clientRun genFlags 0 .media
    [{ first := .media (vod 2 true), reloads := [.media (vod 2 true)], init := some [{ id := 1, timeScale := 90000, kind := "H264" }, { id := 2, timeScale := 48000, kind := "Opus" }],
       files := [.parts [[{ id := 1, baseTime := 5, samples := [] }]], .parts [[{ id := 2, baseTime := 5, samples := [{ dur := 1, off := 0, pid := 4 }] }]]] }] with
    | .error .noLeadingData _ => true | _ => false) = true := by decide

end Hls.Props.C13
