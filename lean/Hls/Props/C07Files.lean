import Hls.Muxer.CloseLemmas
import Hls.Props.C18
/-!
# C07 — "Every file the muxer created in Directory has been removed" (sequential part)

`Hls.Muxer.close` mirrors what `Muxer.Close` / `muxerStream.close` do to the files: `Remove` the file of
every listed segment and of the open one, stream by stream. With the file invariant of C18
(`c18_files`: the files are exactly the listed real segments and the open one, per stream) nothing is left.
The schedule-quantified clauses of C07 are in `Hls/Props/C07.lean`.
-/
namespace Hls.Props.C07
open Hls.Muxer

/-- After `Close`, at whatever point of the muxer's life (any configuration accepted by `Start`, any
    sequence of writes, successful or not), no file is left in `Directory`. -/
theorem c07_files_removed {cfg : Cfg} {st0 : State} (h : start cfg = .ok st0) (ops : List WriteOp) :
    (close (run st0 ops)).files = [] := by
  have hF := (Hls.Props.C18.c18_files h ops).2.1
  apply List.eq_nil_iff_forall_not_mem.mpr
  intro k hk
  obtain ⟨hk0, hrm⟩ := ((close_spec (run st0 ops)).2 k).mp hk
  obtain ⟨si, id, rfl, hsi, hin⟩ := (hF k).mp hk0
  have := hrm si hsi
  rcases hin with ⟨g, hg, rfl⟩ | ⟨g, hg, rfl⟩
  · exact this.1 g hg rfl
  · exact this.2 g hg rfl

/-- `Close` touches nothing but the files (streams, paths and configuration are what they were). -/
theorem c07_close_frame (st : State) : (close st).streams = st.streams := (close_spec st).1

-- non-vacuity: a Low-Latency muxer, a dozen key frames 100 ms apart (several segments), then Close
def exCfg : Cfg := { variant := .ll, segmentCount := 7, segmentMinDur := 100000000, partMinDur := 50000000,
                     segmentMaxSize := 1000000, tracks := [{ codec := .h264, clockRate := 90000 }] }
def exOps : List WriteOp := (List.range 12).map fun (i : Nat) =>
  { track := 0, pts := 9000 * (i : Int), dts := 9000 * (i : Int), ntp := 0, ra := true, par := 1, pays := [i + 1], sizes := [10] }
def exFiles : Option (Nat × Nat) :=
  match start exCfg with
  | .ok st0 => some ((run st0 exOps).files.length, (close (run st0 exOps)).files.length)
  | .error _ => none

example : exFiles = some (8, 0) := by decide +kernel

end Hls.Props.C07
