import Hls.Muxer.TimeTs
import Hls.Muxer.TimeText
import Hls.Muxer.TimeProv
/-!
# C03 — Playlist durations, target durations and date-times match the media

Property theorems only.  Helper lemmas: `Hls/Muxer/Time*.lean`.  The model `Hls.Muxer` (frozen, validated against
the real muxer by the `muxer` correspondence stream) mirrors `muxer.go`, `muxer_segmenter.go`, `muxer_stream.go`,
`muxer_part.go`, `muxer_segment_*.go`; `toDur = Hls.Gen.timestampToDuration` is regenerated from the source.

All theorems are about `run st0 ops` for EVERY configuration accepted by `start` (`start cfg = .ok st0`) and EVERY
list of write operations (no hypothesis on the operations unless stated).  `listed st si` are the real (non-gap)
segments stream `si` lists; `EXTINF` of a segment is `Seg.duration = endDTS − startDTS` in ns, a part's DURATION is
`Part.duration`; the playlist text quantises them to 10 µs (within 5 µs of the ns value: the quantisation lemma of the
playlist slice, property C14).
-/
namespace Hls.Props.C03
open Hls.Gen Hls.Muxer

/-- the real (non-gap) segments a stream lists, oldest first -/
abbrev listed (st : State) (si : Nat) : List Seg := reals (st.stream si).segments

/-- **EXTINF spans.** Consecutive listed segments are contiguous — each one ends at the DTS at which the next one
starts (= `toDur` of the DTS of the unit that opened it, see `c03_first_unit`), the last listed one ends where the open
segment starts — hence every EXTINF is `start(next) − start(this)`. All variants, all streams, all write sequences. -/
theorem c03_extinf_span {cfg : Cfg} {st0 : State} (h0 : start cfg = .ok st0) (ops : List WriteOp)
    (si : Nat) (hsi : si < st0.streams.length) :
    (∀ k a b, (listed (run st0 ops) si)[k]? = some a → (listed (run st0 ops) si)[k+1]? = some b →
        a.endDTS = b.startDTS ∧ a.duration = b.startDTS - a.startDTS) ∧
    (∀ a, (listed (run st0 ops) si).getLast? = some a →
        ∃ o, ((run st0 ops).stream si).nextSegment = some o ∧ a.endDTS = o.startDTS ∧
          a.duration = o.startDTS - a.startDTS) := by
  have hg := reach_GI h0 ops
  have hinv := hg.sinv si (by rw [run_len h0]; exact hsi)
  refine ⟨fun k a b ha hb => ?_, fun a ha => ?_⟩
  · cases ho : ((run st0 ops).stream si).nextSegment with
    | none =>
      have := hinv.noSeg ho
      simp [listed, this, reals] at ha
    | some o =>
      obtain ⟨x, hx⟩ := hinv.tiles o ho
      have := Tiles_adjacent hx k a b ha hb
      exact ⟨this, by unfold Seg.duration; rw [this]⟩
  · cases ho : ((run st0 ops).stream si).nextSegment with
    | none =>
      have := hinv.noSeg ho
      simp [listed, this, reals] at ha
    | some o =>
      obtain ⟨x, hx⟩ := hinv.tiles o ho
      have := Tiles_last hx a ha
      exact ⟨o, rfl, this, by unfold Seg.duration; rw [this]⟩

/-- **Parts are contiguous** (fMP4 variants, every stream, every listed segment `g`): the stored parts (= the parts
advertised under the segment in the Low-Latency variant) tile the segment: the first starts at the segment start, each
starts where its predecessor ends, the last ends at the segment end.  The same for the open segment `o`, whose stored
parts end where the open part `p` starts. -/
theorem c03_parts_contiguous {cfg : Cfg} {st0 : State} (h0 : start cfg = .ok st0) (ops : List WriteOp)
    (hv : cfg.variant ≠ .mpegts) (si : Nat) (hsi : si < st0.streams.length) :
    (∀ g ∈ listed (run st0 ops) si,
      (∀ p, g.stored.head? = some p → p.startDTS = g.startDTS) ∧
      (∀ k p q, g.stored[k]? = some p → g.stored[k+1]? = some q → p.endDTS = q.startDTS) ∧
      (∀ p, g.stored.getLast? = some p → p.endDTS = g.endDTS) ∧
      (g.stored = [] → g.startDTS = g.endDTS) ∧
      (cfg.variant = .ll → g.parts = g.stored)) ∧
    (∀ o p, ((run st0 ops).stream si).nextSegment = some o → ((run st0 ops).stream si).nextPart = some p →
      (∀ q, o.stored.head? = some q → q.startDTS = o.startDTS) ∧
      (∀ k q r, o.stored[k]? = some q → o.stored[k+1]? = some r → q.endDTS = r.startDTS) ∧
      (∀ q, o.stored.getLast? = some q → q.endDTS = p.startDTS) ∧
      (o.stored = [] → o.startDTS = p.startDTS) ∧
      (cfg.variant = .ll → o.parts = o.stored)) := by
  have hg := reach_GI h0 ops
  have hinv := hg.sinv si (by rw [run_len h0]; exact hsi)
  have hvar : (run st0 ops).cfg.variant = cfg.variant := by rw [run_cfg h0, start_variant h0]
  rw [hvar] at hinv
  refine ⟨fun g hgm => ?_, fun o p ho hp => ?_⟩
  · obtain ⟨t1, t2, t3, t4⟩ := Tiles_index (hinv.ptiles hv g hgm)
    exact ⟨t1, t2, t3, t4, fun hl => (hinv.partsLL hl).1 g hgm⟩
  · obtain ⟨t1, t2, t3, t4⟩ := Tiles_index (hinv.otiles hv o p ho hp)
    exact ⟨t1, t2, t3, t4, fun hl => (hinv.partsLL hl).2 o ho⟩

/-- **Part durations add up to the EXTINF, exactly, in ns** (telescoping): for every listed segment of every stream
the durations of its stored parts sum to its duration; in the Low-Latency variant these are the advertised parts. -/
theorem c03_parts_sum {cfg : Cfg} {st0 : State} (h0 : start cfg = .ok st0) (ops : List WriteOp)
    (hv : cfg.variant ≠ .mpegts) (si : Nat) (hsi : si < st0.streams.length) :
    ∀ g ∈ listed (run st0 ops) si,
      (g.stored.map Part.duration).sum = g.duration ∧
      (cfg.variant = .ll → (g.parts.map Part.duration).sum = g.duration) := by
  have hg := reach_GI h0 ops
  have hinv := hg.sinv si (by rw [run_len h0]; exact hsi)
  have hvar : (run st0 ops).cfg.variant = cfg.variant := by rw [run_cfg h0, start_variant h0]
  rw [hvar] at hinv
  intro g hgm
  have := Tiles_sum (hinv.ptiles hv g hgm)
  exact ⟨this, fun hl => by rw [(hinv.partsLL hl).1 g hgm]; exact this⟩

/-- **TARGETDURATION ≥ every listed EXTINF rounded to the nearest second** — every stream, every entry of the
window (the Low-Latency gap entries included), every reachable state. -/
theorem c03_target_ge {cfg : Cfg} {st0 : State} (h0 : start cfg = .ok st0) (ops : List WriteOp)
    (si : Nat) (hsi : si < st0.streams.length) :
    ∀ e ∈ ((run st0 ops).stream si).segments, roundSeconds e.duration ≤ ((run st0 ops).stream si).targetDur := by
  have hg := reach_GI h0 ops
  have hl : si < (run st0 ops).streams.length := by rw [run_len h0]; exact hsi
  exact (TgInv_of_key hg.tg (hg.key si hl) (hg.same si hl).1 (hg.same si hl).2).target

/-- `roundSeconds` is the nearest integer (half away from zero) for non-negative durations: `|S·r − d| ≤ S/2`. -/
theorem c03_round_nearest (d : Int) (h : 0 ≤ d) :
    2 * S * roundSeconds d - S ≤ 2 * d ∧ 2 * d < 2 * S * roundSeconds d + S := roundSeconds_spec h

/-- **TARGETDURATION never decreases**: along any continuation of any write sequence, for every stream. -/
theorem c03_target_mono {cfg : Cfg} {st0 : State} (h0 : start cfg = .ok st0) (ops more : List WriteOp)
    (si : Nat) (hsi : si < st0.streams.length) :
    ((run st0 ops).stream si).targetDur ≤ ((run st0 (ops ++ more)).stream si).targetDur := by
  have hg := reach_GI h0 ops
  have hl : si < (run st0 ops).streams.length := by rw [run_len h0]; exact hsi
  have hs : Step (run st0 ops) (run (run st0 ops) more) (leadStream st0) := Step_run more hg
  rw [run_append, (hg.same si hl).1, (hs.gi.same si (by rw [hs.len]; exact hl)).1]
  exact hs.mono

/-- **PART-TARGET ≥ every listed part and every part of the open segment**, and its value is a whole number of
milliseconds: `MS · ceilMs m` for a bound `m ≥ 0` on all those part durations (`m` is the longest part that was listed
when the parts were last rotated, see `c03_part_target_value`). Every stream, every reachable state. -/
theorem c03_part_target_ge {cfg : Cfg} {st0 : State} (h0 : start cfg = .ok st0) (ops : List WriteOp)
    (si : Nat) (hsi : si < st0.streams.length) :
    ∃ m, 0 ≤ m ∧ ((run st0 ops).stream si).partTargetDur = MS * ceilMs m ∧
      m ≤ ((run st0 ops).stream si).partTargetDur ∧
      (∀ g ∈ listed (run st0 ops) si, ∀ p ∈ g.parts, p.duration ≤ m ∧ p.duration ≤ ((run st0 ops).stream si).partTargetDur) ∧
      (∀ o, ((run st0 ops).stream si).nextSegment = some o → ∀ p ∈ o.parts,
        p.duration ≤ m ∧ p.duration ≤ ((run st0 ops).stream si).partTargetDur) := by
  have hg := reach_GI h0 ops
  have hl : si < (run st0 ops).streams.length := by rw [run_len h0]; exact hsi
  obtain ⟨m, hm, hp, hlst, hop⟩ := (TgInv_of_key hg.tg (hg.key si hl) (hg.same si hl).1 (hg.same si hl).2).ptarget
  have hc := (ceilMs_spec hm).1
  refine ⟨m, hm, hp, by rw [hp]; exact hc, fun g hgm p hpm => ?_, fun o ho p hpm => ?_⟩
  · have := hlst g (mem_reals.1 hgm) p hpm
    exact ⟨this, by rw [hp]; omega⟩
  · have := hop o ho p hpm
    exact ⟨this, by rw [hp]; omega⟩

/-- **Value of PART-TARGET**: a part rotation in a reachable state leaves the leading stream with
`partTargetDur = MS · ceilMs (longest part of the listed segments and of the open segment)`, i.e. exactly
`partTargetDuration(segments, parts of the open segment)`. -/
theorem c03_part_target_value {cfg : Cfg} {st0 : State} (h0 : start cfg = .ok st0) (ops : List WriteOp)
    (hv : cfg.variant ≠ .mpegts) (d : Int) (o : Seg) (p : Part)
    (ho : ((run st0 ops).stream (leadStream st0)).nextSegment = some o)
    (hp : ((run st0 ops).stream (leadStream st0)).nextPart = some p) :
    ∃ o', ((rotateParts (run st0 ops) d).stream (leadStream st0)).nextSegment = some o' ∧
      ((rotateParts (run st0 ops) d).stream (leadStream st0)).partTargetDur =
        MS * ceilMs (maxPart ((rotateParts (run st0 ops) d).stream (leadStream st0)).segments o'.parts) := by
  have hg := reach_GI h0 ops
  have hvar : (run st0 ops).cfg.variant ≠ .mpegts := by rw [run_cfg h0, start_variant h0]; exact hv
  obtain ⟨_, _, _, hL, _⟩ := GI_rotateParts hg hvar d
  have r := rpS_some (v := (run st0 ops).cfg.variant) (fpContent (run st0 ops) (leadStream st0)) d true ho hp
  rw [hL]
  refine ⟨_, r.nextSegment, ?_⟩
  rw [r.partTargetDur, r.segments, (hg.lead _ hg.lt).2 rfl]
  rfl

/-- **Server control.** In every media playlist of a reachable state that carries EXT-X-SERVER-CONTROL (the
Low-Latency variant): PART-HOLD-BACK `= tdiv (25·PART-TARGET) 10 ≥ 2·PART-TARGET`, CAN-SKIP-UNTIL `= 6·TARGETDURATION`
seconds, and PART-INF carries the same PART-TARGET. -/
theorem c03_hold_back {cfg : Cfg} {st0 : State} (h0 : start cfg = .ok st0) (ops : List WriteOp)
    (si : Nat) (hsi : si < st0.streams.length) (delta : Bool) (hb su : Int)
    (hsc : (mediaPlaylist (run st0 ops) si delta).serverControl = some (hb, su)) :
    2 * ((run st0 ops).stream si).partTargetDur ≤ hb ∧
    (mediaPlaylist (run st0 ops) si delta).partInf = some ((run st0 ops).stream si).partTargetDur ∧
    su = (mediaPlaylist (run st0 ops) si delta).targetDur * 6 * S ∧
    (mediaPlaylist (run st0 ops) si delta).targetDur = ((run st0 ops).stream si).targetDur := by
  obtain ⟨m, hm, hp, _⟩ := c03_part_target_ge h0 ops si hsi
  have hnn : 0 ≤ ((run st0 ops).stream si).partTargetDur := by
    rw [hp]; have := (ceilMs_spec hm).2.2; rw [MS_val]; omega
  unfold mediaPlaylist at hsc ⊢
  cases hvv : (run st0 ops).cfg.variant with
  | mpegts => simp [hvv] at hsc
  | fmp4 => simp [hvv] at hsc
  | ll =>
    simp only [hvv, if_true, Option.some.injEq, Prod.mk.injEq] at hsc ⊢
    obtain ⟨e1, e2⟩ := hsc
    subst e1; subst e2
    exact ⟨holdBack_ge hnn, trivial, rfl, trivial⟩

/-- the pure inequality behind PART-HOLD-BACK -/
theorem c03_hold_back_arith (T : Int) (h : 0 ≤ T) : 2 * T ≤ Int.tdiv (T * 25) 10 := holdBack_ge h

/-- CAN-SKIP-UNTIL is six target durations, in every playlist that has server control (no reachability needed). -/
theorem c03_skip_until (st : State) (si : Nat) (delta : Bool) (hb su : Int)
    (hsc : (mediaPlaylist st si delta).serverControl = some (hb, su)) :
    su = (st.stream si).targetDur * 6 * S := by
  unfold mediaPlaylist at hsc
  cases hvv : st.cfg.variant with
  | mpegts => simp [hvv] at hsc
  | fmp4 => simp [hvv] at hsc
  | ll =>
    simp only [hvv, if_true, Option.some.injEq, Prod.mk.injEq] at hsc
    exact hsc.2.symm

/-- **All streams carry the leading stream's targets.** -/
theorem c03_streams_same_targets {cfg : Cfg} {st0 : State} (h0 : start cfg = .ok st0) (ops : List WriteOp)
    (si sj : Nat) (hsi : si < st0.streams.length) (hsj : sj < st0.streams.length) :
    ((run st0 ops).stream si).targetDur = ((run st0 ops).stream sj).targetDur ∧
    ((run st0 ops).stream si).partTargetDur = ((run st0 ops).stream sj).partTargetDur := by
  have hg := reach_GI h0 ops
  have h1 := hg.same si (by rw [run_len h0]; exact hsi)
  have h2 := hg.same sj (by rw [run_len h0]; exact hsj)
  exact ⟨h1.1.trans h2.1.symm, h1.2.trans h2.2.symm⟩

/-- **First unit of every segment, fMP4 variants** (the hypothesis is the property's well-formedness, restricted to
the leading track: every write to it succeeds and none of its units lies before −10 s, `WFRun`; writes to the other
tracks are arbitrary).  In the leading stream, every listed segment's first stored sample `x` (first sample of the
first part-track of its first stored part, `segFirst`) is a sync sample, `toDur x.dts = startDTS` (the stored DTS
carries the constant +10 s offset) and `x.ntp = startNTP`: EXTINF spans start at the media time of the segment's first
unit and EXT-X-PROGRAM-DATE-TIME is the wall-clock time passed with that unit.  The open segment's first unit (stored,
pending in the open part, or still in the look-ahead) satisfies the same (`OpenOK`). -/
theorem c03_first_unit {cfg : Cfg} {st0 : State} (h0 : start cfg = .ok st0) (hv : cfg.variant ≠ .mpegts)
    (ops : List WriteOp) (hwf : WFRun (leadStream st0) st0 ops) :
    (∀ g ∈ listed (run st0 ops) (leadStream st0), ∃ x, segFirst g = some x ∧ x.sync = true ∧
      toDur x.dts (st0.tcfg (leadStream st0)).clockRate = g.startDTS ∧ x.ntp = g.startNTP) ∧
    (∀ o, ((run st0 ops).stream (leadStream st0)).nextSegment = some o →
      OpenOK (st0.tcfg (leadStream st0)).clockRate o ((run st0 ops).track (leadStream st0)).samples
        ((run st0 ops).track (leadStream st0)).next) := by
  have hf := (reach_FSR h0 hv ops hwf).1
  have hr : (run st0 ops).tcfg (leadStream st0) = st0.tcfg (leadStream st0) := tcfg_congr (run_cfg h0 ops) _
  rw [← hr]
  exact ⟨hf.listed, hf.opn⟩

/-- **EXT-X-PROGRAM-DATE-TIME, fMP4 variants, every stream**: the `k`-th listed segment of any stream carries the
`startDTS` / `startNTP` of the leading stream's `k`-th listed segment, i.e. `toDur` of the DTS and the NTP of that
segment's first unit. -/
theorem c03_pdt {cfg : Cfg} {st0 : State} (h0 : start cfg = .ok st0) (hv : cfg.variant ≠ .mpegts)
    (ops : List WriteOp) (hwf : WFRun (leadStream st0) st0 ops) (si : Nat) (hsi : si < st0.streams.length)
    (k : Nat) (g : Seg) (hg : (listed (run st0 ops) si)[k]? = some g) :
    ∃ g' x, (listed (run st0 ops) (leadStream st0))[k]? = some g' ∧ segFirst g' = some x ∧
      x.ntp = g.startNTP ∧ toDur x.dts (st0.tcfg (leadStream st0)).clockRate = g.startDTS ∧ x.sync = true := by
  have hgi := reach_GI h0 ops
  have hk := hgi.key si (by rw [run_len h0]; exact hsi)
  obtain ⟨g', hg', hkk⟩ := reals_key_index hk.segs k g hg
  obtain ⟨x, hx, h1, h2, h3⟩ := (c03_first_unit h0 hv ops hwf).1 g' (List.mem_of_getElem? hg')
  simp only [Seg.key, Prod.mk.injEq] at hkk
  exact ⟨g', x, hg', hx, by rw [h3, hkk.2.2.1], by rw [h2, hkk.1], h1⟩

/-- **Scope of finding F26, as a theorem.**  EXTINF is written with five decimals: `TextOf d q` says `q` (units of
10 µs) is an admissible rendering of the nanosecond duration `d ≥ 0` (nearest multiple of 10 µs, a decimal tie either
way — the envelope `Playlist.Codec.Valid.fmt_dur` of the playlist slice, C14).  A reader rounds the text half away
from zero (`readerRound`).  That equals `roundSeconds d` — the value TARGETDURATION is computed from — for EVERY
admissible `q` unless `d mod 1 s ∈ [0.499995 s, 0.5 s)` (`inF26Window`); strictly inside the window every admissible
text rounds exactly one second higher; on its lower edge (a tie) both happen. -/
theorem c03_f26_scope (d : Int) (hd : 0 ≤ d) :
    (¬ inF26Window d → ∀ q, TextOf d q → readerRound q = roundSeconds d) ∧
    (499995000 < d % 1000000000 → d % 1000000000 < 500000000 → ∀ q, TextOf d q → readerRound q = roundSeconds d + 1) ∧
    (d % 1000000000 = 499995000 →
      (∀ q, TextOf d q → readerRound q = roundSeconds d ∨ readerRound q = roundSeconds d + 1) ∧
      (∃ q, TextOf d q ∧ readerRound q = roundSeconds d) ∧ (∃ q, TextOf d q ∧ readerRound q = roundSeconds d + 1)) ∧
    (∃ q, TextOf d q) :=
  ⟨fun hw _ h => text_round_eq hd h hw, fun h1 h2 _ h => text_round_up hd h h1 h2,
   fun h1 => text_round_tie hd h1, ⟨_, textOf_exists d⟩⟩

/-- **TARGETDURATION against the TEXT a reader sees.**  In every reachable state, for every listed entry of every
stream with a non-negative duration `d`: whatever admissible 5-decimal text `q` is served for it, the reader's rounding
of that text is at most TARGETDURATION whenever `d` is outside the F26 window `[x.499995 s, x.5 s)`, and never more
than TARGETDURATION + 1 (the known finding F26: inside the window the text reads `x.50000`). -/
theorem c03_target_text {cfg : Cfg} {st0 : State} (h0 : start cfg = .ok st0) (ops : List WriteOp)
    (si : Nat) (hsi : si < st0.streams.length) :
    ∀ e ∈ ((run st0 ops).stream si).segments, 0 ≤ e.duration → ∀ q, TextOf e.duration q →
      (¬ inF26Window e.duration → readerRound q ≤ ((run st0 ops).stream si).targetDur) ∧
      readerRound q ≤ ((run st0 ops).stream si).targetDur + 1 := by
  intro e he hd q hq
  have ht := c03_target_ge h0 ops si hsi e he
  refine ⟨fun hw => by rw [text_round_eq hd hq hw]; exact ht, ?_⟩
  by_cases hw : inF26Window e.duration
  · by_cases hedge : e.duration % 1000000000 = 499995000
    · rcases (text_round_tie hd hedge).1 q hq with h | h <;> rw [h] <;> omega
    · rw [text_round_up hd hq (by unfold inF26Window at hw; omega) hw.2]; omega
  · rw [text_round_eq hd hq hw]; omega

/-- **MPEG-TS: segment start and date-time come from the unit that opens the segment.**  One successful `write` of
an accepted H264 unit in a reachable state of an MPEG-TS muxer: if it creates the first segment or rotates the
segments (the counter moves, see `C02.c02_cut_iff_due_ts_video` for when), the open segment afterwards has
`startDTS = toDur dts`, `startNTP = ntp` of this very unit, which is its first PES; in every case the open segment now
ends at `toDur dts` (so a later rotation at `nextDTS` closes it with `endDTS = nextDTS = startDTS` of its successor,
`c03_extinf_span`). -/
theorem c03_pdt_ts {cfg : Cfg} {st0 : State} (h0 : start cfg = .ok st0) (hv : cfg.variant = .mpegts)
    (ops : List WriteOp) (op : WriteOp) (hcd : ((run st0 ops).tcfg op.track).codec = .h264)
    (hacc : Accepted (run st0 ops) op) (hok : (write (run st0 ops) op).2 = .ok) :
    ∃ o', ((write (run st0 ops) op).1.stream 0).nextSegment = some o' ∧
      o'.endDTS = toDur op.dts ((run st0 ops).tcfg op.track).clockRate ∧
      ((((run st0 ops).stream 0).nextSegment = none ∨
        ((write (run st0 ops) op).1.stream 0).nextSegmentID ≠ ((run st0 ops).stream 0).nextSegmentID) →
       o'.startDTS = toDur op.dts ((run st0 ops).tcfg op.track).clockRate ∧ o'.startNTP = op.ntp ∧
       o'.tsUnits = [h264Unit (run st0 ops) op]) := by
  have hc := run_cfg h0 ops
  have hv0 : st0.cfg.variant = .mpegts := by rw [start_variant h0]; exact hv
  have hg := reach_GI h0 ops
  have hL : leadStream st0 = 0 := by unfold leadStream State.streamOf; rw [hv0]
  rw [hL] at hg
  obtain ⟨o', h1, h2, h3⟩ := ts_video_write hg (by rw [hc]; exact hv0) op hcd hacc hok
  refine ⟨o', h1, h2, fun hopen => ?_⟩
  cases hseg : ((run st0 ops).stream 0).nextSegment with
  | none => rw [hseg] at h3; exact ⟨h3.2.1, h3.2.2.1, h3.2.2.2.1⟩
  | some seg =>
    rw [hseg] at h3 hopen
    simp only at h3
    split at h3
    · exact ⟨h3.2.1, h3.2.2.1, h3.2.2.2.1⟩
    · rcases hopen with h | h
      · cases h
      · exact absurd h3.1 h

/-- **MPEG-TS, step-free: every segment's start DTS and PROGRAM-DATE-TIME are those of one written unit.**  In every
reachable state of an MPEG-TS muxer — for ANY results of the calls; the writes name tracks of the muxer — every listed
segment and the open segment has `(startDTS, startNTP) = (tsStamp op, op.ntp)` for one write `op` of the run, where
`tsStamp` is `toDur dts` of a video unit / `toDur pts` of an audio unit in the track's clock rate.  (`c03_pdt_ts`
identifies the unit: it is the one whose write opened the segment.) -/
theorem c03_pdt_ts_run {cfg : Cfg} {st0 : State} (h0 : start cfg = .ok st0) (hv : cfg.variant = .mpegts)
    (ops : List WriteOp) (hin : Accept.InRange cfg ops = true) :
    (∀ g ∈ listed (run st0 ops) 0, ∃ op ∈ ops, g.startDTS = tsStamp st0 op ∧ g.startNTP = op.ntp) ∧
    (∀ o, ((run st0 ops).stream 0).nextSegment = some o → ∃ op ∈ ops, o.startDTS = tsStamp st0 op ∧ o.startNTP = op.ntp) := by
  have hp := reach_Prov_ts h0 hv ops hin
  have key : ∀ a b : Int, (a, b) ∈ tsPairs st0 ops → ∃ op ∈ ops, a = tsStamp st0 op ∧ b = op.ntp := by
    intro a b hm
    simp only [tsPairs, List.mem_map, Prod.mk.injEq] at hm
    obtain ⟨op, hop, e1, e2⟩ := hm
    exact ⟨op, hop, e1.symm, e2.symm⟩
  exact ⟨fun g hg => key _ _ (hp.1 g hg), fun o ho => key _ _ (hp.2 o ho)⟩

/-! ## Non-vacuity: a concrete Low-Latency muxer (H264 + AAC), rotations, a parameter change -/

def exCfg : Cfg :=
  { variant := .ll, segmentCount := 7, segmentMinDur := 1000000000, partMinDur := 200000000, segmentMaxSize := 1000000,
    tracks := [{ codec := .h264, clockRate := 90000 }, { codec := .aac, clockRate := 48000, sampleRate := 48000 }] }
def vop (i : Nat) (ra : Bool) (par : Nat) : WriteOp :=
  { track := 0, pts := 45000 * i, dts := 45000 * i, ntp := 1600000000000000000 + 500000000 * i, ra := ra, par := par,
    pays := [i], sizes := [100] }
def aop (i : Nat) : WriteOp :=
  { track := 1, pts := 24000 * i, dts := 24000 * i, ntp := 1600000000000000000 + 500000000 * i, ra := true,
    pays := [1000 + i], sizes := [10] }
/-- two-second GOPs … then a parameter change on the IDR at 2 s (forced cut), three more segments -/
def exOps : List WriteOp :=
  [vop 0 true 1, aop 0, vop 1 false 0, aop 1, vop 2 true 0, aop 2, vop 3 false 0, aop 3, vop 4 true 2, aop 4,
   vop 5 false 0, vop 6 true 0, vop 7 true 0, vop 8 false 0]
def exSt0 : State := (startState exCfg.withDefaults)

theorem exStart : start exCfg = .ok exSt0 := rfl
set_option maxRecDepth 100000 in
/-- three real segments listed after the run (one of them opened by the forced rotation), parts advertised,
the well-formedness hypothesis of `c03_first_unit` holds, the targets are 1 s / 500 ms -/
example : (listed (run exSt0 exOps) 0).map (fun g => (g.startDTS, g.endDTS, g.forced, g.parts.length)) =
      [(10000000000, 11000000000, false, 2), (11000000000, 12000000000, false, 2), (12000000000, 13000000000, true, 2)] ∧
    leadStream exSt0 = 0 ∧ WFRun 0 exSt0 exOps ∧
    ((run exSt0 exOps).stream 1).targetDur = 1 ∧ ((run exSt0 exOps).stream 1).partTargetDur = 500000000 ∧
    (mediaPlaylist (run exSt0 exOps) 0 false).serverControl = some (1250000000, 6000000000) := by decide

set_option maxRecDepth 100000 in
/-- hypotheses of `c03_part_target_value` (an open segment and an open part exist in the leading stream) and of
`c03_pdt` (a listed segment at position 2 of the audio stream) -/
example : ((run exSt0 exOps).stream 0).nextSegment.isSome = true ∧ ((run exSt0 exOps).stream 0).nextPart.isSome = true ∧
    ((listed (run exSt0 exOps) 1)[2]?).isSome = true := by decide

/-- MPEG-TS (H264): hypotheses of `c03_pdt_ts` -/
def tsCfg : Cfg :=
  { variant := .mpegts, segmentCount := 3, segmentMinDur := 1000000000, partMinDur := 0, segmentMaxSize := 1000000,
    tracks := [{ codec := .h264, clockRate := 90000 }] }
def tsSt0 : State := startState tsCfg.withDefaults
theorem tsStart : start tsCfg = .ok tsSt0 := rfl
set_option maxRecDepth 100000 in
example : ((run tsSt0 [vop 0 true 1, vop 1 false 0]).tcfg 0).codec = .h264 ∧
    Accepted (run tsSt0 [vop 0 true 1, vop 1 false 0]) (vop 2 true 0) ∧
    (write (run tsSt0 [vop 0 true 1, vop 1 false 0]) (vop 2 true 0)).2 = .ok ∧
    ((write (run tsSt0 [vop 0 true 1, vop 1 false 0]) (vop 2 true 0)).1.stream 0).nextSegmentID ≠
      ((run tsSt0 [vop 0 true 1, vop 1 false 0]).stream 0).nextSegmentID ∧
    Accept.InRange tsCfg [vop 0 true 1, vop 1 false 0, vop 2 true 0] = true ∧
    (listed (run tsSt0 [vop 0 true 1, vop 1 false 0, vop 2 true 0]) 0).length = 1 := by decide

/-- F26's window is inhabited and the theorem's other side too: 1.499999999 s reads `1.50000` (rounds to 2, while
`roundSeconds` is 1); 1.499994999 s reads `1.49999` (rounds to 1) -/
example : inF26Window 1499999999 ∧ TextOf 1499999999 150000 ∧ readerRound 150000 = 2 ∧ roundSeconds 1499999999 = 1 ∧
    ¬ inF26Window 1499994999 ∧ TextOf 1499994999 149999 ∧ readerRound 149999 = 1 ∧ roundSeconds 1499994999 = 1 := by
  unfold TextOf; decide

end Hls.Props.C03
