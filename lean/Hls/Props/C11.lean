import Hls.Client.Select
import Hls.Client.SelectLemmas
/-!
# C11 — Client fetches segments consecutively, exactly once, from the right start

Property theorems only (helper lemmas: `Hls/Client/SelectLemmas.lean`). The model
`Hls.Client.Select` mirrors `client_stream_downloader.go`; the index arithmetic, the constants
3 / 5, the wanted id `cur+1`, the "too late" condition, the Range arithmetic and the `_HLS_skip`
directive are the definitions of `Hls.Gen.Select`, REGENERATED from the Go source on every run:
the theorems below are re-proved about whatever the source says now.

A *history* is the list of playlist views the server returns at the successive polls of one
stream (`first :: rest`); the theorems quantify over every history.
-/
namespace Hls.Props.C11
open Hls.Client.Select Hls.Gen.Select

/-- the id the client must start from: the first segment of a VOD playlist, the third-from-last
    of any other -/
def startId (first : PlaylistView) : Int :=
  if first.ptype = .vod then first.msn else first.msn + first.segs.length - 3

/-- **Right start.** VOD: index 0, id = MSN (error on an empty list). Otherwise: third from the end,
    id = MSN + len − 3; with fewer than three segments the client stops with an error. -/
theorem c11_start (pl : PlaylistView) :
    (pl.ptype = .vod → ∀ sg, pl.segs[0]? = some sg →
        ∃ s, selectNext none pl = .ok s ∧ s.id = pl.msn ∧ s.idx = 0 ∧ s.seg = sg)
    ∧ (pl.ptype = .vod → pl.segs = [] → selectNext none pl = .error .noSegments)
    ∧ (pl.ptype ≠ .vod → (pl.segs.length : Int) < 3 → selectNext none pl = .error .notEnough)
    ∧ (pl.ptype ≠ .vod → 3 ≤ pl.segs.length →
        ∃ s, selectNext none pl = .ok s ∧ s.id = pl.msn + pl.segs.length - 3 ∧
          s.idx = (pl.segs.length : Int) - 3 ∧ pl.segs[pl.segs.length - 3]? = some s.seg) := by
  refine ⟨?_, ?_, ?_, ?_⟩
  · intro hv sg hsg
    refine ⟨{ id := pl.msn, idx := 0, seg := sg,
              last := pl.endlist && decide ((pl.segs.length : Int) = 1) }, ?_, rfl, rfl, rfl⟩
    rw [selectNext, selectNextF_none_vod pl pl hv, hsg]
  · intro hv hnil
    rw [selectNext, selectNextF_none_vod pl pl hv]
    simp [hnil]
  · intro hv hlt
    rw [selectNext, selectNextF_none_live pl pl hv]
    simp [hlt]
  · intro hv hge
    have h3 : ¬ (pl.segs.length : Int) < 3 := by omega
    have hlt : pl.segs.length - 3 < pl.segs.length := by omega
    have hidx : ((pl.segs.length : Int) - 3).toNat = pl.segs.length - 3 := by omega
    refine ⟨{ id := pl.msn + pl.segs.length - 3, idx := pl.segs.length - 3,
              seg := pl.segs[pl.segs.length - 3], last := false }, ?_, rfl, rfl, ?_⟩
    · rw [selectNext, selectNextF_none_live pl pl hv]
      simp [h3, hidx, List.getElem?_eq_getElem hlt]
    · exact List.getElem?_eq_getElem hlt

/-- **Consecutive.** After segment `i` the only segment ever selected is `i + 1`, and it is the
    entry of the *current* playlist at index `i + 1 − MSN` (so its URI and byte range are that entry's). -/
theorem c11_consecutive {i : Int} {pl : PlaylistView} {s : Selection}
    (h : selectNext (some i) pl = .ok s) :
    s.id = i + 1 ∧ 0 ≤ i + 1 - pl.msn ∧ pl.segs[(i + 1 - pl.msn).toNat]? = some s.seg ∧
      (segReq s).uri = s.seg.uri ∧ (segReq s).id = some (i + 1) := by
  obtain ⟨h0, _, hid, _, hseg, _, _⟩ := selectNext_some_ok h
  exact ⟨hid, h0, hseg, rfl, by simp [segReq, hid]⟩

/-- **No skip, repeat or reorder — for every playlist history.** In the traditional loop
    1. the downloaded ids are `[s, s+1, …, s+k−1]` with `s` the right start;
    2. the request log alternates segment, playlist, segment, … — exactly one playlist fetch
       separates two segment fetches;
    3. the `k`-th segment request is the selection made on the playlist returned by the `k`-th poll
       (URI and byte range of THAT playlist's entry, `c11_consecutive`). -/
theorem c11_history (first : PlaylistView) (rest : List PlaylistView) :
    (∃ k : Nat, segIds (runTraditional first rest).1 = (List.range k).map (fun (j : Nat) => startId first + (j : Int)))
    ∧ (∀ (i : Nat) (hi : i < (runTraditional first rest).1.length),
        (runTraditional first rest).1[i].kind = if i % 2 = 0 then .segment else .playlist)
    ∧ (∀ k : Nat, 2 * k < (runTraditional first rest).1.length →
        ∃ plk sk, (first :: rest)[k]? = some plk ∧
          selectNextF first (if k = 0 then none else some (startId first + (k : Int) - 1)) plk = .ok sk ∧
          (runTraditional first rest).1[2 * k]? = some (segReq sk)) := by
  unfold runTraditional
  cases hs : selectNextF first none first with
  | error e =>
    refine ⟨⟨0, by simp [tradLoop_error hs, segIds]⟩, ?_, ?_⟩
    · intro i hi; simp [tradLoop_error hs] at hi
    · intro k hk; simp [tradLoop_error hs] at hk
  | ok s =>
    have hstart : s.id = startId first := by
      unfold startId
      by_cases hv : first.ptype = .vod
      · rw [selectNextF_none_vod first first hv] at hs
        cases h0 : first.segs[0]? with
        | none => simp [h0] at hs
        | some sg => simp [h0] at hs; subst hs; simp [hv]
      · rw [selectNextF_none_live first first hv] at hs
        by_cases h3 : (first.segs.length : Int) < 3
        · simp [h3] at hs
        · simp only [h3, if_false] at hs
          cases h0 : first.segs[((first.segs.length : Int) - 3).toNat]? with
          | none => simp [h0] at hs
          | some sg => simp [h0] at hs; subst hs; simp [hv]
    refine ⟨⟨(segIds (tradLoop first none first rest).1).length, ?_⟩, ?_, ?_⟩
    · have := tradLoop_ids first rest none first s hs
      rw [hstart] at this
      exact (consec_iff _ _).mp this
    · exact altKinds_get (tradLoop_alt first rest none first)
    · intro k hk
      have := tradLoop_steps first rest none first s hs k hk
      rw [hstart] at this
      exact this

/-- **Stops, never jumps.** (a) next id absent from the playlist ⇒ error; (b) more than five behind
    the edge of a playlist without ENDLIST ⇒ error; (c) a successful selection is never a different
    id; (d) an error ends the loop with no further request; (e) no selection can panic. -/
theorem c11_stops_not_jumps (first : PlaylistView) (i : Int) (pl : PlaylistView) :
    ((i + 1 < pl.msn ∨ i + 1 ≥ pl.msn + pl.segs.length) → selectNext (some i) pl = .error .nextNotFound)
    ∧ (pl.msn ≤ i + 1 → i + 1 < pl.msn + pl.segs.length → pl.endlist = false →
        pl.msn + pl.segs.length - (i + 1) > 5 → selectNext (some i) pl = .error .tooLate)
    ∧ (∀ s, selectNext (some i) pl = .ok s → s.id = i + 1)
    ∧ (∀ cur e rest, selectNextF first cur pl = .error e → tradLoop first cur pl rest = ([], .sel e))
    ∧ (∀ cur, selectNextF first cur pl ≠ .error .panic) := by
  refine ⟨?_, ?_, ?_, ?_, ?_⟩
  · intro h
    rw [selectNext_some_eq]
    have : i + 1 - pl.msn < 0 ∨ i + 1 - pl.msn ≥ pl.segs.length := by omega
    simp [this]
  · intro h1 h2 he h5
    rw [selectNext_some_eq]
    have a : ¬ (i + 1 - pl.msn < 0 ∨ i + 1 - pl.msn ≥ pl.segs.length) := by omega
    have b : (pl.segs.length : Int) - (i + 1 - pl.msn) > clientLiveMaxDistanceFromEnd := by
      simp only [clientLiveMaxDistanceFromEnd]; omega
    simp only [a, if_false, he, b, and_self, if_true]
  · intro s h
    exact (selectNext_some_ok h).2.2.1
  · intro cur e rest h
    exact tradLoop_error h
  · intro cur
    exact selectNextF_ne_panic first cur pl

/-- **End of stream.** (a) the sentinel is pushed exactly when the selected segment is the last
    entry of an ENDLIST playlist; (b) then the loop ends at once with `eos` — no further request;
    (c) conversely `eos` is reached only right after requesting the last segment of an ENDLIST
    playlist of the history; (d) the Low-Latency loop (fix-F28) runs until the first reloaded
    playlist WITHOUT a preload hint: it reports end of stream exactly when that playlist carries
    ENDLIST, "preload hint disappeared" exactly when it does not; by then it has made one hint
    fetch and one playlist fetch for each of the `k + 1` hinted playlists before it (`c11_ll` (3):
    the last hinted part was requested) and nothing afterwards;
    (e) the client yields `ErrClientEOS` iff every stream ended. -/
theorem c11_eos (first : PlaylistView) (cur : Option Int) (pl : PlaylistView) (rest : List PlaylistView) :
    (∀ s, selectNextF first cur pl = .ok s →
        (s.last = true ↔ pl.endlist = true ∧ s.idx = (pl.segs.length : Int) - 1))
    ∧ (∀ s, selectNextF first cur pl = .ok s → s.last = true →
        tradLoop first cur pl rest = ([segReq s], .eos))
    ∧ ((tradLoop first cur pl rest).2 = .eos →
        ∃ plk sk, plk ∈ pl :: rest ∧ plk.endlist = true ∧ sk.id = plk.msn + plk.segs.length - 1 ∧
          plk.segs.getLast? = some sk.seg ∧ (tradLoop first cur pl rest).1.getLast? = some (segReq sk))
    ∧ (pl.hint.isSome = true → ∀ skip,
        ((llLoop skip pl rest).2 = .eos ↔
            ∃ p, rest.find? (fun p => p.hint.isNone) = some p ∧ p.endlist = true)
        ∧ ((llLoop skip pl rest).2 = .hintDisappeared ↔
            ∃ p, rest.find? (fun p => p.hint.isNone) = some p ∧ p.endlist = false)
        ∧ (∀ k, rest.findIdx? (fun p => p.hint.isNone) = some k →
            (llLoop skip pl rest).1.length = 2 * (k + 1)))
    ∧ (∀ outs : List Outcome, clientOutcome outs = .eos ↔ ∀ o ∈ outs, o = .eos) := by
  refine ⟨?_, ?_, ?_, ?_, ?_⟩
  · intro s h
    rw [(selectNextF_last h).1]
    simp
  · intro s h hl
    rw [tradLoop]
    cases rest <;> simp [h, hl]
  · exact tradLoop_eos first rest cur pl
  · intro hh skip
    obtain ⟨ho, hl⟩ := llLoop_outcome skip rest pl hh
    refine ⟨?_, ?_, ?_⟩
    · rw [ho]
      cases hf : rest.find? (fun p => p.hint.isNone) with
      | none => simp
      | some p => cases he : p.endlist <;> simp [llEndOfStream, he]
    · rw [ho]
      cases hf : rest.find? (fun p => p.hint.isNone) with
      | none => simp
      | some p => cases he : p.endlist <;> simp [llEndOfStream, he]
    · intro k hk
      rw [hl, hk]
  · intro outs
    unfold clientOutcome
    cases hf : outs.find? (fun o => decide (o ≠ Outcome.eos)) with
    | none =>
      simp only [true_iff]
      intro o ho
      have := List.find?_eq_none.mp hf o ho
      simpa using this
    | some o =>
      simp only [reduceCtorEq, false_iff]
      intro hall
      have hmem := List.mem_of_find?_eq_some hf
      have hne := List.find?_some hf
      simp [hall o hmem] at hne

/-- **Byte ranges.** `Range: bytes=start-(start+len−1)`; a length without a start counts from 0;
    no length ⇒ no header. The same builder serves segments, the init file and preload hints. -/
theorem c11_range :
    (∀ start, segRange start none = none)
    ∧ (∀ s l : Int, 0 ≤ s → 1 ≤ l → s + l ≤ 18446744073709551616 →
        segRange (some s) (some l) = some (s, s + l - 1))
    ∧ (∀ l : Int, 1 ≤ l → l ≤ 18446744073709551616 → segRange none (some l) = some (0, l - 1))
    ∧ (∀ h : Hint, h.brLen = none → hintRange h = none)
    ∧ (∀ (h : Hint) (l : Int), h.brLen = some l → 0 ≤ h.brStart → 1 ≤ l → h.brStart + l ≤ 18446744073709551616 →
        hintRange h = some (h.brStart, h.brStart + l - 1))
    ∧ (∀ s : Selection, (segReq s).uri = s.seg.uri ∧ (segReq s).range = segRange s.seg.brStart s.seg.brLen)
    ∧ (∀ m : MapTag, (initReq m).uri = m.uri ∧ (initReq m).range = segRange m.brStart m.brLen)
    ∧ (∀ a b : Int, rangeText segRangePrefix segRangeSep (some (a, b)) = "bytes=" ++ toString a ++ "-" ++ toString b) := by
  refine ⟨fun _ => rfl, ?_, ?_, ?_, ?_, fun _ => ⟨rfl, rfl⟩, fun _ => ⟨rfl, rfl⟩, fun _ _ => rfl⟩
  · intro s l hs hl hb
    simp only [segRange, segRangeFirst, segRangeLast, u64]
    rw [Int.emod_eq_of_lt (by omega) (by omega), Int.emod_eq_of_lt (by omega) (by omega)]
  · intro l hl hb
    simp only [segRange, segRangeFirst, segRangeLast, segRangeDefaultStart, u64]
    rw [Int.emod_eq_of_lt (by omega) (by omega), Int.emod_eq_of_lt (by omega) (by omega)]
    simp
  · intro h hn
    simp [hintRange, hn]
  · intro h l hn hs hl hb
    simp only [hintRange, hn, hintRangeFirst, hintRangeLast, u64]
    rw [Int.emod_eq_of_lt (by omega) (by omega), Int.emod_eq_of_lt (by omega) (by omega)]

/-- **Low-Latency mode.** For every history: (1) the log alternates preload-hint fetch, playlist
    fetch; (2) every playlist fetch carries `_HLS_skip=YES` iff the FIRST playlist advertised
    CAN-SKIP-UNTIL; (3) the `k`-th hint request is the preload hint of the `k`-th playlist — one hint
    fetch per successive playlist; (4) the traditional loop never asks for a delta update;
    (5) `run` takes the Low-Latency loop exactly under CAN-BLOCK-RELOAD=YES ∧ a preload hint, and
    then nothing panics. -/
theorem c11_ll (first : PlaylistView) (rest : List PlaylistView) (sc : ServerControl)
    (hsc : first.serverControl = some sc) :
    (∀ (i : Nat) (hi : i < (runLowLatency first rest).1.length),
        (runLowLatency first rest).1[i].kind = if i % 2 = 0 then .hint else .playlist)
    ∧ (∀ r ∈ (runLowLatency first rest).1, r.kind = .playlist → r.skip = sc.canSkipUntil)
    ∧ (∀ k : Nat, 2 * k < (runLowLatency first rest).1.length →
        ∃ plk h, (first :: rest)[k]? = some plk ∧ plk.hint = some h ∧
          (runLowLatency first rest).1[2 * k]? = some (hintReq h))
    ∧ (∀ r ∈ (runTraditional first rest).1, r.skip = false)
    ∧ (isLowLatency first = true ↔ sc.canBlockReload = true ∧ first.hint.isSome = true)
    ∧ (isLowLatency first = true → (runLowLatency first rest).2 ≠ .panic) := by
  simp only [runLowLatency, hsc]
  refine ⟨?_, ?_, ?_, ?_, ?_, ?_⟩
  · exact altKinds_get (llLoop_alt sc.canSkipUntil rest first)
  · exact llLoop_skip sc.canSkipUntil rest first
  · exact llLoop_steps sc.canSkipUntil rest first
  · exact tradLoop_noskip first rest none first
  · simp [isLowLatency, hsc]
  · intro hll
    simp [isLowLatency, hsc] at hll
    exact llLoop_ne_panic sc.canSkipUntil rest first hll.2

/-! ## Non-vacuity: concrete playlists meeting the hypotheses -/

deriving instance DecidableEq for Except

private def sg (n : Nat) : Seg := { uri := s!"seg{n}.ts" }
private def live (msn : Int) (ids : List Nat) (endlist : Bool := false) : PlaylistView :=
  { msn := msn, segs := ids.map sg, endlist := endlist }
private def vod (msn : Int) (ids : List Nat) : PlaylistView :=
  { msn := msn, segs := ids.map sg, endlist := true, ptype := .vod }

-- c11_start: VOD starts at MSN, live at MSN + len − 3, too few segments ⇒ error
example : (selectNext none (vod 20 [20, 21, 22, 23])).toOption.map (·.id) = some 20 := by decide
example : (selectNext none (live 7 [7, 8, 9, 10, 11])).toOption.map (·.id) = some 9 := by decide
example : selectNext none (live 7 [7, 8]) = .error .notEnough := by decide
example : selectNext none { msn := 0, segs := [], ptype := .vod } = .error .noSegments := by decide
-- c11_consecutive / c11_stops_not_jumps: hypotheses are satisfiable
example : (selectNext (some 9) (live 8 [8, 9, 10, 11])).toOption.map (fun s => (s.id, s.seg.uri)) = some (10, "seg10.ts") := by decide
example : selectNext (some 9) (live 8 [8, 9]) = .error .nextNotFound := by decide
example : selectNext (some 9) (live 11 [11, 12, 13]) = .error .nextNotFound := by decide
example : selectNext (some 9) (live 8 [8, 9, 10, 11, 12, 13, 14, 15]) = .error .tooLate := by decide
example : (selectNext (some 9) (live 8 [8, 9, 10, 11, 12, 13, 14, 15] true)).toOption.map (·.id) = some 10 := by decide
-- c11_history: a live history that ends in ENDLIST: ids 9,10,11 and S P S P S
example :
    let h := runTraditional (live 7 [7, 8, 9, 10, 11]) [live 8 [8, 9, 10, 11], live 8 [8, 9, 10, 11] true]
    segIds h.1 = [9, 10, 11] ∧ h.1.map (·.kind) = [.segment, .playlist, .segment, .playlist, .segment] ∧ h.2 = .eos := by
  decide
-- … and one that stops instead of jumping when the window moved past the next id
example :
    let h := runTraditional (live 7 [7, 8, 9]) [live 11 [11, 12, 13]]
    segIds h.1 = [7] ∧ h.2 = .sel .nextNotFound := by
  decide
-- c11_eos: VOD of two segments
example : runTraditional (vod 3 [3, 4]) [vod 3 [3, 4]] =
    ([{ kind := .segment, uri := "seg3.ts", id := some 3 }, plReq false,
      { kind := .segment, uri := "seg4.ts", id := some 4 }], .eos) := by decide
example : clientOutcome [.eos, .eos] = .eos ∧ clientOutcome [.eos, .sel .tooLate] = .err (.sel .tooLate) := by decide
-- c11_range
example : segRange (some 100) (some 50) = some (100, 149) ∧ segRange none (some 50) = some (0, 49) := by decide
example : hintRange { uri := "p", brStart := 7, brLen := some 3 } = some (7, 9) := by decide
-- c11_ll: LL history with CAN-SKIP-UNTIL: hint, playlist(skip), hint, playlist(skip), then the hint disappears
private def ll (skip : Bool) (n : Nat) (hint : Bool := true) : PlaylistView :=
  { msn := 0, segs := [sg 0], serverControl := some { canBlockReload := true, canSkipUntil := skip },
    hint := if hint then some { uri := s!"part{n}.mp4" } else none }
example :
    let h := runLowLatency (ll true 0) [ll true 1, ll true 2 false]
    h.1.map (fun r => (r.kind, r.uri, r.skip)) =
      [(.hint, "part0.mp4", false), (.playlist, "", true), (.hint, "part1.mp4", false), (.playlist, "", true)]
    ∧ h.2 = .hintDisappeared ∧ isLowLatency (ll true 0) = true := by
  decide
-- c11_eos (d): the stream ends — ENDLIST playlist without hint ⇒ eos after hint 0, playlist, hint 1, playlist
private def llEnd (n : Nat) (hint : Bool) : PlaylistView := { ll true n hint with endlist := true }
example :
    let h := runLowLatency (ll true 0) [ll true 1, llEnd 2 false, ll true 3]
    h.1.map (fun r => (r.kind, r.uri)) =
      [(.hint, "part0.mp4"), (.playlist, ""), (.hint, "part1.mp4"), (.playlist, "")]
    ∧ h.2 = .eos := by
  decide
-- … an ENDLIST playlist that still advertises a hint does not end the loop: its hint is fetched too
example :
    let h := runLowLatency (ll true 0) [llEnd 1 true, llEnd 2 false]
    h.1.map (fun r => (r.kind, r.uri)) =
      [(.hint, "part0.mp4"), (.playlist, ""), (.hint, "part1.mp4"), (.playlist, "")]
    ∧ h.2 = .eos := by
  decide
example : ((runLowLatency (ll false 0) [ll false 1]).1.filter (·.kind = .playlist)).map (·.skip) = [false, false] := by decide

/-- "re-fetching the playlist between segments": in `runTraditional` the playlist from which the next segment is
    selected is downloaded AFTER the wait for the queue to drain, and `fillSegmentQueue` runs on it next (the order
    the model's `tradLoop` assumes when it pairs the k-th selection with the k-th view of the history). Reloading
    before the wait leaves the request sequence unchanged but selects from a playlist that is a segment duration old. -/
theorem c11_reload_after_wait :
    Hls.Gen.Select.tradLoopOrder = ["fillSegmentQueue", "waitUntilSizeIsBelow", "downloadPlaylist"] := by decide

end Hls.Props.C11
