import Hls.Playlist.MultiLemmas
import Hls.Playlist.FloatLemmas
import Hls.Gen.PlaylistMulti
/-!
# C14 (multivariant half) — Playlist Marshal/Unmarshal round-trips every field

Property theorems only (helper lemmas live in `Hls/Playlist/{Prim,Multi}Lemmas.lean`,
the vocabulary of the statements in `Hls/Playlist/MultiSpec.lean`).

Model: `Hls.Playlist.{Prim,Multi}` mirror pkg/playlist/primitives, multivariant*.go and
playlist.go statement by statement; the `t1_*` theorems pin the model's literal tables to the
tables regenerated from the Go source on every run (`Hls.Gen.PlaylistMulti`).

Floats.  `strconv.FormatFloat / ParseFloat`, `Duration.Seconds()` and the float64 operations involved are
modelled exactly by the soft float `F64` (integer arithmetic), tied to Go by the scalar ops of the T2
stream.  The tie/±1 ns envelope of DESIGN §2 is a THEOREM about that model (`floatEnvelope`,
`floatEnvelope3` in `Hls/Playlist/FloatLemmas.lean`: `roundRat` is within half an ulp, integers
below 2^53 are exact, …), so no statement below carries a float hypothesis.  `StartFloatOK p` /
`FloatOK p` (the envelope at the float fields of one value, decidable) remain as the run-time cross
check the driver evaluates on every generated value.
-/
namespace Hls.Props.C14Multi
open Hls.Playlist

/-! ## T1: the model's tables are the tables of the source -/

/-- dispatch chain of `Multivariant.Unmarshal`: same prefixes, same order, all `HasPrefix` -/
theorem t1_multivariant_dispatch :
    Hls.Gen.PlaylistMulti.multivariantDispatch = dispatchTable.map (fun pt => (pt.1, true)) := by decide

/-- dispatch chain of `findType`: same prefixes, same order, same returned kind -/
theorem t1_findtype_dispatch :
    Hls.Gen.PlaylistMulti.findTypeDispatch =
      findTypeTable.map (fun pk => (pk.1, true, match pk.2 with
        | .multivariant => c!"Multivariant"
        | .media => c!"Media")) := by decide

/-- attribute keys each tag's `unmarshal` switches on -/
theorem t1_keys :
    Hls.Gen.PlaylistMulti.startKeys = startKeys ∧ Hls.Gen.PlaylistMulti.variantKeys = variantKeys ∧
    Hls.Gen.PlaylistMulti.renditionKeys = renditionKeys ∧ Hls.Gen.PlaylistMulti.renditionTypes = renditionTypes := by
  decide

/-- constants: version cap, `ParseUint` bit sizes, `FormatFloat` precisions, header literal -/
theorem t1_consts :
    Hls.Gen.PlaylistMulti.maxSupportedVersion = maxSupportedVersion ∧
    Hls.Gen.PlaylistMulti.multivariantParseUintBits = [31] ∧
    Hls.Gen.PlaylistMulti.variantParseUintBits = [31, 31] ∧
    Hls.Gen.PlaylistMulti.startFormatFloatPrecs = [5] ∧
    Hls.Gen.PlaylistMulti.variantFormatFloatPrecs = [3] ∧
    Hls.Gen.PlaylistMulti.headerLit = headerLit := by decide

/-- interleave the string literals of a Go marshal function with the field texts -/
def weave : List Str → List Str → Str
  | l :: ls, f :: fs => l ++ f ++ weave ls fs
  | ls, [] => ls.flatten
  | [], _ => []

set_option exponentiation.threshold 2000 in
/-- The model's marshal functions emit exactly the string literals of the Go marshal functions,
    in source order (all optional fields present; `""` literals are the `!= ""` tests). -/
theorem t1_marshal_literals :
    Start.marshal { timeOffset := 0 } =
      weave Hls.Gen.PlaylistMulti.startMarshalLits [c!"0.00000"] ∧
    Variant.marshal { bandwidth := 1, averageBandwidth := some 2, codecs := [c!"c", c!"d"], resolution := c!"r",
                      frameRate := some (.fin false 4503599627370496 (-52)), video := c!"v", audio := c!"a", subtitles := c!"s",
                      closedCaptions := c!"k", uri := c!"u" } =
      weave (Hls.Gen.PlaylistMulti.variantMarshalLits.filter (· ≠ []))
        [c!"1", c!"2", c!"c", c!"d", [], c!"r", c!"1.000", c!"v", [], c!"a", [], c!"s", [], c!"k", [], c!"u"] ∧
    Rendition.marshal { type := c!"T", groupID := c!"g", language := c!"l", name := c!"n", autoselect := true,
                        default := true, forced := true, channels := some c!"c", uri := some c!"u",
                        inStreamID := some c!"i" } =
      weave (Hls.Gen.PlaylistMulti.renditionMarshalLits.filter (· ≠ []))
        [c!"T", c!"g", [], c!"l", [], c!"n", [], [], [], [], c!"c", [], c!"u", [], c!"i"] ∧
    Multivariant.marshal { version := 7, independentSegments := true, renditions := [{ type := c!"T" }] } =
      weave Hls.Gen.PlaylistMulti.multivariantMarshalLits
        [[], c!"7", [], [], Rendition.marshal { type := c!"T" }] := by decide

/-! ## Attribute lists -/

/-- `c14_attrs_roundtrip`: the tokenizer of `primitives/attributes.go` reads back every rendered
    attribute list (keys without `=` / leading space, quoted values without `"`, unquoted values
    without `,` and not starting with `"`), duplicate keys resolved as the Go map does. -/
theorem c14_attrs_roundtrip (as : List Attr) (h : WFAttrs as) : parseAttrs (renderAttrs as) = .ok (toMap as) :=
  parseAttrs_render as h

/-- duplicate key: the last occurrence wins -/
theorem c14_attrs_lastwins (as : List Attr) (k : Str) : (toMap as).get k = lastVal k as := get_toMap as k

/-- `c14_attrs_perm`: with distinct keys the decoded map does not depend on the attribute order -/
theorem c14_attrs_perm {as bs : List Attr} (hp : as.Perm bs) (hn : (as.map (·.1)).Nodup) (k : Str) :
    (toMap as).get k = (toMap bs).get k := toMap_perm hp hn k

example : WFAttrs [(c!"BANDWIDTH", .unquoted c!"1"), (c!"CODECS", .quoted c!"a,b")] := by decide

/-! ## Round trip -/

/-- `c14_multivariant_roundtrip`: for every value that meets the documented field requirements,
    `Unmarshal(Marshal(p))` succeeds and returns `p` field by field:
    `Version`, `IndependentSegments`, every `Variant` (Bandwidth, AverageBandwidth, Codecs, Resolution,
    FrameRate, Video, Audio, Subtitles, ClosedCaptions, URI — the whole list is equal), every
    `Rendition` (Type, GroupID, Name, Language, Autoselect, Default, Forced, Channels, URI, InStreamID —
    the whole list is equal), and `Start.TimeOffset` rounded to the 10 µs of the text form
    (`StartQuant`: nearest, either neighbour at a tie, ±1 ns). -/
theorem c14_multivariant_roundtrip (p : Multivariant) (h : WFMultivariant p) :
    ∃ p' : Multivariant, Multivariant.unmarshal p.marshal = .ok p' ∧
      p'.version = p.version ∧ p'.independentSegments = p.independentSegments ∧
      StartQuant p.start p'.start ∧ p'.variants = p.variants ∧ p'.renditions = p.renditions := by
  obtain ⟨st', h1, h2, _⟩ := unmarshal_marshal h (FloatOK_of_envelope floatEnvelope floatEnvelope3 h)
  exact ⟨_, h1, rfl, rfl, h2, rfl, rfl⟩

/-- per field, for the i-th variant and the j-th rendition -/
theorem c14_multivariant_roundtrip_fields (p : Multivariant) (h : WFMultivariant p) :
    ∃ p' : Multivariant, Multivariant.unmarshal p.marshal = .ok p' ∧
      (∀ (i : Nat) (v : Variant), p.variants[i]? = some v → ∃ v' : Variant, p'.variants[i]? = some v' ∧
        v'.bandwidth = v.bandwidth ∧ v'.averageBandwidth = v.averageBandwidth ∧ v'.codecs = v.codecs ∧
        v'.resolution = v.resolution ∧ v'.frameRate = v.frameRate ∧ v'.video = v.video ∧ v'.audio = v.audio ∧
        v'.subtitles = v.subtitles ∧ v'.closedCaptions = v.closedCaptions ∧ v'.uri = v.uri) ∧
      (∀ (j : Nat) (r : Rendition), p.renditions[j]? = some r → ∃ r' : Rendition, p'.renditions[j]? = some r' ∧
        r'.type = r.type ∧ r'.groupID = r.groupID ∧ r'.name = r.name ∧ r'.language = r.language ∧
        r'.autoselect = r.autoselect ∧ r'.default = r.default ∧ r'.forced = r.forced ∧
        r'.channels = r.channels ∧ r'.uri = r.uri ∧ r'.inStreamID = r.inStreamID) := by
  obtain ⟨st', h1, _, _⟩ := unmarshal_marshal h (FloatOK_of_envelope floatEnvelope floatEnvelope3 h)
  refine ⟨_, h1, ?_, ?_⟩
  · intro i v hv; exact ⟨v, hv, rfl, rfl, rfl, rfl, rfl, rfl, rfl, rfl, rfl, rfl⟩
  · intro j r hr; exact ⟨r, hr, rfl, rfl, rfl, rfl, rfl, rfl, rfl, rfl, rfl, rfl⟩

/-- the envelope at the float fields of any well-formed value (what the driver re-checks at run time) -/
theorem c14_floatok (p : Multivariant) (h : WFMultivariant p) : FloatOK p ∧ StartFloatOK p :=
  ⟨FloatOK_of_envelope floatEnvelope floatEnvelope3 h, (FloatOK_of_envelope floatEnvelope floatEnvelope3 h).1⟩

/-- the float envelope itself (durations: nearest 10 µs text, ±1 ns back; frame rates: exact) -/
theorem c14_float_envelope : FloatEnvelope ∧ FloatEnvelope3 := ⟨floatEnvelope, floatEnvelope3⟩

/-- without EXT-X-START the decoded value is `p` itself -/
theorem c14_multivariant_roundtrip_nostart (p : Multivariant) (h : WFMultivariant p) (hs : p.start = none) :
    Multivariant.unmarshal p.marshal = .ok p := by
  obtain ⟨st', h1, h2, _⟩ := unmarshal_marshal h (FloatOK_of_envelope floatEnvelope floatEnvelope3 h)
  rw [h1]
  rw [hs] at h2
  cases st' with
  | none => cases p; simp_all
  | some t => exact absurd h2 id

/-- `c14_multi_fixpoint`: `Marshal` is a fixpoint on its own output — the decoded value marshals to
    the same bytes. -/
theorem c14_multi_fixpoint (p : Multivariant) (h : WFMultivariant p) :
    ∃ p' : Multivariant, Multivariant.unmarshal p.marshal = .ok p' ∧ p'.marshal = p.marshal := by
  obtain ⟨st', h1, _, h3⟩ := unmarshal_marshal h (FloatOK_of_envelope floatEnvelope floatEnvelope3 h)
  refine ⟨_, h1, ?_⟩
  unfold Multivariant.marshal
  cases st' <;> cases hp : p.start <;> simp_all [Option.map]

/-! ## Kind detection -/

/-- `c14_kind`: `playlist.Unmarshal` (`findType`) picks Multivariant for every marshalled
    well-formed multivariant playlist … -/
theorem c14_kind (p : Multivariant) (h : WFMultivariant p) : findType p.marshal = .ok .multivariant :=
  findType_marshal h

/-- … and the rule the code implements: the first newline-terminated line that starts with
    `#EXT-X-STREAM-INF:` or `#EXTINF:` decides (`kindOfLine`); nothing else is looked at. -/
theorem c14_kind_rule {pre : List Str} {l0 : Str} (rest : Str) {k : Kind}
    (hpre : ∀ l ∈ pre, '\n' ∉ l ∧ kindOfLine l = none) (h0 : '\n' ∉ l0) (hk : kindOfLine l0 = some k) :
    findType (unlines pre ++ (l0 ++ '\n' :: rest)) = .ok k := findType_first rest hpre h0 hk

/-- no such line (an unterminated last line is not looked at): `io.EOF` -/
theorem c14_kind_none {pre : List Str} {tail : Str}
    (hpre : ∀ l ∈ pre, '\n' ∉ l ∧ kindOfLine l = none) (ht : '\n' ∉ tail) :
    findType (unlines pre ++ tail) = .error .eof := findType_none hpre ht

/-- `playlist.Unmarshal` on a marshalled multivariant playlist is `Multivariant.Unmarshal` -/
theorem c14_unmarshal_playlist {μ : Type} (um : Str → Res μ) (p : Multivariant) (h : WFMultivariant p) :
    unmarshalPlaylist um p.marshal = (Multivariant.unmarshal p.marshal).map .inl := by
  unfold unmarshalPlaylist
  rw [findType_marshal h]
  cases Multivariant.unmarshal p.marshal <;> rfl

/-! ## Syntactic variants decode to the same value -/

/-- `c14_variants_multi` (CRLF): with CR LF line ends every text decodes as with LF line ends — the
    same value or the same error (texts without stray CR, in particular every `Marshal` output). -/
theorem c14_variants_multi_crlf (s : Str) (h : '\r' ∉ s) :
    Multivariant.unmarshal (toCRLF s) = Multivariant.unmarshal s := unmarshal_toCRLF h

/-- `c14_variants_multi` (unknown tags, comments, blank lines): lines that match no case of the
    dispatch chain can be inserted after the header anywhere except between an EXT-X-STREAM-INF
    line and its URI line. -/
theorem c14_variants_multi_unknown_lines (s s' : Str) (hh : (readLineSpec s').1 = (readLineSpec s).1)
    (hp : PadUnknown (textLines (readLineSpec s).2) (textLines (readLineSpec s').2)) :
    Multivariant.unmarshal s' = Multivariant.unmarshal s := unmarshal_padUnknown hh hp

/-- `c14_variants_multi` (missing trailing newline): a text and the same text with one more LF
    decode alike. -/
theorem c14_variants_multi_trailing_newline (s : Str) (h : '\r' ∉ s) :
    Multivariant.unmarshal (s ++ ['\n']) = Multivariant.unmarshal s := unmarshal_snoc_nl h

/-- `c14_variants_multi` (attribute order, unknown attributes), per tag: any permutation of the
    attributes of an EXT-X-MEDIA / EXT-X-START / EXT-X-STREAM-INF tag, with attributes of other
    keys added anywhere, decodes to the same value. -/
theorem c14_variants_multi_attrs {as bs us : List Attr} (ha : WFAttrs as) (hb : WFAttrs bs)
    (hp : bs.Perm (as ++ us)) (hn : (bs.map (·.1)).Nodup) :
    ((∀ u ∈ us, u.1 ∉ renditionKeys) →
      Rendition.unmarshal (renderAttrs bs) = Rendition.unmarshal (renderAttrs as)) ∧
    ((∀ u ∈ us, u.1 ∉ startKeys) →
      Start.unmarshal (renderAttrs bs) = Start.unmarshal (renderAttrs as)) ∧
    ((∀ u ∈ us, u.1 ∉ variantKeys) → ∀ uri : Str, '\n' ∉ renderAttrs as → '\n' ∉ renderAttrs bs →
      Variant.unmarshal (renderAttrs bs ++ '\n' :: uri) = Variant.unmarshal (renderAttrs as ++ '\n' :: uri)) :=
  ⟨fun hu => Rendition.unmarshal_attr_variant ha hb hp hn hu,
   fun hu => Start.unmarshal_attr_variant ha hb hp hn hu,
   fun hu _ hax hbx => Variant.unmarshal_attr_variant ha hb hax hbx hp hn hu⟩

/-- the variants applied to a marshalled playlist: with CR LF line ends, and without its final
    newline, it decodes to what `Marshal`'s own output decodes to -/
theorem c14_variants_multi (p : Multivariant) (h : WFMultivariant p) :
    Multivariant.unmarshal (toCRLF p.marshal) = Multivariant.unmarshal p.marshal ∧
    ∃ t : Str, p.marshal = t ++ ['\n'] ∧ Multivariant.unmarshal t = Multivariant.unmarshal p.marshal := by
  have hclean := clean_marshalLines h
  have hcr : '\r' ∉ p.marshal := by
    rw [Multivariant.marshal_eq_unlines]
    intro hm
    simp only [unlines, List.mem_flatten, List.mem_map] at hm
    obtain ⟨x, ⟨l, hl, rfl⟩, hx⟩ := hm
    simp only [List.mem_append, List.mem_singleton] at hx
    rcases hx with hx | hx
    · exact (hclean l hl).2 hx
    · cases hx
  refine ⟨unmarshal_toCRLF hcr, ?_⟩
  have hne : marshalLines p ≠ [] := by simp [marshalLines]
  have hsplit := List.dropLast_concat_getLast hne
  refine ⟨unlines (marshalLines p).dropLast ++ (marshalLines p).getLast hne, ?_, ?_⟩
  · rw [Multivariant.marshal_eq_unlines]
    conv => lhs; rw [← hsplit]
    rw [unlines_append, unlines_cons, unlines_nil]; simp
  · have e : p.marshal = (unlines (marshalLines p).dropLast ++ (marshalLines p).getLast hne) ++ ['\n'] := by
      rw [Multivariant.marshal_eq_unlines]
      conv => lhs; rw [← hsplit]
      rw [unlines_append, unlines_cons, unlines_nil]; simp
    have hcr' : '\r' ∉ unlines (marshalLines p).dropLast ++ (marshalLines p).getLast hne := by
      intro hm; apply hcr; rw [e]; exact List.mem_append_left _ hm
    rw [e]
    exact (unmarshal_snoc_nl hcr').symm

example : WFMultivariant {
    version := 7, independentSegments := true, start := (some { timeOffset := -1500000000 }),
    variants := [{ bandwidth := 2147483647, averageBandwidth := (some 0), codecs := [c!"avc1.42c028", c!"mp4a.40.2"], resolution := c!"1280x720", video := c!"v", audio := c!"a b", subtitles := c!"s", closedCaptions := c!"cc", uri := c!"stream 1.m3u8" }],
    renditions := [{ type := c!"CLOSED-CAPTIONS", groupID := c!"cc", name := c!"n", inStreamID := (some c!"CC1"), forced := true }, { type := c!"SUBTITLES", groupID := c!"s", name := c!"x", uri := (some []) }] } := by decide

/-- each clause of `WFMultivariant` is there because without it the round trip is false by the
    format's own semantics; e.g. a quote inside a quoted string, a CR at the end of a URI,
    CLOSED-CAPTIONS with a URI -/
example : ¬ WFMultivariant { version := 3, variants := [{ bandwidth := 1, codecs := [c!"a"], uri := c!"u", audio := c!"a\"b" }] } := by decide
example : ¬ WFMultivariant { version := 3, variants := [{ bandwidth := 1, codecs := [c!"a"], uri := c!"u\r" }] } := by decide
example : ¬ WFMultivariant {
    version := 3, variants := [{ bandwidth := 1, codecs := [c!"a"], uri := c!"u" }],
    renditions := [{ type := c!"CLOSED-CAPTIONS", groupID := c!"g", name := c!"n", uri := (some c!"x"), inStreamID := (some c!"CC1") }] } := by decide

example : ∃ p : Multivariant, WFMultivariant p ∧ StartFloatOK p :=
  ⟨{ version := 3, variants := [{ bandwidth := 1, codecs := [c!"avc1"], uri := c!"a.m3u8" }] }, by decide, by decide⟩

end Hls.Props.C14Multi
