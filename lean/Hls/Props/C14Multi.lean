import Hls.Playlist.Multi
/-!
# C14 (multivariant half) — Playlist Marshal/Unmarshal round-trips every field
Property theorems only (helper lemmas live in `Hls/Playlist/*Lemmas*.lean`).
-/
namespace Hls.Props.C14Multi
open Hls.Playlist

end Hls.Props.C14Multi
