import Hls.Client.TimeConvLemmas
import Hls.Client.PacingLemmas
/-!
# C10 — Client delivers every sample of a well-formed stream with normalized time

Property theorems only (helper lemmas: `Hls/Client/TimeConvLemmas.lean`; model:
`Hls/Client/TimeConv.lean`, `Hls/Client/Process.lean`; regenerated arithmetic:
`Hls/Gen/TimeConv.lean`, `Hls/Gen/Arith.lean`).

Reading of the property used here and by the T2 oracle:
* "precede this origin" = converted PTS below zero. Because the origin of a non-leading track is
  `⌊base·r/ts⌋` (truncating division, `c10_sync`), a unit less than one tick before the origin is delivered
  at PTS 0 — inside the property's one-tick resolution.
* MPEG-TS: units of non-leading tracks that mediacommon's reader hands over *before* the first unit of the
  leading track cannot be related to an origin yet and are dropped (`c10_ts_gating`).
* AbsoluteTime of a unit in a later fragment of the segment is computed in two truncating steps and can be
  1 ns below `PDT + toDur(dts − dts_first)` (`c10_ntp`, second part); in the first fragment it is exact.
Real-time pacing and the 10 s DTS–RTC cap of `handleData` are modelled with the wall clock as a parameter
(`Hls/Client/Pacing.lean`, theorems `c10_pace_*` below): whatever the scheduling delays and timer overshoots, the cap
cannot stop a track whose consecutive DTS are at most 10 s apart, no unit is delivered before its DTS, and the
cap fires exactly when a unit arrives more than 10 s ahead of the clock. What stays outside is the Go runtime's
clock and timers themselves (monotone `time.Since`, `time.After` never early).
-/
namespace Hls.Props.C10
open Hls.Gen Hls.Gen.TimeConv Hls.Client.TimeConv Hls.Client.Process Hls.Client.TimeConvLemmas

/-! ## T1 table obligations: the model was written for exactly this source -/

/-- admissible source pins. `clientStreamProcessorFMP4.run` may be the original or carry the repairs of F9 / F8 /
    both (the regenerated flags must then say so); `processSegment` may carry the repair of F17 (capacity of the
    completion channel — scheduling only, invisible to this sequential model) and the repair of F15 in its refined form (a segment that has a fragment
    but no sample is skipped, a body without any fragment stays the error, a leading stream without origin errors at its end — outside `WF`: every downloaded segment of a
    well-formed stream carries leading-track data; modelled and proved in `Hls/Robust`, property C13). -/
def expectedPins : List (String × List String) := [
  ("clientTimeConvFMP4.setNTP", ["32fa93852b4eba70"]),
  ("clientTimeConvFMP4.getNTP", ["c32653412827477f"]),
  ("clientTimeConvMPEGTS.initialize", ["2a67e8fede629595"]),
  ("clientTimeConvMPEGTS.convert", ["91b7dc0630668238"]),
  ("clientTimeConvMPEGTS.setNTP", ["6858fd4d9ae1b087"]),
  ("clientTimeConvMPEGTS.getNTP", ["c420b11ed8b15d64"]),
  ("clientTrackProcessorFMP4.initialize", ["7ff4e1a32925c73a"]),
  ("clientTrackProcessorFMP4.process", ["17180701ca50ca48"]),
  ("clientTrackProcessorMPEGTS.process", ["8dcd447ca49aabd9"]),
  ("clientTrack.handleData", ["45d8ee066c639af2"]),
  ("fmp4PickLeadingTrack", ["1c8fec0d014713f9"]),
  ("findFirstPartTrackOfLeadingTrack", ["2bb7fd75aa060dbc"]),
  ("findTimeScaleOfLeadingTrack", ["85f8749fc2e183db"]),
  ("clientStreamProcessorFMP4.run", ["b25342f715ab4df2", "536bbd6fdc442c2c", "58af94543df442ed", "123729b57b835024"]),
  ("clientStreamProcessorFMP4.processSegment", ["2a497942e04fede6", "ac1e07081f019abd", "6e831d6096110be3"]),
  ("clientStreamProcessorFMP4.initializeTrackProcessors", ["75c37fc75a806c4b"]),
  ("mpegtsPickLeadingTrack", ["01552debe7b205e2"]),
  ("clientStreamProcessorMPEGTS.processSegment", ["b62bfcb71a3c99ef"]),
  ("clientStreamProcessorMPEGTS.initializeReader", ["7a33070791c1108a"]),
  ("clientStreamProcessorMPEGTS.initializeTrackProcessors", ["97eaa17ae5328637"]),
  ("Client.setLeadingTimeConv", ["338b48de7e533bd9"])
]

/-- flags (F9 repaired, F8 repaired) that go with each admissible pin of `run` -/
def runFlags : List (String × (Bool × Bool)) := [
  ("b25342f715ab4df2", (false, false)), ("536bbd6fdc442c2c", (true, false)),
  ("58af94543df442ed", (false, true)), ("123729b57b835024", (true, true))]

/-- Every pinned function has one of the shapes the model mirrors, nothing is missing, and the repair flags
    agree with the shape of `run`. -/
theorem c10_source_pins :
    pins.map (·.1) = expectedPins.map (·.1) ∧
    pins.all (fun p => match expectedPins.lookup p.1 with | some hs => hs.contains p.2 | none => false) = true ∧
    (pins.lookup "clientStreamProcessorFMP4.run").bind (runFlags.lookup ·) =
      some (fmp4RejectsZeroTimeScale, fmp4SkipsUnsupportedTracks) := by
  decide

/-- Every codec kind `FromFMP4` can return has a payload decoder (so, for known kinds, "known" = "decodable"). -/
theorem c10_known_kinds_decodable : fromFMP4Kinds.all (fun k => fmp4DecodableKinds.contains k) = true := by
  decide

/-- the constants the theorems below were proved for -/
theorem c10_constants : mpegtsTrackClockRate = 90000 ∧ timeDecoder_maximum = 2 ^ 33 - 1 ∧
    timeDecoder_negativeThreshold = 2 ^ 32 - 1 := by decide

/-! ## `convert` -/

/-- The origin maps to zero and the leading track is shifted exactly: in the leading track's own clock rate
    `convert v = v − base`, in particular `convert base = 0` (any base, any non-zero time scale). -/
theorem c10_leading_exact (ts base : Int) (hts : ts ≠ 0) :
    fmp4Convert ts base base ts = 0 ∧ ∀ v, fmp4Convert ts base v ts = v - base := by
  have h := mulDiv_self base ts hts
  constructor
  · simp [fmp4Convert, h]
  · intro v; simp [fmp4Convert, h]

example : fmp4Convert 90000 8589934000 8589934000 90000 = 0 := by decide   -- base just below 2^33

/-- Another track at clock rate `r`: the delivered value is the container value minus `⌊base·r/ts⌋`, i.e.
    `0 ≤ out − (v − base·r/ts) < 1` tick — stated without rationals, multiplied through by `ts`.
    Hence every track is within one tick of the exact common origin and two tracks stay mutually aligned
    to one tick of each. Truncating division as in Go; `base ≥ 0` because fMP4 base times are unsigned. -/
theorem c10_sync (ts base r v : Int) (hts : 0 < ts) (hb : 0 ≤ base) (hr : 0 ≤ r) :
    let out := fmp4Convert ts base v r
    (v - out) * ts ≤ base * r ∧ base * r < (v - out + 1) * ts := by
  intro out
  have h := mulDiv_floor base r ts hb hts hr
  have e : v - out = multiplyAndDivide base r ts := by simp [out, fmp4Convert]; omega
  rw [e]; exact h

/-- non-vacuity, real numbers: leading 90 kHz base just below 2^33, audio at 48 kHz:
    ⌊8589934000·48000/90000⌋ = 4581298133 (exact value 4581298133.33…) -/
example : fmp4Convert 90000 8589934000 4581298200 48000 = 67 := by decide
example : (4581298200 - 67 : Int) * 90000 ≤ 8589934000 * 48000 ∧
    (8589934000 * 48000 : Int) < (4581298200 - 67 + 1) * 90000 := by decide

/-! ## the fMP4 track processor -/

/-- A part-track of a decodable track with a non-zero clock rate is processed without panic, and the
    deliveries are exactly its samples with `pts ≥ 0`, in order, payload ids unchanged, each with its running
    DTS and `pts = dts + PTSOffset`. -/
theorem c10_all_delivered_entry (tr : TrackInfo) (hd : tr.decodable = true) (hr : tr.clockRate ≠ 0)
    (e : Int) (ntp : Option Int) (ss : List Sample) :
    ∃ ds, processEntry tr e ntp ss = .ok ds ∧
      ds = (withDts e ss).filterMap (deliveryOf tr e ntp) ∧
      ds.map (·.payload) = ((withDts e ss).filter (fun x => decide (0 ≤ x.2 + x.1.ptsOffset))).map (·.1.payload) := by
  refine ⟨_, by simp only [processEntry, fmp4ProcessInitialDts]; exact processLoop_ok tr hd hr e ntp ss e, expected_eq tr e ntp ss e, ?_⟩
  rw [expected_eq]
  generalize withDts e ss = l
  induction l with
  | nil => rfl
  | cons x rest ih =>
    simp only [List.filterMap_cons, List.filter_cons, deliveryOf]
    by_cases hx : x.2 + x.1.ptsOffset < 0
    · have : ¬ (0 ≤ x.2 + x.1.ptsOffset) := by omega
      simp [hx, this, ih]
    · have : 0 ≤ x.2 + x.1.ptsOffset := by omega
      simp [hx, this, ih]

/-- Per-sample DTS accumulation: the k-th sample of a part-track has `dts = entry dts + Σ_{j<k} duration_j`
    (and that is the value every delivery carries, see `c10_all_delivered_entry`). -/
theorem c10_accumulate (e : Int) (ss : List Sample) (k : Nat) (h : k < (withDts e ss).length) :
    ((withDts e ss)[k]).2 = e + ((ss.take k).map (·.duration)).sum ∧ (withDts e ss).map (·.1) = ss :=
  ⟨withDts_getElem ss e k h, withDts_map_fst ss e⟩

/-- … and each delivery is one of these samples: same payload id, `dts` = its running DTS, `pts = dts + offset`. -/
theorem c10_accumulate_delivered (tr : TrackInfo) (hd : tr.decodable = true) (hr : tr.clockRate ≠ 0)
    (e : Int) (ntp : Option Int) (ss : List Sample) (ds : List Delivery) (h : processEntry tr e ntp ss = .ok ds) :
    ∀ d ∈ ds, ∃ k, ∃ hk : k < ss.length, d.payload = ss[k].payload ∧
      d.dts = e + ((ss.take k).map (·.duration)).sum ∧ d.pts = d.dts + ss[k].ptsOffset ∧ d.track = tr.idx := by
  obtain ⟨ds', h', hs, _⟩ := c10_all_delivered_entry tr hd hr e ntp ss
  rw [h] at h'; cases h'
  intro d hdm
  rw [hs] at hdm
  obtain ⟨x, hx, hxd⟩ := List.mem_filterMap.mp hdm
  obtain ⟨k, hk, hkx⟩ := List.getElem_of_mem hx
  obtain ⟨p1, p2, p3, p4, _, _⟩ := deliveryOf_props tr e ntp x d hxd
  have hlen : (withDts e ss).length = ss.length := by
    have := congrArg List.length (withDts_map_fst ss e); simpa using this
  have hfst : ss[k]'(by omega) = x.1 := by
    have : ((withDts e ss).map (·.1))[k]'(by simp; exact hk) = x.1 := by simp [hkx]
    simpa [withDts_map_fst] using this
  have hdts := withDts_getElem ss e k hk
  rw [hkx] at hdts
  exact ⟨k, by omega, by rw [p2, hfst], by rw [p3, hdts], by rw [p4, p3, hfst], p1⟩

/-! ## a whole fMP4 segment -/

/-- First segment of the leading stream of a well-formed stream (decodable tracks, non-zero time scales,
    distinct ids, data of the leading track present): no panic, no error; the origin is the base time of the
    first part-track of the leading track at the leading time scale; and the deliveries are, part-track by
    part-track in container order, the samples with `pts ≥ 0` (`entrySpec` = `expected` on the converted base
    time; part-tracks with an unknown id contribute nothing). -/
theorem c10_all_delivered (s : FStream) (h : WF s) (conv : Option FMP4Conv) (seg : Segment) (lpt : PartTrack)
    (hs : s.procs = none) (hlead : s.isLeading = true)
    (hl : findFirstPT seg.parts s.leadingTrackID = some lpt) :
    ∃ c1 ds, s.processSegment conv seg = .ok ({ s with procs := some (buildProcs s.firstIdx s.init) }, some c1, ds) ∧
      c1.leadingTimeScale = leadRate s ∧ c1.leadingBaseTime = lpt.baseTime ∧
      ds = seg.parts.flatten.flatMap (entrySpec (buildProcs s.firstIdx s.init) c1) := by
  have := processSegment_first s h conv seg lpt hs hlead hl
  refine ⟨_, _, this, ?_, ?_, rfl⟩ <;>
  · unfold anchored; simp only [hlead, if_true]; cases seg.dateTime <;> rfl

/-- Every later segment of the leading stream, and every segment of a rendition once the leading stream has
    fixed the origin (`conv = some c`): same statement, the converter (and so the origin) is unchanged. -/
theorem c10_all_delivered_later (s : FStream) (h : WF s) (c : FMP4Conv) (hc : ConvOK c) (seg : Segment) (lpt : PartTrack)
    (hs : s.procs = some (buildProcs s.firstIdx s.init) ∨ (s.procs = none ∧ s.isLeading = false))
    (hl : findFirstPT seg.parts s.leadingTrackID = some lpt) :
    ∃ c1 ds, s.processSegment (some c) seg = .ok ({ s with procs := some (buildProcs s.firstIdx s.init) }, some c1, ds) ∧
      c1.leadingTimeScale = c.leadingTimeScale ∧ c1.leadingBaseTime = c.leadingBaseTime ∧ ConvOK c1 ∧
      ds = seg.parts.flatten.flatMap (entrySpec (buildProcs s.firstIdx s.init) c1) := by
  have := processSegment_ready s h c hc seg lpt hs hl
  refine ⟨_, _, this, ?_, ?_, anchored_ok s h c hc _ _, rfl⟩ <;>
  · unfold anchored; split
    · cases seg.dateTime <;> rfl
    · rfl

/-- What one part-track contributes (`entrySpec`), spelled out: the deliveries are the samples with `pts ≥ 0`
    in order; the first DTS is `convert(BaseTime)`; for the leading track that is `BaseTime − origin` exactly. -/
theorem c10_entry_times (procs : List (Int × TrackInfo)) (c : FMP4Conv) (pt : PartTrack) (tr : TrackInfo)
    (hl : procs.lookup pt.id = some tr) :
    let dts0 := fmp4Convert c.leadingTimeScale c.leadingBaseTime pt.baseTime tr.clockRate
    entrySpec procs c pt = (withDts dts0 pt.samples).filterMap (deliveryOf tr dts0 (ntpOf c dts0 tr.clockRate)) ∧
    (tr.clockRate = c.leadingTimeScale → c.leadingTimeScale ≠ 0 → dts0 = pt.baseTime - c.leadingBaseTime) := by
  intro dts0
  refine ⟨by simp only [entrySpec, hl]; exact expected_eq _ _ _ _ _, ?_⟩
  intro h1 h2
  simp only [dts0, h1]
  exact (c10_leading_exact _ _ h2).2 _

/-! ## never negative -/

/-- Whatever the input (well-formed or not), no outcome of the model delivers a unit with negative PTS —
    fMP4 segments and MPEG-TS segments alike. (`handleDataDiscard` is the regenerated condition.) -/
theorem c10_never_negative :
    (∀ (s : FStream) (conv : Option FMP4Conv) (seg : Segment) s' c' ds,
        s.processSegment conv seg = .ok (s', c', ds) → ∀ d ∈ ds, 0 ≤ d.pts) ∧
    (∀ (s : TStream) (st : TSState) (seg : TSSegment) st' ds,
        tsProcessSegment s st seg = .ok (st', ds) → ∀ d ∈ ds, 0 ≤ d.pts) :=
  ⟨fun s conv seg s' c' ds h => processSegment_nonneg s conv seg s' c' ds h,
   fun s st seg st' ds h => tsProcessSegment_nonneg s st st' seg ds h⟩

/-- What precedes the origin is dropped: a sample whose `pts = dts + offset` is negative is not among the deliveries
    of its part-track (the deliveries are exactly the `pts ≥ 0` ones, each sample at most once, in order). -/
theorem c10_preceding_dropped (tr : TrackInfo) (e : Int) (ntp : Option Int) (x : Sample × Int)
    (hneg : x.2 + x.1.ptsOffset < 0) : deliveryOf tr e ntp x = none := by
  simp [deliveryOf, hneg]

/-! ## 33-bit unwrap -/

/-- `TimeDecoder.Decode` follows the true time line: let `t0, t1, t2, …` be the true (unbounded) timestamps,
    consecutive ones less than 2^32 ticks apart in either direction; the container carries them modulo 2^33.
    After `clientTimeConvMPEGTS.initialize` with `t0`, the successive `convert` calls return `t_i − t0`,
    wherever the 33-bit wrap falls (t0 and the t_i are arbitrary integers). By induction over the sequence. -/
theorem c10_unwrap (t0 : Int) (ts : List Int) (h : Close t0 ts) :
    ((TSConv.init (t0 % 8589934592)).td.decodeAll (ts.map (· % 8589934592))).1 = ts.map (· - t0) := by
  have hinit : Tracks (TSConv.init (t0 % 8589934592)).td t0 t0 := (decode_first t0).2
  exact (decodeAll_tracks ts _ t0 t0 hinit h).1

/-- non-vacuity with real numbers: the stream starts 1000 ticks before the wrap, crosses it, and a B-frame style
    PTS/DTS pair jumps backwards across it again -/
example : ((TSConv.init 8589933592).td.decodeAll [8589934492, 200, 8589934092, 3000]).1 = [900, 1200, 500, 4000] := by
  decide
example : Close 8589933592 [8589934492, 8589934792, 8589934092, 8589937592] := by
  simp [Close]

/-! ## MPEG-TS segments -/

/-- Gating: in the leading stream, before the first unit of the leading track, units of other tracks are dropped
    and leave no trace in the state. -/
theorem c10_ts_gating (s : TStream) (dt : Option Int) (st : TSState) (hr : st.procsReady = false)
    (pre rest : List TSSample) (hpre : ∀ x ∈ pre, (x.track == s.leadingIdx) = false) :
    tsProcessSamples s dt st (pre ++ rest) = tsProcessSamples s dt st rest :=
  tsSteps_gated s dt st hr pre rest hpre

/-- First MPEG-TS segment of the leading stream: the origin is the DTS of the first leading-track unit `x0`; from
    `x0` on every unit with `pts − origin ≥ 0` is delivered once, in order, payload id unchanged, with
    `pts = PTS − origin`, `dts = DTS − origin` computed on the TRUE time line although the container carries
    the values modulo 2^33 (hypothesis: successive PTS/DTS values differ by less than 2^32 ticks). -/
theorem c10_ts_all_delivered (s : TStream) (hl : s.isLeading = true) (st : TSState) (hr : st.procsReady = false)
    (dt : Option Int) (pre post : List TrueSample) (x0 : TrueSample)
    (hpre : ∀ x ∈ pre, (x.track == s.leadingIdx) = false) (hx0 : (x0.track == s.leadingIdx) = true)
    (hc : Close x0.dts (chain (x0 :: post))) :
    ∃ st' ds, tsProcessSegment s st { dateTime := dt, samples := (pre ++ x0 :: post).map raw } = .ok (st', ds) ∧
      ds.map (·.payload) = ((x0 :: post).filter (fun x => decide (0 ≤ x.pts - x0.dts))).map (·.payload) ∧
      (∀ d ∈ ds, ∃ x ∈ x0 :: post, d.track = s.firstIdx + x.track ∧ d.payload = x.payload ∧
          d.pts = x.pts - x0.dts ∧ d.dts = x.dts - x0.dts) ∧
      (∀ T, dt = some T → ∀ d ∈ ds, d.ntp = some (T + timestampToDuration (d.dts - 0) 90000)) := by
  obtain ⟨st', e, _⟩ := tsSegment_first s hl st hr dt pre post x0 hpre hx0 hc
  refine ⟨st', _, e, refSteps_payloads s dt x0.dts _ _, refSteps_mem s dt x0.dts _ _, ?_⟩
  intro T hT d hd
  subst hT
  have := refSteps_ntp s hl T x0.dts { t := x0.dts, found := true } rfl x0 hx0 post d hd
  simpa using this

/-- Later MPEG-TS segments (any stream whose state is represented by a reference state `r` with origin `t0`):
    all units with `pts − origin ≥ 0` delivered in order with true-time-line timestamps. -/
theorem c10_ts_all_delivered_later (s : TStream) (st : TSState) (r : Ref) (t0 : Int) (h : Rel st r t0)
    (dt : Option Int) (xs : List TrueSample) (hc : Close r.t (chain xs))
    (hlead : xs.any (fun x => x.track == s.leadingIdx) = true) :
    ∃ st' ds r', tsProcessSegment s st { dateTime := dt, samples := xs.map raw } = .ok (st', ds) ∧ Rel st' r' t0 ∧
      ds.map (·.payload) = (xs.filter (fun x => decide (0 ≤ x.pts - t0))).map (·.payload) ∧
      (∀ d ∈ ds, ∃ x ∈ xs, d.track = s.firstIdx + x.track ∧ d.payload = x.payload ∧
          d.pts = x.pts - t0 ∧ d.dts = x.dts - t0) := by
  obtain ⟨st', e, hrel⟩ := tsSegment_ready s st r t0 h dt xs hc hlead
  exact ⟨st', _, _, e, hrel, refSteps_payloads s dt t0 _ _, refSteps_mem s dt t0 _ _⟩

/-! ## AbsoluteTime -/

/-- fMP4, leading stream, segment with PROGRAM-DATE-TIME `T`: with `dts₁` = converted base time of the segment's
    first leading-track part-track, a unit of a track at rate `r` in a part-track whose converted base time is
    `dts₀` gets `AbsoluteTime = T + toDur(dts₀ − mulDiv(dts₁, r, L), r) + toDur(dts − dts₀, r)`;
    for the leading track (`r = L`) that is `T + toDur(dts₀ − dts₁) + toDur(dts − dts₀)`, which equals
    `T + toDur(dts − dts₁)` up to 1 ns (exactly, when the unit is in the first fragment: `dts₀ = dts₁`). -/
theorem c10_ntp (s : FStream) (c0 : FMP4Conv) (T : Int) (lpt pt : PartTrack) (tr : TrackInfo)
    (procs : List (Int × TrackInfo)) (hlead : s.isLeading = true) (hl : procs.lookup pt.id = some tr) :
    let c1 := anchored s c0 (some T) lpt
    let L := leadRate s
    let dts1 := fmp4Convert c0.leadingTimeScale c0.leadingBaseTime lpt.baseTime L
    let dts0 := fmp4Convert c0.leadingTimeScale c0.leadingBaseTime pt.baseTime tr.clockRate
    (∀ d ∈ entrySpec procs c1 pt,
      d.ntp = some (T + timestampToDuration (dts0 - multiplyAndDivide dts1 tr.clockRate L) tr.clockRate
                      + timestampToDuration (d.dts - dts0) tr.clockRate)) ∧
    (tr.clockRate = L → 0 < L → ∀ d ∈ entrySpec procs c1 pt, 0 ≤ dts0 - dts1 → 0 ≤ d.dts - dts0 →
      ∃ n, d.ntp = some n ∧ n ≤ T + timestampToDuration (d.dts - dts1) L ∧
        T + timestampToDuration (d.dts - dts1) L ≤ n + 1 ∧
        (dts0 = dts1 → n = T + timestampToDuration (d.dts - dts1) L)) := by
  intro c1 L dts1 dts0
  have hc1 : c1 = c0.setNTP T dts1 L := by simp [c1, anchored, hlead, dts1, L]
  have key : ∀ d ∈ entrySpec procs c1 pt,
      d.ntp = some (T + timestampToDuration (dts0 - multiplyAndDivide dts1 tr.clockRate L) tr.clockRate
                      + timestampToDuration (d.dts - dts0) tr.clockRate) := by
    intro d hd
    have hd' : d ∈ (withDts dts0 pt.samples).filterMap
        (deliveryOf tr dts0 (ntpOf c1 dts0 tr.clockRate)) := by
      have := (c10_entry_times procs c1 pt tr hl).1
      rw [this] at hd
      simpa [hc1, FMP4Conv.setNTP, dts0] using hd
    obtain ⟨x, _, hx⟩ := List.mem_filterMap.mp hd'
    obtain ⟨_, _, p3, _, _, p6⟩ := deliveryOf_props _ _ _ x d hx
    rw [p6, p3]
    simp [ntpOf, hc1, FMP4Conv.setNTP, fmp4NtpOffset]
  refine ⟨key, ?_⟩
  intro hr hL d hd h1 h2
  have hk := key d hd
  rw [hr, mulDiv_self dts1 L (by omega)] at hk
  refine ⟨_, hk, ?_, ?_, ?_⟩
  · have := (toDur_add_bounds (dts0 - dts1) (d.dts - dts0) L h1 h2 hL).1
    have e : dts0 - dts1 + (d.dts - dts0) = d.dts - dts1 := by omega
    rw [e] at this; omega
  · have := (toDur_add_bounds (dts0 - dts1) (d.dts - dts0) L h1 h2 hL).2
    have e : dts0 - dts1 + (d.dts - dts0) = d.dts - dts1 := by omega
    rw [e] at this; omega
  · intro he
    rw [he]; simp [toDur_zero]

/-- MPEG-TS, leading stream, segment with PROGRAM-DATE-TIME `T`, on the reference semantics (which
    `c10_ts_all_delivered*` tie to the model): from the segment's first leading-track unit `xl` on, every delivery has
    `AbsoluteTime = T + toDur(dts − dts_xl, 90000)` exactly. -/
theorem c10_ntp_ts (s : TStream) (hl : s.isLeading = true) (T t0 : Int) (r : Ref) (hr : r.dtp = false)
    (xl : TrueSample) (hx : (xl.track == s.leadingIdx) = true) (post : List TrueSample) :
    ∀ d ∈ (refSteps s (some T) t0 r (xl :: post)).2,
      d.ntp = some (T + timestampToDuration (d.dts - (xl.dts - t0)) 90000) :=
  refSteps_ntp s hl T t0 r hr xl hx post

/-! ## non-vacuity: a concrete two-track stream (90 kHz video with base near 2^33, 48 kHz audio) -/

def exInit : List InitTrack :=
  [{ id := 1, timeScale := 90000, kind := "H264", isVideo := true },
   { id := 2, timeScale := 48000, kind := "MPEG4Audio", isVideo := false }]

def exSeg : Segment :=
  { dateTime := some 1700000000000000000,
    parts := [[{ id := 2, baseTime := 4581298100, samples := [⟨10, 1024, 0⟩, ⟨11, 1024, 0⟩] },
               { id := 1, baseTime := 8589934000, samples := [⟨20, 3000, 6000⟩, ⟨21, 3000, -3001⟩, ⟨22, 3000, 0⟩] }]] }

/-- the example stream is accepted and satisfies the hypotheses of `c10_all_delivered` -/
example : ∃ s, FStream.start true 0 exInit = .ok s ∧ WF s ∧ s.procs = none ∧ s.isLeading = true ∧
    findFirstPT exSeg.parts s.leadingTrackID = some ⟨1, 8589934000, [⟨20, 3000, 6000⟩, ⟨21, 3000, -3001⟩, ⟨22, 3000, 0⟩]⟩ := by
  refine ⟨{ isLeading := true, firstIdx := 0, init := exInit, leadingTrackID := 1 }, by rfl, ?_, rfl, rfl, by decide⟩
  exact ⟨by decide, by decide, by decide⟩

/-- … and what comes out: the first audio unit (33 ticks before the origin) is dropped, the second delivered at
    pts 991; video at dts 0/3000/6000, the unit with pts 3000−3001 < 0 dropped; NTP = PDT + offset. -/
example : (match (FStream.start true 0 exInit) with
    | .ok s => (match s.processSegment none exSeg with
      | .ok (_, _, ds) => ds.map (fun (d : Delivery) => (d.track, d.payload, d.pts, d.dts, d.ntp))
      | .error _ => [])
    | .error _ => []) =
    [(1, 11, 991, 991, some 1700000000020645833),
     (0, 20, 6000, 0, some 1700000000000000000), (0, 22, 6000, 6000, some 1700000000066666666)] := by
  decide


/-! ## non-vacuity: an MPEG-TS segment that starts 1000 ticks before the 33-bit wrap -/

def exTS : TStream := { isLeading := true, firstIdx := 0, leadingIdx := 0 }
/-- an audio unit at the origin that the reader hands over before the first video unit (dropped, `c10_ts_gating`) -/
def exPre : List TrueSample := [⟨1, 8589933592, 8589933592, 2⟩]
def exX0 : TrueSample := ⟨0, 8589934192, 8589933592, 1⟩
/-- true timestamps beyond 2^33 = 8589934592: the container carries them wrapped -/
def exPost : List TrueSample :=
  [⟨1, 8589934192, 8589934192, 3⟩, ⟨0, 8589934792, 8589934192, 4⟩, ⟨1, 8589934792, 8589934792, 5⟩]

/-- the hypotheses of `c10_ts_all_delivered` hold for it -/
example : (∀ x ∈ exPre, (x.track == exTS.leadingIdx) = false) ∧ (exX0.track == exTS.leadingIdx) = true ∧
    Close exX0.dts (chain (exX0 :: exPost)) := by
  refine ⟨by decide, by decide, ?_⟩
  simp [Close, chain, exX0, exPost]

/-- … the wrap really is inside the stream … -/
example : (exPost.map raw).map (·.pts) = [8589934192, 200, 200] := by decide

/-- … and this is what the model delivers -/
example : (match tsProcessSegment exTS { conv := none }
      { dateTime := some 1700000000000000000, samples := (exPre ++ exX0 :: exPost).map raw } with
    | .ok (_, ds) => ds.map (fun (d : Delivery) => (d.track, d.payload, d.pts, d.dts, d.ntp))
    | .error _ => []) =
    [(0, 1, 600, 0, some 1700000000000000000), (1, 3, 600, 600, some 1700000000006666666),
     (0, 4, 1200, 600, some 1700000000006666666), (1, 5, 1200, 1200, some 1700000000013333333)] := by
  decide

/-- `Rel` (hypothesis of `c10_ts_all_delivered_later`) is inhabited: the state right after the origin was fixed -/
example : Rel { conv := some (TSConv.init (8589933592 % 8589934592)), procsReady := true, leadingTrackFound := true }
    { t := 8589933592, found := true } 8589933592 :=
  rel_first { conv := none } 8589933592

/-- `ConvOK` (hypothesis of `c10_all_delivered_later`) and the anchored converter of `c10_ntp`, concretely -/
example : ConvOK { leadingTimeScale := 90000, leadingBaseTime := 8589934000, ntpAvailable := true,
                   ntpValue := 1700000000000000000, ntpTimestamp := 0, ntpClockRate := 90000 } :=
  ⟨by decide, fun _ => by decide⟩

/-- the ≤ 1 ns slack of `c10_ntp` is real: 5 ticks + 5 ticks at 90 kHz -/
example : timestampToDuration 5 90000 + timestampToDuration 5 90000 + 1 = timestampToDuration 10 90000 := by decide

/-! ## Real-time pacing (`clientTrack.handleData`), wall clock as a parameter -/

open Hls.Client.Pacing in
/-- T1: the pacing `select` sleeps exactly `diff` and its only other arm is the cancellation; the cap is 10 s -/
theorem c10_pace_shape : handleDataPaceSleepsDiff = true ∧ handleDataPaceCancelArm = true ∧
    clientMaxDTSRTCDiff = 10 * 1000000000 := by decide

open Hls.Client.Pacing in
/-- "delivers every access unit": for EVERY schedule (arbitrary non-negative delays between the calls of a track,
    arbitrary timer overshoot) the 10 s cap never ends a track whose consecutive DTS are at most 10 s apart and whose
    first unit is at most 10 s after the origin; every unit is delivered at or after `startRTC + DTS`, in order. -/
theorem c10_pace_never_stops (as : List Arrival) (hc : Clocked as) (hg : GapsBelowCap 0 as) :
    ∃ ts, run 0 as = some ts ∧ ts.length = as.length ∧
      (∀ i (h : i < as.length) (h' : i < ts.length), as[i].dur ≤ ts[i]) ∧ ts.Pairwise (· ≤ ·) := by
  obtain ⟨ts, h1, h2, h3, _, h5⟩ := run_spec as 0 0 (Int.le_refl 0) hc hg
  exact ⟨ts, h1, h2, h3, h5⟩

open Hls.Client.Pacing in
/-- the cap fires exactly when a unit arrives more than 10 s ahead of the clock (so `c10_pace_never_stops` is tight) -/
theorem c10_pace_cap_iff (d e : Int) : pace d e = .tooBig ↔ clientMaxDTSRTCDiff < d - e := pace_tooBig_iff d e

open Hls.Client.Pacing in
/-- … and then the run ends there, whatever came before -/
theorem c10_pace_cap_ends (t : Int) (a : Arrival) (rest : List Arrival)
    (h : clientMaxDTSRTCDiff < a.dur - (t + a.gap)) : run t (a :: rest) = none := run_cap_fires t a rest h

open Hls.Client.Pacing in
/-- with exact timers a unit that is ahead of the clock is delivered exactly at its DTS -/
theorem c10_pace_exact (t : Int) (a : Arrival) (h : t + a.gap < a.dur)
    (hc : a.dur - (t + a.gap) ≤ clientMaxDTSRTCDiff) (ho : a.over = 0) : run t [a] = some [a.dur] :=
  run_exact t a h hc ho

open Hls.Client.Pacing in
/-- closed form for exact timers: delivery = max(DTS, arrival); lateness is never carried over to later units -/
theorem c10_pace_closed_form (t : Int) (a : Arrival) (rest : List Arrival) (ho : a.over = 0)
    (hc : a.dur - (t + a.gap) ≤ clientMaxDTSRTCDiff) :
    run t (a :: rest) = (run (max a.dur (t + a.gap)) rest).map (max a.dur (t + a.gap) :: ·) :=
  run_cons_exact t a rest ho hc

open Hls.Client.Pacing in
/-- non-vacuity: 25 fps units, the second arrives late, the third early with a 1 ms overshoot -/
example : Clocked [⟨0, 5, 0⟩, ⟨40000000, 50000000, 0⟩, ⟨80000000, 1000, 1000000⟩] ∧
    GapsBelowCap 0 [⟨0, 5, 0⟩, ⟨40000000, 50000000, 0⟩, ⟨80000000, 1000, 1000000⟩] ∧
    run 0 [⟨0, 5, 0⟩, ⟨40000000, 50000000, 0⟩, ⟨80000000, 1000, 1000000⟩] = some [5, 50000005, 81000000] := by
  refine ⟨?_, ?_, by decide⟩
  · intro a ha; simp at ha; rcases ha with rfl | rfl | rfl <;> decide
  · simp [GapsBelowCap, clientMaxDTSRTCDiff]

open Hls.Client.Pacing in
/-- an 11 s hole in the DTS of a track that is delivered in real time ends the client -/
example : run 0 [⟨0, 0, 0⟩, ⟨11000000000, 1000, 0⟩] = none := by decide

end Hls.Props.C10
