import Hls.MvGen.LemmasBw
import Hls.MvGen.LemmasSpec
/-!
# C16 — Multivariant playlist truthfully describes tracks, renditions and bitrate

Property theorems only (helper lemmas and the specification-side definitions `isRenditionTrack`, `expectedRendition`,
`renditionCore`: `Hls/MvGen/Lemmas*.lean`, `Hls/MvGen/LemmasSpec.lean`). The model `Hls.MvGen` mirrors
`Muxer.Start`, `generateMultivariantPlaylist`, `populateMultivariantPlaylist`, `bandwidth()` and
`codecparams.Marshal`; constants and case lists are `Hls.Gen.MvGen.*`, regenerated from the source.

Reading of the property (DESIGN §9): "exactly one rendition is DEFAULT" is stated for muxers that
have at least one rendition. `tracks` always denotes the track list with its CURRENT parameters
(the driver replaces `Track.params` whenever a written unit carries new parameter sets, as the code does).
-/
namespace Hls.Props.C16
open Hls.Gen Hls.MvGen

/-- The regenerated tables have the shape the proofs and the model were written for
(finite tables: `decide`). -/
theorem c16_tables :
    MvGen.isVideoCases = ["AV1", "VP9", "H265", "H264"] ∧
    MvGen.variantsLiteralLen = 1 ∧ MvGen.independentSegments = true ∧
    MvGen.versionMPEGTS = 3 ∧ MvGen.versionOther = 9 ∧
    MvGen.variantAudioGroup = MvGen.renditionGroupID ∧ MvGen.renditionType = "AUDIO" ∧
    MvGen.renditionAutoselect = true ∧
    MvGen.marshalCaseNames = ["AV1", "VP9", "H265", "H264", "Opus", "MPEG4Audio"] ∧
    MvGen.marshalCases.map (fun p => (p.1, p.2.head?)) =
      [("AV1", some "av01."), ("VP9", some "vp09."), ("H265", some "hvc1."), ("H264", some "avc1."),
       ("Opus", some "opus"), ("MPEG4Audio", some "mp4a.40.")] ∧
    MvGen.leadingZerosSizes.all (· == 2) = true := by decide

/-- the six vectors of the repository's `TestMarshal`, through the model of `codecparams.Marshal` -/
example : codecString (.av1 0 8 false 8 false true true 0 none) = "av01.0.08M.08.0.110.01.01.01.0" := by decide
example : codecString (.vp9 1 8) = "vp09.01.10.08" := by decide
example : codecString (.h264 0x42 0xc0 0x28) = "avc1.42c028" := by decide
example : codecString (.mpeg4audio 2) = "mp4a.40.2" := by decide
example : codecString .opus = "opus" := by decide

/-- Exactly one variant; its URI is the media playlist of the (unique) leading stream, with the
request's raw query appended; BANDWIDTH/AVERAGE-BANDWIDTH are the two results of `bandwidth()`;
every rendition URI is a stream's media playlist with the same query. -/
theorem c16_one_variant (v : Variant) (sc : Nat) (tracks : List Track) (streams : List Stream)
    (q : String) (bw : Nat × Nat) (h : start v sc tracks = .ok streams) :
    let m := generateWith v streams tracks q bw
    m.variants.length = 1 ∧ streams.countP (·.isLeading) = 1 ∧
    ∃ mv, m.variants = [mv] ∧ mv.bandwidth = bw.1 ∧ mv.averageBandwidth = bw.2 ∧
      (∀ s ∈ streams, s.isLeading = true → mv.uri = withQuery (mediaPlaylistPath s.id) q) ∧
      (∀ r ∈ m.renditions, ∀ u, r.uri = some u →
        ∃ s ∈ streams, s.isLeading = false ∧ u = withQuery (mediaPlaylistPath s.id) q) ∧
      m.version = (if v = .mpegts then 3 else 9) ∧ m.independentSegments = true := by
  intro m
  have hcount : streams.countP (·.isLeading) = 1 := by
    by_cases hv : v = .mpegts
    · subst hv
      obtain ⟨_, rfl, _⟩ := start_ok_mpegts h
      simp [mpegtsStream]
    · obtain ⟨hne, hco, hd, _, _⟩ := start_ok_other h hv
      have hc := streams_core h hv
      have := countP_of_map_eq Stream.core (coreOf tracks.length (hasVideo tracks)) (fun c => c.isLeading) _ _ hc
      have e1 : streams.countP (·.isLeading) = streams.countP ((fun c : StreamCore => c.isLeading) ∘ Stream.core) := rfl
      rw [e1, this]
      exact countP_lead tracks hne hco
  obtain ⟨f1, f2, f3, f4, f5, _, _, _⟩ :=
    foldl_populate_fields tracks q streams ({ bandwidth := bw.1, averageBandwidth := bw.2 }, [])
  refine ⟨rfl, hcount, _, rfl, ?_, ?_, ?_, ?_, ?_, rfl⟩
  · exact f4
  · exact f5
  · intro s hs hl
    show (streams.foldl (populate tracks q) _).1.uri = _
    rw [f2]
    exact foldl_uriStep_unique q streams _ hcount s hs hl
  · intro r hr u hu
    have hr' : r ∈ (streams.foldl (populate tracks q) ({ bandwidth := bw.1, averageBandwidth := bw.2 }, [])).2 := hr
    rw [f1] at hr'
    simp only [List.nil_append, List.mem_map, List.mem_filter] at hr'
    obtain ⟨s, ⟨hs, _⟩, rfl⟩ := hr'
    simp only [toRendition] at hu
    by_cases hl : s.isLeading = true
    · simp [hl] at hu
    · have hl' : s.isLeading = false := by simpa using hl
      simp only [hl', Bool.not_false, ↓reduceIte, Option.some.injEq] at hu
      exact ⟨s, hs, hl', hu.symm⟩
  · show (if v = .mpegts then MvGen.versionMPEGTS else MvGen.versionOther) = _
    rfl

/-- video + two audio tracks, fMP4 -/
example :
    let tracks : List Track := [{ codec := .h264, params := .h264 0x42 0xc0 0x28 }, { codec := .mpeg4audio, params := .mpeg4audio 2 },
      { codec := .opus, params := .opus, name := "German", language := "de" }]
    (start .fmp4 3 tracks).map (fun ss => (generateWith .fmp4 ss tracks "a=b" (7, 5)).variants.map (·.uri)) =
      .ok ["video1_stream.m3u8?a=b"] := by decide

/-- The EXT-X-MEDIA list is, in track order, exactly one entry per qualifying audio track, in the
variant's AUDIO group, with the user's name (or the stream id), the language, and a URI unless the
track is the leading one. The MPEG-TS variant has no renditions. -/
theorem c16_renditions (v : Variant) (sc : Nat) (tracks : List Track) (streams : List Stream)
    (q : String) (bw : Nat × Nat) (h : start v sc tracks = .ok streams) :
    let m := generateWith v streams tracks q bw
    (v = .mpegts → m.renditions = []) ∧
    (v ≠ .mpegts →
      m.renditions.map renditionCore =
        ((tracks.zipIdx 0).filter (isRenditionTrack tracks)).map (expectedRendition tracks q)) ∧
    (∀ mv ∈ m.variants, mv.audio = if m.renditions = [] then "" else "audio") := by
  intro m
  obtain ⟨f1, _, f3, _, _, _, _, _⟩ :=
    foldl_populate_fields tracks q streams ({ bandwidth := bw.1, averageBandwidth := bw.2 }, [])
  have hrend : m.renditions = (streams.filter (·.isRendition)).map (toRendition q) := by
    show (streams.foldl (populate tracks q) _).2 = _
    rw [f1]; simp
  refine ⟨?_, ?_, ?_⟩
  · intro hv; subst hv
    obtain ⟨_, rfl, _⟩ := start_ok_mpegts h
    rw [hrend]; simp [mpegtsStream]
  · intro hv
    have hc := streams_core h hv
    rw [hrend, List.map_map]
    -- the compared fields of a rendition are a function of the stream's core
    let g : StreamCore → String × String × String × String × Bool × Option String := fun c =>
      (MvGen.renditionType, MvGen.renditionGroupID, c.name, c.language, MvGen.renditionAutoselect,
       if !c.isLeading then some (withQuery (mediaPlaylistPath c.id) q) else none)
    have e1 : (renditionCore ∘ toRendition q) = g ∘ Stream.core := by
      funext s; rfl
    have e2 : (streams.filter (·.isRendition)) = streams.filter ((fun c : StreamCore => c.isRendition) ∘ Stream.core) := rfl
    rw [e1, e2, ← List.map_map, filter_map_of_map_eq Stream.core _ (fun c => c.isRendition) _ _ hc, List.map_map]
    have e3 : (tracks.zipIdx 0).filter ((fun c : StreamCore => c.isRendition) ∘ coreOf tracks.length (hasVideo tracks)) =
        (tracks.zipIdx 0).filter (isRenditionTrack tracks) := by
      congr 1; funext ti
      simp only [Function.comp, coreOf]
      exact rendTrack_eq tracks ti
    rw [e3]
    apply List.map_congr_left
    intro ti hti
    have hq : isRenditionTrack tracks ti = true := (List.mem_filter.mp hti).2
    have hq' : rendTrack tracks.length (hasVideo tracks) ti.1 ti.2 = true := by rw [rendTrack_eq]; exact hq
    simp only [Function.comp, g, coreOf, hq', ↓reduceIte, expectedRendition]
    rfl
  · intro mv hmv
    have hmv' : mv = (streams.foldl (populate tracks q) ({ bandwidth := bw.1, averageBandwidth := bw.2 }, [])).1 := by
      have : m.variants = [(streams.foldl (populate tracks q) ({ bandwidth := bw.1, averageBandwidth := bw.2 }, [])).1] := rfl
      rw [this] at hmv; simpa using hmv
    rw [hmv', f3, foldl_audioStep, hrend]
    by_cases ha : streams.any (·.isRendition) = true
    · have : (streams.filter (·.isRendition)).map (toRendition q) ≠ [] := by
        obtain ⟨s, hs, hr⟩ := List.any_eq_true.mp ha
        intro hnil
        have : s ∈ streams.filter (·.isRendition) := List.mem_filter.mpr ⟨hs, hr⟩
        simp only [List.map_eq_nil_iff] at hnil
        rw [hnil] at this; simp at this
      simp only [ha, ↓reduceIte, this]; rfl
    · have hf : streams.filter (·.isRendition) = [] := by
        rw [List.filter_eq_nil_iff]
        intro s hs hr
        exact ha (List.any_eq_true.mpr ⟨s, hs, hr⟩)
      simp [ha, hf]

/-- audio-only, three tracks: every track is a rendition, the leading one without URI -/
example :
    let tracks : List Track := [{ codec := .mpeg4audio, params := .mpeg4audio 2, language := "en" },
      { codec := .opus, params := .opus, name := "German", language := "de" }, { codec := .mpeg4audio, params := .mpeg4audio 2, isDefault := true }]
    (start .fmp4 3 tracks).map (fun ss => (generateWith .fmp4 ss tracks "" (7, 5)).renditions.map
        (fun r => (r.name, r.language, r.default, r.uri))) =
      .ok [("audio1", "en", false, none), ("German", "de", false, some "audio2_stream.m3u8"),
           ("audio3", "", true, some "audio3_stream.m3u8")] := by decide

/-- Exactly one rendition is DEFAULT whenever there is a rendition: the user-marked audio track if
one is marked, otherwise the first rendition. -/
theorem c16_one_default (v : Variant) (sc : Nat) (tracks : List Track) (streams : List Stream)
    (q : String) (bw : Nat × Nat) (h : start v sc tracks = .ok streams) (hv : v ≠ .mpegts) :
    let m := generateWith v streams tracks q bw
    m.renditions ≠ [] →
    (m.renditions.filter (·.default)).length = 1 ∧
    ((∀ t ∈ tracks, isDefAudio t = false) → m.renditions.head?.map (·.default) = some true) ∧
    ((∃ t ∈ tracks, isDefAudio t = true) →
      m.renditions.map (·.default) =
        ((tracks.zipIdx 0).filter (isRenditionTrack tracks)).map (fun ti => ti.1.isDefault)) := by
  intro m hne
  obtain ⟨f1, _, _, _, _, _, _, _⟩ :=
    foldl_populate_fields tracks q streams ({ bandwidth := bw.1, averageBandwidth := bw.2 }, [])
  have hrend : m.renditions = (streams.filter (·.isRendition)).map (toRendition q) := by
    show (streams.foldl (populate tracks q) _).2 = _
    rw [f1]; simp
  have hdef : m.renditions.map (·.default) = (streams.filter (·.isRendition)).map (·.isDefault) := by
    rw [hrend, List.map_map]; rfl
  have hlen : (m.renditions.filter (·.default)).length = (m.renditions.map (·.default)).count true := by
    rw [List.count_eq_countP, List.countP_map, List.countP_eq_length_filter]
    congr 1
    apply List.filter_congr
    intro r _; simp
  obtain ⟨hnetr, hco, hd, hcd, hstreams⟩ := start_ok_other h hv
  have hcnt := checkDefault_ok tracks false hd hcd
  simp only [Bool.false_eq_true, ↓reduceIte, Nat.add_zero] at hcnt
  have hk : 0 < (streams.filter (·.isRendition)).length := by
    have : (m.renditions).length = (streams.filter (·.isRendition)).length := by rw [hrend]; simp
    have : 0 < m.renditions.length := List.length_pos_iff.mpr hne
    omega
  cases hd with
  | false =>
    -- no user-marked default: [true, false, …]
    have hnone : tracks.countP isDefAudio = 0 := by simpa using hcnt
    have hfirst := mkStreams_default_first tracks.length (hasVideo tracks) tracks 0 false
    rw [← hstreams] at hfirst
    obtain ⟨k, hk'⟩ : ∃ k, (streams.filter (·.isRendition)).length = k + 1 := ⟨_, (Nat.succ_pred_eq_of_pos hk).symm⟩
    rw [hk'] at hfirst
    simp only [firstTrue, Bool.not_false] at hfirst
    refine ⟨?_, ?_, ?_⟩
    · rw [hlen, hdef, hfirst]
      simp [List.count_cons, List.count_replicate]
    · intro _
      have : (m.renditions.map (·.default)).head? = some true := by rw [hdef, hfirst]; rfl
      rw [← List.head?_map]; exact this
    · rintro ⟨t, ht, hdt⟩
      exfalso
      have : 0 < tracks.countP isDefAudio := List.countP_pos_iff.mpr ⟨t, ht, hdt⟩
      omega
  | true =>
    have hone : tracks.countP isDefAudio = 1 := by simpa using hcnt
    have hfull := mkStreams_full_user tracks.length (hasVideo tracks) tracks 0 false
    rw [← hstreams] at hfull
    -- renditions' DEFAULT flags are the tracks' flags
    have hfm := filter_map_of_map_eq (fun s : Stream => (s.core, s.isDefault))
      (fun ti : Track × Nat => (coreOf tracks.length (hasVideo tracks) ti,
        rendTrack tracks.length (hasVideo tracks) ti.1 ti.2 && ti.1.isDefault))
      (fun c => c.1.isRendition) _ _ hfull
    have hflags : (streams.filter (·.isRendition)).map (·.isDefault) =
        ((tracks.zipIdx 0).filter (isRenditionTrack tracks)).map (fun ti => ti.1.isDefault) := by
      have e1 : streams.filter (·.isRendition) =
          streams.filter ((fun c : StreamCore × Bool => c.1.isRendition) ∘ (fun s : Stream => (s.core, s.isDefault))) := rfl
      have e2 : (streams.filter (·.isRendition)).map (·.isDefault) =
          ((streams.filter (·.isRendition)).map (fun s : Stream => (s.core, s.isDefault))).map (·.2) := by
        rw [List.map_map]; rfl
      rw [e2, e1, hfm, List.map_map]
      have e3 : (tracks.zipIdx 0).filter ((fun c : StreamCore × Bool => c.1.isRendition) ∘
          (fun ti : Track × Nat => (coreOf tracks.length (hasVideo tracks) ti,
            rendTrack tracks.length (hasVideo tracks) ti.1 ti.2 && ti.1.isDefault))) =
          (tracks.zipIdx 0).filter (isRenditionTrack tracks) := by
        congr 1; funext ti
        simp only [Function.comp, coreOf]
        exact rendTrack_eq tracks ti
      rw [e3]
      apply List.map_congr_left
      intro ti hti
      have hq : isRenditionTrack tracks ti = true := (List.mem_filter.mp hti).2
      have hq' : rendTrack tracks.length (hasVideo tracks) ti.1 ti.2 = true := by rw [rendTrack_eq]; exact hq
      simp [Function.comp, hq']
    -- some track qualifies
    have hex : ∃ ti ∈ tracks.zipIdx 0, isRenditionTrack tracks ti = true := by
      have hc := streams_core h hv
      have hpos : 0 < ((tracks.zipIdx 0).filter (isRenditionTrack tracks)).length := by
        have := congrArg List.length hflags
        simp only [List.length_map] at this
        omega
      obtain ⟨ti, hti⟩ := List.exists_mem_of_length_pos hpos
      exact ⟨ti, (List.mem_filter.mp hti).1, (List.mem_filter.mp hti).2⟩
    have hall := all_audio_rend hex
    refine ⟨?_, ?_, ?_⟩
    · rw [hlen, hdef, hflags, List.count_eq_countP, List.countP_map, List.countP_filter]
      -- qualifying ∧ default  =  default audio
      have e : (tracks.zipIdx 0).countP (fun a => ((fun x => x == true) ∘ fun ti : Track × Nat => ti.1.isDefault) a && isRenditionTrack tracks a) =
          (tracks.zipIdx 0).countP (fun ti => isDefAudio ti.1) := by
        apply List.countP_congr
        intro ti hti
        simp only [Function.comp, beq_true, Bool.and_eq_true, isDefAudio, Bool.not_eq_true']
        constructor
        · rintro ⟨hdf, hq⟩
          unfold isRenditionTrack at hq
          simp only [Bool.and_eq_true, Bool.not_eq_true'] at hq
          exact ⟨hq.1, hdf⟩
        · rintro ⟨hvid, hdf⟩
          exact ⟨hdf, hall ti hti hvid⟩
      rw [e]
      have e' : (tracks.zipIdx 0).countP (fun ti => isDefAudio ti.1) = tracks.countP isDefAudio := by
        have : (fun ti : Track × Nat => isDefAudio ti.1) = isDefAudio ∘ Prod.fst := rfl
        rw [this, ← List.countP_map]
        simp
      rw [e', hone]
    · intro hno
      exfalso
      have : tracks.countP isDefAudio = 0 := by
        rw [List.countP_eq_zero]
        intro t ht; simp [hno t ht]
      omega
    · intro _
      rw [hdef, hflags]

/-- video, audio, audio(user default): the marked one is DEFAULT -/
example :
    let tracks : List Track := [{ codec := .vp9, params := .vp9 0 8 }, { codec := .opus, params := .opus },
      { codec := .mpeg4audio, params := .mpeg4audio 2, isDefault := true }]
    (start .lowLatency 7 tracks).map (fun ss => (generateWith .lowLatency ss tracks "" (7, 5)).renditions.map (·.default)) =
      .ok [false, true] := by decide

/-- CODECS is duplicate free and lists exactly the RFC 6381 strings (`codecString` = the model of
`codecparams.Marshal`) of the current parameters of every track. -/
theorem c16_codecs (v : Variant) (sc : Nat) (tracks : List Track) (streams : List Stream)
    (q : String) (bw : Nat × Nat) (h : start v sc tracks = .ok streams) :
    ∀ mv ∈ (generateWith v streams tracks q bw).variants,
      mv.codecs.Nodup ∧ ∀ c, c ∈ mv.codecs ↔ ∃ t ∈ tracks, c = codecString t.params := by
  intro mv hmv
  obtain ⟨_, _, _, _, _, f6, _, _⟩ :=
    foldl_populate_fields tracks q streams ({ bandwidth := bw.1, averageBandwidth := bw.2 }, [])
  have hmv' : mv = (streams.foldl (populate tracks q) ({ bandwidth := bw.1, averageBandwidth := bw.2 }, [])).1 := by
    have : (generateWith v streams tracks q bw).variants =
        [(streams.foldl (populate tracks q) ({ bandwidth := bw.1, averageBandwidth := bw.2 }, [])).1] := rfl
    rw [this] at hmv; simpa using hmv
  have hflat : streams.flatMap (streamTracks tracks) = tracks := by
    by_cases hv : v = .mpegts
    · subst hv
      obtain ⟨_, rfl, _⟩ := start_ok_mpegts h
      simp [streamTracks_mpegts]
    · obtain ⟨_, _, hd, _, rfl⟩ := start_ok_other h hv
      have := flatMap_streamTracks_mk tracks.length (hasVideo tracks) hd tracks [] false
      simpa using this
  rw [hmv', f6, hflat]
  have := foldl_addCodec tracks [] List.nodup_nil
  refine ⟨this.1, ?_⟩
  intro c
  rw [this.2 c]
  simp

/-- two AAC tracks with the same object type: listed once -/
example :
    let tracks : List Track := [{ codec := .h264, params := .h264 0x42 0xc0 0x28 }, { codec := .mpeg4audio, params := .mpeg4audio 2 },
      { codec := .mpeg4audio, params := .mpeg4audio 2 }, { codec := .opus, params := .opus }]
    (start .fmp4 3 tracks).map (fun ss => (generateWith .fmp4 ss tracks "" (7, 5)).variants.map (·.codecs)) =
      .ok [["avc1.42c028", "mp4a.40.2", "opus"]] := by decide

/-- RESOLUTION and FRAME-RATE are those of the current parameters of the video track (FRAME-RATE only
for H264 / H265 parameter sets that carry timing information); an audio-only muxer has neither. -/
theorem c16_video_attrs (v : Variant) (sc : Nat) (tracks : List Track) (streams : List Stream)
    (q : String) (bw : Nat × Nat) (h : start v sc tracks = .ok streams) :
    ∀ mv ∈ (generateWith v streams tracks q bw).variants,
      (∀ t ∈ tracks, isVideo t.codec = true →
        mv.resolution = t.res ∧
        mv.frameRate = (if t.codec = .h264 ∨ t.codec = .h265 then t.fps else none)) ∧
      ((∀ t ∈ tracks, isVideo t.codec = false) → mv.resolution = "" ∧ mv.frameRate = none) := by
  intro mv hmv
  obtain ⟨_, _, _, _, _, _, f7, f8⟩ :=
    foldl_populate_fields tracks q streams ({ bandwidth := bw.1, averageBandwidth := bw.2 }, [])
  have hmv' : mv = (streams.foldl (populate tracks q) ({ bandwidth := bw.1, averageBandwidth := bw.2 }, [])).1 := by
    have : (generateWith v streams tracks q bw).variants =
        [(streams.foldl (populate tracks q) ({ bandwidth := bw.1, averageBandwidth := bw.2 }, [])).1] := rfl
    rw [this] at hmv; simpa using hmv
  have hboth : streams.flatMap (streamTracks tracks) = tracks ∧ tracks.countP isVideoT ≤ 1 := by
    by_cases hv : v = .mpegts
    · subst hv
      obtain ⟨_, rfl, hck⟩ := start_ok_mpegts h
      have hle := checkMPEGTS_ok tracks false false hck
      simp only [Bool.false_eq_true, ↓reduceIte, Nat.add_zero] at hle
      exact ⟨by simp [streamTracks_mpegts], hle⟩
    · obtain ⟨_, hco, hd, _, rfl⟩ := start_ok_other h hv
      have := flatMap_streamTracks_mk tracks.length (hasVideo tracks) hd tracks [] false
      have hle := checkOther_ok tracks false hco
      simp only [Bool.false_eq_true, ↓reduceIte, Nat.add_zero] at hle
      exact ⟨by simpa using this, hle⟩
  obtain ⟨hflat, hle⟩ := hboth
  have g1 : ∀ (x : String) (t : Track), isVideoT t = false → addRes x t = x := by
    intro x t ht; simp only [isVideoT] at ht; simp [addRes, ht]
  have g2 : ∀ (x : Option String) (t : Track), isVideoT t = false → addFps x t = x := by
    intro x t ht; simp only [isVideoT] at ht; simp [addFps, ht]
  rw [hmv', f7, f8, hflat]
  refine ⟨?_, ?_⟩
  · intro t ht hvid
    rw [foldl_video_unique addRes g1 tracks _ hle t ht hvid, foldl_video_unique addFps g2 tracks _ hle t ht hvid]
    refine ⟨by simp [addRes, hvid], ?_⟩
    unfold addFps
    cases hf : t.fps <;> by_cases hk : (t.codec = .h264 ∨ t.codec = .h265) <;> simp [hvid, hf, hk]
  · intro hall
    have h0 : tracks.countP isVideoT = 0 := by
      rw [List.countP_eq_zero]; intro t ht; simp [isVideoT, hall t ht]
    rw [foldl_video_none addRes g1 tracks _ h0, foldl_video_none addFps g2 tracks _ h0]
    exact ⟨rfl, rfl⟩

example :
    let tracks : List Track := [{ codec := .opus, params := .opus },
      { codec := .h265, params := .invalid, res := "1920x1080", fps := some "30.000" }]
    (start .fmp4 3 tracks).map (fun ss => (generateWith .fmp4 ss tracks "" (7, 5)).variants.map
      (fun mv => (mv.resolution, mv.frameRate, mv.uri))) = .ok [("1920x1080", some "30.000", "video2_stream.m3u8")] := by decide

/-! ## `bandwidth()` — the code after the repair of finding F13

`Hls.MvGen.bandwidth` / `generate` model the FIXED code (total functions); `bandwidthCode` / `generateCode`
are the same code with the two guards of the repair taken from the regenerated facts
`MvGen.bandwidthSkipsZeroDuration` / `MvGen.bandwidthGuardsZeroTotal` (this is what the driver runs
against the real code); `bandwidthLegacy` is the definition before the repair. -/

/-- T1 tie of the repair: the extractor finds both guards in the source of `bandwidth()` — the conjunct
`seg.getDuration() > 0` in the loop and `if durations == 0 { return int(maxBandwidth), 0 }` before the
final division. Reverting the fix in the source makes this (and `c16_no_panic`) fail. -/
theorem c16_fix_present :
    MvGen.bandwidthSkipsZeroDuration = true ∧ MvGen.bandwidthGuardsZeroTotal = true := by decide

/-- `index.m3u8` never panics: on EVERY input (any variant, stream list, tracks, query, and any
`(size, duration)` list of `m.streams[0].segments`, reachable or not) the multivariant handler over
`bandwidth()` as found in the source returns, and returns what the model of the fixed code returns. -/
theorem c16_no_panic (v : Variant) (streams : List Stream) (tracks : List Track) (q : String) (segs : List Seg) :
    bandwidthCode segs = .ok (bandwidth segs) ∧
    generateCode v streams tracks q segs = .ok (generate v streams tracks q segs) := by
  have hb : bandwidthCode segs = .ok (bandwidth segs) := by
    unfold bandwidthCode
    rw [c16_fix_present.1, c16_fix_present.2]
    exact bandwidthWith_fixed segs
  refine ⟨hb, ?_⟩
  unfold generateCode generate
  rw [hb]

/-- `BANDWIDTH ≥ AVERAGE-BANDWIDTH` (mediant inequality on the floor divisions); zero-duration
segments are left out of both numbers, an all-zero window gives `AVERAGE-BANDWIDTH = 0 ≤ BANDWIDTH`. -/
theorem c16_bw_order (segs : List Seg) (mx avg : Nat) (h : bandwidth segs = (mx, avg)) : avg ≤ mx := by
  rw [bandwidth_eq] at h
  simp only [Prod.mk.injEq] at h
  obtain ⟨rfl, rfl⟩ := h
  by_cases hdu : (bwLoop segs 0 0 0).2.2 = 0
  · simp [hdu]
  · simp only [hdu, ↓reduceIte]
    rcases bwLoop_mediant segs 0 0 0 (Or.inr ⟨rfl, rfl⟩) with hlt | ⟨h0, _⟩
    · have := (Nat.div_lt_iff_lt_mul (Nat.pos_of_ne_zero hdu)).mpr hlt
      omega
    · exact absurd h0 hdu

/-- `bandwidth()` returns exactly the peak and the mean bit rate of the listed non-gap segments WITH A
NON-ZERO DURATION (`timed segs`); when no such segment is listed both are 0 (`meanRate` divides by the
total duration; the second clause spells out the `0 / 0` case instead of relying on Lean's convention);
without a listed zero duration nothing is left out. -/
theorem c16_bw_exact (segs : List Seg) :
    bandwidth segs = (peakRate (timed segs), meanRate (timed segs)) ∧
    (totalDur (timed segs) = 0 → bandwidth segs = (0, 0)) ∧
    ((∀ size, Seg.seg size 0 ∉ segs) → timed segs = segs) := by
  have hspec := bwLoop_spec segs 0 0 0
  have heq : bandwidth segs = (peakRate (timed segs), meanRate (timed segs)) := by
    rw [bandwidth_eq, hspec]
    simp only [Nat.zero_add, peakRate, meanRate]
    by_cases hdu : totalDur (timed segs) = 0
    · simp [hdu]
    · simp [hdu]
  refine ⟨heq, ?_, timed_eq_self⟩
  intro h0
  rw [heq]
  simp [peakRate, meanRate, rates_timed_of_totalDur_zero segs h0, h0]

/-- `AVERAGE-BANDWIDTH > 0` iff at least one listed non-gap segment has a positive duration AND the
segments with a positive duration carry at least one bit per second on average
(`Σdur ≤ 8·10⁹·Σsize`). In particular: some listed segment has a positive duration and every listed
segment with a positive duration carries at least one byte per 8 s ⇒ both numbers are positive. -/
theorem c16_bw_pos (segs : List Seg) (mx avg : Nat) (h : bandwidth segs = (mx, avg)) :
    (0 < avg ↔ (∃ size dur, Seg.seg size dur ∈ segs ∧ 0 < dur) ∧
                totalDur (timed segs) ≤ 8 * totalSize (timed segs) * nsPerSec) ∧
    ((∃ size dur, Seg.seg size dur ∈ segs ∧ 0 < dur) →
      (∀ size dur, Seg.seg size dur ∈ segs → 0 < dur → dur ≤ 8 * size * nsPerSec) → 0 < avg ∧ 0 < mx) := by
  have h2 : avg = meanRate (timed segs) := by
    have := (c16_bw_exact segs).1
    rw [h] at this
    exact (Prod.mk.inj this).2
  have hiff : 0 < avg ↔ (∃ size dur, Seg.seg size dur ∈ segs ∧ 0 < dur) ∧
      totalDur (timed segs) ≤ 8 * totalSize (timed segs) * nsPerSec := by
    rw [h2, ← totalDur_timed_pos_iff]; unfold meanRate
    rw [Nat.div_pos_iff]
  refine ⟨hiff, ?_⟩
  intro hex hg
  have hsum : totalDur (timed segs) ≤ 8 * totalSize (timed segs) * nsPerSec :=
    totalDur_le_of_guard (timed segs) (fun size dur hm =>
      hg size dur (mem_timed.mp hm).1 (Nat.pos_of_ne_zero (mem_timed.mp hm).2))
  have hpos := hiff.mpr ⟨hex, hsum⟩
  exact ⟨hpos, by have := c16_bw_order segs mx avg h; omega⟩

example : bandwidth [.gap 1000000000, .seg 125000 1000000000, .seg 250000 2000000000] = (1000000, 1000000) := by decide
example : bandwidth [.seg 300000 1000000000, .seg 100000 1000000000] = (2400000, 1600000) := by decide
/-- the skipped-segment case: a zero-duration segment between two timed ones changes neither number -/
example : bandwidth [.seg 300000 1000000000, .seg 700 0, .seg 100000 1000000000] = (2400000, 1600000) := by decide
/-- non-vacuity of `c16_bw_pos` (second clause) -/
example : (∃ size dur, Seg.seg size dur ∈ [Seg.seg 900 1000000000, .seg 700 0] ∧ 0 < dur) ∧
    (∀ size dur, Seg.seg size dur ∈ [Seg.seg 900 1000000000, .seg 700 0] → 0 < dur → dur ≤ 8 * size * nsPerSec) := by
  refine ⟨⟨900, 1000000000, by simp, by omega⟩, ?_⟩
  intro size dur hm hpos
  simp only [List.mem_cons, Seg.seg.injEq, List.not_mem_nil, or_false] at hm
  rcases hm with ⟨rfl, rfl⟩ | ⟨rfl, rfl⟩
  · simp [nsPerSec]
  · omega

/-- What REMAINS of F13 after the repair (known finding F13b): the zero-duration segment itself. When
it is the only listed segment the hypothesis of `c16_bw_pos` fails and the playlist says
`BANDWIDTH=0,AVERAGE-BANDWIDTH=0`; a too small rate (`Σdur > 8·10⁹·Σsize`) is the only other way. -/
example : bandwidth [.seg 700 0] = (0, 0) ∧ bandwidth [.gap 5, .seg 700 0, .seg 900 0] = (0, 0) ∧
    bandwidth [.seg 0 1000000000] = (0, 0) := by decide

/-! ## The finding F13, machine-checked on the legacy definition -/

/-- F13: before the repair `bandwidth()` divided by zero — for every size, on the duration list
`[1 s, 0, 1 s]` that a parameter change at the predecessor's DTS produces (see the `leadWrite` run
below); in general it panicked iff a zero-duration segment (or no segment at all) was listed. The
repair is conservative: whenever the legacy code returned, the fixed code returns the same pair. -/
theorem c16_legacy_panic :
    (∀ s : Nat, bandwidthLegacy [.seg s 1000000000, .seg s 0, .seg s 1000000000] = .error .divideByZero) ∧
    (∀ segs, (∃ e, bandwidthLegacy segs = .error e) ↔
      (segs ≠ [] ∧ ((∃ size, Seg.seg size 0 ∈ segs) ∨ ∀ size dur, Seg.seg size dur ∉ segs))) ∧
    (∀ segs r, bandwidthLegacy segs = .ok r → bandwidth segs = r) := by
  refine ⟨?_, bandwidthLegacy_error_iff, fun segs r h => bandwidthWith_ok h⟩
  intro s
  simp [bandwidthLegacy, bandwidthWith, bwLoopWith]

/-- each guard alone is not enough: without the loop conjunct the F13 list still panics, without the
final guard an all-zero window does -/
example : bandwidthWith false true [.seg 900 1000000000, .seg 700 0, .seg 900 1000000000] = .error .divideByZero ∧
    bandwidthWith true false [.seg 700 0] = .error .divideByZero ∧
    bandwidthWith true false [.seg 900 1000000000, .seg 700 0, .seg 900 1000000000] = .ok (7200, 7200) := by decide

/-- F13 on the model: fMP4, one H264 track, a random-access unit with changed parameters at the
DTS of its predecessor forces a zero-duration segment; the legacy `index.m3u8` then divides by zero,
the fixed one answers from the two timed segments. -/
example :
    let s0 : SegSt := { variant := .fmp4, segCount := 3, segMin := 1000000000, rate := 90000, leadVideo := true }
    let s := leadWrite (leadWrite (leadWrite (leadWrite (leadWrite s0 0 true false) 90000 true false) 180000 true false)
      180000 true true) 270000 true false
    s.entries = [.seg 1000000000, .seg 0, .seg 1000000000] ∧
    bandwidthLegacy [.seg 900 1000000000, .seg 700 0, .seg 900 1000000000] = .error .divideByZero ∧
    bandwidth [.seg 900 1000000000, .seg 700 0, .seg 900 1000000000] = (7200, 7200) := by decide

end Hls.Props.C16
