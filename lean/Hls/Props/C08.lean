import Hls.Race.Lockset
import Hls.Race.PhaseMap
import Hls.Race.Snapshot
import Hls.Race.SeqInv
import Hls.Race.View
/-!
# C08 — One writer + concurrent HTTP readers: no data race, no panic, atomic views

Property theorems only.

* Race freedom is a lockset-with-publication discipline, proved over the REGENERATED access table
  `Hls.Gen.accesses` (tie T1: go/cmd/extract/gen_accesses.go) and the hand-written phase map
  `Hls.Race.phaseMap` (trusted, `Hls/Race/PhaseMap.lean`): `c08_rows_ok` is the table obligation
  (`decide`), `c08_table_disciplined` the pairwise statement, `c08_race_free` the instance of the generic
  theorem `Hls.Race.lockset_sound` in the abstract interleaving machine of `Hls/Race/Lockset.lean`.
  They are stated for the FULL regenerated table: `Hls.Race.knownRaces` is empty since the data races the
  machinery found (F5, F14a, F14b; each demonstrated by the race detector, notes/race.md) are repaired.
  Any undisciplined access — new, or a repair reverted — breaks the `decide`
  (`c08_legacy_rows_rejected`: the pre-repair rows are rejected by the same check).
* Snapshot atomicity and per-requester monotonicity are proved in the machine of
  `Hls/Race/Snapshot.lean` over the FROZEN sequential model `Hls.Muxer`; the atomicity of a handler's
  step is justified by `c08_handlers_locked`, a fact of the same table.
* No panic: on every state of the sequential run the operations a handler performs that could panic
  are safe (`c08_no_panic_seq`). The division in `bandwidth()` is NOT covered: it can be zero —
  known finding F13 (property C16, `Hls.Props.C16`; also listed for C08 in known_findings.json).

Level: proof over an extracted syntactic table + hand-written phase map; no alias analysis; the Go
memory model, `sync`, and mediacommon internals are trusted; the race-detector soak
(tools/race_soak.sh) is a search and a sanity check of the phase map, not the proof.
-/
namespace Hls.Props.C08
open Hls.Race Hls.Gen Hls.Muxer

/-! ## (2) Race freedom -/

set_option maxRecDepth 200000 in
/-- **Table obligation.** Every row of the regenerated access table follows the
    discipline the phase map claims for its field: writes only where the policy allows a write
    (role, function, lock held exclusively), handler reads under the lock the policy names, no handler
    ever writes. -/
theorem c08_rows_ok : accesses.all (rowOK phaseMap) = true := by decide

/-- Every conflicting pair of accesses (same field, different threads possible, at least one a write)
    shares a lock in conflicting modes or is separated by a publication phase. -/
theorem c08_table_disciplined : disciplined phaseMap accesses = true :=
  rowsOK_disciplined phaseMap accesses c08_rows_ok

/-- **No data race** (modulo the trusted base): in no reachable synchronisation state of the abstract
    machine (one producer thread `0` = the `Write*`/`Close` goroutine, any number of handler threads,
    locks M/S/F with mutex / RW-lock semantics, objects published once) do two different threads have
    conflicting accesses of the table to the same field of the same object enabled at the same time. -/
theorem c08_race_free {σ : St} (hr : Reachable σ) {t₁ t₂ : Tid} {a b : Access AccFn AccField} {o : Obj}
    (h₁ : canDo phaseMap accesses σ t₁ a o) (h₂ : canDo phaseMap accesses σ t₂ b o)
    (hne : t₁ ≠ t₂) (hf : a.field = b.field)
    (hw : isWrite phaseMap a = true ∨ isWrite phaseMap b = true) : False :=
  lockset_sound phaseMap accesses c08_table_disciplined hr h₁ h₂ hne hf hw

/-- non-vacuity: a state in which a handler thread (holding M) and the writer (holding nothing) both have
    an access enabled exists — the theorem says such pairs never conflict -/
example : ∃ σ, Reachable σ ∧
    canDo phaseMap accesses σ 1
      ⟨.muxerStream_hasContent, .muxerStream_segments, .r, [(.M, .excl)], .handler⟩ 0 ∧
    canDo phaseMap accesses σ 0
      ⟨.muxerPart_writeSample, .muxerPart_isIndependent, .w, [], .writer⟩ 0 := by
  refine ⟨{ held := [(1, .M, .excl)], pub := fun _ => false }, ?_, ?_, ?_⟩
  · exact Reachable.step Reachable.init (Step.lock St.init 1 .M (by intro e he; cases he))
  · refine ⟨by decide, by decide, Or.inl ⟨rfl, by decide⟩, ?_, by decide, by decide⟩
    intro p hp
    simp only [List.mem_singleton] at hp
    subst hp
    exact List.mem_singleton.mpr rfl
  · refine ⟨by decide, by decide, Or.inr ⟨Or.inl rfl, rfl⟩, ?_, by decide, fun _ => rfl⟩
    intro p hp; cases hp

/-- No exception list is in force: the table the theorems above are about is the full regenerated table. -/
theorem c08_no_exceptions : Hls.Race.checkedAccesses = accesses :=
  List.filter_eq_self.mpr (fun _ _ => rfl)

/-- **The discipline rejects the code as it was before the repairs.** The 15 undisciplined rows of the access
    table extracted from the pre-repair tree (F5: `muxerStream.close` storing `closed` without M; F14a: `write*`
    storing codec parameters without M; F14b: `fileDisk.Finalize` / `NewPart` / `partDisk.Reader` on a part's
    buffer and size without a common lock) all fail `rowOK` under today's phase map, and they are exactly the rows
    named by `legacyKnownRaces`. Reverting a repair therefore breaks `c08_rows_ok`. -/
theorem c08_legacy_rows_rejected :
    legacyRows.all (fun a => !rowOK phaseMap a && isLegacyKnownRace a) = true ∧
    legacyKnownRaces.all (fun k => legacyRows.any (fun a => a.fn == k.fn && a.field == k.field)) = true := by
  decide

/-- Publication happens inside the writer's critical section: every call of
    `muxerServer.registerPath` / `unregisterPath` made on behalf of `Write*` holds the muxer mutex M. -/
theorem c08_publication_under_M :
    pathTableCalls.all (fun c => c.2.1 != Role.writer || c.2.2.contains (Lock.M, Mode.excl)) = true := by decide

/-- What makes a handler's evaluation atomic with respect to the writer's rotations: every handler
    access to a field that the writer mutates under a lock holds that lock (M for the stream state,
    S for the path table, F for disk part buffers). -/
theorem c08_handlers_locked : Snapshot.HandlersLocked accesses := by
  intro a ha hr hh l hp
  exact handler_holds_of_rowOK (List.all_eq_true.mp c08_rows_ok a ha) hr hh hp

/-! ## (1) Snapshot atomicity -/

open Snapshot in
/-- **Handlers are pure**: a requester's step leaves the muxer state, the writer's pending calls and
    its progress counter unchanged — it only appends to the log. -/
theorem c08_handlers_pure (c : Conf) (r : Nat) (q : Req) (c' : Conf)
    (h : c' = { c with log := c.log ++ [{ requester := r, req := q, resp := answer c.st q, at_ := c.done }] }) :
    c'.st = c.st ∧ c'.pending = c.pending ∧ c'.done = c.done := by
  subst h; exact ⟨rfl, rfl, rfl⟩

open Snapshot in
/-- **Every response is a snapshot**: in every configuration reachable by ANY interleaving of the writer's
    steps with any number of requesters' steps, each logged response equals what the handler computes
    (`mediaPlaylist` / `reqDecision` / `get`) from ONE state of the writer's sequential run
    `run st0 (ops.take n)` — so every single-playlist invariant proved for the sequential model
    (C03–C05) holds of every concurrent response verbatim. -/
theorem c08_response_is_snapshot {st0 : State} {ops : List WriteOp} {c : Conf}
    (h : Reach accesses st0 ops c) :
    ∀ e ∈ c.log, e.at_ ≤ ops.length ∧ e.resp = answer (run st0 (ops.take e.at_)) e.req := by
  intro e he
  obtain ⟨_, _, h3, h4, _⟩ := reach_inv h
  exact ⟨Nat.le_trans (h4 e he).2 h3, (h4 e he).1⟩

open Snapshot in
/-- **Monotone per requester**: the states behind the successive responses of one requester are ordered
    along the sequential run — the later one is reached from the earlier one by running further writes —
    so the history relation of C04 applies to what any one client sees. -/
theorem c08_monotone_per_requester {st0 : State} {ops : List WriteOp} {c : Conf}
    (h : Reach accesses st0 ops c) (r : Nat) :
    (c.log.filter (fun e => e.requester == r)).Pairwise (fun e₁ e₂ =>
      e₁.at_ ≤ e₂.at_ ∧ ∃ more, run st0 (ops.take e₂.at_) = run (run st0 (ops.take e₁.at_)) more) := by
  obtain ⟨_, _, _, _, h5⟩ := reach_inv h
  refine (h5.filter _).imp ?_
  intro e₁ e₂ hle
  refine ⟨hle, (ops.take e₂.at_).drop e₁.at_, ?_⟩
  rw [← run_append']
  congr 1
  have : ops.take e₁.at_ = (ops.take e₂.at_).take e₁.at_ := by
    rw [List.take_take, Nat.min_eq_left hle]
  rw [this, List.take_append_drop]

open Snapshot in
/-- non-vacuity of the three theorems above: a run with a writer step between two requests of requester 7 -/
example (st0 : State) (op : WriteOp) : ∃ c, Reach accesses st0 [op] c ∧ c.log.length = 2 ∧ c.done = 1 := by
  refine ⟨_, Reach.step (Reach.step (Reach.step Reach.init
    (Step.handler _ 7 (.media 0 false) c08_handlers_locked))
    (Step.writer _ op [] rfl))
    (Step.handler _ 7 (.media 0 false) c08_handlers_locked), rfl, rfl⟩

open Snapshot View in
/-- **The writer's unlocked steps are invisible to handlers.** Everything a handler computes depends only on
    the handler view of the state (variant, path table, per stream: segments, parts of the open segment,
    counters, target durations), and every step of the model that corresponds to Go code running OUTSIDE
    `Muxer.rotateParts` / `rotateSegments` — track bookkeeping, `muxerPart.writeSample`, the MPEG-TS segment
    writers, `fmp4AdjustPartDuration`, parameter-set bookkeeping, and `createFirstSegment` (which runs while no
    stream has an open segment) — leaves every answer unchanged. So between two rotations (which run under M,
    like the handlers: `c08_handlers_locked`) all states give the same responses, and taking one model `write`
    as the writer's atomic step in `c08_response_is_snapshot` loses nothing a requester could observe. -/
theorem c08_unlocked_steps_invisible (st : State) (q : Req) :
    (∀ i t, answer (st.setTrack i t) q = answer st q) ∧
    (∀ ti smp, answer (partWriteSample st ti smp).1 q = answer st q) ∧
    (∀ u size e c, answer (tsWrite st u size e c).1 q = answer st q) ∧
    (∀ d, answer (adjustPartDuration st d) q = answer st q) ∧
    (∀ ti par ra, answer (paramsStep st ti par ra).1 q = answer st q) ∧
    (∀ d n, (∀ si, (st.stream si).nextSegment = none) → answer (createFirstSegment st d n) q = answer st q) :=
  ⟨fun i t => answer_congr (view_setTrack st i t) q,
   fun ti smp => answer_congr (view_partWriteSample st ti smp) q,
   fun u size e c => answer_congr (view_tsWrite st u size e c) q,
   fun d => answer_congr (view_adjustPartDuration st d) q,
   fun ti par ra => answer_congr (view_paramsStep st ti par ra) q,
   fun d n h => answer_congr (view_createFirstSegment st d n h) q⟩

/-! ## (3) No panic -/

/-- **No panic in the handlers, sequential half.** On every state of the writer's sequential run
    (after a successful `Start`):
    * `m.streams[0]` (handleMultivariantPlaylist, generateMultivariantPlaylist) is in range;
    * whenever `hasContent()` holds — the only situation in which `hasPart` and
      `generateMediaPlaylistFMP4` evaluate `s.nextSegment.(*muxerSegmentFMP4)` — `nextSegment` is not nil;
    * `len(segments) ≤ nextSegmentID`, so `nextSegmentID - uint64(len(segments)-1)` in the request range
      check wraps around only for the empty list (where the handler then waits or answers 400).
    The remaining panic source, the division in `bandwidth()`, is the known finding F13. -/
theorem c08_no_panic_seq {cfg : Cfg} {st0 : State} (hs : start cfg = .ok st0) (ops : List WriteOp) (si : Nat) :
    (run st0 ops).streams ≠ [] ∧
    (((run st0 ops).stream si).hasContent (run st0 ops).cfg.variant = true →
        ((run st0 ops).stream si).nextSegment.isSome = true) ∧
    ((run st0 ops).stream si).segments.length ≤ ((run st0 ops).stream si).nextSegmentID := by
  have hi := SeqInv.inv_run hs ops
  have hk := SeqInv.sOK_stream hi si
  refine ⟨hi.1, ?_, hk.2⟩
  intro hc
  apply hk.1
  intro he
  simp [StreamSt.hasContent, he] at hc

/-- non-vacuity: `Start` succeeds on a Low-Latency configuration with one H264 track -/
example : ∃ st0, start (⟨.ll, 7, 1000000000, 200000000, 50000000, [⟨.h264, 90000, 0⟩]⟩ : Cfg) = .ok st0 := ⟨_, rfl⟩

end Hls.Props.C08
