import Hls.Muxer.InvErr
import Hls.Props.C04
/-!
# C18 — Retention is bounded: segment count, segment size, disk files, URL table

Property theorems only (helper lemmas and the invariant: `Hls/Muxer/Inv*.lean`), stated over the executable
model `Hls.Muxer` for EVERY configuration accepted by `start` and EVERY list of write ops (induction over the
op list — arbitrarily long histories). `st.files` = the files existing in `Directory` (a ghost of the RAM
storage when no directory is configured), `st.paths` = `muxerServer.pathHandlers`, `get st k` = what
`muxerServer.handle` answers for key `k` (`.none` = no handler: nothing is written).
-/
namespace Hls.Props.C18
open Hls.Muxer Hls.Props.C04

/-! ## a fast-sliding concrete history (non-vacuity witnesses) -/

/-- a Low-Latency muxer with short segments (key frame every third unit), to slide the window quickly -/
def fastCfg : Cfg :=
  { variant := .ll, segmentCount := 7, segmentMinDur := 100000000, partMinDur := 40000000, segmentMaxSize := 1000000,
    tracks := [{ codec := .h264, clockRate := 90000 }] }
def fOp (k : Nat) : WriteOp :=
  { track := 0, pts := 3600 * k, dts := 3600 * k, ntp := 40000000 * k, ra := k % 3 == 0, pic := true,
    par := if k % 3 == 0 then 1 else 0, pays := [k], sizes := [1000] }
def fastStart : State := initState fastCfg.withDefaults
def fast (n : Nat) : State := run fastStart ((List.range n).map fOp)

/-! ## c18_retained -/

/-- **At most `SegmentCount` segments plus the one being written.** In every reachable state every stream
lists at most `segmentCount` entries; with the (at most one — `nextSegment : Option Seg`) open segment it
retains at most `segmentCount + 1` segments. -/
theorem c18_retained {cfg : Cfg} {st0 : State} (h : start cfg = .ok st0) (ops : List WriteOp) (si : Nat)
    (hsi : si < (run st0 ops).streams.length) :
    let s := (run st0 ops).stream si
    s.segments.length ≤ (run st0 ops).cfg.segmentCount ∧
    s.segments.length + (if s.nextSegment.isSome then 1 else 0) ≤ (run st0 ops).cfg.segmentCount + 1 ∧
    (mediaPlaylist (run st0 ops) si false).segments.length ≤ (run st0 ops).cfg.segmentCount := by
  dsimp only
  obtain ⟨hinv, _⟩ := reachable_inv h ops
  have hI := hinv.inv0.streams si hsi
  refine ⟨hI.len, ?_, by rw [mp_length_full hI]; exact hI.len⟩
  have := hI.len
  split <;> omega

set_option maxRecDepth 100000 in
/-- non-vacuity: after 40 units (13 rotations, 13 entries dropped) 7 segments are listed -/
example : start fastCfg = .ok fastStart ∧ 0 < (fast 40).streams.length ∧
    ((fast 40).stream 0).segments.length = 7 ∧
    ((fast 40).stream 0).deleteCount = 13 := ⟨rfl, by decide +kernel, by decide +kernel, by decide +kernel⟩

/-! ## c18_files -/

/-- **Files in `Directory` = listed real segments + the open one, per stream.** In every reachable state the file
list has no duplicates, and `k` is a file iff `k = seg<si>_<id>` for a stream `si` and the id of one of its
listed real segments or of its open segment. Consequently a segment that has left the playlist
(`id < deleteCount` — it was dropped in the very step that raised `deleteCount`) has no file any more. -/
theorem c18_files {cfg : Cfg} {st0 : State} (h : start cfg = .ok st0) (ops : List WriteOp) :
    let st := run st0 ops
    st.files.Nodup ∧
    (∀ k, k ∈ st.files ↔ ∃ si id, k = .seg si id ∧ si < st.streams.length ∧
      ((∃ g, .seg g ∈ (st.stream si).segments ∧ g.id = id) ∨ (∃ g, (st.stream si).nextSegment = some g ∧ g.id = id))) ∧
    (∀ si id, si < st.streams.length → id < (st.stream si).deleteCount → PathKey.seg si id ∉ st.files) ∧
    st.files.length ≤ st.streams.length * (st.cfg.segmentCount + 1) := by
  dsimp only
  obtain ⟨hinv, _⟩ := reachable_inv h ops
  generalize run st0 ops = st at *
  have hF := hinv.inv0.files
  refine ⟨hF.1, hF.2, fun si id hsi hid hmem => ?_, ?_⟩
  · obtain ⟨sj, id', he, _, hin⟩ := (hF.2 _).mp hmem
    cases he
    have hI := hinv.inv0.streams si hsi
    rcases hin with ⟨g, hg, hgid⟩ | ⟨g, hg, hgid⟩
    · have := (hI.msn.mem_seg hg).1; omega
    · have h1 := hI.openId g hg
      by_cases hE : st.cfg.variant = .ll ∧ (st.stream si).segments = []
      · have := (hI.countEmpty hE.1 hE.2).1; omega
      · have := hI.count hE; omega
  · -- every file is `seg si id` with `id` among ≤ segmentCount listed ids or the open id
    let cand : List PathKey := (List.range st.streams.length).flatMap fun si =>
      realKeys si (st.stream si).segments ++ (match (st.stream si).nextSegment with | some g => [.seg si g.id] | none => [])
    have hsub : ∀ k ∈ st.files, k ∈ cand := by
      intro k hk
      obtain ⟨si, id, rfl, hsi, hin⟩ := (hF.2 k).mp hk
      simp only [cand, List.mem_flatMap, List.mem_range, List.mem_append]
      refine ⟨si, hsi, ?_⟩
      rcases hin with ⟨g, hg, rfl⟩ | ⟨g, hg, rfl⟩
      · exact Or.inl (mem_realKeys hg)
      · right; rw [hg]; simp
    have hle := length_le_of_nodup_subset _ _ hF.1 hsub
    refine Nat.le_trans hle ?_
    simp only [cand, List.length_flatMap]
    have : ∀ si ∈ List.range st.streams.length,
        (realKeys si (st.stream si).segments ++
          (match (st.stream si).nextSegment with | some g => [PathKey.seg si g.id] | none => [])).length ≤
          st.cfg.segmentCount + 1 := by
      intro si hsi
      have hI := hinv.inv0.streams si (List.mem_range.mp hsi)
      have h1 := length_realKeys_le si (st.stream si).segments
      have h2 := hI.len
      rw [List.length_append]
      cases (st.stream si).nextSegment <;> simp <;> omega
    have hsum : ∀ (l : List Nat) (f : Nat → Nat) (c : Nat), (∀ x ∈ l, f x ≤ c) → (l.map f).sum ≤ l.length * c := by
      intro l f c hl
      induction l with
      | nil => simp
      | cons a r ih =>
        simp only [List.map_cons, List.sum_cons, List.length_cons]
        have := hl a (by simp)
        have := ih (fun x hx => hl x (by simp [hx]))
        rw [Nat.succ_mul]; omega
    have := hsum _ _ _ this
    simpa using this

set_option maxRecDepth 100000 in
example : (fast 40).files.length = 8 ∧ PathKey.seg 0 13 ∈ (fast 40).files ∧ PathKey.seg 0 12 ∉ (fast 40).files := by decide +kernel


/-! ## c18_paths_bounded -/

/-- **The URL table is bounded and holds nothing that has left the window.** In every reachable state
* every registered path key is `index`, a stream playlist, an init, a listed real segment, a part of a listed real
  segment or of the open one, or the preload-hint key `part<si>_<nextPartID>` (`Allowed`; parts only in Low-Latency);
* keys are registered once, hence `|paths| ≤ 1 + Σ_streams (3 + #listed real segments + #their and the open
  segment's parts)` (playlist + init + hint = 3 per stream);
* a key outside that set has no handler: `get st k = .none`. In particular the URI of a dropped segment
  (`id < deleteCount`) and of every part older than the retained ones stop resolving — in the same step in which
  the segment leaves the playlist, since the statement holds in every state. -/
theorem c18_paths_bounded {cfg : Cfg} {st0 : State} (h : start cfg = .ok st0) (ops : List WriteOp) :
    let st := run st0 ops
    (∀ k h', (k, h') ∈ st.paths → Allowed st k) ∧
    (st.paths.map (·.1)).Nodup ∧
    st.paths.length ≤ 1 + ((List.range st.streams.length).map fun si =>
        3 + (realKeys si (st.stream si).segments).length + (allParts (st.stream si)).length).sum ∧
    (∀ k, ¬ Allowed st k → get st k = .none) ∧
    (∀ si id, si < st.streams.length → id < (st.stream si).deleteCount → get st (.seg si id) = .none) ∧
    (∀ si pid, si < st.streams.length → pid + (allParts (st.stream si)).length < (st.stream si).nextPartID →
      get st (.part si pid) = .none) := by
  dsimp only
  obtain ⟨hinv, _⟩ := reachable_inv h ops
  generalize run st0 ops = st at *
  have hP := hinv.inv0.paths
  have hnone : ∀ k, ¬ Allowed st k → get st k = .none :=
    fun k hk => get_none_of_unregistered (fun hmem => hk (hP.2 k hmem))
  refine ⟨fun k h' hm => hP.2 k (List.mem_map.mpr ⟨(k, h'), hm, rfl⟩), hP.1, ?_, hnone, ?_, ?_⟩
  · rw [← length_allowedList]; exact hP.length_le
  · intro si id hsi hid
    apply hnone
    rintro ⟨_, g, hg, hgid⟩
    have := ((hinv.inv0.streams si hsi).msn.mem_seg hg).1
    omega
  · intro si pid hsi hpid
    apply hnone
    rintro ⟨_, _, hp⟩
    obtain ⟨a, hc, ha⟩ := (hinv.inv0.streams si hsi).partIds
    rcases hp with hp | hp
    · have := (hc.lt_of_mem hp).1; omega
    · omega

set_option maxRecDepth 100000 in
/-- non-vacuity / sharpness: after 40 units 13 entries (7 gaps, 6 real segments) have left the window; the URIs of
segment 7 and of part 0 are gone, segment 13 (the oldest listed) resolves; 32 keys are registered
(1 + 3 + 7 segments + 21 parts) -/
example : start fastCfg = .ok fastStart ∧ ((fast 40).stream 0).deleteCount = 13 ∧
    get (fast 40) (.seg 0 7) = .none ∧ get (fast 40) (.part 0 0) = .none ∧
    get (fast 40) (.seg 0 13) ≠ .none ∧ (fast 40).paths.length = 32 ∧ (fast 40).files.length = 8 :=
  ⟨rfl, by decide +kernel, by decide +kernel, by decide +kernel, by decide +kernel, by decide +kernel, by decide +kernel⟩

/-! ## c18_size, c18_write_errors -/

/-- **No listed or open segment holds more than `SegmentMaxSize` bytes of payload** (the `size` counter the code
compares against the limit), in every reachable state. -/
theorem c18_size {cfg : Cfg} {st0 : State} (h : start cfg = .ok st0) (ops : List WriteOp) (si : Nat)
    (hsi : si < (run st0 ops).streams.length) :
    (∀ g, .seg g ∈ ((run st0 ops).stream si).segments → g.size ≤ (run st0 ops).cfg.segmentMaxSize) ∧
    (∀ g, ((run st0 ops).stream si).nextSegment = some g → g.size ≤ (run st0 ops).cfg.segmentMaxSize) := by
  obtain ⟨hinv, _⟩ := reachable_inv h ops
  exact ⟨(hinv.inv0.streams si hsi).sizeListed, (hinv.inv0.streams si hsi).sizeOpen⟩

/-- **The write that would exceed the limit returns an error instead of buffering.**
(1) `muxerPart.writeSample`: with an open segment and part it fails iff `size + sample > segmentMaxSize`, and then the
state is returned unchanged; otherwise the counter grows by exactly the sample size.
(2) the MPEG-TS segment writers (`writeH264` / `writeMPEG4Audio`): the same.
(3) `fmp4WriteSample` (fMP4 / Low-Latency, any reachable state): it returns an error only from (1) — for the sample
that was waiting as look-ahead — and then no stream's listed segments and no open segment's counter have changed. -/
theorem c18_write_errors :
    (∀ (st : State) (ti : Nat) (smp : Sample) (g : Seg) (p : Part),
        (st.stream (st.streamOf ti)).nextSegment = some g → (st.stream (st.streamOf ti)).nextPart = some p →
        ((partWriteSample st ti smp).2 = .err ↔ g.size + smp.size > st.cfg.segmentMaxSize) ∧
        ((partWriteSample st ti smp).2 = .err → (partWriteSample st ti smp).1 = st) ∧
        ((partWriteSample st ti smp).2 = .ok →
          ∃ g', ((partWriteSample st ti smp).1.stream (st.streamOf ti)).nextSegment = some g' ∧ g'.size = g.size + smp.size)) ∧
    (∀ (st : State) (u : TsUnit) (size : Nat) (e : Option Int) (cnt : Bool) (g : Seg),
        (st.stream 0).nextSegment = some g →
        ((tsWrite st u size e cnt).2 = .err ↔ g.size + size > st.cfg.segmentMaxSize) ∧
        ((tsWrite st u size e cnt).2 = .err → (tsWrite st u size e cnt).1 = st) ∧
        ((tsWrite st u size e cnt).2 = .ok →
          ∃ g', ((tsWrite st u size e cnt).1.stream 0).nextSegment = some g' ∧ g'.size = g.size + size)) ∧
    (∀ {cfg : Cfg} {st0 : State}, start cfg = .ok st0 → ∀ (ops : List WriteOp) (ti : Nat) (ra changed : Bool) (smp : Sample),
        (run st0 ops).cfg.variant ≠ .mpegts → (fmp4Write (run st0 ops) ti ra changed smp).2 = .err →
        SameSizes (run st0 ops) (fmp4Write (run st0 ops) ti ra changed smp).1 ∧
        ∃ g old, ((fmp4Write (run st0 ops) ti ra changed smp).1.stream ((run st0 ops).streamOf ti)).nextSegment = some g ∧
          ((run st0 ops).track ti).next = some old ∧ g.size + old.size > (run st0 ops).cfg.segmentMaxSize) := by
  refine ⟨fun st ti smp g p hg hp => ?_, fun st u size e cnt g hg => ?_, fun h ops ti ra changed smp hv herr => ?_⟩
  · rcases partWriteSample_spec st ti smp with ⟨g', p', hg', hp', hsz, trk, indep, heq⟩ | ⟨heq, hexc⟩
    · rw [hg] at hg'; cases hg'
      rw [heq]
      refine ⟨⟨fun hc => (by cases hc), fun hc => (by omega)⟩, fun hc => (by cases hc), fun _ => ?_⟩
      refine ⟨{ g with size := g.size + smp.size }, ?_, rfl⟩
      rw [stream_of_set rfl (lt_of_open hg)]; rfl
    · rw [heq]
      exact ⟨⟨fun _ => hexc g p hg hp, fun _ => rfl⟩, fun _ => rfl, fun hc => (by cases hc)⟩
  · rcases tsWrite_spec st u size e cnt with ⟨g', hg', hsz, g'', hid, _, hsize, _, heq⟩ | ⟨heq, hexc⟩
    · rw [hg] at hg'; cases hg'
      rw [heq]
      refine ⟨⟨fun hc => (by cases hc), fun hc => (by omega)⟩, fun hc => (by cases hc), fun _ => ?_⟩
      refine ⟨g'', ?_, hsize⟩
      rw [stream_of_set rfl (lt_of_open hg)]
    · rw [heq]
      exact ⟨⟨fun _ => hexc g hg, fun _ => rfl⟩, fun _ => rfl, fun hc => (by cases hc)⟩
  · obtain ⟨hinv, _⟩ := reachable_inv h ops
    exact fmp4Write_err hinv hv ti ra changed smp herr

/-- a run in which a video unit is refused for size: same stream, 600 kB units, limit 1 MB -/
def bigOp (k : Nat) : WriteOp := { vOp k with sizes := [600000] }

set_option maxRecDepth 100000 in
/-- non-vacuity of `c18_write_errors`: the third 600 kB unit (the second one to leave the look-ahead) is refused -/
example : (write (run demoStart [bigOp 0, bigOp 1]) (bigOp 2)).2 = .err ∧
    (write (run demoStart [bigOp 0]) (bigOp 1)).2 = .ok := by decide +kernel

end Hls.Props.C18
