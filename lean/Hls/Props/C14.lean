import Hls.Playlist.MediaNear
import Hls.Playlist.MediaGenPins
import Hls.Playlist.MediaPerm
import Hls.Playlist.MediaTime
import Hls.Playlist.MediaFloat
/-!
# C14 — Playlist Marshal/Unmarshal round-trips every field (MEDIA playlists)

Property theorems only; helper lemmas live in `Hls/Playlist/Media*.lean`.

* `Media.marshal` / `Media.unmarshal` (`Hls/Playlist/MediaModel.lean`) mirror `pkg/playlist/media*.go`
  of the REPAIRED tree (fix-F1, fix-F2, fix-F3); `Media.marshalLegacy` is the unchanged tree.
* `C : Codec` are the text forms of durations (`FormatFloat(sec,'f',5,64)` / `ParseFloat·1e9`) and
  times (RFC 3339 with milliseconds).  The theorems hold for EVERY codec inside the error envelope
  `Codec.Valid` (nearest 10 µs, decimal ties either way; parse exact or 1 ns short; times to 1 ms).
  `Codec.exact` provably satisfies it; the driver's `Codec.go` (exact IEEE-754 / Go layout semantics)
  is validated against the real `strconv` / `time` by tie T2.
* `WFMedia` = the documented field requirements, a decidable predicate (`Hls/Playlist/MediaWF.lean`).
-/
namespace Hls.Props.C14
open Hls.Playlist.MP

/-- **Round trip.** For every well-formed media playlist, decoding the encoder's output succeeds and
yields `quantise p`. -/
theorem c14_media_roundtrip (C : Codec) (hC : C.Valid) (p : Media) (hw : WFMedia p) :
    Media.unmarshal C (Media.marshal C p) = .ok (Media.quantise C p) :=
  Media.roundtrip hC p hw

/-- **Every field.** `quantise p` reproduces `p` field by field — all 16 fields of `Media`, all 11 of
every segment, all 6 of every part (`MediaNear` lists them): equal, except durations, which agree
to the 10 µs text resolution (`|Δ| ≤ 5 µs + 1 ns`), and date-times, which agree to 1 ms with the
same zone. -/
theorem c14_quantise_fields (C : Codec) (hC : C.Valid) (p : Media) (hw : WFMedia p) :
    MediaNear (Media.quantise C p) p :=
  Media.quantise_near hC p hw

/-- the two together, as the property states it -/
theorem c14_media_roundtrip_fields (C : Codec) (hC : C.Valid) (p : Media) (hw : WFMedia p) :
    ∃ q, Media.unmarshal C (Media.marshal C p) = .ok q ∧ MediaNear q p :=
  ⟨_, c14_media_roundtrip C hC p hw, c14_quantise_fields C hC p hw⟩

/-- **Fixpoint.** `Marshal` is a fixpoint on its own output. -/
theorem c14_fixpoint (C : Codec) (hC : C.Valid) (p : Media) (hw : WFMedia p) :
    Media.marshal C (Media.quantise C p) = Media.marshal C p :=
  Media.marshal_quantise hC p hw

theorem c14_fixpoint_decoded (C : Codec) (hC : C.Valid) (p q : Media) (hw : WFMedia p)
    (h : Media.unmarshal C (Media.marshal C p) = .ok q) : Media.marshal C q = Media.marshal C p := by
  rw [c14_media_roundtrip C hC p hw] at h
  cases h
  exact c14_fixpoint C hC p hw

/-- what `Marshal` writes is `#EXTM3U` and the lines `Media.lines`, each followed by LF; all of them
are clean (no LF inside, no CR at the end) -/
theorem c14_marshal_lines (C : Codec) (hC : C.Valid) (p : Media) (hw : WFMedia p) :
    Media.marshal C p = unlines (cs!"#EXTM3U" :: Media.lines C p) ∧ ∀ l ∈ Media.lines C p, Clean l :=
  ⟨Media.marshal_eq C p, clean_lines hC p hw⟩

/-- **Variants (line level).** For ANY clean lines `ls` — in particular `Media.lines C p` — the
playlist written with CR LF line ends, or without the final line terminator, or with lines the
decoder ignores (unknown tags, comments, blank lines: `Ignorable`) inserted anywhere, decodes to
exactly what the LF form decodes to. -/
theorem c14_variants (C : Codec) (l : Str) (ls ls' : List Str) (hc : ∀ x ∈ l :: ls, Clean x)
    (hc' : ∀ x ∈ ls', Clean x) (hp : Padded (l :: ls) ls') :
    Media.unmarshal C (unlinesCRLF (cs!"#EXTM3U" :: l :: ls)) = Media.unmarshal C (unlines (cs!"#EXTM3U" :: l :: ls)) ∧
    Media.unmarshal C (joinLF (cs!"#EXTM3U" :: l :: ls)) = Media.unmarshal C (unlines (cs!"#EXTM3U" :: l :: ls)) ∧
    Media.unmarshal C (unlines (cs!"#EXTM3U" :: ls')) = Media.unmarshal C (unlines (cs!"#EXTM3U" :: l :: ls)) := by
  refine ⟨?_, ?_, ?_⟩
  · rw [Media.unmarshal_unlinesCRLF C _ hc, Media.unmarshal_unlines C _ hc]
  · rw [Media.unmarshal_joinLF C l ls hc, Media.unmarshal_unlines C _ hc]
  · rw [Media.unmarshal_unlines C _ hc', Media.unmarshal_unlines C _ hc, foldlM_padded C hp]

/-- the same for a marshaled well-formed value: all three variants decode to `quantise p` -/
theorem c14_variants_marshal (C : Codec) (hC : C.Valid) (p : Media) (hw : WFMedia p) (ls' : List Str)
    (hc' : ∀ x ∈ ls', Clean x) (hp : Padded (Media.lines C p) ls') :
    Media.unmarshal C (unlinesCRLF (cs!"#EXTM3U" :: Media.lines C p)) = .ok (Media.quantise C p) ∧
    Media.unmarshal C (unlines (cs!"#EXTM3U" :: ls')) = .ok (Media.quantise C p) := by
  have hc := clean_lines hC p hw
  constructor
  · rw [Media.unmarshal_unlinesCRLF C _ hc, fold_lines hC p hw]
  · rw [Media.unmarshal_unlines C _ hc', foldlM_padded C hp, fold_lines hC p hw]

/-- unknown tags, comments and blank lines are ignorable -/
example : Ignorable cs!"#EXT-X-FUTURE-TAG:FOO=1" ∧ Ignorable cs!"# comment" ∧ Ignorable [] ∧
    Ignorable cs!"#EXT-X-DISCONTINUITYX" := by decide

/-- **Unknown attributes** are ignored by every tag decoder: a key outside the REGENERATED key list
of the tag (`Hls.Gen.PlaylistMedia.attrKeys`) leaves the value untouched. -/
theorem c14_unknown_attributes (C : Codec) (k v : Str) :
    (k ∉ Pins.keysOf "MultivariantStart" → ∀ t, Start.set C t k v = .ok t) ∧
    (k ∉ Pins.keysOf "MediaServerControl" → ∀ t, ServerControl.set C t k v = .ok t) ∧
    (k ∉ Pins.keysOf "MediaPartInf" → ∀ t, PartInf.set C t k v = .ok t) ∧
    (k ∉ Pins.keysOf "MediaMap" → ∀ t, MapTag.set t k v = .ok t) ∧
    (k ∉ Pins.keysOf "MediaKey" → ∀ t, Key.set t k v = .ok t) ∧
    (k ∉ Pins.keysOf "MediaSkip" → ∀ t, Skip.set t k v = .ok t) ∧
    (k ∉ Pins.keysOf "MediaPart" → ∀ t, Part.set C t k v = .ok t) ∧
    (k ∉ Pins.keysOf "MediaPreloadHint" → ∀ t, PreloadHint.set t k v = .ok t) :=
  ⟨fun h t => Pins.Start.set_unknown C t k v h, fun h t => Pins.ServerControl.set_unknown C t k v h,
   fun h t => Pins.PartInf.set_unknown C t k v h, fun h t => Pins.MapTag.set_unknown t k v h,
   fun h t => Pins.Key.set_unknown t k v h, fun h t => Pins.Skip.set_unknown t k v h,
   fun h t => Pins.Part.set_unknown C t k v h, fun h t => Pins.PreloadHint.set_unknown t k v h⟩

/-- **Attribute order.** Go ranges over the attribute MAP in random order; the model folds over it in
insertion order.  For every tag decoder and every input, every order of visiting the parsed
attributes (every permutation; their keys are distinct) produces the same result — so the model's
choice of one order loses nothing, and a tag whose attributes are written in another order decodes
to the same value. -/
theorem c14_attrs_order (C : Codec) (v : Str) (attrs attrs' : Attrs) (h : parseAttrs v = .ok attrs)
    (hp : attrs.Perm attrs') :
    (attrs.map (·.1)).Nodup ∧
    (∀ i, rangeAttrs attrs i (Start.set C) = rangeAttrs attrs' i (Start.set C)) ∧
    (∀ i, rangeAttrs attrs i (ServerControl.set C) = rangeAttrs attrs' i (ServerControl.set C)) ∧
    (∀ i, rangeAttrs attrs i (PartInf.set C) = rangeAttrs attrs' i (PartInf.set C)) ∧
    (∀ i, rangeAttrs attrs i MapTag.set = rangeAttrs attrs' i MapTag.set) ∧
    (∀ i, rangeAttrs attrs i Key.set = rangeAttrs attrs' i Key.set) ∧
    (∀ i, rangeAttrs attrs i Skip.set = rangeAttrs attrs' i Skip.set) ∧
    (∀ i, rangeAttrs attrs i (Part.set C) = rangeAttrs attrs' i (Part.set C)) ∧
    (∀ i, rangeAttrs attrs i PreloadHint.set = rangeAttrs attrs' i PreloadHint.set) :=
  ⟨parseAttrs_nodup h,
   rangeAttrs_order (Start.set_commutes C) h hp, rangeAttrs_order (ServerControl.set_commutes C) h hp,
   rangeAttrs_order (PartInf.set_commutes C) h hp, rangeAttrs_order MapTag.set_commutes h hp,
   rangeAttrs_order Key.set_commutes h hp, rangeAttrs_order Skip.set_commutes h hp,
   rangeAttrs_order (Part.set_commutes C) h hp, rangeAttrs_order PreloadHint.set_commutes h hp⟩

/-- the same at the text level: a tag decoder (`decodeWith set init fin` is the shape of all eight)
gives the same result on the attributes `as` rendered in any other order `as'` -/
theorem c14_attrs_order_text (C : Codec) {as as' : List (Str × AV)} (hp : as.Perm as') (hok : ∀ a ∈ as, AttrOK a)
    (hnd : (as.map (·.1)).Nodup) :
    decodeWith (Part.set C) {} (fun p => if p.duration = 0 then .err else if p.uri = [] then .err else pure p) (renderAttrs as') =
      decodeWith (Part.set C) {} (fun p => if p.duration = 0 then .err else if p.uri = [] then .err else pure p) (renderAttrs as) ∧
    decodeWith Key.set {} (fun t => if (t.method = methodAES128 ∨ t.method = methodSampleAES) ∧ t.uri = [] then Res.err else pure t)
        (renderAttrs as') =
      decodeWith Key.set {} (fun t => if (t.method = methodAES128 ∨ t.method = methodSampleAES) ∧ t.uri = [] then Res.err else pure t)
        (renderAttrs as) ∧
    (∀ {α β} (set : α → Str → Str → Res α) (init : α) (fin : α → Res β), Commutes set →
      decodeWith set init fin (renderAttrs as') = decodeWith set init fin (renderAttrs as)) :=
  ⟨decode_render_perm (Part.set_commutes C) _ _ hp hok hnd, decode_render_perm Key.set_commutes _ _ hp hok hnd,
   fun _ _ _ hc => decode_render_perm hc _ _ hp hok hnd⟩

example (C : Codec) (v : Str) : Part.unmarshal C v =
    decodeWith (Part.set C) {} (fun p => if p.duration = 0 then .err else if p.uri = [] then .err else pure p) v := rfl

/-- the attribute tokenizer recovers any rendered attribute list (names without `=` / leading blank,
quoted values without `"`, unquoted values without `,` and not starting with `"`) -/
theorem c14_attrs_roundtrip (as : List (Str × AV)) (hok : ∀ a ∈ as, AttrOK a) :
    parseAttrs (renderAttrs as) = .ok (setAll [] as) :=
  parseAttrs_render as hok

/-! ## tie T1: the model is written for the regenerated shape of the source -/

theorem c14_t1_dispatch :
    Hls.Gen.PlaylistMedia.dispatch = dispatch.map (fun e => (Pins.kindOf e.2.1, e.2.2, Pins.slices e.1)) :=
  Pins.dispatch_pinned

theorem c14_t1_tables :
    Hls.Gen.PlaylistMedia.attrKeys = Pins.expectedAttrKeys ∧
    Hls.Gen.PlaylistMedia.marshalLits = Pins.expectedMarshalLits ∧
    Hls.Gen.PlaylistMedia.mediaMarshal = Pins.expectedMediaMarshal ∧
    Hls.Gen.PlaylistMedia.maxSupportedVersion = maxSupportedVersion :=
  ⟨Pins.attrKeys_pinned, Pins.marshalLits_pinned, Pins.mediaMarshal_pinned, Pins.maxSupportedVersion_pinned⟩

/-! ## the hypotheses are satisfiable -/

/-- a codec inside the envelope exists: exact decimal durations with the REAL Go time layout
(`goFormatTime` / `goParseTime`, the model of `Time.Format` / `parseTime` that T2 validates) -/
theorem c14_codec_exists : Codec.exactGo.Valid ∧ Codec.exact.Valid := ⟨Codec.exactGo_valid, Codec.exact_valid⟩

/-- **The Go time layout is proved, not assumed**: for well-formed times `parseTime (Format t)` is the
same instant at 1 ms with the same zone (civil-calendar round trip + layout parser), formatting is
stable under millisecond truncation and uses RFC 3339 characters.  Hence any codec with the Go time
layout is `Valid` as soon as its duration half is inside the float envelope. -/
theorem c14_go_time (D : Codec) (h : D.DurValid) : D.withGoTime.Valid := Codec.withGoTime_valid h

/-- **No assumption left for the codec the driver runs.**  `Codec.prim` = the soft-float model of
`strconv.ParseFloat` / `FormatFloat` / float64 arithmetic of `Hls/Playlist/Prim.lean` (slice `plmulti`,
whose `floatEnvelope` theorem proves the error envelope) + the Go time layout (proved here).  This is the
codec tie T2 compares with the real library on every generated value and text. -/
theorem c14_media_roundtrip_driver (p : Media) (hw : WFMedia p) :
    Media.unmarshal Codec.prim (Media.marshal Codec.prim p) = .ok (Media.quantise Codec.prim p) ∧
    MediaNear (Media.quantise Codec.prim p) p ∧
    Media.marshal Codec.prim (Media.quantise Codec.prim p) = Media.marshal Codec.prim p :=
  ⟨Media.roundtrip Codec.prim_valid p hw, Media.quantise_near Codec.prim_valid p hw,
   Media.marshal_quantise Codec.prim_valid p hw⟩

/-- the same for my own IEEE-754 reference `Codec.go` (`MediaPrim.lean`), for which the float half is
the named hypothesis `IeeeEnvelope` (the time half is proved) -/
theorem c14_media_roundtrip_go (hE : IeeeEnvelope) (p : Media) (hw : WFMedia p) :
    Media.unmarshal Codec.go (Media.marshal Codec.go p) = .ok (Media.quantise Codec.go p) ∧
    MediaNear (Media.quantise Codec.go p) p ∧
    Media.marshal Codec.go (Media.quantise Codec.go p) = Media.marshal Codec.go p :=
  ⟨Media.roundtrip (Codec.go_valid hE) p hw, Media.quantise_near (Codec.go_valid hE) p hw,
   Media.marshal_quantise (Codec.go_valid hE) p hw⟩

def sampleKey : Key := { method := cs!"AES-128", uri := cs!"k.bin", iv := cs!"0x0123456789abcdef0123456789ABCDEF" }

def sample : Media :=
  { version := 9, independentSegments := true, start := some (-3500000000), allowCache := some false,
    targetDuration := 4, serverControl := some { partHoldBack := some 3000000000, canSkipUntil := some 24000000000 },
    partInf := some 1000000000, mediaSequence := 7, discontinuitySequence := some 5,
    playlistType := some cs!"EVENT", map := some { uri := cs!"init.mp4", brLen := some 720, brStart := some 0 },
    skip := some 3,
    segments := [
      { duration := 3999999999, uri := cs!"a.mp4", key := some sampleKey, title := cs!"first, \"quoted\"" },
      { duration := 4000000000, uri := cs!"b.mp4", key := some sampleKey, discontinuity := true, gap := true,
        dateTime := some { sec := 1408924800, nsec := 123456789, off := 19800 }, bitrate := some 1500000,
        brLen := some 100, brStart := some 18446744073709551615,
        parts := [{ duration := 1000000000, uri := cs!"b.0.mp4", independent := true },
                  { duration := 1000000000, uri := cs!"b.1.mp4", brLen := some 5, gap := true }] },
      { duration := 15625000, uri := cs!"c.mp4", key := some { method := cs!"NONE" } }],
    parts := [{ duration := 333333333, uri := cs!"d.0.mp4" }],
    preloadHint := some { uri := cs!"d.1.mp4", brStart := 10, brLen := some 20 },
    endlist := false }

example : WFMedia sample := by decide

/-- on the sample the statement is not vacuous (both hypotheses hold): the theorem instantiated -/
example : Media.unmarshal Codec.exactGo (Media.marshal Codec.exactGo sample) = .ok (Media.quantise Codec.exactGo sample) :=
  c14_media_roundtrip Codec.exactGo Codec.exactGo_valid sample (by decide)

set_option maxRecDepth 100000 in
/-- and evaluated by the kernel, independently of the proof (codec with the synthetic time text) -/
example : Media.unmarshal Codec.exact (Media.marshal Codec.exact sample) = .ok (Media.quantise Codec.exact sample) := by
  decide

/-! ## the unchanged tree violates the property (DESIGN §9, F1–F3): witnesses on `marshalLegacy`

`marshalLegacy` is `Media.Marshal` as it is in the unchanged repository.  Each value is
well-formed, and decoding its legacy encoding does not give it back. -/

def seg1 : Segment := { duration := 2000000000, uri := cs!"s.ts" }

/-- F1: a non-nil `Start` -/
def pF1 : Media := { version := 3, targetDuration := 2, start := some 10000000000, segments := [seg1] }
/-- F2: discontinuity sequence 5, media sequence 7 -/
def pF2 : Media := { version := 3, targetDuration := 2, mediaSequence := 7, discontinuitySequence := some 5, segments := [seg1] }
/-- F3: SERVER-CONTROL without CAN-BLOCK-RELOAD -/
def pF3 : Media := { version := 9, targetDuration := 2, serverControl := some { partHoldBack := some 3000000000 }, segments := [seg1] }

example : WFMedia pF1 ∧ WFMedia pF2 ∧ WFMedia pF3 := by decide

set_option maxRecDepth 100000 in
/-- F1: `Media.Marshal` never emits EXT-X-START: the field is lost -/
theorem c14_legacy_F1_start_lost :
    Media.unmarshal Codec.exactGo (Media.marshalLegacy Codec.exactGo pF1) = .ok { pF1 with start := none } := by decide

set_option maxRecDepth 100000 in
/-- F2: EXT-X-DISCONTINUITY-SEQUENCE is written with the media sequence value: 5 comes back as 7 -/
theorem c14_legacy_F2_discontinuity_sequence :
    Media.unmarshal Codec.exactGo (Media.marshalLegacy Codec.exactGo pF2) = .ok { pF2 with discontinuitySequence := some 7 } := by
  decide

set_option maxRecDepth 100000 in
/-- F3: `#EXT-X-SERVER-CONTROL:,PART-HOLD-BACK=3.00000` — the first key becomes `,PART-HOLD-BACK`, the value is lost -/
theorem c14_legacy_F3_server_control :
    Media.marshalLegacy Codec.exactGo pF3 =
      cs!"#EXTM3U\n#EXT-X-VERSION:9\n#EXT-X-TARGETDURATION:2\n#EXT-X-SERVER-CONTROL:,PART-HOLD-BACK=3.00000\n#EXT-X-MEDIA-SEQUENCE:0\n#EXTINF:2.00000,\ns.ts\n" ∧
    Media.unmarshal Codec.exactGo (Media.marshalLegacy Codec.exactGo pF3) = .ok { pF3 with serverControl := some {} } := by
  decide

/-! ## every clause of `WFMedia` is needed by the text format (negative examples)

For each clause: a value violating only that clause, for which the round trip is false. -/

abbrev rt (p : Media) : Prop := Media.unmarshal Codec.exactGo (Media.marshal Codec.exactGo p) = .ok (Media.quantise Codec.exactGo p)

def base : Media := { version := 3, targetDuration := 2, segments := [seg1] }
example : WFMedia base := by decide

set_option maxRecDepth 100000 in
example : rt base := by decide

section
set_option maxRecDepth 100000

/-- a duration below half the 10 µs resolution is written as 0.00000, which the decoder rejects -/
example : ¬ WFMedia { base with segments := [{ seg1 with duration := 4000 }] } ∧
    ¬ rt { base with segments := [{ seg1 with duration := 4000 }] } := by decide
/-- an empty URI line is no line at all -/
example : ¬ rt { base with segments := [{ seg1 with uri := [] }] } := by decide
/-- a URI starting with `#` is a comment / tag -/
example : ¬ rt { base with segments := [{ seg1 with uri := cs!"#x" }] } := by decide
/-- LF inside a URI starts a new line -/
example : ¬ rt { base with segments := [{ seg1 with uri := cs!"a\nb" }] } := by decide
/-- CR at the end of a URI is a line end -/
example : ¬ rt { base with segments := [{ seg1 with uri := cs!"a\r" }] } := by decide
/-- titles are trimmed by the decoder -/
example : ¬ rt { base with segments := [{ seg1 with title := cs!" t" }] } := by decide
/-- `"` ends a quoted-string -/
example : ¬ rt { base with map := some { uri := cs!"a\"b" } } := by decide
/-- the map URI is required -/
example : ¬ rt { base with map := some {} } := by decide
/-- a byte-range offset is written only after a length -/
example : ¬ rt { base with map := some { uri := cs!"i", brStart := some 5 } } := by decide
/-- key persistence: a key-less segment after a keyed one inherits the key -/
example : ¬ rt { base with segments := [{ seg1 with key := some { method := cs!"AES-128", uri := cs!"k" } }, seg1] } := by decide
/-- METHOD=NONE carries no other attribute -/
example : ¬ rt { base with segments := [{ seg1 with key := some { method := cs!"NONE", uri := cs!"k" } }] } := by decide
/-- AES keys need a URI -/
example : ¬ rt { base with segments := [{ seg1 with key := some { method := cs!"AES-128" } }] } := by decide
/-- methods other than the three standard ones are rejected -/
example : ¬ rt { base with segments := [{ seg1 with key := some { method := cs!"FOO", uri := cs!"k" } }] } := by decide
/-- an IV is an unquoted hexadecimal-sequence: a comma splits it -/
example : ¬ rt { base with segments := [{ seg1 with key := some { method := cs!"AES-128", uri := cs!"k", iv := cs!"1,X=2" } }] } := by decide
/-- versions above `maxSupportedVersion` are rejected -/
example : ¬ rt { base with version := 11 } := by decide
/-- negative integers are written with a sign the decoder rejects -/
example : ¬ rt { base with mediaSequence := -1 } := by decide
/-- integers are read with 31 bits -/
example : ¬ rt { base with mediaSequence := 2147483648 } := by decide
/-- TARGETDURATION 0 is "not set" -/
example : ¬ rt { base with targetDuration := 0 } := by decide
/-- at least one segment -/
example : ¬ rt { base with segments := [] } := by decide
/-- a start offset that rounds to zero is "missing" -/
example : ¬ rt { base with start := some 1 } := by decide
/-- a part target that rounds to zero is "missing" -/
example : ¬ rt { base with partInf := some 0 } := by decide
/-- playlist types other than EVENT / VOD are rejected -/
example : ¬ rt { base with playlistType := some cs!"LIVE" } := by decide
/-- parts need a URI and a duration -/
example : ¬ rt { base with parts := [{ duration := 1000000000 }] } ∧ ¬ rt { base with parts := [{ uri := cs!"p" }] } := by decide
/-- the preload hint needs a URI -/
example : ¬ rt { base with preloadHint := some {} } := by decide
/-- a small negative hold-back is written `-0.00000`: it decodes (to 0) but `Marshal` is no fixpoint -/
example : Media.marshal Codec.exactGo (Media.quantise Codec.exactGo { base with serverControl := some { partHoldBack := some (-1) } }) ≠
    Media.marshal Codec.exactGo { base with serverControl := some { partHoldBack := some (-1) } } := by decide

end

/-- the executable IEEE-754 model `Codec.go` on samples ("test", not an obligation): the envelope is
tight — 130 µs is written `0.00013` and read back as 129999 ns (one nanosecond short, exactly what
the real `ParseFloat·1e9` does); a binary tie (2^-6 s) is rounded to even; re-encoding gives the same
text. -/
example :
    ieeeFmtDur 130000 = cs!"0.00013" ∧ ieeeParseDur cs!"0.00013" = some 129999 ∧ ieeeFmtDur 129999 = cs!"0.00013" ∧
    ieeeFmtDur 15625000 = cs!"0.01562" ∧ ieeeParseDur cs!"0.01562" = some 15620000 ∧
    ieeeFmtDur (-3500000000) = cs!"-3.50000" ∧ ieeeParseDur cs!"-3.50000" = some (-3500000000) ∧
    ieeeParseDur cs!"inf" = some (-9223372036854775808) ∧ ieeeParseDur cs!"1e400" = none := by decide

/-- times (Go layout `Codec.go`): a zone offset with seconds is printed truncated to minutes, the
instant moves; years above 9999 are printed with five digits and rejected -/
example :
    Codec.go.parseTime (Codec.go.fmtTime { sec := 1700000000, nsec := 0, off := 3601 }) ≠ some { sec := 1700000000, nsec := 0, off := 3601 } ∧
    Codec.go.parseTime (Codec.go.fmtTime { sec := 253402300800, nsec := 0, off := 0 }) = none ∧
    Codec.go.parseTime (Codec.go.fmtTime { sec := 1408924800, nsec := 123456789, off := -19800 }) =
      some { sec := 1408924800, nsec := 123000000, off := -19800 } := by decide

end Hls.Props.C14
