import Hls.Playlist.MediaModel
namespace Hls.Props.C14
end Hls.Props.C14
