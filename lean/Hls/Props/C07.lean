import Hls.Gen.Skeleton
import Hls.Conc.Lemmas8
/-!
# C07 — Close unblocks every request and releases all storage (schedule-quantified part)

Property theorems only; helper lemmas live in `Hls/Conc/Lemmas*.lean`.

The machine (`Hls/Conc/Machine.lean`) interprets the sync skeleton REGENERATED from
muxer.go / muxer_stream.go (`Hls.Gen.skeleton`). `skeleton_shape` pins it to the shape the
invariant was proved for; every theorem below is stated for an arbitrary configuration
whose skeleton is the regenerated one, any number of streams, any list of threads
(writers, `Close` callers, requesters of all four kinds), every schedule and every
resolution of nondeterminism (`Reachable` / `Steps`).

`c07_files_removed` (every file removed) is a statement about the sequential muxer model and
is not part of this file; the T2 stream `conc` observes `os.ReadDir` after `Close`.
-/
namespace Hls.Props.C07
open Hls.Conc

/-- T1 obligation: the regenerated skeleton has the shape the invariant was proved for. -/
theorem skeleton_shape : Hls.Gen.skeleton = Expected.skeleton := by decide

/-- Every return path of every regenerated program (handlers, `Close`, writer frame) holds no lock. -/
theorem c07_returns_release_locks :
    ∀ p ∈ Hls.Gen.skeleton.all, ∀ h ∈ heldAtReturns p, h = [] := by decide

/-- In every reachable state in which `Close` has returned: no requester is parked on the
    condition variable without having been woken, and every requester that is woken (still has
    to re-acquire the mutex) can — along every continuation — only complete with a non-200 status. -/
theorem c07_all_unblocked (cfg : Cfg) (hsk : cfg.sk = Hls.Gen.skeleton) {s : State}
    (hR : Reachable cfg s) (hc : closeReturned s) :
    (∀ (i : Nat) (th : Thread), s.threads[i]? = some th → th.kind.isRequester = true → th.wait ≠ .parked) ∧
    (∀ (i : Nat) (th : Thread), s.threads[i]? = some th → th.kind.isRequester = true → th.wait = .woken →
      ∀ s', Steps cfg s s' → ∀ th', s'.threads[i]? = some th' →
        th'.wait ≠ .parked ∧ ∀ st, th'.result = some st → st ≠ 200) := by
  have hsk' := hsk.trans skeleton_shape
  have hI := inv_reachable hsk' hR
  refine ⟨fun i th hi hq => no_parked_of_closeReturned hI hc hi hq, ?_⟩
  intro i th hi hq hw s' hs th' hi'
  have hres := ((hI.t i th hi).waitSt (by simp [hw])).1
  obtain ⟨th2, hi2, hk2, hd2, _⟩ := doom_steps hsk' hR hc hs hi hq (Or.inl ⟨hres, Or.inl hw⟩)
  rw [hi'] at hi2; cases hi2
  have hI' := inv_reachable hsk' (reachable_steps hR hs)
  refine ⟨no_parked_of_closeReturned hI' (closeReturned_steps hsk' hR hc hs) hi' (by rw [hk2]; exact hq), ?_⟩
  intro st hst
  rcases hd2 with ⟨hn, _⟩ | ⟨st', h1, h2⟩
  · rw [hn] at hst; cases hst
  · rw [h1] at hst; cases hst; exact h2

/-- A request that starts after `Close` has returned never parks, can only complete with a non-200
    status, and — as soon as the mutex is free — completes with 500 within four steps of its own,
    with no step of any other thread (`c06_mutex_handover`: a held mutex is handed over by its
    holder alone). -/
theorem c07_later_requests_return (cfg : Cfg) (hsk : cfg.sk = Hls.Gen.skeleton) {s : State}
    (hR : Reachable cfg s) (hc : closeReturned s) {i : Nat} {th : Thread}
    (hi : s.threads[i]? = some th) (hq : th.kind.isRequester = true) (hf : th.fresh) :
    (∀ s', Steps cfg s s' → ∀ th', s'.threads[i]? = some th' →
        th'.everParked = false ∧ th'.wait ≠ .parked ∧ ∀ st, th'.result = some st → st ≠ 200) ∧
    (s.sh.owner = none → ∃ n s' th', n ≤ 4 ∧ run cfg s (List.replicate n (i, false)) = some s' ∧
        s'.threads[i]? = some th' ∧ th'.result = some 500 ∧ th'.everParked = false ∧ s'.sh.owner = none) := by
  have hsk' := hsk.trans skeleton_shape
  have hI := inv_reachable hsk' hR
  constructor
  · intro s' hs th' hi'
    obtain ⟨th2, hi2, hk2, hd2, he2⟩ := doom_steps hsk' hR hc hs hi hq (Or.inl (fresh_doomed hq hf))
    rw [hi'] at hi2; cases hi2
    have hep : th.everParked = false := by unfold Thread.fresh at hf; rw [hf]
    have hI' := inv_reachable hsk' (reachable_steps hR hs)
    refine ⟨he2.trans hep, no_parked_of_closeReturned hI' (closeReturned_steps hsk' hR hc hs) hi' (by rw [hk2]; exact hq), ?_⟩
    intro st hst
    rcases hd2 with ⟨hn, _⟩ | ⟨st', h1, h2⟩
    · rw [hn] at hst; cases hst
    · rw [h1] at hst; cases hst; exact h2
  · intro ho
    obtain ⟨n, sh', th', hn, hrun, hres, ho', hep⟩ :=
      later_solo hsk' (i := i) hq hf ho (reqFlag_of_closeReturned hI hc hi hq)
    obtain ⟨s', h1, h2, h3⟩ := solo_to_run hi hrun
    exact ⟨n, s', th', hn, h1, h3, hres, hep, by rw [h2]; exact ho'⟩

/-- When every thread has returned the mutex is free. -/
theorem c07_mutex_free (cfg : Cfg) (hsk : cfg.sk = Hls.Gen.skeleton) {s : State}
    (hR : Reachable cfg s) (hall : ∀ th ∈ s.threads, th.result.isSome = true) : s.sh.owner = none := by
  have hI := inv_reachable (hsk.trans skeleton_shape) hR
  cases ho : s.sh.owner with
  | none => rfl
  | some t =>
    have hlt := hI.g.ownerIn t ho
    have hi : s.threads[t]? = some s.threads[t] := List.getElem?_eq_getElem hlt
    have hT := hI.t t _ hi
    have hh : (s.threads[t]).held = true := hT.own.mpr ho
    have hs := hT.heldSpec
    have hr := hall _ (List.getElem_mem hlt)
    rw [hh] at hs
    obtain ⟨st, hst⟩ := Option.isSome_iff_exists.mp hr
    simp [hst] at hs

/-- More generally: the mutex is held exactly by a running, unfinished thread inside one of its
    critical sections; a finished thread never owns it (this is what F4 violated). -/
theorem c07_finished_threads_hold_nothing (cfg : Cfg) (hsk : cfg.sk = Hls.Gen.skeleton) {s : State}
    (hR : Reachable cfg s) {i : Nat} {th : Thread} (hi : s.threads[i]? = some th)
    (hr : th.result.isSome = true) : s.sh.owner ≠ some i ∧ th.fault = false := by
  have hT := (inv_reachable (hsk.trans skeleton_shape) hR).t i th hi
  refine ⟨fun ho => ?_, hT.nofault⟩
  have hh := hT.own.mpr ho
  have hs := hT.heldSpec
  obtain ⟨st, hst⟩ := Option.isSome_iff_exists.mp hr
  rw [hh] at hs
  simp [hst] at hs

/-! ## The unchanged tree (skeleton constant `legacySkeleton`, what the extractor emitted for 486cd81) -/

/-- F4: the legacy preload-hint closure has a return path that keeps `M`. -/
theorem c07_legacy_return_holds_lock : ∃ h ∈ heldAtReturns legacySkeleton.hint, h = [Mu.M] := by decide

/-- F4 witness schedule: `Close`, then one preload-hint request ⇒ a finished thread owns the mutex. -/
theorem c07_legacy_f4_witness :
    ∃ s, run legacyCfg (mkInit legacyCfg 0 7 [.closer, .hint 0 0]) f4Trace = some s ∧
      s.sh.owner = some 1 ∧ (s.threads[1]?.bind (·.result)) = some 500 ∧ badLeak s = true :=
  legacy_f4_witness

/-- F5 witness schedule: a parked request is woken by `Close`'s broadcast, re-checks the stream flag
    before it is stored, parks again; `Close` returns; nobody will ever broadcast again. -/
theorem c07_legacy_f5_witness :
    ∃ s, run legacyCfg (mkInit legacyCfg 0 7 [.closer, .mediaPlain 0]) f5Trace = some s ∧
      badParked s = true ∧ (s.threads[1]?.map (·.wait)) = some .parked ∧
      (s.threads[1]?.map (·.everParked)) = some true ∧ s.sh.sClosed = [true] ∧ s.sh.owner = none :=
  legacy_f5_witness

/-! ## Non-vacuity -/

def demoCfg : Cfg := { sk := Hls.Gen.skeleton, nStreams := 1 }

/-- the request parks (6 steps), `Close` runs to completion (10 steps): the request is woken, `Close` has returned -/
def demoTrace : List (Nat × Bool) := List.replicate 6 (1, false) ++ List.replicate 10 (0, false)

example : ∃ s, run demoCfg (mkInit demoCfg 0 7 [.closer, .mediaPlain 0, .hint 0 3]) demoTrace = some s ∧
    closeReturned s ∧ (s.threads[1]?.map (·.wait)) = some .woken ∧ (s.threads[2]?.map (fun t => decide t.fresh)) = some true := by
  decide

example : Reachable demoCfg (mkInit demoCfg 0 7 [.closer, .mediaPlain 0, .hint 0 3]) :=
  Reachable.init (init_mkInit _ _ _ _ (by decide))

/-- all three threads at `ret` after `Close`, the woken request, the later hint request -/
example : ∃ s, run demoCfg (mkInit demoCfg 0 7 [.closer, .mediaPlain 0, .hint 0 3])
      (demoTrace ++ List.replicate 4 (1, false) ++ List.replicate 3 (2, false)) = some s ∧
    (∀ th ∈ s.threads, th.result.isSome = true) ∧ s.sh.owner = none ∧
    s.threads.map (·.result) = [some 0, some 500, some 500] := by
  decide

end Hls.Props.C07
