import Hls.Queue.Lemmas
import Hls.Queue.LemmasInterp
import Hls.Gen.QueueSkeleton
/-!
# C20 — Client download pipeline: FIFO, exactly-once, bounded look-ahead, no lost wake-up

Property theorems only (the inductive invariant and its preservation are in
`Hls/Queue/Lemmas.lean`, the machine in `Hls/Queue/Model.lean`).

All theorems quantify over `Reachable pr s`: every configuration reachable from the
initial one by ANY sequence of enabled thread steps — every interleaving of producer,
consumer and canceller at statement granularity, any number of pushes and pulls.

`pr.variant = .fixed` is the program in which `waitUntilSizeIsBelow` captures `q.didPull`
while holding the mutex (fix-F12); `skeleton_shape` pins the regenerated source to it.
The upstream placement (`.legacy`) is kept in the model, and `c20_f12_*` below are the
machine-checked witnesses that the producer clauses FAIL for it.
-/
namespace Hls.Props.C20
open Hls.Queue

/-! ## T1: the regenerated source has the shape the proofs are about -/

/-- The sync skeleton extracted from the Go AST is the program of the model (fixed variant,
    threshold 1): statement order of push / waitUntilSizeIsBelow / pull — in particular
    `captureChanLocked didPull` BEFORE `unlock` — and the call structure of
    runTraditional / fillSegmentQueue / runLowLatency / the processors. -/
theorem skeleton_shape : Hls.Gen.queueSkeleton = skeletonOf .fixed 1 := by decide

theorem wait_below_arg : Hls.Gen.waitBelowArg = 1 := by decide

/-- The parameters the correspondence driver derives from the regenerated skeleton. -/
def genParams (m : Mode) : Params := { variant := .fixed, mode := m, n := Hls.Gen.waitBelowArg }

theorem driver_runs_fixed_program (m : Mode) : paramsOf Hls.Gen.queueSkeleton m = some (genParams m) := by
  cases m <;> decide

/-- The machine the theorems below are about IS the interpretation of the extracted term: on
    every configuration, the producer's / consumer's step inside push / waitUntilSizeIsBelow /
    pull equals the generic interpreter `interp` (statement meaning `exec`, control flow
    computed from the statement list) run on a method table whose statement list is the
    corresponding field of the REGENERATED `Hls.Gen.queueSkeleton`. (The caller-level steps —
    download, the ENDLIST branch, process, the final `<-ctx.Done()` — follow the pinned
    `runTraditional` / `fillSegmentQueue` / `runLowLatency` / processor skeletons by inspection.) -/
theorem model_interprets_extracted_skeleton (m : Mode) (s : Cfg) :
    (s.ppc.inPush → pStep (genParams m) s =
        interp .P (genParams m).n pushMethod (·.ppc) setPpc afterPushRet .done s) ∧
    (s.ppc.inWait .fixed → pStep (genParams m) s =
        interp .P (genParams m).n (waitMethod .fixed) (·.ppc) setPpc (fun _ => .download) .done s) ∧
    (s.cpc.inPull → cStep s = interp .C 0 pullMethod (·.cpc) setCpc (fun _ => .process) .panicked s) ∧
    pushMethod.stmts = Hls.Gen.queueSkeleton.push ∧
    (waitMethod .fixed).stmts = Hls.Gen.queueSkeleton.waitBelow ∧
    pullMethod.stmts = Hls.Gen.queueSkeleton.pull := by
  have hsk := methods_are_skeleton .fixed 1
  rw [← skeleton_shape] at hsk
  exact ⟨pStep_interprets_push _ s, pStep_interprets_wait (genParams m) s, cStep_interprets_pull s,
    hsk.1, hsk.2.1, hsk.2.2⟩

/-! ## FIFO, exactly once -/

/-- What has been pulled followed by what is queued is exactly what has been pushed, in
    order; the pushed history is segments 0,1,2,… (then possibly the end marker) without
    repetition — so every pushed entry is delivered at most once, none is lost or reordered.
    Holds for both variants, both modes, every threshold. -/
theorem c20_fifo_once {pr : Params} {s : Cfg} (h : Reachable pr s) :
    s.pulled ++ s.queue = s.pushed ∧ s.pushed = history s.nextId s.eosDone ∧ s.pushed.Nodup := by
  have hi := inv_reachable h
  exact ⟨hi.fifo, hi.shape, hi.shape ▸ history_nodup _ _⟩

/-- `pull` never indexes an empty slice. -/
theorem c20_pull_never_panics {pr : Params} {s : Cfg} (h : Reachable pr s) : s.cpc ≠ .panicked :=
  (inv_reachable h).noPanic

/-- The value `pull` is about to return / has returned is one that was pulled from the queue. -/
theorem c20_pull_returns_pushed {pr : Params} {s : Cfg} (h : Reachable pr s) (x : Item)
    (hx : s.cCur = some x) : x ∈ s.pushed := by
  have hi := inv_reachable h
  rw [← hi.fifo]
  exact List.mem_append_left _ (hi.curPulled x hx)

/-! ## End of stream: the `nil` marker (both loops — `fillSegmentQueue` and, since fix-F28, `runLowLatency`) -/

/-- Once the producer has pushed the `nil` end-of-stream marker, the marker is the LAST entry of the
    push history (all segments before it, in order), and the producer never pushes again: it is
    finishing that very `push`, sits in its final `<-ctx.Done()`, or has returned.
    Holds for the traditional loop (`fillSegmentQueue`'s ENDLIST branch) and for the Low-Latency
    loop (ENDLIST playlist without preload hint). -/
theorem c20_eos_is_last_push {pr : Params} {s : Cfg} (h : Reachable pr s) (he : s.eosDone = true) :
    s.pushed = history s.nextId false ++ [.eos] ∧
    (((s.ppc = .pushSignal ∨ s.ppc = .pushUnlock) ∧ s.pItem = .eos) ∨ s.ppc = .eosWait ∨ s.ppc = .done) := by
  have hi := inv_reachable h
  refine ⟨?_, hi.eosP he⟩
  rw [hi.shape, he, history_eos]

/-- The Low-Latency loop has no back-pressure: its producer is never inside
    `waitUntilSizeIsBelow` (pinned by `skeleton_shape`: `runLowLatency` contains no `callWaitBelow`). -/
theorem c20_ll_no_throttle {pr : Params} {s : Cfg} (h : Reachable pr s) (hm : pr.mode = .lowLatency) :
    ¬ s.ppc.inWaitAny :=
  (inv_reachable h).llNoWait hm

/-- `skeleton_shape` spelled out for the two facts above: the regenerated `runLowLatency` has no
    throttle call and exactly one `push(nil)`, guarded by `PreloadHint == nil` ∧ `Endlist`, followed
    by `<-ctx.Done()` and `return`. -/
theorem c20_ll_caller_shape :
    Hls.Gen.queueSkeleton.runLowLatency =
      [.loopBegin, .download, .callPush, .download,
       .ifNoHintBegin, .ifLastBegin, .callPushNil, .ctxWait, .ret, .ifEnd, .ret, .ifEnd, .loopEnd] := by
  decide

/-! ## Bounded look-ahead (runTraditional) -/

/-- General form: with threshold `n`, never more than `n + 1` downloaded segments are queued,
    and the queue never holds more than `n + 2` entries (the extra one can only be the `nil`
    end-of-stream marker). -/
theorem c20_lookahead_general {pr : Params} {s : Cfg} (h : Reachable pr s) (hm : pr.mode = .traditional) :
    segLen s.queue ≤ pr.n + 1 ∧ s.queue.length ≤ pr.n + 2 := by
  have hi := inv_reachable h
  have h1 := hi.boundHi hm
  have h2 := hi.lenSeg
  refine ⟨h1, ?_⟩
  split at h2 <;> omega

/-- The code as it is (`waitUntilSizeIsBelow(ctx, 1)`, regenerated constant): at most TWO
    downloaded segments wait in the queue at any time (three entries only when the third is
    the `nil` marker). NB the method's name notwithstanding, the loop is `len > n`, so the
    real bound is `n + 1 = 2`, not 1. -/
theorem c20_lookahead {m : Mode} {s : Cfg} (h : Reachable (genParams m) s) (hm : m = .traditional) :
    segLen s.queue ≤ 2 ∧ s.queue.length ≤ 3 := by
  have := c20_lookahead_general h (by simpa [genParams] using hm)
  simpa [genParams, wait_below_arg] using this

/-- "… never more than two downloaded segments waiting while another is being processed":
    the consumer is in `processSegment` with a segment, the queue holds at most two more. -/
theorem c20_lookahead_while_processing {s : Cfg} (h : Reachable (genParams .traditional) s)
    (_hproc : s.cpc = .process) : segLen s.queue ≤ 2 :=
  (c20_lookahead h rfl).1

/-- The producer only starts a download (and only appends a segment) when at most `n`
    segments are queued. -/
theorem c20_download_only_below {pr : Params} {s : Cfg} (h : Reachable pr s) (hm : pr.mode = .traditional)
    (hp : s.ppc = .download) : segLen s.queue ≤ pr.n :=
  (inv_reachable h).boundLo hm (Or.inl hp)

/-! ## No lost wake-up -/

/-- Consumer parked on generation `cCap` of `didPush` (between `Unlock` and the `select`, or in
    it) while the queue is non-empty: that generation is already closed, or the producer is
    still inside `push`'s critical section right before its `close(q.didPush)`. -/
theorem c20_consumer_no_lost_wakeup {pr : Params} {s : Cfg} (h : Reachable pr s)
    (hpark : s.cpc = .pullRecv) (hq : s.queue ≠ []) :
    s.cCap < s.pushGen ∨ (s.ppc = .pushSignal ∧ s.pWasEmpty = true) :=
  (inv_reachable h).cNoLost hpark hq

/-- … hence whenever the mutex is free: parked ∧ queue ≠ [] → the generation is closed (the
    `select` is enabled). -/
theorem c20_consumer_no_lost_wakeup_mutex_free {pr : Params} {s : Cfg} (h : Reachable pr s)
    (hpark : s.cpc = .pullRecv) (hq : s.queue ≠ []) (hfree : s.owner = none) :
    s.cCap < s.pushGen := by
  have hi := inv_reachable h
  rcases hi.cNoLost hpark hq with h1 | ⟨h1, _⟩
  · exact h1
  · have := hi.ownerP.mpr (by simp [PPc.holds, h1])
    simp [hfree] at this

/-- Producer (FIXED program) parked on generation `pCap` of `didPull` while the queue length
    is at or below the threshold: the generation is already closed, or the consumer is inside
    `pull`'s critical section right before its `close(q.didPull)`. -/
theorem c20_producer_no_lost_wakeup {pr : Params} {s : Cfg} (hfix : pr.variant = .fixed)
    (h : Reachable pr s) (hpark : s.ppc = .waitRecv) (hq : s.queue.length ≤ pr.n) :
    s.pCap < s.pullGen ∨ s.cpc = .pullSignal :=
  (inv_reachable h).pNoLost hfix hpark hq

theorem c20_producer_no_lost_wakeup_mutex_free {pr : Params} {s : Cfg} (hfix : pr.variant = .fixed)
    (h : Reachable pr s) (hpark : s.ppc = .waitRecv) (hq : s.queue.length ≤ pr.n) (hfree : s.owner = none) :
    s.pCap < s.pullGen := by
  have hi := inv_reachable h
  rcases hi.pNoLost hfix hpark hq with h1 | h1
  · exact h1
  · have := hi.ownerC.mpr (by simp [CPc.holds, h1])
    simp [hfree] at this

/-- Mutual exclusion: the mutex owner is exactly the thread inside a critical section. -/
theorem c20_mutex {pr : Params} {s : Cfg} (h : Reachable pr s) :
    (s.owner = some .P ↔ s.ppc.holds) ∧ (s.owner = some .C ↔ s.cpc.holds) ∧ ¬ (s.ppc.holds ∧ s.cpc.holds) := by
  have hi := inv_reachable h
  refine ⟨hi.ownerP, hi.ownerC, ?_⟩
  intro ⟨hp, hc⟩
  have h1 := hi.ownerP.mpr hp
  have h2 := hi.ownerC.mpr hc
  rw [h1] at h2
  cases h2

/-! ## Cancellation -/

/-- After cancel, every parked thread (in a `select` of the queue or in its final
    `<-ctx.Done()`) has an enabled step, and that step is its return. (Any state, either variant.) -/
theorem c20_cancel (pr : Params) (s : Cfg) (hc : s.cancelled = true) :
    ((s.ppc = .waitRecv ∨ s.ppc = .eosWait) → ∃ s', next pr .pCancel s = some s' ∧ s'.ppc = .done) ∧
    ((s.cpc = .pullRecv ∨ s.cpc = .eosWait) → ∃ s', next pr .cCancel s = some s' ∧ s'.cpc = .done) := by
  constructor
  · rintro (h | h) <;> simp [next, pCancelStep, h, hc]
  · rintro (h | h) <;> simp [next, cCancelStep, h, hc]

/-- Before cancel the canceller can always run. -/
theorem c20_cancel_enabled (pr : Params) (s : Cfg) (hc : s.cancelled = false) :
    ∃ s', next pr .cancel s = some s' ∧ s'.cancelled = true := by
  simp [next, cancelStep, hc]

/-! ## No deadlock (fixed program) -/

/-- In every reachable configuration of the FIXED program some producer or consumer step is
    enabled (the canceller is not needed), unless both threads are at rest: each has returned
    or sits in its final `<-ctx.Done()` after the end-of-stream marker (producer after
    `push(nil)`, consumer after receiving `nil`) — waiting for Close by design, and then
    `c20_cancel_enabled` / `c20_cancel` apply. In particular producer and consumer are never
    both parked in the queue's `select`s. -/
theorem c20_no_deadlock {pr : Params} {s : Cfg} (hfix : pr.variant = .fixed) (h : Reachable pr s) :
    (∃ l, l ≠ Label.cancel ∧ (next pr l s).isSome) ∨ (s.ppc.atRest ∧ s.cpc.atRest) := by
  rcases progress_of_inv hfix (inv_reachable h) with h1 | h1 | h1 | h1 | h1
  · exact Or.inl ⟨.p, by decide, h1⟩
  · exact Or.inl ⟨.pCancel, by decide, h1⟩
  · exact Or.inl ⟨.c, by decide, h1⟩
  · exact Or.inl ⟨.cCancel, by decide, h1⟩
  · exact Or.inr h1

/-! ## F12: the upstream placement of the `q.didPull` read loses wake-ups

The LEGACY program (`case <-q.didPull:` evaluated after `q.mutex.Unlock()`) — documented
witnesses, found by `#eval` of a breadth-first search in the model and replayed on the real
code by the T2 corpus (`go/cmd/corr/slice_queue.go`, first two corpus cases). -/

def legacyParams : Params := { variant := .legacy, mode := .traditional, n := 1 }

/-- two pushes, producer in waitUntilSizeIsBelow(1) up to the Unlock (20 statements); one
    complete pull (5 statements); the producer evaluates `q.didPull` -/
def f12Trace : List Label := List.replicate 20 .p ++ List.replicate 5 .c ++ [.p]

/-- Lost wake-up: a reachable configuration of the legacy program in which the producer is
    parked on an OPEN generation although the queue length (1) is not above the threshold (1)
    and nobody holds the mutex. `c20_producer_no_lost_wakeup` is false for the legacy program. -/
theorem c20_f12_witness :
    ∃ s, run legacyParams init f12Trace = some s ∧
      s.ppc = .waitRecv ∧ ¬ (s.pCap < s.pullGen) ∧ s.queue.length ≤ legacyParams.n ∧
      s.owner = none ∧ s.cancelled = false :=
  ⟨_, rfl, by decide⟩

/-- two pulls complete inside the window and the consumer parks on the empty queue -/
def f12DeadlockTrace : List Label := List.replicate 20 .p ++ List.replicate 16 .c ++ [.p]

/-- Deadlock: a reachable configuration of the legacy program, not cancelled, in which
    neither producer nor consumer has any enabled step (both parked in `select`) and neither
    is at rest. `c20_no_deadlock` is false for the legacy program. -/
theorem c20_f12_deadlock :
    ∃ s, run legacyParams init f12DeadlockTrace = some s ∧
      s.ppc = .waitRecv ∧ s.cpc = .pullRecv ∧ s.cancelled = false ∧
      enabled legacyParams s = [.cancel] :=
  ⟨_, rfl, by decide⟩

/-- The same two schedules are harmless in the fixed program: the producer is woken. -/
theorem c20_f12_fixed_ok :
    (∃ s, run { legacyParams with variant := .fixed } init (List.replicate 21 .p ++ List.replicate 5 .c) = some s ∧
      s.ppc = .waitRecv ∧ s.pCap < s.pullGen) ∧
    (∃ s, run { legacyParams with variant := .fixed } init (List.replicate 21 .p ++ List.replicate 16 .c) = some s ∧
      s.ppc = .waitRecv ∧ s.cpc = .pullRecv ∧ Label.p ∈ enabled { legacyParams with variant := .fixed } s) :=
  ⟨⟨_, rfl, by decide⟩, ⟨_, rfl, by decide⟩⟩

/-! ## Non-vacuity: the hypotheses of the theorems above are satisfiable by reachable states -/

/-- fixed program, threshold 1 -/
def fixedParams : Params := genParams .traditional

/-- producer parked with a drained queue (hypotheses of `c20_producer_no_lost_wakeup`), woken -/
example : ∃ s, Reachable fixedParams s ∧ s.ppc = .waitRecv ∧ s.queue.length ≤ fixedParams.n ∧ s.pCap < s.pullGen :=
  ⟨_, reachable_of_run .init (ls := List.replicate 21 .p ++ List.replicate 5 .c) rfl, by decide⟩

/-- consumer parked with a non-empty queue (hypotheses of `c20_consumer_no_lost_wakeup`), both disjuncts occur -/
example : ∃ s, Reachable fixedParams s ∧ s.cpc = .pullRecv ∧ s.queue ≠ [] ∧ s.cCap < s.pushGen :=
  ⟨_, reachable_of_run .init (ls := List.replicate 4 .c ++ List.replicate 6 .p) rfl, by decide⟩

example : ∃ s, Reachable fixedParams s ∧ s.cpc = .pullRecv ∧ s.queue ≠ [] ∧ s.ppc = .pushSignal ∧ s.pWasEmpty = true :=
  ⟨_, reachable_of_run .init (ls := List.replicate 4 .c ++ List.replicate 4 .p) rfl, by decide⟩

/-- the look-ahead bound is attained: two segments queued, and three entries with the end marker -/
example : ∃ s, Reachable fixedParams s ∧ segLen s.queue = 2 :=
  ⟨_, reachable_of_run .init (ls := List.replicate 14 .p) rfl, by decide⟩

example : ∃ s, Reachable fixedParams s ∧ s.queue.length = 3 ∧ segLen s.queue = 2 :=
  ⟨_, reachable_of_run .init (ls := List.replicate 16 .p ++ [.pLast] ++ List.replicate 3 .p) rfl, by decide⟩

/-- a consumer processing a segment while two more wait (hypothesis of `c20_lookahead_while_processing`) -/
example : ∃ s, Reachable fixedParams s ∧ s.cpc = .process ∧ segLen s.queue = 2 :=
  ⟨_, reachable_of_run .init (ls := List.replicate 10 .p ++ List.replicate 5 .c ++ List.replicate 18 .p) rfl, by decide⟩

/-- both at rest after the end of the stream, then cancel returns both (`c20_no_deadlock`'s exception, `c20_cancel`) -/
example : ∃ s, Reachable fixedParams s ∧ s.ppc.atRest ∧ s.cpc.atRest ∧ s.cancelled = false ∧
    (enabled fixedParams s = [.cancel]) :=
  ⟨_, reachable_of_run .init (ls := List.replicate 6 .p ++ [.pLast] ++ List.replicate 5 .p ++ List.replicate 12 .c) rfl, by decide⟩

example : ∃ s, Reachable fixedParams s ∧ s.cancelled = true ∧ s.ppc = .done ∧ s.cpc = .done :=
  ⟨_, reachable_of_run .init (ls := List.replicate 6 .p ++ [.pLast] ++ List.replicate 5 .p ++ List.replicate 12 .c ++
      [.cancel, .pCancel, .cCancel]) rfl, by decide⟩

/-- Low-Latency producer: three parts, then the end-of-stream marker (hypothesis of
    `c20_eos_is_last_push` in LL mode); consumer drains; both at rest; never throttled although
    three entries were queued (`c20_ll_no_throttle`) -/
example : ∃ s, Reachable (genParams .lowLatency) s ∧ s.eosDone = true ∧ s.ppc = .eosWait ∧
    s.pushed = [.seg 0, .seg 1, .seg 2, .eos] ∧ s.queue.length = 4 :=
  ⟨_, reachable_of_run .init (ls := List.replicate 20 .p ++ [.pLast] ++ List.replicate 5 .p) rfl, by decide⟩

example : ∃ s, Reachable (genParams .lowLatency) s ∧ s.ppc.atRest ∧ s.cpc.atRest ∧
    s.pulled = [.seg 0, .seg 1, .eos] ∧ enabled (genParams .lowLatency) s = [.cancel] :=
  ⟨_, reachable_of_run .init (ls := List.replicate 13 .p ++ [.pLast] ++ List.replicate 5 .p ++ List.replicate 18 .c) rfl, by decide⟩

/-- producer at `download` with one segment queued (hypothesis of `c20_download_only_below`) -/
example : ∃ s, Reachable fixedParams s ∧ s.ppc = .download ∧ segLen s.queue = 1 :=
  ⟨_, reachable_of_run .init (ls := List.replicate 10 .p) rfl, by decide⟩

/-- `pull` about to return segment 0 (hypothesis of `c20_pull_returns_pushed`) -/
example : ∃ s, Reachable fixedParams s ∧ s.cCur = some (.seg 0) ∧ s.cpc = .pullUnlockExit :=
  ⟨_, reachable_of_run .init (ls := List.replicate 6 .p ++ List.replicate 4 .c) rfl, by decide⟩

/-- both threads in their `select` when Close arrives (hypotheses of `c20_cancel`); either may
    also still take the channel arm -/
example : ∃ s, Reachable fixedParams s ∧ s.cancelled = true ∧ s.ppc = .waitRecv ∧ s.cpc = .pullRecv ∧
    enabled fixedParams s = [.p, .pCancel, .cCancel] :=
  ⟨_, reachable_of_run .init (ls := List.replicate 21 .p ++ List.replicate 16 .c ++ [.cancel]) rfl, by decide⟩

end Hls.Props.C20
