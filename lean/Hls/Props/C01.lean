import Hls.Muxer.AcceptMain
/-!
# C01 — Muxer preserves every accepted access unit: bytes, order, timestamps

Property theorems only. Helper lemmas: `Hls/Muxer/Accept*.lean`; the model `Hls/Muxer/Model.lean` mirrors
`muxer*.go` statement by statement and is tied to the real muxer by the `muxer` correspondence stream.

* `accepted cfg ops t` / `acceptedTs cfg ops` (`Hls/Muxer/AcceptSpec.lean`) is the INDEPENDENT specification of
  which units must come out, written from the property text: it knows nothing about segments, parts, the
  look-ahead sample or rotations.
* The observable output is a HISTORY (`Hls/Muxer/Accept.lean`): `runLog t` performs exactly the model's writes
  (first conjunct of `c01_run_is_accepted`) and records every segment of stream `t` at the moment it is
  published, so segments that later leave the playlist window still count.
  `fragments log st t` = every fragment (part-track) ever finalized; `emitted` = their samples;
  `openPart` = the part being built; `lookahead` = the unit that waits for its successor.
* Hypotheses are explicit and decidable: `start cfg = .ok st0`, `InRange` (calls name tracks of the muxer),
  `AllOk` (every call returned nil), and for the statements about exact durations `gapsOk` of the accepted
  decode times (non-decreasing, consecutive units < 2^32 ticks apart — `sample.Duration` is a `uint32`).
-/
namespace Hls.Props.C01
open Hls.Muxer Hls.Muxer.Accept

/-- the constant added to every decode time in the fMP4 variants -/
def offset (cfg : Cfg) (t : Nat) : Int := 10 * (trackCfg cfg t).clockRate

/-- fMP4 / Low-Latency, every track of every muxer (any number of tracks, any interleaving): everything that was
ever finalized, then the open part, then the look-ahead unit is EXACTLY the accepted list — as
(payload id, dts + offset, pts offset, sync flag, ntp): nothing lost, duplicated, invented or reordered. -/
theorem c01_run_is_accepted (cfg : Cfg) (st0 : State) (ops : List WriteOp) (t : Nat)
    (hstart : start cfg = .ok st0) (hv : cfg.variant ≠ .mpegts)
    (hin : InRange cfg ops = true) (hok : AllOk st0 ops = true) (ht : t < cfg.tracks.length) :
    (runLog t st0 [] ops).1 = run st0 ops ∧
    (emitted (runLog t st0 [] ops).2 (run st0 ops) t ++ openPart (run st0 ops) t ++ lookahead (run st0 ops) t).map AU.ofSample
      = (accepted cfg ops t).map (shiftAU (offset cfg t)) := by
  obtain ⟨h1, tv⟩ := fmp4_main cfg st0 ops t hstart hv hin hok ht
  refine ⟨h1, ?_⟩
  have ho := tv.out
  have hp := tv.pend
  rw [hist_samples] at ho
  unfold accepted lookahead offset
  simp only [List.map_append, ho]
  congr 1
  show (abs (run st0 ops) t).next.toList.map AU.ofSample = _
  cases hn : (abs (run st0 ops) t).next <;> cases hq : (scan cfg t {} ops).pend <;> simp_all

/-- Every unit that has a successor carries as duration the distance to that successor (as the `uint32` the
container stores); when the accepted decode times are non-decreasing with gaps below 2^32 it is the exact distance. -/
theorem c01_durations (cfg : Cfg) (st0 : State) (ops : List WriteOp) (t : Nat)
    (hstart : start cfg = .ok st0) (hv : cfg.variant ≠ .mpegts)
    (hin : InRange cfg ops = true) (hok : AllOk st0 ops = true) (ht : t < cfg.tracks.length) :
    Chain (emitted (runLog t st0 [] ops).2 (run st0 ops) t ++ openPart (run st0 ops) t ++ lookahead (run st0 ops) t) ∧
    (gapsOk ((accepted cfg ops t).map (·.dts)) = true →
      ChainExact (emitted (runLog t st0 [] ops).2 (run st0 ops) t ++ openPart (run st0 ops) t ++ lookahead (run st0 ops) t)) := by
  sorry

end Hls.Props.C01
