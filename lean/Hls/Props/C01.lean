import Hls.Muxer.AcceptPack
import Hls.Muxer.AcceptMono
import Hls.Muxer.AcceptTs
import Hls.Muxer.AcceptExamples
/-!
# C01 — Muxer preserves every accepted access unit: bytes, order, timestamps

Property theorems only. Helper lemmas: `Hls/Muxer/Accept*.lean`; the model `Hls/Muxer/Model.lean` mirrors
`muxer*.go` statement by statement and is tied to the real muxer by the `muxer` correspondence stream (T2).

* `accepted cfg ops t` / `acceptedTs cfg ops` (`Hls/Muxer/AcceptSpec.lean`) is the INDEPENDENT specification of
  which units must come out, written from the property text: it knows nothing about segments, parts, the
  look-ahead sample or rotations.
* The observable output is a HISTORY (`Hls/Muxer/Accept.lean`): `runLog t` performs exactly the model's writes
  (first conjunct of `c01_run_is_accepted`) and records every segment of stream `t` at the moment it is
  published, so segments that have left the playlist window still count ("none lost" is about everything ever
  published). `fragments log st t` = every fragment (`moof` track run) ever finalized, `emitted` = their samples,
  `openPart` = the part being built, `lookahead` = the unit that waits for its successor,
  `unitsOut` = all three in order, `allFragments` = fragments ++ the open part as unfinished last fragment.
* Hypotheses are explicit and decidable: `start cfg = .ok st0`, `InRange` (every call names a track of the
  muxer), `AllOk` (every call returned nil); for exact durations `Monotone` (per-track non-decreasing DTS)
  and `Spread` (a track's decode times lie in a window < 2^32 ticks: `sample.Duration` is a `uint32`).
* Scope: all three variants, any number of tracks, any interleaving, all six codecs, multi-AU audio calls.
  fMP4/LL: every track (leading or not). MPEG-TS: the interleaved PES list.
-/
namespace Hls.Props.C01
open Hls.Muxer Hls.Muxer.Accept

/-- the constant added to every decode time in the fMP4 variants -/
def offset (cfg : Cfg) (t : Nat) : Int := 10 * (trackCfg cfg t).clockRate

/-- fMP4 / Low-Latency, EVERY track of every accepted configuration: everything that was ever finalized, then the
open part, then the look-ahead unit is EXACTLY the accepted list — as (payload id, dts + offset, pts offset,
sync flag, ntp): nothing lost, duplicated, invented or reordered. `runLog` is the model's `run` plus the ghost log. -/
theorem c01_run_is_accepted (cfg : Cfg) (st0 : State) (ops : List WriteOp) (t : Nat)
    (hstart : start cfg = .ok st0) (hv : cfg.variant ≠ .mpegts)
    (hin : InRange cfg ops = true) (hok : AllOk st0 ops = true) (ht : t < cfg.tracks.length) :
    (runLog t st0 [] ops).1 = run st0 ops ∧
    (unitsOut (runLog t st0 [] ops).2 (run st0 ops) t).map AU.ofSample
      = (accepted cfg ops t).map (shiftAU (offset cfg t)) := by
  obtain ⟨h1, tv⟩ := fmp4_main cfg st0 ops t hstart hv hin hok ht
  exact ⟨h1, pack_units tv⟩

/-- The same, read the way a demuxer reads it: decode times are each fragment's base time plus the running sum of
the stored durations. Needs exact durations, hence `Monotone` and `Spread`. -/
theorem c01_run_is_accepted_decoded (cfg : Cfg) (st0 : State) (ops : List WriteOp) (t : Nat)
    (hstart : start cfg = .ok st0) (hv : cfg.variant ≠ .mpegts)
    (hin : InRange cfg ops = true) (hok : AllOk st0 ops = true) (ht : t < cfg.tracks.length)
    (hm : Monotone cfg ops = true) (hs : Spread cfg ops t = true) :
    (allFragments (runLog t st0 [] ops).2 (run st0 ops) t).flatMap decode ++ (lookahead (run st0 ops) t).map key4
      = (accepted cfg ops t).map (shiftKey (offset cfg t)) := by
  obtain ⟨_, tv⟩ := fmp4_main cfg st0 ops t hstart hv hin hok ht
  exact pack_decoded tv (gapsOk_accepted cfg ops t (monotone_track cfg ops t hm ht) hs)

/-- Every unit that has a successor carries as duration the distance to that successor — as the `uint32` the
container stores (`Chain`), and exactly (`ChainExact`) when the input is `Monotone` and `Spread`. -/
theorem c01_durations (cfg : Cfg) (st0 : State) (ops : List WriteOp) (t : Nat)
    (hstart : start cfg = .ok st0) (hv : cfg.variant ≠ .mpegts)
    (hin : InRange cfg ops = true) (hok : AllOk st0 ops = true) (ht : t < cfg.tracks.length) :
    Chain (unitsOut (runLog t st0 [] ops).2 (run st0 ops) t) ∧
    (Monotone cfg ops = true → Spread cfg ops t = true → ChainExact (unitsOut (runLog t st0 [] ops).2 (run st0 ops) t)) := by
  obtain ⟨_, tv⟩ := fmp4_main cfg st0 ops t hstart hv hin hok ht
  exact ⟨pack_chain tv, fun hm hs => pack_exact tv (gapsOk_accepted cfg ops t (monotone_track cfg ops t hm ht) hs)⟩

/-- Consecutive fragments of a track have contiguous base times (base(k+1) = base(k) + Σ durations(k)), and the first
fragment starts at the first accepted unit's decode time + the offset. -/
theorem c01_contiguous (cfg : Cfg) (st0 : State) (ops : List WriteOp) (t : Nat)
    (hstart : start cfg = .ok st0) (hv : cfg.variant ≠ .mpegts)
    (hin : InRange cfg ops = true) (hok : AllOk st0 ops = true) (ht : t < cfg.tracks.length)
    (hm : Monotone cfg ops = true) (hs : Spread cfg ops t = true) :
    Contig (allFragments (runLog t st0 [] ops).2 (run st0 ops) t) ∧
    ∀ p rest, allFragments (runLog t st0 [] ops).2 (run st0 ops) t = p :: rest →
      ∃ u us, accepted cfg ops t = u :: us ∧ p.baseTime = u.dts + offset cfg t := by
  obtain ⟨_, tv⟩ := fmp4_main cfg st0 ops t hstart hv hin hok ht
  exact ⟨pack_contig tv (gapsOk_accepted cfg ops t (monotone_track cfg ops t hm ht) hs), fun p rest h => pack_first tv p rest h⟩

/-- The offset `fmp4WriteSample` adds, `durationToTimestamp(fmp4StartDTS, rate)` with the REGENERATED arithmetic, is
exactly `10·rate` for every clock rate (10 s is a whole number of seconds, so the split multiply-and-divide never
rounds); it is the offset of `c01_run_is_accepted`. -/
theorem c01_offset_const (rate : Int) :
    Hls.Gen.durationToTimestamp fmp4StartDTS rate = 10 * rate ∧ toTs fmp4StartDTS rate = 10 * rate :=
  ⟨toTs_start rate, toTs_start rate⟩

/-- Start point. On the leading track the accepted list is exactly: (video) everything from the first random-access
unit on, (audio-only muxer) everything — minus the units whose decode time stays negative after the offset. When no
unit is below −10 s (the quantifier of C01) the first unit that comes out of a video muxer is therefore the first
random-access unit. (Without that hypothesis it need not be: see notes, candidate finding "gate opened by a dropped
random-access unit".) -/
theorem c01_start_point (cfg : Cfg) (ops : List WriteOp) :
    accepted cfg ops (leadOf cfg) = leadKeep cfg (unitsOn cfg ops (leadOf cfg)) ∧
    ((unitsOn cfg ops (leadOf cfg)).all (fun u => decide (0 ≤ u.dts + offset cfg (leadOf cfg))) = true →
      accepted cfg ops (leadOf cfg) =
        (if (trackCfg cfg (leadOf cfg)).codec.isVideo then (unitsOn cfg ops (leadOf cfg)).dropWhile (fun u => !u.sync)
         else unitsOn cfg ops (leadOf cfg)) ∧
      ((trackCfg cfg (leadOf cfg)).codec.isVideo = true →
        ∀ u us, accepted cfg ops (leadOf cfg) = u :: us → u.sync = true)) := by
  refine ⟨accepted_lead cfg ops, fun hall => ?_⟩
  have hkeep : accepted cfg ops (leadOf cfg) =
      (if (trackCfg cfg (leadOf cfg)).codec.isVideo then (unitsOn cfg ops (leadOf cfg)).dropWhile (fun u => !u.sync)
       else unitsOn cfg ops (leadOf cfg)) := by
    rw [accepted_lead]
    unfold leadKeep
    simp only []
    apply List.filter_eq_self.mpr
    intro u hu
    have hmem : u ∈ unitsOn cfg ops (leadOf cfg) := by
      split at hu
      · exact (List.dropWhile_sublist _).subset hu
      · exact hu
    exact List.all_eq_true.mp hall u hmem
  refine ⟨hkeep, fun hv u us hu => ?_⟩
  rw [hkeep, hv, if_pos rfl] at hu
  simpa using dropWhile_head (fun u : AU => !u.sync) _ u us hu

/-- … so the first unit that ever comes out of the leading video track of an fMP4 / Low-Latency muxer is a
random-access unit (it is the first one written, by `c01_start_point` and `c01_run_is_accepted`). -/
theorem c01_start_point_run (cfg : Cfg) (st0 : State) (ops : List WriteOp)
    (hstart : start cfg = .ok st0) (hv : cfg.variant ≠ .mpegts)
    (hin : InRange cfg ops = true) (hok : AllOk st0 ops = true)
    (hvid : (trackCfg cfg (leadOf cfg)).codec.isVideo = true)
    (hnb : (unitsOn cfg ops (leadOf cfg)).all (fun u => decide (0 ≤ u.dts + offset cfg (leadOf cfg))) = true) :
    ∀ s rest, unitsOut (runLog (leadOf cfg) st0 [] ops).2 (run st0 ops) (leadOf cfg) = s :: rest → s.sync = true := by
  intro s rest hs
  have hne : cfg.tracks ≠ [] := by
    intro h
    have : (trackCfg cfg (leadOf cfg)).codec.isVideo = false := by simp [trackCfg, h, Codec.isVideo]
    rw [this] at hvid; cases hvid
  have ht : leadOf cfg < cfg.tracks.length := by rw [leadOf_eq_leadingIdx]; exact leadingIdx_lt _ hne
  have h1 := (c01_run_is_accepted cfg st0 ops (leadOf cfg) hstart hv hin hok ht).2
  rw [hs] at h1
  cases ha : accepted cfg ops (leadOf cfg) with
  | nil => rw [ha] at h1; simp at h1
  | cons u us =>
    rw [ha] at h1
    simp only [List.map_cons, List.cons.injEq] at h1
    have hu := ((c01_start_point cfg ops).2 hnb).2 hvid u us ha
    have := congrArg AU.sync h1.1
    simpa [AU.ofSample, shiftAU, hu] using this

/-- MPEG-TS: the PES units of all finished segments (history) followed by those of the open segment are exactly the
accepted calls, in writing order, with pts/dts = `multiplyAndDivide x 90000 rate` (regenerated arithmetic). -/
theorem c01_ts_units (cfg : Cfg) (st0 : State) (ops : List WriteOp)
    (hstart : start cfg = .ok st0) (hv : cfg.variant = .mpegts)
    (hin : InRange cfg ops = true) (hok : AllOk st0 ops = true) :
    (runLog 0 st0 [] ops).1 = run st0 ops ∧
    tsEmitted (runLog 0 st0 [] ops).2 (run st0 ops) = acceptedTs cfg ops :=
  ts_main cfg st0 ops hstart hv hin hok

/-- … and at 90 kHz that rescaling is the identity: no offset for MPEG-TS. -/
theorem c01_ts_identity (x : Int) : Hls.Gen.multiplyAndDivide x 90000 90000 = x := by
  unfold Hls.Gen.multiplyAndDivide
  simp only []
  rw [Int.mul_tdiv_cancel _ (by decide)]
  exact Int.tdiv_mul_add_tmod x 90000

/-! ## Non-vacuity: the hypotheses are met by concrete runs, and `accepted` is not trivial on them
(runs defined in `Hls/Muxer/AcceptExamples.lean`; everything below is evaluated by the kernel). -/
section examples
open Hls.Muxer.Accept.Ex
set_option maxRecDepth 100000

/-- fMP4 audio + video: every hypothesis of the fMP4 theorems holds … -/
example : start cfgA = .ok (stOf cfgA) ∧ cfgA.variant ≠ .mpegts ∧ InRange cfgA opsA = true ∧
    AllOk (stOf cfgA) opsA = true ∧ Monotone cfgA opsA = true ∧ Spread cfgA opsA 0 = true ∧ Spread cfgA opsA 1 = true :=
  ⟨by rfl, by decide, by decide, by rfl, by decide, by decide, by decide⟩
/-- … `accepted` drops something and keeps several on both tracks (video: two units before the first key frame;
audio: two units below −10 s and two that reached their emit point before the video had started) … -/
example : (unitsOn cfgA opsA 1).map (·.pay) = [1, 2, 3, 4, 5, 6, 7, 8, 9, 10, 11] ∧
    (accepted cfgA opsA 1).map (·.pay) = [3, 4, 5, 6, 7, 8, 9, 10, 11] ∧
    (unitsOn cfgA opsA 0).map (·.pay) = [100, 101, 102, 103, 104, 105, 106, 107, 108, 109] ∧
    (accepted cfgA opsA 0).map (·.pay) = [104, 105, 106, 107, 108, 109] := by decide
/-- … the run rotates five segments, two of which have already left the window (the history keeps them) … -/
example : (runLog 1 (stOf cfgA) [] opsA).2.length = 5 ∧ ((run (stOf cfgA) opsA).stream 1).deleteCount = 2 ∧
    ((unitsOut (runLog 1 (stOf cfgA) [] opsA).2 (run (stOf cfgA) opsA) 1).map (·.pay)) = [3, 4, 5, 6, 7, 8, 9, 10, 11] :=
  ⟨by rfl, by rfl, by rfl⟩
/-- … and the theorems apply. -/
example := c01_run_is_accepted cfgA (stOf cfgA) opsA 0 (by rfl) (by decide) (by decide) (by rfl) (by decide)
example := c01_run_is_accepted_decoded cfgA (stOf cfgA) opsA 1 (by rfl) (by decide) (by decide) (by rfl) (by decide)
  (by decide) (by decide)
example := c01_durations cfgA (stOf cfgA) opsA 1 (by rfl) (by decide) (by decide) (by rfl) (by decide)
example := c01_contiguous cfgA (stOf cfgA) opsA 0 (by rfl) (by decide) (by decide) (by rfl) (by decide) (by decide) (by decide)
/-- the fragments of the video track: contiguous base times, first one at (−897000 + 900000) -/
example : (allFragments (runLog 1 (stOf cfgA) [] opsA).2 (run (stOf cfgA) opsA) 1).map (fun p => (p.baseTime, endTime p))
    = [(3000, 100000), (100000, 200000), (200000, 300000), (300000, 400000), (400000, 500000)] := by rfl

/-- Low-Latency video + Opus (parts rotate inside segments; Opus in multi-packet calls) -/
example : start cfgL = .ok (stOf cfgL) ∧ cfgL.variant ≠ .mpegts ∧ InRange cfgL opsL = true ∧
    AllOk (stOf cfgL) opsL = true ∧ Monotone cfgL opsL = true ∧ Spread cfgL opsL 0 = true ∧ Spread cfgL opsL 1 = true :=
  ⟨by rfl, by decide, by decide, by rfl, by decide, by decide, by decide⟩
example : (accepted cfgL opsL 0).map (·.pay) = [2, 3, 4, 5, 6, 7, 8, 9, 10, 11, 12, 13] ∧
    (unitsOn cfgL opsL 1).map (·.pay) = [100, 102, 103, 104, 105, 106, 107] ∧
    (accepted cfgL opsL 1).map (·.pay) = [103, 104, 105, 106, 107] := by decide
example : (fragments (runLog 0 (stOf cfgL) [] opsL).2 (run (stOf cfgL) opsL) 0).map (fun p => p.samples.map (·.pay))
    = [[2, 3, 4, 5], [6, 7, 8, 9], [10, 11], [12]] := by rfl
example := c01_run_is_accepted cfgL (stOf cfgL) opsL 1 (by rfl) (by decide) (by decide) (by rfl) (by decide)
example := c01_contiguous cfgL (stOf cfgL) opsL 0 (by rfl) (by decide) (by decide) (by rfl) (by decide) (by decide) (by decide)

/-- start point: the hypothesis "nothing below −10 s" is met by a run that starts mid-GOP, and fails for `opsA`
(whose video prefix is below −10 s — there the general first conjunct of `c01_start_point` applies) -/
example : leadOf cfgL = 0 ∧
    (unitsOn cfgL (opsL.drop 3) 0).all (fun u => decide (0 ≤ u.dts + offset cfgL 0)) = true ∧
    (unitsOn cfgA opsA 1).all (fun u => decide (0 ≤ u.dts + offset cfgA 1)) = false := by decide

/-- MPEG-TS audio + video: audio before the first accepted video unit is dropped, three segments are finished -/
example : start cfgT = .ok (stOf cfgT) ∧ cfgT.variant = .mpegts ∧ InRange cfgT opsT = true ∧ AllOk (stOf cfgT) opsT = true :=
  ⟨by rfl, by decide, by decide, by rfl⟩
example : (acceptedTs cfgT opsT).map (fun u => (u.track, u.pays)) =
    [(1, [3]), (0, [103, 104]), (1, [4]), (0, [105]), (1, [6]), (0, [107]), (1, [7]), (1, [8]), (0, [108]), (1, [9])] ∧
    (runLog 0 (stOf cfgT) [] opsT).2.length = 3 := ⟨by decide, by rfl⟩
example := c01_start_point_run cfgL (stOf cfgL) (opsL.drop 3) (by rfl) (by decide) (by decide) (by rfl) (by decide) (by decide)
example := c01_ts_units cfgT (stOf cfgT) opsT (by rfl) (by decide) (by decide) (by rfl)

end examples

end Hls.Props.C01
