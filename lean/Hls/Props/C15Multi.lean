import Hls.Playlist.MultiLemmas
import Hls.Playlist.GrammarLemmas
import Hls.Playlist.FloatLemmas
/-!
# C15 (multivariant half) — Playlist decoder is total; encoder output is grammatical M3U8

Property theorems only (helper lemmas live in `Hls/Playlist/{Prim,Multi,Grammar}Lemmas.lean`).

Totality.  Every function of the model is total; each Go operation that can panic (`v[:i]`, `v[i:]`,
`v[0]`, `lines[1]`, `line[len(prefix):]`) is a checked operation whose failure is the outcome
`Err.panic`.  The two loops (`Attributes.Unmarshal`, `Multivariant.Unmarshal`) are defined by
well-founded recursion on the length of the remaining input — Lean accepts the definitions only
with the proofs `attrStep_shrinks` / `readLineSpec_shrinks`+`lineStep_le` that every iteration
consumes input: the loops cannot spin.
-/
namespace Hls.Props.C15Multi
open Hls.Playlist

/-- `c15_no_panic_multi`: for every input, `Multivariant.Unmarshal` terminates (it is a total
    function) and does not panic. -/
theorem c15_no_panic_multi (s : Str) : Multivariant.unmarshal s ≠ .error .panic := unmarshal_noPanic s

/-- the tokenizer on its own (the media decoder calls it too) -/
theorem c15_no_panic_attrs (v : Str) : parseAttrs v ≠ .error .panic := parseAttrs_noPanic v

/-- `ReadLine` never panics -/
theorem c15_no_panic_readline (s : Str) : ∃ l r, readLine s = .ok (l, r) := ⟨_, _, readLine_eq s⟩

/-- every iteration of the tokenizer loop that continues has consumed at least one byte -/
theorem c15_tokenizer_progress {v : Str} {m m' : AttrMap} {rest : Str}
    (h : attrStep v m = .ok (m', some rest)) : rest.length < v.length := attrStep_shrinks h

/-- `playlist.Unmarshal` (kind detection + decoder) does not panic either, whatever the media decoder does
    short of panicking -/
theorem c15_no_panic_playlist {μ : Type} (um : Str → Res μ) (hum : ∀ s, um s ≠ .error .panic) (s : Str) :
    unmarshalPlaylist um s ≠ .error .panic := by
  unfold unmarshalPlaylist
  simp only [bind, Except.bind]
  cases hk : findType s with
  | error e =>
    simp only
    intro he
    cases he
    -- findType fails with io.EOF only
    have := findType_err _ s (Nat.le_refl _) _ hk
    cases this
  | ok k =>
    cases k with
    | multivariant =>
      simp only
      have := unmarshal_noPanic s
      cases hu : Multivariant.unmarshal s with
      | error e => simp only; intro he; apply this; rw [hu]; cases he; rfl
      | ok m => simp [pure, Except.pure]
    | media =>
      simp only
      have := hum s
      cases hu : um s with
      | error e => simp only; intro he; apply this; rw [hu]; cases he; rfl
      | ok m => simp [pure, Except.pure]

/-- `c15_ok_structure_multi`: whenever `Unmarshal` succeeds the value has the structure callers
    index into without checking: at least one variant; every variant has a non-empty URI that is not
    a comment / tag line; every rendition has one of the four known types and a GROUP-ID, URI absent
    for CLOSED-CAPTIONS and present for SUBTITLES, INSTREAM-ID iff CLOSED-CAPTIONS, CHANNELS only
    for AUDIO; a present EXT-X-START has a non-zero offset; the version is in 0…10. -/
theorem c15_ok_structure_multi (s : Str) (p : Multivariant) (h : Multivariant.unmarshal s = .ok p) :
    p.variants ≠ [] ∧
    (∀ v ∈ p.variants, v.uri ≠ [] ∧ v.uri.head? ≠ some '#') ∧
    (∀ r ∈ p.renditions, r.type ∈ renditionTypes ∧ r.groupID ≠ [] ∧
      (r.type = typeClosedCaptions → r.uri = none ∧ r.inStreamID ≠ none) ∧
      (r.type = typeSubtitles → r.uri ≠ none) ∧
      (r.type ≠ typeClosedCaptions → r.inStreamID = none) ∧
      (r.channels ≠ none → r.type = typeAudio)) ∧
    (∀ t, p.start = some t → t.timeOffset ≠ 0) ∧
    (0 ≤ p.version ∧ p.version ≤ 10) := by
  obtain ⟨hne, hv, hs, hvs, hrs⟩ := unmarshal_ok_structure h
  refine ⟨hne, hvs, hrs, ?_, hv⟩
  intro t ht
  rw [ht] at hs
  exact hs

/-- `c15_remarshal_multi`: a successfully decoded value can be marshalled again (`Marshal` has no
    failing operation: the model function is total and has no panic outcome; the only pointer
    dereferences of the Go code are guarded by `!= nil`), and the result starts with the header
    line and carries the decoded version. -/
theorem c15_remarshal_multi (s : Str) (p : Multivariant) (h : Multivariant.unmarshal s = .ok p) :
    ∃ rest : Str, p.marshal = c!"#EXTM3U\n" ++ c!"#EXT-X-VERSION:" ++ natToDigits p.version.toNat ++ '\n' :: rest := by
  obtain ⟨_, ⟨hv0, _⟩, _⟩ := unmarshal_ok_structure h
  unfold Multivariant.marshal
  rw [formatInt_nonneg hv0]
  refine ⟨(if p.independentSegments then c!"#EXT-X-INDEPENDENT-SEGMENTS\n" else [])
    ++ (match p.start with
        | some st => st.marshal
        | none => [])
    ++ (if p.renditions.length ≠ 0 then c!"\n" ++ (p.renditions.map Rendition.marshal).flatten else [])
    ++ c!"\n"
    ++ (p.variants.map Variant.marshal).flatten, ?_⟩
  cases p.start <;> simp

/-- `c15_grammar_multi`: every playlist `Multivariant.Marshal` produces from a valid value parses
    under the independent strict RFC 8216 grammar `Hls.Playlist.Grammar` (`#EXTM3U` first, every tag
    known and only where it is allowed, `once` tags once, attribute names defined for the tag and not
    repeated, required attributes present, every value of the lexical class of its attribute, every
    URI line directly preceded by its EXT-X-STREAM-INF).
    `LexicalOK p`: the one attribute the library passes through verbatim, RESOLUTION, is a
    decimal-resolution. -/
theorem c15_grammar_multi (p : Multivariant) (h : WFMultivariant p) (hl : LexicalOK p) :
    Grammar.acceptsMultivariant p.marshal = true :=
  accepts_marshal h hl (FloatOK_of_envelope floatEnvelope floatEnvelope3 h)

example : ∃ p : Multivariant, WFMultivariant p ∧ LexicalOK p ∧ StartFloatOK p :=
  ⟨{ version := 3, variants := [{ bandwidth := 1, codecs := [c!"avc1"], resolution := c!"1280x720", uri := c!"a.m3u8" }],
     renditions := [{ type := c!"AUDIO", groupID := c!"g", name := c!"n" }] }, by decide, by decide, by decide⟩

/-- the grammar is strict: it rejects what the library's own decoder tolerates -/
example : Grammar.acceptsMultivariant c!"#EXTM3U\n#EXT-X-STREAM-INF:BANDWIDTH=1,BANDWIDTH=2\nu\n" = false := by decide
example : Grammar.acceptsMultivariant c!"#EXTM3U\n#EXT-X-STREAM-INF:BANDWIDTH=1\n" = false := by decide
example : Grammar.acceptsMultivariant c!"#EXTM3U\n#EXT-X-STREAM-INF:BANDWIDTH=1\nu\n" = true := by decide

end Hls.Props.C15Multi
