import Hls.Playlist.Multi
/-!
# C15 (multivariant half) — Playlist decoder is total; encoder output is grammatical M3U8
Property theorems only (helper lemmas live in `Hls/Playlist/*Lemmas*.lean`).
-/
namespace Hls.Props.C15Multi
open Hls.Playlist

end Hls.Props.C15Multi
