import Hls.Pool.LemmasResult
import Hls.Pool.LowLatency
import Hls.Gen.Blocking
/-!
# C12 — Client always terminates cleanly: one error, no leaked goroutines

Property theorems only (helper lemmas: `Hls/Pool/Lemmas*.lean`). The objects the theorems speak
about are REGENERATED from the Go source on every run (`Hls/Gen/Blocking.lean`):

* `Gen.blockingRows` — one row per potentially blocking operation of `client*.go`;
* `Gen.taskGraphs`   — the blocking graph of every runnable kind of the routine pool;
* `Gen.poolSkel`, `Gen.clientSkel` — `clientRoutinePool` and `Client.Start/Close/Wait/run/runInner`.

`params` reads the life-cycle machine's parameters off the skeletons. Theorems about the machine are
stated for every `p` with `p.good` (and `p.wf` where the graphs matter); `params_good` discharges the
hypotheses for the regenerated value by `decide`.
-/
namespace Hls.Props.C12
open Hls.Pool

/-- the life-cycle machine's parameters, read off the regenerated skeletons and graphs -/
def params : Params := paramsOf Hls.Gen.taskGraphs Hls.Gen.poolSkel Hls.Gen.clientSkel

/-! ## Obligations on the regenerated tables (`decide` over genuinely finite tables) -/

/-- Every potentially blocking operation of `client*.go` is attributed to a goroutine, and: in a pool
    goroutine it has an arm on the pool context (select / `<-ctx.Done()` / request context / `ctx` argument
    of the queue methods, on EVERY call path), or is a lock whose critical sections contain no blocking
    operation, or a user callback (trusted to return), or a buffered send covered by the channel's capacity;
    in the goroutine that owns the pool: the select has the `c.ctx.Done()` arm, the single send on `outErr`
    is covered by its capacity. -/
theorem c12_all_blocking_ops_cancellable : ∀ r ∈ Hls.Gen.blockingRows, r.ok = true := by decide

/-- Every extracted graph carries a valid rank certificate: every node is guarded by the pool context
    (or is a tested callback), every arm leads to a node of the graph or to the return of `run`, and
    along cancel arms the rank strictly decreases (the cancel sub-graph is acyclic and ends in `ret`). -/
theorem c12_graphs_ranked : ∀ g ∈ Hls.Gen.taskGraphs, g.ok = true := by decide

/-- The skeletons are the ones the life-cycle machine was written after. -/
theorem skeleton_shape :
    Hls.Gen.poolSkel = expectedPoolSkel ∧ Hls.Gen.clientSkel = expectedClientSkel := by decide

/-- `outErr` has capacity ≥ 1, both arms of `runInner`'s select call `rp.close()` before returning,
    `rp.close()` cancels and then waits, `Close` is a context cancellation; every graph is ranked and the
    primary downloader is one of the kinds. -/
theorem params_good : params.good = true ∧ params.wf = true := by decide

/-- every runnable kind a task can add to the pool has a graph (the machine's spawn steps cover them) -/
theorem c12_spawns_closed :
    ∀ g ∈ Hls.Gen.taskGraphs, ∀ k ∈ g.spawns, (Hls.Gen.taskGraphs.any (fun g' => g'.name = k)) = true := by decide

/-! ## One task after the pool context is cancelled (generic in the graph) -/

/-- A task is never stuck after cancel: at every node a step that needs nothing but the cancelled pool
    context is enabled. -/
theorem cancel_progress {g : TaskGraph} (hok : g.ok = true) {i : Nat} {n : Node} (hn : g.nodes[i]? = some n) :
    ∃ t, CStep g (.node i) false t :=
  Hls.Pool.cancel_progress hok hn

/-- `cancel_terminates`: after cancel a task that performs `n` of its own steps, `d` of which are detours
    (it took another arm of a `select` that happened to be ready as well), has
    `n ≤ maxRank + d·(maxRank+1)`; in particular with no detours it returns within `maxRank ≤ |nodes|` steps. -/
theorem cancel_terminates {g : TaskGraph} (hok : g.ok = true) {t t' : Target} {n d : Nat}
    (hv : g.valid t = true) (h : CRun g t n d t') : n ≤ g.maxRank + d * (g.maxRank + 1) := by
  obtain ⟨k, hk, hle⟩ := valid_rank hv
  obtain ⟨k', _, hb⟩ := crun_bound hok h k hk
  omega

/-- without detours the number of steps is bounded by the rank of the starting point -/
theorem cancel_terminates_quiet {g : TaskGraph} (hok : g.ok = true) {t t' : Target} {n k : Nat}
    (hk : g.rankOf t = some k) (h : CRun g t n 0 t') : n ≤ k := by
  obtain ⟨k', _, hb⟩ := crun_bound hok h k hk
  omega

/-- and the return of `run` IS reached that way (every maximal run along cancel arms ends in `ret`) -/
theorem cancel_reaches_ret {g : TaskGraph} (hok : g.ok = true) {t : Target} {k : Nat} (hk : g.rankOf t = some k) :
    ∃ n r, n ≤ k ∧ CRun g t n 0 (.ret r) :=
  Hls.Pool.cancel_reaches_ret hok k t hk

/-- instance on the regenerated graphs: within 4 own steps without detours, `4 + 5 d` with `d` detours -/
theorem c12_cancel_terminates_gen :
    ∀ g ∈ Hls.Gen.taskGraphs, ∀ (t t' : Target) (n d : Nat), g.valid t = true → CRun g t n d t' → n ≤ 4 + d * 5 := by
  intro g hg t t' n d hv h
  have hok := c12_graphs_ranked g hg
  have hm : g.maxRank ≤ 4 := by
    have : ∀ g ∈ Hls.Gen.taskGraphs, g.maxRank ≤ 4 := by decide
    exact this g hg
  have := cancel_terminates hok hv h
  have h2 : d * (g.maxRank + 1) ≤ d * 5 := Nat.mul_le_mul_left d (by omega)
  omega

/-! ## The pool drains, hence `WaitGroup.Wait` in `clientRoutinePool.close` returns -/

/-- Once the pool context is cancelled: every sequence of quiet steps of the pool's goroutines (cancel arms,
    leaving `run`, giving up the hand-over, `wg.Done()`) has length at most `phi`, and as long as a goroutine
    of the pool is alive another quiet step is enabled. So every maximal quiet execution ends with all
    goroutines of the pool finished within `phi` steps. -/
theorem c12_pool_drains {p : Params} (hw : p.wf = true) {s s' : St} {n : Nat} (hr : Reachable p s)
    (hc : s.poolCancelled = true) (h : QRun p s n s') :
    n ≤ phi p s ∧ (s'.allDone = false → ∃ s'', Quiet p s' s'') := by
  have hv := valid_reachable hw hr
  have hb := qrun_bound hw h hv
  refine ⟨by omega, fun hnd => ?_⟩
  have hr' := qrun_reachable hr h
  exact quiet_progress hw (valid_reachable hw hr') ((qrun_frame h).2.2.2.2.1.trans hc) hnd

/-- … and then `rp.wg.Wait()` returns: the owner of the pool proceeds to the send. -/
theorem c12_wait_returns {p : Params} {s : St} {e : Err} (hr : s.runner = .waitPool e) (hd : s.allDone = true) :
    Step p s { s with runner := .sendResult e } :=
  .runnerWait hr (fun _ => hd)

/-- After `Close` the client is never stuck before the result is sent: some step of the owner of the pool
    or a quiet step of a pool goroutine is enabled (no deadlock; with `c12_pool_drains` the result is sent
    after boundedly many such steps). -/
theorem c12_no_deadlock_after_close {p : Params} (hg : p.good = true) (hw : p.wf = true) {s : St}
    (hr : Reachable p s) (hc : s.clientCancelled = true) (hnd : s.runner ≠ .done) :
    (∃ s', Step p s s' ∧ s'.runner ≠ s.runner) ∨ (∃ s', Quiet p s s') := by
  have hi := inv_reachable hg hr
  obtain ⟨hcap, _, _, _, _, _⟩ := good_iff.mp hg
  cases hrun : s.runner with
  | idle => exact absurd hrun hi.started
  | init => exact Or.inl ⟨_, .runnerInit hrun, by simp⟩
  | select => exact Or.inl ⟨_, .runnerCtx hrun hc, by simp [afterSelect]; split <;> simp⟩
  | cancelPool e => exact Or.inl ⟨_, .runnerCancel hrun, by simp⟩
  | waitPool e =>
    cases hd : s.allDone with
    | true => exact Or.inl ⟨_, c12_wait_returns hrun hd, by simp⟩
    | false => exact Or.inr (quiet_progress hw (valid_reachable hw hr) (hi.wait_cancelled e (Or.inl hrun)) hd)
  | sendResult e =>
    have := (hi.not_done_empty hnd).1
    exact Or.inl ⟨_, .runnerSend hrun (by rw [this]; exact hcap), by simp⟩
  | done => exact absurd hrun hnd

/-! ## Exactly one result, after the pool is empty, nothing afterwards -/

/-- `c12_single_result`: in every reachable state at most one error has been produced (buffered or
    received); when it exists the owner goroutine has finished, NO goroutine of the pool is alive, no user
    callback has run (or will run: this holds in every later state too) after it was sent, and a second
    receive from `Wait()` blocks (`outErr` is empty once the error has been received). -/
theorem c12_single_result {p : Params} (hg : p.good = true) {s : St} (hr : Reachable p s) :
    s.received.length + s.outErr.length ≤ 1 ∧ s.cbAfter = 0 ∧
    (s.received ++ s.outErr ≠ [] → s.runner = .done ∧ s.allDone = true ∧ s.poolCancelled = true) ∧
    (s.received ≠ [] → s.outErr = []) := by
  have hi := inv_reachable hg hr
  by_cases hd : s.runner = .done
  · obtain ⟨e, he, _⟩ := hi.done_result hd
    have hlen : s.received.length + s.outErr.length = 1 := by
      have := congrArg List.length he
      simpa using this
    refine ⟨by omega, hi.cb, fun _ => ⟨hd, hi.done_tasks (Or.inl hd), hi.done_cancelled hd⟩, fun hne => ?_⟩
    cases hrec : s.received with
    | nil => exact absurd hrec hne
    | cons a l =>
      rw [hrec] at hlen
      simp at hlen
      exact List.eq_nil_of_length_eq_zero (by omega)
  · obtain ⟨h1, h2⟩ := hi.not_done_empty hd
    refine ⟨by simp [h1, h2], hi.cb, fun h => absurd (by simp [h1, h2]) h, fun _ => h1⟩

/-- `c12_first_error_wins`: the error `Wait()` yields is the ONE error handed over on `rp.err` (at most one
    is ever handed over; it was returned by `run` of a pool task), or it is the termination error and then
    `Close` has been called and nothing was handed over. -/
theorem c12_first_error_wins {p : Params} (hg : p.good = true) {s : St} (hr : Reachable p s) :
    s.delivered.length ≤ 1 ∧ (∀ e ∈ s.delivered, e ∈ s.returned) ∧
    ∀ e ∈ s.received ++ s.outErr,
      (s.delivered = [e] ∧ e ∈ s.returned) ∨ (s.delivered = [] ∧ e = .terminated ∧ s.clientCancelled = true) := by
  have hi := inv_reachable hg hr
  refine ⟨?_, hi.delivered_returned, ?_⟩
  · have hc : ∀ e, Carried s e → s.delivered.length ≤ 1 := by
      intro e h
      rcases h with h | ⟨h, _⟩ <;> simp [h]
    cases hrun : s.runner with
    | idle => exact absurd hrun hi.started
    | init => simp [(hi.init_tasks hrun).2]
    | select => simp [hi.sel_delivered hrun]
    | cancelPool e => exact hc e (hi.carried e (Or.inl hrun))
    | waitPool e => exact hc e (hi.carried e (Or.inr (Or.inl hrun)))
    | sendResult e => exact hc e (hi.carried e (Or.inr (Or.inr hrun)))
    | done => obtain ⟨e, _, h⟩ := hi.done_result hrun; exact hc e h
  · intro e he
    by_cases hd : s.runner = .done
    · obtain ⟨e0, he0, hc⟩ := hi.done_result hd
      rw [he0] at he
      have : e = e0 := by simpa using he
      subst this
      rcases hc with h | h
      · exact Or.inl ⟨h, hi.delivered_returned e (by simp [h])⟩
      · exact Or.inr h
    · obtain ⟨h1, h2⟩ := hi.not_done_empty hd
      simp [h1, h2] at he

/-- `c12_close_idempotent`: from `Start` onward `Close` may be called at any moment, any number of times:
    it is always enabled, never panics (a context cancel function is idempotent — `Client.Close` is
    `c.ctxCancel()`, pinned by `skeleton_shape`), and leaves the client in a reachable state (so every other
    theorem of this file keeps holding after it). -/
theorem c12_close_idempotent {p : Params} (hg : p.good = true) {s : St} (hr : Reachable p s) :
    s.panicked = false ∧
    ∃ s', Step p s s' ∧ Reachable p s' ∧ s'.closeCalls = s.closeCalls + 1 ∧ s'.clientCancelled = true ∧ s'.panicked = false := by
  have hi := inv_reachable hg hr
  refine ⟨hi.nopanic, _, .close hi.started, .step hr (.close hi.started), rfl, rfl, ?_⟩
  exact (inv_reachable hg (.step hr (.close hi.started))).nopanic

/-- The truth about the two neighbouring cases. If `Close` were `close(ch)` instead of a context
    cancellation, the second `Close` would panic; and on the code as it is, `Close` BEFORE `Start` panics
    (`c.ctxCancel` is nil) — outside the property ("from Start onward"), recorded in the notes. -/
theorem c12_close_panics_elsewhere :
    (∃ s, Reachable { params with closeKind := .closeChan } s ∧ s.panicked = true) ∧
    (∃ s, Reachable0 params s ∧ s.panicked = true) := by
  constructor
  · refine ⟨_, .step (.step .start (.close (by simp))) (.close (by simp)), ?_⟩
    simp
  · exact ⟨_, .step .zero (.closeBeforeStart rfl), rfl⟩

/-- `c12_ontracks_error_surfaces` (with the HTTP failures): in the regenerated graphs the failing arm of
    every tested user callback (`OnTracks`) leads straight to `return err` of `run` (class `callback`), the
    failing and the cancelled arm of every `httpClient.Do` / body read lead straight to `return err` (class
    `io`); whenever `run` of a task has returned an error `e` while the owner of the pool waits in its
    `select`, the owner can take it and then `Wait()` yields exactly `e`; and if `Close` is never called the
    error `Wait()` yields is always such a task error (never the termination error). -/
theorem c12_ontracks_error_surfaces :
    (∀ g ∈ Hls.Gen.taskGraphs, ∀ n ∈ g.nodes, n.kind = .callback →
        ∀ a ∈ n.arms, a.kind = .fail → a.next = [.ret .callback]) ∧
    (∃ g ∈ Hls.Gen.taskGraphs, ∃ n ∈ g.nodes, n.kind = .callback ∧
        (Hls.Gen.blockingRows[n.row]?).map (·.what) = some "c.OnTracks") ∧
    (∀ g ∈ Hls.Gen.taskGraphs, ∀ n ∈ g.nodes, (n.kind = .httpDo ∨ n.kind = .bodyRead) →
        ∀ a ∈ n.arms, (a.kind = .fail ∨ a.kind = .ctxDone .pool) → a.next = [.ret .io]) ∧
    (∀ {p : Params}, p.good = true → p.wf = true → ∀ {s : St} {pre post : List Task} {k : Nat} {r : RetK} {e : Err},
        Reachable p s → s.runner = .select → s.tasks = pre ++ ⟨k, .at (.ret r)⟩ :: post → r.toErr = some e →
        ∃ s', Reachable p s' ∧ s'.received = [e] ∧ s'.outErr = [] ∧ s'.delivered = [e]) ∧
    (∀ {p : Params}, p.good = true → ∀ {s : St}, Reachable p s → s.closeCalls = 0 →
        ∀ e ∈ s.received ++ s.outErr, s.delivered = [e] ∧ e ∈ s.returned) := by
  refine ⟨by decide, by decide, by decide, ?_, ?_⟩
  · intro p hg hw s pre post k r e hr hsel hts hre
    exact result_from_returned hg hw hr hsel hts hre
  · intro p hg s hr hcc e he
    have hcl : ∀ {s : St}, Reachable p s → s.clientCancelled = true → 1 ≤ s.closeCalls := by
      intro s h
      induction h with
      | start => intro h; cases h
      | step _ hs ih =>
        cases hs <;> simp_all <;> omega
    rcases (c12_first_error_wins hg hr).2.2 e he with h | ⟨_, _, h⟩
    · exact h
    · have := hcl hr h
      omega

/-- After `Close` the client can always finish: from every reachable state in which `Close` has been
    called an execution leads to a state where `Wait()` has exactly one error to yield (with
    `c12_no_deadlock_after_close` and `c12_pool_drains`: it cannot get stuck on the way, and the pool's part
    of the way is bounded). -/
theorem c12_close_can_finish {p : Params} (hg : p.good = true) (hw : p.wf = true) {s : St}
    (hr : Reachable p s) (hc : s.clientCancelled = true) :
    ∃ s' e, Reachable p s' ∧ s'.received ++ s'.outErr = [e] := by
  have hi := inv_reachable hg hr
  obtain ⟨hcap, _, _, _, _, _⟩ := good_iff.mp hg
  cases hrun : s.runner with
  | idle => exact absurd hrun hi.started
  | init =>
    have r1 : Reachable p _ := .step hr (.runnerInit hrun)
    obtain ⟨s', h1, h2, h3⟩ := result_after_close hg hw r1 rfl hc
    exact ⟨s', .terminated, h1, by simp [h2, h3]⟩
  | select =>
    obtain ⟨s', h1, h2, h3⟩ := result_after_close hg hw hr hrun hc
    exact ⟨s', .terminated, h1, by simp [h2, h3]⟩
  | cancelPool e =>
    have r1 : Reachable p _ := .step hr (.runnerCancel hrun)
    obtain ⟨s', h1, h2, h3, _⟩ := result_from_waitPool hg hw r1 (e := e) rfl
    exact ⟨s', e, h1, by simp [h2, h3]⟩
  | waitPool e =>
    obtain ⟨s', h1, h2, h3, _⟩ := result_from_waitPool hg hw hr hrun
    exact ⟨s', e, h1, by simp [h2, h3]⟩
  | sendResult e =>
    have hemp := hi.not_done_empty (by simp [hrun])
    have r1 : Reachable p _ := .step hr (.runnerSend hrun (by rw [hemp.1]; exact hcap))
    exact ⟨_, e, r1, by simp [hemp.1, hemp.2]⟩
  | done =>
    obtain ⟨e, he, _⟩ := hi.done_result hrun
    exact ⟨s, e, hr, he⟩

/-! ## The Low-Latency loop (`runLowLatency`: preload hints and playlist reloads) -/

/-- the stream downloader's graph among the regenerated ones -/
def downloaderGraph : TaskGraph :=
  (Hls.Gen.taskGraphs.find? (fun g => g.name = "clientStreamDownloader")).getD default

/-- `c12_ll_loop_cancellable`: the regenerated graph of the stream downloader contains the Low-Latency loop
    (preload-hint request → its body → playlist reload → its body → next hint, or the fatal "preload hint
    disappeared", or — fix-F28 — the end of the stream: `push(nil)` and the wait `<-ctx.Done()`), exactly once;
    each of its four blocking I/O operations has the pool-context arm, and that arm and the failing arm lead straight
    to `return err` of `run` (class `io`); the end-of-stream wait is a receive on the POOL context only, followed by
    the return (class `terminated`). (On the upstream tree the loop has no end-of-stream wait and is not found.) -/
theorem c12_ll_loop_cancellable :
    downloaderGraph ∈ Hls.Gen.taskGraphs ∧ downloaderGraph.name = "clientStreamDownloader" ∧
    (llLoops Hls.Gen.blockingRows downloaderGraph).length = 1 ∧
    ∀ l ∈ llLoops Hls.Gen.blockingRows downloaderGraph, l.ok downloaderGraph = true := by decide

/-- `c12_ll_cancel_returns`: a stream downloader that is inside a preload-hint request (held by the origin until the
    part exists), reading its body, inside a (blocking) playlist reload or reading it, when the pool context is
    cancelled: the step it can always take ends `run` — one own step, no further blocking operation on the way — and
    in general (other arms being ready as well, `d` detours) it returns within `1 + 2 d` own steps. -/
theorem c12_ll_cancel_returns :
    ∀ l ∈ llLoops Hls.Gen.blockingRows downloaderGraph, ∀ i ∈ l.nodes,
      (∃ t, CStep downloaderGraph (.node i) false t) ∧
      (∀ t, CStep downloaderGraph (.node i) false t → t = .ret .io) ∧
      (∀ t n d, CRun downloaderGraph (.node i) n d t → n ≤ 1 + d * 2) := by
  intro l hl i hi
  have hok : downloaderGraph.ok = true := c12_graphs_ranked _ c12_ll_loop_cancellable.1
  have hlok := c12_ll_loop_cancellable.2.2.2 l hl
  have hnode : llNodeOk downloaderGraph i = true :=
    List.all_eq_true.mp (Bool.and_eq_true _ _ ▸ hlok : _ ∧ _).1 i hi
  have hm : downloaderGraph.maxRank = 1 := by decide
  cases hn : downloaderGraph.nodes[i]? with
  | none => simp [llNodeOk, hn] at hnode
  | some n =>
    refine ⟨Hls.Pool.cancel_progress hok hn, fun t ht => ll_cancel_returns hlok hi ht, fun t k d hrun => ?_⟩
    have hv : downloaderGraph.valid (.node i) = true := by simp [TaskGraph.valid, TaskGraph.rankOf, hn]
    have := cancel_terminates hok hv hrun
    rw [hm] at this
    omega

/-- `c12_ll_eos_wait_cancellable`: a stream downloader whose Low-Latency stream has ended (nil marker pushed, parked
    in `<-ctx.Done()`) is not stuck for ever: the wait is guarded by the pool context, every step it can take —
    there is one as soon as the pool is cancelled, i.e. when `ErrClientEOS` or any other result makes `Client.run`
    close the pool, or on `Close` — is the return of `run`; it returns within one own step. -/
theorem c12_ll_eos_wait_cancellable :
    ∀ l ∈ llLoops Hls.Gen.blockingRows downloaderGraph,
      (∃ t, CStep downloaderGraph (.node l.eosWait) false t) ∧
      (∀ b t, CStep downloaderGraph (.node l.eosWait) b t → t = .ret .terminated) ∧
      (∀ t n d, CRun downloaderGraph (.node l.eosWait) n d t → n ≤ 1 + d * 2) := by
  intro l hl
  have hok : downloaderGraph.ok = true := c12_graphs_ranked _ c12_ll_loop_cancellable.1
  have hlok := c12_ll_loop_cancellable.2.2.2 l hl
  have hm : downloaderGraph.maxRank = 1 := by decide
  have heos : llEosOk downloaderGraph l.eosWait = true := (Bool.and_eq_true _ _ ▸ hlok : _ ∧ _).2
  cases hn : downloaderGraph.nodes[l.eosWait]? with
  | none => simp [llEosOk, hn] at heos
  | some n =>
    refine ⟨Hls.Pool.cancel_progress hok hn, fun b t ht => ll_eos_cancel_returns hlok ht, fun t k d hrun => ?_⟩
    have hv : downloaderGraph.valid (.node l.eosWait) = true := by simp [TaskGraph.valid, TaskGraph.rankOf, hn]
    have := cancel_terminates hok hv hrun
    rw [hm] at this
    omega

/-! ## Non-vacuity: concrete executions of the machine on the REGENERATED graphs
(schedules for `Hls.Pool.next`, which only takes steps of `Step`: `next_sound`) -/

/-- transport error on the first request: primary → `run` returns → hand-over → close → wait → send → receive -/
def schedIoError : List Label :=
  [.runner, .begin 0 0, .arm 0 1 0, .ret 0, .runnerRecvErr 0, .runner, .runner, .runner, .recv]

example : (runLabels params schedIoError { runner := .init }).map
    (fun s => (s.received, s.outErr, s.delivered, s.allDone, s.cbAfter)) = some ([.io], [], [.io], true, 0) := by decide

/-- `OnTracks` returns an error: playlist → body → tracks → callback fails → that error is the result -/
def schedOnTracksError : List Label :=
  [.runner, .begin 0 0, .arm 0 0 0, .arm 0 0 1, .arm 0 1 0, .ret 0, .runnerRecvErr 0, .runner, .runner, .runner, .recv]

example : (runLabels params schedOnTracksError { runner := .init }).map
    (fun s => (s.received, s.closeCalls)) = some ([.callback], 0) := by decide

/-- `Close` three times while a stream downloader is inside a request: both goroutines of the pool take their
    cancel arms, the pool drains, exactly one `terminated` -/
def schedCloseDuringDownload : List Label :=
  [.runner, .begin 0 0, .arm 0 0 0, .arm 0 0 0, .spawn 0 1, .begin 1 0, .close, .close, .close, .runnerCtx, .runner,
   .arm 0 1 0, .arm 1 2 0, .ret 0, .ret 1, .giveUp 0, .giveUp 1, .runner, .runner, .recv]

example : (runLabels params schedCloseDuringDownload { runner := .init }).map
    (fun s => (s.received, s.outErr, s.delivered, s.closeCalls, s.panicked, s.allDone)) =
    some ([.terminated], [], [], 3, false, true) := by decide

/-- a reachable state with the pool cancelled and two live goroutines (hypotheses of `c12_pool_drains`) -/
example : ∃ s, Reachable params s ∧ s.poolCancelled = true ∧ s.allDone = false ∧ s.clientCancelled = true := by
  have h : (runLabels params (schedCloseDuringDownload.take 11) { runner := .init }).map
      (fun s => (s.poolCancelled, s.allDone, s.clientCancelled)) = some (true, false, true) := by decide
  cases hs : runLabels params (schedCloseDuringDownload.take 11) { runner := .init } with
  | none => simp [hs] at h
  | some s =>
    simp only [hs, Option.map_some, Option.some.injEq, Prod.mk.injEq] at h
    exact ⟨s, runLabels_reachable _ .start hs, h.1, h.2.1, h.2.2⟩

/-- `good` is not vacuous, and each of its clauses is needed: without `rp.close()` before the return on the
    error arm the machine reaches a state where the result is out while a goroutine of the pool is alive and a
    user callback runs after it -/
example : ∃ s, Reachable { params with closeOnErr := false } s ∧ s.received ≠ [] ∧ s.allDone = false ∧ 0 < s.cbAfter := by
  have h : (runLabels { params with closeOnErr := false }
      [.runner, .begin 0 0, .arm 0 0 0, .arm 0 0 0, .spawn 0 1, .begin 1 0, .arm 1 1 0, .ret 1, .runnerRecvErr 1, .runner, .recv, .callback 0]
      { runner := .init }).map (fun s => (s.received, s.allDone, s.cbAfter)) = some ([.io], false, 1) := by decide
  cases hs : runLabels { params with closeOnErr := false }
      [.runner, .begin 0 0, .arm 0 0 0, .arm 0 0 0, .spawn 0 1, .begin 1 0, .arm 1 1 0, .ret 1, .runnerRecvErr 1, .runner, .recv, .callback 0]
      { runner := .init } with
  | none => simp [hs] at h
  | some s =>
    simp only [hs, Option.map_some, Option.some.injEq, Prod.mk.injEq] at h
    exact ⟨s, runLabels_reachable _ .start hs, by simp [h.1], h.2.1, by simp [h.2.2]⟩

/-- … and with an unbuffered `outErr` the owner goroutine cannot finish before somebody receives -/
example : (runLabels { params with outErrCap := 0 } (schedIoError.take 8) { runner := .init }) = none ∧
    ((runLabels { params with outErrCap := 0 } (schedIoError.take 7) { runner := .init }).map (·.runner)) = some (.sendResult .io) := by
  decide

/-- Low-Latency: `Close` twice while the stream downloader is inside a preload-hint request the origin holds: the
    downloader takes the cancel arm of that request and returns, the primary downloader likewise, exactly one
    `terminated` -/
def schedCloseDuringHint : List Label :=
  [.runner, .begin 0 0, .arm 0 0 0, .arm 0 0 0, .spawn 0 1, .begin 1 2, .close, .close, .runnerCtx, .runner,
   .arm 0 1 0, .arm 1 2 0, .ret 0, .ret 1, .giveUp 0, .giveUp 1, .runner, .runner, .recv]

example : (llLoops Hls.Gen.blockingRows downloaderGraph).map (·.hint) = [2] ∧
    downloaderGraph.entry[2]? = some (.node 2) := by decide

example : (runLabels params schedCloseDuringHint { runner := .init }).map
    (fun s => (s.received, s.delivered, s.returned, s.closeCalls, s.panicked, s.allDone)) =
    some ([.terminated], [], [.terminated, .io], 2, false, true) := by decide

/-- Low-Latency, fix-F28: the stream ENDS — hint, its body, reload, its body: ENDLIST and no hint; the downloader
    pushes the nil marker and parks in `<-ctx.Done()`; the primary downloader sees the stream ended and returns
    `ErrClientEOS`; `Client.run` closes the pool, the parked downloader returns; exactly one result: `eos` -/
def schedLLEndOfStream : List Label :=
  [.runner, .begin 0 0, .arm 0 0 0, .arm 0 0 0, .spawn 0 1, .begin 1 2, .arm 1 0 0, .arm 1 0 0, .arm 1 0 0, .arm 1 0 1,
   .arm 0 0 1, .arm 0 0 1, .arm 0 0 1, .ret 0, .runnerRecvErr 0, .runner, .arm 1 0 0, .ret 1, .giveUp 1, .runner, .runner, .recv]

example : (llLoops Hls.Gen.blockingRows downloaderGraph).map (·.eosWait) = [13] := by decide

example : (runLabels params schedLLEndOfStream { runner := .init }).map
    (fun s => (s.received, s.delivered, s.returned, s.allDone, s.cbAfter)) =
    some ([.eos], [.eos], [.eos, .terminated], true, 0) := by decide

/-- Low-Latency: the origin stops advertising a hint WITHOUT ending the playlist — hint, its body, reload, its body,
    then `return fmt.Errorf("preload hint disappeared")` is the first fatal error and what `Wait()` yields -/
def schedHintDisappears : List Label :=
  [.runner, .begin 0 0, .arm 0 0 0, .arm 0 0 0, .spawn 0 1, .begin 1 2, .arm 1 0 0, .arm 1 0 0, .arm 1 0 0, .arm 1 0 2,
   .ret 1, .runnerRecvErr 1, .runner, .arm 0 1 0, .ret 0, .giveUp 0, .runner, .runner, .recv]

example : (runLabels params schedHintDisappears { runner := .init }).map
    (fun s => (s.received, s.delivered, s.allDone, s.cbAfter)) = some ([.other], [.other], true, 0) := by decide

end Hls.Props.C12
