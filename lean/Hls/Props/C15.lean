import Hls.Playlist.MediaStructure
import Hls.Playlist.MediaNear
import Hls.Playlist.MediaGrammar
/-!
# C15 — Playlist decoder is total; encoder output is grammatical M3U8 (MEDIA playlists)

Property theorems only; helper lemmas live in `Hls/Playlist/Media*.lean`.

Totality is meaningful because the model makes every Go operation that can panic explicit
(`sliceFrom` / `sliceTo` = `s[n:]` / `s[:n]`, `idx` = `xs[i]`) and runs its two loops (line loop,
attribute tokenizer) on fuel whose exhaustion is reported as `panic` as well.  The three theorems
about the decoder hold for EVERY codec `C` (any behaviour of `ParseFloat` / `time.Parse`).
-/
namespace Hls.Props.C15
open Hls.Playlist.MP

/-- **Totality.** `Media.Unmarshal` never panics and never busy-loops, on arbitrary bytes. -/
theorem c15_no_panic (C : Codec) (buf : Str) : Media.unmarshal C buf ≠ .panic :=
  Media.unmarshal_noPanic C buf

/-- the two loops never run out of the fuel `length + 1` they are given -/
theorem c15_loops_terminate (C : Codec) (s : Str) (st : St) (a : Attrs) :
    loop C (s.length + 1) st s ≠ .panic ∧ attrsLoop (s.length + 1) s a ≠ .panic :=
  ⟨loop_noPanic C _ st s (by omega), attrsLoop_noPanic _ s a (by omega)⟩

/-- **Structure.** Whenever decoding succeeds the value has the structure callers index into
without checking: at least one segment; every segment with a non-empty URI and a non-zero
duration; a non-zero target duration; every part (inside segments and trailing) with a non-zero
duration and a non-empty URI; a non-zero part target; map and preload hint with a URI; a non-zero
start offset. -/
theorem c15_ok_structure (C : Codec) (buf : Str) (m : Media) (h : Media.unmarshal C buf = .ok m) :
    m.segments ≠ [] ∧
    (∀ s ∈ m.segments, s.uri ≠ [] ∧ s.duration ≠ 0 ∧ ∀ p ∈ s.parts, p.duration ≠ 0 ∧ p.uri ≠ []) ∧
    m.targetDuration ≠ 0 ∧
    (∀ p ∈ m.parts, p.duration ≠ 0 ∧ p.uri ≠ []) ∧
    (∀ t, m.partInf = some t → t ≠ 0) ∧
    (∀ t, m.map = some t → t.uri ≠ []) ∧
    (∀ t, m.preloadHint = some t → t.uri ≠ []) ∧
    (∀ t, m.start = some t → t ≠ 0) := by
  have hs := Media.unmarshal_structured C h
  exact ⟨hs.hasSegment, fun s hmem => ⟨(hs.segs s hmem).2.1, (hs.segs s hmem).1, (hs.segs s hmem).2.2⟩, hs.target,
    hs.parts, hs.partInf, hs.map, hs.hint, hs.start⟩

/-- **Re-marshal.** A successfully decoded value can be marshaled again (`Media.marshal` is a total
function on model values: no step of it can fail), the text starts with the header, and decoding
that text again cannot panic. -/
theorem c15_remarshal (C : Codec) (buf : Str) (m : Media) (_ : Media.unmarshal C buf = .ok m) :
    ∃ text, Media.marshal C m = cs!"#EXTM3U\n" ++ text ∧ Media.unmarshal C (Media.marshal C m) ≠ .panic := by
  refine ⟨unlines (Media.lines C m), ?_, Media.unmarshal_noPanic C _⟩
  rw [Media.marshal_eq]
  simp [unlines]

/-- a decoded value exists (non-vacuity of the three theorems above) -/
example : Media.unmarshal Codec.exact cs!"#EXTM3U\n#EXT-X-TARGETDURATION:2\n#EXTINF:2.00000,\nu\n" =
    .ok { targetDuration := 2, segments := [{ duration := 2000000000, uri := cs!"u" }] } := by decide

/-- regression witness: the guard the structure clause rests on — `EXTINF:0` is rejected -/
example : Media.unmarshal Codec.exact cs!"#EXTM3U\n#EXT-X-TARGETDURATION:2\n#EXTINF:0.00000,\nu\n" = .err := by decide

end Hls.Props.C15
