import Hls.Playlist.MediaModel
namespace Hls.Props.C15
end Hls.Props.C15
