import Hls.Playlist.MediaStructure
import Hls.Playlist.MediaNear
import Hls.Playlist.MediaGrammarTime
import Hls.Playlist.MediaFloat
/-!
# C15 — Playlist decoder is total; encoder output is grammatical M3U8 (MEDIA playlists)

Property theorems only; helper lemmas live in `Hls/Playlist/Media*.lean`.

Totality is meaningful because the model makes every Go operation that can panic explicit
(`sliceFrom` / `sliceTo` = `s[n:]` / `s[:n]`, `idx` = `xs[i]`) and runs its two loops (line loop,
attribute tokenizer) on fuel whose exhaustion is reported as `panic` as well.  The three theorems
about the decoder hold for EVERY codec `C` (any behaviour of `ParseFloat` / `time.Parse`).
-/
namespace Hls.Props.C15
open Hls.Playlist.MP

/-- **Totality.** `Media.Unmarshal` never panics and never busy-loops, on arbitrary bytes. -/
theorem c15_no_panic (C : Codec) (buf : Str) : Media.unmarshal C buf ≠ .panic :=
  Media.unmarshal_noPanic C buf

/-- the two loops never run out of the fuel `length + 1` they are given -/
theorem c15_loops_terminate (C : Codec) (s : Str) (st : St) (a : Attrs) :
    loop C (s.length + 1) st s ≠ .panic ∧ attrsLoop (s.length + 1) s a ≠ .panic :=
  ⟨loop_noPanic C _ st s (by omega), attrsLoop_noPanic _ s a (by omega)⟩

/-- **Structure.** Whenever decoding succeeds the value has the structure callers index into
without checking: at least one segment; every segment with a non-empty URI and a non-zero
duration; a non-zero target duration; every part (inside segments and trailing) with a non-zero
duration and a non-empty URI; a non-zero part target; map and preload hint with a URI; a non-zero
start offset. -/
theorem c15_ok_structure (C : Codec) (buf : Str) (m : Media) (h : Media.unmarshal C buf = .ok m) :
    m.segments ≠ [] ∧
    (∀ s ∈ m.segments, s.uri ≠ [] ∧ s.duration ≠ 0 ∧ ∀ p ∈ s.parts, p.duration ≠ 0 ∧ p.uri ≠ []) ∧
    m.targetDuration ≠ 0 ∧
    (∀ p ∈ m.parts, p.duration ≠ 0 ∧ p.uri ≠ []) ∧
    (∀ t, m.partInf = some t → t ≠ 0) ∧
    (∀ t, m.map = some t → t.uri ≠ []) ∧
    (∀ t, m.preloadHint = some t → t.uri ≠ []) ∧
    (∀ t, m.start = some t → t ≠ 0) := by
  have hs := Media.unmarshal_structured C h
  exact ⟨hs.hasSegment, fun s hmem => ⟨(hs.segs s hmem).2.1, (hs.segs s hmem).1, (hs.segs s hmem).2.2⟩, hs.target,
    hs.parts, hs.partInf, hs.map, hs.hint, hs.start⟩

/-- **Re-marshal.** A successfully decoded value can be marshaled again (`Media.marshal` is a total
function on model values: no step of it can fail), the text starts with the header, and decoding
that text again cannot panic. -/
theorem c15_remarshal (C : Codec) (buf : Str) (m : Media) (_ : Media.unmarshal C buf = .ok m) :
    ∃ text, Media.marshal C m = cs!"#EXTM3U\n" ++ text ∧ Media.unmarshal C (Media.marshal C m) ≠ .panic := by
  refine ⟨unlines (Media.lines C m), ?_, Media.unmarshal_noPanic C _⟩
  rw [Media.marshal_eq]
  simp [unlines]

/-- a decoded value exists (non-vacuity of the three theorems above) -/
example : Media.unmarshal Codec.exactGo cs!"#EXTM3U\n#EXT-X-TARGETDURATION:2\n#EXTINF:2.00000,\nu\n" =
    .ok { targetDuration := 2, segments := [{ duration := 2000000000, uri := cs!"u" }] } := by decide

/-- regression witness: the guard the structure clause rests on — `EXTINF:0` is rejected -/
example : Media.unmarshal Codec.exactGo cs!"#EXTM3U\n#EXT-X-TARGETDURATION:2\n#EXTINF:0.00000,\nu\n" = .err := by decide

/-! ## encoder output is grammatical

`Hls.Playlist.MG.accepts` (`Hls/Playlist/MediaGrammar.lean`) is a strict recogniser of media
playlists written from RFC 8216 §4 / 8216bis, independent of the decoder: `#EXTM3U` first, only
media-playlist tags, each at most where and as often as it is allowed, attribute lists with known,
unique, correctly typed attributes, every URI line preceded by exactly one EXTINF.
`accepts false` is the strict dialect, `accepts true` additionally tolerates an unquoted
`BYTERANGE=n[@o]` on EXT-X-MAP / EXT-X-PART. -/

open Hls.Playlist.MG in
/-- **Grammar.** The output of `Media.marshal` on any well-formed value is accepted.  In the strict
dialect this needs that no EXT-X-MAP / EXT-X-PART carries a byte range (finding F17: the library
writes that attribute unquoted, RFC 8216 §4.3.2.5 and 8216bis §4.4.4.9 want a quoted-string).
`TimeGrammatical C` says that the codec's date-time text is an RFC 3339 date-time. -/
theorem c15_grammar (C : Codec) (hC : C.Valid) (hT : TimeGrammatical C) (L : Bool) (p : Media) (hw : WFMedia p)
    (hL : L = true ∨ NoAttrByteRange p) : accepts L (Media.marshal C p) = true :=
  grammar_accepts hC L hT p hw hL

open Hls.Playlist.MG in
/-- the tolerant dialect accepts every marshaled well-formed value -/
theorem c15_grammar_lenient (C : Codec) (hC : C.Valid) (hT : TimeGrammatical C) (p : Media) (hw : WFMedia p) :
    accepts true (Media.marshal C p) = true :=
  c15_grammar C hC hT true p hw (Or.inl rfl)

open Hls.Playlist.MG in
/-- the strict dialect accepts it when no attribute byte range is present -/
theorem c15_grammar_strict (C : Codec) (hC : C.Valid) (hT : TimeGrammatical C) (p : Media) (hw : WFMedia p)
    (hb : NoAttrByteRange p) : accepts false (Media.marshal C p) = true :=
  c15_grammar C hC hT false p hw (Or.inr hb)

open Hls.Playlist.MG in
/-- the hypotheses are jointly satisfiable, with the real Go time layout -/
theorem c15_codec_exists : Codec.exactGo.Valid ∧ TimeGrammatical Codec.exactGo :=
  ⟨Codec.exactGo_valid, go_TimeGrammatical Codec.exact⟩

open Hls.Playlist.MG in
/-- **No assumption left for the codec the driver runs** (`Codec.prim`: proven float envelope, proven Go
time layout): its `Marshal` output of every well-formed value is accepted. -/
theorem c15_grammar_driver (p : Media) (hw : WFMedia p) : accepts true (Media.marshal Codec.prim p) = true :=
  c15_grammar Codec.prim Codec.prim_valid (go_TimeGrammatical Codec.prim) true p hw (Or.inl rfl)

open Hls.Playlist.MG in
/-- `TimeGrammatical` is PROVED for the Go layout: `Time.Format` output of a well-formed time is a
date-time of the grammar.  So for the driver's codec only the float envelope is assumed. -/
theorem c15_grammar_go (hE : IeeeEnvelope) (p : Media) (hw : WFMedia p) :
    accepts true (Media.marshal Codec.go p) = true :=
  c15_grammar Codec.go (Codec.go_valid hE) (go_TimeGrammatical Codec.go) true p hw (Or.inl rfl)

/-- the Go layout on samples ("test", not an obligation): `Time.Format` output is a date-time of the grammar -/
example : Hls.Playlist.MG.isDateTime (goFormatTime { sec := 1408924800, nsec := 123456789, off := -19800 }) = true ∧
    Hls.Playlist.MG.isDateTime (goFormatTime { sec := -62167219200, nsec := 0, off := 0 }) = true ∧
    Hls.Playlist.MG.isDateTime (goFormatTime { sec := 253402300799, nsec := 999000000, off := 0 }) = true ∧
    Hls.Playlist.MG.isDateTime (goFormatTime { sec := 951782400, nsec := 1000000, off := 86340 }) = true := by decide

/-- **F17** (finding): a well-formed value with a byte range on EXT-X-MAP is written
`#EXT-X-MAP:URI="i",BYTERANGE=720@0`; the strict dialect rejects it, the tolerant one accepts it. -/
def pF17 : Media :=
  { version := 7, targetDuration := 2, map := some { uri := cs!"i", brLen := some 720, brStart := some 0 },
    segments := [{ duration := 2000000000, uri := cs!"s.mp4" }] }

set_option maxRecDepth 100000 in
theorem c15_F17_unquoted_byterange :
    WFMedia pF17 ∧ Hls.Playlist.MG.accepts false (Media.marshal Codec.exactGo pF17) = false ∧
      Hls.Playlist.MG.accepts true (Media.marshal Codec.exactGo pF17) = true := by decide

set_option maxRecDepth 100000 in
/-- **F3** on the unchanged tree: `#EXT-X-SERVER-CONTROL:,PART-HOLD-BACK=3.00000` is not grammatical in
either dialect; the repaired encoder's output is -/
theorem c15_legacy_F3_not_grammatical :
    let p : Media := { version := 9, targetDuration := 2, serverControl := some { partHoldBack := some 3000000000 },
                       segments := [{ duration := 2000000000, uri := cs!"s.ts" }] }
    WFMedia p ∧ Hls.Playlist.MG.accepts true (Media.marshalLegacy Codec.exactGo p) = false ∧
      Hls.Playlist.MG.accepts false (Media.marshal Codec.exactGo p) = true := by decide

end Hls.Props.C15
