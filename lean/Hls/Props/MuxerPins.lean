import Hls.Gen.MuxerConsts
import Hls.Gen.MuxerOrder
import Hls.Muxer.Model
/-!
# T1 pins of the muxer model

The muxer model (`Hls/Muxer/Model.lean`) is written by hand and tied to the Go code by the T2 stream `muxer`.
Its NUMERIC constants are additionally pinned here to `Hls.Gen.Muxer.*`, which is regenerated from muxer.go /
muxer_stream.go on every run: a changed constant in the source breaks one of these obligations (they are
obligations of every muxer property, C01–C06 and C18), whatever the T2 generator happens to reach.
-/
namespace Hls.Props.MuxerPins
open Hls.Muxer
open Hls.Gen.Muxer

def zeroCfg (v : Variant) : Cfg :=
  { variant := v, segmentCount := 0, segmentMinDur := 0, partMinDur := 0, segmentMaxSize := 0,
    tracks := [{ codec := .h264, clockRate := 90000 }] }

theorem pin_fmp4_start_dts : fmp4StartDTS = (fmp4StartDTSSeconds : Int) * S := by decide
theorem pin_ts_min_au_count : Hls.Muxer.mpegtsSegmentMinAUCount = Hls.Gen.Muxer.mpegtsSegmentMinAUCount := by decide
theorem pin_gap_count : Hls.Muxer.llGapCount = Hls.Gen.Muxer.llGapCount := by decide

theorem pin_defaults :
    ((zeroCfg .ll).withDefaults.segmentCount, (zeroCfg .ll).withDefaults.segmentMinDur,
     (zeroCfg .ll).withDefaults.partMinDur, (zeroCfg .ll).withDefaults.segmentMaxSize)
    = (defaultSegmentCount, (defaultSegmentMinDurSeconds : Int) * S, (defaultPartMinDurMs : Int) * MS, defaultSegmentMaxSize) := by
  decide

def isOk {ε α} : Except ε α → Bool | .ok _ => true | .error _ => false

/-- the minimum `SegmentCount` of `Start`: accepted at the minimum, rejected one below -/
theorem pin_min_segment_count :
    isOk (start { zeroCfg .ll with segmentCount := minSegmentCountLL }) = true ∧
    isOk (start { zeroCfg .ll with segmentCount := minSegmentCountLL - 1 }) = false ∧
    isOk (start { zeroCfg .fmp4 with segmentCount := minSegmentCount }) = true ∧
    isOk (start { zeroCfg .fmp4 with segmentCount := minSegmentCount - 1 }) = false ∧
    isOk (start { zeroCfg .mpegts with segmentCount := minSegmentCount }) = true ∧
    isOk (start { zeroCfg .mpegts with segmentCount := minSegmentCount - 1 }) = false := by
  decide

def firstID (v : Variant) : Option Nat :=
  match start (zeroCfg v) with
  | .ok st => (st.streams.head?).map (·.nextSegmentID)
  | .error _ => none

theorem pin_first_segment_id :
    firstID .ll = some llFirstSegmentID ∧ firstID .fmp4 = some 0 ∧ firstID .mpegts = some 0 := by decide

def probeStream (n : Nat) : StreamSt :=
  { tracks := [0], isLeading := true, nextSegmentID := n,
    segments := List.replicate n (.gap 1000000000), targetDur := 3, partTargetDur := 200000000 }

theorem pin_has_content :
    (probeStream hasContentFMP4).hasContent .fmp4 = true ∧ (probeStream (hasContentFMP4 - 1)).hasContent .fmp4 = false ∧
    (probeStream hasContentOther).hasContent .ll = true ∧ (probeStream (hasContentOther - 1)).hasContent .ll = false ∧
    (probeStream hasContentOther).hasContent .mpegts = true ∧ (probeStream (hasContentOther - 1)).hasContent .mpegts = false := by
  decide

/-- a Low-Latency probe state with 4 real segments of 1 s, each with one part -/
def probeState : State :=
  let seg (i : Nat) : Seg := { id := i, startDTS := (i : Int) * 1000000000, endDTS := ((i : Int) + 1) * 1000000000, startNTP := 0,
                               parts := [{ id := i, startDTS := (i : Int) * 1000000000, endDTS := ((i : Int) + 1) * 1000000000 }] }
  { cfg := { (zeroCfg .ll).withDefaults with variant := .ll },
    tracks := [{}],
    streams := [{ tracks := [0], isLeading := true, nextSegmentID := 4, nextPartID := 4,
                  segments := [.seg (seg 0), .seg (seg 1), .seg (seg 2), .seg (seg 3)],
                  nextSegment := some { id := 4, startDTS := 4000000000, startNTP := 0 },
                  targetDur := 3, partTargetDur := 200000000 }],
    paths := [] }

/-- PART-HOLD-BACK, CAN-SKIP-UNTIL, version, and which segments carry date-times and parts -/
theorem pin_playlist_constants :
    (mediaPlaylist probeState 0 false).serverControl
        = some (Int.tdiv ((200000000 : Int) * holdBackNum) holdBackDen, (3 : Int) * skipFactor * S) ∧
    (mediaPlaylist probeState 0 false).version = versionFMP4 ∧
    (mediaPlaylist { probeState with cfg := { probeState.cfg with variant := .mpegts } } 0 false).version = versionMPEGTS ∧
    ((mediaPlaylist probeState 0 false).segments.map (fun g => (g.pdt.isSome, g.parts.length)))
        = (List.replicate (4 - partsWindow) (false, 0)) ++ (List.replicate partsWindow (true, 1)) := by
  decide

/-- the `_HLS_msn` range test: `nextSegmentID + msnAhead` waits, one more is rejected -/
theorem pin_msn_ahead :
    reqDecision probeState 0 (some (4 + msnAhead)) none false = .wait ∧
    reqDecision probeState 0 (some (4 + msnAhead + 1)) none false = .bad400 := by
  decide

/-- AAC access units are 1024 samples apart (`buildAac`) -/
theorem pin_aac_spacing :
    (buildAac 0 0 48000 48000 0 [1, 2] [1, 1]).map (·.dts) = [0, (aacSamplesPerAU : Int)] := by decide

/-! ## Published only when complete

The model finalizes a part / segment before it registers its path and before it lists it (`rotateParts`,
`rotateSegments` of `Hls/Muxer/Model.lean`). In the Go code a request is dispatched under the server's own mutex
only, so the same order is needed there for C05 ("keeps returning identical bytes") and C06 (the preload-hint
request returns the part's bytes): pinned on the regenerated call order of the two functions. -/

def firstIdx (l : List String) (x : String) : Option Nat :=
  match l.findIdx? (· == x) with
  | some i => some i
  | none => none

def precedesAll (l : List String) (x y : String) : Bool :=
  match firstIdx l x, firstIdx l y with
  | some i, some j => decide (i < j)
  | _, _ => false

/-- `rotateParts`: `part.finalize` comes before the part is appended to its segment's parts and before any
    path is registered; `rotateSegments`: `segment.finalize` before the segment is listed and before its path is
    registered, and paths of expired segments are unregistered only after that. -/
theorem pin_publish_after_finalize :
    precedesAll Hls.Gen.MuxerOrder.rotatePartsCalls "finalize" "append:parts" = true ∧
    precedesAll Hls.Gen.MuxerOrder.rotatePartsCalls "finalize" "registerPath" = true ∧
    precedesAll Hls.Gen.MuxerOrder.rotateSegmentsCalls "finalize" "append:segments" = true ∧
    precedesAll Hls.Gen.MuxerOrder.rotateSegmentsCalls "finalize" "registerPath" = true ∧
    precedesAll Hls.Gen.MuxerOrder.rotateSegmentsCalls "registerPath" "unregisterPath" = true ∧
    (Hls.Gen.MuxerOrder.rotatePartsCalls.filter (· == "finalize")).length = 1 ∧
    (Hls.Gen.MuxerOrder.rotateSegmentsCalls.filter (· == "finalize")).length = 1 := by
  decide

end Hls.Props.MuxerPins
