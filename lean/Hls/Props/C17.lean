import Hls.Storage.Lemmas
/-!
# C17 — Storage returns exactly what was written; RAM and disk are equivalent

Property theorems only (helper lemmas live in `Hls/Storage/Lemmas*.lean`; every definition
that occurs in a statement below is in `Hls/Storage/Model.lean`).

Reading guide.  `Spec` is the byte-slice specification: a file is a list of `Buf`s
(byte list + cursor), `Write` overwrites at the cursor and then extends, `Seek` past the end
zero-fills, the part reader returns the part's bytes, the file reader (only after `Finalize`)
returns the concatenation, `Size` is the total length once finalized.  `Ram` / `Disk` mirror
`pkg/storage`.  `WF ops` is the discipline of the property's quantifier (writes and seeks go to
the most recently allocated part, nothing is written after `Finalize`, `Finalize` once, readers
name existing parts, no `Remove`); `WFrm` is the same with `Remove` allowed anywhere.
-/
namespace Hls.Props.C17
open Hls.Storage

/-! ## 1. `seekablebuffer.Buffer` -/

/-- `Write` at the cursor: overwrite what is there, extend with the rest; the cursor moves by
    `len p` and stays inside the buffer. -/
theorem c17_write_at_cursor (b : Buf) (p : Bytes) (h : b.pos ≤ b.data.length) :
    (b.write p).data = b.data.take b.pos ++ p ++ b.data.drop (b.pos + p.length)
    ∧ (b.write p).pos = b.pos + p.length
    ∧ (b.write p).pos ≤ (b.write p).data.length :=
  ⟨Buf.write_data b p h, Buf.write_pos b p, Buf.write_inv b p h⟩

/-- `Seek` (start / current): a negative target is an error and changes nothing; otherwise the
    data is zero-extended up to the target, the cursor is the target, and the cursor is inside
    the buffer afterwards (no precondition needed). -/
theorem c17_seek_zero_fill (b : Buf) (off : Int) (w : Whence) :
    let t : Int := match w with
      | .start => off
      | .cur => (b.pos : Int) + off
    (t < 0 → b.seek off w = none) ∧
    (0 ≤ t →
      b.seek off w = some { data := b.data ++ zeros (t.toNat - b.data.length), pos := t.toNat }
      ∧ t.toNat ≤ (b.data ++ zeros (t.toNat - b.data.length)).length) := by
  have h := Buf.seek_eq b off w
  cases w <;> simp only [seekTarget] at h <;> intro t <;> refine ⟨fun ht => ?_, fun ht => ⟨?_, ?_⟩⟩
  all_goals first
    | (rw [h]; simp only [t] at ht ⊢; simp [ht]; done)
    | (rw [h]; simp only [t] at ht ⊢; simp [Int.not_lt.mpr ht]; done)
    | (simp only [List.length_append, length_zeros]; omega)

example : ({ data := [1, 2, 3, 4, 5], pos := 1 } : Buf).write [9, 8] = { data := [1, 9, 8, 4, 5], pos := 3 } := by decide
example : ({ data := [1, 2, 3], pos := 2 } : Buf).write [9, 8, 7] = { data := [1, 2, 9, 8, 7], pos := 5 } := by decide
example : ({ data := [1, 2], pos := 2 } : Buf).seek 3 .cur = some { data := [1, 2, 0, 0, 0], pos := 5 } := by decide
example : ({ data := [1, 2], pos := 2 } : Buf).seek (-3) .cur = none := by decide

/-! ## 2. `ramFileReader.Read` -/

/-- One `Read` call, entered with the loop state `(c, acc)` (`acc = p[:n]`), with ANY fuel of at
    least `(#parts − curPart) + 1` — in particular `readFuel`, so the model's loop bound never
    cuts the real loop short.  With `R` = the bytes ahead of the cursor and `want = len p − n`:
    * it returns `acc ++ R.take want` (so a fresh call returns `min (len p) |R|` bytes);
    * `io.EOF` iff fewer than `want` bytes were ahead or the cursor was past the last part at
      entry — `(n > 0, io.EOF)` together is possible (`0 < |R| < len p`), `(0, nil)` is returned
      for `len p = 0` while parts remain;
    * the new cursor is usable and has exactly `R.drop want` ahead. -/
theorem c17_ram_read_call (parts : List Bytes) (lenp fuel : Nat) (c : RCur) (acc : Bytes)
    (hok : c.ok parts) (hacc : acc.length ≤ lenp) (hfuel : parts.length - c.curPart + 1 ≤ fuel) :
    ∃ c', ramRead parts lenp fuel c acc =
            (acc ++ (remaining parts c).take (lenp - acc.length),
             decide ((remaining parts c).length < lenp - acc.length ∨ parts.length ≤ c.curPart),
             c')
          ∧ c'.ok parts
          ∧ remaining parts c' = (remaining parts c).drop (lenp - acc.length) :=
  ramRead_spec parts lenp fuel c acc hok hacc hfuel

/-- The model's `readFuel` satisfies the bound above for every cursor. -/
theorem c17_read_fuel_sufficient (parts : List Bytes) (lenp : Nat) (c : RCur) :
    parts.length - c.curPart + 1 ≤ readFuel parts lenp := by
  simp only [readFuel]; omega

/-- A fresh call returns `min (len p) (bytes ahead)` bytes. -/
theorem c17_ram_read_count (parts : List Bytes) (lenp : Nat) (c : RCur) (hok : c.ok parts) :
    (ramRead parts lenp (readFuel parts lenp) c []).1.length = min lenp (remaining parts c).length :=
  ramRead_count parts lenp c hok

/-- The file reader returns the parts concatenated in allocation order, for EVERY sequence of
    read-buffer sizes (including 0) followed by a drain; no fuel of the model runs out. -/
theorem c17_file_reader_concat (parts : List Bytes) (bufs : List Nat) :
    ramReadFile parts bufs = parts.flatten :=
  ramReadFile_eq parts bufs

-- non-vacuity of `c17_ram_read_call`: a usable cursor inside the second part; (n>0, EOF) together
example : RCur.ok [[1, 2], [], [3, 4, 5]] ⟨2, 1⟩ := by unfold RCur.ok; decide
example : ramRead [[1, 2], [], [3, 4, 5]] 7 (readFuel [[1, 2], [], [3, 4, 5]] 7) ⟨2, 1⟩ [] = ([4, 5], true, ⟨3, 0⟩) := by
  decide
-- a zero-length buffer returns (0, nil) and steps over one empty part at most
example : ramRead [[], [], [3]] 0 (readFuel [[], [], [3]] 0) ⟨0, 0⟩ [] = ([], false, ⟨1, 0⟩) := by decide
example : ramReadFile [[1, 2], [], [3, 4, 5]] [0, 1, 0, 3, 0] = [1, 2, 3, 4, 5] := by decide

/-! ## 3.–5. Refinement and equivalence -/

/-- RAM back end = specification on every disciplined op list, `Remove` included. -/
theorem c17_ram_refines (ops : List Op) (h : WFrm ops) : runRam {} ops = runSpec {} ops :=
  (ram_run true ops {} {} RamRel.init h).1

/-- Disk back end = specification on every disciplined op list (until `Remove`). -/
theorem c17_disk_refines (ops : List Op) (h : WF ops) : runDisk {} ops = runSpec {} ops :=
  (disk_run ops {} {} DiskInv.init h).1

/-- RAM and disk are observationally identical until `Remove`. -/
theorem c17_ram_disk_equiv (ops : List Op) (h : WF ops) : runRam {} ops = runDisk {} ops := by
  rw [c17_ram_refines ops h.toWFrm, c17_disk_refines ops h]

/-- … and whatever happens afterwards (`rest` is arbitrary: `Remove`, undisciplined ops),
    the observations made during the disciplined prefix coincide. -/
theorem c17_ram_disk_equiv_prefix (pre rest : List Op) (h : WF pre) :
    (runRam {} (pre ++ rest)).take pre.length = (runDisk {} (pre ++ rest)).take pre.length := by
  rw [runRam_append, runDisk_append, List.take_left' (runRam_length _ _),
      List.take_left' (runDisk_length _ _)]
  exact c17_ram_disk_equiv pre h

/-- Three parts (one empty), a rewrite of earlier bytes, a seek past the end followed by a
    write, a trailing seek past the end, readers before and after `Finalize`, several buffer
    size lists. -/
def exOps : List Op :=
  [.newPart, .write 0 [1, 2, 3, 4, 5], .seek 0 1 .start, .write 0 [9, 8], .seek 0 4 .cur, .write 0 [7],
   .readPart 0, .readFile [1], .size,
   .newPart, .newPart, .write 2 [6], .seek 2 2 .cur, .seek 2 (-9) .cur, .readPart 1,
   .finalize, .readPart 0, .readPart 1, .readPart 2, .readFile [0, 3, 0, 2], .readFile [], .size]

example : WF exOps := by decide
example : WFrm (exOps ++ [.remove, .size, .readFile [2], .readPart 0]) := by decide
example : runSpec {} exOps =
    [.unit, .n 5, .n 1, .n 2, .n 7, .n 1, .bytes [1, 9, 8, 4, 5, 0, 0, 7], .err, .n 0,
     .unit, .unit, .n 1, .n 3, .err, .bytes [],
     .unit, .bytes [1, 9, 8, 4, 5, 0, 0, 7], .bytes [], .bytes [6, 0, 0],
     .bytes [1, 9, 8, 4, 5, 0, 0, 7, 6, 0, 0], .bytes [1, 9, 8, 4, 5, 0, 0, 7, 6, 0, 0], .n 11] := by decide
example : runDisk {} exOps = runSpec {} exOps := by decide
example : runRam {} exOps = runSpec {} exOps := by decide

/-- The discipline is needed for the disk statements: writing to an earlier part after a later
    one was allocated makes the disk back end (not the RAM one) lose data. -/
example : runRam {} [.newPart, .write 0 [1], .newPart, .write 0 [2, 3], .finalize, .readFile [], .size]
    ≠ runDisk {} [.newPart, .write 0 [1], .newPart, .write 0 [2, 3], .finalize, .readFile [], .size] := by decide

/-! ## 6. Corollaries about reachable states -/

/-- Each part's reader returns exactly the part's bytes (as defined by the write/seek
    semantics of section 1), before and after `Finalize`, in both back ends. -/
theorem c17_part_reader_exact (ops : List Op) (k : Nat) (b : Buf) (h : WF ops)
    (hk : (Spec.exec {} ops).parts[k]? = some b) :
    ((Ram.exec {} ops).step (.readPart k)).2 = .bytes b.data
    ∧ ((Disk.exec {} ops).step (.readPart k)).2 = .bytes b.data := by
  have hlt : k < (Spec.exec {} ops).parts.length := by
    rcases Nat.lt_or_ge k (Spec.exec {} ops).parts.length with h1 | h1
    · exact h1
    · rw [List.getElem?_eq_none h1] at hk; cases hk
  have hw (a : Bool) : wfS a (Spec.exec {} ops) [.readPart k] := by
    simp [wfS, wfFrom, hlt]
  have hs : ((Spec.exec {} ops).step (.readPart k)).2 = .bytes b.data := by
    rw [Spec.step_readPart _ k b hk]
  exact ⟨(ram_step true _ _ _ [] (ram_run true ops {} {} RamRel.init h.toWFrm).2 (hw true)).1.trans hs,
         (disk_step _ _ _ [] (disk_run ops {} {} DiskInv.init h).2 (hw false)).1.trans hs⟩

/-- RAM part readers stay exact when `Remove` occurs anywhere. -/
theorem c17_part_reader_exact_ram_rm (ops : List Op) (k : Nat) (b : Buf) (h : WFrm ops)
    (hk : (Spec.exec {} ops).parts[k]? = some b) :
    ((Ram.exec {} ops).step (.readPart k)).2 = .bytes b.data := by
  have hr := (ram_run true ops {} {} RamRel.init h).2
  simp [Ram.step, hr.parts, hk]

/-- `Size` is the total length of the parts once finalized (and 0 before), in both back ends. -/
theorem c17_size_total (ops : List Op) (h : WF ops) :
    let total := ((Spec.exec {} ops).parts.map (·.data.length)).sum
    let expect := if .finalize ∈ ops then total else 0
    ((Ram.exec {} ops).step .size).2 = .n expect ∧ ((Disk.exec {} ops).step .size).2 = .n expect := by
  intro total expect
  have hw (a : Bool) : wfS a (Spec.exec {} ops) [.size] := by simp [wfS, wfFrom]
  have hs : ((Spec.exec {} ops).step .size).2 = .n expect := by
    simp only [Spec.step, Spec.exec_finalized, expect, total, Spec.content, List.length_flatten,
      List.map_map]
    simp [Function.comp_def]
  exact ⟨(ram_step true _ _ _ [] (ram_run true ops {} {} RamRel.init h.toWFrm).2 (hw true)).1.trans hs,
         (disk_step _ _ _ [] (disk_run ops {} {} DiskInv.init h).2 (hw false)).1.trans hs⟩

/-- The file cannot be read before `Finalize`: after ANY op list (disciplined or not) that
    contains no `Finalize`, the file reader of both back ends fails. -/
theorem c17_no_read_before_finalize (ops : List Op) (bufs : List Nat) (h : ∀ op ∈ ops, op ≠ .finalize) :
    ((Ram.exec {} ops).step (.readFile bufs)).2 = .err
    ∧ ((Disk.exec {} ops).step (.readFile bufs)).2 = .err := by
  constructor
  · have := Ram.exec_finalized {} ops h
    simp [Ram.step, this]
  · exact congrArg Prod.snd (Disk.step_readFile_open _ bufs ((Disk.exec_fOpen {} ops h).trans rfl))

/-- A file cannot be read before `Finalize` (RAM back end, any state). -/
theorem c17_no_read_before_finalize_ram (s : Ram) (bufs : List Nat) (h : s.finalized = false) :
    (s.step (.readFile bufs)).2 = .err := by
  simp [Ram.step, h]

/-- `Remove` deletes the disk file: after ANY op list containing `Remove` the file reader
    fails; on a disciplined (`WFrm`) list that also contains `Finalize`, every part reader fails
    too (parts of a file that is not finalized yet are still served from their RAM mirror). -/
theorem c17_remove_deletes (ops : List Op) (hrm : .remove ∈ ops) :
    (∀ bufs, ((Disk.exec {} ops).step (.readFile bufs)).2 = .err)
    ∧ (WFrm ops → .finalize ∈ ops → ∀ k, ((Disk.exec {} ops).step (.readPart k)).2 = .err) := by
  have hr := Disk.exec_removed_of_mem {} ops hrm
  refine ⟨fun bufs => Disk.readFile_removed _ bufs hr, fun hwf hfin k => ?_⟩
  apply Disk.readPart_removed _ k hr
  exact Disk.exec_bufs_none ops {} 0 false (fun h => by cases h) hwf (by simpa using hfin)

/-- On disk, before `Finalize` the file may lack a zero tail of the content (a trailing seek
    past the end is not materialised by `pwrite`); `Finalize` pads it: afterwards the file on
    disk IS the concatenation of the parts. -/
theorem c17_disk_file_content (ops : List Op) (h : WF ops) :
    let d := Disk.exec {} ops
    let content := (Spec.exec {} ops).content
    (.finalize ∉ ops → d.file.length ≤ content.length
        ∧ d.file ++ zeros (content.length - d.file.length) = content)
    ∧ (.finalize ∈ ops → d.file = content ∧ ∀ p ∈ d.parts, p.buf = none) := by
  intro d content
  have hi := (disk_run ops {} {} DiskInv.init h).2
  have hf := Spec.exec_finalized {} ops
  constructor
  · intro hn
    have : (Spec.exec {} ops).finalized = false := by simp [hf, hn]
    exact (FileOK_iff _ _).mp (hi.pre this).2.2.2
  · intro hn
    have : (Spec.exec {} ops).finalized = true := by simp [hf, hn]
    exact ⟨(hi.post this).2.2.2.2, (hi.post this).2.2.1⟩

-- non-vacuity of the corollaries
example : (Spec.exec {} exOps).parts[2]? = some { data := [6, 0, 0], pos := 3 } := by decide
example : Op.finalize ∈ exOps := by decide
example : ∀ op ∈ exOps.take 15, op ≠ Op.finalize := by decide
example : ((Disk.exec {} (exOps.take 15)).step (.readFile [3])).2 = .err := by decide
example : Op.remove ∈ exOps ++ [.remove, .size] ∧ WFrm (exOps ++ [.remove, .size]) := by decide
example : ((Disk.exec {} (exOps ++ [.remove, .size])).step (.readPart 0)).2 = .err := by decide
-- before Finalize the disk file really is shorter than the content (trailing seek), after it is not
example : (Disk.exec {} (exOps.take 15)).file = [1, 9, 8, 4, 5, 0, 0, 7, 6]
    ∧ (Spec.exec {} (exOps.take 15)).content = [1, 9, 8, 4, 5, 0, 0, 7, 6, 0, 0] := by decide
example : (Disk.exec {} exOps).file = [1, 9, 8, 4, 5, 0, 0, 7, 6, 0, 0] := by decide

end Hls.Props.C17
