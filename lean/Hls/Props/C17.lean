import Hls.Storage.Model
/-!
# C17 — Storage returns exactly what was written; RAM and disk are equivalent
Property theorems only (helper lemmas live in `Hls/Storage/Lemmas.lean`).
-/
namespace Hls.Props.C17
open Hls.Storage

/-- A file cannot be read before `Finalize` (RAM back end, any state). -/
theorem c17_no_read_before_finalize_ram (s : Ram) (bufs : List Nat) (h : s.finalized = false) :
    (s.step (.readFile bufs)).2 = .err := by
  simp [Ram.step, h]

end Hls.Props.C17
