import Hls.Muxer.InvPlaylist
/-!
# C04 — Successive playlists evolve only as RFC 8216 allows

Property theorems only (helper lemmas and the invariant: `Hls/Muxer/Inv*.lean`). Everything is stated
over the executable model `Hls.Muxer` (`start`, `write`, `run`, `mediaPlaylist`), which mirrors
`muxer.go` / `muxer_stream.go` / `muxer_segmenter.go` statement by statement and is tied to the real
muxer by the `muxer` correspondence stream. Quantifiers: EVERY configuration accepted by `start`,
EVERY list of write ops (no bound on the length — induction over the op list), every stream.

Notation: `st` = a reachable state `run st0 ops`; `s = st.stream si`; `p = mediaPlaylist st si false`
(the playlist without `_HLS_skip`; `c04_delta` transfers every statement to the delta playlist);
`PlSeg.core g = (g.dur, g.gap, g.key)` = (EXTINF in ns, gap flag, URI); media sequence number (MSN) of
the entry at position `i` = `p.mediaSeq + i`.
-/
namespace Hls.Props.C04
open Hls.Muxer

/-! ## a concrete configuration and history (non-vacuity witnesses) -/

/-- Low-Latency, H264 + AAC, minimum window -/
def llCfg : Cfg :=
  { variant := .ll, segmentCount := 7, segmentMinDur := 1000000000, partMinDur := 200000000, segmentMaxSize := 1000000,
    tracks := [{ codec := .h264, clockRate := 90000 }, { codec := .aac, clockRate := 48000, sampleRate := 48000 }] }

/-- video unit `k` (25 fps, key frame every 25 units, parameter sets on key frames) -/
def vOp (k : Nat) : WriteOp :=
  { track := 0, pts := 3600 * k, dts := 3600 * k, ntp := 40000000 * k, ra := k % 25 == 0, pic := true,
    par := if k % 25 == 0 then 1 else 0, pays := [k], sizes := [1000] }

/-- audio call `k`: two access units -/
def aOp (k : Nat) : WriteOp :=
  { track := 1, pts := 2048 * k, dts := 2048 * k, ntp := 42666666 * k, ra := true,
    pays := [1000 + 2 * k, 1001 + 2 * k], sizes := [200, 200] }

def demoOps (n : Nat) : List WriteOp := (List.range n).flatMap fun k => [vOp k, aOp k]

def demoStart : State := initState llCfg.withDefaults
def demo (n : Nat) : State := run demoStart (demoOps n)

/-- `start` accepts the configuration -/
theorem demo_start : start llCfg = .ok demoStart := rfl

set_option maxRecDepth 100000 in
/-- after 60 writes the first segment is published behind 7 gap entries, one gap entry already dropped:
    7 entries listed, media sequence 1, next id 8; two streams -/
example : (demo 30).streams.length = 2 ∧ ((demo 30).stream 0).segments.length = 7 ∧
    ((demo 30).stream 0).deleteCount = 1 ∧ ((demo 30).stream 0).nextSegmentID = 8 ∧
    ((demo 30).stream 1).segments.length = 7 := by decide +kernel

/-! ## c04_inv -/

/-- **The per-stream invariant holds in every reachable state.** For every stream:
* gap entries only at the head of the window, and only in Low-Latency mode;
* the entry at position `i` has media sequence number `deleteCount + i`; a real entry carries that number
  as its id (= the number in its URI); gap entries occupy numbers below 7; Low-Latency ids start at 7;
* `deleteCount + len = nextSegmentID` once content exists (before: Low-Latency starts at 0 / 7);
* at most `segmentCount` entries are listed;
* the open segment has id `nextSegmentID`; a stream without open segment lists nothing;
* part ids are consecutive across the whole stream (parts of the listed segments, then of the open one)
  and end at `nextPartID − 1`; the open part has id `nextPartID`; only Low-Latency advertises parts;
* an open part exists exactly when an open fMP4 segment exists;
* every listed segment is finalized: it ends exactly where the next listed segment — or, for the last one, the
  open segment — starts (`Tiled`). -/
theorem c04_inv {cfg : Cfg} {st0 : State} (h : start cfg = .ok st0) (ops : List WriteOp) (si : Nat)
    (hsi : si < (run st0 ops).streams.length) :
    let st := run st0 ops
    let s := st.stream si
    (∃ (gs : List Int) (rs : List Seg), s.segments = gs.map Entry.gap ++ rs.map Entry.seg ∧
        (gs ≠ [] → st.cfg.variant = .ll)) ∧
    (∀ i g, s.segments[i]? = some (.seg g) → g.id = s.deleteCount + i) ∧
    (∀ i d, s.segments[i]? = some (.gap d) → s.deleteCount + i < 7) ∧
    (st.cfg.variant = .ll → 7 ≤ s.nextSegmentID ∧ ∀ g, .seg g ∈ s.segments → 7 ≤ g.id) ∧
    (¬(st.cfg.variant = .ll ∧ s.segments = []) → s.deleteCount + s.segments.length = s.nextSegmentID) ∧
    (st.cfg.variant = .ll → s.segments = [] → s.deleteCount = 0 ∧ s.nextSegmentID = 7) ∧
    s.segments.length ≤ st.cfg.segmentCount ∧
    (∀ g, s.nextSegment = some g → g.id = s.nextSegmentID) ∧
    (s.nextSegment = none → s.segments = []) ∧
    (∃ a, (allParts s).map (·.id) = List.range' a (allParts s).length ∧ a + (allParts s).length = s.nextPartID) ∧
    (∀ p, s.nextPart = some p → p.id = s.nextPartID) ∧
    (st.cfg.variant ≠ .ll → allParts s = []) ∧
    (if st.cfg.variant = .mpegts then s.nextPart = none else s.nextPart.isSome = s.nextSegment.isSome) ∧
    (∀ o, s.nextSegment = some o → Tiled s.segments o.startDTS) := by
  intro st s
  obtain ⟨hinv, _⟩ := reachable_inv h ops
  have hI := hinv.inv0.streams si hsi
  have hS := hinv.sync si hsi
  refine ⟨?_, hI.msn.get_seg, ?_, fun hll => ⟨hI.llNext hll, hI.llReal hll⟩, hI.count, hI.countEmpty, hI.len,
    hI.openId, hI.closedEmpty, ?_, hI.partId, hI.partsLL, hS, hI.tiled⟩
  · obtain ⟨gs, rs, hgr⟩ := hI.gtr.split
    refine ⟨gs, rs, hgr, fun hne => ?_⟩
    apply Classical.byContradiction
    intro hnl
    cases gs with
    | nil => exact hne rfl
    | cons d gs' =>
      have := hI.gapsLL hnl (.gap d) (by rw [hgr]; simp)
      simp [Entry.isGap] at this
  · intro i d hd
    exact hI.msn.get_gap i d hd
  · obtain ⟨a, hc, ha⟩ := hI.partIds
    refine ⟨a, ?_, ha⟩
    have := hc.eq_range'
    simpa using this

set_option maxRecDepth 100000 in
example : start llCfg = .ok demoStart ∧ 0 < (run demoStart (demoOps 30)).streams.length := ⟨rfl, by decide +kernel⟩


/-! ## c04_uri_is_msn -/

/-- **The number in a segment's URI equals its media sequence number**: in every reachable state the entry at
position `i` of a stream's playlist is either a real segment whose URI is `seg<si>_<mediaSeq + i>`, or a
Low-Latency gap entry (no URI of its own) with a media sequence number below 7. -/
theorem c04_uri_is_msn {cfg : Cfg} {st0 : State} (h : start cfg = .ok st0) (ops : List WriteOp) (si : Nat)
    (hsi : si < (run st0 ops).streams.length) (i : Nat) (g : PlSeg)
    (hg : (mediaPlaylist (run st0 ops) si false).segments[i]? = some g) :
    let p := mediaPlaylist (run st0 ops) si false
    (g.gap = false → g.key = some (.seg si (p.mediaSeq + i))) ∧
    (g.gap = true → g.key = none ∧ p.mediaSeq + i < 7 ∧ (run st0 ops).cfg.variant = .ll) := by
  intro p
  obtain ⟨hinv, _⟩ := reachable_inv h ops
  have hI := hinv.inv0.streams si hsi
  have hm := mp_get_full hI i
  rw [hg] at hm
  have hms : p.mediaSeq = ((run st0 ops).stream si).deleteCount := mp_mediaSeq _ _ _
  cases he : ((run st0 ops).stream si).segments[i]? with
  | none => rw [he] at hm; simp at hm
  | some e =>
    rw [he] at hm
    simp only [Option.map_some, Option.some.injEq, PlSeg.core] at hm
    cases e with
    | seg ge =>
      simp only [entryCore, Prod.mk.injEq] at hm
      have := hI.msn.get_seg i ge he
      refine ⟨fun _ => by rw [hm.2.2, this, hms], fun hc => ?_⟩
      rw [hm.2.1] at hc; cases hc
    | gap d =>
      simp only [entryCore, Prod.mk.injEq] at hm
      refine ⟨fun hc => (by rw [hm.2.1] at hc; cases hc), fun _ => ⟨hm.2.2, (by rw [hms]; exact hI.msn.get_gap i d he), ?_⟩⟩
      apply Classical.byContradiction
      intro hnl
      have := hI.gapsLL hnl _ (List.mem_of_getElem? he)
      simp [Entry.isGap] at this

set_option maxRecDepth 100000 in
example : ∃ g, (mediaPlaylist (run demoStart (demoOps 30)) 0 false).segments[6]? = some g ∧ g.gap = false ∧
    g.key = some (.seg 0 7) := ⟨_, rfl, rfl, rfl⟩

/-- The delta playlist (`_HLS_skip=YES`) is the full playlist without its first `skipped` entries: same media
sequence, target duration, open parts and hint, so every statement below transfers (entry `i` of the delta
playlist has media sequence number `mediaSeq + skipped + i`). -/
theorem c04_delta (st : State) (si : Nat) (hv : st.cfg.variant ≠ .mpegts) :
    let p := mediaPlaylist st si false
    let pd := mediaPlaylist st si true
    pd.skipped = some (skippedOf (st.stream si) true) ∧
    pd.segments.map PlSeg.core = (p.segments.map PlSeg.core).drop (skippedOf (st.stream si) true) ∧
    pd.mediaSeq = p.mediaSeq ∧ pd.targetDur = p.targetDur ∧ pd.parts = p.parts ∧ pd.hint = p.hint := by
  intro p pd
  refine ⟨?_, ?_, ?_, ?_, ?_, ?_⟩
  · show (mediaPlaylist st si true).skipped = _
    unfold mediaPlaylist skippedOf
    cases hvv : st.cfg.variant <;> first | exact absurd hvv hv | rfl
  · show (mediaPlaylist st si true).segments.map _ = ((mediaPlaylist st si false).segments.map _).drop _
    rw [mp_segments_fmp4 st si true hv, mp_segments_fmp4 st si false hv, skippedOf_false, List.drop_zero]
    simp only [List.map_drop, List.map_map]
  all_goals
    simp only [p, pd]
    unfold mediaPlaylist
    cases hvv : st.cfg.variant <;> first | exact absurd hvv hv | rfl


/-! ## c04_step -/

/-- **One write changes a playlist only at its two ends.** For a write that goes through one
`fmp4WriteSample` / one MPEG-TS write (every video unit; MPEG-TS audio — `singleOp`), the new playlist of
every stream is the old one minus `k ≤ 1` head entries plus `add` tail entries (`add ≤ 1` once the playlist
is non-empty; the first Low-Latency segment arrives together with its 7 gap entries); the media sequence
advances by exactly `k`; every surviving entry keeps duration, gap flag and URI. -/
theorem c04_step {cfg : Cfg} {st0 : State} (h : start cfg = .ok st0) (ops : List WriteOp) (op : WriteOp)
    (hop : singleOp (run st0 ops) op) (si : Nat) (hsi : si < (run st0 ops).streams.length) :
    let p := mediaPlaylist (run st0 ops) si false
    let p' := mediaPlaylist (write (run st0 ops) op).1 si false
    ∃ k add, k ≤ 1 ∧ p'.mediaSeq = p.mediaSeq + k ∧ p'.segments.length + k = p.segments.length + add ∧
      (p.segments ≠ [] → add ≤ 1) ∧ add ≤ 8 ∧
      ∀ j, j + k < p.segments.length → (p'.segments[j]?).map PlSeg.core = (p.segments[j + k]?).map PlSeg.core := by
  intro p p'
  obtain ⟨hinv, _⟩ := reachable_inv h ops
  obtain ⟨hinv', _, hstep⟩ := hinv.write op
  have hs1 := hstep hop
  have hI := hinv.inv0.streams si hsi
  have hI' := hinv'.inv0.streams si (hs1.len ▸ hsi)
  obtain ⟨k, new, hk1, hshape, hdc, hkl, hne, h8⟩ := (hs1.win si hsi).window
  obtain ⟨a, b, c⟩ := playlists_of_window hI hI' hs1.cfg hshape hdc hkl
  refine ⟨k, new.length, hk1, a, b, fun hp => hne ?_, h8, c⟩
  intro hc
  apply hp
  have hl := mp_length_full hI
  simp only [core, List.map_eq_nil_iff] at hc
  rw [hc] at hl
  exact List.eq_nil_of_length_eq_zero hl

set_option maxRecDepth 100000 in
/-- the hypotheses are satisfiable, and both a rotation (`k = 1`: write of key frame 50) and a plain write occur -/
example : singleOp (run demoStart (demoOps 50)) (vOp 50) ∧ 0 < (run demoStart (demoOps 50)).streams.length ∧
    (mediaPlaylist (run demoStart (demoOps 50)) 0 false).mediaSeq = 1 ∧
    (mediaPlaylist (write (run demoStart (demoOps 50)) (vOp 50)).1 0 false).mediaSeq = 2 := by decide +kernel

/-- The same for every single sample that enters `fmp4WriteSample` (a multi-AU audio call of an audio-only
muxer is a sequence of such steps). -/
theorem c04_step_sample {st : State} (hinv : Inv st) (ti : Nat) (ra changed : Bool) (smp : Sample) (si : Nat)
    (hsi : si < st.streams.length) :
    let p := mediaPlaylist st si false
    let p' := mediaPlaylist (fmp4Write st ti ra changed smp).1 si false
    ∃ k add, k ≤ 1 ∧ p'.mediaSeq = p.mediaSeq + k ∧ p'.segments.length + k = p.segments.length + add ∧
      (p.segments ≠ [] → add ≤ 1) ∧ add ≤ 8 ∧
      ∀ j, j + k < p.segments.length → (p'.segments[j]?).map PlSeg.core = (p.segments[j + k]?).map PlSeg.core := by
  intro p p'
  obtain ⟨hinv', hs1⟩ := hinv.fmp4Write ti ra changed smp
  have hI := hinv.inv0.streams si hsi
  have hI' := hinv'.inv0.streams si (hs1.len ▸ hsi)
  obtain ⟨k, new, hk1, hshape, hdc, hkl, hne, h8⟩ := (hs1.win si hsi).window
  obtain ⟨a, b, c⟩ := playlists_of_window hI hI' hs1.cfg hshape hdc hkl
  refine ⟨k, new.length, hk1, a, b, fun hp => hne ?_, h8, c⟩
  intro hc
  apply hp
  have hl := mp_length_full hI
  simp only [core, List.map_eq_nil_iff] at hc
  rw [hc] at hl
  exact List.eq_nil_of_length_eq_zero hl

example : Inv demoStart := start_inv demo_start

/-! ## c04_history -/

/-- **RFC 8216 relation between any two playlists of a history.** For states `i ≤ j` of a run
(`st₁ = run st0 ops₁`, `st₂ = run st₁ ops₂`) and every stream: EXT-X-MEDIA-SEQUENCE never decreases; segments
are never removed from the tail (`mediaSeq + length` never decreases); and a media sequence number listed in
both playlists denotes the same duration, gap flag and URI. -/
theorem c04_history {cfg : Cfg} {st0 : State} (h : start cfg = .ok st0) (ops₁ ops₂ : List WriteOp) (si : Nat)
    (hsi : si < (run st0 ops₁).streams.length) :
    let p₁ := mediaPlaylist (run st0 ops₁) si false
    let p₂ := mediaPlaylist (run (run st0 ops₁) ops₂) si false
    p₁.mediaSeq ≤ p₂.mediaSeq ∧
    p₁.mediaSeq + p₁.segments.length ≤ p₂.mediaSeq + p₂.segments.length ∧
    ∀ m a b, p₁.mediaSeq ≤ m → p₂.mediaSeq ≤ m →
      p₁.segments[m - p₁.mediaSeq]? = some a → p₂.segments[m - p₂.mediaSeq]? = some b →
      a.dur = b.dur ∧ a.gap = b.gap ∧ a.key = b.key := by
  dsimp only
  generalize hp₁ : mediaPlaylist (run st0 ops₁) si false = p₁
  generalize hp₂ : mediaPlaylist (run (run st0 ops₁) ops₂) si false = p₂
  obtain ⟨hinv, _⟩ := reachable_inv h ops₁
  obtain ⟨hinv', hev⟩ := hinv.run ops₂
  have hI := hinv.inv0.streams si hsi
  have hI' := hinv'.inv0.streams si (hev.len ▸ hsi)
  obtain ⟨k, new, hshape, hdc, hkl⟩ := hev.win si hsi
  obtain ⟨a, b, c⟩ := playlists_of_window hI hI' hev.cfg hshape hdc hkl
  have hl := mp_length_full hI
  rw [hp₁] at a b c hl
  rw [hp₂] at a b c
  refine ⟨by omega, ?_, fun m x y h1 h2 hx hy => ?_⟩
  · have : k ≤ p₁.segments.length + new.length := by
      simp only [core, List.length_append, List.length_map] at hkl
      omega
    omega
  · have hlt : m - p₁.mediaSeq < p₁.segments.length := by
      apply Classical.byContradiction
      intro hc
      rw [List.getElem?_eq_none (by omega)] at hx
      cases hx
    have hj : m - p₂.mediaSeq + k = m - p₁.mediaSeq := by omega
    have := c (m - p₂.mediaSeq) (by omega)
    rw [hj, hx, hy] at this
    simp only [Option.map_some, Option.some.injEq, PlSeg.core, Prod.mk.injEq] at this
    exact ⟨this.1.symm, this.2.1.symm, this.2.2.symm⟩

set_option maxRecDepth 100000 in
/-- non-vacuity: media sequence number 7 (the first real segment) is listed after 30 and still after 130 write
pairs (media sequence 1 resp. 5), with the same URI -/
example : (mediaPlaylist (run demoStart (demoOps 30)) 0 false).mediaSeq = 1 ∧
    (mediaPlaylist (run (run demoStart (demoOps 30)) ((demoOps 130).drop 60)) 0 false).mediaSeq = 5 ∧
    ((mediaPlaylist (run demoStart (demoOps 30)) 0 false).segments[7 - 1]?).map (·.key) = some (some (.seg 0 7)) ∧
    ((mediaPlaylist (run (run demoStart (demoOps 30)) ((demoOps 130).drop 60)) 0 false).segments[7 - 5]?).map (·.key) =
      some (some (.seg 0 7)) := by decide +kernel


/-! ## c04_parts_window, c04_part_numbers -/

/-- **Parts are listed only under the last two segments** (and the open one — `Playlist.parts`): an entry of a
playlist (full or delta) that itemises parts is one of its last two entries, and the muxer is Low-Latency. -/
theorem c04_parts_window {cfg : Cfg} {st0 : State} (h : start cfg = .ok st0) (ops : List WriteOp) (si : Nat)
    (hsi : si < (run st0 ops).streams.length) (delta : Bool) (i : Nat) (g : PlSeg)
    (hg : (mediaPlaylist (run st0 ops) si delta).segments[i]? = some g) (hparts : g.parts ≠ []) :
    (mediaPlaylist (run st0 ops) si delta).segments.length - i ≤ 2 ∧ (run st0 ops).cfg.variant = .ll := by
  obtain ⟨hinv, _⟩ := reachable_inv h ops
  have hI := hinv.inv0.streams si hsi
  generalize run st0 ops = st at *
  by_cases hv : st.cfg.variant = .mpegts
  · exfalso
    rw [mp_segments_ts hI delta hv, List.getElem?_map] at hg
    cases he : (st.stream si).segments[i]? with
    | none => rw [he] at hg; cases hg
    | some e =>
      rw [he] at hg
      simp only [Option.map_some, Option.some.injEq] at hg
      subst hg
      cases e <;> exact hparts rfl
  · have hlen := mp_length hI delta
    simp only [hv, if_false] at hlen
    rw [hlen]
    rw [mp_segments_fmp4 st si delta hv, List.getElem?_map, List.getElem?_drop, List.getElem?_zipIdx] at hg
    cases he : (st.stream si).segments[skippedOf (st.stream si) delta + i]? with
    | none => rw [he] at hg; cases hg
    | some e =>
      rw [he] at hg
      simp only [Option.map_some, Option.some.injEq] at hg
      subst hg
      cases e with
      | gap d => exact absurd rfl hparts
      | seg ge =>
        simp only [plSegOf] at hparts
        split at hparts
        · rename_i hc
          exact ⟨by omega, hc.1⟩
        · exact absurd rfl hparts

set_option maxRecDepth 100000 in
example : ((mediaPlaylist (run demoStart (demoOps 60)) 0 false).segments.map (·.parts.length)) = [0, 0, 0, 0, 0, 5, 5] := by
  decide

/-- **Part numbers increase by exactly one across the whole playlist, and the preload hint names the next
part.** Low-Latency, every reachable state, full or delta playlist: the part URIs listed (under the segments,
then of the open segment) are `part<si>_a, part<si>_(a+1), …` without a hole, and EXT-X-PRELOAD-HINT is present
and names the part right after the last listed one (`nextPartID`). -/
theorem c04_part_numbers {cfg : Cfg} {st0 : State} (h : start cfg = .ok st0) (ops : List WriteOp) (si : Nat)
    (hsi : si < (run st0 ops).streams.length) (hll : (run st0 ops).cfg.variant = .ll) (delta : Bool) :
    let p := mediaPlaylist (run st0 ops) si delta
    let keys := (p.segments.flatMap (·.parts) ++ p.parts).map (·.key)
    ∃ a, keys = (List.range' a keys.length).map (PathKey.part si) ∧
      p.hint = some (.part si (a + keys.length)) ∧ a + keys.length = ((run st0 ops).stream si).nextPartID := by
  dsimp only
  obtain ⟨hinv, _⟩ := reachable_inv h ops
  have hI := hinv.inv0.streams si hsi
  generalize run st0 ops = st at *
  obtain ⟨l, hsuf, hl⟩ := mp_parts_ll st si delta hll
  rw [hl]
  obtain ⟨a, hc, ha⟩ := hI.partIds
  have hsuf' : l.map (·.id) <:+ (allParts (st.stream si)).map (·.id) := by
    obtain ⟨t, ht⟩ := hsuf
    exact ⟨t.map (·.id), by rw [← ht, List.map_append]⟩
  have hc' := hc.suffix hsuf'
  have hlen : l.length ≤ (allParts (st.stream si)).length := by
    have := hsuf.length_le; exact this
  have hhint : (mediaPlaylist st si delta).hint = some (.part si (st.stream si).nextPartID) := by
    unfold mediaPlaylist; simp only [hll]; rfl
  refine ⟨a + ((allParts (st.stream si)).length - l.length), ?_, ?_, ?_⟩
  · simp only [List.map_map, List.length_map] at hc' ⊢
    have := hc'.eq_range'
    simp only [List.length_map] at this
    rw [← this]
    simp [plPart, Function.comp_def]
  · rw [hhint]; simp only [List.length_map]; congr 2; omega
  · simp only [List.length_map]; omega

set_option maxRecDepth 100000 in
example : (run demoStart (demoOps 60)).cfg.variant = .ll ∧
    (mediaPlaylist (run demoStart (demoOps 60)) 0 false).hint = some (.part 0 11) := by decide +kernel

/-! ## c04_streams_agree -/

/-- **All streams of one muxer expose the same media sequence numbers and durations at the same time**: in
every reachable state any two streams have the same `nextSegmentID`, `deleteCount`, number of listed entries,
(gap flag, duration) of every entry, target duration and part target duration — hence their playlists have the
same EXT-X-MEDIA-SEQUENCE, EXT-X-TARGETDURATION and, position by position, the same EXTINF and gap flag. -/
theorem c04_streams_agree {cfg : Cfg} {st0 : State} (h : start cfg = .ok st0) (ops : List WriteOp) (si sj : Nat)
    (hsi : si < (run st0 ops).streams.length) (hsj : sj < (run st0 ops).streams.length) :
    let st := run st0 ops
    (st.stream si).nextSegmentID = (st.stream sj).nextSegmentID ∧
    (st.stream si).deleteCount = (st.stream sj).deleteCount ∧
    (st.stream si).segments.length = (st.stream sj).segments.length ∧
    (st.stream si).segments.map (fun e => (e.isGap, e.duration)) = (st.stream sj).segments.map (fun e => (e.isGap, e.duration)) ∧
    (st.stream si).targetDur = (st.stream sj).targetDur ∧
    (st.stream si).partTargetDur = (st.stream sj).partTargetDur ∧
    (mediaPlaylist st si false).mediaSeq = (mediaPlaylist st sj false).mediaSeq ∧
    (mediaPlaylist st si false).targetDur = (mediaPlaylist st sj false).targetDur ∧
    (mediaPlaylist st si false).segments.map (fun g => (g.dur, g.gap)) =
      (mediaPlaylist st sj false).segments.map (fun g => (g.dur, g.gap)) := by
  dsimp only
  obtain ⟨hinv, _⟩ := reachable_inv h ops
  generalize run st0 ops = st at *
  have hIi := hinv.inv0.streams si hsi
  have hIj := hinv.inv0.streams sj hsj
  have hc : core (st.stream si) = core (st.stream sj) := by
    rw [hinv.agree.core si hsi, hinv.agree.core sj hsj]
  have htd : (st.stream si).targetDur = (st.stream sj).targetDur := by
    rw [hinv.agree.td si hsi, hinv.agree.td sj hsj]
  have hptd : (st.stream si).partTargetDur = (st.stream sj).partTargetDur := by
    rw [hinv.agree.ptd si hsi, hinv.agree.ptd sj hsj]
  have h1 : (st.stream si).nextSegmentID = (st.stream sj).nextSegmentID := congrArg Core.nsid hc
  have h2 : (st.stream si).deleteCount = (st.stream sj).deleteCount := congrArg Core.dc hc
  have h3 : (st.stream si).segments.map Entry.shape = (st.stream sj).segments.map Entry.shape := congrArg Core.shape hc
  have h4 : (st.stream si).segments.length = (st.stream sj).segments.length := by
    have := congrArg List.length h3; simpa using this
  refine ⟨h1, h2, h4, h3, htd, hptd, by rw [mp_mediaSeq, mp_mediaSeq, h2], ?_, ?_⟩
  · unfold mediaPlaylist
    cases st.cfg.variant <;> exact htd
  · apply List.ext_getElem?
    intro j
    have gi := mp_get_full hIi j
    have gj := mp_get_full hIj j
    have hs : ((st.stream si).segments[j]?).map Entry.shape = ((st.stream sj).segments[j]?).map Entry.shape := by
      have := congrArg (fun l => l[j]?) h3
      simpa [List.getElem?_map] using this
    rw [List.getElem?_map, List.getElem?_map]
    cases hi : (mediaPlaylist st si false).segments[j]? with
    | none =>
      rw [hi] at gi
      cases hj : (mediaPlaylist st sj false).segments[j]? with
      | none => rfl
      | some y =>
        rw [hj] at gj
        cases hei : (st.stream si).segments[j]? <;> cases hej : (st.stream sj).segments[j]? <;>
          simp [hei, hej] at gi gj hs
    | some x =>
      rw [hi] at gi
      cases hj : (mediaPlaylist st sj false).segments[j]? with
      | none =>
        rw [hj] at gj
        cases hei : (st.stream si).segments[j]? <;> cases hej : (st.stream sj).segments[j]? <;>
          simp [hei, hej] at gi gj hs
      | some y =>
        rw [hj] at gj
        cases hei : (st.stream si).segments[j]? with
        | none => simp [hei] at gi
        | some ei =>
          cases hej : (st.stream sj).segments[j]? with
          | none => simp [hej] at gj
          | some ej =>
            simp only [hei, hej, Option.map_some, Option.some.injEq, PlSeg.core] at gi gj hs
            cases ei <;> cases ej <;>
              simp [entryCore, Entry.shape, Entry.isGap, Entry.duration] at gi gj hs <;>
              simp [gi.1, gi.2.1, gj.1, gj.2.1, hs]

set_option maxRecDepth 100000 in
example : 0 < (run demoStart (demoOps 60)).streams.length ∧ 1 < (run demoStart (demoOps 60)).streams.length ∧
    ((run demoStart (demoOps 60)).stream 1).deleteCount = 2 := by decide +kernel

end Hls.Props.C04
