import Hls.PartDur.LemmasFind
import Hls.PartDur.LemmasTime
import Hls.PartDur.LemmasRun
/-!
# C19 — LL-HLS parts are regular: non-final parts within 85–100 % of PART-TARGET

Property theorems only (helper lemmas: `Hls/PartDur/Lemmas*.lean`). The theorems are about the
definitions REGENERATED from `/repo/muxer_segmenter.go` on every run
(`Hls.Gen.partDurationIsCompatible`, `findLoop`, `findCompatiblePartDuration`,
`timestampToDuration`, …). Notation: `s` = sample duration in ns as the muxer sees it
(`timestampToDuration(ticks, clockRate)`), `m` = `PartMinDuration`, `a` = adjusted part duration,
`d` = sample duration in ticks, `r` = clock rate, `t0` = DTS (ticks, ≥ 0 after the 10 s offset)
at which a part starts. Go's `/`, `%` are `Int.tdiv`, `Int.tmod`; no overflow (DESIGN §7).

Two layers:
* the arithmetic of the adjusted duration (`c19_fuel_sufficient`, `c19_find_spec`, `c19_ceil`,
  `c19_bounds`) — about `D = ⌈a/s⌉·s`, the length the compatibility test itself reasons with;
* what the muxer actually emits (`c19_part_switch`, `c19_uniform`, `c19_target_stable`,
  `c19_real_bounds`, `c19_85_100`) — the duration `partNs t0 K d r` of a part of `K` samples
  that starts at tick `t0`, computed exactly as `part.endDTS − part.startDTS`.
-/
namespace Hls.Props.C19
open Hls.Gen Hls.PartDur

/-- The regenerated fuel is sufficient: more fuel never changes the result, and the result is the
first grid point `m + 5 ms·j` at which the Go loop stops (bound reached or compatible) — i.e. the
fuel recursion equals the unbounded `for` loop. -/
theorem c19_fuel_sufficient (m : Int) (sds : List Int) :
    (∀ n : Nat, findFuel m ≤ n → findLoop sds n m = findCompatiblePartDuration m sds) ∧
    ∃ j : Nat, findCompatiblePartDuration m sds = m + findStep * j ∧
      (findBound ≤ m + findStep * j ∨ partDurationIsCompatibleWithAll (m + findStep * j) sds = true) ∧
      ∀ j' : Nat, j' < j →
        m + findStep * j' < findBound ∧ partDurationIsCompatibleWithAll (m + findStep * j') sds = false := by
  obtain ⟨j, he, hfs⟩ := fuel_enough sds m (findFuel m) (Nat.le_refl _)
  refine ⟨?_, j, he, hfs.1, ?_⟩
  · intro n hn
    obtain ⟨j', he', hfs'⟩ := fuel_enough sds m n hn
    have := firstStop_unique hfs hfs'
    unfold findCompatiblePartDuration
    rw [he, he', this]
  · intro j' hj'
    have h := hfs.2 j' hj'
    simp only [stops, not_or, Bool.not_eq_true] at h
    exact ⟨by omega, h.2⟩

example : findCompatiblePartDuration 200000000 [33333333] = 200000000 := by decide
example : findFuel 200000000 = 962 := by decide

/-- Specification of the search for one sample duration: below the 5 s cap the result is compatible,
on the 5 ms grid from `m`, and is the smallest such grid point. -/
theorem c19_find_spec (m s a : Int) (ha : a = findCompatiblePartDuration m [s]) (hlt : a < 5000000000) :
    partDurationIsCompatible a s = true ∧ m ≤ a ∧ Int.tmod (a - m) 5000000 = 0 ∧
    ∀ g : Int, m ≤ g → g < a → Int.tmod (g - m) 5000000 = 0 → partDurationIsCompatible g s = false := by
  obtain ⟨_, j, he, hstop, hbefore⟩ := c19_fuel_sufficient m [s]
  have hj : (0 : Int) ≤ j := Int.natCast_nonneg _
  rw [findStep_val] at he hstop hbefore
  rw [findBound_val] at hstop
  rw [← ha] at he
  refine ⟨?_, by omega, ?_, ?_⟩
  · rcases hstop with h | h
    · omega
    · rw [compatAll_single, ← he] at h; exact h
  · rw [Int.tmod_eq_emod_of_nonneg (by omega)]; omega
  · intro g hmg hga hgrid
    obtain ⟨j', hj'⟩ := grid_index hmg hgrid
    rw [findStep_val] at hj'
    have hlt' : j' < j := by
      have : (j' : Int) < j := by omega
      exact_mod_cast this
    have := (hbefore j' hlt').2
    rw [compatAll_single, ← hj'] at this
    exact this

/-- 25 fps (s = 40 ms), PartMinDuration 50 ms: 50, 55, 60, 65 ms are rejected, 70 ms is taken. -/
example : findCompatiblePartDuration 50000000 [40000000] = 70000000 ∧ (70000000 : Int) < 5000000000 := by decide

/-- `D = ⌈a/s⌉·s` really is `a` rounded up to whole samples, and the translated Bool function is
exactly `s ≤ a ∧ 100·a > 85·D − (85·D mod 100)` (= `85·D < 100·a` since `D ≥ 0`). -/
theorem c19_ceil (a s : Int) (ha : 0 ≤ a) (hs : 0 < s) :
    a ≤ ceilTo a s ∧ ceilTo a s < a + s ∧
    (partDurationIsCompatible a s = true ↔
      s ≤ a ∧ 100 * a > 85 * ceilTo a s - Int.tmod (85 * ceilTo a s) 100) ∧
    (partDurationIsCompatible a s = true ↔ s ≤ a ∧ 85 * ceilTo a s < 100 * a) :=
  ⟨(ceilTo_spec ha hs).1, (ceilTo_spec ha hs).2, compat_iff_raw a s, compat_iff ha hs⟩

/-- 30 fps at 90 kHz (3000 ticks → 33 333 333 ns), a = 200 ms: D = 7 samples, compatible. -/
example : ceilTo 200000000 33333333 = 233333331 ∧ partDurationIsCompatible 200000000 33333333 = true := by decide
/-- 25 fps, a = 50 ms: D = 80 ms, 85 % of it is 68 ms > 50 ms: not compatible. -/
example : ceilTo 50000000 40000000 = 80000000 ∧ partDurationIsCompatible 50000000 40000000 = false := by decide

/-- PART-TARGET `T = ⌈D/1 ms⌉·1 ms` keeps `D` within 85–100 % of `T` for every `D ≥ 5.1 ms`.
5.1 ms is the true threshold (see the counterexample below; the design's 5 667 µs is sufficient,
not tight). -/
theorem c19_85_100 (D : Int) (hD : 5100000 ≤ D) :
    D ≤ ceilMs D ∧ 85 * ceilMs D ≤ 100 * D ∧ ceilMs D < D + 1000000 := by
  have hms : (0 : Int) < msNs := by decide
  obtain ⟨h1, h2, _⟩ := ceilDiv_spec (by omega : 0 ≤ D) hms
  have hv : msNs = 1000000 := rfl
  unfold ceilMs
  rw [hv] at h1 h2 ⊢
  refine ⟨h1, ?_, h2⟩
  by_cases h6 : D ≤ 6 * 1000000
  · have := ceilDiv_le_of_le_mul (by omega : 0 ≤ D) (by decide : (0 : Int) < 1000000) h6
    omega
  · omega

example : ceilMs 233333331 = 234000000 := by decide
/-- tightness: one nanosecond below the threshold the 85 % rule fails -/
example : ¬ (85 * ceilMs 5099999 ≤ 100 * 5099999) := by decide

/-- Bounds of the adjusted duration and of `D = ⌈a/s⌉·s` for the property's quantifier
(`50 ms ≤ PartMinDuration ≤ 2 s`, sample duration at most 1 s): the search always succeeds below the
cap, `PartMinDuration ≤ a ≤ 2·max m s`, hence `m ≤ D < 2·max m s + s`. Fully general (no case left
to a table): a compatible grid point exists in `(0.85·k·s, k·s]` for `k = 2` when `s ≥ m` and for
`k = ⌈m/s⌉` when `s < m`, because that window is at least 5 ms wide once `k·s ≥ 50 ms`. -/
theorem c19_bounds (m s : Int) (hm1 : 50000000 ≤ m) (hm2 : m ≤ 2000000000)
    (hs1 : 0 < s) (hs2 : s ≤ 1000000000) :
    let a := findCompatiblePartDuration m [s]
    let D := ceilTo a s
    m ≤ D ∧ D < 2 * max m s + s ∧
    m ≤ a ∧ a ≤ 2 * max m s ∧ a < 5000000000 ∧ partDurationIsCompatible a s = true := by
  intro a D
  -- a compatible grid point g ≤ 2·max m s
  have hw : ∃ j : Nat, partDurationIsCompatible (m + findStep * j) s = true ∧
      m + findStep * j ≤ 2 * max m s := by
    by_cases hcase : m ≤ s
    · -- k = 2
      obtain ⟨j, h1, h2⟩ := grid_hit (m := m) (lo := (170 * s) / 100) (by omega)
      refine ⟨j, compat_of_le_mul (k := 2) hs1 (by omega) (by omega) (by omega), by omega⟩
    · -- k = ⌈m/s⌉
      have hsm : s < m := by omega
      obtain ⟨k1, k2, k3⟩ := ceilDiv_spec (by omega : 0 ≤ m) hs1
      by_cases hc : 85 * (ceilDiv m s * s) < 100 * m
      · refine ⟨0, ?_, by simp; omega⟩
        simp only [Int.natCast_zero, Int.mul_zero, Int.add_zero]
        exact compat_of_le_mul (k := ceilDiv m s) hs1 (by omega) k1 hc
      · obtain ⟨j, h1, h2⟩ := grid_hit (m := m) (lo := (85 * (ceilDiv m s * s)) / 100) (by omega)
        refine ⟨j, compat_of_le_mul (k := ceilDiv m s) hs1 (by omega) (by omega) (by omega), by omega⟩
  obtain ⟨j, hcomp, hle⟩ := hw
  have hale : a ≤ m + findStep * j := by
    apply find_le_of_stops
    right; rw [compatAll_single]; exact hcomp
  have ha5 : a < 5000000000 := by omega
  obtain ⟨hc, hma, _, _⟩ := c19_find_spec m s a rfl ha5
  obtain ⟨hD1, hD2⟩ := ceilTo_spec (by omega : 0 ≤ a) hs1
  refine ⟨by omega, by omega, hma, by omega, ha5, hc⟩

/-- 30 fps, PartMinDuration 200 ms -/
example : findCompatiblePartDuration 200000000 [33333333] = 200000000 ∧
    ceilTo 200000000 33333333 = 233333331 ∧ (233333331 : Int) < 2 * 200000000 + 33333333 := by decide
/-- 1 fps (s = 1 s ≥ m), PartMinDuration 950 ms: a = 1 s = D (the only compatible length below 1.7 s) -/
example : findCompatiblePartDuration 950000000 [1000000000] = 1000000000 := by decide

/-- The part switch of `fmp4WriteSample`,
`timestampToDuration(next.dts, r) − nextPart.startDTS ≥ a` with `nextPart.startDTS =
timestampToDuration(t0, r)`, when the look-ahead sample is the `k`-th after the part start and the
sample duration is the constant `d` ticks: it fires iff `k·d/r ≥ a` as exact rationals
(`a·r ≤ k·d·10^9`), i.e. iff `k ≥ partSamples a d r = ⌈a·r/(d·10^9)⌉` — whatever the phase `t0`.
The two floors of `timestampToDuration` cannot flip the decision as soon as `a` lies on a grid `g`
that divides one second and is no finer than one tick (`r ≤ g`): e.g. `a` a multiple of 5 ms
(`PartMinDuration` a multiple of 5 ms) and `r ≤ 5 000 000`, or `a` a multiple of 1 ms and
`r ≤ 1 000 000`. (Without such a grid the decision CAN depend on `t0`; see notes/muxarith.md.) -/
theorem c19_part_switch (a d r g t0 k : Int) (ha : 0 ≤ a) (hd : 0 < d) (hr : 0 < r) (hrg : r ≤ g)
    (hg : g ∣ 1000000000) (hag : g ∣ a) (ht : 0 ≤ t0) (hk : 0 ≤ k) :
    (partNs t0 k d r ≥ a ↔ a * r ≤ k * d * 1000000000) ∧
    (switchFires a t0 k d r = true ↔ partSamples a d r ≤ k) := by
  have h1 : partNs t0 k d r ≥ a ↔ a * r ≤ k * d * 1000000000 := by
    rw [partNs_eq ht hk (by omega) hr]
    exact floor_diff_ge_iff hr hrg hag (Dvd.dvd.mul_left hg (k * d))
  refine ⟨h1, ?_⟩
  unfold switchFires partSamples
  rw [decide_eq_true_eq, h1]
  have har : 0 ≤ a * r := Int.mul_nonneg ha (by omega)
  have hde : 0 < d * secNs := Int.mul_pos hd (by decide)
  rw [ceilDiv_le_iff har hde]
  have : k * (d * secNs) = k * d * 1000000000 := by unfold secNs; ring
  rw [this]

/-- 30 fps at 90 kHz, a = 200 ms: 6 samples (18 000 ticks = exactly 200 ms), although
`⌈a/s⌉ = 7` with the floored `s = 33 333 333 ns`. -/
example : partSamples 200000000 3000 90000 = 6 ∧ ceilDiv 200000000 33333333 = 7 := by decide
example : switchFires 200000000 900000 6 3000 90000 = true ∧ switchFires 200000000 900000 5 3000 90000 = false := by decide

/-- All parts of `k` samples have the same length up to the 1 ns of the two floors. -/
theorem c19_uniform (t0 t0' k d r : Int) (hd : 0 < d) (hr : 0 < r) (ht : 0 ≤ t0) (ht' : 0 ≤ t0') (hk : 0 ≤ k) :
    partNs t0 k d r - partNs t0' k d r ≤ 1 ∧ partNs t0' k d r - partNs t0 k d r ≤ 1 ∧
    timestampToDuration (k * d) r ≤ partNs t0 k d r ∧ partNs t0 k d r ≤ timestampToDuration (k * d) r + 1 := by
  have hkd : 0 ≤ k * d := Int.mul_nonneg hk (by omega)
  rw [partNs_eq ht hk (by omega) hr, partNs_eq ht' hk (by omega) hr, toDur_eq_floor hkd hr]
  have b1 := floor_add_bounds (t0 * 1000000000) (k * d * 1000000000) hr
  have b2 := floor_add_bounds (t0' * 1000000000) (k * d * 1000000000) hr
  omega

/-- 29.97 fps, 7 samples: 233 566 666 or 233 566 667 ns depending on the phase -/
example : partNs 900000 7 3003 90000 = 233566666 ∧ partNs 900003 7 3003 90000 = 233566667 := by decide

/-- PART-TARGET is stable: for clock rates up to 1 MHz the millisecond ceiling of a part's duration
does not depend on where the part starts, so `partTargetDuration` computes the same value at every
`rotateParts` once a full part is in the window — no "part duration changed" error, the same
PART-TARGET in consecutive playlists. -/
theorem c19_target_stable (t0 t0' k d r : Int) (hd : 0 < d) (hr : 0 < r) (hr6 : r ≤ 1000000)
    (ht : 0 ≤ t0) (ht' : 0 ≤ t0') (hk : 0 ≤ k) :
    ceilMs (partNs t0 k d r) = ceilMs (partNs t0' k d r) := by
  have hms : (0 : Int) < 1000000 := by decide
  have hkd : 0 ≤ k * d := Int.mul_nonneg hk (by omega)
  have hp : ∀ t : Int, 0 ≤ t → 0 ≤ partNs t k d r := by
    intro t h
    rw [partNs_eq h hk (by omega) hr]
    have := Int.ediv_le_ediv hr (by omega : t * 1000000000 ≤ t * 1000000000 + k * d * 1000000000)
    omega
  -- for every multiple A of 1 ms: `partNs ≤ A` does not depend on the phase
  have key : ∀ t t' : Int, 0 ≤ t → 0 ≤ t' →
      ceilDiv (partNs t' k d r) 1000000 ≤ ceilDiv (partNs t k d r) 1000000 := by
    intro t t' h h'
    rw [ceilDiv_le_iff (hp t' h') hms]
    have h1 := (ceilDiv_spec (hp t h) hms).1
    have e := partNs_eq h hk (by omega : 0 ≤ d) hr
    have e' := partNs_eq h' hk (by omega : 0 ≤ d) hr
    have hdv : (1000000 : Int) ∣ ceilDiv (partNs t k d r) 1000000 * 1000000 := ⟨_, Int.mul_comm _ _⟩
    have hdy : (1000000 : Int) ∣ k * d * 1000000000 := ⟨k * d * 1000, by ring⟩
    have s1 := (floor_diff_le_iff (X := t * 1000000000) hr hr6 hdv hdy).1 (by omega)
    have s2 := (floor_diff_le_iff (X := t' * 1000000000) hr hr6 hdv hdy).2 s1
    omega
  show ceilDiv (partNs t0 k d r) 1000000 * 1000000 = ceilDiv (partNs t0' k d r) 1000000 * 1000000
  have := key t0 t0' ht ht'
  have := key t0' t0 ht' ht
  have : ceilDiv (partNs t0 k d r) 1000000 = ceilDiv (partNs t0' k d r) 1000000 := by omega
  rw [this]

example : ceilMs (partNs 900000 7 3003 90000) = 234000000 ∧ ceilMs (partNs 900003 7 3003 90000) = 234000000 := by decide

/-- What the muxer emits: a non-final part holds `K = partSamples a d r` samples; its duration
`P` (as listed in `#EXT-X-PART:DURATION`) satisfies `PartMinDuration ≤ a ≤ P ≤ a + s + 1 ns`
and therefore `P ≤ 2·max m s + s + 1 ns` (the property's "less than twice the larger of
PartMinDuration and the sample duration plus one sample duration", up to the nanosecond that the
floors of `timestampToDuration` introduce; `s` itself is the floor of the true sample duration). -/
theorem c19_real_bounds (m d r t0 : Int) (hm1 : 50000000 ≤ m) (hm2 : m ≤ 2000000000)
    (hd : 0 < d) (hr : 0 < r) (ht : 0 ≤ t0)
    (hs1 : 0 < timestampToDuration d r) (hs2 : timestampToDuration d r ≤ 1000000000) :
    let s := timestampToDuration d r
    let a := findCompatiblePartDuration m [s]
    let P := partNs t0 (partSamples a d r) d r
    m ≤ P ∧ a ≤ P ∧ P ≤ a + s + 1 ∧ P ≤ 2 * max m s + s + 1 := by
  intro s a P
  obtain ⟨_, _, hma, ha2, _, _⟩ := c19_bounds m s hm1 hm2 hs1 hs2
  have ha0 : 0 ≤ a := by omega
  have har : 0 ≤ a * r := Int.mul_nonneg ha0 (by omega)
  have hde : 0 < d * secNs := Int.mul_pos hd (by decide)
  obtain ⟨k1, k2, k3⟩ := ceilDiv_spec har hde
  have hK : 0 ≤ partSamples a d r := k3
  have hne : r ≠ 0 := by omega
  have eY : partSamples a d r * (d * secNs) = partSamples a d r * d * 1000000000 := by unfold secNs; ring
  have k1' : a * r ≤ partSamples a d r * d * 1000000000 := by rw [← eY]; exact k1
  have k2' : partSamples a d r * d * 1000000000 < a * r + d * 1000000000 := by
    have : d * secNs = d * 1000000000 := rfl
    rw [← eY, ← this]; exact k2
  have hP : P = (t0 * 1000000000 + partSamples a d r * d * 1000000000) / r - (t0 * 1000000000) / r :=
    partNs_eq ht hK (by omega) hr
  have hs : s = (d * 1000000000) / r := toDur_eq_floor (by omega) hr
  -- lower bound
  have lo : a ≤ P := by
    rw [hP]
    have hmono := Int.ediv_le_ediv hr
      (by omega : t0 * 1000000000 + a * r ≤ t0 * 1000000000 + partSamples a d r * d * 1000000000)
    rw [Int.add_mul_ediv_right _ _ hne] at hmono
    omega
  -- upper bound
  have hi : P ≤ a + s + 1 := by
    have b := (floor_add_bounds (t0 * 1000000000) (partSamples a d r * d * 1000000000) hr).2
    have hmono := Int.ediv_le_ediv hr
      (by omega : partSamples a d r * d * 1000000000 ≤ d * 1000000000 + a * r)
    rw [Int.add_mul_ediv_right _ _ hne] at hmono
    rw [hP, hs]
    omega
  exact ⟨by omega, lo, hi, by omega⟩

/-- 30 fps at 90 kHz, PartMinDuration 200 ms: parts of 6 samples, exactly 200 ms. -/
example : let s := timestampToDuration 3000 90000
    let a := findCompatiblePartDuration 200000000 [s]
    s = 33333333 ∧ a = 200000000 ∧ partSamples a 3000 90000 = 6 ∧ partNs 900000 6 3000 90000 = 200000000 := by decide
/-- AAC 44.1 kHz (1024 ticks), PartMinDuration 200 ms: 9 samples, 208 979 591/2 ns, PART-TARGET 209 ms -/
example : let s := timestampToDuration 1024 44100
    let a := findCompatiblePartDuration 200000000 [s]
    s = 23219954 ∧ a = 200000000 ∧ partSamples a 1024 44100 = 9 ∧
    partNs 441000 9 1024 44100 = 208979591 ∧ ceilMs 208979591 = 209000000 := by decide

/-- Uniformity along a whole run of the segmenter model (`Hls.PartDur.write` mirrors
`fmp4WriteSample` + `rotateParts` + `rotateSegments` for the leading track; `runFrom s b d flags`
writes samples at DTS `b, b+d, b+2d, …` with the given random-access flags): with a constant sample
duration `d`, whatever the key-frame placement, `SegmentMinDuration` and window size, EVERY non-final
part — every part of the open segment and all but the last part of every finished segment still in
the window — holds exactly `K = partSamples a d r` samples, i.e. equals `partNs t0 K d r` for the tick
`t0 ≥ 0` at which it started. Together with `c19_uniform` / `c19_target_stable` / `c19_real_bounds`:
all of them have the same duration up to 1 ns, the same millisecond ceiling, and lie in
`[PartMinDuration, 2·max + s + 1 ns]`. Hypothesis: `PartMinDuration` on a grid `g` that divides 5 ms
and is no finer than a tick (`r ≤ g`), e.g. whole milliseconds and `r ≤ 1 MHz`; without it the claim
is FALSE for the code as it is (finding candidate F17, notes/muxarith.md). -/
theorem c19_run_uniform (cfg : Cfg) (d g b : Int) (ra0 : Bool) (ras : List Bool)
    (hr : 0 < cfg.rate) (hd : 0 < d) (hs : timestampToDuration d cfg.rate ≠ 0) (hm : 0 < cfg.partMin)
    (hrg : cfg.rate ≤ g) (hg5 : g ∣ 5000000) (hgm : g ∣ cfg.partMin)
    (hb : 0 ≤ b + durationToTimestamp 10000000000 cfg.rate) :
    let a := findCompatiblePartDuration cfg.partMin [timestampToDuration d cfg.rate]
    let K := partSamples a d cfg.rate
    ∀ p ∈ nonFinal (runFrom { cfg := cfg } b d (ra0 :: ras)), ∃ t0, 0 ≤ t0 ∧ p = partNs t0 K d cfg.rate := by
  intro a K
  obtain ⟨_, j, he, _, _⟩ := c19_fuel_sufficient cfg.partMin [timestampToDuration d cfg.rate]
  rw [findStep_val] at he
  have hj : (0 : Int) ≤ j := Int.natCast_nonneg _
  have hapos : 0 < a := by
    show 0 < findCompatiblePartDuration cfg.partMin [timestampToDuration d cfg.rate]
    rw [he]; omega
  have hag : g ∣ a := by
    show g ∣ findCompatiblePartDuration cfg.partMin [timestampToDuration d cfg.rate]
    rw [he]
    exact Int.dvd_add hgm (Dvd.dvd.mul_right hg5 _)
  have hg : g ∣ 1000000000 := Int.dvd_trans hg5 (by decide)
  have H : RunHyp cfg a d K g := ⟨hr, hd, hs, rfl, hapos, rfl, hrg, hg, hag⟩
  exact run_uniform H b hb ra0 ras

/-- PART-TARGET along a run: whenever the state knows a non-final part (in particular whenever a
served playlist lists one — it lists the open segment and the last two finished ones, a subset of the
window), the muxer's `partTargetDuration` state equals `T = ceilMs (partNs 0 K d r)`, the millisecond
ceiling of a `K`-sample part — one fixed value for the whole run. Hence the announced PART-TARGET is
the same in any two playlists that list a non-final part, every such part `P` satisfies
`P ≤ T` and (by `c19_85_100`, `P ≥ PartMinDuration ≥ 5.1 ms`) `85·T ≤ 100·P`. Needs `r ≤ 1 MHz`
(`c19_target_stable`) in addition to the hypotheses of `c19_run_uniform`. -/
theorem c19_run_target (cfg : Cfg) (d g b : Int) (ra0 : Bool) (ras : List Bool)
    (hr : 0 < cfg.rate) (hr6 : cfg.rate ≤ 1000000) (hd : 0 < d) (hs : timestampToDuration d cfg.rate ≠ 0)
    (hm : 0 < cfg.partMin) (hrg : cfg.rate ≤ g) (hg5 : g ∣ 5000000) (hgm : g ∣ cfg.partMin)
    (hb : 0 ≤ b + durationToTimestamp 10000000000 cfg.rate) :
    let a := findCompatiblePartDuration cfg.partMin [timestampToDuration d cfg.rate]
    let K := partSamples a d cfg.rate
    let s := runFrom { cfg := cfg } b d (ra0 :: ras)
    nonFinal s ≠ [] →
      s.partTarget = ceilMs (partNs 0 K d cfg.rate) ∧
      ∀ p ∈ nonFinal s, p ≤ s.partTarget ∧ ceilMs p = s.partTarget := by
  intro a K s hne
  obtain ⟨_, j, he, _, _⟩ := c19_fuel_sufficient cfg.partMin [timestampToDuration d cfg.rate]
  rw [findStep_val] at he
  have hj : (0 : Int) ≤ j := Int.natCast_nonneg _
  have hapos : 0 < a := by
    show 0 < findCompatiblePartDuration cfg.partMin [timestampToDuration d cfg.rate]
    rw [he]; omega
  have hag : g ∣ a := by
    show g ∣ findCompatiblePartDuration cfg.partMin [timestampToDuration d cfg.rate]
    rw [he]
    exact Int.dvd_add hgm (Dvd.dvd.mul_right hg5 _)
  have hg : g ∣ 1000000000 := Int.dvd_trans hg5 (by decide)
  have H : RunHyp cfg a d K g := ⟨hr, hd, hs, rfl, hapos, rfl, hrg, hg, hag⟩
  have hK0 : 0 ≤ K := by have := H.K_pos; omega
  obtain ⟨t, ht, hpt⟩ := run_target H b hb ra0 ras hne
  have hstab : ∀ t', 0 ≤ t' → ceilMs (partNs t' K d cfg.rate) = ceilMs (partNs 0 K d cfg.rate) :=
    fun t' ht' => c19_target_stable t' 0 K d cfg.rate hd hr hr6 ht' (Int.le_refl 0) hK0
  have hT : s.partTarget = ceilMs (partNs 0 K d cfg.rate) := by
    show (runFrom { cfg := cfg } b d (ra0 :: ras)).partTarget = _
    rw [hpt, hstab t ht]
  refine ⟨hT, ?_⟩
  intro p hp
  obtain ⟨t0, ht0, hpe⟩ := run_uniform H b hb ra0 ras p hp
  have hc : ceilMs p = s.partTarget := by rw [hT, hpe, hstab t0 ht0]
  refine ⟨?_, hc⟩
  -- p ≤ ceilMs p
  have hp0 : 0 ≤ p := by
    rw [hpe, partNs_eq ht0 hK0 (Int.le_of_lt hd) hr]
    have := Int.ediv_le_ediv hr (by
      have : 0 ≤ K * d * 1000000000 := Int.mul_nonneg (Int.mul_nonneg hK0 (Int.le_of_lt hd)) (by decide)
      omega : t0 * 1000000000 ≤ t0 * 1000000000 + K * d * 1000000000)
    omega
  have := (ceilDiv_spec hp0 (by decide : (0 : Int) < msNs)).1
  rw [← hc]; exact this

-- 30 fps at 90 kHz, PartMinDuration 200 ms, 14 samples from DTS 0 (key frame first): two full parts
-- of 6 samples = 200 ms each
set_option maxRecDepth 20000 in
example :
    let cfg : Cfg := { partMin := 200000000, segMin := 1000000000, segCount := 7, rate := 90000 }
    (runFrom { cfg := cfg } 0 3000
      [true, false, false, false, false, false, false, false, false, false, false, false, false, false]).openParts
      = [200000000, 200000000] ∧
    (runFrom { cfg := cfg } 0 3000
      [true, false, false, false, false, false, false, false, false, false, false, false, false, false]).partTarget
      = ceilMs (partNs 0 6 3000 90000) ∧
    partSamples 200000000 3000 90000 = 6 ∧ (5000000 : Int) ∣ 200000000 := by decide

end Hls.Props.C19
