import Hls.Muxer.ReqMain
import Hls.Muxer.ReqQuery
import Hls.Muxer.ReqExample
/-!
# C06 — LL-HLS blocking reload, preload hints and delta updates behave per spec (SEQUENTIAL half)

Property theorems only (helper lemmas: `Hls/Muxer/Req*.lean`; vocabulary: `Hls/Muxer/ReqSpec.lean`).
All statements are about the executable model `Hls/Muxer/Model.lean` (validated against the real muxer
by the `muxer` correspondence stream) in every state `Reachable` by `run` from a started Low-Latency
muxer.  The schedule-quantified clauses of C06 (never answered early under any interleaving, no lost
wake-up, answered without further input once woken) are the concurrent half (`Hls/Props/C06Conc.lean`,
branch slice-muxconc); what is proved here is what every requester computes from ONE muxer state and
how that evolves along the writer's steps.

Vocabulary (`ReqSpec.lean`):
* `s.entryAt M` — the entry listed under media sequence number `M` (`MEDIA-SEQUENCE = deleteCount`);
* `s.published M P` — part `P` of segment `M` exists: `M` open with `> P` parts, or `M` listed with `> P` parts;
* `s.normalise M P` — roll-over: while the entry listed under `M` has `≤ P` parts, continue with `(M+1, 0)`;
  stops past the last listed entry (no roll-over out of the open segment); a gap entry has no parts;
* `containsSeg` / `containsPart` — what "the playlist contains" means (see their doc comments; for
  segments older than the last two the parts are no longer itemised: the segment URI itself is listed);
* `s.lowerBound` — the code's `nextSegmentID - uint64(len(segments)-1)` in uint64 arithmetic.
`h64 : nextSegmentID (+1) < 2^64` is the no-overflow assumption of DESIGN §7.4.
-/
namespace Hls.Props.C06
open Hls.Muxer

/-- Reachable states satisfy the window/path invariant (ids of the real entries are consecutive and end
at `nextSegmentID − 1`, the gaps sit at the head below 7, `deleteCount + #entries = nextSegmentID`). -/
theorem c06_window_invariant (st : State) (hr : Reachable st) (si : Nat) (hsi : si < st.streams.length) :
    let s := st.stream si
    WinFrom s.deleteCount s.segments ∧
    (s.segments ≠ [] → s.deleteCount + s.segments.length = s.nextSegmentID) ∧
    (s.segments = [] → s.nextSegmentID = 7 ∧ s.deleteCount = 0) ∧
    (∀ g, s.nextSegment = some g → g.id = s.nextSegmentID) := by
  obtain ⟨cfg, st0, ops, hll, hs, rfl⟩ := hr
  have h := (run_inv cfg st0 ops hll hs).streams si hsi
  refine ⟨h.win, h.len, h.fresh, fun g hg => ?_⟩
  exact h.openId (g.id, g.parts) (by simp [StreamSt.view, hg])

set_option maxRecDepth 20000 in
example : (Ex.st 23).streams.length = 1 ∧ ((Ex.st 23).stream 0).deleteCount = 4 ∧
    ((Ex.st 23).stream 0).nextSegmentID = 11 ∧ ((Ex.st 23).stream 0).segments.length = 7 := by decide

/-- **respond ⇒ contains.**  A request `_HLS_msn=M` (without `_HLS_part`) that is answered is answered
with a playlist (delta iff `_HLS_skip`) that covers `M` as a complete listed entry; with `_HLS_part=P`
the normalised part `(M',P')` is published and the served playlist contains it. -/
theorem c06_respond_contains (st : State) (hr : Reachable st) (si : Nat) (hsi : si < st.streams.length)
    (h64 : (st.stream si).nextSegmentID < two64) (M : Nat) (part : Option Nat) (skip d : Bool)
    (h : reqDecision st si (some M) part skip = .respond d) :
    d = skip ∧
    match part with
    | none => containsSeg si (st.stream si) (mediaPlaylist st si d) M
    | some P =>
      (st.stream si).published ((st.stream si).normalise M P).1 ((st.stream si).normalise M P).2 ∧
      containsPart si (st.stream si) (mediaPlaylist st si d)
        ((st.stream si).normalise M P).1 ((st.stream si).normalise M P).2 := by
  obtain ⟨cfg, st0, ops, hll, hs, rfl⟩ := hr
  have hinv := run_inv cfg st0 ops hll hs
  cases part with
  | none => exact respond_containsSeg _ si hinv hsi h64 M skip d h
  | some P => exact respond_containsPart _ si hinv hsi h64 M P skip d h

-- non-vacuity: msn 9 / part 7 past the end of complete segment 9 rolls over to (10, 0) and is answered;
-- msn 10 without part is answered; msn 11 (open) part 1 is answered
set_option maxRecDepth 20000 in
example : reqDecision (Ex.st 23) 0 (some 9) (some 7) false = .respond false ∧
    ((Ex.st 23).stream 0).normalise 9 7 = (10, 0) ∧
    reqDecision (Ex.st 23) 0 (some 10) none true = .respond true ∧
    reqDecision (Ex.st 23) 0 (some 11) (some 1) false = .respond false := by decide

/-- **400 only when.**  Exact characterisation of the immediate 400 (numbers already parsed): `_HLS_part`
without `_HLS_msn`, or `M > nextSegmentID + 1`, or `M` below the code's uint64 threshold. -/
theorem c06_400_only_when (st : State) (hr : Reachable st) (si : Nat) (msn part : Option Nat) (skip : Bool) :
    reqDecision st si msn part skip = .bad400 ↔
      (msn = none ∧ part.isSome) ∨
      (∃ M, msn = some M ∧ (M > (st.stream si).nextSegmentID + 1 ∨ M < (st.stream si).lowerBound)) := by
  obtain ⟨cfg, st0, ops, hll, hs, rfl⟩ := hr
  exact bad400_iff _ si (run_inv cfg st0 ops hll hs).ll msn part skip

/-- the threshold: with listed entries it is `deleteCount + 1`, i.e. `M < lowerBound ⇔ M ≤ oldest listed
MSN` (pinned by `TestMuxerExpiredSegment`); with no entries (`len = 0`) the uint64 subtraction wraps to
`nextSegmentID + 1`, so every request is rejected except `M = nextSegmentID + 1`, which waits. -/
theorem c06_400_threshold (st : State) (hr : Reachable st) (si : Nat) (hsi : si < st.streams.length)
    (h64 : (st.stream si).nextSegmentID + 1 < two64) :
    ((st.stream si).segments ≠ [] → (st.stream si).lowerBound = (st.stream si).deleteCount + 1) ∧
    ((st.stream si).segments = [] → (st.stream si).lowerBound = (st.stream si).nextSegmentID + 1 ∧
      ∀ M part skip, reqDecision st si (some M) part skip =
        if M = (st.stream si).nextSegmentID + 1 then .wait else .bad400) := by
  obtain ⟨cfg, st0, ops, hll, hs, rfl⟩ := hr
  have hinv := run_inv cfg st0 ops hll hs
  refine ⟨fun hne => lowerBound_eq _ si _ (hinv.streams si hsi) hne (by omega), fun he => ?_⟩
  have hl := lowerBound_empty _ he h64
  refine ⟨hl, fun M part skip => ?_⟩
  rw [reqDecision_msn _ si hinv.ll, hl]
  have hc : ((run st0 ops).stream si).hasContent .ll = false := by
    cases hcc : ((run st0 ops).stream si).hasContent .ll with
    | false => rfl
    | true => exact absurd he ((hasContent_ll _).mp hcc)
  rw [hc]
  by_cases hM : M = ((run st0 ops).stream si).nextSegmentID + 1
  · rw [if_pos hM, if_neg (by omega)]; simp
  · rw [if_neg hM, if_pos (by omega)]

/-- unparsable numbers (`strconv.ParseUint(_,10,64)` fails on `_HLS_msn` or `_HLS_part`) are an immediate
400, and otherwise the raw request behaves as the parsed one. -/
theorem c06_400_unparsable (st : State) (hr : Reachable st) (si : Nat) (msn part : String) (skip : Bool) :
    (parseMSNPart msn part = none → reqDecisionRaw st si msn part skip = .bad400) ∧
    (∀ m p, parseMSNPart msn part = some (m, p) → reqDecisionRaw st si msn part skip = reqDecision st si m p skip) := by
  obtain ⟨cfg, st0, ops, hll, hs, rfl⟩ := hr
  have hv := (run_inv cfg st0 ops hll hs).ll
  unfold reqDecisionRaw
  rw [if_pos hv]
  exact ⟨fun h => by rw [h], fun m p h => by rw [h]⟩

example : parseMSNPart "abc" "" = none ∧ parseMSNPart "10" "x1" = none ∧ parseMSNPart "+1" "" = none ∧
    parseMSNPart "1_0" "" = none ∧ parseMSNPart "18446744073709551616" "" = none ∧
    parseMSNPart "18446744073709551615" "" = some (some 18446744073709551615, none) ∧
    parseMSNPart "" "3" = some (none, some 3) ∧ parseMSNPart "007" "0" = some (some 7, some 0) := by decide

set_option maxRecDepth 20000 in
example : reqDecision (Ex.st 23) 0 (some 4) none false = .bad400 ∧      -- oldest listed MSN: expired
    reqDecision (Ex.st 23) 0 (some 5) none false = .respond false ∧     -- a listed gap, no part: answered
    reqDecision (Ex.st 23) 0 (some 13) (some 0) false = .bad400 ∧       -- more than one past the open segment
    reqDecision (Ex.st 23) 0 none (some 0) false = .bad400 ∧
    reqDecision (Ex.st 0) 0 (some 7) none false = .bad400 ∧             -- no entries yet: only 8 passes, and waits
    reqDecision (Ex.st 0) 0 (some 8) none false = .wait := by decide

/-- **never rejects the open segment or the one after it** (once the playlist is available). -/
theorem c06_never_rejects_open (st : State) (hr : Reachable st) (si : Nat) (hsi : si < st.streams.length)
    (h64 : (st.stream si).nextSegmentID < two64) (hc : (st.stream si).hasContent .ll = true) (M : Nat)
    (hM : M = (st.stream si).nextSegmentID ∨ M = (st.stream si).nextSegmentID + 1) (part : Option Nat) (skip : Bool) :
    reqDecision st si (some M) part skip ≠ .bad400 := by
  obtain ⟨cfg, st0, ops, hll, hs, rfl⟩ := hr
  exact not_bad400_open _ si (run_inv cfg st0 ops hll hs) hsi h64 ((hasContent_ll _).mp hc) M hM part skip

set_option maxRecDepth 20000 in
example : ((Ex.st 23).stream 0).hasContent .ll = true ∧ reqDecision (Ex.st 23) 0 (some 11) (some 9) false = .wait ∧
    reqDecision (Ex.st 23) 0 (some 12) none false = .wait := by decide

/-- **wait ⇒ unpublished**, FULL strength (true since the F7 repair: a gap entry named by the request
is a complete segment without parts, so any part index rolls over to the first real segment): a request
that is made to wait asks for a complete segment that is not listed yet, or for a part (after roll-over)
that has not been produced yet. -/
theorem c06_wait_means_unpublished (st : State) (hr : Reachable st) (si : Nat) (hsi : si < st.streams.length)
    (h64 : (st.stream si).nextSegmentID < two64) (hc : (st.stream si).hasContent .ll = true)
    (M : Nat) (part : Option Nat) (skip : Bool)
    (h : reqDecision st si (some M) part skip = .wait) :
    match part with
    | none => ¬ (st.stream si).listed M
    | some P => ¬ (st.stream si).published ((st.stream si).normalise M P).1 ((st.stream si).normalise M P).2 := by
  obtain ⟨cfg, st0, ops, hll, hs, rfl⟩ := hr
  exact wait_unpublished _ si (run_inv cfg st0 ops hll hs) hsi h64 ((hasContent_ll _).mp hc) M part skip h

set_option maxRecDepth 20000 in
example : reqDecision (Ex.st 23) 0 (some 11) (some 2) false = .wait ∧
    ((Ex.st 23).stream 0).entryAt 11 = none ∧ ((Ex.st 23).stream 0).openPartCount = 2 := by decide

/-- a request with a part index for a listed gap entry is ANSWERED (it normalises to part 0 of the first
real segment, which is published as soon as content exists) -/
theorem c06_gap_request_answered (st : State) (hr : Reachable st) (si : Nat) (hsi : si < st.streams.length)
    (h64 : (st.stream si).nextSegmentID < two64) (M P : Nat) (d : Int) (skip : Bool)
    (hg : (st.stream si).entryAt M = some (.gap d)) (hM : (st.stream si).deleteCount < M)
    (hpub : (st.stream si).published ((st.stream si).normalise M P).1 ((st.stream si).normalise M P).2) :
    reqDecision st si (some M) (some P) skip = .respond skip := by
  obtain ⟨cfg, st0, ops, hll, hs, rfl⟩ := hr
  have hinv := run_inv cfg st0 ops hll hs
  have hvi := hinv.streams si hsi
  obtain ⟨_, hlt, hne⟩ := entryAt_lt_next _ si _ hvi M _ hg
  have hp := (hasPart_iff _ si _ hvi hne M P (by omega)).mpr hpub
  rw [reqDecision_msn _ si hinv.ll, lowerBound_eq _ si _ hvi hne h64, if_neg (by omega)]
  simp [hp, (hasContent_ll _).mpr hne]

-- non-vacuity: after 23 frames MSN 4–6 are gaps, 7–10 segments; (5,0) and (6,3) normalise to (7,0)
set_option maxRecDepth 20000 in
example : ((Ex.st 23).stream 0).entryAt 5 = some (.gap 1000000000) ∧ ((Ex.st 23).stream 0).deleteCount < 5 ∧
    ((Ex.st 23).stream 0).normalise 5 0 = (7, 0) ∧ ((Ex.st 23).stream 0).normalise 6 3 = (7, 0) ∧
    ((Ex.st 23).stream 0).published 7 0 ∧
    reqDecision (Ex.st 23) 0 (some 5) (some 0) false = .respond false ∧
    reqDecision (Ex.st 23) 0 (some 6) (some 3) true = .respond true := by decide

/-- finding F7 (the behaviour BEFORE the repair, `hasPartLegacy` = the scan in which gap entries never
match): a request with a part index for a listed gap entry matched nothing in every reachable state — the
handler's condition `hasContent() && hasPart(M, P)` was false, the request blocked until the window slid
past the gap (then 400). -/
theorem c06_gap_request_waits_legacy (st : State) (hr : Reachable st) (si : Nat) (hsi : si < st.streams.length)
    (M P : Nat) (d : Int) (hg : (st.stream si).entryAt M = some (.gap d)) :
    (st.stream si).hasPartLegacy M P = false := by
  obtain ⟨cfg, st0, ops, hll, hs, rfl⟩ := hr
  exact hasPartLegacy_gap _ si _ ((run_inv cfg st0 ops hll hs).streams si hsi) M P d hg

set_option maxRecDepth 20000 in
/-- **F7 witness** (legacy): in the example state after 23 frames the request `_HLS_msn=5&_HLS_part=0` names a
listed gap above the expiry threshold and normalises to `(7, 0)`, which is published — the legacy scan
says "no" (the request waited), the repaired `hasPart` says "yes". -/
theorem c06_f7_witness_legacy :
    ∃ (st : State) (si M P : Nat), Reachable st ∧ si < st.streams.length ∧ (st.stream si).hasContent .ll = true ∧
      (st.stream si).deleteCount < M ∧ M < (st.stream si).nextSegmentID ∧
      (st.stream si).published ((st.stream si).normalise M P).1 ((st.stream si).normalise M P).2 ∧
      (st.stream si).hasPartLegacy M P = false ∧ (st.stream si).hasPart M P = true :=
  ⟨Ex.st 23, 0, 5, 0, Ex.reachable 23, by decide, by decide, by decide, by decide, by decide, by decide, by decide⟩

/-- **no more input, part 1 (pure):** the decision is a function of the stream's view (window, counters,
open segment's parts) and the variant only — nothing a requester holds besides the muxer state. -/
theorem c06_decision_pure (a b : State) (si : Nat) (hv : a.cfg.variant = b.cfg.variant)
    (hview : (a.stream si).view = (b.stream si).view) (msn part : Option Nat) (skip : Bool) :
    reqDecision a si msn part skip = reqDecision b si msn part skip :=
  reqDecision_of_view a b si hv hview msn part skip

example : reqDecision (Ex.st 23) 0 (some 9) (some 7) false = reqDecision (Ex.st 23) 0 (some 9) (some 7) false :=
  c06_decision_pure _ _ 0 rfl rfl _ _ _

/-- **no more input, part 2 (monotone):** once the decision for `(M, part)` is `respond`, after any further
writes it is still `respond` (same delta flag) or has become `400` (expiry) — never `wait` again. -/
theorem c06_no_more_input (st : State) (hr : Reachable st) (si : Nat) (hsi : si < st.streams.length)
    (ops : List WriteOp) (h64 : ((run st ops).stream si).nextSegmentID < two64)
    (M : Nat) (part : Option Nat) (skip d : Bool)
    (h : reqDecision st si (some M) part skip = .respond d) :
    reqDecision (run st ops) si (some M) part skip = .respond d ∨
    reqDecision (run st ops) si (some M) part skip = .bad400 := by
  obtain ⟨cfg, st0, ops0, hll, hs, rfl⟩ := hr
  have ha := run_invU cfg st0 ops0 hll hs
  exact respond_stays _ _ (run_steps _ ha ops) ha si hsi h64 M part skip d h

-- non-vacuity: (9,7) is answered after 23 frames, still answered after 13 more, expired after 28 more
set_option maxRecDepth 40000 in
example : reqDecision (Ex.st 23) 0 (some 9) (some 7) false = .respond false ∧
    reqDecision (run (Ex.st 23) ((List.range 13).map fun i => Ex.op (23 + i))) 0 (some 9) (some 7) false = .respond false := by
  decide +kernel
set_option maxRecDepth 40000 in
example : reqDecision (run (Ex.st 23) ((List.range 28).map fun i => Ex.op (23 + i))) 0 (some 9) (some 7) false = .bad400 := by
  decide +kernel

/-- **delta update.**  The `_HLS_skip` playlist of a state equals the full playlist of the SAME state minus
its first `k` entries and the MAP, with `SKIPPED-SEGMENTS = k`; everything else is identical; and
`k = #entries − shown` where `shown` is the length of the longest prefix of the entries (oldest first) all
of whose non-empty prefixes have cumulative duration `< 6·TARGETDURATION` s. -/
theorem c06_delta (st : State) (hr : Reachable st) (si : Nat) :
    let s := st.stream si
    let full := mediaPlaylist st si false
    let dl := mediaPlaylist st si true
    let k := skipCount s
    let shown := s.segments.length - k
    dl.skipped = some k ∧ full.skipped = none ∧ dl.map = none ∧ full.map = some (.init si) ∧
    k + dl.segments.length = full.segments.length ∧ dl.segments = full.segments.drop k ∧
    dl.version = full.version ∧ dl.allowCacheNo = full.allowCacheNo ∧ dl.targetDur = full.targetDur ∧
    dl.mediaSeq = full.mediaSeq ∧ dl.serverControl = full.serverControl ∧ dl.partInf = full.partInf ∧
    dl.parts = full.parts ∧ dl.hint = full.hint ∧
    full.segments.length = s.segments.length ∧ k ≤ s.segments.length ∧
    (∀ j, 1 ≤ j → j ≤ shown → cumDur (s.segments.take j) < s.targetDur * 6 * S) ∧
    (shown < s.segments.length → s.targetDur * 6 * S ≤ cumDur (s.segments.take (shown + 1))) := by
  obtain ⟨cfg, st0, ops, hll, hs, rfl⟩ := hr
  have hv := (run_inv cfg st0 ops hll hs).ll
  intro s full dl k shown
  obtain ⟨h1, h2, h3, h4, h5, h6, h7, h8, h9, h10, h11, h12, h13, h14⟩ := delta_vs_full _ si hv
  have hk : k ≤ s.segments.length := skipCount_le s
  have hsh : shown = shownCount s.segments 0 (s.targetDur * 6 * S) := by
    have := shownCount_le s.segments 0 (s.targetDur * 6 * S)
    show s.segments.length - skipCount s = _
    unfold skipCount; omega
  obtain ⟨sp1, sp2⟩ := shownCount_spec s.segments 0 (s.targetDur * 6 * S)
  refine ⟨h1, h2, h3, h4, h5, h6, h7, h8, h9, h10, h11, h12, h13, h14, ?_, hk, ?_, ?_⟩
  · have := ll_segments_length (run st0 ops) si false hv
    simpa using this
  · intro j hj1 hj2
    have := sp1 j hj1 (by rw [← hsh]; exact hj2)
    omega
  · intro hlt
    have := sp2 (by rw [← hsh]; exact hlt)
    rw [← hsh] at this
    omega

set_option maxRecDepth 40000 in
example : (mediaPlaylist (Ex.st 43) 0 true).skipped = some 2 ∧ (mediaPlaylist (Ex.st 43) 0 true).segments.length = 5 ∧
    (mediaPlaylist (Ex.st 43) 0 false).segments.length = 7 ∧ ((Ex.st 43).stream 0).targetDur = 1 := by decide

/-- **no `_HLS_` directive in any listed URI.**  For every raw query: the filtered query has no key with
prefix `_HLS_`; when the query is non-empty exactly the other pairs survive (each with its multiplicity);
and every URI the playlist lists (MAP, segments, parts, open parts, preload hint) is rendered with that
filtered query (`gap.mp4` carries none). -/
theorem c06_no_hls_params (rq : RawQuery) :
    (filterOutHLSParams rq).hlsFree ∧
    (∀ raw q ok, rq = .parsed raw q ok → ∃ out, filterOutHLSParams rq = .pairs out ∧
      (∀ kv, kv ∈ out ↔ (kv ∈ q ∧ isHLSKey kv.1 = false)) ∧ out.Perm (q.filter fun kv => !isHLSKey kv.1)) ∧
    (∀ (st : State) (si : Nat) (d : Bool) (u : Uri), u ∈ playlistUris (mediaPlaylist st si d) (filterOutHLSParams rq) →
      u.query.hlsFree ∧ (u.query = filterOutHLSParams rq ∨ u.key = none)) := by
  refine ⟨filter_hlsFree rq, fun raw q ok h => by rw [h]; exact filter_pairs raw q ok, fun st si d u hu => ?_⟩
  rcases playlistUris_query _ _ u hu with h | ⟨hk, hq⟩
  · exact ⟨by rw [h]; exact filter_hlsFree rq, .inl h⟩
  · exact ⟨by rw [hq]; trivial, .inr hk⟩

example : filterOutHLSParams (.parsed "_HLS_msn=8&_HLS_part=0&foo=bar&_HLS_x=1&a=2" 
    [("_HLS_msn", "8"), ("_HLS_part", "0"), ("foo", "bar"), ("_HLS_x", "1"), ("a", "2")] true) =
    .pairs [("a", "2"), ("foo", "bar")] := by decide +kernel

/-- finding F20 (fixed by commit 2aaf62b): before the fix a query rejected by `url.ParseQuery` was
copied into the URIs unfiltered — the clause above was false for `filterLegacy`. -/
theorem c06_f20_legacy_witness :
    ¬ (∀ rq : RawQuery, (filterLegacy rq).hlsFree) :=
  fun h => filterLegacy_copies_directive (h _)

/-- **preload hint.**  Once the playlist is available, a GET of the advertised hint `part nextPartID`
finds the placeholder that waits; after further writes it still waits as long as `nextPartID` has not
passed it, and from then on the same path answers with a part whose id is exactly the hinted id (or
nothing once the part's segment has left the window and the path is unregistered); once a part is
served under that path, the same part (or nothing) is served ever after. -/
theorem c06_hint_bytes (st : State) (hr : Reachable st) (si : Nat) (hsi : si < st.streams.length)
    (hc : (st.stream si).hasContent .ll = true) :
    let id := (st.stream si).nextPartID
    get st (.part si id) = .hintWait ∧
    ∀ ops : List WriteOp,
      let b := run st ops
      id ≤ (b.stream si).nextPartID ∧
      ((b.stream si).nextPartID = id → get b (.part si id) = .hintWait) ∧
      (id < (b.stream si).nextPartID → (∃ p, p.id = id ∧ get b (.part si id) = .part p) ∨ get b (.part si id) = .none) ∧
      ∀ p, get b (.part si id) = .part p → ∀ ops' : List WriteOp,
        get (run b ops') (.part si id) = .part p ∨ get (run b ops') (.part si id) = .none := by
  obtain ⟨cfg, st0, ops0, hll, hs, rfl⟩ := hr
  have ha := run_invU cfg st0 ops0 hll hs
  intro id
  refine ⟨hint_waits _ si ha.inv hsi ((hasContent_ll _).mp hc), fun ops => ?_⟩
  intro b
  have hab := run_steps _ ha ops
  have hb := steps_invU hab ha
  have hlen := (steps_len hab ha).1
  have hsib : si < b.streams.length := by rw [hlen]; exact hsi
  have mono := steps_mono hab ha si hsi
  have hN : id ≤ (b.stream si).nextPartID := mono.npid
  have hcases := get_part_cases b si hb.inv hsib id
  refine ⟨hN, fun he => ?_, fun hlt => ?_, fun p hp ops' => ?_⟩
  · rcases hcases with ⟨_, hl⟩ | ⟨p, _, hlt, _, _⟩ | ⟨_, hg, _⟩
    · have := (hb.inv.streams si hsib).hint (by
        have h0 : 0 < id := (ha.inv.streams si hsi).started ((hasContent_ll _).mp hc)
        show 0 < (b.stream si).nextPartID
        omega)
      have h2 : (b.stream si).view.nextPartID = id := he
      rw [h2, hl] at this
      cases this
    · omega
    · exact hg
  · rcases hcases with ⟨hg, _⟩ | ⟨p, hp, _, hg, _⟩ | ⟨he, _, _⟩
    · exact .inr hg
    · exact .inl ⟨p, hp, hg⟩
    · omega
  · -- the path now holds a real part handler: later states keep it or drop it
    rcases hcases with ⟨hg, _⟩ | ⟨p', _, hlt, hg, hl⟩ | ⟨_, hg, _⟩
    · rw [hg] at hp; cases hp
    · rw [hg] at hp
      cases hp
      have hbc := run_steps b hb ops'
      have hcinv := steps_invU hbc hb
      have hlenc := (steps_len hbc hb).1
      have monoc := steps_mono hbc hb si hsib
      rcases monoc.look id hlt with h | h
      · left; unfold Muxer.get; rw [h, hl]
      · right; unfold Muxer.get; rw [h]
    · rw [hg] at hp; cases hp

-- non-vacuity: after 23 frames the hint is part 22; one more frame completes it
set_option maxRecDepth 40000 in
example : ((Ex.st 23).stream 0).nextPartID = 22 ∧ get (Ex.st 23) (.part 0 22) = .hintWait ∧
    (match get (run (Ex.st 23) [Ex.op 23]) (.part 0 22) with | .part p => p.id == 22 | _ => false) = true := by
  decide +kernel
set_option maxRecDepth 40000 in
example : get (run (Ex.st 23) ((List.range 38).map fun i => Ex.op (23 + i))) (.part 0 22) = .none := by
  decide +kernel

end Hls.Props.C06
