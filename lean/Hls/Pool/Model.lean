import Hls.Pool.Table
/-!
  Model of the client's routine pool and of the client's life cycle (property C12).

  Three layers, all parametrised by what `go/cmd/extract/gen_blocking.go` regenerates from the Go
  source (`Hls.Gen.blockingRows`, `Hls.Gen.taskGraphs`, `Hls.Gen.poolSkel`, `Hls.Gen.clientSkel`):

  1. `Row.ok` — the per-operation obligation on the table of potentially blocking operations
     ("every blocking operation of a pool goroutine selects on the pool context, or is provably
     non-blocking").
  2. `TaskGraph.ok`, `CStep`, `CRun` — one task after the pool context has been cancelled: which
     steps it can take, the rank certificate, quiet steps (cancel arm) and detours (another arm of
     the same `select` was ready as well).
  3. `Step` / `next` — the interleaving machine of the whole client: the goroutine that owns the
     pool (`Client.run` / `runInner` / `clientRoutinePool.close`), the pool's tasks walking their
     graphs (arms other than the cancel arm are over-approximated: they may fire at any time, so every
     safety theorem holds for every real behaviour), the pool's hand-over of a task's error on
     `rp.err`, and the user (`Close` any number of times, receive from `Wait()`).
-/
namespace Hls.Pool

/-! ## 1. The table obligation -/

def ArmKind.isCancel : ArmKind → Bool
  | .ctxDone .pool => true
  | _ => false

def ArmKind.isClientDone : ArmKind → Bool
  | .ctxDone .client => true
  | _ => false

/-- a send outside `select` cannot block when the channel's capacity covers every send that can
    ever be performed on it: `sendSites` syntactic sends, none of them in a loop -/
def Row.bufferedOnce (r : Row) : Bool :=
  match r.bufCap with
  | some c => decide (1 ≤ r.sendSites) && decide (r.sendSites ≤ c) && !r.inLoop
  | none => false

/-- obligation for an operation executed by a goroutine OF the pool -/
def Row.taskOk (r : Row) : Bool :=
  match r.kind with
  | .select | .recvCtxDone | .httpDo | .bodyRead | .queuePull | .queueWaitBelow => r.arms.any ArmKind.isCancel
  | .lock => r.csFree
  | .queuePush => true          -- `push` only locks; its lock rows carry the obligation
  | .callback => r.user         -- user callbacks are trusted to return (stated assumption)
  | .send => r.bufferedOnce
  | .recv | .rangeChan | .timeSleep | .condWait | .wgWait => false

/-- obligation for an operation executed by the goroutine that OWNS the pool (`Client.run`) -/
def Row.runnerOk (r : Row) : Bool :=
  match r.kind with
  | .select => r.arms.any ArmKind.isClientDone   -- `Close` wakes it
  | .wgWait => true                              -- returns by `cancel_terminates` / `pool_drains` (the pool context is cancelled first: `skeleton_shape`)
  | .send => r.bufferedOnce                      -- the single result
  | .lock => r.csFree
  | _ => false

def Row.okFor (r : Row) : Role → Bool
  | .task | .wrapper => r.taskOk
  | .runner => r.runnerOk
  | .api => match r.kind with
    | .lock => r.csFree
    | _ => false
  | .unattributed => false

def Row.ok (r : Row) : Bool := !r.roles.isEmpty && r.roles.all r.okFor

/-! ## 2. One task after cancellation -/

def TaskGraph.rankOf (g : TaskGraph) : Target → Option Nat
  | .ret _ => some 0
  | .node i => (g.nodes[i]?).map (·.rank)

def Node.guarded (n : Node) : Bool := n.arms.any (·.kind.isCancel)

/-- kept in a graph although it never blocks: a callback whose result is tested -/
def Node.passThrough (n : Node) : Bool :=
  match n.kind with
  | .callback => true
  | _ => false

/-- the arms a task can ALWAYS take once the pool context is cancelled -/
def Node.cancelArms (n : Node) : List Arm :=
  if n.guarded then n.arms.filter (·.kind.isCancel) else n.arms

def TaskGraph.below (g : TaskGraph) (r : Nat) (t : Target) : Bool :=
  match g.rankOf t with
  | some k => decide (k < r)
  | none => false

def TaskGraph.valid (g : TaskGraph) (t : Target) : Bool := (g.rankOf t).isSome

def TaskGraph.nodeOk (g : TaskGraph) (n : Node) : Bool :=
  (n.guarded || n.passThrough) && !n.arms.isEmpty &&
  n.arms.all (fun a => !a.next.isEmpty && a.next.all g.valid) &&
  n.cancelArms.all (fun a => a.next.all (g.below n.rank))

def TaskGraph.ok (g : TaskGraph) : Bool :=
  g.nodes.all g.nodeOk && !g.entry.isEmpty && g.entry.all g.valid

def TaskGraph.maxRank (g : TaskGraph) : Nat := g.nodes.foldl (fun m n => max m n.rank) 0

/-- one step of a task whose pool context is cancelled; the flag says whether it is a detour
    (a non-cancel arm of a guarded node: possible only when that arm happens to be ready too) -/
inductive CStep (g : TaskGraph) : Target → Bool → Target → Prop
  | quiet {i n a t} : g.nodes[i]? = some n → a ∈ n.cancelArms → t ∈ a.next → CStep g (.node i) false t
  | detour {i n a t} : g.nodes[i]? = some n → n.guarded = true → a ∈ n.arms → a.kind.isCancel = false →
      t ∈ a.next → CStep g (.node i) true t

/-- `CRun g t n d t'`: `n` steps, `d` of them detours -/
inductive CRun (g : TaskGraph) : Target → Nat → Nat → Target → Prop
  | nil {t} : CRun g t 0 0 t
  | cons {t b t' n d t''} : CStep g t b t' → CRun g t' n d t'' → CRun g t (n + 1) (d + b.toNat) t''

/-! ## 3. The client's life cycle -/

/-- the errors `Wait()` can yield, by class -/
inductive Err | terminated | eos | callback | io | other
  deriving DecidableEq, Repr, Inhabited

def RetK.toErr : RetK → Option Err
  | .nil => none
  | .terminated => some .terminated
  | .eos => some .eos
  | .callback => some .callback
  | .io => some .io
  | .other => some .other

/-- program counter of a pool goroutine (`clientRoutinePool.add`) -/
inductive TPc
  | fresh                -- started, `run` not yet at its first blocking operation
  | at (t : Target)      -- inside `run`: at a blocking node / `run` has returned (`.ret r`)
  | handOver (e : Err)   -- `select { case rp.err <- err: case <-rp.ctx.Done(): }`
  | done                 -- `wg.Done()` executed
  deriving DecidableEq, Repr, Inhabited

structure Task where
  kind : Nat
  pc   : TPc
  deriving DecidableEq, Repr, Inhabited

/-- program counter of the goroutine that owns the pool (`Client.run` / `runInner`) -/
inductive RPc
  | idle                      -- before `Start`
  | init                      -- `rp.initialize(); rp.add(primary)`
  | select                    -- `select { case err := <-rp.errorChan(): … case <-c.ctx.Done(): … }`
  | cancelPool (e : Err)      -- `rp.close()`: `rp.ctxCancel()`
  | waitPool (e : Err)        -- `rp.close()`: `rp.wg.Wait()`
  | sendResult (e : Err)      -- `c.outErr <- e`
  | done
  deriving DecidableEq, Repr, Inhabited

inductive CloseKind
  | cancel      -- `c.ctxCancel()` — a context cancel function may be called any number of times
  | closeChan   -- `close(ch)` — panics the second time
  deriving DecidableEq, Repr, Inhabited

/-- what the machine reads off the regenerated skeletons -/
structure Params where
  graphs        : List TaskGraph
  primary       : Nat            -- index (in `graphs`) of the kind `runInner` adds
  outErrCap     : Nat            -- capacity of `c.outErr`
  closeOnErr    : Bool           -- `rp.close()` before `return err`
  closeOnCtx    : Bool           -- `rp.close()` before `return fmt.Errorf("terminated")`
  poolCancels   : Bool           -- `clientRoutinePool.close` cancels the pool context …
  poolWaits     : Bool           -- … and then waits for the wait group
  closeKind     : CloseKind      -- what `Client.Close` does
  deriving Repr

/-- the shape the theorems need -/
def Params.good (p : Params) : Bool :=
  decide (1 ≤ p.outErrCap) && p.closeOnErr && p.closeOnCtx && p.poolCancels && p.poolWaits &&
  (match p.closeKind with | .cancel => true | .closeChan => false)

structure St where
  runner          : RPc := .idle
  tasks           : List Task := []
  poolCancelled   : Bool := false
  clientCancelled : Bool := false
  outErr          : List Err := []     -- buffer of `c.outErr`
  received        : List Err := []     -- what the user got from `Wait()`
  delivered       : List Err := []     -- ghost: errors handed over on `rp.err`
  returned        : List Err := []     -- ghost: errors returned by `run` of some task
  closeCalls      : Nat := 0
  panicked        : Bool := false
  cbAfter         : Nat := 0           -- ghost: user callbacks invoked after the result was sent
  deriving DecidableEq, Repr, Inhabited

def Task.live (t : Task) : Bool :=
  match t.pc with
  | .done => false
  | _ => true

def St.allDone (s : St) : Bool := s.tasks.all (fun t => !t.live)

def RPc.sent : RPc → Bool
  | .done => true
  | _ => false

/-- what a step of a task does besides moving it -/
inductive TaskEv
  | move (detour : Bool)
  | spawn (kind : Nat)
  | callback
  | returned (e : Option Err)
  deriving DecidableEq, Repr

def TaskEv.spawned : TaskEv → List Task
  | .spawn k => [⟨k, .fresh⟩]
  | _ => []

def TaskEv.rets : TaskEv → List Err
  | .returned (some e) => [e]
  | _ => []

def TaskEv.cbs (sent : Bool) : TaskEv → Nat
  | .callback => if sent then 1 else 0
  | _ => 0

def TPc.handedOver : TPc → List Err
  | .handOver e => [e]
  | _ => []

/-- steps of ONE pool goroutine. `cancelled` = the pool context is cancelled. Arms that are not the
    cancel arm may fire at any time (over-approximation of the environment). -/
inductive TStep (p : Params) (cancelled : Bool) : Task → TaskEv → Task → Prop
  | begin {k g e} : p.graphs[k]? = some g → e ∈ g.entry → TStep p cancelled ⟨k, .fresh⟩ (.move false) ⟨k, .at e⟩
  | cancelArm {k g i n a t} : p.graphs[k]? = some g → g.nodes[i]? = some n → cancelled = true →
      a ∈ n.arms → a.kind.isCancel = true → t ∈ a.next →
      TStep p cancelled ⟨k, .at (.node i)⟩ (.move false) ⟨k, .at t⟩
  | otherArm {k g i n a t} : p.graphs[k]? = some g → g.nodes[i]? = some n →
      a ∈ n.arms → a.kind.isCancel = false → t ∈ a.next →
      TStep p cancelled ⟨k, .at (.node i)⟩ (.move n.guarded) ⟨k, .at t⟩
  | spawn {k g i k' g'} : p.graphs[k]? = some g → p.graphs[k']? = some g' → g'.name ∈ g.spawns →
      TStep p cancelled ⟨k, .at (.node i)⟩ (.spawn k') ⟨k, .at (.node i)⟩
  | spawnFresh {k g k' g'} : p.graphs[k]? = some g → p.graphs[k']? = some g' → g'.name ∈ g.spawns →
      TStep p cancelled ⟨k, .fresh⟩ (.spawn k') ⟨k, .fresh⟩
  | callback {k i} : TStep p cancelled ⟨k, .at (.node i)⟩ .callback ⟨k, .at (.node i)⟩
  | callbackFresh {k} : TStep p cancelled ⟨k, .fresh⟩ .callback ⟨k, .fresh⟩
  | retErr {k r e} : r.toErr = some e → TStep p cancelled ⟨k, .at (.ret r)⟩ (.returned (some e)) ⟨k, .handOver e⟩
  | retNil {k} : TStep p cancelled ⟨k, .at (.ret .nil)⟩ (.returned none) ⟨k, .done⟩
  | giveUp {k e} : cancelled = true → TStep p cancelled ⟨k, .handOver e⟩ (.move false) ⟨k, .done⟩

def afterSelect (closes : Bool) (e : Err) : RPc := if closes then .cancelPool e else .sendResult e

/-- the interleaving machine of the whole client -/
inductive Step (p : Params) : St → St → Prop
  | start {s} : s.runner = .idle → Step p s { s with runner := .init }
  | runnerInit {s} : s.runner = .init →
      Step p s { s with runner := .select, tasks := s.tasks ++ [⟨p.primary, .fresh⟩] }
  | runnerRecvErr {s pre post k e} : s.runner = .select → s.tasks = pre ++ ⟨k, .handOver e⟩ :: post →
      Step p s { s with runner := afterSelect p.closeOnErr e, tasks := pre ++ ⟨k, .done⟩ :: post,
                        delivered := s.delivered ++ [e] }
  | runnerCtx {s} : s.runner = .select → s.clientCancelled = true →
      Step p s { s with runner := afterSelect p.closeOnCtx .terminated }
  | runnerCancel {s e} : s.runner = .cancelPool e →
      Step p s { s with runner := .waitPool e, poolCancelled := s.poolCancelled || p.poolCancels }
  | runnerWait {s e} : s.runner = .waitPool e → (p.poolWaits = true → s.allDone = true) →
      Step p s { s with runner := .sendResult e }
  | runnerSend {s e} : s.runner = .sendResult e → s.outErr.length < p.outErrCap →
      Step p s { s with runner := .done, outErr := s.outErr ++ [e] }
  | runnerSendDirect {s e} : s.runner = .sendResult e → p.outErrCap = 0 →
      Step p s { s with runner := .done, received := s.received ++ [e] }
  | task {s pre post t t' ev} : s.tasks = pre ++ t :: post → TStep p s.poolCancelled t ev t' →
      Step p s { s with
        tasks := pre ++ t' :: post ++ ev.spawned,
        returned := s.returned ++ ev.rets,
        cbAfter := s.cbAfter + ev.cbs s.runner.sent }
  | close {s} : s.runner ≠ .idle →
      Step p s { s with
        clientCancelled := true, closeCalls := s.closeCalls + 1,
        panicked := s.panicked || (match p.closeKind with | .cancel => false | .closeChan => s.clientCancelled) }
  | closeBeforeStart {s} : s.runner = .idle →
      Step p s { s with closeCalls := s.closeCalls + 1, panicked := true }   -- `c.ctxCancel` is nil: nil function call
  | recv {s e rest} : s.outErr = e :: rest →
      Step p s { s with outErr := rest, received := s.received ++ [e] }

/-- reachable from the state right after `Start()` returned (the property speaks "from Start onward") -/
inductive Reachable (p : Params) : St → Prop
  | start : Reachable p { runner := .init }
  | step {s s'} : Reachable p s → Step p s s' → Reachable p s'

/-- reachable from the zero value of `Client` (so `Close` before `Start` is representable) -/
inductive Reachable0 (p : Params) : St → Prop
  | zero : Reachable0 p {}
  | step {s s'} : Reachable0 p s → Step p s s' → Reachable0 p s'

/-- the steps of the pool's goroutines that need nothing but the cancelled pool context -/
inductive Quiet (p : Params) : St → St → Prop
  | mk {s pre post t t'} : s.poolCancelled = true → s.tasks = pre ++ t :: post →
      TStep p true t (.move false) t' ∨ (∃ e, TStep p true t (.returned e) t') →
      Quiet p s { s with tasks := pre ++ t' :: post,
                         returned := s.returned ++ t'.pc.handedOver }

/-! ### Reading the parameters off the skeletons -/

def skHasBefore (l : List Sk) (a b : Sk) : Bool :=
  match l.dropWhile (· != a) with
  | [] => false
  | _ :: rest => rest.contains b

def armCloses (body : List Sk) : Bool :=
  match body with
  | .poolClose :: rest => rest.any (fun s => match s with | .returnErr _ => true | _ => false)
  | _ => false

def chanCapIn (l : List Sk) (field : String) : Option Nat :=
  l.findSome? (fun s => match s with
    | .makeChan f c => if f = field then some c else none
    | _ => none)

def resultChan (run : List Sk) : Option String :=
  run.findSome? (fun s => match s with
    | .sendResult ch _ => some ch
    | _ => none)

def paramsOf (graphs : List TaskGraph) (ps : PoolSkel) (cs : ClientSkel) : Params where
  graphs := graphs
  primary := (graphs.findIdx? (fun g => g.name = "clientPrimaryDownloader")).getD graphs.length
  outErrCap := ((resultChan cs.run).bind (chanCapIn cs.start)).getD 0
  closeOnErr := cs.runInnerArms.any (fun a => (match a.1 with | .recv _ => true | _ => false) && armCloses a.2) &&
                cs.runInnerArms.all (fun a => (match a.1 with | .recv _ => armCloses a.2 | _ => true))
  closeOnCtx := cs.runInnerArms.any (fun a => a.1.isClientDone && armCloses a.2) &&
                cs.runInnerArms.all (fun a => if a.1.isClientDone then armCloses a.2 else true)
  poolCancels := ps.close.any (fun s => match s with | .cancel _ => true | _ => false)
  poolWaits := match ps.close.dropWhile (fun s => match s with | .cancel _ => false | _ => true) with
    | [] => false
    | _ :: rest => rest.contains .wgWait
  closeKind := if cs.close.any (fun s => match s with | .closeChan _ => true | _ => false) then .closeChan else .cancel

/-- the skeletons the life-cycle machine was written after -/
def expectedPoolSkel : PoolSkel where
  init := [.newCtx "ctx" "ctxCancel" "Background", .makeChan "err" 0]
  close := [.cancel "ctxCancel", .wgWait]
  errorChan := [.returnChan "err"]
  add := [.wgAdd, .goBody]
  addGo := [.deferWgDone, .callRun "rp.ctx", .ifErrSelect]
  addSelect := [.send "rp.err", .ctxDone .pool]

def expectedClientSkel : ClientSkel where
  start := [.defaults, .parseURL, .newCtx "ctx" "ctxCancel" "Background", .makeChan "outErr" 1,
            .makeChan "leadingTimeConvReady" 0, .goRun, .returnNil]
  close := [.cancel "ctxCancel"]
  wait := [.returnChan "outErr"]
  run := [.sendResult "outErr" "runInner"]
  runInner := [.newPool, .poolInitialize, .newPrimary, .poolAdd "primaryDownloader", .selectResult]
  runInnerArms := [(.recv "rp.errorChan()", [.poolClose, .returnErr "err"]),
                   (.ctxDone .client, [.poolClose, .returnErr "terminated"])]

/-! ### Executable version (model driver) -/

inductive Label
  | start | close | recv
  | runner                         -- the next step of `Client.run` that is not a choice of the `select`
  | runnerRecvErr (i : Nat)        -- `case err := <-rp.errorChan()` from task `i`
  | runnerCtx                      -- `case <-c.ctx.Done()`
  | begin (i k : Nat)              -- task `i` reaches its `k`-th entry target
  | arm (i a k : Nat)              -- task `i` takes arm `a` of its node to the `k`-th successor
  | spawn (i k : Nat)              -- task `i` adds a task of kind `k`
  | callback (i : Nat)
  | ret (i : Nat)                  -- `run` of task `i` has returned: hand-over / `wg.Done()`
  | giveUp (i : Nat)               -- hand-over: `case <-rp.ctx.Done()`
  deriving DecidableEq, Repr

def setTask (s : St) (i : Nat) (t : Task) : St := { s with tasks := s.tasks.set i t }

def next (p : Params) (l : Label) (s : St) : Option St :=
  match l with
  | .start => if s.runner = .idle then some { s with runner := .init } else none
  | .close =>
    if s.runner = .idle then some { s with closeCalls := s.closeCalls + 1, panicked := true }
    else some { s with clientCancelled := true, closeCalls := s.closeCalls + 1,
                       panicked := s.panicked || (match p.closeKind with | .cancel => false | .closeChan => s.clientCancelled) }
  | .recv =>
    match s.outErr with
    | e :: rest => some { s with outErr := rest, received := s.received ++ [e] }
    | [] =>
      match s.runner with
      | .sendResult e => if p.outErrCap = 0 then some { s with runner := .done, received := s.received ++ [e] } else none
      | _ => none
  | .runner =>
    match s.runner with
    | .init => some { s with runner := .select, tasks := s.tasks ++ [⟨p.primary, .fresh⟩] }
    | .cancelPool e => some { s with runner := .waitPool e, poolCancelled := s.poolCancelled || p.poolCancels }
    | .waitPool e => if p.poolWaits = true → s.allDone = true then some { s with runner := .sendResult e } else none
    | .sendResult e => if s.outErr.length < p.outErrCap then some { s with runner := .done, outErr := s.outErr ++ [e] } else none
    | _ => none
  | .runnerRecvErr i =>
    match s.runner, s.tasks[i]? with
    | .select, some ⟨k, .handOver e⟩ =>
      some { s with runner := afterSelect p.closeOnErr e, tasks := s.tasks.set i ⟨k, .done⟩, delivered := s.delivered ++ [e] }
    | _, _ => none
  | .runnerCtx =>
    match s.runner with
    | .select => if s.clientCancelled then some { s with runner := afterSelect p.closeOnCtx .terminated } else none
    | _ => none
  | .begin i k =>
    match s.tasks[i]? with
    | some ⟨kd, .fresh⟩ =>
      match p.graphs[kd]? with
      | some g => (g.entry[k]?).map (fun e => setTask s i ⟨kd, .at e⟩)
      | none => none
    | _ => none
  | .arm i a k =>
    match s.tasks[i]? with
    | some ⟨kd, .at (.node j)⟩ =>
      match p.graphs[kd]? with
      | some g =>
        match g.nodes[j]? with
        | some n =>
          match n.arms[a]? with
          | some arm =>
            if arm.kind.isCancel && !s.poolCancelled then none
            else (arm.next[k]?).map (fun t => setTask s i ⟨kd, .at t⟩)
          | none => none
        | none => none
      | none => none
    | _ => none
  | .spawn i k' =>
    match s.tasks[i]? with
    | some ⟨kd, pc⟩ =>
      match pc, p.graphs[kd]?, p.graphs[k']? with
      | .at (.node _), some g, some g' =>
        if g'.name ∈ g.spawns then some { s with tasks := s.tasks ++ [⟨k', .fresh⟩] } else none
      | .fresh, some g, some g' =>
        if g'.name ∈ g.spawns then some { s with tasks := s.tasks ++ [⟨k', .fresh⟩] } else none
      | _, _, _ => none
    | none => none
  | .callback i =>
    match s.tasks[i]? with
    | some ⟨_, .at (.node _)⟩ => some { s with cbAfter := s.cbAfter + (if s.runner.sent then 1 else 0) }
    | some ⟨_, .fresh⟩ => some { s with cbAfter := s.cbAfter + (if s.runner.sent then 1 else 0) }
    | _ => none
  | .ret i =>
    match s.tasks[i]? with
    | some ⟨kd, .at (.ret r)⟩ =>
      match r.toErr with
      | some e => some { setTask s i ⟨kd, .handOver e⟩ with returned := s.returned ++ [e] }
      | none => some (setTask s i ⟨kd, .done⟩)
    | _ => none
  | .giveUp i =>
    match s.tasks[i]? with
    | some ⟨kd, .handOver _⟩ => if s.poolCancelled then some (setTask s i ⟨kd, .done⟩) else none
    | _ => none

/-- run a schedule; `none` = some label was not enabled -/
def runLabels (p : Params) : List Label → St → Option St
  | [], s => some s
  | l :: ls, s => (next p l s).bind (runLabels p ls)

end Hls.Pool
