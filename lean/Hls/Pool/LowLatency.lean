import Hls.Pool.Lemmas
/-!
  The Low-Latency loop of the stream downloader (`runLowLatency`) inside the regenerated blocking graph:

      preload-hint request → reading its body → playlist reload → reading it →
          (next hint | end of stream: `push(nil); <-ctx.Done()` (fix-F28) | "preload hint disappeared")

  `llLoops` FINDS the loop in a graph (by the functions the rows of its nodes belong to and by the `ok` arms that
  connect them); `LLLoop.ok` is the decidable statement that each of its four blocking operations has the pool-context
  arm and that this arm — like the failing arm — leads straight to the return of `run` with the I/O error.
-/
namespace Hls.Pool

structure LLLoop where
  hint : Nat
  hintBody : Nat
  reload : Nat
  reloadBody : Nat
  /-- `<-ctx.Done()` after `push(nil)`: where the downloader of a stream that has ended waits for Close -/
  eosWait : Nat
  deriving DecidableEq, Repr

def nodeOf (rows : List Row) (g : TaskGraph) (kind : OpKind) (fn : String) (i : Nat) : Bool :=
  match g.nodes[i]? with
  | some n => n.kind == kind && ((rows[n.row]?).map (·.fn) == some fn)
  | none => false

/-- node indices reachable from node `i` by one `ok` arm -/
def okNext (g : TaskGraph) (i : Nat) : List Nat :=
  match g.nodes[i]? with
  | some n => (n.arms.filter (fun a => a.kind == .ok)).flatMap fun a =>
      a.next.filterMap fun t => match t with | .node j => some j | .ret _ => none
  | none => []

def okRets (g : TaskGraph) (i : Nat) : List RetK :=
  match g.nodes[i]? with
  | some n => (n.arms.filter (fun a => a.kind == .ok)).flatMap fun a =>
      a.next.filterMap fun t => match t with | .ret r => some r | .node _ => none
  | none => []

def llHintFn : String := "clientStreamDownloader.downloadPreloadHint"
def llReloadFn : String := "downloadPlaylist"
def llLoopFn : String := "clientStreamDownloader.runLowLatency"

/-- every Low-Latency loop of the graph: hint → hint body → reload → reload body → back to the hint, with the exits
    `return fmt.Errorf("preload hint disappeared")` and (fix-F28) the end-of-stream wait `<-ctx.Done()` of
    `runLowLatency` after the reload -/
def llLoops (rows : List Row) (g : TaskGraph) : List LLLoop :=
  (List.range g.nodes.length).flatMap fun h =>
    if nodeOf rows g .httpDo llHintFn h then
      (okNext g h).flatMap fun hb =>
        if nodeOf rows g .bodyRead llHintFn hb then
          (okNext g hb).flatMap fun r =>
            if nodeOf rows g .httpDo llReloadFn r then
              (okNext g r).flatMap fun rb =>
                if nodeOf rows g .bodyRead llReloadFn rb && (okNext g rb).contains h && (okRets g rb).contains .other
                then ((okNext g rb).filter (nodeOf rows g .recvCtxDone llLoopFn)).map fun w => ⟨h, hb, r, rb, w⟩
                else []
            else []
        else []
    else []

def LLLoop.nodes (l : LLLoop) : List Nat := [l.hint, l.hintBody, l.reload, l.reloadBody]

def llNodeOk (g : TaskGraph) (i : Nat) : Bool :=
  match g.nodes[i]? with
  | some n => n.guarded && n.arms.all (fun a =>
      match a.kind with
      | .ok => true
      | _ => a.next == [.ret .io])
  | none => false

/-- the end-of-stream wait: its only arms are `<-ctx.Done()` of the pool context, and they lead to the return
    ("terminated") -/
def llEosOk (g : TaskGraph) (i : Nat) : Bool :=
  match g.nodes[i]? with
  | some n => n.guarded && n.arms.all (fun a => a.kind == .ctxDone .pool && a.next == [.ret .terminated])
  | none => false

def LLLoop.ok (g : TaskGraph) (l : LLLoop) : Bool := l.nodes.all (llNodeOk g) && llEosOk g l.eosWait

/-- in a Low-Latency loop that is `ok`, the step a cancelled downloader takes from any of the four operations is the
    return of `run` (with the error of the cancelled request) -/
theorem ll_cancel_returns {g : TaskGraph} {l : LLLoop} (hl : l.ok g = true) {i : Nat} (hi : i ∈ l.nodes)
    {t : Target} (hs : CStep g (.node i) false t) : t = .ret .io := by
  have hl := (Bool.and_eq_true _ _ ▸ hl : _ ∧ _).1
  have hn := List.all_eq_true.mp hl i hi
  cases hs with
  | quiet hnode ha ht =>
    rename_i n a
    simp only [llNodeOk, hnode, Bool.and_eq_true, List.all_eq_true] at hn
    obtain ⟨hg, harms⟩ := hn
    have hc : a.kind.isCancel = true := by
      simp only [Node.cancelArms, hg, if_true] at ha
      exact (List.mem_filter.mp ha).2
    have := harms a (cancelArms_sub ha)
    cases hk : a.kind with
    | ok => rw [hk] at hc; cases hc
    | ctxDone c => rw [hk] at this; simp at this; rw [this] at ht; simpa using ht
    | recv ch => rw [hk] at hc; cases hc
    | send ch => rw [hk] at hc; cases hc
    | timeAfter => rw [hk] at hc; cases hc
    | fail => rw [hk] at hc; cases hc

/-- a downloader whose stream has ended (parked in `<-ctx.Done()` after the nil marker): once the pool is cancelled
    its only step is the return of `run` -/
theorem ll_eos_cancel_returns {g : TaskGraph} {l : LLLoop} (hl : l.ok g = true)
    {t : Target} {b : Bool} (hs : CStep g (.node l.eosWait) b t) : t = .ret .terminated := by
  have hn := (Bool.and_eq_true _ _ ▸ hl : _ ∧ _).2
  cases hs with
  | quiet hnode ha ht =>
    rename_i n a
    simp only [llEosOk, hnode, Bool.and_eq_true, List.all_eq_true] at hn
    have := (hn.2 a (cancelArms_sub ha)).2
    simp at this
    rw [this] at ht; simpa using ht
  | detour hnode hg ha hk ht =>
    rename_i n a
    simp only [llEosOk, hnode, Bool.and_eq_true, List.all_eq_true] at hn
    have := (hn.2 a ha).1
    simp at this
    rw [this] at hk
    cases hk

end Hls.Pool
