import Hls.Pool.LemmasExec
/-! Helper lemmas for C12, part 5: a draining execution exists; the result can be produced. -/
namespace Hls.Pool

theorem quiet_frame {p : Params} {s s' : St} (h : Quiet p s s') :
    s'.runner = s.runner ∧ s'.delivered = s.delivered ∧ s'.outErr = s.outErr ∧ s'.received = s.received ∧
    s'.poolCancelled = s.poolCancelled ∧ s'.clientCancelled = s.clientCancelled := by
  cases h; simp

theorem qrun_frame {p : Params} {s s' : St} {n : Nat} (h : QRun p s n s') :
    s'.runner = s.runner ∧ s'.delivered = s.delivered ∧ s'.outErr = s.outErr ∧ s'.received = s.received ∧
    s'.poolCancelled = s.poolCancelled ∧ s'.clientCancelled = s.clientCancelled := by
  induction h with
  | nil => simp
  | cons hq _ ih =>
    obtain ⟨a1, a2, a3, a4, a5, a6⟩ := quiet_frame hq
    obtain ⟨b1, b2, b3, b4, b5, b6⟩ := ih
    exact ⟨b1.trans a1, b2.trans a2, b3.trans a3, b4.trans a4, b5.trans a5, b6.trans a6⟩

theorem qrun_reachable {p : Params} {s s' : St} {n : Nat} (hr : Reachable p s) (h : QRun p s n s') : Reachable p s' := by
  induction h with
  | nil => exact hr
  | cons hq _ ih => exact ih (.step hr (quiet_is_step hq))

/-- a draining execution exists (and by `qrun_bound` every quiet execution is one, up to its length) -/
theorem drain_exists {p : Params} (hw : p.wf = true) :
    ∀ (m : Nat) (s : St), phi p s ≤ m → (∀ t ∈ s.tasks, TaskValid p t) → s.poolCancelled = true →
      ∃ n s', QRun p s n s' ∧ s'.allDone = true := by
  intro m
  induction m with
  | zero =>
    intro s hm hv hc
    cases hd : s.allDone with
    | true => exact ⟨0, s, .nil, hd⟩
    | false =>
      obtain ⟨s1, hq⟩ := quiet_progress hw hv hc hd
      have := quiet_phi hw hv hq
      omega
  | succ m ih =>
    intro s hm hv hc
    cases hd : s.allDone with
    | true => exact ⟨0, s, .nil, hd⟩
    | false =>
      obtain ⟨s1, hq⟩ := quiet_progress hw hv hc hd
      have hlt := quiet_phi hw hv hq
      obtain ⟨n, s', hrun, hdone⟩ := ih s1 (by omega) (quiet_valid hw hv hq) ((quiet_frame hq).2.2.2.2.1.trans hc)
      exact ⟨n + 1, s', .cons hq hrun, hdone⟩

/-- from `rp.wg.Wait()` on: the pool drains, the owner sends, the user receives exactly that error -/
theorem result_from_waitPool {p : Params} (hg : p.good = true) (hw : p.wf = true) {s : St} {e : Err}
    (hr : Reachable p s) (hrun : s.runner = .waitPool e) :
    ∃ s', Reachable p s' ∧ s'.received = [e] ∧ s'.outErr = [] ∧ s'.delivered = s.delivered := by
  obtain ⟨hcap, _, _, _, _, _⟩ := good_iff.mp hg
  have hi := inv_reachable hg hr
  obtain ⟨n, s1, hq, hd⟩ := drain_exists hw _ s (Nat.le_refl _) (valid_reachable hw hr) (hi.wait_cancelled e (Or.inl hrun))
  obtain ⟨f1, f2, f3, f4, _, _⟩ := qrun_frame hq
  have r1 := qrun_reachable hr hq
  have hrun1 : s1.runner = .waitPool e := f1.trans hrun
  have hemp := hi.not_done_empty (by simp [hrun])
  have r2 : Reachable p _ := .step r1 (.runnerWait hrun1 (fun _ => hd))
  have r3 : Reachable p _ := .step r2 (.runnerSend (e := e) rfl (by simp [f3, hemp.1]; omega))
  have r4 : Reachable p _ := .step r3 (.recv (e := e) (rest := []) (by simp [f3, hemp.1]))
  exact ⟨_, r4, by simp [f4, hemp.2], rfl, by simp [f2]⟩


/-- `run` of a task has returned `e` while the owner waits in its `select`: the owner can take it and
    `Wait()` then yields exactly `e` -/
theorem result_from_returned {p : Params} (hg : p.good = true) (hw : p.wf = true) {s : St} {pre post : List Task}
    {k : Nat} {r : RetK} {e : Err} (hr : Reachable p s) (hsel : s.runner = .select)
    (hts : s.tasks = pre ++ ⟨k, .at (.ret r)⟩ :: post) (hre : r.toErr = some e) :
    ∃ s', Reachable p s' ∧ s'.received = [e] ∧ s'.outErr = [] ∧ s'.delivered = [e] := by
  obtain ⟨_, hce, _, _, _, _⟩ := good_iff.mp hg
  have hdel := (inv_reachable hg hr).sel_delivered hsel
  have r1 : Reachable p _ := .step hr (.task hts (.retErr hre))
  have r2 : Reachable p _ := .step r1 (.runnerRecvErr (pre := pre) (post := post ++ []) (k := k) (e := e) hsel
    (by simp [TaskEv.spawned]))
  have r3 : Reachable p _ := .step r2 (.runnerCancel (e := e) (by simp [afterSelect, hce]))
  obtain ⟨s', hr', h1, h2, h3⟩ := result_from_waitPool hg hw r3 (e := e) rfl
  exact ⟨s', hr', h1, h2, by simpa [hdel] using h3⟩

/-- after `Close`, with the owner still in its `select`, the termination error can be produced -/
theorem result_after_close {p : Params} (hg : p.good = true) (hw : p.wf = true) {s : St}
    (hr : Reachable p s) (hsel : s.runner = .select) (hc : s.clientCancelled = true) :
    ∃ s', Reachable p s' ∧ s'.received = [.terminated] ∧ s'.outErr = [] := by
  obtain ⟨_, _, hcc, _, _, _⟩ := good_iff.mp hg
  have r1 : Reachable p _ := .step hr (.runnerCtx hsel hc)
  have r2 : Reachable p _ := .step r1 (.runnerCancel (e := .terminated) (by simp [afterSelect, hcc]))
  obtain ⟨s', hr', h1, h2, _⟩ := result_from_waitPool hg hw r2 (e := .terminated) rfl
  exact ⟨s', hr', h1, h2⟩

end Hls.Pool
