import Hls.Pool.Model
/-! Helper lemmas for C12, part 1: one task after cancellation (rank certificate ⇒ progress and bounds). -/
namespace Hls.Pool

theorem nodeOk_of_ok {g : TaskGraph} {i : Nat} {n : Node} (h : g.ok = true) (hn : g.nodes[i]? = some n) :
    g.nodeOk n = true := by
  have hm : n ∈ g.nodes := List.mem_of_getElem? hn
  simp only [TaskGraph.ok, Bool.and_eq_true, List.all_eq_true] at h
  exact h.1.1 n hm

theorem cancelArms_ne_nil {g : TaskGraph} {n : Node} (h : g.nodeOk n = true) : n.cancelArms ≠ [] := by
  simp only [TaskGraph.nodeOk, Bool.and_eq_true, Bool.or_eq_true, Bool.not_eq_true', List.isEmpty_eq_false_iff] at h
  obtain ⟨⟨⟨_, hne⟩, _⟩, _⟩ := h
  unfold Node.cancelArms
  split
  · rename_i hg
    simp only [Node.guarded, List.any_eq_true] at hg
    obtain ⟨a, ha, hk⟩ := hg
    intro hnil
    have : a ∈ n.arms.filter (·.kind.isCancel) := List.mem_filter.mpr ⟨ha, hk⟩
    rw [hnil] at this
    cases this
  · exact hne

theorem cancelArms_sub {n : Node} {a : Arm} (h : a ∈ n.cancelArms) : a ∈ n.arms := by
  unfold Node.cancelArms at h
  split at h
  · exact (List.mem_filter.mp h).1
  · exact h

theorem arm_next {g : TaskGraph} {n : Node} {a : Arm} (h : g.nodeOk n = true) (ha : a ∈ n.arms) :
    a.next ≠ [] ∧ ∀ t ∈ a.next, g.valid t = true := by
  simp only [TaskGraph.nodeOk, Bool.and_eq_true, List.all_eq_true, Bool.not_eq_true', List.isEmpty_eq_false_iff] at h
  exact h.1.2 a ha

theorem cancel_below {g : TaskGraph} {n : Node} {a : Arm} {t : Target} (h : g.nodeOk n = true)
    (ha : a ∈ n.cancelArms) (ht : t ∈ a.next) : ∃ k, g.rankOf t = some k ∧ k < n.rank := by
  simp only [TaskGraph.nodeOk, Bool.and_eq_true, List.all_eq_true] at h
  have := h.2 a ha t ht
  unfold TaskGraph.below at this
  split at this
  · rename_i k hk
    exact ⟨k, hk, by simpa using this⟩
  · cases this

/-- once the pool context is cancelled a task is never stuck: a quiet step is enabled at every node -/
theorem cancel_progress {g : TaskGraph} {i : Nat} {n : Node} (hok : g.ok = true) (hn : g.nodes[i]? = some n) :
    ∃ t, CStep g (.node i) false t := by
  have hno := nodeOk_of_ok hok hn
  obtain ⟨a, ha⟩ := List.exists_mem_of_ne_nil _ (cancelArms_ne_nil hno)
  obtain ⟨hne, _⟩ := arm_next hno (cancelArms_sub ha)
  obtain ⟨t, ht⟩ := List.exists_mem_of_ne_nil _ hne
  exact ⟨t, .quiet hn ha ht⟩

theorem foldl_max_ge (l : List Node) (m : Nat) : m ≤ l.foldl (fun m n => max m n.rank) m := by
  induction l generalizing m with
  | nil => simp
  | cons x xs ih => simp only [List.foldl_cons]; exact Nat.le_trans (Nat.le_max_left _ _) (ih _)

theorem foldl_max_mem (l : List Node) (m : Nat) {x : Node} (hx : x ∈ l) :
    x.rank ≤ l.foldl (fun m n => max m n.rank) m := by
  induction l generalizing m with
  | nil => cases hx
  | cons y ys ih =>
    simp only [List.foldl_cons]
    rcases List.mem_cons.mp hx with rfl | h
    · exact Nat.le_trans (Nat.le_max_right _ _) (foldl_max_ge _ _)
    · exact ih _ h

theorem rank_le_max {g : TaskGraph} {i : Nat} {n : Node} (hn : g.nodes[i]? = some n) : n.rank ≤ g.maxRank :=
  foldl_max_mem _ _ (List.mem_of_getElem? hn)

theorem valid_rank {g : TaskGraph} {t : Target} (h : g.valid t = true) :
    ∃ k, g.rankOf t = some k ∧ k ≤ g.maxRank := by
  cases t with
  | ret r => exact ⟨0, rfl, Nat.zero_le _⟩
  | node i =>
    simp only [TaskGraph.valid, TaskGraph.rankOf, Option.isSome_map] at h
    cases hn : g.nodes[i]? with
    | none => simp [hn] at h
    | some n => exact ⟨n.rank, by simp [TaskGraph.rankOf, hn], rank_le_max hn⟩


theorem cstep_valid {g : TaskGraph} {t t' : Target} {b : Bool} (hok : g.ok = true) (h : CStep g t b t') :
    g.valid t' = true := by
  cases h with
  | quiet hn ha ht => exact (arm_next (nodeOk_of_ok hok hn) (cancelArms_sub ha)).2 _ ht
  | detour hn _ ha _ ht => exact (arm_next (nodeOk_of_ok hok hn) ha).2 _ ht

theorem quiet_decreases {g : TaskGraph} {t t' : Target} (hok : g.ok = true) (h : CStep g t false t') :
    ∃ k k', g.rankOf t = some k ∧ g.rankOf t' = some k' ∧ k' < k := by
  cases h with
  | quiet hn ha ht =>
    rename_i i n a
    obtain ⟨k', hk', hlt⟩ := cancel_below (nodeOk_of_ok hok hn) ha ht
    exact ⟨n.rank, k', by simp [TaskGraph.rankOf, hn], hk', hlt⟩

/-- the bound behind `cancel_terminates`: `n` steps with `d` detours from a target of rank `k` -/
theorem crun_bound {g : TaskGraph} (hok : g.ok = true) {t t' : Target} {n d : Nat} (h : CRun g t n d t') :
    ∀ k, g.rankOf t = some k → ∃ k', g.rankOf t' = some k' ∧ n + k' ≤ k + d * (g.maxRank + 1) := by
  induction h with
  | nil => intro k hk; exact ⟨k, hk, by omega⟩
  | @cons t b t1 n d t2 hs _ ih =>
    intro k hk
    cases b with
    | false =>
      obtain ⟨k0, k1, h0, h1, hlt⟩ := quiet_decreases hok hs
      rw [hk] at h0; cases h0
      obtain ⟨k', hk', hb⟩ := ih k1 h1
      refine ⟨k', hk', ?_⟩
      simp only [Bool.toNat_false, Nat.add_zero]
      omega
    | true =>
      obtain ⟨k1, h1, hle⟩ := valid_rank (cstep_valid hok hs)
      obtain ⟨k', hk', hb⟩ := ih k1 h1
      refine ⟨k', hk', ?_⟩
      simp only [Bool.toNat_true]
      rw [Nat.add_mul]
      omega

theorem crun_valid {g : TaskGraph} (hok : g.ok = true) {t t' : Target} {n d : Nat} (h : CRun g t n d t')
    (hv : g.valid t = true) : g.valid t' = true := by
  induction h with
  | nil => exact hv
  | cons hs _ ih => exact ih (cstep_valid hok hs)

/-- from every valid target the task can reach the return of `run` by cancel arms alone -/
theorem cancel_reaches_ret {g : TaskGraph} (hok : g.ok = true) :
    ∀ k t, g.rankOf t = some k → ∃ n r, n ≤ k ∧ CRun g t n 0 (.ret r) := by
  intro k
  induction k using Nat.strongRecOn with
  | _ k ih =>
    intro t hk
    cases t with
    | ret r => exact ⟨0, r, Nat.zero_le _, .nil⟩
    | node i =>
      cases hn : g.nodes[i]? with
      | none => simp [TaskGraph.rankOf, hn] at hk
      | some nd =>
        obtain ⟨t1, hs⟩ := cancel_progress hok hn
        obtain ⟨k0, k1, h0, h1, hlt⟩ := quiet_decreases hok hs
        rw [hk] at h0; cases h0
        obtain ⟨n, r, hle, hrun⟩ := ih k1 hlt t1 h1
        refine ⟨n + 1, r, by omega, ?_⟩
        have := CRun.cons hs hrun
        simpa using this

end Hls.Pool
