/-
  Datatypes of the blocking-operation table and of the blocking graphs of the client's
  routine pool (property C12, DESIGN.md §4.1 `Gen/Blocking`, §6 C12).

  `go/cmd/extract/gen_blocking.go` walks the Go AST of `client*.go` and emits values of these
  types into `Hls/Gen/Blocking.lean` (regenerated on every run). Types only; no logic here.
-/
namespace Hls.Pool

/-- Which context a `<-X.Done()` arm, a request context or a `ctx` argument refers to. -/
inductive CtxClass
  | pool      -- `rp.ctx` of `clientRoutinePool` or a context derived from it (parameter passing, fields, `context.With…`)
  | client    -- `c.ctx` of `Client` (cancelled by `Close`)
  | none      -- no context / `context.Background()`
  | unknown   -- a context that is not the pool's on every path
  deriving DecidableEq, Repr, Inhabited

/-- One alternative of a potentially blocking operation. -/
inductive ArmKind
  | ctxDone (c : CtxClass)   -- `case <-X.Done():` / cancellation of the request context
  | recv (ch : String)       -- `case … <-ch:`
  | send (ch : String)       -- `case ch <- …:`
  | timeAfter                -- `case <-time.After(d):`
  | ok                       -- the operation completes (response, bytes, queue entry, lock acquired, callback returned nil)
  | fail                     -- it completes with an error that is not the cancellation (transport error, callback error)
  deriving DecidableEq, Repr, Inhabited

/-- Kind of a potentially blocking operation (one row of the table). -/
inductive OpKind
  | select          -- `select` without `default`
  | send            -- channel send outside `select`
  | recv            -- channel receive outside `select` (not of a `Done()` channel)
  | recvCtxDone     -- `<-X.Done()` outside `select`
  | rangeChan       -- `for … := range ch`
  | timeSleep       -- `time.Sleep`, `<-time.After(…)` outside `select`
  | httpDo          -- `httpClient.Do(req)`
  | bodyRead        -- `io.ReadAll(res.Body)` and friends
  | wgWait          -- `WaitGroup.Wait`
  | condWait        -- `sync.Cond.Wait`
  | lock            -- `Mutex.Lock` / `RWMutex.(R)Lock`
  | queuePull       -- `clientSegmentQueue.pull(ctx)`
  | queueWaitBelow  -- `clientSegmentQueue.waitUntilSizeIsBelow(ctx, n)`
  | queuePush       -- `clientSegmentQueue.push(seg)`
  | callback        -- call of a function value (user callback)
  deriving DecidableEq, Repr, Inhabited

/-- Which goroutine executes the operation. -/
inductive Role
  | task          -- a goroutine of the routine pool (`run` of a runnable and everything it calls)
  | wrapper       -- the pool's own code around `run` (`clientRoutinePool.add`)
  | runner        -- `Client.run` / `runInner` / `clientRoutinePool.close` (the goroutine that owns the pool)
  | api           -- the caller of `Start` / `Close` / `Wait` / …
  | unattributed  -- reached from none of the above
  deriving DecidableEq, Repr, Inhabited

/-- One row per syntactic potentially blocking operation of `client*.go`. -/
structure Row where
  file      : String
  fn        : String
  line      : Nat
  kind      : OpKind
  what      : String          -- channel / callee as written
  arms      : List ArmKind    -- `select`: its cases; other kinds: the outcomes
  ctx       : CtxClass        -- class of the `Done()` arm / request context / `ctx` argument over ALL call paths (`none` if absent)
  bufCap    : Option Nat      -- send/recv outside select: capacity of the `make(chan T, n)` of that channel (`none` = not a unique constant)
  sendSites : Nat             -- send outside select: number of syntactic sends on that channel in the package
  inLoop    : Bool            -- the operation (or the `go` statement of its goroutine) sits inside a loop
  csFree    : Bool            -- lock: no blocking operation in any critical section of that mutex
  user      : Bool            -- callback: a function supplied by the user of the library
  roles     : List Role
  deriving DecidableEq, Repr, Inhabited

/-- How `run` of a task returns. -/
inductive RetK
  | nil          -- `return nil`
  | terminated   -- `fmt.Errorf("terminated")`
  | eos          -- `ErrClientEOS`
  | callback     -- the error a user callback returned (`OnTracks`)
  | io           -- the error of `httpClient.Do` / of reading the body
  | other        -- any other error
  deriving DecidableEq, Repr, Inhabited

inductive Target
  | node (i : Nat)
  | ret (r : RetK)
  deriving DecidableEq, Repr, Inhabited

/-- `next` = every blocking node (or return of `run`) control can reach after this arm without
    passing another node of the graph. -/
structure Arm where
  kind : ArmKind
  next : List Target
  deriving DecidableEq, Repr, Inhabited

/-- A node of a task's blocking graph: one blocking operation on one call path.
    `rank` is a certificate computed by the extractor (longest cancel path to `ret`); it is
    CHECKED in Lean, not trusted. -/
structure Node where
  row  : Nat            -- index into `blockingRows`
  kind : OpKind
  arms : List Arm
  rank : Nat
  deriving DecidableEq, Repr, Inhabited

/-- The blocking graph of one runnable kind: `run` with every call inlined. Operations that the
    table proves non-blocking (locks with blocking-free critical sections, `push`, callbacks whose
    result is not tested) are elided; they appear only in the table. -/
structure TaskGraph where
  name      : String
  entry     : List Target     -- reachable from the start of `run` without blocking
  nodes     : List Node
  spawns    : List String     -- runnable kinds this task may add to the pool
  callbacks : List String     -- function values this task may call
  deriving DecidableEq, Repr, Inhabited

/-- Statements of the pool / client skeletons (whitelisted shapes; anything else aborts extraction). -/
inductive Sk
  | newCtx (ctxField cancelField parent : String)   -- `x.ctx, x.ctxCancel = context.WithCancel(parent)`
  | makeChan (field : String) (cap : Nat)           -- `x.f = make(chan T, cap)`
  | cancel (field : String)                         -- `x.ctxCancel()`
  | closeChan (field : String)                      -- `close(x.f)`   (panics when repeated)
  | wgAdd | wgWait | deferWgDone
  | goBody                                          -- `go func() { … }()`  (body: `addGo`)
  | callRun (ctxArg : String)                       -- `err := r.run(rp.ctx)`
  | ifErrSelect                                     -- `if err != nil { select { … } }`  (arms: `addSelect`)
  | returnChan (field : String)                     -- `return x.f`
  | returnNil
  | returnErr (e : String)                          -- `return err` / `return fmt.Errorf("terminated")`
  | newPool | poolInitialize | poolAdd (what : String) | poolClose
  | newPrimary                                      -- `c.primaryDownloader = &clientPrimaryDownloader{…}` + `initialize()`
  | selectResult                                    -- the `select` of `runInner` (arms: `runInnerArms`)
  | sendResult (chan src : String)                  -- `c.outErr <- c.runInner()`
  | goRun                                           -- `go c.run()`
  | defaults                                        -- `if c.X == nil { c.X = … }` (default parameters)
  | parseURL                                        -- `c.playlistURL, err = url.Parse(c.URI); if err != nil { return err }`
  deriving DecidableEq, Repr, Inhabited

structure PoolSkel where
  init       : List Sk
  close      : List Sk
  errorChan  : List Sk
  add        : List Sk
  addGo      : List Sk
  addSelect  : List ArmKind
  deriving DecidableEq, Repr, Inhabited

structure ClientSkel where
  start        : List Sk
  close        : List Sk
  wait         : List Sk
  run          : List Sk
  runInner     : List Sk
  runInnerArms : List (ArmKind × List Sk)
  deriving DecidableEq, Repr, Inhabited

end Hls.Pool
