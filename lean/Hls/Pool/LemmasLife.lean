import Hls.Pool.Lemmas
/-! Helper lemmas for C12, part 2: the inductive invariant of the life-cycle machine. -/
namespace Hls.Pool

/-- where the error carried by the runner comes from -/
def Carried (s : St) (e : Err) : Prop :=
  s.delivered = [e] ∨ (s.delivered = [] ∧ e = .terminated ∧ s.clientCancelled = true)

structure Inv (p : Params) (s : St) : Prop where
  started : s.runner ≠ .idle
  init_tasks : s.runner = .init → s.tasks = [] ∧ s.delivered = []
  sel_delivered : s.runner = .select → s.delivered = []
  carried : ∀ e, (s.runner = .cancelPool e ∨ s.runner = .waitPool e ∨ s.runner = .sendResult e) → Carried s e
  done_tasks : (s.runner = .done ∨ ∃ e, s.runner = .sendResult e) → s.allDone = true
  not_done_empty : s.runner ≠ .done → s.outErr = [] ∧ s.received = []
  done_result : s.runner = .done → ∃ e, s.received ++ s.outErr = [e] ∧ Carried s e
  cb : s.cbAfter = 0
  nopanic : s.panicked = false
  handover_returned : ∀ t ∈ s.tasks, ∀ e, t.pc = .handOver e → e ∈ s.returned
  delivered_returned : ∀ e ∈ s.delivered, e ∈ s.returned
  wait_cancelled : ∀ e, (s.runner = .waitPool e ∨ s.runner = .sendResult e) → s.poolCancelled = true
  done_cancelled : s.runner = .done → s.poolCancelled = true

theorem tstep_live {p : Params} {c : Bool} {t t' : Task} {ev : TaskEv} (h : TStep p c t ev t') : t.live = true := by
  cases h <;> rfl

theorem allDone_no_step {p : Params} {s : St} {pre post : List Task} {t t' : Task} {ev : TaskEv}
    (hd : s.allDone = true) (ht : s.tasks = pre ++ t :: post) (h : TStep p s.poolCancelled t ev t') : False := by
  have hl := tstep_live h
  simp only [St.allDone, List.all_eq_true, Bool.not_eq_true'] at hd
  have := hd t (by rw [ht]; simp)
  rw [hl] at this
  cases this

theorem inv_start (p : Params) : Inv p { runner := .init } := by
  constructor <;> simp [Carried, St.allDone]


theorem good_iff {p : Params} : p.good = true ↔
    1 ≤ p.outErrCap ∧ p.closeOnErr = true ∧ p.closeOnCtx = true ∧ p.poolCancels = true ∧ p.poolWaits = true ∧
    p.closeKind = .cancel := by
  unfold Params.good
  cases p.closeKind <;> simp [and_assoc]

theorem inv_step {p : Params} (hg : p.good = true) {s s' : St} (hi : Inv p s) (hs : Step p s s') : Inv p s' := by
  obtain ⟨hcap, hce, hcc, hpc, hpw, hck⟩ := good_iff.mp hg
  obtain ⟨h1, h2, h3, h4, h5, h6, h7, h8, h9, h10, h11, h12, h13⟩ := hi
  cases hs with
  | start hr => exact absurd hr h1
  | runnerInit hr =>
    obtain ⟨ht, hd⟩ := h2 hr
    constructor <;> (try simp_all [Carried, St.allDone]) <;> (try assumption)
  | @runnerRecvErr pre post k e hr ht =>
    have hmem : ∀ t, t ∈ pre ++ ⟨k, .done⟩ :: post → t ∈ s.tasks ∨ t = ⟨k, .done⟩ := by
      intro t h
      rw [ht]
      simp only [List.mem_append, List.mem_cons] at h ⊢
      rcases h with h | h | h
      · exact Or.inl (Or.inl h)
      · exact Or.inr h
      · exact Or.inl (Or.inr (Or.inr h))
    have hret : e ∈ s.returned := h10 ⟨k, .handOver e⟩ (by rw [ht]; simp) e rfl
    have hdel := h3 hr
    refine ⟨?_, ?_, ?_, ?_, ?_, ?_, ?_, h8, h9, ?_, ?_, ?_, ?_⟩
    all_goals simp only [afterSelect, hce, if_true]
    · simp
    · simp
    · simp
    · intro e' he'
      have : e' = e := by simpa [eq_comm] using he'
      subst this
      exact Or.inl (by simp [hdel])
    · simp
    · intro _; exact h6 (by simp [hr])
    · simp
    · intro t htm e' hpc
      rcases hmem t htm with h | h
      · exact h10 t h e' hpc
      · subst h; cases hpc
    · intro e' he'
      simp only [hdel, List.nil_append, List.mem_singleton] at he'
      subst he'; exact hret
    · simp
    · simp
  | runnerCtx hr hc =>
    constructor <;> (try simp_all [Carried, St.allDone, afterSelect]) <;> (try assumption)
  | runnerCancel hr =>
    constructor <;> (try simp_all [Carried, St.allDone]) <;> (try assumption)
  | runnerWait hr hw =>
    constructor <;> (try simp_all [Carried, St.allDone]) <;> (try assumption)
  | runnerSend hr hl =>
    constructor <;> (try simp_all [Carried, St.allDone]) <;> (try assumption)
  | runnerSendDirect hr hz => omega
  | @task pre post t t' ev ht hts =>
    have hnd : ¬ (s.runner = .done ∨ ∃ e, s.runner = .sendResult e) := fun h => allDone_no_step (h5 h) ht hts
    refine ⟨h1, ?_, h3, h4, fun h => absurd h hnd, h6, fun h => absurd (Or.inl h) hnd, ?_, h9, ?_, ?_, h12, h13⟩
    · intro hr
      have := (h2 hr).1
      rw [ht] at this
      simp at this
    · have hns : s.runner.sent = false := by
        cases hr : s.runner <;> simp [RPc.sent]
        exact hnd (Or.inl hr)
      cases ev <;> simp [h8, hns, TaskEv.cbs]
    · intro t'' hm e hpc
      simp only [List.mem_append, List.mem_cons] at hm
      have old : ∀ x, x ∈ s.tasks → x.pc = .handOver e → e ∈ s.returned :=
        fun x hx hp => h10 x hx e hp
      rcases hm with ((hm | hm | hm) | hm)
      · exact List.mem_append_left _ (old t'' (by rw [ht]; simp [hm]) hpc)
      · subst hm
        cases hts <;> simp_all [TaskEv.rets]
      · exact List.mem_append_left _ (old t'' (by rw [ht]; simp [hm]) hpc)
      · cases ev <;> simp [TaskEv.spawned] at hm
        subst hm; cases hpc
    · intro e he
      exact List.mem_append_left _ (h11 e he)
  | close hr =>
    have mono : ∀ (s' : St) e, s'.delivered = s.delivered → s'.clientCancelled = true → Carried s e → Carried s' e := by
      intro s' e hd hcl hc
      rcases hc with h | ⟨h, he, _⟩
      · exact Or.inl (hd ▸ h)
      · exact Or.inr ⟨hd ▸ h, he, hcl⟩
    refine ⟨h1, h2, h3, fun e he => mono _ e rfl rfl (h4 e he), h5, h6, ?_, h8, ?_, h10, h11, h12, h13⟩
    · intro hd
      obtain ⟨e, he, hc⟩ := h7 hd
      exact ⟨e, he, mono _ e rfl rfl hc⟩
    · simp [h9, hck]
  | closeBeforeStart hr => exact absurd hr h1
  | @recv e rest ho =>
    have hd : s.runner = .done := by
      apply Classical.byContradiction
      intro hn
      have := (h6 hn).1
      rw [ho] at this
      cases this
    obtain ⟨e0, he0, hc⟩ := h7 hd
    rw [ho] at he0
    have hrec : s.received = [] ∧ rest = [] ∧ e = e0 := by
      cases hr : s.received with
      | nil => rw [hr] at he0; simp at he0; exact ⟨rfl, he0.2, he0.1⟩
      | cons a l => rw [hr] at he0; simp at he0
    obtain ⟨hr0, hrest, hee⟩ := hrec
    subst hrest; subst hee
    refine ⟨h1, h2, h3, h4, h5, fun h => absurd hd h, ?_, h8, h9, h10, h11, h12, h13⟩
    intro _
    exact ⟨e, by simp [hr0], hc⟩


theorem inv_reachable {p : Params} (hg : p.good = true) {s : St} (h : Reachable p s) : Inv p s := by
  induction h with
  | start => exact inv_start p
  | step _ hs ih => exact inv_step hg ih hs

end Hls.Pool
