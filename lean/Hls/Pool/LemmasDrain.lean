import Hls.Pool.LemmasLife
/-! Helper lemmas for C12, part 3: validity of task program counters, the measure, draining of the pool after cancel. -/
namespace Hls.Pool

/-- every extracted graph carries a valid rank certificate and the primary kind exists -/
def Params.wf (p : Params) : Bool := p.graphs.all TaskGraph.ok && decide (p.primary < p.graphs.length)

def TaskValid (p : Params) (t : Task) : Prop :=
  ∃ g, p.graphs[t.kind]? = some g ∧ ∀ tg, t.pc = .at tg → g.valid tg = true

theorem wf_graph_ok {p : Params} (hw : p.wf = true) {k : Nat} {g : TaskGraph} (hk : p.graphs[k]? = some g) : g.ok = true := by
  simp only [Params.wf, Bool.and_eq_true, List.all_eq_true] at hw
  exact hw.1 g (List.mem_of_getElem? hk)

theorem tstep_valid {p : Params} (hw : p.wf = true) {c : Bool} {t t' : Task} {ev : TaskEv}
    (hv : TaskValid p t) (h : TStep p c t ev t') : TaskValid p t' := by
  obtain ⟨g0, hg0, hv0⟩ := hv
  cases h with
  | begin hk he =>
    have hok := wf_graph_ok hw hk
    simp only [TaskGraph.ok, Bool.and_eq_true, List.all_eq_true] at hok
    exact ⟨_, hk, fun tg h => by cases h; exact hok.2 _ he⟩
  | cancelArm hk hn _ ha _ ht =>
    exact ⟨_, hk, fun tg h => by cases h; exact (arm_next (nodeOk_of_ok (wf_graph_ok hw hk) hn) ha).2 _ ht⟩
  | otherArm hk hn ha _ ht =>
    exact ⟨_, hk, fun tg h => by cases h; exact (arm_next (nodeOk_of_ok (wf_graph_ok hw hk) hn) ha).2 _ ht⟩
  | spawn => exact ⟨g0, hg0, hv0⟩
  | spawnFresh => exact ⟨g0, hg0, hv0⟩
  | callback => exact ⟨g0, hg0, hv0⟩
  | callbackFresh => exact ⟨g0, hg0, hv0⟩
  | retErr => exact ⟨g0, hg0, fun tg h => by cases h⟩
  | retNil => exact ⟨g0, hg0, fun tg h => by cases h⟩
  | giveUp => exact ⟨g0, hg0, fun tg h => by cases h⟩

theorem valid_step {p : Params} (hw : p.wf = true) {s s' : St} (hv : ∀ t ∈ s.tasks, TaskValid p t) (hs : Step p s s') :
    ∀ t ∈ s'.tasks, TaskValid p t := by
  cases hs with
  | runnerInit =>
    intro t ht
    simp only [List.mem_append, List.mem_singleton] at ht
    rcases ht with h | h
    · exact hv t h
    · subst h
      simp only [Params.wf, Bool.and_eq_true, decide_eq_true_eq] at hw
      obtain ⟨g, hg⟩ : ∃ g, p.graphs[p.primary]? = some g := ⟨p.graphs[p.primary]'hw.2, by simp [hw.2]⟩
      exact ⟨g, hg, fun tg h => by cases h⟩
  | @runnerRecvErr pre post k e _ ht =>
    intro t hm
    simp only [List.mem_append, List.mem_cons] at hm
    rcases hm with h | h | h
    · exact hv t (by rw [ht]; simp [h])
    · subst h
      obtain ⟨g, hg, _⟩ := hv ⟨k, .handOver e⟩ (by rw [ht]; simp)
      exact ⟨g, hg, fun tg h => by cases h⟩
    · exact hv t (by rw [ht]; simp [h])
  | @task pre post t t' ev ht hts =>
    intro x hm
    simp only [List.mem_append, List.mem_cons] at hm
    rcases hm with ((h | h | h) | h)
    · exact hv x (by rw [ht]; simp [h])
    · subst h; exact tstep_valid hw (hv t (by rw [ht]; simp)) hts
    · exact hv x (by rw [ht]; simp [h])
    · cases hts <;> simp [TaskEv.spawned] at h
      all_goals (subst h; rename_i g' _ hk' _; exact ⟨g', hk', fun tg h => by cases h⟩)
  | start => exact hv
  | runnerCtx => exact hv
  | runnerCancel => exact hv
  | runnerWait => exact hv
  | runnerSend => exact hv
  | runnerSendDirect => exact hv
  | close => exact hv
  | closeBeforeStart => exact hv
  | recv => exact hv

theorem valid_reachable {p : Params} (hw : p.wf = true) {s : St} (h : Reachable p s) : ∀ t ∈ s.tasks, TaskValid p t := by
  induction h with
  | start => intro t ht; cases ht
  | step _ hs ih => exact valid_step hw ih hs


/-- measure of one pool goroutine once the pool context is cancelled -/
def mu (p : Params) (t : Task) : Nat :=
  match t.pc with
  | .done => 0
  | .handOver _ => 1
  | .at tg => 2 + (match p.graphs[t.kind]? with | some g => (g.rankOf tg).getD 0 | none => 0)
  | .fresh => 3 + (match p.graphs[t.kind]? with | some g => g.maxRank | none => 0)

def phi (p : Params) (s : St) : Nat := (s.tasks.map (mu p)).sum

/-- a quiet step of one goroutine: a move that is not a detour, or leaving `run` -/
def QuietEv (ev : TaskEv) : Prop := ev = .move false ∨ ∃ e, ev = .returned e

theorem mem_cancelArms_of_cancel {n : Node} {a : Arm} (ha : a ∈ n.arms) (hc : a.kind.isCancel = true) : a ∈ n.cancelArms := by
  have hg : n.guarded = true := by simp only [Node.guarded, List.any_eq_true]; exact ⟨a, ha, hc⟩
  simp only [Node.cancelArms, hg, if_true]
  exact List.mem_filter.mpr ⟨ha, hc⟩

theorem mem_cancelArms_of_unguarded {n : Node} {a : Arm} (ha : a ∈ n.arms) (hg : n.guarded = false) : a ∈ n.cancelArms := by
  simp [Node.cancelArms, hg, ha]

theorem quiet_mu {p : Params} (hw : p.wf = true) {t t' : Task} {ev : TaskEv} (hv : TaskValid p t)
    (h : TStep p true t ev t') (hq : QuietEv ev) : mu p t' < mu p t := by
  cases h with
  | @begin k g e hk he =>
    have hok := wf_graph_ok hw hk
    simp only [TaskGraph.ok, Bool.and_eq_true, List.all_eq_true] at hok
    obtain ⟨r, hr, hle⟩ := valid_rank (hok.2 e he)
    simp only [mu, hk, hr, Option.getD_some]
    omega
  | @cancelArm k g i n a t hk hn _ ha hc ht =>
    obtain ⟨r, hr, hlt⟩ := cancel_below (nodeOk_of_ok (wf_graph_ok hw hk) hn) (mem_cancelArms_of_cancel ha hc) ht
    have hsrc : g.rankOf (.node i) = some n.rank := by simp [TaskGraph.rankOf, hn]
    simp only [mu, hk, hr, hsrc, Option.getD_some]
    omega
  | @otherArm k g i n a t hk hn ha hc ht =>
    have hg : n.guarded = false := by
      rcases hq with h | ⟨e, h⟩
      · cases hgd : n.guarded
        · rfl
        · rw [hgd] at h; cases h
      · cases h
    obtain ⟨r, hr, hlt⟩ := cancel_below (nodeOk_of_ok (wf_graph_ok hw hk) hn) (mem_cancelArms_of_unguarded ha hg) ht
    have hsrc : g.rankOf (.node i) = some n.rank := by simp [TaskGraph.rankOf, hn]
    simp only [mu, hk, hr, hsrc, Option.getD_some]
    omega
  | spawn => rcases hq with h | ⟨e, h⟩ <;> cases h
  | spawnFresh => rcases hq with h | ⟨e, h⟩ <;> cases h
  | callback => rcases hq with h | ⟨e, h⟩ <;> cases h
  | callbackFresh => rcases hq with h | ⟨e, h⟩ <;> cases h
  | retErr => simp only [mu]; omega
  | retNil => simp only [mu]; omega
  | giveUp => simp [mu]

/-- a goroutine of the pool that has not finished always has a quiet step once the pool context is cancelled -/
theorem quiet_progress_task {p : Params} (hw : p.wf = true) {t : Task} (hv : TaskValid p t) (hl : t.live = true) :
    ∃ ev t', TStep p true t ev t' ∧ QuietEv ev := by
  obtain ⟨g, hg, hvt⟩ := hv
  obtain ⟨k, pc⟩ := t
  have hok := wf_graph_ok hw hg
  cases pc with
  | done => cases hl
  | handOver e => exact ⟨_, _, .giveUp rfl, Or.inl rfl⟩
  | fresh =>
    have hok' := hok
    simp only [TaskGraph.ok, Bool.and_eq_true, List.all_eq_true, Bool.not_eq_true', List.isEmpty_eq_false_iff] at hok'
    obtain ⟨e, he⟩ := List.exists_mem_of_ne_nil _ hok'.1.2
    exact ⟨_, _, .begin hg he, Or.inl rfl⟩
  | «at» tg =>
    cases tg with
    | ret r =>
      cases hr : r.toErr with
      | none =>
        have : r = .nil := by cases r <;> simp [RetK.toErr] at hr; rfl
        subst this
        exact ⟨_, _, .retNil, Or.inr ⟨_, rfl⟩⟩
      | some e => exact ⟨_, _, .retErr hr, Or.inr ⟨_, rfl⟩⟩
    | node i =>
      have hval := hvt (.node i) rfl
      simp only [TaskGraph.valid, TaskGraph.rankOf, Option.isSome_map] at hval
      cases hn : g.nodes[i]? with
      | none => simp [hn] at hval
      | some n =>
        have hno := nodeOk_of_ok hok hn
        obtain ⟨a, ha⟩ := List.exists_mem_of_ne_nil _ (cancelArms_ne_nil hno)
        obtain ⟨hne, _⟩ := arm_next hno (cancelArms_sub ha)
        obtain ⟨t1, ht1⟩ := List.exists_mem_of_ne_nil _ hne
        cases hgd : n.guarded with
        | true =>
          have hc : a.kind.isCancel = true := by
            simp only [Node.cancelArms, hgd, if_true] at ha
            exact (List.mem_filter.mp ha).2
          exact ⟨_, _, .cancelArm hg hn rfl (cancelArms_sub ha) hc ht1, Or.inl rfl⟩
        | false =>
          have hc : a.kind.isCancel = false := by
            cases hk : a.kind.isCancel
            · rfl
            · have : n.guarded = true := by simp only [Node.guarded, List.any_eq_true]; exact ⟨a, cancelArms_sub ha, hk⟩
              rw [hgd] at this; cases this
          refine ⟨.move n.guarded, _, .otherArm hg hn (cancelArms_sub ha) hc ht1, Or.inl ?_⟩
          rw [hgd]


theorem quiet_state_eq {p : Params} {c : Bool} {t t' : Task} {ev : TaskEv} (h : TStep p c t ev t') (hq : QuietEv ev)
    (s : St) (pre post : List Task) :
    { s with
        tasks := pre ++ t' :: post ++ ev.spawned,
        returned := s.returned ++ ev.rets,
        cbAfter := s.cbAfter + ev.cbs s.runner.sent } =
    { s with tasks := pre ++ t' :: post, returned := s.returned ++ t'.pc.handedOver } := by
  cases h <;> first
    | (rcases hq with h | ⟨e, h⟩ <;> cases h; done)
    | simp [TaskEv.spawned, TaskEv.rets, TaskEv.cbs, TPc.handedOver]

theorem quiet_is_step {p : Params} {s s' : St} (h : Quiet p s s') : Step p s s' := by
  cases h with
  | @mk pre post t t' hpc ht hq =>
    rcases hq with hq | ⟨e, hq⟩
    · have hs := Step.task (p := p) ht (hpc.symm ▸ hq)
      rw [quiet_state_eq hq (Or.inl rfl)] at hs
      exact hs
    · have hs := Step.task (p := p) ht (hpc.symm ▸ hq)
      rw [quiet_state_eq hq (Or.inr ⟨e, rfl⟩)] at hs
      exact hs

theorem sum_map_mid (f : Task → Nat) (pre post : List Task) (t : Task) :
    ((pre ++ t :: post).map f).sum = (pre.map f).sum + f t + (post.map f).sum := by
  simp [List.sum_append, Nat.add_assoc]

theorem quiet_phi {p : Params} (hw : p.wf = true) {s s' : St} (hv : ∀ t ∈ s.tasks, TaskValid p t) (h : Quiet p s s') :
    phi p s' < phi p s := by
  cases h with
  | @mk pre post t t' hpc ht hq =>
    have htv := hv t (by rw [ht]; simp)
    have hlt : mu p t' < mu p t := by
      rcases hq with hq | ⟨e, hq⟩
      · exact quiet_mu hw htv hq (Or.inl rfl)
      · exact quiet_mu hw htv hq (Or.inr ⟨e, rfl⟩)
    simp only [phi, ht, sum_map_mid]
    omega

theorem quiet_progress {p : Params} (hw : p.wf = true) {s : St} (hv : ∀ t ∈ s.tasks, TaskValid p t)
    (hpc : s.poolCancelled = true) (hnd : s.allDone = false) : ∃ s', Quiet p s s' := by
  have : ∃ t ∈ s.tasks, t.live = true := by
    simp only [St.allDone] at hnd
    have := List.all_eq_false.mp hnd
    obtain ⟨t, ht, hl⟩ := this
    exact ⟨t, ht, by simpa using hl⟩
  obtain ⟨t, htm, hl⟩ := this
  obtain ⟨pre, post, hsplit⟩ := List.append_of_mem htm
  obtain ⟨ev, t', hts, hq⟩ := quiet_progress_task hw (hv t htm) hl
  refine ⟨_, Quiet.mk (t' := t') hpc hsplit ?_⟩
  rcases hq with h | ⟨e, h⟩
  · subst h; exact Or.inl hts
  · subst h; exact Or.inr ⟨e, hts⟩

/-- `n` quiet steps -/
inductive QRun (p : Params) : St → Nat → St → Prop
  | nil {s} : QRun p s 0 s
  | cons {s s' s'' n} : Quiet p s s' → QRun p s' n s'' → QRun p s (n + 1) s''

theorem quiet_valid {p : Params} (hw : p.wf = true) {s s' : St} (hv : ∀ t ∈ s.tasks, TaskValid p t) (h : Quiet p s s') :
    ∀ t ∈ s'.tasks, TaskValid p t := valid_step hw hv (quiet_is_step h)

theorem qrun_bound {p : Params} (hw : p.wf = true) {s s' : St} {n : Nat} (h : QRun p s n s') :
    (∀ t ∈ s.tasks, TaskValid p t) → n + phi p s' ≤ phi p s := by
  induction h with
  | nil => intro _; omega
  | cons hq _ ih =>
    intro hv
    have := quiet_phi hw hv hq
    have := ih (quiet_valid hw hv hq)
    omega

end Hls.Pool
