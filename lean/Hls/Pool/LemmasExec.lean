import Hls.Pool.LemmasDrain
/-! Helper lemmas for C12, part 4: the executable machine of the model driver (`next`) only takes steps of `Step`. -/
namespace Hls.Pool

theorem split_at {α} {l : List α} {i : Nat} {a : α} (h : l[i]? = some a) :
    l = l.take i ++ a :: l.drop (i + 1) ∧ ∀ b, l.set i b = l.take i ++ b :: l.drop (i + 1) := by
  obtain ⟨hi, rfl⟩ := List.getElem?_eq_some_iff.mp h
  constructor
  · rw [← List.drop_eq_getElem_cons hi, List.take_append_drop]
  · intro b
    rw [List.set_eq_take_append_cons_drop, if_pos hi]

theorem task_step_at {p : Params} {s : St} {i : Nat} {t t' : Task} {ev : TaskEv} (hi : s.tasks[i]? = some t)
    (h : TStep p s.poolCancelled t ev t') :
    Step p s { s with tasks := s.tasks.set i t' ++ ev.spawned, returned := s.returned ++ ev.rets,
                      cbAfter := s.cbAfter + ev.cbs s.runner.sent } := by
  obtain ⟨h1, h2⟩ := split_at hi
  have := Step.task (p := p) h1 h
  rw [h2 t']
  simpa using this


theorem step_of_eq {p : Params} {s s1 s2 : St} (h : Step p s s1) (he : s1 = s2) : Step p s s2 := he ▸ h

/-- the executable machine of the model driver takes only steps of `Step` -/
theorem next_sound {p : Params} {l : Label} {s s' : St} (h : next p l s = some s') : Step p s s' := by
  cases l with
  | start =>
    simp only [next] at h
    split at h
    · cases h; exact .start (by assumption)
    · cases h
  | close =>
    simp only [next] at h
    split at h
    · cases h; exact .closeBeforeStart (by assumption)
    · cases h; exact .close (by assumption)
  | recv =>
    simp only [next] at h
    split at h
    · cases h; exact .recv (by assumption)
    · split at h
      · split at h
        · cases h; exact .runnerSendDirect (by assumption) (by assumption)
        · cases h
      · cases h
  | runner =>
    simp only [next] at h
    split at h
    · cases h; exact .runnerInit (by assumption)
    · cases h; exact .runnerCancel (by assumption)
    · split at h
      · cases h; exact .runnerWait (by assumption) (by assumption)
      · cases h
    · split at h
      · cases h; exact .runnerSend (by assumption) (by assumption)
      · cases h
    · cases h
  | runnerRecvErr i =>
    simp only [next] at h
    split at h
    · rename_i k e hr hi
      cases h
      obtain ⟨h1, h2⟩ := split_at hi
      have := Step.runnerRecvErr (p := p) hr h1
      rw [h2]
      exact this
    · cases h
  | runnerCtx =>
    simp only [next] at h
    split at h
    · split at h
      · cases h; exact .runnerCtx (by assumption) (by assumption)
      · cases h
    · cases h
  | begin i k =>
    simp only [next] at h
    split at h
    · rename_i kd hi
      split at h
      · rename_i g hg
        cases he : g.entry[k]? with
        | none => simp [he] at h
        | some e =>
          simp only [he, Option.map_some, Option.some.injEq] at h
          subst h
          exact step_of_eq (task_step_at hi (.begin hg (List.mem_of_getElem? he)))
            (by simp [setTask, TaskEv.spawned, TaskEv.rets, TaskEv.cbs])
      · cases h
    · cases h
  | arm i a k =>
    simp only [next] at h
    split at h
    · rename_i kd j hi
      split at h
      · rename_i g hg
        split at h
        · rename_i n hn
          split at h
          · rename_i ar har
            split at h
            · cases h
            · rename_i hcond
              cases ht : ar.next[k]? with
              | none => simp [ht] at h
              | some t =>
                simp only [ht, Option.map_some, Option.some.injEq] at h
                subst h
                cases hc : ar.kind.isCancel with
                | true =>
                  have hpc : s.poolCancelled = true := by
                    cases hp : s.poolCancelled
                    · simp [hc, hp] at hcond
                    · rfl
                  exact step_of_eq (task_step_at hi (.cancelArm hg hn hpc (List.mem_of_getElem? har) hc (List.mem_of_getElem? ht)))
                    (by simp [setTask, TaskEv.spawned, TaskEv.rets, TaskEv.cbs])
                | false =>
                  exact step_of_eq (task_step_at hi (.otherArm hg hn (List.mem_of_getElem? har) hc (List.mem_of_getElem? ht)))
                    (by simp [setTask, TaskEv.spawned, TaskEv.rets, TaskEv.cbs])
          · cases h
        · cases h
      · cases h
    · cases h
  | spawn i k' =>
    simp only [next] at h
    split at h
    · rename_i kd pc hi
      have hset : s.tasks.set i ⟨kd, pc⟩ = s.tasks := by
        obtain ⟨h1, h2⟩ := split_at hi
        rw [h2]; exact h1.symm
      split at h
      · rename_i j g g' hg hg'
        split at h
        · rename_i hmem
          cases h
          exact step_of_eq (task_step_at hi (.spawn (i := j) hg hg' hmem))
            (by simp [hset, TaskEv.spawned, TaskEv.rets, TaskEv.cbs])
        · cases h
      · rename_i g g' hg hg'
        split at h
        · rename_i hmem
          cases h
          exact step_of_eq (task_step_at hi (.spawnFresh hg hg' hmem))
            (by simp [hset, TaskEv.spawned, TaskEv.rets, TaskEv.cbs])
        · cases h
      · cases h
    · cases h
  | callback i =>
    simp only [next] at h
    split at h
    · rename_i kd j hi
      have hset : s.tasks.set i ⟨kd, .at (.node j)⟩ = s.tasks := by
        obtain ⟨h1, h2⟩ := split_at hi
        rw [h2]; exact h1.symm
      cases h
      exact step_of_eq (task_step_at hi .callback) (by simp [hset, TaskEv.spawned, TaskEv.rets, TaskEv.cbs])
    · rename_i kd hi
      have hset : s.tasks.set i ⟨kd, .fresh⟩ = s.tasks := by
        obtain ⟨h1, h2⟩ := split_at hi
        rw [h2]; exact h1.symm
      cases h
      exact step_of_eq (task_step_at hi .callbackFresh) (by simp [hset, TaskEv.spawned, TaskEv.rets, TaskEv.cbs])
    · cases h
  | ret i =>
    simp only [next] at h
    split at h
    · rename_i kd r hi
      split at h
      · rename_i e he
        cases h
        exact step_of_eq (task_step_at hi (.retErr he)) (by simp [setTask, TaskEv.spawned, TaskEv.rets, TaskEv.cbs])
      · rename_i he
        cases h
        have : r = .nil := by cases r <;> simp [RetK.toErr] at he; rfl
        subst this
        exact step_of_eq (task_step_at hi .retNil) (by simp [setTask, TaskEv.spawned, TaskEv.rets, TaskEv.cbs])
    · cases h
  | giveUp i =>
    simp only [next] at h
    split at h
    · rename_i kd e hi
      split at h
      · rename_i hpc
        cases h
        exact step_of_eq (task_step_at hi (.giveUp hpc)) (by simp [setTask, TaskEv.spawned, TaskEv.rets, TaskEv.cbs])
      · cases h
    · cases h


theorem runLabels_reachable {p : Params} (ls : List Label) {s s' : St} (hr : Reachable p s)
    (h : runLabels p ls s = some s') : Reachable p s' := by
  induction ls generalizing s with
  | nil => simp [runLabels] at h; exact h ▸ hr
  | cons l ls ih =>
    simp only [runLabels] at h
    cases hn : next p l s with
    | none => simp [hn] at h
    | some s1 =>
      simp only [hn, Option.bind_some] at h
      exact ih (.step hr (next_sound hn)) h

theorem runLabels_reachable0 {p : Params} (ls : List Label) {s s' : St} (hr : Reachable0 p s)
    (h : runLabels p ls s = some s') : Reachable0 p s' := by
  induction ls generalizing s with
  | nil => simp [runLabels] at h; exact h ▸ hr
  | cons l ls ih =>
    simp only [runLabels] at h
    cases hn : next p l s with
    | none => simp [hn] at h
    | some s1 =>
      simp only [hn, Option.bind_some] at h
      exact ih (.step hr (next_sound hn)) h

end Hls.Pool
