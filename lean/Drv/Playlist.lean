import Hls.Proto
import Hls.Playlist.MediaModel
import Hls.Playlist.MediaGrammar
import Hls.Playlist.MediaFloat
/-! Model driver for the `playlist` correspondence stream (C14, C15): media playlists.

ops
  `mar <canon media>`   → `mar <hex of Marshal(p)> fix=<0|1|-> rt <ok <canon>|err|panic>`
  `unm <hex bytes>`     → `unm ok <canon> re <hex of Marshal(value)> g=<strict><lenient>` | `unm err g=…` | `unm panic g=…`
                          (g = verdicts of the strict grammar `MediaGrammar.accepts` on the input bytes)

canonical value syntax (tokens separated by one blank; strings are `x<hex>`; absent = `-`):
  media <version> <indep> <start|-> <allowcache|-> <target> <sc> <partinf|-> <mseq> <dseq|-> <ptype|-> <map> <skip|->
        <nseg> seg… <nparts> part… <ph> <endlist>
  sc   = - | sc <cbr> <phb|-> <csu|->
  map  = - | map <uri> <len|-> <start|->
  seg  = seg <dur> <title> <uri> <disc> <gap> <dt> <bitrate|-> <key> <len|-> <start|-> <nparts> part…
  dt   = - | t <unix sec> <nsec> <zone offset sec>
  key  = - | key <method> <uri> <iv> <keyformat> <keyformatversions>
  part = part <dur> <uri> <indep> <len|-> <start|-> <gap>
  ph   = - | ph <uri> <start> <len|->
-/
open Hls.Proto Hls.Playlist.MP

namespace PlDrv

def strOfBytes (bs : List Nat) : Str := bs.map Char.ofNat
def hexOfStr (s : Str) : String := hexOfBytes (s.map Char.toNat)

def cStr (s : Str) : String := "x" ++ hexOfStr s
def cBool (v : Bool) : String := if v then "1" else "0"
def cOpt {α} (f : α → String) : Option α → String
  | some a => f a
  | none => "-"
def cInt (v : Int) : String := toString v
def cNat (v : Nat) : String := toString v

def cPart (p : Part) : List String :=
  ["part", cInt p.duration, cStr p.uri, cBool p.independent, cOpt cNat p.brLen, cOpt cNat p.brStart, cBool p.gap]

def cKey : Option Key → List String
  | none => ["-"]
  | some k => ["key", cStr k.method, cStr k.uri, cStr k.iv, cStr k.keyFormat, cStr k.keyFormatVersions]

def cTime : Option Time → List String
  | none => ["-"]
  | some t => ["t", cInt t.sec, cNat t.nsec, cInt t.off]

def cSeg (s : Segment) : List String :=
  ["seg", cInt s.duration, cStr s.title, cStr s.uri, cBool s.discontinuity, cBool s.gap] ++ cTime s.dateTime ++
    [cOpt cInt s.bitrate] ++ cKey s.key ++ [cOpt cNat s.brLen, cOpt cNat s.brStart, cNat s.parts.length] ++
    s.parts.flatMap cPart

def cMedia (m : Media) : String :=
  String.intercalate " " (
    ["media", cInt m.version, cBool m.independentSegments, cOpt cInt m.start, cOpt cBool m.allowCache,
     cInt m.targetDuration] ++
    (match m.serverControl with
     | none => ["-"]
     | some t => ["sc", cBool t.canBlockReload, cOpt cInt t.partHoldBack, cOpt cInt t.canSkipUntil]) ++
    [cOpt cInt m.partInf, cInt m.mediaSequence, cOpt cInt m.discontinuitySequence, cOpt cStr m.playlistType] ++
    (match m.map with
     | none => ["-"]
     | some t => ["map", cStr t.uri, cOpt cNat t.brLen, cOpt cNat t.brStart]) ++
    [cOpt cInt m.skip, cNat m.segments.length] ++ m.segments.flatMap cSeg ++
    [cNat m.parts.length] ++ m.parts.flatMap cPart ++
    (match m.preloadHint with
     | none => ["-"]
     | some t => ["ph", cStr t.uri, cNat t.brStart, cOpt cNat t.brLen]) ++
    [cBool m.endlist])

/-! parser of the canonical syntax -/

abbrev P (α : Type) := List String → Option (α × List String)

def pTok : P String
  | t :: r => some (t, r)
  | [] => none

def pLit (l : String) : P Unit
  | t :: r => if t = l then some ((), r) else none
  | [] => none

def pStr : P Str := fun ts => do
  let (t, r) ← pTok ts
  if t.startsWith "x" then
    let h := (t.drop 1).toString
    let bs ← (if h.isEmpty then some [] else bytesOfHexAux h.toList [])
    some (strOfBytes bs, r)
  else none

def pBool : P Bool := fun ts => do
  let (t, r) ← pTok ts
  if t = "1" then some (true, r) else if t = "0" then some (false, r) else none

def pInt : P Int := fun ts => do
  let (t, r) ← pTok ts
  let v ← t.toInt?
  some (v, r)

def pNat : P Nat := fun ts => do
  let (t, r) ← pTok ts
  let v ← t.toNat?
  some (v, r)

def pOpt {α} (p : P α) : P (Option α)
  | "-" :: r => some (none, r)
  | ts => do
    let (a, r) ← p ts
    some (some a, r)

def pMany {α} (p : P α) : Nat → P (List α)
  | 0, ts => some ([], ts)
  | n + 1, ts => do
    let (a, r) ← p ts
    let (as, r) ← pMany p n r
    some (a :: as, r)

def pPart : P Part := fun ts => do
  let (_, r) ← pLit "part" ts
  let (d, r) ← pInt r
  let (u, r) ← pStr r
  let (i, r) ← pBool r
  let (l, r) ← pOpt pNat r
  let (s, r) ← pOpt pNat r
  let (g, r) ← pBool r
  some ({ duration := d, uri := u, independent := i, brLen := l, brStart := s, gap := g }, r)

def pKey : P (Option Key)
  | "-" :: r => some (none, r)
  | ts => do
    let (_, r) ← pLit "key" ts
    let (m, r) ← pStr r
    let (u, r) ← pStr r
    let (iv, r) ← pStr r
    let (kf, r) ← pStr r
    let (kfv, r) ← pStr r
    some (some { method := m, uri := u, iv := iv, keyFormat := kf, keyFormatVersions := kfv }, r)

def pTime : P (Option Time)
  | "-" :: r => some (none, r)
  | ts => do
    let (_, r) ← pLit "t" ts
    let (s, r) ← pInt r
    let (n, r) ← pNat r
    let (o, r) ← pInt r
    some (some { sec := s, nsec := n, off := o }, r)

def pSeg : P Segment := fun ts => do
  let (_, r) ← pLit "seg" ts
  let (d, r) ← pInt r
  let (title, r) ← pStr r
  let (uri, r) ← pStr r
  let (disc, r) ← pBool r
  let (gap, r) ← pBool r
  let (dt, r) ← pTime r
  let (br, r) ← pOpt pInt r
  let (key, r) ← pKey r
  let (l, r) ← pOpt pNat r
  let (s, r) ← pOpt pNat r
  let (n, r) ← pNat r
  let (parts, r) ← pMany pPart n r
  some ({ duration := d, title := title, uri := uri, discontinuity := disc, gap := gap, dateTime := dt,
          bitrate := br, key := key, brLen := l, brStart := s, parts := parts }, r)

def pSC : P (Option ServerControl)
  | "-" :: r => some (none, r)
  | ts => do
    let (_, r) ← pLit "sc" ts
    let (c, r) ← pBool r
    let (p, r) ← pOpt pInt r
    let (s, r) ← pOpt pInt r
    some (some { canBlockReload := c, partHoldBack := p, canSkipUntil := s }, r)

def pMap : P (Option MapTag)
  | "-" :: r => some (none, r)
  | ts => do
    let (_, r) ← pLit "map" ts
    let (u, r) ← pStr r
    let (l, r) ← pOpt pNat r
    let (s, r) ← pOpt pNat r
    some (some { uri := u, brLen := l, brStart := s }, r)

def pPH : P (Option PreloadHint)
  | "-" :: r => some (none, r)
  | ts => do
    let (_, r) ← pLit "ph" ts
    let (u, r) ← pStr r
    let (s, r) ← pNat r
    let (l, r) ← pOpt pNat r
    some (some { uri := u, brStart := s, brLen := l }, r)

def pMedia : P Media := fun ts => do
  let (_, r) ← pLit "media" ts
  let (version, r) ← pInt r
  let (indep, r) ← pBool r
  let (start, r) ← pOpt pInt r
  let (ac, r) ← pOpt pBool r
  let (td, r) ← pInt r
  let (sc, r) ← pSC r
  let (pi, r) ← pOpt pInt r
  let (ms, r) ← pInt r
  let (ds, r) ← pOpt pInt r
  let (pt, r) ← pOpt pStr r
  let (map, r) ← pMap r
  let (skip, r) ← pOpt pInt r
  let (nseg, r) ← pNat r
  let (segs, r) ← pMany pSeg nseg r
  let (np, r) ← pNat r
  let (parts, r) ← pMany pPart np r
  let (ph, r) ← pPH r
  let (el, r) ← pBool r
  some ({ version := version, independentSegments := indep, start := start, allowCache := ac, targetDuration := td,
          serverControl := sc, partInf := pi, mediaSequence := ms, discontinuitySequence := ds, playlistType := pt,
          map := map, skip := skip, segments := segs, parts := parts, preloadHint := ph, endlist := el }, r)

/-- the codec whose validity is PROVED (`Codec.prim_valid`): soft-float durations of `Prim.lean`, Go time layout -/
def C : Codec := Codec.prim

def doMar (ts : List String) : String :=
  match pMedia ts with
  | some (p, []) =>
    let text := Media.marshal C p
    match Media.unmarshal C text with
    | .ok q =>
      let fix := if Media.marshal C q = text then "1" else "0"
      s!"mar {hexOrDash (text.map Char.toNat)} fix={fix} rt ok {cMedia q}"
    | .err => s!"mar {hexOrDash (text.map Char.toNat)} fix=- rt err"
    | .panic => s!"mar {hexOrDash (text.map Char.toNat)} fix=- rt panic"
  | _ => "bad-op"

def doUnm (h : String) : String :=
  match bytesOfHex h with
  | none => "bad-op"
  | some bs =>
    let text := strOfBytes bs
    let g := s!" g={cBool (Hls.Playlist.MG.accepts false text)}{cBool (Hls.Playlist.MG.accepts true text)}"
    match Media.unmarshal C text with
    | .ok q => s!"unm ok {cMedia q} re {hexOrDash ((Media.marshal C q).map Char.toNat)}" ++ g
    | .err => "unm err" ++ g
    | .panic => "unm panic" ++ g

def step (_ : Unit) (line : String) : Unit × List String :=
  match words line with
  | [] => ((), [])
  | "case" :: rest => ((), [String.intercalate " " ("case" :: rest)])
  | "mar" :: ts => ((), [doMar ts])
  | ["unm", h] => ((), [doUnm h])
  | _ => ((), ["bad-op"])

end PlDrv

def main : IO Unit := runDriver PlDrv.step ()
