import Hls.Proto
import Hls.Client.Select
/-! Model driver for the `select` correspondence stream (C11).

Op lines (see go/cmd/corr/select_case.go):
```
cfg top=media|multi cont=ts|fmp4 murl=<url|->
str id=<k> exh=fail|hold url=<canonical playlist URL> raw=<…>
pl  id=<k> msn=<n> type=none|event|vod end=0|1 sc=-|b?s? map=-|<res> hint=-|<res> segs=<res>;…
run
```
`<res>` = uri,start|-,length|-,absolute-URL. On `run` the driver prints the per-stream request log the
model computes from the histories, then `wait <outcome class>`.
-/
open Hls.Proto Hls.Client.Select Hls.Gen.Select

structure StreamIn where
  url   : String := ""
  held  : Bool := false
  views : List PlaylistView := []          -- in order
  table : List (String × String) := []     -- uri ↦ absolute URL (net/url resolution is done by the harness)

structure St where
  hasCfg  : Bool := false
  top     : String := ""
  murl    : String := ""
  streams : List StreamIn := []

def optInt (s : String) : Option (Option Int) :=
  if s = "-" then some none else (String.toInt? s).map some

/-- uri,start,len,abs -/
def parseRes (s : String) : Option (String × Option Int × Option Int × String) :=
  match s.splitOn "," with
  | [u, a, b, abs] => do
    let a ← optInt a
    let b ← optInt b
    some (u, a, b, abs)
  | _ => none

def parseSC (s : String) : Option (Option ServerControl) :=
  if s = "-" then some none
  else match s.toList with
    | ['b', b, 's', k] => some (some { canBlockReload := b == '1', canSkipUntil := k == '1' })
    | _ => none

def parseType (s : String) : Option PlType :=
  match s with
  | "none" => some .none
  | "event" => some .event
  | "vod" => some .vod
  | _ => none

def parseView (ws : List String) : Option (PlaylistView × List (String × String)) := do
  let msn ← kvInt ws "msn"
  let ty ← (kv ws "type").bind parseType
  let e ← kv ws "end"
  let sc ← (kv ws "sc").bind parseSC
  let mapS ← kv ws "map"
  let hintS ← kv ws "hint"
  let segsS := (kv ws "segs").getD ""
  let (mp, t1) ← (if mapS = "-" then some (none, [])
    else (parseRes mapS).map fun (u, a, b, abs) => (some ({ uri := u, brStart := a, brLen := b } : MapTag), [(u, abs)]))
  let (hint, t2) ← (if hintS = "-" then some (none, [])
    else (parseRes hintS).map fun (u, a, b, abs) =>
      (some ({ uri := u, brStart := a.getD 0, brLen := b } : Hint), [(u, abs)]))
  let segRes ← (if segsS = "" then some [] else (segsS.splitOn ";").mapM parseRes)
  let segs := segRes.map fun (u, a, b, _) => ({ uri := u, brStart := a, brLen := b } : Seg)
  let t3 := segRes.map fun (u, _, _, abs) => (u, abs)
  some ({ msn := msn, segs := segs, endlist := e == "1", ptype := ty, map := mp, serverControl := sc, hint := hint },
        t1 ++ t2 ++ t3)

def modifyNth {α} (l : List α) (n : Nat) (f : α → α) : List α :=
  l.mapIdx fun i x => if i = n then f x else x

def fmtReq (who : String) (s : StreamIn) (r : Req) : String :=
  let url := match r.kind with
    | .playlist => s.url
    | _ => match s.table.find? (fun (p : String × String) => p.1 = r.uri) with
      | some p => p.2
      | none => "?" ++ r.uri
  let skip := if r.skip then skipVal else "-"
  let pre := if r.kind = .hint then hintRangePrefix else segRangePrefix
  let sep := if r.kind = .hint then hintRangeSep else segRangeSep
  s!"req {who} {url} skip={skip} range={rangeText pre sep r.range}"

def fmtOutcome : Option ClientOutcome → String
  | none => "pending"
  | some .eos => "eos"
  | some (.err o) =>
    match o with
    | .eos => "eos"
    | .sel .noSegments => "err:nosegments"
    | .sel .notEnough => "err:notenough"
    | .sel .nextNotFound => "err:nextnotfound"
    | .sel .tooLate => "err:toolate"
    | .sel .panic => "panic"
    | .playlistFetch => "err:badstatus"
    | .hintDisappeared => "err:hintgone"
    | .panic => "panic"

def startable (s : StreamIn) : Bool :=
  match s.views with
  | [] => false
  | v :: _ =>
    isLowLatency v ||
      (if v.ptype = .vod then decide (v.segs.length ≥ 1) else decide (v.segs.length ≥ 3))

def runCase (st : St) : List String :=
  if !st.hasCfg then ["nocfg"]
  else if st.streams.isEmpty then ["nostreams"]
  else
    let streams := if st.top = "media" then st.streams.take 1 else st.streams
    if streams.length > 1 && !(streams.all startable) then ["invalid-case"]
    else
      let runs := streams.map fun s =>
        let (log, out) := runStream s.views
        (s.held, log, out)
      let (logs, out) := schedule runs
      let multi := if st.top = "multi" then [s!"req m {st.murl} skip=- range=-"] else []
      let reqs := ((streams.zip logs).mapIdx fun i (s, log) => log.map (fmtReq (toString i) s)).flatten
      multi ++ reqs ++ [s!"wait {fmtOutcome out}"]

def step (s : St) (line : String) : St × List String :=
  match words line with
  | [] => (s, [])
  | "case" :: rest => ({}, [String.intercalate " " ("case" :: rest)])
  | "cfg" :: ws =>
    ({ s with hasCfg := true, top := (kv ws "top").getD "", murl := (kv ws "murl").getD "" }, [])
  | "str" :: ws =>
    match kvNat ws "id" with
    | some id =>
      if id = s.streams.length then
        ({ s with streams := s.streams ++ [{ url := (kv ws "url").getD "", held := (kv ws "exh") == some "hold" }] }, [])
      else (s, [])
    | none => (s, [])
  | "pl" :: ws =>
    match kvNat ws "id", parseView ws with
    | some id, some (v, t) =>
      ({ s with streams := modifyNth s.streams id fun x => { x with views := x.views ++ [v], table := x.table ++ t } }, [])
    | _, _ => (s, [])
  | ["run"] => (s, runCase s)
  | _ => (s, [])

def main : IO Unit := runDriver step ({} : St)
