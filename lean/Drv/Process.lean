import Hls.Proto
import Hls.Robust.Model
/-! Model driver of the `process` correspondence stream (property C13): reads the decoded views of a case
    (`cfg / st / trk / pl / f / pt / ti` lines; `hex` lines are the served bytes and are ignored), runs
    `Hls.Robust.clientRun` with the regenerated flags and prints the canonical observation. -/
open Hls.Proto Hls.Robust

namespace Rb

def joinOr (sep : String) (xs : List String) : String :=
  match xs with
  | [] => "-"
  | _ => String.intercalate sep xs

structure FileAcc where
  kind : String := "bad"
  kinds : List String := []
  nparts : Nat := 0              -- fragments decoded (0: a body without any `moof`)
  pts : List PartTrack := []     -- reversed
  tis : List TSItem := []        -- reversed

structure StreamAcc where
  initSt : String := "none"
  tracks : List InitTrack := []  -- reversed
  pls : List PlResp := []        -- reversed
  files : List FileAcc := []     -- index order

structure CaseAcc where
  cmp : String := ""
  prim : String := ""
  lead : Bool := true
  audio : String := "none"
  streams : List StreamAcc := []
  upanic : Bool := false

def updateAt {α} (l : List α) (i : Nat) (f : α → α) : List α :=
  l.mapIdx fun j a => if j = i then f a else a

def parseSeg (s : String) : Option SegRef := do
  let (f, pdt) ← (match s.splitOn "@" with
    | [f] => some (f, (none : Option Int))
    | [f, p] => do let v ← p.toInt?; some (f, some v)
    | _ => none)
  if f = "x" then some { file := none, dateTime := pdt }
  else do let i ← f.toNat?; some { file := some i, dateTime := pdt }

def parseSegs (s : String) : Option (List SegRef) :=
  if s = "-" ∨ s = "" then some [] else (s.splitOn ";").mapM parseSeg

def parseSample (p : String) : Option Sample :=
  match p.splitOn ":" with
  | [a, b, c, d] => do
    let dur ← a.toInt?; let off ← b.toInt?; let pid ← d.toNat?
    let bad := if c = "0" then [] else c.splitOn "+"
    some { dur := dur, off := off, bad := bad, pid := pid }
  | _ => none

def parseSamples (s : String) : Option (List Sample) :=
  if s = "-" ∨ s = "" then some [] else (s.splitOn ";").mapM parseSample

def parseLine (c : CaseAcc) (first : Bool) (line : String) : Option CaseAcc :=
  match words line with
  | "cfg" :: ws => do
    if !first then none
    let cmp ← kv ws "cmp"; let prim ← kv ws "prim"; let lead ← kvNat ws "lead"; let audio ← kv ws "audio"; let n ← kvNat ws "n"
    if (cmp ≠ "full" ∧ cmp ≠ "class" ∧ cmp ≠ "robust") ∨ (prim ≠ "media" ∧ prim ≠ "multi" ∧ prim ≠ "bad") ∨ n > 16 then none
    some { c with cmp := cmp, prim := prim, lead := lead ≠ 0, audio := audio, streams := List.replicate n {} }
  | "hex" :: _ => if first then none else some c
  | "st" :: ws => do
    if first then none
    let s ← kvNat ws "s"; let ini ← kv ws "init"
    if s ≥ c.streams.length then none
    some { c with streams := updateAt c.streams s (fun st => { st with initSt := ini }), upanic := c.upanic || ini = "upanic" }
  | "trk" :: ws => do
    if first then none
    let s ← kvNat ws "s"; let id ← kvInt ws "id"; let rate ← kvInt ws "rate"; let kind ← kv ws "kind"
    if s ≥ c.streams.length then none
    some { c with streams := updateAt c.streams s (fun st => { st with tracks := { id := id, timeScale := rate, kind := kind } :: st.tracks }) }
  | "pl" :: ws => do
    if first then none
    let s ← kvNat ws "s"; let r ← kv ws "r"
    if s ≥ c.streams.length then none
    let resp ← (match r with
      | "bad" => some PlResp.bad
      | "upanic" => some PlResp.bad
      | "notmedia" => some PlResp.notMedia
      | "media" => do
        let mapv ← kv ws "map"; let vod ← kvNat ws "vod"; let msn ← kvInt ws "msn"; let e ← kvNat ws "end"
        let sc ← kv ws "sc"; let hint ← kv ws "hint"; let segs ← (kv ws "segs").bind parseSegs
        let m : Option Bool := if mapv = "none" then none else some (mapv = "uri")
        let scv : Option (Bool × Bool) :=
          if sc = "none" then none else some (sc = "b1s0" ∨ sc = "b1s1", sc = "b0s1" ∨ sc = "b1s1")
        let h ← (if hint = "none" then some (none : Option SegRef)
                 else if hint = "x" then some (some { file := none })
                 else do let i ← hint.toNat?; some (some { file := some i }))
        some (PlResp.media { map := m, vod := vod ≠ 0, msn := msn, segs := segs, endlist := e ≠ 0, serverControl := scv, hint := h })
      | _ => none)
    some { c with streams := updateAt c.streams s (fun st => { st with pls := resp :: st.pls }), upanic := c.upanic || r = "upanic" }
  | "f" :: ws => do
    if first then none
    let s ← kvNat ws "s"; let i ← kvNat ws "i"; let kind ← kv ws "kind"; let kinds ← kv ws "kinds"
    let st ← c.streams[s]?
    if i ≠ st.files.length then none
    let ks := if kinds = "-" then [] else kinds.splitOn ","
    let np ← kvNat ws "parts"
    some { c with streams := updateAt c.streams s (fun st => { st with files := st.files ++ [{ kind := kind, kinds := ks, nparts := np }] }),
                  upanic := c.upanic || kind = "upanic" }
  | "pt" :: ws => do
    if first then none
    let s ← kvNat ws "s"; let i ← kvNat ws "i"; let id ← kvInt ws "id"; let base ← kvInt ws "base"
    let smp ← (kv ws "smp").bind parseSamples
    let st ← c.streams[s]?
    if i + 1 ≠ st.files.length then none
    some { c with streams := updateAt c.streams s (fun st => { st with files := updateAt st.files i (fun f =>
      { f with pts := { id := id, baseTime := base, samples := smp } :: f.pts }) }) }
  | "ti" :: ws => do
    if first then none
    let s ← kvNat ws "s"; let i ← kvNat ws "i"
    let st ← c.streams[s]?
    if i + 1 ≠ st.files.length then none
    let item ← (match kv ws "de" with
      | some _ => some TSItem.decodeError
      | none => do
        let t ← kvNat ws "t"; let pts ← kvInt ws "pts"; let dts ← kvInt ws "dts"; let pid ← kvNat ws "pid"
        some (TSItem.sample t pts dts pid))
    some { c with streams := updateAt c.streams s (fun st => { st with files := updateAt st.files i (fun f =>
      { f with tis := item :: f.tis }) }) }
  | _ => none

def parseCase (lines : List String) : Option CaseAcc := do
  let rec go (c : CaseAcc) (first : Bool) : List String → Option CaseAcc
    | [] => some c
    | l :: rest => do
      let c' ← parseLine c first l
      go c' false rest
  if lines.isEmpty then none
  let c ← go {} true lines
  if c.cmp = "" then none
  some c

def toPayload (f : FileAcc) : Payload :=
  match f.kind with
  -- only the container order of the part-tracks (`parts.flatten`) and whether there is any fragment at all matter
  | "parts" => .parts (if f.nparts = 0 then [] else f.pts.reverse :: List.replicate (f.nparts - 1) [])
  | "ts" => .ts { kinds := f.kinds, items := f.tis.reverse }
  | _ => .undecodable

def toStreamIn (st : StreamAcc) : StreamIn :=
  let pls := st.pls.reverse
  -- the server repeats its last answer for ever: 64 more answers are far beyond what a case can consume
  { first := pls.headD .bad,
    reloads := pls.drop 1 ++ List.replicate 64 (pls.getLast?.getD .bad),
    initOK := st.initSt ≠ "missing",
    init := if st.initSt = "ok" then some st.tracks.reverse else none,
    files := st.files.map toPayload }

def toPrimary (c : CaseAcc) : Primary :=
  match c.prim with
  | "media" => .media
  | "multi" => .multi c.lead (if c.audio = "found" then some true else if c.audio = "missing" then some false else none)
  | _ => .bad

def errStr : ErrClass → String
  | .decode => "content" | .playlist => "content" | .http => "content" | .sampleDecode => "content" | .unsupportedCodec => "content"
  | .invalidPlaylist => "content"     -- same text as `playlist.Unmarshal`'s own "invalid playlist"
  | .zeroTimeScale => "zerots" | .renditionMultiTrack => "rendmulti" | .noSupportedTracks => "nosupported"
  | .tooManyTracks => "toomany" | .noLeadingData => "noleading" | .mixedContainers => "mixed" | .dtsRtcTooBig => "dtsrtc"
  | .notEnoughSegments => "notenough" | .noSegments => "content" | .nextSegmentNotFound => "nextnotfound"
  | .playbackTooLate => "toolate" | .hintDisappeared => "hintgone" | .noVariants => "novariants" | .noGroup => "nogroup"
  | .terminated => "terminated"

def panicStr : PanicKind → String
  | .nilFunc => "panic:nil" | .nilDeref => "panic:nil" | .index => "panic:index" | .divZero => "panic:div0"
  | .typeAssert => "panic:typeassert"

/-- every HTTP request of a run that ends with EOS -/
def countReqs (F : Flags) (prim : Primary) (streams : List StreamIn) : Nat :=
  match selectStreams F prim streams with
  | .ok ss =>
    let perStream := ss.map fun inp =>
      match asMedia F inp.first with
      | .ok v =>
        match dlRun F v inp.initOK inp.reloads with
        | .ok (cont, tr) => (if cont == .fmp4 then 1 else 0) + tr.segReqs + tr.plReqs
        | _ => 0
      | _ => 0
    let firsts := match prim with | .media => 0 | _ => ss.length
    1 + firsts + perStream.sum
  | _ => 1

def report (c : CaseAcc) : List String :=
  let prim := toPrimary c
  let streams := c.streams.map toStreamIn
  let out := clientRun genFlags 0 prim streams
  if c.upanic then ["end upstream"] else
  match out with
  | .panic k => [s!"end {panicStr k}"]
  | .wedge => ["end timeout"]
  | _ =>
    if c.cmp = "robust" then ["end ok"]
    else if c.cmp = "class" then
      (match out with | .error _ _ => ["end err"] | _ => ["end eos"])
    else
      let eos (tracks : List (Option String × Int)) (evs : List Event) : List String :=
        let ts := tracks.map fun t => s!"{t.1.getD "nil"}:{t.2}"
        let deliv := (List.range tracks.length).map fun i =>
          toString (evs.filter fun e => match e with | .delivered tr _ _ _ => tr == i | _ => false).length
        let decerr := (evs.filter fun e => match e with | .decodeError => true | _ => false).length
        [s!"tracks {joinOr "," ts}", s!"deliv {joinOr "," deliv}", s!"decerr {decerr}",
         s!"reqs {countReqs genFlags prim streams}", "end eos"]
      match out with
      | .error e _ => [s!"end err:{errStr e}"]
      | .deliver tracks evs => eos tracks evs
      | .skip tracks evs => eos tracks evs
      | _ => ["end ?"]

structure St where
  lines : List String := []      -- reversed

def step (s : St) (line : String) : St × List String :=
  if line.startsWith "case " then ({}, [line])
  else match words line with
    | [] => (s, [])
    | "run" :: ws =>
      let lines := s.lines.reverse
      let out :=
        match kvNat ws "n" with
        | some n =>
          if n ≠ lines.length then ["bad-case"]
          else match parseCase lines with
            | some c => report c
            | none => ["bad-case"]
        | none => ["bad-case"]
      ({}, out)
    | _ => ({ s with lines := line :: s.lines }, [])

end Rb

def main : IO Unit := runDriver Rb.step {}
