import Hls.Proto
/-!
  Driver of the model-less T2 streams (direct oracle only, e.g. `muxfault`: storage failures are outside the Lean
  muxer model): every op is observed as "-"; `case …` headers are echoed.
-/
open Hls.Proto

def stepNull (s : Unit) (line : String) : Unit × List String :=
  match words line with
  | [] => (s, [])
  | "case" :: _ => (s, [line])
  | _ => (s, ["-"])

def main : IO Unit := runDriver stepNull ()
