import Hls.Proto
import Hls.Queue.Model
import Hls.Gen.QueueSkeleton
/-! Model driver for the `queue` correspondence stream (C20).

Which program the model runs is decided by the REGENERATED skeleton
(`Hls.Gen.queueSkeleton`): `variantOf` recognises the fixed or the legacy placement of
the `q.didPull` read; an unrecognised skeleton makes every observation `unknown-skeleton`
(so the correspondence run fails instead of silently modelling other code). -/
open Hls.Proto Hls.Queue

structure St where
  mode    : Mode := .traditional
  n       : Nat := 1
  nCode   : Bool := false
  started : Bool := false
  cfg     : Cfg := init

def fmtItem : Item → String
  | .seg k => toString k
  | .eos => "eos"

/-- pulls that have RETURNED (a pop whose `pull` is still inside the critical section does not count) -/
def completedPulls (s : Cfg) : List Item :=
  if s.cpc = .pullSignal ∨ s.cpc = .pullUnlockExit then s.pulled.dropLast else s.pulled

def fmtObs (op : String) (blocked : Bool) (s : Cfg) : String :=
  let res := if blocked then "blocked" else "ok"
  let cp := completedPulls s
  let last := match cp.getLast? with
    | some x => fmtItem x
    | none => "-"
  let mu := if s.owner.isSome then 1 else 0
  let x := if s.cancelled then 1 else 0
  s!"{op} {res} P={s.ppc.name} C={s.cpc.name} q={s.queue.length} segs={segLen s.queue} gens={s.pushGen},{s.pullGen} pulls={cp.length}:{last} mu={mu} x={x}"

def parseInit (st : St) (ws : List String) : Option St :=
  ws.foldlM (fun st w =>
    match w.splitOn "=" with
    | ["mode", "trad"] => some { st with mode := .traditional }
    | ["mode", "ll"] => some { st with mode := .lowLatency }
    | ["n", "code"] => some { st with n := Hls.Gen.waitBelowArg, nCode := true }
    | ["n", v] => do
      let k ← v.toNat?
      if k ≤ 1000 then some { st with n := k } else none
    | _ => none) st

def fmtMode : Mode → String
  | .traditional => "trad"
  | .lowLatency => "ll"

def step (st : St) (line : String) : St × List String :=
  match words line with
  | [] => (st, [])
  | "case" :: rest => ({}, [String.intercalate " " ("case" :: rest)])
  | "la" :: _ =>
    -- end-to-end look-ahead scenario (slice `lookahead`): the bound the real client must respect is the
    -- model's `c20_lookahead` (≤ n+1 queued segments while one is processed); the harness's direct oracle
    -- evaluates it on the request log, the driver only echoes the scenario.
    (st, [s!"la bound={Hls.Gen.waitBelowArg + 2}"])
  | "init" :: rest =>
    if st.started then (st, ["bad-op"])
    else match parseInit st rest with
      | some st' => (st', [s!"init mode={fmtMode st'.mode} n={st'.n}" ++ (if st'.nCode then " code" else "")])
      | none => (st, ["bad-op"])
  | ws =>
    let op : Option (Op × String) := match ws with
      | ["P"] => some (.p, "P")
      | ["P", "last"] => some (.pLast, "P.last")
      | ["C"] => some (.c, "C")
      | ["X"] => some (.x, "X")
      | _ => none
    match op with
    | none => (st, ["bad-op"])
    | some (o, name) =>
      match variantOf Hls.Gen.queueSkeleton with
      | none => (st, ["unknown-skeleton"])
      | some v =>
        let pr : Params := { variant := v, mode := st.mode, n := st.n }
        let (cfg', blocked) := macroStep pr o st.cfg
        ({ st with started := true, cfg := cfg' }, [fmtObs name blocked cfg'])

def main : IO Unit := runDriver step ({} : St)
