import Hls.Proto
import Hls.Pool.Model
import Hls.Gen.Blocking
/-! Model driver for the `pool` correspondence stream (C12).

For every scenario line of `go/cmd/corr/slice_pool.go` the driver compiles a SCHEDULE for the life-cycle
machine `Hls.Pool.next` (whose steps are steps of `Hls.Pool.Step`: `next_sound`) over the REGENERATED
parameters (`paramsOf Gen.taskGraphs Gen.poolSkel Gen.clientSkel`), runs it, and prints what the machine's
final state says: the class of the error `Wait()` yields, whether a second receive is enabled, callbacks
that can still run, goroutines still alive, whether the owner was held back while `OnTracks` was blocked,
whether the client finished without a receiver. Nothing is hard-wired to "all is well": with a graph node
that lost its pool-context arm the drain gets stuck (leaked > 0), with `rp.close()` removed the result is
out while tasks are alive, with an unbuffered `outErr` the owner cannot finish without a receiver. -/
open Hls.Proto Hls.Pool

def P : Params := paramsOf Hls.Gen.taskGraphs Hls.Gen.poolSkel Hls.Gen.clientSkel

structure Scn where
  fmt : String := "fmp4"
  layout : String := "single"
  nseg : Nat := 2
  fault : String := "none"
  fidx : Nat := 0
  close : String := "none"
  cidx : Nat := 0
  n : Nat := 1
  late : Bool := false
  skip : Bool := false

def parseScn (ws : List String) : Option Scn :=
  ws.foldlM (fun (s : Scn) w =>
    match w.splitOn "=" with
    | ["fmt", v] => if v = "fmp4" ∨ v = "ts" ∨ v = "ll" then some { s with fmt := v } else none
    | ["layout", v] => if v = "single" ∨ v = "rend" then some { s with layout := v } else none
    | ["nseg", v] => v.toNat?.bind fun k => if 1 ≤ k ∧ k ≤ 6 then some { s with nseg := k } else none
    | ["fault", v] => if v ∈ ["none", "status", "transport", "stall", "ontracks"] then some { s with fault := v } else none
    | ["fidx", v] => v.toNat?.bind fun k => if k ≤ 1000 then some { s with fidx := k } else none
    | ["close", v] => if v ∈ ["none", "start", "req", "held", "ontracks", "pacing", "eos"] then some { s with close := v } else none
    | ["cidx", v] => v.toNat?.bind fun k => if k ≤ 1000 then some { s with cidx := k } else none
    | ["n", v] => v.toNat?.bind fun k => if 1 ≤ k ∧ k ≤ 3 then some { s with n := k } else none
    | ["late", "0"] => some { s with late := false }
    | ["late", "1"] => some { s with late := true }
    | ["skip", "0"] => some { s with skip := false }
    | ["skip", "1"] => some { s with skip := true }
    | _ => none) {}

/-- number of requests of a fault-free run to the end of the stream (primary playlist; per stream: its
    playlist unless it is the primary one, the init segment of fMP4, nseg segments, a reload between two) -/
def nreq (s : Scn) : Nat :=
  if s.fmt = "ll" then
    -- Low-Latency: init, then `nseg` times (preload hint, playlist reload); the last reload carries no hint
    let per := 1 + 2 * s.nseg
    if s.layout = "single" then 1 + per else 1 + 2 * (1 + per)
  else
  let per := 2 * s.nseg - 1 + (if s.fmt = "fmp4" then 1 else 0)
  if s.layout = "single" then 1 + per else 1 + 2 * (1 + per)

/-! ### walking the regenerated graphs -/

def kindIdx (name : String) : Option Nat := P.graphs.findIdx? (fun g => g.name = name)

def isNode : Target → Bool
  | .node _ => true
  | _ => false

/-- breadth-first search for arm choices leading from `start` to a target satisfying `goal`, using only
    arms allowed by `allow` -/
partial def pathTo (g : TaskGraph) (goal : Target → Bool) (allow : Node → Arm → Bool)
    (frontier : List (Target × List (Nat × Nat))) (seen : List Nat) (fuel : Nat) : Option (List (Nat × Nat)) :=
  match frontier.find? (fun f => goal f.1) with
  | some f => some f.2.reverse
  | none =>
    if fuel = 0 then none else
    let step := frontier.foldl (fun (acc : List (Target × List (Nat × Nat)) × List Nat) f =>
      match f.1 with
      | .node j =>
        if acc.2.contains j then acc else
        match g.nodes[j]? with
        | some n =>
          let succs := (List.range n.arms.length).flatMap fun a =>
            match n.arms[a]? with
            | some arm => if allow n arm then (List.range arm.next.length).filterMap fun k =>
                (arm.next[k]?).map fun t => (t, (a, k) :: f.2) else []
            | none => []
          (acc.1 ++ succs, j :: acc.2)
        | none => acc
      | .ret _ => acc) ([], seen)
    if step.1.isEmpty then none else pathTo g goal allow step.1 step.2 (fuel - 1)

def notCancel (_ : Node) (a : Arm) : Bool := !a.kind.isCancel
def okOnly (_ : Node) (a : Arm) : Bool := !a.kind.isCancel && (match a.kind with | .fail => false | _ => true)

/-- outcome of a scripted run of the machine -/
structure Run where
  st : St
  stuck : Option String := none

def apply (r : Run) (l : Label) (what : String) : Run :=
  match r.stuck with
  | some _ => r
  | none =>
    match next P l r.st with
    | some s => { r with st := s }
    | none => { r with stuck := some what }

def tryApply (r : Run) (l : Label) : Run :=
  match r.stuck with
  | some _ => r
  | none =>
    match next P l r.st with
    | some s => { r with st := s }
    | none => r

/-- task `i` starts `run` and walks to a target satisfying `goal` -/
def walk (r : Run) (i : Nat) (goal : Target → Bool) (allow : Node → Arm → Bool) (what : String) : Run :=
  match r.stuck, r.st.tasks[i]? with
  | some _, _ => r
  | none, some ⟨kd, pc⟩ =>
    match P.graphs[kd]? with
    | some g =>
      let (r, start) : Run × Option Target := match pc with
        | .fresh =>
          match g.entry.findIdx? isNode with
          | some k => (apply r (.begin i k) (what ++ ":begin"), g.entry[k]?)
          | none => ({ r with stuck := some (what ++ ":no-entry-node") }, none)
        | .at t => (r, some t)
        | _ => ({ r with stuck := some (what ++ ":not-running") }, none)
      match start with
      | some t =>
        match pathTo g goal allow [(t, [])] [] (g.nodes.length + 1) with
        | some path => path.foldl (fun r ak => apply r (.arm i ak.1 ak.2) (what ++ ":arm")) r
        | none => { r with stuck := some (what ++ ":no-path") }
      | none => r
    | none => { r with stuck := some (what ++ ":no-graph") }
  | none, none => { r with stuck := some (what ++ ":no-task") }

/-- add a task of kind `name` from task `i`; returns its index -/
def spawnKind (r : Run) (i : Nat) (name : String) : Run × Nat :=
  match kindIdx name with
  | some k => (apply r (.spawn i k) ("spawn:" ++ name), r.st.tasks.length)
  | none => ({ r with stuck := some ("no-kind:" ++ name) }, 0)

/-- one quiet step of task `i`, if it is alive -/
def quietStep (s : St) (i : Nat) : Option St :=
  match s.tasks[i]? with
  | some ⟨kd, pc⟩ =>
    match pc with
    | .done => none
    | .handOver _ => next P (.giveUp i) s
    | .fresh => next P (.begin i 0) s
    | .at (.ret _) => next P (.ret i) s
    | .at (.node j) =>
      match P.graphs[kd]? with
      | some g =>
        match g.nodes[j]? with
        | some n =>
          match n.arms.findIdx? (fun a => a.kind.isCancel) with
          | some a => next P (.arm i a 0) s
          | none => if n.passThrough then next P (.arm i 0 0) s else none   -- unguarded blocking node: stuck
        | none => none
      | none => none
  | none => none

/-- let every goroutine of the pool (except `skip`) take quiet steps until none can move -/
def drain (s : St) (skip : Option Nat) : Nat → St
  | 0 => s
  | fuel + 1 =>
    let moved := (List.range s.tasks.length).foldl (fun (acc : St × Bool) i =>
      if skip = some i then acc else
      match quietStep acc.1 i with
      | some s' => (s', true)
      | none => acc) (s, false)
    if moved.2 then drain moved.1 skip fuel else moved.1

def drainRun (r : Run) (skip : Option Nat) : Run :=
  match r.stuck with
  | some _ => r
  | none => { r with st := drain r.st skip 400 }

def closes (r : Run) (n : Nat) : Run := (List.range n).foldl (fun r _ => apply r .close "close") r

def errName : Err → String
  | .terminated => "terminated" | .eos => "eos" | .callback => "callback" | .io => "io" | .other => "other"

/-- all pairs (kind, node) of the regenerated graphs: scenario indices are spread over them so that every
    node of every graph is the place where some goroutine sits when the pool is cancelled -/
def allNodes : List (Nat × Nat) :=
  (List.range P.graphs.length).flatMap fun k =>
    match P.graphs[k]? with
    | some g => (List.range g.nodes.length).map fun j => (k, j)
    | none => []

/-- a task of every kind; the `sel`-th (kind, node) pair gets a goroutine parked exactly there -/
def populate (r : Run) (sel : Nat) : Run :=
  -- the spawn tree of the client: primary → stream downloader → stream processors → track processors
  let (r, d) := spawnKind r 0 "clientStreamDownloader"
  let r := walk r d isNode notCancel "downloader"
  let (r, pf) := spawnKind r d "clientStreamProcessorFMP4"
  let r := walk r pf isNode notCancel "procfmp4"
  let (r, pm) := spawnKind r d "clientStreamProcessorMPEGTS"
  let r := walk r pm isNode notCancel "procts"
  let (r, tf) := spawnKind r pf "clientTrackProcessorFMP4"
  let r := walk r tf isNode notCancel "trackfmp4"
  let (r, tm) := spawnKind r pm "clientTrackProcessorMPEGTS"
  let r := walk r tm isNode notCancel "trackts"
  match allNodes[sel % (max allNodes.length 1)]? with
  | some (k, j) =>
    let parent := match P.graphs[k]? with
      | some g => if g.name = "clientStreamDownloader" then 0
                  else if g.name = "clientStreamProcessorFMP4" ∨ g.name = "clientStreamProcessorMPEGTS" then d
                  else if g.name = "clientTrackProcessorFMP4" then pf
                  else if g.name = "clientTrackProcessorMPEGTS" then pm else 0
      | none => 0
    if k = P.primary then r   -- the primary downloader's own position is set by the scenario
    else
      let r := apply r (.spawn parent k) "spawn:extra"
      walk r (r.st.tasks.length - 1) (fun t => t == .node j) notCancel "extra"
  | none => r

/-! ### the Low-Latency loop of the stream downloader: preload hint → its body → playlist reload → its body → … -/

def nodeIs (k : Nat) (kind : OpKind) (fn : String) (t : Target) : Bool :=
  match t, P.graphs[k]? with
  | .node j, some g =>
    match g.nodes[j]? with
    | some n => n.kind == kind && ((Hls.Gen.blockingRows[n.row]?).map (·.fn) == some fn)
    | none => false
  | _, _ => false

/-- park downloader task `i` in the Low-Latency loop: stage 0 = inside the preload-hint request, 1 = reading its body,
    2 = inside the playlist reload that follows, 3 = reading the reloaded playlist -/
def llPark (r : Run) (i : Nat) (stage : Nat) : Run :=
  match kindIdx "clientStreamDownloader" with
  | none => { r with stuck := some "no-kind:downloader" }
  | some k =>
    let r := walk r i (nodeIs k .httpDo "clientStreamDownloader.downloadPreloadHint") okOnly "ll:hint"
    let r := if stage ≥ 1 then walk r i (nodeIs k .bodyRead "clientStreamDownloader.downloadPreloadHint") okOnly "ll:hint-body" else r
    let r := if stage ≥ 2 then walk r i (nodeIs k .httpDo "downloadPlaylist") okOnly "ll:reload" else r
    let r := if stage ≥ 3 then walk r i (nodeIs k .bodyRead "downloadPlaylist") okOnly "ll:reload-body" else r
    r

/-- does the regenerated downloader graph have the end-of-stream wait of `runLowLatency` (`<-ctx.Done()` after
    `push(nil)`, fix-F28)? Upstream it does not: there a Low-Latency stream can only end with an error. -/
def llHasEosWait : Bool :=
  match kindIdx "clientStreamDownloader" with
  | none => false
  | some k =>
    match P.graphs[k]? with
    | some g => (List.range g.nodes.length).any fun j => nodeIs k .recvCtxDone "clientStreamDownloader.runLowLatency" (.node j)
    | none => false

/-- park downloader task `i` where the downloader of an ended Low-Latency stream waits for Close -/
def llParkEos (r : Run) (i : Nat) : Run :=
  match kindIdx "clientStreamDownloader" with
  | none => { r with stuck := some "no-kind:downloader" }
  | some k => walk (llPark r i 3) i (nodeIs k .recvCtxDone "clientStreamDownloader.runLowLatency") okOnly "ll:eos-wait"

/-- which request of a Low-Latency downloader has (global) index `idx` in the single-stream layout: init, hint, reload -/
def llStage (idx : Nat) : Option Nat :=
  if idx < 2 then none else if idx % 2 = 0 then some 0 else some 2

def finish (s : Scn) (r : Run) : String :=
  -- the owner: close the pool, wait for it, send
  let r := apply r .runner "owner:cancel"
  let r := drainRun r none
  let r := tryApply r .runner      -- rp.wg.Wait(): enabled only when every goroutine of the pool is done
  let r := tryApply r .runner      -- c.outErr <- err: enabled only when the buffer has room
  let drained := if s.late then (if r.st.runner = .done ∧ r.st.allDone then "1" else "0") else "-"
  let r := tryApply r .recv
  match r.stuck with
  | some w => s!"run model-stuck {w}"
  | none =>
    match r.st.received with
    | [] => s!"run result=hang once=0 cb_after=0 leaked={(r.st.tasks.filter Task.live).length + (if r.st.runner = .done then 0 else 1)} held=- drained={drained}"
    | e :: _ =>
      let once := if (next P .recv r.st).isNone then 1 else 0
      let leaked := (r.st.tasks.filter Task.live).length + (if r.st.runner = .done then 0 else 1)
      -- Close after the result, twice; callbacks that can still run
      let r := closes r 2
      let r := (List.range r.st.tasks.length).foldl (fun r i => tryApply r (.callback i)) r
      if r.st.panicked then "run panic" else
      s!"run result={errName e} once={once} cb_after={r.st.cbAfter} leaked={leaked} held=HELD drained={drained}"

def setHeld (line h : String) : String := line.replace "HELD" h

def predict (s : Scn) : String :=
  let r : Run := { st := { runner := .init } }
  let r := apply r .runner "owner:init"
  let inRange := s.fidx < nreq s
  let closeFirst : Bool := s.close = "start" ∨ ((s.close = "req" ∨ s.close = "held") ∧ s.cidx < nreq s ∧ (s.fault = "none" ∨ ¬ inRange ∨ s.cidx < s.fidx)) ∨
    s.close = "ontracks" ∨ s.close = "pacing"
  if closeFirst then
    -- where the goroutines are when Close arrives
    let r := walk r 0 isNode notCancel "primary"
    let r := if s.close = "start" then r else populate r (s.cidx + 7 * s.nseg)
    -- Low-Latency: one more downloader, parked in the request the scenario closes in (hint / blocking reload)
    let r := if s.fmt = "ll" ∧ s.close ≠ "start" then
        let (r, d) := spawnKind r 0 "clientStreamDownloader"
        match (if s.close = "req" ∨ s.close = "held" then llStage s.cidx else some 2) with
        | some st => llPark r d st
        | none => walk r d isNode notCancel "ll:downloader"
      else r
    let r := if s.close = "ontracks" then walk r 0 (fun t => match t with
        | .node j => (match P.graphs[P.primary]? with
          | some g => (match g.nodes[j]? with | some n => n.passThrough | none => false)
          | none => false)
        | _ => false) okOnly "primary:ontracks" else r
    let r := if s.close = "pacing" then
        walk r 4 (fun t => match t with
          | .node j => (match kindIdx "clientTrackProcessorFMP4" with
            | some k => (match P.graphs[k]? with
              | some g => (match g.nodes[j]? with | some n => n.arms.any (fun a => a.kind == .timeAfter) | none => false)
              | none => false)
            | none => false)
          | _ => false) notCancel "track:pacing"
      else r
    let r := closes r s.n
    let r := apply r .runnerCtx "owner:ctx"
    if s.close = "ontracks" then
      -- OnTracks has not returned: everything else drains, the owner must stay in rp.wg.Wait()
      let r := apply r .runner "owner:cancel"
      let r := drainRun r (some 0)
      let held := if (next P .runner r.st).isNone then "1" else "0"
      let r := drainRun r none
      let r := tryApply r .runner
      let r := tryApply r .runner
      let r := tryApply r .recv
      match r.stuck, r.st.received with
      | some w, _ => s!"run model-stuck {w}"
      | none, e :: _ =>
        let once := if (next P .recv r.st).isNone then 1 else 0
        let leaked := (r.st.tasks.filter Task.live).length + (if r.st.runner = .done then 0 else 1)
        let r := closes r 2
        if r.st.panicked then "run panic" else
        s!"run result={errName e} once={once} cb_after={r.st.cbAfter} leaked={leaked} held={held} drained=-"
      | none, [] => s!"run result=hang once=0 cb_after=0 leaked={(r.st.tasks.filter Task.live).length + (if r.st.runner = .done then 0 else 1)} held={held} drained=-"
    else setHeld (finish s r) "-"
  else if s.fault = "stall" ∧ inRange then
    -- the body never arrives: the harness calls Close once the stalling request is out
    let r := walk r 0 isNode notCancel "primary"
    let r := populate r s.fidx
    let r := if s.fmt = "ll" then
        let (r, d) := spawnKind r 0 "clientStreamDownloader"
        llPark r d (match llStage s.fidx with | some st => st + 1 | none => 0)
      else r
    let r := closes r s.n
    let r := apply r .runnerCtx "owner:ctx"
    setHeld (finish s r) "-"
  else
    -- a task returns an error: which one
    -- a Low-Latency stream ends when the origin stops advertising a hint (its last playlist carries ENDLIST):
    -- with the end-of-stream path of fix-F28 the downloader pushes the nil marker and waits, the client ends with
    -- ErrClientEOS; upstream: `return fmt.Errorf("preload hint disappeared")`
    let llNatural : Bool := s.fmt = "ll" ∧ s.fault ≠ "ontracks" ∧ ¬ ((s.fault = "transport" ∨ s.fault = "status") ∧ inRange)
    let llEnd : Bool := llNatural ∧ ¬ llHasEosWait
    let llEos : Bool := llNatural ∧ llHasEosWait
    let goal : Option RetK :=
      if s.fault = "ontracks" then some .callback
      else if s.fault = "transport" ∧ inRange then some .io
      else if s.fault = "status" ∧ inRange then some .other
      else if llEnd then some .other
      else some .eos
    let (r, who) : Run × Nat :=
      if ((s.fault = "transport" ∨ s.fault = "status") ∧ inRange ∧ s.fidx > 0) ∨ llEnd then
        -- a request of a stream downloader
        let r := walk r 0 isNode notCancel "primary"
        let (r, d) := spawnKind r 0 "clientStreamDownloader"
        (r, d)
      else (r, 0)
    let r := if who ≠ 0 ∨ s.fault = "ontracks" ∨ goal = some .eos then populate (if who = 0 then walk r 0 isNode notCancel "primary" else r) s.fidx else r
    let r := if llEos then
        let (r, d) := spawnKind r 0 "clientStreamDownloader"
        llParkEos r d
      else r
    let r := if s.fmt = "ll" ∧ who ≠ 0 then
        (if llEnd then llPark r who 3 else
          match llStage s.fidx with
          | some st => llPark r who st
          | none => r)
      else r
    let r := match goal with
      | some .io => walk r who (fun t => t == .ret .io) notCancel "fail:io"
      | some .other => walk r who (fun t => t == .ret .other) okOnly "fail:status"
      | some .callback => walk r who (fun t => t == .ret .callback) notCancel "fail:ontracks"
      | _ => walk r who (fun t => t == .ret .eos) okOnly "eos"
    let r := apply r (.ret who) "ret"
    let r := apply r (.runnerRecvErr who) "owner:recv"
    let line := setHeld (finish s r) "-"
    line

def step (st : Option Scn) (line : String) : Option Scn × List String :=
  match words line with
  | [] => (st, [])
  | "case" :: rest => (none, [String.intercalate " " ("case" :: rest)])
  | "cfg" :: rest =>
    match parseScn rest with
    | some s => (some s, ["cfg ok"])
    | none => (st, ["bad-op"])
  | ["run"] =>
    match st with
    | some s => (st, [predict s])
    | none => (st, ["bad-op"])
  | _ => (st, ["bad-op"])

def main : IO Unit := runDriver step (none : Option Scn)
