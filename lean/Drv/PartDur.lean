import Hls.Proto
import Hls.PartDur.Model
/-! Model driver for the `partdur` correspondence stream (C19). Core Lean only. -/
open Hls.Proto Hls.Gen Hls.PartDur

def intList (s : String) : Option (List Int) :=
  if s = "-" then some [] else (s.splitOn ",").mapM String.toInt?

def fmtList (l : List Int) : String :=
  if l.isEmpty then "-" else String.intercalate "," (l.map toString)

def fmtBool (b : Bool) : String := if b then "b1" else "b0"

def obsWrite (s : St) : String :=
  let lastSeg := match s.segs.getLast? with
    | some l => fmtList l
    | none => "-"
  s!"a={s.adjusted} pt={s.partTarget} fin={s.segs.length} gaps={s.gaps} open={fmtList s.openParts} lastseg={lastSeg} chg={s.changed}"

def obsPlaylist (s : St) : String :=
  if s.gaps + s.segs.length = 0 then "pl blocked"
  else
    let listed := s.segs.drop (s.segs.length - 2)
    s!"pl target={s.partTarget} segs={fmtList (listed.map fun l => (l.length : Int))} open={s.openParts.length}"

def pureOp (ws : List String) : Option String :=
  match ws with
  | ["mad", v, m, d] => do
    let v ← v.toInt?; let m ← m.toInt?; let d ← d.toInt?
    if d = 0 then some "panic:div0" else some s!"n{multiplyAndDivide v m d}"
  | ["mad2", v, m, d] => do
    let v ← v.toInt?; let m ← m.toInt?; let d ← d.toInt?
    if d = 0 then some "panic:div0" else some s!"n{multiplyAndDivide2 v m d}"
  | ["d2t", d, r] => do
    let d ← d.toInt?; let r ← r.toInt?
    some s!"n{durationToTimestamp d r}"
  | ["t2d", t, r] => do
    let t ← t.toInt?; let r ← r.toInt?
    if r = 0 then some "panic:div0" else some s!"n{timestampToDuration t r}"
  | ["compat", pd, sd] => do
    let pd ← pd.toInt?; let sd ← sd.toInt?
    if sd > pd then some "b0"
    else if sd = 0 then some "panic:div0"
    else some (fmtBool (partDurationIsCompatible pd sd))
  | ["find", m, sds] => do
    let m ← m.toInt?; let sds ← intList sds
    some s!"n{findCompatiblePartDuration m sds}"
  | _ => none

def step (st : Option St) (line : String) : Option St × List String :=
  match words line with
  | [] => (st, [])
  | "case" :: rest => (none, [String.intercalate " " ("case" :: rest)])
  | "start" :: ws =>
    match kvInt ws "m", kvInt ws "segmin", kvNat ws "segcount", kvInt ws "rate" with
    | some m, some sm, some sc, some r =>
      if r ≤ 0 then (none, ["bad-op"]) else
      (some { cfg := { partMin := m, segMin := sm, segCount := sc, rate := r } }, ["started"])
    | _, _, _, _ => (st, ["bad-op"])
  | "w" :: ws =>
    match st, kvInt ws "dts", kvNat ws "ra" with
    | some s, some dts, some ra =>
      let s' := write s dts (ra != 0)
      (some s', [obsWrite s'])
    | _, _, _ => (st, ["bad-op"])
  | ["pl"] =>
    match st with
    | some s => (st, [obsPlaylist s])
    | none => (st, ["bad-op"])
  | ws =>
    match pureOp ws with
    | some o => (st, [o])
    | none => (st, ["bad-op"])

def main : IO Unit := runDriver step (none : Option St)
