import Hls.Proto
import Hls.Muxer.Model
import Hls.Muxer.Close
import Hls.Muxer.ReqSpec
/-! Model driver for the `muxer` correspondence stream (C01–C06 sequential, C18). -/
open Hls.Proto Hls.Muxer

/-- `strconv.FormatFloat(d.Seconds(), 'f', 5, 64)` re-read as an integer number of 10 µs units.
    `d.Seconds()` is `float64(sec) + float64(nsec)/1e9`; the decimal rounding of that binary value is
    resolved exactly (mantissa/exponent), so that decimal ties print as the real code prints them.
    Driver-only code (Float is opaque to the kernel; the theorems speak about nanoseconds). -/
def q10us (d : Int) : Int :=
  let neg := d < 0
  let a := d.natAbs
  let sec := a / 1000000000
  let nsec := a % 1000000000
  let x : Float := Float.ofNat sec + Float.ofNat nsec / 1e9
  -- x = M * 2^(e-53)
  let (m, e) := x.frExp
  let M : Nat := (m * 9007199254740992.0).toUInt64.toNat
  -- compare x with (2*q0+1) / 200000 where q0 = floor(x*1e5) candidates around a/10000
  let q0 := a / 10000
  let pick (q : Nat) : Bool :=   -- is x ≥ (2q+1)/200000 ?  (round up past q)
    let lhsNum := M * 200000
    let rhs := (2 * q + 1)
    -- x = M * 2^(e-53);  x ≥ rhs/200000  ⇔  M*200000*2^(e-53) ≥ rhs
    let sh := e - 53
    if sh ≥ 0 then decide (lhsNum * 2 ^ sh.toNat ≥ rhs) else decide (lhsNum ≥ rhs * 2 ^ (-sh).toNat)
  -- the float can be off by one unit in rare cases: test q0-1, q0, q0+1
  let q :=
    if x == 0.0 then 0
    else if q0 > 0 ∧ !pick (q0 - 1) then q0 - 1
    else if !pick q0 then q0
    else if !pick (q0 + 1) then q0 + 1
    else q0 + 2
  -- exact binary ties round half to even; they cannot occur for non-dyadic decimals, ignore
  if neg then - (q : Int) else (q : Int)

def fmtKey : PathKey → String
  | .index => "index"
  | .playlist s => s!"pl{s}"
  | .init s => s!"init{s}"
  | .seg s i => s!"seg{s}_{i}"
  | .part s i => s!"part{s}_{i}"

def parseKey (w : String) : Option PathKey :=
  let num (s : String) := s.toNat?
  if w = "index" then some .index
  else if w.startsWith "init" then (num (w.drop 4).toString).map .init
  else if w.startsWith "seg" then
    match ((w.drop 3).toString).splitOn "_" with
    | [a, b] => do some (.seg (← num a) (← num b))
    | _ => none
  else if w.startsWith "part" then
    match ((w.drop 4).toString).splitOn "_" with
    | [a, b] => do some (.part (← num a) (← num b))
    | _ => none
  else if w.startsWith "pl" then (num (w.drop 2).toString).map .playlist
  else none

def b01 (b : Bool) : String := if b then "1" else "0"

def fmtPlPart (p : PlPart) : String := s!"{q10us p.dur},{fmtKey p.key},{b01 p.indep}"

def fmtOptInt (o : Option Int) : String := match o with | some v => toString v | none => "-"

def msOfNs (ns : Int) : Int := Int.tdiv ns 1000000

def fmtPlSeg (g : PlSeg) : String :=
  let k := match g.key with | some k => fmtKey k | none => "gap"
  let pdt := match g.pdt with | some v => toString (msOfNs v) | none => "-"
  s!"{q10us g.dur}:{k}:{b01 g.gap}:{pdt}:[{String.intercalate " " (g.parts.map fmtPlPart)}]"

def fmtPlaylist (p : Playlist) : String :=
  let sc := match p.serverControl with
    | some (h, k) => s!"{q10us h},{q10us k}"
    | none => "-"
  let pi := match p.partInf with | some v => toString (q10us v) | none => "-"
  let mp := match p.map with | some k => fmtKey k | none => "-"
  let sk := match p.skipped with | some n => toString n | none => "-"
  let hint := match p.hint with | some k => fmtKey k | none => "-"
  s!"v={p.version} ac={b01 p.allowCacheNo} td={p.targetDur} ms={p.mediaSeq} sc={sc} pi={pi} map={mp} skip={sk} " ++
  s!"segs={String.intercalate ";" (p.segments.map fmtPlSeg)} parts=[{String.intercalate " " (p.parts.map fmtPlPart)}] hint={hint}"

def fmtSample (s : Sample) : String := s!"({s.dur},{s.ptsOff},{b01 s.sync},{s.pay})"

def fmtPartTrack (t : PartTrack) : String :=
  s!"t{t.id}@{t.baseTime}:" ++ String.join (t.samples.map fmtSample)

def fmtPart (p : Part) : String :=
  "#" ++ toString p.id ++ "{" ++ String.intercalate " " (p.content.map fmtPartTrack) ++ "}"

def two33 : Int := 8589934592

def fmtTsUnit (u : TsUnit) : String :=
  s!"({u.track},{u.pts % two33},{u.dts % two33},{String.intercalate "+" (u.pays.map toString)})"

def fmtBody (cfg : Cfg) (si : Nat) : Body → String
  | .none => "none"
  | .init ps =>
    let s : List String := (ps.zipIdx).map fun (par, i) =>
      let tc : TrackCfg := match cfg.variant with
        | .mpegts => cfg.tracks.getD i { codec := .aac, clockRate := 1 }
        | _ => cfg.tracks.getD si { codec := .aac, clockRate := 1 }
      let tscale : Int := match tc.codec with | .aac => tc.sampleRate | .opus => 48000 | _ => 90000
      s!"{i+1}:{tscale}:{par}"
    "init " ++ String.intercalate " " s
  | .segFMP4 ps => "seg " ++ String.intercalate ";" (ps.map fmtPart)
  | .segTS us =>
    -- per-track order (the demultiplexer's cross-track emission order carries no meaning); 33-bit timestamps
    let byTrack := (List.range cfg.tracks.length).flatMap fun t => us.filter (·.track = t)
    "ts " ++ String.join (byTrack.map fmtTsUnit)
  | .part p => "part " ++ fmtPart p
  | .hintWait => "hintwait"
  | .dynamic => "dynamic"

structure St where
  pendingCfg : Option Cfg := none
  st         : Option State := none
  listed     : List PathKey := []     -- every media URI ever listed, in first-listing order
  dir        : Bool := false          -- Directory configured: the file listing is observable

def parseVariant : String → Option Variant
  | "ts" => some .mpegts | "fmp4" => some .fmp4 | "ll" => some .ll | _ => none

def parseCodec : String → Option Codec
  | "h264" => some .h264 | "h265" => some .h265 | "vp9" => some .vp9 | "av1" => some .av1
  | "aac" => some .aac | "opus" => some .opus | _ => none

def intList (s : String) : Option (List Int) :=
  if s = "-" then some [] else (s.splitOn ",").mapM String.toInt?

def keysOfPlaylist (p : Playlist) : List PathKey :=
  (match p.map with | some k => [k] | none => []) ++
  (p.segments.flatMap fun g => (match g.key with | some k => [k] | none => []) ++ g.parts.map (·.key)) ++
  p.parts.map (·.key)

def addListed (l : List PathKey) (ks : List PathKey) : List PathKey :=
  ks.foldl (fun l k => if l.contains k then l else l ++ [k]) l

def streamOfKey : PathKey → Nat
  | .init s | .seg s _ | .part s _ | .playlist s => s
  | .index => 0

def fileLe : PathKey → PathKey → Bool
  | .seg s1 i1, .seg s2 i2 => i1 < i2 || (i1 == i2 && s1 ≤ s2)
  | _, _ => true

def insertFile (k : PathKey) : List PathKey → List PathKey
  | [] => [k]
  | x :: xs => if fileLe k x then k :: x :: xs else x :: insertFile k xs

def sortFiles (l : List PathKey) : List PathKey := l.foldl (fun acc k => insertFile k acc) []

def snap (s : St) (st : State) : St × List String :=
  let n := st.streams.length
  let isLL := st.cfg.variant = .ll
  let (lines, listed) := (List.range n).foldl (fun (acc : List String × List PathKey) si =>
      let (lines, listed) := acc
      if (st.stream si).hasContent st.cfg.variant then
        let p := mediaPlaylist st si false
        let lines := lines ++ [s!"pl s={si} d=0 {fmtPlaylist p}"]
        let listed := addListed listed (keysOfPlaylist p)
        if isLL then
          let pd := mediaPlaylist st si true
          (lines ++ [s!"pl s={si} d=1 {fmtPlaylist pd}"], addListed listed (keysOfPlaylist pd))
        else (lines, listed)
      else (lines ++ [s!"pl s={si} d=0 wait"], listed))
    ([], s.listed)
  let gets := listed.map fun k => s!"get {fmtKey k} {fmtBody st.cfg (streamOfKey k) (get st k)}"
  let files := (sortFiles st.files).map fmtKey
  let fl := if s.dir then String.intercalate " " files else "-"
  ({ s with listed := listed }, lines ++ gets ++ [s!"files {fl}"])

def optNat (w : Option String) : Option (Option Nat) :=
  match w with
  | none => some none
  | some "-" => some none
  | some v => (v.toNat?).map some

inductive RelPart | absent | abs (n : Nat) | rel (k : Int)

def relPart (w : String) : Option RelPart :=
  if w = "-" then some .absent
  else if w.startsWith "o" then ((w.drop 1).toString.toInt?).map .rel
  else (w.toNat?).map .abs

/-- extra query text of a `reqrel` op: the pairs `url.ParseQuery` yields for it and its error flag -/
def qClass : String → Option (List (String × String) × Bool)
  | "-" => some ([], true)
  | "ok" => some ([("foo", "bar"), ("a", "2"), ("_HLS_x", "1")], true)
  | "dup" => some ([("a", "2"), ("a", "1"), ("b", "3")], true)
  | "esc" => some ([], false)
  | "semi" => some ([], false)
  | _ => none

def step (s : St) (line : String) : St × List String :=
  match words line with
  | [] => (s, [])
  | "case" :: rest => ({}, [String.intercalate " " ("case" :: rest)])
  | "start" :: ws =>
    match (kv ws "v").bind parseVariant, kvNat ws "segcount", kvInt ws "segmin", kvInt ws "partmin", kvNat ws "maxsize" with
    | some v, some sc, some sm, some pm, some mx =>
      let c : Cfg := { variant := v, segmentCount := sc, segmentMinDur := sm, partMinDur := pm, segmentMaxSize := mx, tracks := [] }
      let d : Bool := decide ((kv ws "dir") = some "1")
      ({ s with dir := d, pendingCfg := some c }, [])
    | _, _, _, _, _ => (s, ["bad-op"])
  | "track" :: ws =>
    match s.pendingCfg, (kv ws "codec").bind parseCodec, kvInt ws "rate", kvInt ws "sr" with
    | some c, some cd, some r, some sr =>
      ({ s with pendingCfg := some { c with tracks := c.tracks ++ [{ codec := cd, clockRate := r, sampleRate := sr }] } }, [])
    | _, _, _, _ => (s, ["bad-op"])
  | ["begin"] =>
    match s.pendingCfg with
    | none => (s, ["bad-op"])
    | some c =>
      match start c with
      | .ok st => ({ s with st := some st }, ["started"])
      | .error e => (s, [s!"starterr {repr e}"])
  | "w" :: ws =>
    match s.st with
    | none => (s, ["bad-op"])
    | some st =>
      match kvNat ws "t", kvInt ws "pts", kvInt ws "dts", kvInt ws "ntp", kvNat ws "ra", kvNat ws "pic", kvNat ws "par",
            (kv ws "pays").bind natList, (kv ws "sizes").bind natList, intList ((kv ws "durs").getD "-") with
      | some t, some pts, some dts, some ntp, some ra, some pic, some par, some pays, some sizes, some durs =>
        let op : WriteOp := { track := t, pts := pts, dts := dts, ntp := ntp * 1000000, ra := ra == 1, pic := pic == 1,
                              par := par, pays := pays, sizes := sizes, durs := durs }
        let (st', r) := write st op
        ({ s with st := some st' }, [s!"w {if r = .ok then "ok" else "err"} enc={st'.encErrs}"])
      | _, _, _, _, _, _, _, _, _, _ => (s, ["bad-op"])
  | ["close"] =>
    match s.st with
    | none => (s, ["bad-op"])
    | some st =>
      let st' := close st
      let fl := if s.dir then String.intercalate " " ((sortFiles st'.files).map fmtKey) else "-"
      ({ s with st := none }, [s!"closed files={fl}"])
  | ["snap"] =>
    match s.st with
    | none => (s, ["bad-op"])
    | some st => snap s st
  | "gethint" :: ws =>
    match s.st, kvNat ws "s" with
    | some st, some si =>
      let k := PathKey.part si (st.stream si).nextPartID
      if (st.stream si).hasContent st.cfg.variant then (s, [s!"gethint {fmtBody st.cfg si (get st k)}"])
      else (s, ["gethint nohint"])
    | _, _ => (s, ["bad-op"])
  | "req" :: ws =>
    match s.st, kvNat ws "s", optNat (kv ws "msn"), optNat (kv ws "part"), kv ws "skip" with
    | some st, some si, some msn, some part, some skip =>
      match reqDecision st si msn part (skip = "YES" || skip = "v2") with
      | .bad400 => (s, ["req 400"])
      | .wait => (s, ["req wait"])
      | .respond d => (s, [s!"req 200 {fmtPlaylist (mediaPlaylist st si d)}"])
    | some _, some _, _, _, _ => (s, ["req 400"])     -- unparsable number
    | _, _, _, _, _ => (s, ["bad-op"])
  | "reqrel" :: ws =>
    -- slice muxreq (C06): request relative to the live edge; see go/cmd/corr/muxer_reqrel.go
    match s.st, kvNat ws "s", kvInt ws "dm", (kv ws "part").bind relPart, kv ws "skip", (kv ws "q").bind qClass with
    | some st, some si, some dm, some part, some skip, some (extra, ok) =>
      if st.cfg.variant ≠ .ll ∨ si ≥ st.streams.length then (s, ["bad-op"]) else
      let sm := st.stream si
      let has := sm.hasContent st.cfg.variant
      let next : Nat := if has then sm.nextSegmentID else 7
      let openN : Nat := if has then sm.openPartCount else 0
      let M : Nat := (Int.ofNat next + dm).toNat
      let P : Option Nat := match part with
        | .absent => none
        | .abs n => some n
        | .rel k => some (Int.ofNat openN + k).toNat
      let partS := match P with | some n => toString n | none => "-"
      let head := s!"reqrel msn={M} part={partS} "
      let sk := skip = "YES" || skip = "v2"
      -- the query as url.ParseQuery returns it (malformed pairs dropped), then filterOutHLSParams
      let pairs : List (String × String) :=
        [("_HLS_msn", toString M)] ++ (match P with | some n => [("_HLS_part", toString n)] | none => []) ++
        (if skip = "-" then [] else [("_HLS_skip", skip)]) ++ extra
      let qs := match filterOutHLSParams (.parsed "?" pairs ok) with
        | .pairs [] => "-"
        | .pairs l => String.intercalate "&" (l.map fun (kv : String × String) => kv.1 ++ "=" ++ kv.2)
        | .none => "-"
        | .raw r => r
      match reqDecision st si (some M) P sk with
      | .bad400 => (s, [head ++ "400"])
      | .wait => (s, [head ++ "wait"])
      | .respond d => (s, [head ++ s!"200 {fmtPlaylist (mediaPlaylist st si d)} q={qs}"])
    | _, _, _, _, _, _ => (s, ["bad-op"])
  | _ => (s, ["bad-op"])

def main : IO Unit := runDriver step ({} : St)
