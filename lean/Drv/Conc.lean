import Hls.Proto
import Hls.Conc.Machine
import Hls.Gen.Skeleton
/-!
Model driver for the `conc` correspondence stream (C06 concurrent half, C07).

Executes the scenario ops of `go/cmd/corr/slice_conc.go` on the interleaving machine
`Hls.Conc` whose thread programs are the REGENERATED skeleton `Hls.Gen.skeleton`.
Thread 0 = writer, thread 1 = closer, requests are appended in the order of their `req` ops.
Every op runs to quiescence exactly as the harness does (after a broadcast every woken
thread runs until it returns or parks again).
-/
open Hls.Proto Hls.Conc

structure DReq where
  id : Nat
  tid : Nat
  blocked : Bool := false

structure DSt where
  cfg : Cfg := { sk := Hls.Gen.skeleton }
  st : State := { sh := {}, threads := [] }
  variant : String := ""
  dir : Bool := false
  reqs : List DReq := []
  closeCalled : Bool := false
  closed : Bool := false
  started : Bool := false

/-- `msnint > nextSegmentID+1 || msnint < nextSegmentID - uint64(len(segments)-1)` for the harness's
    fixed configuration (LL, SegmentCount 7): `len = 0` before the first rotation (the uint64
    subtraction wraps: everything but `nextSegmentID+1` is out of range), `len = 7` afterwards. -/
def oorLL (msn nseg : Nat) : Bool :=
  if nseg ≤ 7 then msn != nseg + 1 else (msn > nseg + 1 || msn + 6 < nseg)

def thread? (d : DSt) (tid : Nat) : Option Thread := d.st.threads[tid]?

def nextStmt (d : DSt) (tid : Nat) : Option SyncStmt :=
  match thread? d tid with
  | some th => if th.result.isSome then none else (th.kind.prog d.cfg.sk)[th.pc]?
  | none => none

def prevStmt (d : DSt) (tid : Nat) : Option SyncStmt :=
  match thread? d tid with
  | some th => if th.pc = 0 then none else (th.kind.prog d.cfg.sk)[th.pc - 1]?
  | none => none

def quiet (d : DSt) (tid : Nat) : Bool :=
  match thread? d tid with
  | some th => th.result.isSome || th.wait = .parked
  | none => true

/-- run thread `tid` (no failures) until it has returned, parked, is not enabled, or `stop` holds -/
def runThread (d : DSt) (tid : Nat) (stop : DSt → Bool := fun _ => false) : Nat → DSt
  | 0 => d
  | fuel + 1 =>
    if quiet d tid || stop d then d
    else match step d.cfg d.st tid false with
      | none => d
      | some s' => runThread { d with st := s' } tid stop fuel

def wokenTid (d : DSt) : Option Nat :=
  (List.range d.st.threads.length).find? fun t =>
    match d.st.threads[t]? with
    | some th => th.wait = .woken && th.result.isNone
    | none => false

/-- every woken thread runs until it returns or parks again -/
def settle (d : DSt) : Nat → DSt
  | 0 => d
  | fuel + 1 =>
    match wokenTid d with
    | none => d
    | some t =>
      let d' := runThread d t (fun _ => false) 64
      -- a woken thread that cannot re-acquire (mutex leaked) stays woken: stop
      if quiet d' t then settle d' fuel else d'

def reqState (d : DSt) (r : DReq) : String :=
  match thread? d r.tid with
  | some th =>
    match th.result with
    | some st => s!"{r.id}=done:{st}"
    | none => if r.blocked then s!"{r.id}=blocked" else s!"{r.id}=parked"
  | none => s!"{r.id}=?"

def states (d : DSt) : String :=
  if d.reqs.isEmpty then "-" else String.intercalate " " (d.reqs.map (reqState d))

def counters (d : DSt) : String :=
  if d.st.sh.owner.isSome then "locked"
  else if d.variant = "ts" then s!"ns={d.st.sh.nextSegmentID}"
  else s!"ns={d.st.sh.nextSegmentID} np={d.st.sh.nextPartID}"

def doStart (ws : List String) : DSt × List String :=
  let v := (kv ws "v").getD "ll"
  let tr := (kv ws "tr").getD "v"
  let n := if tr = "va" && v != "ts" then 2 else 1
  let first := if v = "ll" then 7 else 0
  let cfg : Cfg := { sk := Hls.Gen.skeleton, nStreams := n, firstSeg := first,
                     contentMin := if v = "fmp4" then 2 else 1, oor := oorLL }
  let st : State := {
    sh := { nextPartID := 0, nextSegmentID := first, sClosed := List.replicate n false },
    threads := [{ kind := .writer .parts, result := some 0 }, { kind := .closer }] }
  ({ cfg := cfg, st := st, variant := v, dir := (kv ws "dir") = some "1", started := true },
   [s!"start streams={n}"])

def isBroadcast (s : Option SyncStmt) : Bool := s = some .broadcast

def finishWrite (d : DSt) : DSt × List String :=
  let d1 := runThread d 0 (fun _ => false) 64
  if quiet d1 0 then
    let d2 := settle d1 64
    -- a mutex that is still owned after everybody settled (leak) is what the harness reports as "unsettled"
    if d2.st.sh.owner.isSome then (d2, ["w unsettled locked"]) else (d2, ["w " ++ counters d2])
  else (d1, ["w blocked"])

def doWrite (d : DSt) (ws : List String) : DSt × List String :=
  match kv ws "rot" with
  | some "none" => (d, ["w " ++ counters d])
  | some rot =>
    -- next Write* call: the writer starts over with the rotation this frame causes
    match step d.cfg d.st 0 (rot = "seg") with
    | none => (d, ["w blocked"])
    | some s' =>
      let d0 := { d with st := s' }
      if kv ws "hold" = some "1" then
        let d1 := runThread d0 0 (fun x => isBroadcast (nextStmt x 0)) 64
        if isBroadcast (nextStmt d1 0) then (d1, ["w held"]) else (d1, ["w blocked"])
      else finishWrite d0
  | none => (d, ["bad-op"])

def doReq (d : DSt) (ws : List String) : DSt × List String :=
  let id := (kvNat ws "id").getD 0
  let s := (kvNat ws "s").getD 0
  let kind? : Option Kind :=
    match kv ws "k" with
    | some "multi" => some .multi
    | some "plain" => some (.mediaPlain s)
    | some "block" => some (.mediaBlock s ((kvNat ws "msn").getD 0) ((kvNat ws "tgt").getD 0))
    | some "hint" => some (.hint s ((kvNat ws "hid").getD 0))
    | _ => none
  match kind? with
  | none => (d, ["bad-op"])
  | some k =>
    if s ≥ d.cfg.nStreams then (d, ["bad-op"]) else
    -- only the currently advertised preload hint is a valid target (same rule as the harness)
    let badHint := match k with
      | .hint _ hid => d.st.sh.owner.isNone && (d.variant != "ll" || d.st.sh.nextPartID == 0 || hid != d.st.sh.nextPartID)
      | _ => false
    if badHint then (d, ["bad-op"]) else
    let tid := d.st.threads.length
    let d0 := { d with st := { d.st with threads := d.st.threads ++ [{ kind := k }] } }
    let d1 := runThread d0 tid (fun _ => false) 64
    match thread? d1 tid with
    | some th =>
      match th.result with
      | some st => ({ d1 with reqs := d1.reqs ++ [{ id := id, tid := tid }] }, [s!"req {id} done:{st}"])
      | none =>
        if th.wait = .parked then ({ d1 with reqs := d1.reqs ++ [{ id := id, tid := tid }] }, [s!"req {id} parked"])
        else ({ d1 with reqs := d1.reqs ++ [{ id := id, tid := tid, blocked := true }] }, [s!"req {id} blocked"])
    | none => (d1, ["bad-op"])

/-- run the closer up to the requested yield point (`before`/`after` its Broadcast) or to its return -/
def closeLeg (d : DSt) (hold : Option String) : DSt × List String :=
  let stop : DSt → Bool :=
    match hold with
    | some "before" => fun x => isBroadcast (nextStmt x 1)
    | some "after" => fun x => isBroadcast (prevStmt x 1)
    | _ => fun _ => false
  -- make progress past the current yield point first
  let d0 := match step d.cfg d.st 1 false with
    | some s' => { d with st := s' }
    | none => d
  let d1 := runThread d0 1 stop 64
  let d2 := settle d1 64
  match thread? d2 1 with
  | some th =>
    let uns := if d2.st.sh.owner.isSome then " unsettled" else ""
    if th.result.isSome then ({ d2 with closed := true }, ["close done" ++ uns])
    else if stop d2 then (d2, ["close held" ++ uns])
    else (d2, ["close blocked"])
  | none => (d2, ["bad-op"])

def doEnd (d : DSt) : DSt × List String :=
  let lock := if d.st.sh.owner.isNone then "free" else "held"
  let dir := if d.closed && d.dir then "empty" else "na"
  (d, [s!"end lock={lock} dir={dir} {states d}"])

def stepLine (d : DSt) (line : String) : DSt × List String :=
  match words line with
  | [] => (d, [])
  | "case" :: rest => ({}, [String.intercalate " " ("case" :: rest)])
  | "start" :: ws => doStart ws
  | op :: ws =>
    if !d.started then (d, ["bad-op"]) else
    match op with
    | "w" => doWrite d ws
    | "wrel" => finishWrite d
    | "req" => doReq d ws
    | "close" => if d.closeCalled then (d, ["bad-op"]) else closeLeg { d with closeCalled := true } (kv ws "hold")
    | "crel" => closeLeg d (kv ws "hold")
    | "st" => (d, ["st " ++ states d])
    | "end" => doEnd d
    | _ => (d, ["bad-op"])

def main : IO Unit := runDriver stepLine ({} : DSt)
