import Hls.Proto
import Hls.MvGen.Model
/-! Model driver for the `mvgen` correspondence stream (C16). Core Lean only.

`bandwidth()` is run as `bandwidthCode` / `generateCode`, i.e. with the two guards of the F13 repair present
or absent as the REGENERATED facts say (`c16_no_panic`: with both present these are the total `bandwidth` /
`generate`). -/
open Hls.Proto Hls.MvGen

def dash (s : String) : String := if s = "" then "-" else s
def undash (s : String) : String := if s = "-" then "" else s
def b01 (b : Bool) : String := if b then "1" else "0"

def parseBits (s : String) : List Bool := s.toList.map (· == '1')

def parseCodec : String → Option Codec
  | "av1" => some .av1 | "vp9" => some .vp9 | "h265" => some .h265 | "h264" => some .h264
  | "opus" => some .opus | "aac" => some .mpeg4audio | _ => none

/-- parsed header fields, `pf=` value -/
def parseParams (c : Codec) (pf : String) : Option Params :=
  if pf = "x" then some .invalid else
  let fs := pf.splitOn ","
  match c, fs with
  | .h264, [a, b, d] => do some (.h264 (← a.toNat?) (← b.toNat?) (← d.toNat?))
  | .h265, [ps, pi, compat, tier, li, cons] => do
    some (.h265 (← ps.toNat?) (← pi.toNat?) (parseBits compat) (← tier.toNat?) (← li.toNat?) (parseBits cons))
  | .vp9, [p, bd] => do some (.vp9 (← p.toNat?) (← bd.toNat?))
  | .av1, [sp, li, tier, bd, mono, sx, sy, cp, cd] => do
    let cd' ← if cd = "-" then some none else
      match cd.splitOn "." with
      | [p, t, m, r] => do some (some ((← p.toNat?), (← t.toNat?), (← m.toNat?), r == "1"))
      | _ => none
    some (.av1 (← sp.toNat?) (← li.toNat?) (tier == "1") (← bd.toNat?) (mono == "1") (sx == "1") (sy == "1") (← cp.toNat?) cd')
  | .mpeg4audio, [t] => do some (.mpeg4audio (← t.toNat?))
  | .opus, _ => some .opus
  | _, _ => none

structure Announced where
  alt : Nat
  params : Params
  res : String
  fps : Option String

structure St where
  tracks : List Track := []
  announced : List (Option Announced) := []   -- per track: parameter set the next `p=1` write carries
  started : Bool := false
  variant : Variant := .lowLatency
  streams : List Stream := []
  seg : Option SegSt := none
  leadIdx : Nat := 0

def fmtStream (s : Stream) : String :=
  s!"{s.id}/{b01 s.isLeading}/{b01 s.isRendition}/{b01 s.isDefault}/{dash s.name}/{dash s.language}"

def fmtErr : StartErr → String
  | .noTracks => "no-tracks" | .tsMultiVideo => "ts-multi-video" | .tsVideoNotH264 => "ts-video-not-h264"
  | .tsMultiAudio => "ts-multi-audio" | .tsAudioNotAAC => "ts-audio-not-aac" | .multiVideo => "multi-video"
  | .multiDefaultAudio => "multi-default-audio" | .segCountLL => "segcount-ll" | .segCountOther => "segcount"

def fmtRendition (r : Rendition) : String :=
  let uri := match r.uri with | some u => u | none => "-"
  s!"{dash r.name}/{dash r.language}/{b01 r.default}/{b01 r.autoselect}/{dash r.groupID}/{r.typ}/{uri}"

def fmtMv (m : Multivariant) : String :=
  let v := match m.variants with
    | [v] => s!"uri={dash v.uri} codecs={dash (String.intercalate "," v.codecs)} res={dash v.resolution} fps={dash (v.frameRate.getD "")} audio={dash v.audio}"
    | _ => "uri=? codecs=? res=? fps=? audio=?"
  let rs := if m.renditions.isEmpty then "-" else String.intercalate ";" (m.renditions.map fmtRendition)
  s!"mv ok v={m.version} ind={b01 m.independentSegments} nvar={m.variants.length} {v} rend={rs}"

def setAt {α} (l : List α) (i : Nat) (x : α) : List α := l.set i x

def parseSegs (s : String) : Option (List Seg) :=
  if s = "-" then some [] else
  (s.splitOn ",").mapM fun e =>
    match e.splitOn ":" with
    | ["g", d] => do some (Seg.gap (← d.toNat?))
    | [sz, d] => do some (Seg.seg (← sz.toNat?) (← d.toNat?))
    | _ => none

def entriesToSegs (es : List Entry) : List Seg :=
  es.map fun e => match e with
    | .gap d => Seg.gap d.toNat
    | .seg d => Seg.seg 1 d.toNat     -- sizes are the container encoder's; only durations decide a panic

def step (st : St) (line : String) : St × List String :=
  match words line with
  | [] => (st, [])
  | "case" :: rest => ({}, [String.intercalate " " ("case" :: rest)])
  | "track" :: ws =>
    match (kv ws "codec").bind parseCodec, kvInt ws "rate", kv ws "name", kv ws "lang", kvNat ws "def",
          kv ws "pf", kv ws "res", kv ws "fps", kvNat ws "alt" with
    | some c, some rate, some name, some lang, some d, some pf, some res, some fps, some alt =>
      match parseParams c pf with
      | some p =>
        let t : Track := { codec := c, params := p, paramsId := alt, res := undash res,
                           fps := if fps = "-" then none else some fps,
                           name := name, language := lang, isDefault := d != 0, clockRate := rate }
        ({ st with tracks := st.tracks ++ [t], announced := st.announced ++ [none] }, [s!"track {st.tracks.length + 1}"])
      | none => (st, ["bad-op"])
    | _, _, _, _, _, _, _, _, _ => (st, ["bad-op"])
  | "start" :: ws =>
    let v? : Option Variant := match kv ws "variant" with
      | some "ts" => some .mpegts | some "fmp4" => some .fmp4 | some "ll" => some .lowLatency | _ => none
    match v?, kvNat ws "segcount", kvInt ws "segmin" with
    | some v, some sc, some sm =>
      match start v sc st.tracks with
      | .error e => ({ st with started := false }, [s!"err {fmtErr e}"])
      | .ok streams =>
        -- the leading track: first track of the first leading stream
        let leadIdx := match streams.find? (·.isLeading) with
          | some s => (if v = .mpegts then
                          (match st.tracks.findIdx? (fun t => isVideo t.codec) with | some i => i | none => 0)
                       else s.tracks.headD 0)
          | none => 0
        let lt := st.tracks[leadIdx]?
        let seg : SegSt := { variant := v, segCount := sc, segMin := sm,
                             rate := (lt.map (·.clockRate)).getD 90000,
                             leadVideo := (lt.map (fun t => isVideo t.codec)).getD false }
        ({ st with started := true, variant := v, streams := streams, seg := some seg, leadIdx := leadIdx },
         ["started " ++ String.intercalate ";" (streams.map fmtStream)])
    | _, _, _ => (st, ["bad-op"])
  | "par" :: ws =>
    match kvNat ws "t", kv ws "pf", kv ws "res", kv ws "fps", kvNat ws "alt" with
    | some i, some pf, some res, some fps, some alt =>
      match st.tracks[i]? with
      | some t =>
        match parseParams t.codec pf with
        | some p =>
          let a : Announced := { alt := alt, params := p, res := undash res, fps := if fps = "-" then none else some fps }
          ({ st with announced := setAt st.announced i (some a) }, ["par"])
        | none => (st, ["bad-op"])
      | none => (st, ["bad-op"])
    | _, _, _, _, _ => (st, ["bad-op"])
  | "w" :: ws =>
    match st.started, kvNat ws "t", kvInt ws "dts", kvNat ws "ra", kvNat ws "p" with
    | true, some i, some dts, some ra, some p =>
      match st.tracks[i]? with
      | none => (st, ["bad-op"])
      | some t =>
        -- parameter sets carried by this unit replace the stored ones
        let (t', differs) :=
          if p != 0 then
            match st.announced[i]? with
            | some (some a) => ({ t with params := a.params, paramsId := a.alt, res := a.res, fps := a.fps }, a.alt != t.paramsId)
            | _ => (t, false)
          else (t, false)
        let st := { st with tracks := setAt st.tracks i t' }
        let st := if i = st.leadIdx then { st with seg := st.seg.map fun s => leadWrite s dts (ra != 0) differs } else st
        (st, ["w"])
    | _, _, _, _, _ => (st, ["bad-op"])
  | "mv" :: ws =>
    match st.started, st.seg, kv ws "q" with
    | true, some seg, some q =>
      if !hasContent seg then (st, ["mv blocked"])
      else
        -- `generateCode`: `bandwidth()` with the guards the extractor found in the source
        -- (`Hls.Gen.MvGen.bandwidthSkipsZeroDuration` / `bandwidthGuardsZeroTotal`): a tree without
        -- the F13 repair is modelled as such (`mv panic:div0`), the correspondence stays exact.
        match generateCode st.variant st.streams st.tracks (undash q) (entriesToSegs seg.entries) with
        | .error _ => (st, ["mv panic:div0"])
        | .ok m => (st, [fmtMv m])
    | _, _, _ => (st, ["bad-op"])
  | ["bw", segs] =>
    match parseSegs segs with
    | some l =>
      match bandwidthCode l with
      | .ok (mx, avg) => (st, [s!"bw {mx} {avg}"])
      | .error _ => (st, ["panic:div0"])
    | none => (st, ["bad-op"])
  | "cs" :: ws =>
    match (kv ws "codec").bind parseCodec, kv ws "pf" with
    | some c, some pf =>
      match parseParams c pf with
      | some p => (st, [s!"cs {dash (codecString p)}"])
      | none => (st, ["bad-op"])
    | _, _ => (st, ["bad-op"])
  | _ => (st, ["bad-op"])

def main : IO Unit := runDriver step ({} : St)
