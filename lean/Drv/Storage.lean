import Hls.Proto
import Hls.Storage.Model
/-! Model driver for the `storage` correspondence stream (C17, C05). -/
open Hls.Proto Hls.Storage

structure St where
  spec : Spec := {}
  ram  : Ram := {}
  disk : Disk := {}
  /-- readers that were opened and not read yet: (id, what the RAM / disk reader will return).
      A reader returns what the part / file held when it was opened (a snapshot in the model; in the code:
      `bytes.NewReader` over the buffer's bytes, `ramFileReader` over finalized parts, an open file descriptor). -/
  hRam  : List (Nat × Out) := []
  hDisk : List (Nat × Out) := []

def fmtOut : Out → String
  | .unit => "u"
  | .n v => s!"n{v}"
  | .bytes b => s!"b{hexOrDash b}"
  | .err => "e"

def parseOp (ws : List String) : Option Op :=
  match ws with
  | ["newpart"] => some .newPart
  | ["wr", k, hex] => do some (.write (← k.toNat?) (← bytesOfHex hex))
  | ["seek", k, off, "start"] => do some (.seek (← k.toNat?) (← off.toInt?) .start)
  | ["seek", k, off, "cur"] => do some (.seek (← k.toNat?) (← off.toInt?) .cur)
  | ["fin"] => some .finalize
  | ["rm"] => some .remove
  | ["rdpart", k] => do some (.readPart (← k.toNat?))
  | ["rdfile", bufs] => do some (.readFile (← natList bufs))
  | ["size"] => some .size
  | _ => none

def step (s : St) (line : String) : St × List String :=
  match words line with
  | [] => (s, [])
  | "case" :: rest => ({}, [String.intercalate " " ("case" :: rest)])
  | "open" :: id :: rest =>
    match id.toNat?, (match rest with
        | ["f"] => some (Op.readFile [])
        | ["p", k] => (k.toNat?).map Op.readPart
        | _ => none) with
    | some i, some op =>
      let ro := (s.ram.step op).2
      let dop := (s.disk.step op).2
      let tag (o : Out) : String := match o with | .err => "e" | _ => "h"
      ({ s with hRam := (i, ro) :: s.hRam, hDisk := (i, dop) :: s.hDisk }, [s!"ram:{tag ro} disk:{tag dop}"])
    | _, _ => (s, ["bad-op"])
  | ["rdh", id, _bufs] =>
    match id.toNat? with
    | some i =>
      let get (l : List (Nat × Out)) : String :=
        match l.find? (·.1 = i) with
        | some (_, .err) => "e"
        | some (_, o) => fmtOut o
        | none => "e"
      ({ s with hRam := s.hRam.filter (·.1 ≠ i), hDisk := s.hDisk.filter (·.1 ≠ i) }, [s!"ram:{get s.hRam} disk:{get s.hDisk}"])
    | none => (s, ["bad-op"])
  | ["noise"] => (s, ["ram:u disk:u"])   -- another file of the same process is written: no effect on this one
  | ["exists"] =>
    -- is the disk file still there? (`Remove` = unlink; the model's `removed` flag is what it means)
    (s, [s!"ram:- disk:{if s.disk.removed then "x0" else "x1"}"])
  | ws =>
    match parseOp ws with
    | none => (s, ["bad-op"])
    | some op =>
      let (sp, _) := s.spec.step op
      let (r, ro) := s.ram.step op
      let (d, dop) := s.disk.step op
      ({ s with spec := sp, ram := r, disk := d }, [s!"ram:{fmtOut ro} disk:{fmtOut dop}"])

def main : IO Unit := runDriver step ({} : St)
