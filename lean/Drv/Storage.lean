import Hls.Proto
import Hls.Storage.Model
/-! Model driver for the `storage` correspondence stream (C17, C05). -/
open Hls.Proto Hls.Storage

structure St where
  spec : Spec := {}
  ram  : Ram := {}
  disk : Disk := {}

def fmtOut : Out → String
  | .unit => "u"
  | .n v => s!"n{v}"
  | .bytes b => s!"b{hexOrDash b}"
  | .err => "e"

def parseOp (ws : List String) : Option Op :=
  match ws with
  | ["newpart"] => some .newPart
  | ["wr", k, hex] => do some (.write (← k.toNat?) (← bytesOfHex hex))
  | ["seek", k, off, "start"] => do some (.seek (← k.toNat?) (← off.toInt?) .start)
  | ["seek", k, off, "cur"] => do some (.seek (← k.toNat?) (← off.toInt?) .cur)
  | ["fin"] => some .finalize
  | ["rm"] => some .remove
  | ["rdpart", k] => do some (.readPart (← k.toNat?))
  | ["rdfile", bufs] => do some (.readFile (← natList bufs))
  | ["size"] => some .size
  | _ => none

def step (s : St) (line : String) : St × List String :=
  match words line with
  | [] => (s, [])
  | "case" :: rest => ({}, [String.intercalate " " ("case" :: rest)])
  | ["exists"] =>
    -- is the disk file still there? (`Remove` = unlink; the model's `removed` flag is what it means)
    (s, [s!"ram:- disk:{if s.disk.removed then "x0" else "x1"}"])
  | ws =>
    match parseOp ws with
    | none => (s, ["bad-op"])
    | some op =>
      let (sp, _) := s.spec.step op
      let (r, ro) := s.ram.step op
      let (d, dop) := s.disk.step op
      ({ spec := sp, ram := r, disk := d }, [s!"ram:{fmtOut ro} disk:{fmtOut dop}"])

def main : IO Unit := runDriver step ({} : St)
