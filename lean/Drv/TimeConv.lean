import Hls.Proto
import Hls.Client.Process
/-! Model driver for the `timeconv` (unit layer) and `timeconv_e2e` (end-to-end layer) correspondence streams (C10). -/
open Hls.Proto Hls.Gen.TimeConv Hls.Client.TimeConv Hls.Client.Process

namespace TC

def M : Int := 8589934592

def joinOr (sep : String) (xs : List String) : String :=
  match xs with
  | [] => "-"
  | _ => String.intercalate sep xs

def intList (s : String) : Option (List Int) :=
  if s = "-" ∨ s = "" then some [] else (s.splitOn ",").mapM String.toInt?

def panicStr : Panic → String
  | .divByZero => "panic:div0"
  | .nilDeref => "panic:nil"
  | .indexOutOfRange => "panic:index"

def ntpStr : Option Int → String
  | none => "nil"
  | some n => toString n

def optInt (s : String) : Option (Option Int) :=
  if s = "nil" then some none else (s.toInt?).map some

def fmtDeliveries (ds : List Delivery) : String :=
  "d=" ++ joinOr ";" (ds.map fun d => s!"{d.payload}@{d.pts}/{d.dts}/{ntpStr d.ntp}")

def parseSamples (s : String) : Option (List Sample) :=
  if s = "-" ∨ s = "" then some [] else
    (s.splitOn ";").mapM fun p =>
      match p.splitOn ":" with
      | [a, b, c] => do
        let dur ← a.toInt?
        let off ← b.toInt?
        let pid ← c.toNat?
        some { payload := pid, duration := dur, ptsOffset := off }
      | _ => none

/-! ### unit layer -/

def unitOp (op : String) (ws : List String) : Option String :=
  match op with
  | "conv" => do
    let ts ← kvInt ws "ts"; let base ← kvInt ws "base"; let v ← kvInt ws "v"; let rate ← kvInt ws "rate"
    let c : FMP4Conv := { leadingTimeScale := ts, leadingBaseTime := base }
    match c.convert v rate with
    | .ok r => some s!"r={r}"
    | .error p => some (panicStr p)
  | "ntp" => do
    let ts ← kvInt ws "ts"; let base ← kvInt ws "base"; let avail ← kvInt ws "avail"; let nv ← kvInt ws "nv"
    let nts ← kvInt ws "nts"; let nrate ← kvInt ws "nrate"; let t ← kvInt ws "t"; let rate ← kvInt ws "rate"
    let c0 : FMP4Conv := { leadingTimeScale := ts, leadingBaseTime := base }
    let c := if avail ≠ 0 then c0.setNTP nv nts nrate else c0
    match c.getNTP t rate with
    | .ok r => some s!"ntp={ntpStr r}"
    | .error p => some (panicStr p)
  | "td" => do
    let t0 ← kvInt ws "t0"
    let tv ← (kv ws "tv").bind intList
    let c := TSConv.init (t0 % M)
    let (rs, _) := c.td.decodeAll (tv.map (· % M))
    some ("r=" ++ joinOr "," (rs.map toString))
  | "tsntp" => do
    let t0 ← kvInt ws "t0"; let avail ← kvInt ws "avail"; let nv ← kvInt ws "nv"; let nts ← kvInt ws "nts"; let t ← kvInt ws "t"
    let c0 := TSConv.init t0
    let c := if avail ≠ 0 then c0.setNTP nv nts else c0
    match c.getNTP t with
    | .ok r => some s!"ntp={ntpStr r}"
    | .error p => some (panicStr p)
  | "proc" => do
    let rate ← kvInt ws "rate"; let dec ← kvInt ws "dec"; let edts ← kvInt ws "edts"
    let entp ← (kv ws "entp").bind optInt
    let smp ← (kv ws "smp").bind parseSamples
    let tr : TrackInfo := { idx := 0, clockRate := rate, decodable := dec ≠ 0 }
    match processEntry tr edts entp smp with
    | .ok ds => some (fmtDeliveries ds)
    | .error p => some (panicStr p)
  | "tsproc" => do
    let smp ← kv ws "smp"
    let items : List String := if smp = "-" ∨ smp = "" then [] else smp.splitOn ";"
    let entries ← items.mapM fun p =>
      match p.splitOn ":" with
      | [a, b, c, d] => do
        let pts ← a.toInt?; let dts ← b.toInt?; let ntp ← optInt c; let pid ← d.toNat?
        some (pts, dts, ntp, pid)
      | _ => none
    let tr : TrackInfo := { idx := 0, clockRate := mpegtsTrackClockRate }
    let rec go : List (Int × Int × Option Int × Nat) → Except Panic (List Delivery)
      | [] => .ok []
      | (pts, dts, ntp, pid) :: rest =>
        match handleData tr pts dts ntp pid with
        | .error p => .error p
        | .ok d => match go rest with
          | .error p => .error p
          | .ok ds => .ok (d ++ ds)
    match go entries with
    | .ok ds => some (fmtDeliveries ds)
    | .error p => some (panicStr p)
  | _ => none

end TC

structure St where
  lines : List String := []    -- definition lines of the current e2e case (reversed)

def step (s : St) (line : String) : St × List String :=
  match words line with
  | [] => (s, [])
  | "case" :: rest => ({}, [String.intercalate " " ("case" :: rest)])
  | op :: ws =>
    match TC.unitOp op ws with
    | some o => (s, [o])
    | none => (s, ["bad-op"])

def main : IO Unit := runDriver step ({} : St)
