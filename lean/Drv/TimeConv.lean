import Hls.Proto
import Hls.Client.Process
import Hls.Client.Pacing
/-! Model driver for the `timeconv` (unit layer) and `timeconv_e2e` (end-to-end layer) correspondence streams (C10). -/
open Hls.Proto Hls.Gen.TimeConv Hls.Client.TimeConv Hls.Client.Process

namespace TC

def M : Int := 8589934592

def joinOr (sep : String) (xs : List String) : String :=
  match xs with
  | [] => "-"
  | _ => String.intercalate sep xs

def intList (s : String) : Option (List Int) :=
  if s = "-" ∨ s = "" then some [] else (s.splitOn ",").mapM String.toInt?

def panicStr : Panic → String
  | .divByZero => "panic:div0"
  | .nilDeref => "panic:nil"
  | .indexOutOfRange => "panic:index"

def ntpStr : Option Int → String
  | none => "nil"
  | some n => toString n

def optInt (s : String) : Option (Option Int) :=
  if s = "nil" then some none else (s.toInt?).map some

def fmtDeliveries (ds : List Delivery) : String :=
  "d=" ++ joinOr ";" (ds.map fun d => s!"{d.payload}@{d.pts}/{d.dts}/{ntpStr d.ntp}")

def parseSamples (s : String) : Option (List Sample) :=
  if s = "-" ∨ s = "" then some [] else
    (s.splitOn ";").mapM fun p =>
      match p.splitOn ":" with
      | [a, b, c] => do
        let dur ← a.toInt?
        let off ← b.toInt?
        let pid ← c.toNat?
        some { payload := pid, duration := dur, ptsOffset := off }
      | _ => none

/-! ### unit layer -/

def unitOp (op : String) (ws : List String) : Option String :=
  match op with
  | "pace" => do
    let rate ← kvInt ws "rate"; let pts ← kvInt ws "pts"; let dts ← kvInt ws "dts"; let el ← kvInt ws "el"
    if handleDataDiscard pts dts then some "pace=discard"
    else if !(handleDataDtsDuration_defined pts dts rate) then some (panicStr .divByZero)
    else match Hls.Client.Pacing.pace (handleDataDtsDuration pts dts rate) el with
      | .now => some "pace=now"
      | .sleep _ => some "pace=sleep"
      | .tooBig => some "pace=toobig"
  | "conv" => do
    let ts ← kvInt ws "ts"; let base ← kvInt ws "base"; let v ← kvInt ws "v"; let rate ← kvInt ws "rate"
    let c : FMP4Conv := { leadingTimeScale := ts, leadingBaseTime := base }
    match c.convert v rate with
    | .ok r => some s!"r={r}"
    | .error p => some (panicStr p)
  | "ntp" => do
    let ts ← kvInt ws "ts"; let base ← kvInt ws "base"; let avail ← kvInt ws "avail"; let nv ← kvInt ws "nv"
    let nts ← kvInt ws "nts"; let nrate ← kvInt ws "nrate"; let t ← kvInt ws "t"; let rate ← kvInt ws "rate"
    let c0 : FMP4Conv := { leadingTimeScale := ts, leadingBaseTime := base }
    let c := if avail ≠ 0 then c0.setNTP nv nts nrate else c0
    match c.getNTP t rate with
    | .ok r => some s!"ntp={ntpStr r}"
    | .error p => some (panicStr p)
  | "td" => do
    let t0 ← kvInt ws "t0"
    let tv ← (kv ws "tv").bind intList
    let c := TSConv.init (t0 % M)
    let (rs, _) := c.td.decodeAll (tv.map (· % M))
    some ("r=" ++ joinOr "," (rs.map toString))
  | "tsntp" => do
    let t0 ← kvInt ws "t0"; let avail ← kvInt ws "avail"; let nv ← kvInt ws "nv"; let nts ← kvInt ws "nts"; let t ← kvInt ws "t"
    let c0 := TSConv.init t0
    let c := if avail ≠ 0 then c0.setNTP nv nts else c0
    match c.getNTP t with
    | .ok r => some s!"ntp={ntpStr r}"
    | .error p => some (panicStr p)
  | "proc" => do
    let rate ← kvInt ws "rate"; let dec ← kvInt ws "dec"; let edts ← kvInt ws "edts"
    let entp ← (kv ws "entp").bind optInt
    let smp ← (kv ws "smp").bind parseSamples
    let tr : TrackInfo := { idx := 0, clockRate := rate, decodable := dec ≠ 0 }
    match processEntry tr edts entp smp with
    | .ok ds => some (fmtDeliveries ds)
    | .error p => some (panicStr p)
  | "tsproc" => do
    let smp ← kv ws "smp"
    let items : List String := if smp = "-" ∨ smp = "" then [] else smp.splitOn ";"
    let entries ← items.mapM fun p =>
      match p.splitOn ":" with
      | [a, b, c, d] => do
        let pts ← a.toInt?; let dts ← b.toInt?; let ntp ← optInt c; let pid ← d.toNat?
        some (pts, dts, ntp, pid)
      | _ => none
    let tr : TrackInfo := { idx := 0, clockRate := mpegtsTrackClockRate }
    let rec go : List (Int × Int × Option Int × Nat) → Except Panic (List Delivery)
      | [] => .ok []
      | (pts, dts, ntp, pid) :: rest =>
        match handleData tr pts dts ntp pid with
        | .error p => .error p
        | .ok d => match go rest with
          | .error p => .error p
          | .ok ds => .ok (d ++ ds)
    match go entries with
    | .ok ds => some (fmtDeliveries ds)
    | .error p => some (panicStr p)
  | _ => none


/-! ### end-to-end layer -/

structure Trk where
  stream : Nat
  id : Int
  rate : Int
  codec : String
  kind : String
  video : Bool
  sup : Bool

structure SegDef where
  pdt : Option Int
  pts : List (Nat × PartTrack) := []     -- (part number, part-track), container order (reversed while parsing)
  ds  : List TSSample := []              -- reversed while parsing

structure Case where
  fmt : String := ""
  layout : String := ""
  mode : String := ""
  k : Nat := 0
  racy : Bool := false
  tracks : List (List Trk) := []          -- per stream
  segs : List (List SegDef) := []         -- per stream, each reversed while parsing

def updateAt {α} (l : List α) (i : Nat) (f : α → α) : List α :=
  l.mapIdx fun j a => if j = i then f a else a

def parseLine (c : Case) (first : Bool) (line : String) : Option Case :=
  match words line with
  | "stream" :: ws => do
    if !first then none
    let fmt ← kv ws "fmt"; let layout ← kv ws "layout"; let mode ← kv ws "mode"
    let k ← kvNat ws "k"; let racy ← kvNat ws "racy"
    let _ ← kvNat ws "msn"; let _ ← kvNat ws "br"; let _ ← kvNat ws "child"
    if (fmt ≠ "fmp4" ∧ fmt ≠ "ts") ∨ (layout ≠ "single" ∧ layout ≠ "rend") ∨ (mode ≠ "vod" ∧ mode ≠ "live") ∨
        (mode = "live" ∧ k < 3) then none
    some { c with fmt := fmt, layout := layout, mode := mode, k := k, racy := racy ≠ 0 }
  | "trk" :: ws => do
    if first then none
    let s ← kvNat ws "s"; let id ← kvInt ws "id"; let rate ← kvInt ws "rate"
    let codec ← kv ws "codec"; let kind ← kv ws "kind"; let video ← kvNat ws "video"; let sup ← kvNat ws "sup"
    if s > c.tracks.length ∨ s + 1 < c.tracks.length ∨ !c.segs.isEmpty then none
    let t : Trk := { stream := s, id := id, rate := rate, codec := codec, kind := kind, video := video ≠ 0, sup := sup ≠ 0 }
    if s = c.tracks.length then some { c with tracks := c.tracks ++ [[t]] }
    else some { c with tracks := updateAt c.tracks s (· ++ [t]) }
  | "seg" :: ws => do
    let s ← kvNat ws "s"; let n ← kvNat ws "n"
    let pdt ← (kv ws "pdt").bind optInt
    if s ≥ c.tracks.length then none
    let segs := c.segs ++ List.replicate (s + 1 - c.segs.length) []
    let cur ← segs[s]?
    if n ≠ cur.length then none
    some { c with segs := updateAt segs s (fun l => l ++ [{ pdt := pdt }]) }
  | "pt" :: ws => do
    let s ← kvNat ws "s"; let n ← kvNat ws "n"; let part ← kvNat ws "part"
    let id ← kvInt ws "id"; let base ← kvInt ws "base"
    let smp ← (kv ws "smp").bind parseSamples
    let cur ← c.segs[s]?
    if c.fmt ≠ "fmp4" ∨ cur.isEmpty ∨ n + 1 ≠ cur.length ∨ base < 0 then none
    some { c with segs := updateAt c.segs s (fun l => updateAt l n (fun sg =>
      { sg with pts := (part, { id := id, baseTime := base, samples := smp }) :: sg.pts })) }
  | "w" :: ws => do
    let s ← kvNat ws "s"; let n ← kvNat ws "n"
    let cur ← c.segs[s]?
    if c.fmt ≠ "ts" ∨ cur.isEmpty ∨ n + 1 ≠ cur.length then none
    some c
  | "d" :: ws => do
    let s ← kvNat ws "s"; let n ← kvNat ws "n"; let t ← kvNat ws "t"
    let pts ← kvInt ws "pts"; let dts ← kvInt ws "dts"; let pid ← kvNat ws "pid"
    let cur ← c.segs[s]?
    if c.fmt ≠ "ts" ∨ cur.isEmpty ∨ n + 1 ≠ cur.length then none
    some { c with segs := updateAt c.segs s (fun l => updateAt l n (fun sg =>
      { sg with ds := { track := t, pts := pts, dts := dts, payload := pid } :: sg.ds })) }
  | _ => none

def parseCase (lines : List String) : Option Case := do
  let rec go (c : Case) (first : Bool) : List String → Option Case
    | [] => some c
    | l :: rest => do
      let c' ← parseLine c first l
      go c' false rest
  if lines.isEmpty then none
  let c ← go {} true lines
  if c.tracks.isEmpty ∨ c.segs.length ≠ c.tracks.length then none
  if c.layout = "single" ∧ c.tracks.length ≠ 1 then none
  let n0 := (c.segs.head?.map List.length).getD 0
  if n0 = 0 ∨ c.segs.any (fun l => l.length ≠ n0) then none
  if c.mode = "live" ∧ c.k > n0 then none
  some c

def errStr : Err → String
  | .panic p => panicStr p
  | .noLeadingData => "err:noleading"
  | .renditionMultiTrack => "err:rendmulti"
  | .tooManyTracks => "err:toomany"
  | .noSupportedTracks => "err:nosupported"
  | .zeroTimeScale => "err:zerots"
  | .waitLeading => "blocked:waitleading"

def isPanic : Err → Bool
  | .panic _ => true
  | _ => false

/-- observation lines for a finished run -/
def report (c : Case) (trackStrs : List String) (h26x : List Bool) (nLead : Nat) (res : Except Err (List Delivery)) : List String :=
  match res with
  | .error e =>
    if isPanic e then [s!"end {errStr e}"]
    else [s!"tracks {trackStrs.length} {joinOr "," trackStrs}", s!"end {errStr e}"]
  | .ok ds =>
    let trackLines := (List.range trackStrs.length).map fun i =>
      let mine := ds.filter (·.track = i)
      let showDts := (h26x[i]?).getD false
      let items := mine.map fun d =>
        let dts := if showDts then toString d.dts else "-"
        let ntp := if c.racy ∧ i ≥ nLead then "~" else ntpStr d.ntp
        s!"{d.payload}@{d.pts}/{dts}/{ntp}"
      s!"t{i} {joinOr ";" items}"
    [s!"tracks {trackStrs.length} {joinOr "," trackStrs}"] ++ trackLines ++ ["end eos"]

def startIdx (c : Case) : Nat := if c.mode = "live" then c.k - 3 else 0

def runFMP4 (c : Case) : List String :=
  let start := startIdx c
  -- `run` prefix of every stream
  let rec starts (streams : List (List Trk)) (isLeading : Bool) (firstIdx : Nat) : Except Err (List FStream) :=
    match streams with
    | [] => .ok []
    | ts :: rest =>
      let init0 : List InitTrack := ts.map fun t => { id := t.id, timeScale := t.rate, kind := t.kind, isVideo := t.video }
      match FStream.start isLeading firstIdx init0 with
      | .error e => .error e
      | .ok s =>
        match starts rest false (firstIdx + s.init.length) with
        | .error e => .error e
        | .ok ss => .ok (s :: ss)
  match starts c.tracks true 0 with
  | .error e =>
    if isPanic e then [s!"end {errStr e}"] else ["tracks 0 -", s!"end {errStr e}"]
  | .ok streams =>
    let infos := streams.flatMap (·.tracks)
    let kinds := streams.flatMap fun s => s.init.map fun t => (t.timeScale, t.kind)
    let trackStrs := kinds.map fun (r, k) => s!"{r}:{if kindKnown k then k else "nil"}"
    let h26x : List Bool := kinds.map fun (_, k) => k == "H264" || k == "H265"
    let nLead := (streams.head?.map (·.init.length)).getD 0
    let _ := infos
    let segsOf (i : Nat) : List Segment :=
      (((c.segs[i]?).getD []).drop start).map fun sd =>
        -- group the part-tracks by part number (container order is the line order)
        let ptsInOrder := sd.pts.reverse
        let partNos := ptsInOrder.map (·.1) |>.eraseDups
        { dateTime := sd.pdt, parts := partNos.map fun p => (ptsInOrder.filter (·.1 = p)).map (·.2) }
    let rec go (ss : List FStream) (i : Nat) (conv : Option FMP4Conv) : Except Err (List Delivery) :=
      match ss with
      | [] => .ok []
      | s :: rest =>
        match s.processSegments conv (segsOf i) with
        | .error e => .error e
        | .ok (s', conv', ds) =>
          -- repair of F15: a leading stream that reaches its end without track processors (every segment was empty) errors
          if (Hls.Gen.Robust.fmp4LeadingEndNeedsOrigin && s'.isLeading && s'.procs.isNone) = true then .error .noLeadingData else
          match go rest (i + 1) conv' with
          | .error e => .error e
          | .ok ds' => .ok (ds ++ ds')
    report c trackStrs h26x nLead (go streams 0 none)

def runTS (c : Case) : List String :=
  let start := startIdx c
  -- supported tracks per stream
  let sups := c.tracks.map fun ts => ts.filter (·.sup)
  match sups.find? (·.isEmpty) with
  | some _ => ["tracks 0 -", "end err:nosupported"]
  | none =>
    let trackStrs := sups.flatten.map fun t => s!"{mpegtsTrackClockRate}:{t.kind}"
    let h26x : List Bool := sups.flatten.map fun t => t.kind == "H264"
    let nLead := (sups.head?.map List.length).getD 0
    let segsOf (i : Nat) : List TSSegment :=
      (((c.segs[i]?).getD []).drop start).map fun sd => { dateTime := sd.pdt, samples := sd.ds.reverse }
    let rec go (ss : List (List Trk)) (i : Nat) (firstIdx : Nat) (conv : Option TSConv) : Except Err (List Delivery) :=
      match ss with
      | [] => .ok []
      | ts :: rest =>
        let leadingIdx := (ts.findIdx? (·.kind = "H264")).getD 0
        let s : TStream := { isLeading := i = 0, firstIdx := firstIdx, leadingIdx := leadingIdx }
        match tsProcessSegments s { conv := conv } (segsOf i) with
        | .error e => .error e
        | .ok (st, ds) =>
          match go rest (i + 1) (firstIdx + ts.length) st.conv with
          | .error e => .error e
          | .ok ds' => .ok (ds ++ ds')
    report c trackStrs h26x nLead (go sups 0 0 none)

def runCase (lines : List String) (n : Option Nat) : List String :=
  if n ≠ some lines.length then ["bad-case"] else
  match parseCase lines with
  | none => ["bad-case"]
  | some c => if c.fmt = "fmp4" then runFMP4 c else runTS c

end TC

structure St where
  lines : List String := []    -- definition lines of the current e2e case (reversed)

def step (s : St) (line : String) : St × List String :=
  match words line with
  | [] => (s, [])
  | "case" :: rest => ({}, [String.intercalate " " ("case" :: rest)])
  | "run" :: ws =>
    ({}, TC.runCase s.lines.reverse (kvNat ws "n"))
  | op :: ws =>
    if ["stream", "trk", "seg", "pt", "w", "d"].contains op then ({ s with lines := line :: s.lines }, [])
    else
      match TC.unitOp op ws with
      | some o => (s, [o])
      | none => (s, ["bad-op"])

def main : IO Unit := runDriver step ({} : St)
