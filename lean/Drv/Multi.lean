import Hls.Proto
import Hls.Playlist.Multi
import Hls.Playlist.Grammar
import Hls.Playlist.MultiSpec
/-! Model driver for the `multi` correspondence stream (C14 / C15, multivariant half +
    lexical primitives).  One observation line per op line.

    ops
      rl <hex>                 primitives.ReadLine            -> <hex line> <hex rest>
      attrs <hex>              Attributes.Unmarshal           -> ok k=v;k=v (sorted, hex) | err:<class>
      dur <hex>                Duration.Unmarshal             -> ok <ns> | err:num
      durfmt <ns>              FormatFloat(d.Seconds(),'f',5) -> <hex text>
      sec <ns>                 Duration.Seconds()             -> <bits>
      mul9 <bits>              int64(f * 1e9)                 -> <int>
      pf <hex>                 ParseFloat(s, 64)              -> ok <bits> | err:num
      ff <prec> <bits>         FormatFloat(f,'f',prec,64)     -> <hex text>
      pu <bits> <hex>          ParseUint(s, 10, bits)         -> ok <n> | err:num
      fi <int>                 FormatInt(i, 10)               -> <hex text>
      br <hex>                 ByteRange.Unmarshal            -> ok <len> <start|~> | err:num
      brm <len> <start|~>      ByteRange.Marshal              -> <hex text>
      mar <value>              Multivariant.Marshal, then Unmarshal of the result
                                                              -> m=<hex text> u=ok <value> | u=err:<class>
                                                                 wf=<WFMultivariant> lex=<wf and LexicalOK> [env=BAD]
                               (the harness prints its own, independently written, validity verdicts; `env=BAD` =
                                the value is well-formed but the float envelope `FloatOK` fails at it)
      unm <hex>                Multivariant.Unmarshal         -> ok <value> | err:<class>
      unmv <hex>               same (the harness additionally expects the value of the last `mar`)
      pl <hex>                 playlist.Unmarshal             -> none | multi <value> | other
      gram <hex>               strict RFC 8216 grammar (multivariant) -> 1 | 0   (Lean twin vs Go twin)
-/
open Hls.Proto Hls.Playlist

def strOfHex (h : String) : Option Str := (bytesOfHex h).map (·.map Char.ofNat)
def hexOfStr (s : Str) : String := hexOrDash (s.map Char.toNat)

/-- byte-wise lexicographic order (Go string `<`) -/
def strLt : Str → Str → Bool
  | [], [] => false
  | [], _ :: _ => true
  | _ :: _, [] => false
  | a :: as, b :: bs => if a.toNat < b.toNat then true else if a.toNat > b.toNat then false else strLt as bs

def insertSorted (x : Str × Str) : List (Str × Str) → List (Str × Str)
  | [] => [x]
  | y :: ys => if strLt x.1 y.1 then x :: y :: ys else y :: insertSorted x ys

def sortAttrs (m : List (Str × Str)) : List (Str × Str) := m.foldr insertSorted []

def fmtErr (e : Err) : String := "err:" ++ e.toString

def b01 (b : Bool) : String := if b then "1" else "0"

/-! value syntax -/

def fmtRendition (r : Rendition) : String :=
  let opt (k : String) (o : Option Str) : List String := match o with
    | some v => [k ++ "=" ++ hexOfStr v]
    | none => []
  String.intercalate " " (["R", "t=" ++ hexOfStr r.type, "g=" ++ hexOfStr r.groupID, "n=" ++ hexOfStr r.name,
    "l=" ++ hexOfStr r.language, "a=" ++ b01 r.autoselect, "d=" ++ b01 r.default, "f=" ++ b01 r.forced]
    ++ opt "ch" r.channels ++ opt "u" r.uri ++ opt "i" r.inStreamID)

def fmtVariant (v : Variant) : String :=
  String.intercalate " " (["V", s!"b={v.bandwidth}"]
    ++ (match v.averageBandwidth with | some a => [s!"ab={a}"] | none => [])
    ++ (match v.codecs with | [] => [] | cs => ["c=" ++ String.intercalate "," (cs.map hexOfStr)])
    ++ ["r=" ++ hexOfStr v.resolution]
    ++ (match v.frameRate with | some f => [s!"fr={f.bits}"] | none => [])
    ++ ["vi=" ++ hexOfStr v.video, "au=" ++ hexOfStr v.audio, "su=" ++ hexOfStr v.subtitles,
        "cc=" ++ hexOfStr v.closedCaptions, "u=" ++ hexOfStr v.uri])

def fmtMulti (m : Multivariant) : String :=
  String.intercalate " " ([s!"v={m.version}", "is=" ++ b01 m.independentSegments]
    ++ (match m.start with | some s => [s!"st={s.timeOffset}"] | none => [])
    ++ m.renditions.map fmtRendition ++ m.variants.map fmtVariant)

def fmtRes (r : Res Multivariant) : String :=
  match r with
  | .ok m => "ok " ++ fmtMulti m
  | .error e => fmtErr e

structure PState where
  m : Multivariant := {}
  cur : Nat := 0            -- 0 = top, 1 = rendition, 2 = variant
  r : Rendition := {}
  v : Variant := {}

def PState.flush (p : PState) : PState :=
  match p.cur with
  | 1 => { p with m := { p.m with renditions := p.m.renditions ++ [p.r] }, cur := 0, r := {} }
  | 2 => { p with m := { p.m with variants := p.m.variants ++ [p.v] }, cur := 0, v := {} }
  | _ => p

def splitKV (w : String) : Option (String × String) :=
  match w.splitOn "=" with
  | [k, v] => some (k, v)
  | _ => none

def parseBool (s : String) : Option Bool := if s = "1" then some true else if s = "0" then some false else none

def parseValueTok (p : PState) (w : String) : Option PState :=
  if w = "R" then some { p.flush with cur := 1 }
  else if w = "V" then some { p.flush with cur := 2 }
  else do
    let (k, x) ← splitKV w
    match p.cur with
    | 0 =>
      if k = "v" then some { p with m := { p.m with version := ← x.toInt? } }
      else if k = "is" then some { p with m := { p.m with independentSegments := ← parseBool x } }
      else if k = "st" then some { p with m := { p.m with start := some { timeOffset := ← x.toInt? } } }
      else none
    | 1 =>
      if k = "t" then some { p with r := { p.r with type := ← strOfHex x } }
      else if k = "g" then some { p with r := { p.r with groupID := ← strOfHex x } }
      else if k = "n" then some { p with r := { p.r with name := ← strOfHex x } }
      else if k = "l" then some { p with r := { p.r with language := ← strOfHex x } }
      else if k = "a" then some { p with r := { p.r with autoselect := ← parseBool x } }
      else if k = "d" then some { p with r := { p.r with default := ← parseBool x } }
      else if k = "f" then some { p with r := { p.r with forced := ← parseBool x } }
      else if k = "ch" then some { p with r := { p.r with channels := some (← strOfHex x) } }
      else if k = "u" then some { p with r := { p.r with uri := some (← strOfHex x) } }
      else if k = "i" then some { p with r := { p.r with inStreamID := some (← strOfHex x) } }
      else none
    | _ =>
      if k = "b" then some { p with v := { p.v with bandwidth := ← x.toInt? } }
      else if k = "ab" then some { p with v := { p.v with averageBandwidth := some (← x.toInt?) } }
      else if k = "c" then some { p with v := { p.v with codecs := ← (x.splitOn ",").mapM strOfHex } }
      else if k = "r" then some { p with v := { p.v with resolution := ← strOfHex x } }
      else if k = "fr" then some { p with v := { p.v with frameRate := some (F64.ofBits (← x.toNat?)) } }
      else if k = "vi" then some { p with v := { p.v with video := ← strOfHex x } }
      else if k = "au" then some { p with v := { p.v with audio := ← strOfHex x } }
      else if k = "su" then some { p with v := { p.v with subtitles := ← strOfHex x } }
      else if k = "cc" then some { p with v := { p.v with closedCaptions := ← strOfHex x } }
      else if k = "u" then some { p with v := { p.v with uri := ← strOfHex x } }
      else none

def parseValue (ws : List String) : Option Multivariant := do
  let p ← ws.foldlM parseValueTok ({} : PState)
  return p.flush.m

def optNat (s : String) : Option (Option Nat) := if s = "~" then some none else s.toNat?.map some

def runOp (ws : List String) : Option String :=
  match ws with
  | ["rl", h] => do
    let s ← strOfHex h
    match readLine s with
    | .ok (l, r) => some s!"{hexOfStr l} {hexOfStr r}"
    | .error e => some (fmtErr e)
  | ["attrs", h] => do
    let s ← strOfHex h
    match parseAttrs s with
    | .ok m => some ("ok " ++ String.intercalate ";" ((sortAttrs m).map fun kv => hexOfStr kv.1 ++ "=" ++ hexOfStr kv.2))
    | .error e => some (fmtErr e)
  | ["dur", h] => do
    match durUnmarshal (← strOfHex h) with
    | .ok d => some s!"ok {d}"
    | .error e => some (fmtErr e)
  | ["durfmt", d] => do some (hexOfStr (durFmt5 (← d.toInt?)))
  | ["sec", d] => do some s!"{(secondsF (← d.toInt?)).bits}"
  | ["mul9", b] => do some s!"{F64.toInt64 (F64.mulNat (F64.ofBits (← b.toNat?)) 1000000000)}"
  | ["pf", h] => do
    match parseFloat (← strOfHex h) with
    | .ok f => some s!"ok {f.bits}"
    | .error e => some (fmtErr e)
  | ["ff", p, b] => do some (hexOfStr (F64.fmtFixed (← p.toNat?) (F64.ofBits (← b.toNat?))))
  | ["pu", bits, h] => do
    match parseUint (← bits.toNat?) (← strOfHex h) with
    | .ok n => some s!"ok {n}"
    | .error e => some (fmtErr e)
  | ["fi", i] => do some (hexOfStr (formatInt (← i.toInt?)))
  | ["br", h] => do
    match ByteRange.unmarshal (← strOfHex h) with
    | .ok b => some s!"ok {b.length} {match b.start with | some s => toString s | none => "~"}"
    | .error e => some (fmtErr e)
  | ["brm", l, s] => do some (hexOfStr (ByteRange.marshal { length := ← l.toNat?, start := ← optNat s }))
  | "mar" :: rest => do
    let m ← parseValue rest
    let t := m.marshal
    let wf := decide (WFMultivariant m)
    let lex := wf && decide (LexicalOK m)
    -- the float envelope, evaluated at this value: a well-formed value outside it is reported
    let env := if wf && !decide (FloatOK m) then " env=BAD" else ""
    some s!"m={hexOfStr t} u={fmtRes (Multivariant.unmarshal t)} wf={b01 wf} lex={b01 lex}{env}"
  | ["unm", h] => do some (fmtRes (Multivariant.unmarshal (← strOfHex h)))
  | ["gram", h] => do some (if Grammar.acceptsMultivariant (← strOfHex h) then "1" else "0")
  | ["unmv", h] => do some (fmtRes (Multivariant.unmarshal (← strOfHex h)))
  | ["pl", h] => do
    let s ← strOfHex h
    match findType s with
    | .error .eof => some "none"
    | .error e => some (fmtErr e)
    | .ok .media => some "other"
    | .ok .multivariant =>
      match Multivariant.unmarshal s with
      | .ok m => some ("multi " ++ fmtMulti m)
      | .error .panic => some (fmtErr .panic)
      | .error _ => some "other"
  | _ => none

def step (_ : Unit) (line : String) : Unit × List String :=
  match words line with
  | [] => ((), [])
  | "case" :: rest => ((), [String.intercalate " " ("case" :: rest)])
  | ws =>
    match runOp ws with
    | none => ((), ["bad-op"])
    | some o => ((), [o])

def main : IO Unit := runDriver step ()
