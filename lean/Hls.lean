import Hls.Proto
import Hls.Storage.Model
import Hls.Props.C17
