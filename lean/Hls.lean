import Hls.Proto
