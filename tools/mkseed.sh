#!/bin/bash
# usage: mkseed.sh C11 C12 ...
for id in "$@"; do
  git -C /repo worktree add -q --detach /tmp/seed-$id HEAD
  python3 - "$id" <<'PY'
import json,sys
pid=sys.argv[1]
for l in open('/verif/properties.jsonl'):
    p=json.loads(l)
    if p['id']==pid:
        open(f"/tmp/seed-{pid}.prop.txt",'w').write(f"{p['id']} — {p['title']}\n\nStatement: {p['statement']}\n\nQuantifier: {p['quantifier']['text']}\n\nAnchored in files: {', '.join(p['anchors']['files'])}\n")
PY
  python3 /verif/tools/seed_prompt.py $id > /tmp/seed-$id.prompt.txt
  echo prepared $id
done
