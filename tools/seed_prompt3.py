"""tools/seed_prompt3.py <group> <prop ids comma> <files comma>  -> prompt on stdout (round 3: file-targeted)
The agent works in /tmp/seed-<group>, writes {out}/<k>/ and names in meta.json the property it breaks."""
import sys, json, glob
grp, pids, files = sys.argv[1], sys.argv[2].split(','), sys.argv[3].split(',')
out = sys.argv[4] if len(sys.argv) > 4 else '{out}'
props = []
for l in open('/verif/properties.jsonl'):
    p = json.loads(l)
    if p['id'] in pids:
        props.append(f"{p['id']} — {p['title']}\nStatement: {p['statement']}\nQuantifier: {p['quantifier']['text']}\n")
tried = []
for f in sorted(glob.glob('/verif/seeded/*/meta.json')):
    m = json.load(open(f))
    s = (m.get('summary') or '')
    if any(x.split('/')[-1] in s for x in files):
        tried.append('- ' + s[:220].replace('\n', ' '))
print(f"""You are a software engineer helping to evaluate a verification effort by producing realistic, subtle regressions of a Go library. You work ONLY in the git worktree /tmp/seed-{grp} (a scratch checkout of the library github.com/bluenviron/gohlslib/v2, an HLS client/muxer library). Do not look at or touch anything outside that directory (in particular never read /verif or /work or /repo). Every shell call needs: export GOFLAGS=-mod=mod GOPROXY=off GOSUMDB=off GOTOOLCHAIN=local (there is no network; dependencies are in the module cache).

Here are semantic properties the library is supposed to satisfy:

{chr(10).join(props)}

Your job: produce THREE different, independent source changes ("seeded defects"), each made ONLY in these files (choose sites and mechanisms nobody has tried yet): {', '.join(files)}. Each change
 (1) still compiles (`go build ./ ./pkg/...` and `go vet . ./pkg/...` in the worktree),
 (2) still passes the library's existing test-suite unchanged: `go test -vet=off -count=1 . ./pkg/...` (run it; it takes ~10 s; a failure mentioning "address already in use" is a port clash with another checkout - just re-run),
 (3) BREAKS one of the properties above (say which one: the one it breaks most directly), and
 (4) needs something specific to manifest — a particular interleaving, a multi-step sequence of operations, an unusual but legal input/configuration, a boundary value, or two cooperating sites that each look fine alone — NOT something that ordinary use (the typical happy path the tests exercise) would expose at once. Think of the kind of bug that slips through code review: an off-by-one on a rarely-taken branch, a condition that is wrong only when two values coincide, a field forgotten in one of several similar code paths, a refactoring that is equivalent except on one path, an error path that forgets a cleanup or reports the wrong thing. Do not add files guarded by build tags, do not touch `verif_*.go` files or lines calling `verifYield` (they are test instrumentation), do not modify tests, do not make the change depend on environment variables, time of day or randomness.

Changes already produced by other engineers that involve these files (do NOT repeat their mechanisms):
{chr(10).join(tried) if tried else '(none)'}

For each of the three changes deliver, under /tmp/seed-{grp}/{out}/<k>/ (k = 1,2,3; create the directories; `{out}/` is not part of the library):
 - `patch.diff` : `git diff` of the change against the worktree's HEAD (only library source files), and NOTHING else changed in the worktree while you create it (reset between changes with `git checkout -- . && git clean -fd -e {out}`),
 - `demo_test.go` (package gohlslib or the relevant sub-package; say in meta.json where it must be placed): a demonstration that FAILS with the change applied and PASSES without it — verify both directions yourself and paste the two outputs into meta.json,
 - `meta.json` : {{"property": "<the id of the property it breaks, e.g. C10>", "summary": "<one paragraph: what was changed>", "needs": "<what it needs in order to manifest>", "demo_location": "<path where the demo file goes, relative to the worktree root, e.g. demo_g_test.go or pkg/playlist/demo_g_test.go>", "demo_cmd": "<one shell command, run from the worktree root, that first copies {out}/<k>/demo_test.go to demo_location, runs the test, and removes the copy again>", "output_with_change": "...", "output_without_change": "...", "existing_tests_pass_with_change": true}}.
Make the three changes genuinely different from each other (different functions / different mechanisms, if possible different files of the list). When done, leave the worktree clean except for `{out}/` and report a 10-line summary of the three changes.""")
