import sys, json, glob
pid=sys.argv[1]
prop=open(f'/tmp/seed-{pid}.prop.txt').read()
tried=[]
for f in sorted(glob.glob(f'/verif/seeded/{pid}-*/meta.json')):
    m=json.load(open(f)); tried.append('- '+(m.get('summary') or '')[:300].replace('\n',' '))
base=open('/tmp/seed-%s.prompt.txt'%pid).read()
extra=f"""

SECOND ROUND. Other engineers already produced the following changes for this property; do NOT repeat their mechanisms or sites, find DIFFERENT ones (other functions, other kinds of mistake), and make them HARDER to notice: prefer (a) two cooperating edits that each look harmless, (b) mistakes that only matter for a specific numeric coincidence or boundary (equal timestamps, a count that is exactly a limit, a window that slides exactly when something else happens), (c) state that is updated in the wrong order relative to another update, or on one of two nearly identical code paths (e.g. one variant / one codec / one storage mode / the non-leading stream only), (d) for concurrency-related properties a window of a few statements between a lock release and a notification. Already tried:
{chr(10).join(tried)}

Write your three changes to /tmp/seed-{pid}/out2/<k>/ (k = 1,2,3) instead of out/<k>/ (same files: patch.diff, demo, meta.json)."""
print(base.replace(f"report a 10-line summary of the three changes.", "report a 10-line summary of the three changes.")+extra)
