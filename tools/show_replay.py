import json,glob,os,sys
f=sys.argv[1] if len(sys.argv)>1 else max(glob.glob('/verif/replays/*.json'),key=os.path.getmtime)
b=json.load(open(f))
print(f, b.get('kind'), b.get('summary'))
d=b['detail'] if isinstance(b.get('detail'),dict) else b
for k in ('ops','impl','model','oracle'):
    print('==',k)
    for l in (d.get(k) or []): print(' ',l[:900])
if isinstance(b.get('detail'),str): print(b['detail'][-2500:])
