#!/usr/bin/env python3
"""Regenerates the generated sections of DESIGN.md (between <!-- GEN:name --> … <!-- /GEN:name --> markers):
findings (from known_findings.json), seeds (from seeded/*/meta.json), status (per property: theorems, streams, texts)."""
import json, glob, os, re, subprocess
ROOT = os.path.dirname(os.path.dirname(os.path.abspath(__file__)))

def strip_comments(src):
    out, depth, i = [], 0, 0
    while i < len(src):
        if src.startswith("/-", i): depth += 1; i += 2; continue
        if src.startswith("-/", i) and depth > 0: depth -= 1; i += 2; continue
        if depth == 0: out.append(src[i])
        elif src[i] == "\n": out.append("\n")
        i += 1
    return "\n".join(l.split("--")[0] for l in "".join(out).split("\n"))

def theorem_names(f):
    names = []
    for line in strip_comments(open(f).read()).split("\n"):
        m = re.match(r"\s*(?:@\[[^\]]*\]\s*)?(?:private\s+|protected\s+)?theorem\s+(\S+)", line)
        if m: names.append(m.group(1))
    return names

def findings():
    k = json.load(open(os.path.join(ROOT, "known_findings.json")))["findings"]
    out = "| id | property | status | what fails / failed (replay) |\n|---|---|---|---|\n"
    for f in k:
        what = f.get("what") or re.sub(r"^fixed: property=\S+ \S+ ", "", f.get("line", ""))
        st = "known" if f["status"] == "known" else f"fixed by `{f.get('commit','')}`"
        props = f["property"] + ("" if not f.get("also") else " (+" + ", ".join(x for x in f["also"] if x != "MX") + ")")
        out += f"| {f['id']} | {props} | {st} | {what.replace('|','/')} |\n"
    return out

def seeds():
    out = "| seed | change | needs | detected by |\n|---|---|---|---|\n"
    for f in sorted(glob.glob(os.path.join(ROOT, "seeded", "*", "meta.json"))):
        m = json.load(open(f)); v = m.get("verification", {}); n = f.split("/")[-2]
        det = []
        for cid, c in v.get("checks", {}).items():
            if c["detected"]:
                o = [l for l in c["output"] if l.startswith("VIOLATION")]
                nf = "no-failing-input-found" in (o[0] if o else "")
                det.append(f"{cid}: " + ("obligation / tie broken (no-failing-input-found)" if nf else "failing input"))
            else:
                det.append(f"{cid}: MISSED")
        conf = "" if v.get("confirmed") else " (NOT CONFIRMED)"
        out += f"| {n}{conf} | {(m.get('summary') or '')[:220].replace(chr(10),' ').replace('|','/')} | {(m.get('needs') or '')[:160].replace(chr(10),' ').replace('|','/')} | {'; '.join(det)} |\n"
    return out

def status():
    meta = json.load(open(os.path.join(ROOT, "manifest_meta.json")))["properties"]
    out = ""
    for pid in sorted(meta):
        cfgp = os.path.join(ROOT, "checks", pid + ".json")
        if not os.path.exists(cfgp): continue
        cfg = json.load(open(cfgp)); m = meta[pid]
        pfs = cfg.get("props_files") or [cfg.get("props_file", f"Hls/Props/{pid}.lean")]
        names = []
        for pf in pfs: names += theorem_names(os.path.join(ROOT, "lean", pf))
        ev = {}
        evp = os.path.join(ROOT, "evidence", pid + ".json")
        if os.path.exists(evp): ev = json.load(open(evp))
        cov = ev.get("coverage", {})
        streams = ", ".join(f"`{s['slice']}` ({s.get('quick_n','?')}/{s.get('thorough_n','?')} cases, driver `{s['driver']}`)" for s in cfg.get("streams", []))
        extra = ", ".join(f"`{e['cmd']}`" for e in cfg.get("extra", []))
        out += f"### {pid}\n"
        out += f"* **Theorems** ({len(names)}; `{', '.join(pfs)}`): " + ", ".join(f"`{n}`" for n in names) + "\n"
        out += f"* **What they say**: {m.get('text','')}\n"
        out += f"* **Assumed / partial / trusted**: {m.get('note','')}\n"
        out += f"* **Tie**: T1 regenerated `Hls/Gen/*` + T2 streams {streams}" + (f"; extra search {extra}" if extra else "") + "\n"
        if cov:
            out += f"* **Last evidence** ({ev.get('tier')}, seed {ev.get('seed')}): {cov.get('discharged')}/{cov.get('obligations')} theorems audited, {cov.get('evaluations')} T2 cases ({cov.get('distinct_nontrivial')} distinct), {cov.get('ops_executed')} ops, {ev.get('wall_s')} s\n"
        out += "\n"
    return out

def replace(s, name, body):
    a, b = f"<!-- GEN:{name} -->", f"<!-- /GEN:{name} -->"
    if a not in s:
        return s + f"\n{a}\n{body}{b}\n"
    i, j = s.index(a) + len(a), s.index(b)
    return s[:i] + "\n" + body + s[j:]

p = os.path.join(ROOT, "DESIGN.md")
s = open(p).read()
for name, fn in (("findings", findings), ("seeds", seeds), ("status", status)):
    s = replace(s, name, fn())
open(p, "w").write(s)
print("DESIGN.md generated sections updated")
