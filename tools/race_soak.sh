#!/bin/sh
# C08 supporting search: -race build of the harness + seeded stress schedules (see tools/race_soak.py).
# usage: tools/race_soak.sh <quick|thorough> <seed>      (run by ./check C08 … as an `extra` command)
exec python3 "$(dirname "$0")/race_soak.py" "$@"
